/- Helper lemmas for Props/C14.lean, file-name part (core Lean only). -/
import Model.Files

namespace Files

/-! ### candidate names are pairwise different -/

theorem ofDigitChars_pad2 (k : Nat) : Nat.ofDigitChars 10 (pad2 k) 0 = k := by
  unfold pad2
  simp only
  split
  · rw [Nat.ofDigitChars_cons]; simp
  · simp

theorem pad2_inj {a b : Nat} (h : pad2 a = pad2 b) : a = b := by
  have := congrArg (fun l => Nat.ofDigitChars 10 l 0) h
  simpa [ofDigitChars_pad2] using this

theorem toDigits_inj {a b : Nat} (h : Nat.toDigits 10 a = Nat.toDigits 10 b) : a = b := by
  have := congrArg (fun l => Nat.ofDigitChars 10 l 0) h
  simpa using this

theorem candidate_inj (name ext : Name) {a b : Nat}
    (h : candidate name ext a = candidate name ext b) : a = b := by
  cases a with
  | zero =>
    cases b with
    | zero => rfl
    | succ b =>
      simp only [candidate] at h
      have := List.append_cancel_left h
      simp at this
  | succ a =>
    cases b with
    | zero =>
      simp only [candidate] at h
      have := List.append_cancel_left h
      simp at this
    | succ b =>
      simp only [candidate] at h
      have h1 := List.append_cancel_left h
      simp only [List.cons.injEq, true_and] at h1
      have h2 : pad2 a = pad2 b := List.append_cancel_right h1
      rw [pad2_inj h2]

theorem backupCandidate_inj (base ext : Name) {a b : Nat}
    (h : backupCandidate base ext a = backupCandidate base ext b) : a = b := by
  simp only [backupCandidate] at h
  have h1 := List.append_cancel_left h
  simp only [List.cons.injEq, true_and] at h1
  have h2 := List.append_cancel_right h1
  have := toDigits_inj h2
  omega

/-! ### the bounded search -/

theorem searchFrom_some {ex : Name → Bool} {cand : Nat → Name} :
    ∀ (fuel k : Nat) (n : Name), searchFrom ex cand fuel k = some n →
      ∃ j, k ≤ j ∧ j < k + fuel ∧ n = cand j ∧ ex (cand j) = false ∧
        ∀ i, k ≤ i → i < j → ex (cand i) = true := by
  intro fuel
  induction fuel with
  | zero => intro k n h; simp [searchFrom] at h
  | succ fuel ih =>
    intro k n h
    simp only [searchFrom] at h
    split at h
    · rename_i hex
      obtain ⟨j, hkj, hjf, hn, hexj, hall⟩ := ih (k + 1) n h
      refine ⟨j, by omega, by omega, hn, hexj, ?_⟩
      intro i hki hij
      by_cases hik : i = k
      · rw [hik]; exact hex
      · exact hall i (by omega) hij
    · rename_i hex
      simp only [Option.some.injEq] at h
      refine ⟨k, Nat.le_refl _, by omega, h.symm, by simpa using hex, ?_⟩
      intro i hki hik; omega

theorem searchFrom_none {ex : Name → Bool} {cand : Nat → Name} :
    ∀ (fuel k : Nat), searchFrom ex cand fuel k = none →
      ∀ i, k ≤ i → i < k + fuel → ex (cand i) = true := by
  intro fuel
  induction fuel with
  | zero => intro k _ i h1 h2; omega
  | succ fuel ih =>
    intro k h i hki hif
    simp only [searchFrom] at h
    split at h
    · rename_i hex
      by_cases hik : i = k
      · rw [hik]; exact hex
      · exact ih (k + 1) h i (by omega) (by omega)
    · cases h

/-- pigeonhole: an injective sequence cannot have its first `n` members in a list shorter
than `n` -/
theorem prefix_in_list_le {cand : Nat → Name} (hinj : ∀ a b, cand a = cand b → a = b)
    (l : List Name) (n : Nat) (h : ∀ i, i < n → cand i ∈ l) : n ≤ l.length := by
  have hnd : ((List.range n).map cand).Nodup := by
    unfold List.Nodup
    rw [List.pairwise_map]
    exact List.Pairwise.imp (fun {a b} hab hc => hab (hinj a b hc)) (List.nodup_range (n := n))
  have hsub : (List.range n).map cand ⊆ l := by
    intro x hx
    simp only [List.mem_map, List.mem_range] at hx
    obtain ⟨i, hi, rfl⟩ := hx
    exact h i hi
  have := List.Nodup.length_le_of_subset hnd hsub
  simpa using this

theorem existsB_iff {γ} (d : Dir γ) (n : Name) : existsB d n = true ↔ n ∈ names d := by
  simp [existsB]

/-- the fuel `|d| + 1` always suffices -/
theorem search_terminates {γ} (d : Dir γ) {cand : Nat → Name}
    (hinj : ∀ a b, cand a = cand b → a = b) :
    ∃ n, searchFrom (existsB d) cand (d.length + 1) 0 = some n := by
  cases h : searchFrom (existsB d) cand (d.length + 1) 0 with
  | some n => exact ⟨n, rfl⟩
  | none =>
    exfalso
    have hall := searchFrom_none (d.length + 1) 0 h
    have : d.length + 1 ≤ (names d).length := by
      apply prefix_in_list_le hinj
      intro i hi
      exact (existsB_iff d _).mp (hall i (Nat.zero_le _) (by omega))
    simp only [names, List.length_map] at this
    omega

/-! ### directories -/

theorem del_cons {γ} (a : Name) (c : γ) (t : Dir γ) (n : Name) :
    del ((a, c) :: t) n = if a = n then del t n else (a, c) :: del t n := by
  unfold del
  rw [List.filter_cons]
  by_cases h : a = n <;> simp [h]

theorem get_cons {γ} (a : Name) (c : γ) (t : Dir γ) (m : Name) :
    get ((a, c) :: t) m = if m = a then some c else get t m := by
  unfold get
  rw [List.lookup_cons]
  by_cases h : m = a
  · simp [h]
  · have : (m == a) = false := by simpa using h
    simp [h, this]

theorem get_del_self {γ} (d : Dir γ) (n : Name) : get (del d n) n = none := by
  induction d with
  | nil => rfl
  | cons e t ih =>
    obtain ⟨a, c⟩ := e
    rw [del_cons]
    by_cases h : a = n
    · simp only [h, ↓reduceIte]; exact ih
    · simp only [h, ↓reduceIte]
      rw [get_cons]
      have : n ≠ a := fun hh => h hh.symm
      simp only [this, ↓reduceIte]; exact ih

theorem get_del_ne {γ} (d : Dir γ) (n m : Name) (h : m ≠ n) : get (del d n) m = get d m := by
  induction d with
  | nil => rfl
  | cons e t ih =>
    obtain ⟨a, c⟩ := e
    rw [del_cons, get_cons]
    by_cases han : a = n
    · simp only [han, ↓reduceIte, h]; exact ih
    · simp only [han, ↓reduceIte]
      rw [get_cons]
      by_cases hma : m = a
      · simp [hma]
      · simp only [hma, ↓reduceIte]; exact ih

theorem get_put_self {γ} (d : Dir γ) (n : Name) (c : γ) : get (put d n c) n = some c := by
  unfold put; rw [get_cons]; simp

theorem get_put_ne {γ} (d : Dir γ) (n m : Name) (c : γ) (h : m ≠ n) :
    get (put d n c) m = get d m := by
  unfold put; rw [get_cons]; simp only [h, ↓reduceIte]
  exact get_del_ne d n m h

theorem get_isSome_iff {γ} (d : Dir γ) (n : Name) : (get d n).isSome = true ↔ n ∈ names d := by
  induction d with
  | nil => simp [get, names]
  | cons e t ih =>
    obtain ⟨a, c⟩ := e
    rw [get_cons]
    simp only [names, List.map_cons, List.mem_cons]
    by_cases hna : n = a
    · simp [hna]
    · simp only [hna, ↓reduceIte, false_or]; exact ih

theorem get_none_of_not_exists {γ} (d : Dir γ) (n : Name) (h : existsB d n = false) :
    get d n = none := by
  cases hg : get d n with
  | none => rfl
  | some c =>
    have : n ∈ names d := (get_isSome_iff d n).mp (by simp [hg])
    have := (existsB_iff d n).mpr this
    rw [h] at this; cases this

theorem length_del_of_not_exists {γ} (d : Dir γ) (n : Name) (h : existsB d n = false) :
    del d n = d := by
  have hn : n ∉ names d := fun hh => by
    have := (existsB_iff d n).mpr hh; rw [h] at this; cases this
  unfold del
  rw [List.filter_eq_self]
  intro e he
  have : e.1 ≠ n := fun hh => hn (by rw [← hh]; exact List.mem_map_of_mem he)
  simpa using this

/-! ### one write -/

/-- complete description of one write through `get_new_file_name` -/
theorem writeNew_spec {γ} (d : Dir γ) (name ext : Name) (c : γ) :
    ∃ j, writeNew d name ext c = some ((candidate name ext j, c) :: d, candidate name ext j) ∧
      existsB d (candidate name ext j) = false ∧
      ∀ i, i < j → existsB d (candidate name ext i) = true := by
  obtain ⟨n, hn⟩ := search_terminates d (cand := candidate name ext)
    (fun a b h => candidate_inj name ext h)
  obtain ⟨j, _, _, hnj, hex, hall⟩ := searchFrom_some _ _ _ hn
  refine ⟨j, ?_, hex, fun i hi => hall i (Nat.zero_le _) hi⟩
  unfold writeNew newFileName
  rw [hn, hnj]
  simp only [put]
  rw [length_del_of_not_exists d _ hex]

end Files

namespace Files

/-! ### create_backup -/

theorem createBackup_spec {γ} (d : Dir γ) (f : Name) (r : Bool) :
    (get d f = none ∧ createBackup d f r = none) ∨
    (∃ c j, get d f = some c ∧
      existsB d (backupCandidate (splitext f).1 (splitext f).2 j) = false ∧
      (∀ i, i < j → existsB d (backupCandidate (splitext f).1 (splitext f).2 i) = true) ∧
      createBackup d f r = some
        (if r then put (del d f) (backupCandidate (splitext f).1 (splitext f).2 j) c
         else put d (backupCandidate (splitext f).1 (splitext f).2 j) c,
         backupCandidate (splitext f).1 (splitext f).2 j)) := by
  cases hg : get d f with
  | none => left; exact ⟨rfl, by simp [createBackup, hg]⟩
  | some c =>
    right
    obtain ⟨n, hn⟩ := search_terminates d (cand := backupCandidate (splitext f).1 (splitext f).2)
      (fun a b h => backupCandidate_inj _ _ h)
    obtain ⟨j, _, _, hnj, hex, hall⟩ := searchFrom_some _ _ _ hn
    refine ⟨c, j, rfl, hex, fun i hi => hall i (Nat.zero_le _) hi, ?_⟩
    simp only [createBackup, hg, hn, hnj]
    cases r <;> simp

/-! ### histories -/

def writes {γ} (ws : List (Name × Name × γ)) : List (Op γ) :=
  ws.map fun w => .write w.1 w.2.1 w.2.2

theorem run_cons {γ} (d : Dir γ) (op : Op γ) (t : List (Op γ)) :
    run d (op :: t) = ((run (step d op).1 t).1, (step d op).2 :: (run (step d op).1 t).2) := rfl

theorem mem_names_cons {γ} (a : Name) (c : γ) (d : Dir γ) (m : Name) :
    m ∈ names ((a, c) :: d) ↔ m = a ∨ m ∈ names d := by
  simp [names]

/-- `k` successive writes: `k` pairwise different new names, none of which existed, every
earlier file (and every file created on the way) keeps its content. -/
theorem run_writes {γ} (ws : List (Name × Name × γ)) :
    ∀ d : Dir γ, ∃ ns : List Name,
      (run d (writes ws)).2 = ns.map some ∧
      ns.length = ws.length ∧
      ns.Nodup ∧
      (∀ n ∈ ns, n ∉ names d) ∧
      (∀ m, m ∉ ns → get (run d (writes ws)).1 m = get d m) ∧
      (run d (writes ws)).1.length = d.length + ws.length ∧
      (∀ p ∈ ns.zip ws, get (run d (writes ws)).1 p.1 = some p.2.2.2) := by
  induction ws with
  | nil =>
    intro d
    exact ⟨[], rfl, rfl, List.nodup_nil, by simp, fun _ _ => rfl, rfl, by simp⟩
  | cons w t ih =>
    intro d
    obtain ⟨name, ext, c⟩ := w
    obtain ⟨j, hw, hex, _⟩ := writeNew_spec d name ext c
    have hstep : step d (Op.write name ext c) =
        ((candidate name ext j, c) :: d, some (candidate name ext j)) := by
      simp only [step, hw]
    obtain ⟨ns', h2, hlen, hnd, hnot, hget, hl, hcont⟩ := ih ((candidate name ext j, c) :: d)
    have hjn : candidate name ext j ∉ ns' := fun hh =>
      hnot _ hh ((mem_names_cons _ _ _ _).mpr (Or.inl rfl))
    have hnotin : candidate name ext j ∉ names d := fun hh => by
      have := (existsB_iff d _).mpr hh; rw [hex] at this; cases this
    refine ⟨candidate name ext j :: ns', ?_, ?_, ?_, ?_, ?_, ?_, ?_⟩
    · simp only [writes, List.map_cons] at h2 ⊢
      rw [run_cons, hstep]; simp only [h2]
    · simp [hlen]
    · exact List.nodup_cons.mpr ⟨hjn, hnd⟩
    · intro n hn
      rcases List.mem_cons.mp hn with rfl | hn
      · exact hnotin
      · exact fun hh => hnot n hn ((mem_names_cons _ _ _ _).mpr (Or.inr hh))
    · intro m hm
      have hm1 : m ≠ candidate name ext j := fun hh => hm (by rw [hh]; exact List.mem_cons_self)
      have hm2 : m ∉ ns' := fun hh => hm (List.mem_cons_of_mem _ hh)
      simp only [writes, List.map_cons] at hget ⊢
      rw [run_cons, hstep]
      simp only
      rw [hget m hm2, get_cons]; simp only [hm1, ↓reduceIte]
    · simp only [writes, List.map_cons, List.length_cons] at hl ⊢
      rw [run_cons, hstep]
      show (run ((candidate name ext j, c) :: d) (List.map (fun w => Op.write w.1 w.2.1 w.2.2) t)).1.length = _
      rw [hl]; omega
    · intro p hp
      simp only [writes, List.map_cons] at hcont hget ⊢
      rw [run_cons, hstep]; simp only
      simp only [List.zip_cons_cons, List.mem_cons] at hp
      rcases hp with rfl | hp
      · simp only
        rw [hget _ hjn, get_cons]; simp
      · exact hcont p hp

/-- does the operation remove or rename the file `m`? -/
def touches {γ} (op : Op γ) (m : Name) : Bool :=
  match op with
  | .write _ _ _ => false
  | .delete f => f == m
  | .backup f r => r && f == m
  | .create f _ => f == m

theorem step_keeps {γ} (d : Dir γ) (op : Op γ) (m : Name) (c : γ)
    (hg : get d m = some c) (ht : touches op m = false) : get (step d op).1 m = some c := by
  have hmex : m ∈ names d := (get_isSome_iff d m).mp (by simp [hg])
  have hne_of_fresh : ∀ n, existsB d n = false → m ≠ n := fun n hn hh => by
    have := (existsB_iff d n).mpr (hh ▸ hmex); rw [hn] at this; cases this
  cases op with
  | write name ext c' =>
    obtain ⟨j, hw, hex, _⟩ := writeNew_spec d name ext c'
    simp only [step, hw]
    rw [get_cons]; simp only [hne_of_fresh _ hex, ↓reduceIte]; exact hg
  | delete f =>
    simp only [touches, beq_eq_false_iff_ne, ne_eq] at ht
    simp only [step]
    rw [get_del_ne d f m (fun hh => ht hh.symm)]; exact hg
  | backup f r =>
    rcases createBackup_spec d f r with ⟨_, hnone⟩ | ⟨c0, j, _, hex, _, hsome⟩
    · simp only [step, hnone]; exact hg
    · simp only [step, hsome]
      have hmn := hne_of_fresh _ hex
      cases r with
      | false =>
        simp only [Bool.false_eq_true, ↓reduceIte]
        rw [get_put_ne _ _ _ _ hmn]; exact hg
      | true =>
        simp only [↓reduceIte]
        simp only [touches, Bool.true_and, beq_eq_false_iff_ne, ne_eq] at ht
        rw [get_put_ne _ _ _ _ hmn, get_del_ne d f m (fun hh => ht hh.symm)]; exact hg
  | create f c' =>
    simp only [touches, beq_eq_false_iff_ne, ne_eq] at ht
    simp only [step]
    rw [get_put_ne d f m c' (fun hh => ht hh.symm)]; exact hg

theorem run_keeps {γ} (ops : List (Op γ)) :
    ∀ (d : Dir γ) (m : Name) (c : γ), get d m = some c →
      (∀ op ∈ ops, touches op m = false) → get (run d ops).1 m = some c := by
  induction ops with
  | nil => intro d m c hg _; exact hg
  | cons op t ih =>
    intro d m c hg ht
    rw [run_cons]
    exact ih _ m c (step_keeps d op m c hg (ht op List.mem_cons_self))
      (fun o ho => ht o (List.mem_cons_of_mem _ ho))

/-- every name produced during a history did not exist at the moment it was produced -/
theorem step_fresh {γ} (d : Dir γ) (op : Op γ) (n : Name) (h : (step d op).2 = some n) :
    n ∉ names d ∧ n ∈ names (step d op).1 := by
  cases op with
  | write name ext c =>
    obtain ⟨j, hw, hex, _⟩ := writeNew_spec d name ext c
    simp only [step, hw, Option.some.injEq] at h ⊢
    subst h
    refine ⟨fun hh => ?_, (mem_names_cons _ _ _ _).mpr (Or.inl rfl)⟩
    have := (existsB_iff d _).mpr hh
    rw [hex] at this; cases this
  | delete f => simp [step] at h
  | backup f r =>
    rcases createBackup_spec d f r with ⟨_, hnone⟩ | ⟨c0, j, _, hex, _, hsome⟩
    · simp [step, hnone] at h
    · simp only [step, hsome, Option.some.injEq] at h ⊢
      subst h
      refine ⟨fun hh => ?_, ?_⟩
      · have := (existsB_iff d _).mpr hh
        rw [hex] at this; cases this
      · apply (get_isSome_iff _ _).mp
        cases r <;> simp [get_put_self]
  | create f c => simp [step] at h

end Files

namespace Files

/-! ### repeated outputs of one model: the documented sequence of names -/

/-- exactly the first `i` candidates of (name, ext) exist -/
def ExactlyFirst {γ} (d : Dir γ) (name ext : Name) (i : Nat) : Prop :=
  ∀ j, candidate name ext j ∈ names d ↔ j < i

theorem write_next {γ} (d : Dir γ) (name ext : Name) (c : γ) (i : Nat) (h : ExactlyFirst d name ext i) :
    writeNew d name ext c = some ((candidate name ext i, c) :: d, candidate name ext i) ∧
    ExactlyFirst ((candidate name ext i, c) :: d) name ext (i + 1) := by
  obtain ⟨j, hw, hex, hall⟩ := writeNew_spec d name ext c
  have hj_not : candidate name ext j ∉ names d := fun hh => by
    have := (existsB_iff d _).mpr hh; rw [hex] at this; cases this
  have h1 : ¬ j < i := fun hlt => hj_not ((h j).mpr hlt)
  have h2 : ¬ i < j := fun hlt => by
    have := (existsB_iff d _).mp (hall i hlt)
    exact Nat.lt_irrefl i ((h i).mp this)
  have hji : j = i := by omega
  subst hji
  refine ⟨hw, ?_⟩
  intro j'
  rw [mem_names_cons]
  constructor
  · rintro (heq | hmem)
    · have := candidate_inj name ext heq; omega
    · have := (h j').mp hmem; omega
  · intro hlt
    by_cases hji : j' = j
    · left; rw [hji]
    · right; exact (h j').mpr (by omega)

/-- `k` outputs of one (name, ext) from a directory without such files are named
`name.ext, name~00.ext, name~01.ext, …` in this order -/
theorem same_name_run {γ} (name ext : Name) : ∀ (cs : List γ) (d : Dir γ) (i : Nat),
    ExactlyFirst d name ext i →
    (run d (cs.map fun c => Op.write name ext c)).2 = (List.range' i cs.length).map (fun j => some (candidate name ext j)) ∧
    ExactlyFirst (run d (cs.map fun c => Op.write name ext c)).1 name ext (i + cs.length) ∧
    (run d (cs.map fun c => Op.write name ext c)).1.length = d.length + cs.length := by
  intro cs
  induction cs with
  | nil => intro d i h; exact ⟨rfl, by simpa [run] using h, rfl⟩
  | cons c t ih =>
    intro d i h
    obtain ⟨hw, hnext⟩ := write_next d name ext c i h
    have hstep : step d (Op.write name ext c) = ((candidate name ext i, c) :: d, some (candidate name ext i)) := by
      simp only [step, hw]
    obtain ⟨h1, h2, h3⟩ := ih ((candidate name ext i, c) :: d) (i + 1) hnext
    simp only [List.map_cons, run_cons, hstep, List.length_cons]
    refine ⟨?_, ?_, ?_⟩
    · rw [h1, List.range'_succ]; rfl
    · have : i + (t.length + 1) = i + 1 + t.length := by omega
      rw [this]; exact h2
    · rw [h3]; simp only [List.length_cons]; omega

theorem filter_lt_range (k n : Nat) (h : k ≤ n) : (List.range n).filter (fun j => decide (j < k)) = List.range k := by
  induction n with
  | zero => have : k = 0 := by omega
            subst this; rfl
  | succ n ih =>
    rw [List.range_succ, List.filter_append]
    by_cases hk : k ≤ n
    · rw [ih hk]
      have : decide (n < k) = false := by simpa using hk
      simp [List.filter_cons, this]
    · have hkn : k = n + 1 := by omega
      subst hkn
      have h1 : (List.range n).filter (fun j => decide (j < n + 1)) = List.range n := by
        rw [List.filter_eq_self]
        intro a ha
        simp only [List.mem_range] at ha
        simpa using Nat.lt_succ_of_lt ha
      rw [h1, List.range_succ]
      simp

/-- with exactly the first `k ≥ 1` candidates present, the repaired recycling reads the last one -/
theorem recycleChoice_last {γ} (d : Dir γ) (name ext : Name) (k : Nat) (hk : 0 < k) (hkd : k ≤ d.length)
    (h : ExactlyFirst d name ext k) :
    recycleChoice (names d) name ext = some (candidate name ext (k - 1)) := by
  unfold recycleChoice
  have hf : (List.range ((names d).length + 1)).filter (fun j => (names d).contains (candidate name ext j))
      = List.range k := by
    rw [← filter_lt_range k ((names d).length + 1) (by simp only [names, List.length_map]; omega)]
    apply List.filter_congr
    intro j _
    have := h j
    by_cases hj : j < k
    · simp [hj, this.mpr hj]
    · have hn : candidate name ext j ∉ names d := fun hh => hj (this.mp hh)
      simp [hj, hn]
  simp only [hf]
  have : (List.range k).getLast? = some (k - 1) := by
    cases k with
    | zero => omega
    | succ k => rw [List.range_succ]; simp
  rw [this]

end Files

namespace Files

/-! ### files_of_type: which names are listed for a model -/

theorem startsWith_iff : ∀ (s p : List Char), startsWith s p = true ↔ ∃ t, s = p ++ t
  | [], [] => by simp [startsWith]
  | _ :: _, [] => by simp [startsWith]
  | [], b :: p => by simp [startsWith]
  | a :: s, b :: p => by
    simp only [startsWith, Bool.and_eq_true, beq_iff_eq, List.cons_append, List.cons.injEq]
    rw [startsWith_iff s p]
    constructor
    · rintro ⟨rfl, t, rfl⟩; exact ⟨t, rfl, rfl⟩
    · rintro ⟨t, rfl, rfl⟩; exact ⟨rfl, t, rfl⟩

theorem endsWith_iff (s p : List Char) : endsWith s p = true ↔ ∃ t, s = t ++ p := by
  unfold endsWith
  rw [startsWith_iff]
  constructor
  · rintro ⟨t, h⟩
    refine ⟨t.reverse, ?_⟩
    have := congrArg List.reverse h
    simpa using this
  · rintro ⟨t, rfl⟩
    exact ⟨t.reverse, by simp⟩

/-- a name is listed for (model, ext) exactly when it is `model.ext` or `model~<anything>.ext` -/
theorem ofTypeB_iff (model ext n : Name) :
    ofTypeB model ext n = true ↔
      n = model ++ '.' :: ext ∨ ∃ mid, n = model ++ '~' :: (mid ++ '.' :: ext) := by
  unfold ofTypeB
  simp only [Bool.or_eq_true, Bool.and_eq_true, beq_iff_eq, decide_eq_true_eq, startsWith_iff,
    endsWith_iff]
  constructor
  · rintro (h | ⟨⟨⟨t, ht⟩, ⟨u, hu⟩⟩, hlen⟩)
    · exact Or.inl h
    · right
      have hlt : t.length ≥ ext.length + 1 := by
        have := congrArg List.length ht
        simp only [List.length_append, List.length_cons, List.length_nil] at this
        omega
      have heq : (model ++ ['~']) ++ t = u ++ '.' :: ext := by rw [← ht, ← hu]
      rcases List.append_eq_append_iff.mp heq with ⟨a', _, h2⟩ | ⟨c', _, h2⟩
      · exact ⟨a', by rw [ht, h2]; simp⟩
      · have hc : c' = [] := by
          have := congrArg List.length h2
          simp only [List.length_append, List.length_cons] at this
          apply List.eq_nil_of_length_eq_zero
          omega
        subst hc
        simp only [List.nil_append] at h2
        exact ⟨[], by rw [ht, ← h2]; simp⟩
  · rintro (h | ⟨mid, h⟩)
    · exact Or.inl h
    · right
      refine ⟨⟨⟨mid ++ '.' :: ext, by rw [h]; simp⟩, ⟨model ++ '~' :: mid, by rw [h]; simp⟩⟩, ?_⟩
      rw [h]
      simp only [List.length_append, List.length_cons]
      omega

/-- every output of the model itself is listed -/
theorem ofTypeB_own (model ext : Name) (j : Nat) : ofTypeB model ext (candidate model ext j) = true := by
  rw [ofTypeB_iff]
  cases j with
  | zero => exact Or.inl rfl
  | succ k => exact Or.inr ⟨pad2 k, rfl⟩

/-- an output of another model is listed only when one model name is the other one followed
by `~…` (then the two sequences of names really overlap: `m~00.pickle` is the first output of a
model called `m~00` and the second one of a model called `m`) -/
theorem ofTypeB_other (model model' ext : Name) (j : Nat)
    (h : ofTypeB model ext (candidate model' ext j) = true) :
    model' = model ∨ (∃ r, model' = model ++ '~' :: r) ∨ (∃ r, model = model' ++ '~' :: r) := by
  rw [ofTypeB_iff] at h
  cases j with
  | zero =>
    simp only [candidate] at h
    rcases h with h | ⟨mid, h⟩
    · exact Or.inl (List.append_cancel_right h)
    · have h' : model' ++ '.' :: ext = (model ++ '~' :: mid) ++ '.' :: ext := by rw [h]; simp
      exact Or.inr (Or.inl ⟨mid, List.append_cancel_right h'⟩)
  | succ k =>
    simp only [candidate] at h
    rcases h with h | ⟨mid, h⟩
    · have h' : (model' ++ '~' :: pad2 k) ++ '.' :: ext = model ++ '.' :: ext := by rw [← h]; simp
      exact Or.inr (Or.inr ⟨pad2 k, (List.append_cancel_right h').symm⟩)
    · have h' : (model' ++ '~' :: pad2 k) ++ '.' :: ext = (model ++ '~' :: mid) ++ '.' :: ext := by
        simpa using h
      have h2 := List.append_cancel_right h'
      rcases List.append_eq_append_iff.mp h2 with ⟨a', ha, hb⟩ | ⟨c', hc, hd⟩
      · -- model = model' ++ a'
        cases a' with
        | nil => left; simpa using ha.symm
        | cons x r =>
          simp only [List.cons_append, List.cons.injEq] at hb
          right; right; exact ⟨r, by rw [ha, hb.1]⟩
      · cases c' with
        | nil => left; simpa using hc
        | cons x r =>
          simp only [List.cons_append, List.cons.injEq] at hd
          right; left; exact ⟨r, by rw [hc, hd.1]⟩

theorem mem_ofType (names : List Name) (model ext n : Name) :
    n ∈ ofType names model ext ↔ n ∈ names ∧ ofTypeB model ext n = true := by
  simp [ofType]

end Files
