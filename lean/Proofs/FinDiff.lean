/- Lemmas about the model of `biogeme.tools.derivatives` (Model/FinDiff.lean) on `ℝ`. -/
import Model.FinDiff
import Proofs.NumReal
import Mathlib.Analysis.Calculus.Deriv.Slope

namespace FinDiff

/-- the direction of the step: the step is `tau · dir x` -/
noncomputable def dir (x : ℝ) : ℝ := if 1 ≤ |x| then x else if 0 ≤ x then 1 else -1

theorem fdStep_eq (t x : ℝ) : fdStep t x = t * dir x := by
  unfold fdStep dir
  by_cases h1 : (1 : ℝ) ≤ |x|
  · simp [h1]
  · by_cases h0 : (0 : ℝ) ≤ x
    · have h0' : Num.le (0 : ℝ) x = true := by rw [NumR.le_real]; simpa using h0
      simp [h1, h0, h0']
    · have h0' : Num.le (0 : ℝ) x = false := by rw [NumR.le_real_false]; simpa using not_le.mp h0
      simp [h1, h0, h0']

theorem dir_ne_zero (x : ℝ) : dir x ≠ 0 := by
  unfold dir
  split
  · rename_i h
    intro hx
    rw [hx] at h
    simp at h
    linarith
  · split <;> norm_num

theorem abs_dir (x : ℝ) : |dir x| = max 1 |x| := by
  unfold dir
  split
  · rename_i h; rw [max_eq_right h]
  · rename_i h
    have h' : |x| ≤ 1 := (not_le.mp h).le
    rw [max_eq_left h']
    split <;> simp

theorem fdStep_ne_zero (t x : ℝ) (ht : t ≠ 0) : fdStep t x ≠ 0 := by
  rw [fdStep_eq]; exact mul_ne_zero ht (dir_ne_zero x)

theorem abs_fdStep (t x : ℝ) : |fdStep t x| = |t| * max 1 |x| := by
  rw [fdStep_eq, abs_mul, abs_dir]

/-- the step moves away from zero: it has the sign of the coordinate (positive at 0) -/
theorem fdStep_sign (t x : ℝ) (ht : 0 < t) : (0 ≤ x → 0 < fdStep t x) ∧ (x < 0 → fdStep t x < 0) := by
  rw [fdStep_eq]
  unfold dir
  constructor
  · intro hx
    split
    · rename_i h
      rw [abs_of_nonneg hx] at h
      exact mul_pos ht (by linarith)
    · simp [ht]
  · intro hx
    split
    · exact mul_neg_of_pos_of_neg ht hx
    · simp [not_le.mpr hx, ht]

theorem getD_perturbed (t : ℝ) (x : List ℝ) (i : Nat) (hi : i < x.length) :
    (perturbed t x i).getD i 0 = x.getD i 0 + fdStep t (x.getD i 0) := by
  simp [perturbed, List.getD_eq_getElem?_getD, hi]

theorem getD_findiffG (t : ℝ) (f : List ℝ → ℝ) (x : List ℝ) (i : Nat) (hi : i < x.length) :
    (findiffG t f x).getD i 0 = (f (perturbed t x i) - f x) / fdStep t (x.getD i 0) := by
  simp [findiffG, List.getD_eq_getElem?_getD, hi]

theorem getD_findiffH (t : ℝ) (g : List ℝ → List ℝ) (x : List ℝ) (r i : Nat) (hr : r < x.length)
    (hi : i < x.length) :
    ((findiffH t g x).getD r []).getD i 0 =
      ((g (perturbed t x i)).getD r 0 - (g x).getD r 0) / fdStep t (x.getD i 0) := by
  simp [findiffH, hColumn, List.getD_eq_getElem?_getD, hr, hi]

/-- the forward difference quotient with the library's step tends to the derivative when the
step parameter tends to 0 -/
theorem quotient_tendsto (φ : ℝ → ℝ) (d a : ℝ) (h : HasDerivAt φ d a) :
    Filter.Tendsto (fun t : ℝ => (φ (a + fdStep t a) - φ a) / fdStep t a)
      (nhdsWithin 0 {0}ᶜ) (nhds d) := by
  have hs := h.tendsto_slope_zero
  have hc : Filter.Tendsto (fun t : ℝ => t * dir a) (nhdsWithin 0 {0}ᶜ) (nhdsWithin 0 {0}ᶜ) := by
    apply tendsto_nhdsWithin_of_tendsto_nhds_of_eventually_within
    · have : Filter.Tendsto (fun t : ℝ => t * dir a) (nhds 0) (nhds (0 * dir a)) :=
        (continuous_id.mul continuous_const).tendsto 0
      rw [zero_mul] at this
      exact this.mono_left nhdsWithin_le_nhds
    · filter_upwards [self_mem_nhdsWithin] with t ht
      exact mul_ne_zero ht (dir_ne_zero a)
  have := hs.comp hc
  refine this.congr fun t => ?_
  simp only [Function.comp, fdStep_eq, smul_eq_mul]
  rw [div_eq_inv_mul]

theorem set_getD_self (x : List ℝ) (i : Nat) (hi : i < x.length) : x.set i (x.getD i 0) = x := by
  apply List.ext_getElem?
  intro j
  by_cases hj : i = j
  · subst hj; simp [List.getD_eq_getElem?_getD, hi]
  · simp [hj]

/-- a function that is affine along coordinate `i` has an exact forward difference -/
theorem findiffG_affine (t : ℝ) (ht : t ≠ 0) (f : List ℝ → ℝ) (x : List ℝ) (i : Nat) (hi : i < x.length)
    (a : ℝ) (hline : ∀ s, f (x.set i s) = f x + a * (s - x.getD i 0)) :
    (findiffG t f x).getD i 0 = a := by
  rw [getD_findiffG t f x i hi]
  have hs := fdStep_ne_zero t (x.getD i 0) ht
  simp only [perturbed, NumR.ofNat_real_zero]
  rw [hline]
  field_simp
  ring

/-- entry `i` of `findiff_g` tends to the partial derivative when the step parameter tends to 0 -/
theorem findiffG_tendsto (f : List ℝ → ℝ) (x : List ℝ) (i : Nat) (hi : i < x.length) (d : ℝ)
    (h : HasDerivAt (fun s => f (x.set i s)) d (x.getD i 0)) :
    Filter.Tendsto (fun t : ℝ => (findiffG t f x).getD i 0) (nhdsWithin 0 {0}ᶜ) (nhds d) := by
  have := quotient_tendsto (fun s => f (x.set i s)) d (x.getD i 0) h
  refine this.congr fun t => ?_
  rw [getD_findiffG t f x i hi]
  simp only [perturbed, NumR.ofNat_real_zero, set_getD_self x i hi]

/-- entry `(r, i)` of `findiff_h` tends to the derivative of gradient entry `r` with respect to
coordinate `i` -/
theorem findiffH_tendsto (g : List ℝ → List ℝ) (x : List ℝ) (r i : Nat) (hr : r < x.length)
    (hi : i < x.length) (d : ℝ)
    (h : HasDerivAt (fun s => (g (x.set i s)).getD r 0) d (x.getD i 0)) :
    Filter.Tendsto (fun t : ℝ => ((findiffH t g x).getD r []).getD i 0) (nhdsWithin 0 {0}ᶜ) (nhds d) := by
  have := quotient_tendsto (fun s => (g (x.set i s)).getD r 0) d (x.getD i 0) h
  refine this.congr fun t => ?_
  rw [getD_findiffH t g x r i hr hi]
  simp only [perturbed, NumR.ofNat_real_zero, set_getD_self x i hi]

theorem getD_vsub (a b : List ℝ) (i : Nat) (ha : i < a.length) (hb : i < b.length) :
    (vsub a b).getD i 0 = a.getD i 0 - b.getD i 0 := by
  simp [vsub, List.getD_eq_getElem?_getD, ha, hb]

theorem length_findiffG (t : ℝ) (f : List ℝ → ℝ) (x : List ℝ) : (findiffG t f x).length = x.length := by
  simp [findiffG]

/-- **the self-check confirms a true gradient**: when entry `i` of the gradient reported at `x` is the
partial derivative of the reported value, entry `i` of `gdiff` tends to 0 with the step parameter -/
theorem gdiff_tendsto_zero (F : List ℝ → ℝ × List ℝ × List (List ℝ)) (x : List ℝ) (i : Nat)
    (hi : i < x.length) (hg : (F x).2.1.length = x.length)
    (h : HasDerivAt (fun s => (F (x.set i s)).1) ((F x).2.1.getD i 0) (x.getD i 0)) :
    Filter.Tendsto (fun t : ℝ => (checkDerivatives t F x).gdiff.getD i 0) (nhdsWithin 0 {0}ᶜ) (nhds 0) := by
  have hT := findiffG_tendsto (fun p => (F p).1) x i hi _ h
  have h0 : Filter.Tendsto (fun t : ℝ => (F x).2.1.getD i 0 - (findiffG t (fun p => (F p).1) x).getD i 0)
      (nhdsWithin 0 {0}ᶜ) (nhds ((F x).2.1.getD i 0 - (F x).2.1.getD i 0)) := tendsto_const_nhds.sub hT
  rw [sub_self] at h0
  refine h0.congr fun t => ?_
  simp only [checkDerivatives]
  rw [getD_vsub _ _ i (by rw [hg]; exact hi) (by rw [length_findiffG]; exact hi)]

end FinDiff
