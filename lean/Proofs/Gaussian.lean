/- Gaussian closed forms (oracle family of the numerical-integration operator), from Mathlib's
   real Gaussian distribution. -/
import Mathlib.Probability.Distributions.Gaussian.Real
import Mathlib.Probability.Moments.Variance

namespace Gaussian
open MeasureTheory ProbabilityTheory Real

/-- the standard normal density -/
noncomputable def phi (x : ℝ) : ℝ := Real.exp (-x ^ 2 / 2) / Real.sqrt (2 * Real.pi)

theorem phi_eq (x : ℝ) : phi x = gaussianPDFReal 0 1 x := by
  unfold phi gaussianPDFReal
  simp only [NNReal.coe_one, mul_one, sub_zero]
  rw [div_eq_inv_mul]

theorem integral_phi : ∫ x : ℝ, phi x = 1 := by
  simp only [phi_eq]
  exact integral_gaussianPDFReal_eq_one 0 one_ne_zero

theorem integral_against (f : ℝ → ℝ) :
    ∫ x : ℝ, f x * phi x = ∫ x, f x ∂(gaussianReal 0 1) := by
  rw [integral_gaussianReal_eq_integral_smul (one_ne_zero)]
  congr 1
  funext x
  rw [phi_eq, smul_eq_mul, mul_comm]

theorem integral_x_phi : ∫ x : ℝ, x * phi x = 0 := by
  rw [integral_against (fun x => x)]
  exact integral_id_gaussianReal

theorem integral_x2_phi : ∫ x : ℝ, x ^ 2 * phi x = 1 := by
  rw [integral_against (fun x => x ^ 2)]
  have h := variance_fun_id_gaussianReal (μ := 0) (v := 1)
  rw [variance_eq_integral measurable_id'.aemeasurable] at h
  simp only [integral_id_gaussianReal, sub_zero, NNReal.coe_one] at h
  exact h

theorem integral_phi_exp (a : ℝ) : ∫ x : ℝ, phi x * Real.exp (a * x) = Real.exp (a ^ 2 / 2) := by
  have h1 : ∫ x : ℝ, phi x * Real.exp (a * x) = ∫ x : ℝ, Real.exp (a * x) * phi x := by
    congr 1; funext x; ring
  rw [h1, integral_against (fun x => Real.exp (a * x))]
  have h := congrFun (mgf_fun_id_gaussianReal (μ := 0) (v := 1)) a
  simp only [mgf, zero_mul, NNReal.coe_one, one_mul, zero_add] at h
  exact h

/-! ### polynomial × exponential × density (completing the square) -/

theorem phi_mul_exp (a x : ℝ) :
    phi x * Real.exp (a * x) = Real.exp (a ^ 2 / 2) * gaussianPDFReal a 1 x := by
  unfold phi gaussianPDFReal
  simp only [NNReal.coe_one, mul_one]
  rw [div_mul_eq_mul_div, ← Real.exp_add, mul_comm (√(2 * π))⁻¹, ← mul_assoc, ← Real.exp_add,
    div_eq_mul_inv]
  congr 2
  ring

theorem integral_against_shift (a : ℝ) (f : ℝ → ℝ) :
    ∫ x : ℝ, f x * (phi x * Real.exp (a * x))
      = Real.exp (a ^ 2 / 2) * ∫ x, f x ∂(gaussianReal a 1) := by
  rw [integral_gaussianReal_eq_integral_smul (one_ne_zero), ← integral_const_mul]
  congr 1
  funext x
  rw [phi_mul_exp, smul_eq_mul]
  ring

/-- ∫ x φ(x) e^{ax} dx = a e^{a²/2} -/
theorem integral_x_phi_exp (a : ℝ) :
    ∫ x : ℝ, x * (phi x * Real.exp (a * x)) = a * Real.exp (a ^ 2 / 2) := by
  rw [integral_against_shift a (fun x => x), integral_id_gaussianReal]
  ring

/-- ∫ x² φ(x) e^{ax} dx = (1 + a²) e^{a²/2} -/
theorem integral_x2_phi_exp (a : ℝ) :
    ∫ x : ℝ, x ^ 2 * (phi x * Real.exp (a * x)) = (1 + a ^ 2) * Real.exp (a ^ 2 / 2) := by
  rw [integral_against_shift a (fun x => x ^ 2)]
  have hv := variance_fun_id_gaussianReal (μ := a) (v := 1)
  have hmem : MemLp (fun x : ℝ => x) 2 (gaussianReal a 1) := memLp_id_gaussianReal (μ := a) (v := 1) 2
  rw [variance_eq_sub hmem] at hv
  simp only [integral_id_gaussianReal, NNReal.coe_one, Pi.pow_apply] at hv
  have h2 : ∫ x, x ^ 2 ∂(gaussianReal a 1) = 1 + a ^ 2 := by linarith
  rw [h2]
  ring

/-- the whole oracle family of the quadrature check:
∫ (c₀ + c₁x + c₂x²) φ(x) e^{ax} dx = e^{a²/2} (c₀ + c₁a + c₂(1 + a²)) -/
theorem integral_poly_phi_exp (a c0 c1 c2 : ℝ) :
    ∫ x : ℝ, (c0 + c1 * x + c2 * x ^ 2) * (phi x * Real.exp (a * x))
      = Real.exp (a ^ 2 / 2) * (c0 + c1 * a + c2 * (1 + a ^ 2)) := by
  rw [integral_against_shift a (fun x => c0 + c1 * x + c2 * x ^ 2)]
  congr 1
  have hi1 : Integrable (fun x : ℝ => x) (gaussianReal a 1) :=
    memLp_one_iff_integrable.mp (memLp_id_gaussianReal (μ := a) (v := 1) 1)
  have hi2 : Integrable (fun x : ℝ => x ^ 2) (gaussianReal a 1) :=
    (memLp_id_gaussianReal (μ := a) (v := 1) 2).integrable_sq
  have hv := variance_fun_id_gaussianReal (μ := a) (v := 1)
  have hmem : MemLp (fun x : ℝ => x) 2 (gaussianReal a 1) := memLp_id_gaussianReal (μ := a) (v := 1) 2
  rw [variance_eq_sub hmem] at hv
  simp only [integral_id_gaussianReal, NNReal.coe_one, Pi.pow_apply] at hv
  have h2 : ∫ x, x ^ 2 ∂(gaussianReal a 1) = 1 + a ^ 2 := by linarith
  have hc1 : Integrable (fun x : ℝ => c1 * x) (gaussianReal a 1) := hi1.const_mul c1
  have hc2 : Integrable (fun x : ℝ => c2 * x ^ 2) (gaussianReal a 1) := hi2.const_mul c2
  have h01 : Integrable (fun x : ℝ => c0 + c1 * x) (gaussianReal a 1) := (integrable_const c0).add hc1
  have e1 : ∫ x, c0 + c1 * x + c2 * x ^ 2 ∂(gaussianReal a 1)
      = (∫ x, c0 + c1 * x ∂(gaussianReal a 1)) + ∫ x, c2 * x ^ 2 ∂(gaussianReal a 1) :=
    integral_add (f := fun x => c0 + c1 * x) (g := fun x => c2 * x ^ 2) h01 hc2
  have e2 : ∫ x, c0 + c1 * x ∂(gaussianReal a 1)
      = (∫ _x, c0 ∂(gaussianReal a 1)) + ∫ x, c1 * x ∂(gaussianReal a 1) :=
    integral_add (f := fun _ => c0) (g := fun x => c1 * x) (integrable_const c0) hc1
  rw [e1, e2, integral_const_mul, integral_const_mul, integral_id_gaussianReal, h2]
  simp

end Gaussian
