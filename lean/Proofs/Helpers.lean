/-
Lemmas about the helper models over `ℝ` (piecewise, engine arithmetic, segmentation,
nested correlation).  The analytic part (Box-Cox, densities) is in Proofs/HelpersAnalysis.lean.
-/
import Model.Helpers
import Proofs.NumReal

namespace Helpers

open NumR

/-! ## engine arithmetic on ℝ -/

@[simp] theorem emul_real (a b : ℝ) : emul a b = a * b := by
  unfold emul
  split
  · rename_i h
    have : a = 0 := by simpa using h
    simp [this]
  · simp

@[simp] theorem ediv_real (a b : ℝ) : ediv a b = a / b := by
  unfold ediv
  split
  · rename_i h
    have : a = 0 := by simpa using h
    simp [this]
  · simp

@[simp] theorem powN_real (a : ℝ) (n : ℕ) : powN a n = a ^ n := by
  induction n with
  | zero => simp [powN]
  | succ n ih => simp [powN, ih, pow_succ, mul_comm]

@[simp] theorem ofBool_real_true : (Num.ofBool true : ℝ) = 1 := by simp [Num.ofBool]
@[simp] theorem ofBool_real_false : (Num.ofBool false : ℝ) = 0 := by simp [Num.ofBool]

theorem ofBool_real (b : Bool) : (Num.ofBool b : ℝ) = if b then 1 else 0 := by
  cases b <;> simp

/-! ## piecewise -/

theorem pwVar_cc (x a b : ℝ) : pwVar x (some a) (some b) = max 0 (min (x - a) (b - a)) := by
  simp [pwVar, max_real, min_real]

theorem pwVar_co (x a : ℝ) : pwVar x (some a) none = max 0 (x - a) := by
  simp [pwVar, max_real]

theorem pwVar_oc (x b : ℝ) : pwVar x none (some b) = min x b := by
  simp [pwVar, min_real]

theorem dot_nil_left (vs : List ℝ) : dot ([] : List ℝ) vs = 0 := by
  simp [dot, sum_real]

theorem dot_nil_right (bs : List ℝ) : dot bs ([] : List ℝ) = 0 := by
  simp [dot, sum_real]

theorem dot_cons (b v : ℝ) (bs vs : List ℝ) : dot (b :: bs) (v :: vs) = b * v + dot bs vs := by
  simp [dot, sum_real]

theorem dot_zeros (bs vs : List ℝ) (h : ∀ v ∈ vs, v = 0) : dot bs vs = 0 := by
  induction bs generalizing vs with
  | nil => exact dot_nil_left vs
  | cons b bs ih =>
    cases vs with
    | nil => exact dot_nil_right _
    | cons v vs =>
      rw [dot_cons, h v (by simp), ih vs (fun w hw => h w (by simp [hw]))]
      simp

/-- the closed part of a threshold list followed by an optional open right end -/
def tailR (ts : List ℝ) (openR : Bool) : List (Option ℝ) :=
  ts.map some ++ (if openR then [none] else [])

theorem le_getLastD (t : ℝ) (r : List ℝ) (h : (t :: r).Pairwise (· ≤ ·)) : t ≤ r.getLastD t := by
  induction r generalizing t with
  | nil => simp
  | cons a r ih =>
    rw [List.getLastD_cons]
    have h1 : t ≤ a := (List.pairwise_cons.mp h).1 a (by simp)
    exact le_trans h1 (ih a (List.pairwise_cons.mp h).2)

theorem pwVars_cons2 (x : ℝ) (a b : Option ℝ) (rest : List (Option ℝ)) :
    pwVars x (a :: b :: rest) = pwVar x a b :: pwVars x (b :: rest) := by
  simp [pwVars]

/-- closed thresholds: the variables sum to the clipped distance from the first threshold -/
theorem sum_closed (x t0 : ℝ) (ts : List ℝ) (h : (t0 :: ts).Pairwise (· ≤ ·)) :
    (pwVars x (tailR (t0 :: ts) false)).sum = max 0 (min (x - t0) (ts.getLastD t0 - t0)) := by
  induction ts generalizing t0 with
  | nil => simp [tailR, pwVars]
  | cons t1 r ih =>
    have h01 : t0 ≤ t1 := (List.pairwise_cons.mp h).1 t1 (by simp)
    have hr := (List.pairwise_cons.mp h).2
    have hl := le_getLastD t1 r hr
    have ih' := ih t1 hr
    simp only [tailR, List.map_cons, Bool.false_eq_true, if_false,
      List.append_nil] at ih' ⊢
    rw [pwVars_cons2, List.sum_cons, ih', pwVar_cc, List.getLastD_cons]
    generalize r.getLastD t1 = L at hl ⊢
    simp only [max_def, min_def]
    split_ifs <;> linarith

/-- open right end: the variables sum to the distance from the first threshold, cut at 0 -/
theorem sum_openR (x t0 : ℝ) (ts : List ℝ) (h : (t0 :: ts).Pairwise (· ≤ ·)) :
    (pwVars x (tailR (t0 :: ts) true)).sum = max 0 (x - t0) := by
  induction ts generalizing t0 with
  | nil => simp [tailR, pwVars, pwVar_co]
  | cons t1 r ih =>
    have h01 : t0 ≤ t1 := (List.pairwise_cons.mp h).1 t1 (by simp)
    have hr := (List.pairwise_cons.mp h).2
    have ih' := ih t1 hr
    simp only [tailR, List.map_cons, List.cons_append, if_true] at ih' ⊢
    rw [pwVars_cons2, List.sum_cons, ih', pwVar_cc]
    simp only [max_def, min_def]
    split_ifs <;> linarith

/-- below (or at) the first threshold every variable is zero -/
theorem vars_zero_below (x a : ℝ) (ts : List ℝ) (openR : Bool) (hx : x ≤ a)
    (h : (a :: ts).Pairwise (· ≤ ·)) : ∀ v ∈ pwVars x (tailR (a :: ts) openR), v = 0 := by
  induction ts generalizing a with
  | nil =>
    cases openR
    · simp [tailR, pwVars]
    · intro v hv
      simp only [tailR, List.map_cons, List.map_nil, if_true, List.cons_append, List.nil_append,
        pwVars_cons2, pwVars, List.mem_singleton] at hv
      rw [hv, pwVar_co]
      exact max_eq_left (by linarith)
  | cons t1 r ih =>
    have h01 : a ≤ t1 := (List.pairwise_cons.mp h).1 t1 (by simp)
    have hr := (List.pairwise_cons.mp h).2
    intro v hv
    have ih' := ih t1 (le_trans hx h01) hr
    simp only [tailR, List.map_cons, List.cons_append] at ih' hv
    rw [pwVars_cons2, List.mem_cons] at hv
    rcases hv with hv | hv
    · rw [hv, pwVar_cc]
      apply max_eq_left
      exact le_trans (min_le_left _ _) (by linarith)
    · exact ih' v hv

/-- the loop of `piecewise_function`, started at a closed threshold `ti ≤ x` with
    `rest = x - ti`, adds the remaining terms of the formula -/
theorem pwLoop_closed (x ti total : ℝ) (ts : List ℝ) (openR : Bool) (vs : List ℝ) (hx : ti ≤ x)
    (h : (ti :: ts).Pairwise (· ≤ ·)) :
    pwLoop x (x - ti) total (tailR (ti :: ts) openR) vs
      = total + dot vs (pwVars x (tailR (ti :: ts) openR)) := by
  induction ts generalizing ti total vs with
  | nil =>
    cases openR
    · simp [tailR, pwLoop, pwVars, dot_nil_right]
    · cases vs with
      | nil => simp [tailR, pwLoop, dot_nil_left]
      | cons v vs =>
        simp only [tailR, List.map_cons, List.map_nil, if_true, List.cons_append, List.nil_append,
          pwLoop, pwVars_cons2, pwVars, dot_cons, dot_nil_right, pwVar_co, add_real, mul_real]
        rw [max_eq_right (by linarith)]
        ring
  | cons t1 r ih =>
    have h01 : ti ≤ t1 := (List.pairwise_cons.mp h).1 t1 (by simp)
    have hr := (List.pairwise_cons.mp h).2
    cases vs with
    | nil => simp [tailR, pwLoop, dot_nil_left]
    | cons v vs =>
      simp only [tailR, List.map_cons, List.cons_append] at ih ⊢
      rw [pwVars_cons2, dot_cons, pwVar_cc]
      by_cases hlt : x < t1
      · have hz := vars_zero_below x t1 r openR hlt.le hr
        simp only [tailR, List.map_cons, List.cons_append] at hz
        rw [dot_zeros _ _ hz]
        simp only [pwLoop, lt_real, hlt, if_true, add_real, mul_real]
        rw [min_eq_left (by linarith), max_eq_right (by linarith)]
        ring
      · have hge : t1 ≤ x := not_lt.mp hlt
        simp only [pwLoop, lt_real, hlt, if_false, add_real, mul_real, sub_real]
        rw [ih t1 _ vs hge hr, min_eq_right (by linarith), max_eq_right (by linarith)]
        ring

theorem mkThs_closedL (ts : List ℝ) (openR : Bool) : mkThs false ts openR = tailR ts openR := by
  simp [mkThs, tailR]

theorem mkThs_openL (ts : List ℝ) (openR : Bool) : mkThs true ts openR = none :: tailR ts openR := by
  simp [mkThs, tailR]

/-- formula = function, closed left end -/
theorem formula_eq_function_closedL (x t0 : ℝ) (ts : List ℝ) (openR : Bool) (βs : List ℝ)
    (h : (t0 :: ts).Pairwise (· ≤ ·)) :
    pwFormula x (tailR (t0 :: ts) openR) βs = pwFunction x (tailR (t0 :: ts) openR) βs := by
  unfold pwFormula
  by_cases hlt : x < t0
  · rw [dot_zeros _ _ (vars_zero_below x t0 ts openR hlt.le h)]
    simp [pwFunction, tailR, hlt]
  · have hge : t0 ≤ x := not_lt.mp hlt
    have := pwLoop_closed x t0 0 ts openR βs hge h
    simp only [zero_add] at this
    rw [← this]
    simp [pwFunction, tailR, hlt]

/-- formula = function, open left end (the first numeric threshold is `t1`) -/
theorem formula_eq_function_openL (x t1 : ℝ) (ts : List ℝ) (openR : Bool) (βs : List ℝ)
    (h : (t1 :: ts).Pairwise (· ≤ ·)) :
    pwFormula x (none :: tailR (t1 :: ts) openR) βs
      = pwFunction x (none :: tailR (t1 :: ts) openR) βs := by
  unfold pwFormula
  cases βs with
  | nil => simp [pwFunction, tailR, pwLoop, dot_nil_left]
  | cons v vs =>
    have e : tailR (t1 :: ts) openR = some t1 :: tailR ts openR := by simp [tailR]
    rw [e, pwVars_cons2, dot_cons, pwVar_oc, ← e]
    by_cases hlt : x < t1
    · rw [dot_zeros _ _ (vars_zero_below x t1 ts openR hlt.le h), min_eq_left hlt.le]
      simp [pwFunction, e, pwLoop, hlt]
    · have hge : t1 ≤ x := not_lt.mp hlt
      have := pwLoop_closed x t1 (0 + v * (t1 - 0)) ts openR vs hge h
      rw [min_eq_right hge]
      simp only [pwFunction]
      rw [e] at this ⊢
      simp only [pwLoop, lt_real, hlt, if_false, add_real, mul_real, sub_real, ofNat_real_zero]
      rw [this]
      ring

/-- open left end: the variables sum to `min x t_last` (closed right) -/
theorem sum_openL_closedR (x t1 : ℝ) (ts : List ℝ) (h : (t1 :: ts).Pairwise (· ≤ ·)) :
    (pwVars x (none :: tailR (t1 :: ts) false)).sum = min x (ts.getLastD t1) := by
  have e : tailR (t1 :: ts) false = some t1 :: tailR ts false := by simp [tailR]
  have hl := le_getLastD t1 ts h
  rw [e, pwVars_cons2, List.sum_cons, ← e, sum_closed x t1 ts h, pwVar_oc]
  generalize ts.getLastD t1 = L at hl ⊢
  simp only [max_def, min_def]
  split_ifs <;> linarith

/-- both ends open: the variables sum to `x` -/
theorem sum_openL_openR (x t1 : ℝ) (ts : List ℝ) (h : (t1 :: ts).Pairwise (· ≤ ·)) :
    (pwVars x (none :: tailR (t1 :: ts) true)).sum = x := by
  have e : tailR (t1 :: ts) true = some t1 :: tailR ts true := by simp [tailR]
  rw [e, pwVars_cons2, List.sum_cons, ← e, sum_openR x t1 ts h, pwVar_oc]
  simp only [max_def, min_def]
  split_ifs <;> linarith

/-! ## segmentation -/

/-- the term of one category in `segmented_beta`, on ℝ -/
theorem segTerm_real (param row : String → ℝ) (beta v : String) (kc : Int × String) :
    emul (param (paramName beta kc.2)) (Num.ofBool (Num.eq (row v) (Num.int kc.1)))
      = param (paramName beta kc.2) * (if row v = (kc.1 : ℝ) then 1 else 0) := by
  rw [emul_real, ofBool_real]
  congr 1
  by_cases h : row v = (kc.1 : ℝ)
  · simp [h]
  · simp [h]

theorem sum_ind_not_mem (g : Int × String → ℝ) (k : Int) (l : List (Int × String))
    (hk : k ∉ l.map Prod.fst) :
    (l.map fun kc => g kc * (if k = kc.1 then (1 : ℝ) else 0)).sum = 0 := by
  induction l with
  | nil => simp
  | cons a t ih =>
    rw [List.map_cons, List.mem_cons, not_or] at hk
    rw [List.map_cons, List.sum_cons, if_neg hk.1, mul_zero, zero_add]
    exact ih hk.2

theorem sum_ind_mem (g : Int × String → ℝ) (k : Int) (c : String) (l : List (Int × String))
    (hnd : (l.map Prod.fst).Nodup) (hm : (k, c) ∈ l) :
    (l.map fun kc => g kc * (if k = kc.1 then (1 : ℝ) else 0)).sum = g (k, c) := by
  induction l with
  | nil => simp at hm
  | cons a t ih =>
    rw [List.map_cons, List.nodup_cons] at hnd
    rw [List.map_cons, List.sum_cons]
    rcases List.mem_cons.mp hm with h | h
    · subst h
      rw [sum_ind_not_mem g k t hnd.1, if_pos rfl, mul_one, add_zero]
    · have hkt : k ∈ t.map Prod.fst := List.mem_map.mpr ⟨(k, c), h, rfl⟩
      have hne : ¬ (k = a.1) := by
        intro hh
        exact hnd.1 (hh ▸ hkt)
      rw [if_neg hne, mul_zero, zero_add]
      exact ih hnd.2 h

/-- the shift a row of category `c` receives from one segmentation: none in the reference -/
noncomputable def shiftOf (beta : String) (param : String → ℝ) (s : SegSpec) (c : String) : ℝ :=
  if c = s.ref then 0 else param (paramName beta c)

theorem seg_one (beta : String) (param : String → ℝ) (s : SegSpec) (k : Int) (c : String)
    (hnd : (s.mapping.map Prod.fst).Nodup) (hm : (k, c) ∈ s.mapping) :
    (s.kept.map fun kc => param (paramName beta kc.2) * (if k = kc.1 then (1 : ℝ) else 0)).sum
      = shiftOf beta param s c := by
  unfold shiftOf SegSpec.kept
  have hsub : ((s.mapping.filter (·.2 != s.ref)).map Prod.fst).Sublist (s.mapping.map Prod.fst) :=
    (List.filter_sublist).map _
  by_cases hc : c = s.ref
  · rw [if_pos hc]
    apply sum_ind_not_mem (fun kc => param (paramName beta kc.2))
    intro hk
    obtain ⟨kc, hkc, hk1⟩ := List.mem_map.mp hk
    have hmem := (List.mem_filter.mp hkc)
    -- the key k occurs once in the mapping, with category c
    have : kc = (k, c) := by
      have h1 : kc ∈ s.mapping := hmem.1
      have := List.inj_on_of_nodup_map hnd h1 hm (by simpa using hk1)
      exact this
    have h2 := hmem.2
    rw [this] at h2
    simp [hc] at h2
  · rw [if_neg hc]
    have hmem : (k, c) ∈ s.mapping.filter (·.2 != s.ref) := by
      apply List.mem_filter.mpr
      exact ⟨hm, by simp [hc]⟩
    exact sum_ind_mem (fun kc => param (paramName beta kc.2)) k c _ (hnd.sublist hsub) hmem

theorem segmentedBeta_real (beta : String) (specs : List SegSpec) (param row : String → ℝ) :
    segmentedBeta beta specs param row
      = param beta + (specs.map fun s =>
          (s.kept.map fun kc => param (paramName beta kc.2)
            * (if row s.varName = (kc.1 : ℝ) then 1 else 0)).sum).sum := by
  unfold segmentedBeta
  rw [sum_real, List.sum_cons]
  congr 1
  induction specs with
  | nil => simp
  | cons s t ih =>
    rw [List.flatMap_cons, List.sum_append, ih, List.map_cons, List.sum_cons]
    congr 2
    apply List.map_congr_left
    intro kc _
    exact segTerm_real param row beta s.varName kc

/-! ## nested logit correlation -/

theorem combos_mem {β : Type} (l : List β) (a b : β) (h : (a, b) ∈ combos l) : a ∈ l ∧ b ∈ l := by
  induction l with
  | nil => simp [combos] at h
  | cons x t ih =>
    simp only [combos, List.mem_append, List.mem_map] at h
    rcases h with ⟨y, hy, he⟩ | h
    · cases he
      exact ⟨by simp, by simp [hy]⟩
    · have := ih h
      exact ⟨by simp [this.1], by simp [this.2]⟩

theorem combos_ne {β : Type} (l : List β) (hnd : l.Nodup) (a b : β) (h : (a, b) ∈ combos l) :
    a ≠ b := by
  induction l with
  | nil => simp [combos] at h
  | cons x t ih =>
    simp only [combos, List.mem_append, List.mem_map] at h
    rcases h with ⟨y, hy, he⟩ | h
    · cases he
      intro hab
      exact (List.nodup_cons.mp hnd).1 (hab ▸ hy)
    · exact ih (List.nodup_cons.mp hnd).2 h

theorem combos_of_mem {β : Type} (l : List β) (a b : β) (ha : a ∈ l) (hb : b ∈ l) (hab : a ≠ b) :
    (a, b) ∈ combos l ∨ (b, a) ∈ combos l := by
  induction l with
  | nil => simp at ha
  | cons x t ih =>
    simp only [combos, List.mem_append, List.mem_map]
    rcases List.mem_cons.mp ha with rfl | ha'
    · rcases List.mem_cons.mp hb with rfl | hb'
      · exact absurd rfl hab
      · exact Or.inl (Or.inl ⟨b, hb', rfl⟩)
    · rcases List.mem_cons.mp hb with rfl | hb'
      · exact Or.inr (Or.inl ⟨a, ha', rfl⟩)
      · rcases ih ha' hb' with h | h
        · exact Or.inl (Or.inr h)
        · exact Or.inr (Or.inr h)

theorem pairIn_iff (n : Nest ℝ) (i j : Int) :
    pairIn n i j = true ↔ ((i, j) ∈ combos n.alts ∨ (j, i) ∈ combos n.alts) := by
  unfold pairIn
  rw [List.any_eq_true]
  constructor
  · rintro ⟨p, hp, h⟩
    simp only [Bool.or_eq_true, Bool.and_eq_true, beq_iff_eq] at h
    rcases h with ⟨h1, h2⟩ | ⟨h1, h2⟩
    · left; rw [← h1, ← h2]; exact hp
    · right; rw [← h1, ← h2]; exact hp
  · rintro (h | h)
    · exact ⟨(i, j), h, by simp⟩
    · exact ⟨(j, i), h, by simp⟩

theorem pairIn_of_mem (n : Nest ℝ) (i j : Int) (hi : i ∈ n.alts) (hj : j ∈ n.alts) (hij : i ≠ j) :
    pairIn n i j = true :=
  (pairIn_iff n i j).mpr (combos_of_mem n.alts i j hi hj hij)

theorem mem_of_pairIn (n : Nest ℝ) (i j : Int) (h : pairIn n i j = true) :
    i ∈ n.alts ∧ j ∈ n.alts := by
  rcases (pairIn_iff n i j).mp h with h | h
  · exact combos_mem _ _ _ h
  · exact (combos_mem _ _ _ h).symm

theorem pairIn_diag (n : Nest ℝ) (hnd : n.alts.Nodup) (i : Int) : pairIn n i i = false := by
  rw [Bool.eq_false_iff]
  intro h
  rcases (pairIn_iff n i i).mp h with h | h <;> exact combos_ne _ hnd _ _ h rfl

theorem corr_fold_none (mu init : ℝ) (nests : List (Nest ℝ)) (i j : Int)
    (h : ∀ n ∈ nests, pairIn n i j = false) :
    nests.foldl (fun acc n => if pairIn n i j then nestCorr mu n else acc) init = init := by
  induction nests generalizing init with
  | nil => rfl
  | cons n t ih =>
    rw [List.foldl_cons, h n (by simp)]
    simpa using ih init (fun m hm => h m (by simp [hm]))

theorem corr_fold_some (mu init v : ℝ) (nests : List (Nest ℝ)) (i j : Int)
    (hex : ∃ n ∈ nests, pairIn n i j = true)
    (hall : ∀ n ∈ nests, pairIn n i j = true → nestCorr mu n = v) :
    nests.foldl (fun acc n => if pairIn n i j then nestCorr mu n else acc) init = v := by
  induction nests generalizing init with
  | nil => simp at hex
  | cons n t ih =>
    rw [List.foldl_cons]
    by_cases hex' : ∃ m ∈ t, pairIn m i j = true
    · exact ih _ hex' (fun m hm => hall m (by simp [hm]))
    · have hnone : ∀ m ∈ t, pairIn m i j = false := by
        intro m hm
        rw [Bool.eq_false_iff]
        intro hp; exact hex' ⟨m, hm, hp⟩
      rw [corr_fold_none mu _ t i j hnone]
      obtain ⟨m, hm, hp⟩ := hex
      rcases List.mem_cons.mp hm with rfl | hm'
      · rw [hp]; simpa using hall m (by simp) hp
      · exact absurd ⟨m, hm', hp⟩ hex'

end Helpers
