/-
Analytic lemmas for the helper models (property C17): closed forms of the densities on ℝ,
Box-Cox (series remainder, limit at 0), integrals of the uniform / triangular / normal
densities, logistic cdf, numeric bounds on the constants used by the code.
-/
import Model.Helpers
import Proofs.Helpers
import Mathlib.Analysis.SpecialFunctions.Exponential
import Mathlib.Analysis.SpecialFunctions.Pow.Deriv
import Mathlib.Analysis.SpecialFunctions.Log.Basic
import Mathlib.Analysis.Calculus.Deriv.Slope
import Mathlib.Analysis.Real.Pi.Bounds
import Mathlib.MeasureTheory.Integral.IntervalIntegral.FundThmCalculus
import Mathlib.MeasureTheory.Integral.IntervalIntegral.Basic
import Mathlib.Analysis.SpecialFunctions.Gaussian.GaussianIntegral

namespace Helpers
open NumR MeasureTheory Filter Topology


theorem two_sci : (2.0 : ℝ) = 2 := by norm_num
theorem one_sci : (1.0 : ℝ) = 1 := by norm_num
theorem zero_sci : (0.0 : ℝ) = 0 := by norm_num

theorem normalpdf_real (x mu s : ℝ) :
    normalpdf x mu s = Real.exp (-(x - mu) ^ 2 / (2 * s ^ 2)) / (s * 2.506628275) := by
  unfold normalpdf sqrt2pi
  simp only [emul_real, ediv_real, exp_real, mul_real, sub_real, neg_real, div_real, ofSci_real, two_sci]
  congr 2
  ring

theorem lognormalpdf_real (x mu s : ℝ) :
    lognormalpdf x mu s = if 0 < x then
      Real.exp (-(Real.log x - mu) ^ 2 / (2 * s ^ 2)) / (x * s * 2.506628275) else 0 := by
  unfold lognormalpdf sqrt2pi
  simp only [emul_real, ediv_real, exp_real, log_real, mul_real, sub_real, neg_real, ofSci_real, ofBool_real,
    two_sci, lt_real, ofNat_real_zero]
  by_cases h : 0 < x
  · simp only [if_pos h, one_mul]
    congr 2
    ring
  · simp [h]

theorem uniformpdf_real (x a b : ℝ) :
    uniformpdf x a b = if a ≤ x ∧ x ≤ b then 1 / (b - a) else 0 := by
  unfold uniformpdf
  simp only [emul_real, ediv_real, sub_real, ofSci_real, ofBool_real, zero_sci, lt_real, le_real,
    mul_zero, zero_add]
  by_cases h1 : a ≤ x <;> by_cases h2 : x ≤ b <;> simp [h1, h2]

theorem logisticcdf_real (x mu s : ℝ) :
    logisticcdf x mu s = 1 / (1 + Real.exp (-(x - mu) / s)) := by
  unfold logisticcdf
  simp only [ediv_real, exp_real, add_real, sub_real, neg_real, div_real, ofSci_real, one_sci]

theorem triangularpdf_real (x a b c : ℝ) (hac : a < c) (hcb : c < b) :
    triangularpdf x a b c =
      if x < a then 0
      else if x < c then 2 * (x - a) / ((b - a) * (c - a))
      else if x = c then 2 / (b - a)
      else if x ≤ b then 2 * (b - x) / ((b - a) * (b - c))
      else 0 := by
  unfold triangularpdf
  simp only [emul_real, ediv_real, sub_real, mul_real, ofSci_real, ofBool_real, zero_sci, two_sci, lt_real, le_real,
    eq_real, sum_real, List.sum_cons, List.sum_nil, mul_zero, zero_add, add_zero]
  split_ifs <;> try first | (exfalso; linarith) | (simp)
  all_goals first | ring1 | (exfalso; rcases lt_trichotomy x c with h | h | h <;> contradiction)

theorem loglikReg_real (y m s : ℝ) :
    loglikReg y m s = -((y - m) / s) ^ 2 / 2 - Real.log (s ^ 2) / 2 - 0.9189385332 := by
  unfold loglikReg
  simp only [ediv_real, powN_real, log_real, sub_real, neg_real, div_real, ofSci_real, ofNat_real]

theorem six_sci : (6.0 : ℝ) = 6 := by norm_num
theorem tf_sci : (24.0 : ℝ) = 24 := by norm_num

theorem sqrt2pi_bound : |(2.506628275 : ℝ) - Real.sqrt (2 * Real.pi)| < 1e-9 := by
  have h1 : (2.506628274 : ℝ) < Real.sqrt (2 * Real.pi) := by
    rw [Real.lt_sqrt (by norm_num)]
    have := Real.pi_gt_d20
    nlinarith
  have h2 : Real.sqrt (2 * Real.pi) < (2.506628276 : ℝ) := by
    rw [Real.sqrt_lt' (by norm_num)]
    have := Real.pi_lt_d20
    nlinarith
  rw [abs_lt]
  generalize Real.sqrt (2 * Real.pi) = r at h1 h2 ⊢
  constructor <;> norm_num at h1 h2 ⊢ <;> linarith

theorem closeToZero_real (l : ℝ) : closeToZero l = true ↔ (-1e-5 < l ∧ l < 1e-5) := by
  unfold closeToZero
  simp only [Bool.and_eq_true, lt_real, neg_real, ofSci_real]
  constructor
  · rintro ⟨a, b⟩; exact ⟨by norm_num at b ⊢; linarith, by norm_num at a ⊢; linarith⟩
  · rintro ⟨a, b⟩; exact ⟨by norm_num at b ⊢; linarith, by norm_num at a ⊢; linarith⟩

theorem boxcoxSeries_real (x l : ℝ) :
    boxcoxSeries x l = Real.log x + l * Real.log x ^ 2 / 2 + l ^ 2 * Real.log x ^ 3 / 6
      + l ^ 3 * Real.log x ^ 4 / 24 := by
  unfold boxcoxSeries
  simp only [powN_real, log_real, add_real, mul_real, div_real, ofSci_real, two_sci, six_sci, tf_sci]

theorem boxcoxRegular_real (x l : ℝ) : boxcoxRegular x l = (x ^ l - 1) / l := by
  unfold boxcoxRegular
  simp only [pow_real, sub_real, div_real, ofSci_real, one_sci]

theorem boxcox_real (x l : ℝ) :
    boxcox x l = if x = 0 then 0 else if (-1e-5 < l ∧ l < 1e-5) then boxcoxSeries x l else boxcoxRegular x l := by
  unfold boxcox
  by_cases hx : x = 0
  · simp [hx]
  · simp only [eq_real, ofNat_real_zero, hx, if_false]
    by_cases hl : (-1e-5 < l ∧ l < 1e-5)
    · rw [if_pos ((closeToZero_real l).mpr hl), if_pos hl]
    · have : ¬ (closeToZero l = true) := fun h => hl ((closeToZero_real l).mp h)
      rw [if_neg this, if_neg hl]


/-- the series used by the code is the degree-4 Taylor polynomial of `(e^{ℓ log x} − 1)/ℓ` -/
theorem series_bound (x l : ℝ) (hx : 0 < x) (hl : l ≠ 0) (hy : |l * Real.log x| ≤ 1) :
    |(Real.log x + l * Real.log x ^ 2 / 2 + l ^ 2 * Real.log x ^ 3 / 6 + l ^ 3 * Real.log x ^ 4 / 24)
        - (x ^ l - 1) / l| ≤ |Real.log x| ^ 5 * |l| ^ 4 / 100 := by
  set L := Real.log x with hL
  have hxl : x ^ l = Real.exp (l * L) := by
    rw [Real.rpow_def_of_pos hx, mul_comm]
  have hb := Real.exp_bound hy (n := 5) (by norm_num)
  have hsum : ∑ m ∈ Finset.range 5, (l * L) ^ m / (m.factorial : ℝ)
      = 1 + l * L + (l * L) ^ 2 / 2 + (l * L) ^ 3 / 6 + (l * L) ^ 4 / 24 := by
    simp [Finset.sum_range_succ, Nat.factorial]
  rw [hsum] at hb
  have hc : ((Nat.succ 5 : ℕ) : ℝ) / ((Nat.factorial 5 : ℕ) * ((5 : ℕ) : ℝ)) = 1 / 100 := by
    simp [Nat.factorial]; norm_num
  rw [hc] at hb
  have hlpos : 0 < |l| := abs_pos.mpr hl
  have key : (L + l * L ^ 2 / 2 + l ^ 2 * L ^ 3 / 6 + l ^ 3 * L ^ 4 / 24) - (x ^ l - 1) / l
      = -(Real.exp (l * L) - (1 + l * L + (l * L) ^ 2 / 2 + (l * L) ^ 3 / 6 + (l * L) ^ 4 / 24)) / l := by
    rw [hxl]; field_simp; ring
  rw [key, abs_div, abs_neg, div_le_iff₀ hlpos]
  calc _ ≤ |l * L| ^ 5 * (1 / 100) := hb
    _ = |L| ^ 5 * |l| ^ 4 / 100 * |l| := by rw [abs_mul]; ring

theorem boxcox_limit (x : ℝ) (hx : 0 < x) :
    Tendsto (fun l : ℝ => (x ^ l - 1) / l) (𝓝[≠] 0) (𝓝 (Real.log x)) := by
  have h := (Real.hasStrictDerivAt_const_rpow hx 0).hasDerivAt
  rw [hasDerivAt_iff_tendsto_slope] at h
  simp only [Real.rpow_zero, one_mul] at h
  refine h.congr (fun l => ?_)
  simp [slope, div_eq_inv_mul]


noncomputable def triForm (x a b c : ℝ) : ℝ :=
  if x < a then 0
  else if x < c then 2 * (x - a) / ((b - a) * (c - a))
  else if x = c then 2 / (b - a)
  else if x ≤ b then 2 * (b - x) / ((b - a) * (b - c))
  else 0

theorem triForm_eq (x a b c : ℝ) (hac : a < c) (hcb : c < b) :
    triForm x a b c = Set.indicator (Set.Ioc a c) (fun x => 2 * (x - a) / ((b - a) * (c - a))) x
        + Set.indicator (Set.Ioc c b) (fun x => 2 * (b - x) / ((b - a) * (b - c))) x := by
  have hba : b - a ≠ 0 := by linarith [sub_pos.mpr (hac.trans hcb)]
  have hca : c - a ≠ 0 := (sub_pos.mpr hac).ne'
  unfold triForm
  simp only [Set.indicator, Set.mem_Ioc]
  by_cases hA : a < x ∧ x ≤ c
  · obtain ⟨h1, h2⟩ := hA
    have hB : ¬(c < x ∧ x ≤ b) := fun h => by linarith [h.1]
    have hA' : a < x ∧ x ≤ c := ⟨h1, h2⟩
    have hna : ¬ x < a := not_lt.mpr h1.le
    rw [if_pos hA', if_neg hB, if_neg hna, add_zero]
    rcases h2.lt_or_eq with h | h
    · rw [if_pos h]
    · rw [if_neg (by linarith), if_pos h, h]
      field_simp
  · rw [if_neg hA, zero_add]
    by_cases hB : c < x ∧ x ≤ b
    · have n1 : ¬ x < a := by linarith [hB.1]
      have n2 : ¬ x < c := by linarith [hB.1]
      have n3 : ¬ x = c := by linarith [hB.1]
      rw [if_pos hB, if_neg n1, if_neg n2, if_neg n3, if_pos hB.2]
    · rw [if_neg hB]
      by_cases h1 : x < a
      · rw [if_pos h1]
      · rw [if_neg h1]
        rcases (not_lt.mp h1).lt_or_eq with h2 | h2
        · have h3 : c < x := by
            by_contra h; exact hA ⟨h2, not_lt.mp h⟩
          have h4 : ¬ x ≤ b := fun h => hB ⟨h3, h⟩
          have n2 : ¬ x < c := by linarith
          have n3 : ¬ x = c := by linarith
          rw [if_neg n2, if_neg n3, if_neg h4]
        · rw [← h2, if_pos hac]; simp

theorem tri_integral_core (a b c : ℝ) (hac : a < c) (hcb : c < b) :
    ∫ x, triForm x a b c = 1 := by
  have hba : b - a ≠ 0 := by linarith [sub_pos.mpr (hac.trans hcb)]
  have hca : c - a ≠ 0 := (sub_pos.mpr hac).ne'
  have hbc : b - c ≠ 0 := (sub_pos.mpr hcb).ne'
  have e : (fun x => triForm x a b c)
      = fun x => Set.indicator (Set.Ioc a c) (fun x => 2 * (x - a) / ((b - a) * (c - a))) x
        + Set.indicator (Set.Ioc c b) (fun x => 2 * (b - x) / ((b - a) * (b - c))) x := by
    funext x; exact triForm_eq x a b c hac hcb
  have c1 : Continuous (fun x : ℝ => 2 * (x - a) / ((b - a) * (c - a))) := by fun_prop
  have c2 : Continuous (fun x : ℝ => 2 * (b - x) / ((b - a) * (b - c))) := by fun_prop
  have i1 : Integrable (Set.indicator (Set.Ioc a c) (fun x => 2 * (x - a) / ((b - a) * (c - a)))) :=
    (integrable_indicator_iff measurableSet_Ioc).mpr c1.integrableOn_Ioc
  have i2 : Integrable (Set.indicator (Set.Ioc c b) (fun x => 2 * (b - x) / ((b - a) * (b - c)))) :=
    (integrable_indicator_iff measurableSet_Ioc).mpr c2.integrableOn_Ioc
  rw [e, integral_add i1 i2, integral_indicator measurableSet_Ioc, integral_indicator measurableSet_Ioc,
    ← intervalIntegral.integral_of_le hac.le, ← intervalIntegral.integral_of_le hcb.le]
  have d1 : ∀ x ∈ Set.uIcc a c, HasDerivAt (fun x => (x - a) ^ 2 / ((b - a) * (c - a)))
      (2 * (x - a) / ((b - a) * (c - a))) x := by
    intro x _
    have h := (((hasDerivAt_id' x).sub_const a).fun_pow 2).div_const ((b - a) * (c - a))
    exact h.congr_deriv (by ring)
  have d2 : ∀ x ∈ Set.uIcc c b, HasDerivAt (fun x => -(b - x) ^ 2 / ((b - a) * (b - c)))
      (2 * (b - x) / ((b - a) * (b - c))) x := by
    intro x _
    have h := ((((hasDerivAt_id' x).const_sub b).fun_pow 2).fun_neg).div_const ((b - a) * (b - c))
    exact h.congr_deriv (by ring)
  rw [intervalIntegral.integral_eq_sub_of_hasDerivAt d1 (c1.intervalIntegrable _ _),
    intervalIntegral.integral_eq_sub_of_hasDerivAt d2 (c2.intervalIntegrable _ _)]
  field_simp
  ring


theorem normal_integral_core (mu s : ℝ) (hs : 0 < s) :
    ∫ x, Real.exp (-(x - mu) ^ 2 / (2 * s ^ 2)) / (s * 2.506628275)
      = Real.sqrt (2 * Real.pi) / 2.506628275 := by
  have h1 : ∀ x : ℝ, Real.exp (-(x - mu) ^ 2 / (2 * s ^ 2)) / (s * 2.506628275)
      = (fun y => Real.exp (-(1 / (2 * s ^ 2)) * y ^ 2) / (s * 2.506628275)) (x - mu) := by
    intro x; simp only; congr 2; ring
  simp_rw [h1]
  rw [integral_sub_right_eq_self (fun y => Real.exp (-(1 / (2 * s ^ 2)) * y ^ 2) / (s * 2.506628275)) mu]
  rw [integral_div, integral_gaussian]
  have : Real.pi / (1 / (2 * s ^ 2)) = (2 * Real.pi) * s ^ 2 := by field_simp
  rw [this, Real.sqrt_mul (by positivity), Real.sqrt_sq hs.le]
  field_simp

theorem logistic_strictMono (mu s : ℝ) (hs : 0 < s) :
    StrictMono (fun x : ℝ => 1 / (1 + Real.exp (-(x - mu) / s))) := by
  intro x y hxy
  have h1 : Real.exp (-(y - mu) / s) < Real.exp (-(x - mu) / s) := by
    apply Real.exp_lt_exp.mpr
    apply div_lt_div_of_pos_right _ hs
    linarith
  have hx : 0 < 1 + Real.exp (-(x - mu) / s) := by positivity
  have hy : 0 < 1 + Real.exp (-(y - mu) / s) := by positivity
  simp only
  rw [div_lt_div_iff₀ hx hy]
  linarith

theorem logistic_atTop (mu s : ℝ) (hs : 0 < s) :
    Tendsto (fun x : ℝ => 1 / (1 + Real.exp (-(x - mu) / s))) atTop (𝓝 1) := by
  have h0 : Tendsto (fun x : ℝ => -(x - mu) / s) atTop atBot := by
    have : Tendsto (fun x : ℝ => (x - mu) / s) atTop atTop :=
      (tendsto_atTop_add_const_right _ (-mu) tendsto_id).atTop_div_const hs
    have := tendsto_neg_atTop_atBot.comp this
    refine this.congr (fun x => ?_)
    simp only [Function.comp]; ring
  have h1 : Tendsto (fun x : ℝ => Real.exp (-(x - mu) / s)) atTop (𝓝 0) := Real.tendsto_exp_atBot.comp h0
  have h2 : Tendsto (fun x : ℝ => 1 / (1 + Real.exp (-(x - mu) / s))) atTop (𝓝 (1 / (1 + 0))) :=
    Tendsto.div tendsto_const_nhds (tendsto_const_nhds.add h1) (by norm_num)
  simpa using h2

theorem logistic_atBot (mu s : ℝ) (hs : 0 < s) :
    Tendsto (fun x : ℝ => 1 / (1 + Real.exp (-(x - mu) / s))) atBot (𝓝 0) := by
  have h0 : Tendsto (fun x : ℝ => -(x - mu) / s) atBot atTop := by
    have : Tendsto (fun x : ℝ => (x - mu) / s) atBot atBot :=
      (tendsto_atBot_add_const_right _ (-mu) tendsto_id).atBot_div_const hs
    have := tendsto_neg_atBot_atTop.comp this
    refine this.congr (fun x => ?_)
    simp only [Function.comp]; ring
  have h1 : Tendsto (fun x : ℝ => 1 + Real.exp (-(x - mu) / s)) atBot atTop :=
    tendsto_atTop_add_const_left _ 1 (Real.tendsto_exp_atTop.comp h0)
  have h2 := h1.inv_tendsto_atTop
  refine h2.congr (fun x => ?_)
  simp


set_option maxRecDepth 4000 in
theorem exp_lo : Real.exp (0.9189385322 : ℝ) < 2.506628273 := by
  have hq : |(0.9189385322 : ℝ)| ≤ 1 := by rw [abs_le]; constructor <;> norm_num
  have hb := Real.exp_bound hq (n := 13) (by norm_num)
  have h := (abs_le.mp hb).2
  simp only [Finset.sum_range_succ, Finset.sum_range_zero, Nat.factorial, Nat.succ_eq_add_one] at h
  norm_num at h
  linarith

set_option maxRecDepth 4000 in
theorem exp_hi : (2.506628276 : ℝ) < Real.exp (0.9189385342 : ℝ) := by
  have hq : |(0.9189385342 : ℝ)| ≤ 1 := by rw [abs_le]; constructor <;> norm_num
  have hb := Real.exp_bound hq (n := 13) (by norm_num)
  have h := (abs_le.mp hb).1
  simp only [Finset.sum_range_succ, Finset.sum_range_zero, Nat.factorial, Nat.succ_eq_add_one] at h
  norm_num at h
  linarith

theorem uniform_integral_core (a b : ℝ) (hab : a < b) :
    ∫ x, (if a ≤ x ∧ x ≤ b then 1 / (b - a) else 0) = 1 := by
  have : (fun x : ℝ => if a ≤ x ∧ x ≤ b then 1 / (b - a) else 0)
      = Set.indicator (Set.Icc a b) (fun _ => 1 / (b - a)) := by
    funext x
    simp [Set.indicator, Set.mem_Icc]
  rw [this, integral_indicator measurableSet_Icc, setIntegral_const]
  simp [hab.le]
  field_simp [sub_ne_zero.mpr hab.ne']

/-- the implemented Box-Cox transform is continuous in ℓ at 0 (there it is the series) -/
theorem boxcox_continuousAt_zero (x : ℝ) (hx : x ≠ 0) : ContinuousAt (fun l => boxcox x l) 0 := by
  have hev : (fun l => boxcoxSeries x l) =ᶠ[𝓝 0] (fun l => boxcox x l) := by
    have : Set.Ioo (-1e-5 : ℝ) 1e-5 ∈ 𝓝 (0 : ℝ) := Ioo_mem_nhds (by norm_num) (by norm_num)
    filter_upwards [this] with l hl
    rw [boxcox_real, if_neg hx, if_pos ⟨hl.1, hl.2⟩]
  refine ContinuousAt.congr ?_ hev
  simp only [boxcoxSeries_real]
  fun_prop

theorem log_const_bounds :
    (0.9189385322 : ℝ) < Real.log 2.506628275 ∧ Real.log 2.506628275 < (0.9189385342 : ℝ) := by
  constructor
  · rw [Real.lt_log_iff_exp_lt (by norm_num)]
    exact lt_trans exp_lo (by norm_num)
  · rw [Real.log_lt_iff_lt_exp (by norm_num)]
    exact lt_trans (by norm_num) exp_hi

theorem half_log_two_pi_bounds :
    (0.9189385322 : ℝ) < Real.log (2 * Real.pi) / 2 ∧ Real.log (2 * Real.pi) / 2 < (0.9189385342 : ℝ) := by
  have hpos : (0 : ℝ) < Real.sqrt (2 * Real.pi) := Real.sqrt_pos.mpr (by positivity)
  have h1 : (2.506628274 : ℝ) < Real.sqrt (2 * Real.pi) := by
    rw [Real.lt_sqrt (by norm_num)]
    have := Real.pi_gt_d20
    nlinarith
  have h2 : Real.sqrt (2 * Real.pi) < (2.506628276 : ℝ) := by
    rw [Real.sqrt_lt' (by norm_num)]
    have := Real.pi_lt_d20
    nlinarith
  rw [← Real.log_sqrt (by positivity)]
  constructor
  · rw [Real.lt_log_iff_exp_lt hpos]
    exact lt_trans exp_lo (lt_trans (by norm_num) h1)
  · rw [Real.log_lt_iff_lt_exp hpos]
    exact lt_trans h2 exp_hi

/-- regression log likelihood = log of the (code's) normal density, up to the difference of the
    two constants of the code -/
theorem loglikReg_eq_log_normalpdf (y m s : ℝ) (hs : 0 < s) :
    loglikReg y m s = Real.log (normalpdf y m s) + (Real.log 2.506628275 - 0.9189385332) := by
  rw [loglikReg_real, normalpdf_real]
  have hc : (0 : ℝ) < 2.506628275 := by norm_num
  rw [Real.log_div (Real.exp_pos _).ne' (mul_pos hs hc).ne', Real.log_exp,
    Real.log_mul hs.ne' hc.ne', Real.log_pow]
  have : ((y - m) / s) ^ 2 = (y - m) ^ 2 / s ^ 2 := by rw [div_pow]
  rw [this]
  field_simp
  ring

end Helpers
