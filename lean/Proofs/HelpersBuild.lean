/-
The formulas built by the specification helpers (Model/HelpersBuild.lean) evaluate, with the
node semantics of the engine, to the closed forms of Model/Helpers.lean — for every argument
expression, parameter expression and environment.  Over `ℝ`.
-/
import Model.HelpersBuild
import Proofs.Helpers
import Proofs.HelpersAnalysis

namespace HelpersBuild
open Helpers Expr NumR

section generic
variable {α : Type} [NumOps α]

@[simp] theorem evalT_num (env : Env α) (v : α) : evalT env (.num v) = v := by simp [evalT]
@[simp] theorem evalT_var (env : Env α) (n : String) : evalT env (.var n : HE α) = env.var n := by
  simp [evalT]
@[simp] theorem evalT_beta (env : Env α) (n : String) : evalT env (.beta n : HE α) = env.beta n := by
  simp [evalT]
@[simp] theorem evalT_un (env : Env α) (k : Kind) (a : HE α) :
    evalT env (.un k a) = unOp k (evalT env a) := by simp [evalT]
@[simp] theorem evalT_bin (env : Env α) (k : Kind) (a b : HE α) :
    evalT env (.bin k a b) = binOp k (evalT env a) (evalT env b) := by simp [evalT]
open Num in
@[simp] theorem evalT_powc (env : Env α) (a : HE α) (e : α) :
    evalT env (.powc a e) = if Num.eq e 0 then 1 else Num.pow (evalT env a) e := by simp [evalT]
@[simp] theorem evalT_msum (env : Env α) (ts : List (HE α)) :
    evalT env (.msum ts) = Num.sum (ts.map (evalT env)) := by simp [evalT]
@[simp] theorem evalT_elem (env : Env α) (key : HE α) (ks : List Int) (bs : List (HE α)) :
    evalT env (.elem key ks bs) = pick (bs.map (evalT env)) (findKey (evalT env key) ks 0) := by
  simp [evalT]

/-- one piecewise variable, on every number type (the same operations in the same order) -/
theorem pwVar_built (env : Env α) (X : HE α) (a b : Option α) :
    evalT env (pwVarE X a b) = pwVar (evalT env X) a b := by
  cases a <;> cases b <;> simp [pwVarE, pwVar, eMinus, binOp]

/-- **the variables `piecewise_variables` builds evaluate to the model's variables**, on every
number type (so also on `Float`, bit for bit) -/
theorem pwVars_built (env : Env α) (X : HE α) :
    ∀ ths : List (Option α), (pwVarsE X ths).map (evalT env) = pwVars (evalT env X) ths
  | [] => rfl
  | [_] => rfl
  | a :: b :: rest => by
    simp only [pwVarsE, pwVars, List.map_cons, pwVar_built, pwVars_built env X (b :: rest)]

theorem pwVarsE_length (X : HE α) :
    ∀ ths : List (Option α), (pwVarsE X ths).length = ths.length - 1
  | [] => rfl
  | [_] => rfl
  | a :: b :: rest => by
    simp only [pwVarsE, List.length_cons, pwVarsE_length X (b :: rest)]
    omega

end generic

/-! ### over the reals -/

theorem zipTimes_real (env : Env ℝ) :
    ∀ (Bs Vs : List (HE ℝ)),
      (List.zipWith eTimes Bs Vs).map (evalT env)
        = List.zipWith (fun b v => b * v) (Bs.map (evalT env)) (Vs.map (evalT env))
  | [], _ => by simp
  | _ :: _, [] => by simp
  | b :: bs, v :: vs => by
    simp only [List.zipWith_cons_cons, List.map_cons, zipTimes_real env bs vs, eTimes, evalT_bin, binOp,
      emul_real, mul_real]

/-- **`piecewise_formula`**: the `bioMultSum` of `beta_i * x_i` it returns evaluates to the model's
`pwFormula` at the values of the argument and of the parameter expressions -/
theorem pwFormula_built (env : Env ℝ) (X : HE ℝ) (ths : List (Option ℝ)) (Bs : List (HE ℝ)) :
    evalT env (pwFormulaE X ths Bs) = pwFormula (evalT env X) ths (Bs.map (evalT env)) := by
  simp only [pwFormulaE, evalT_msum, zipTimes_real, pwVars_built, pwFormula, dot]

/-- **`piecewise_as_variable`**: `x_1 + bioMultSum(beta_i * x_{i+1})` -/
theorem pwAsVariable_built (env : Env ℝ) (X : HE ℝ) (ths : List (Option ℝ)) (Bs : List (HE ℝ)) :
    evalT env (pwAsVariableE X ths Bs) = pwAsVariable (evalT env X) ths (Bs.map (evalT env)) := by
  have h := pwVars_built env X ths
  unfold pwAsVariableE pwAsVariable
  cases hv : pwVarsE X ths with
  | nil =>
    rw [hv] at h
    rw [← h]
    simp [Num.sum]
  | cons v vs =>
    rw [hv] at h
    rw [← h]
    simp only [List.map_cons, ePlus, evalT_bin, binOp, evalT_msum, zipTimes_real, dot, add_real]

theorem findKey_bool (b : Bool) : findKey (Num.ofBool b : ℝ) [0, 1] 0 = some (if b then 1 else 0) := by
  cases b <;> simp [findKey, keyMatches, Num.ofBool]

theorem emul_bool (a b : Bool) : emul (Num.ofBool a : ℝ) (Num.ofBool b) = Num.ofBool (a && b) := by
  cases a <;> cases b <;> simp [Num.ofBool]

theorem three_sci : (3.0 : ℝ) = 3 := by norm_num
theorem four_sci : (4.0 : ℝ) = 4 := by norm_num

theorem powcR (a e : ℝ) (he : e ≠ 0) : (if Num.eq e 0 = true then (1 : ℝ) else Num.pow a e) = a ^ e := by
  rw [if_neg (by simpa using he), pow_real]

theorem rpow2 (a : ℝ) : a ^ (2 : ℝ) = a ^ 2 := by
  rw [show (2 : ℝ) = ((2 : ℕ) : ℝ) by norm_num, Real.rpow_natCast]
theorem rpow3 (a : ℝ) : a ^ (3 : ℝ) = a ^ 3 := by
  rw [show (3 : ℝ) = ((3 : ℕ) : ℝ) by norm_num, Real.rpow_natCast]
theorem rpow4 (a : ℝ) : a ^ (4 : ℝ) = a ^ 4 := by
  rw [show (4 : ℝ) = ((4 : ℕ) : ℝ) by norm_num, Real.rpow_natCast]

theorem evalT_ePow (env : Env ℝ) (X L : HE ℝ) :
    evalT env (ePow X L) = Num.pow (evalT env X) (evalT env L) := by
  cases L <;> simp only [ePow, evalT_bin, binOp, evalT_powc, evalT_num]
  rename_i v
  simp only [ofNat_real_zero, ofNat_real_one]
  by_cases hv : v = 0
  · subst hv
    simp
  · rw [powcR _ _ hv, pow_real]

/-- **`boxcox`**: the nested `Elem` it returns evaluates to the model's `boxcox` (special case at
`x = 0`, series inside `(-1e-5, 1e-5)`, `(x^ℓ − 1)/ℓ` outside) -/
theorem boxcox_built (env : Env ℝ) (X L : HE ℝ) :
    evalT env (boxcoxE X L) = boxcox (evalT env X) (evalT env L) := by
  have hp := evalT_ePow env X L
  generalize hx : evalT env X = x at hp ⊢
  generalize hl : evalT env L = l at hp ⊢
  simp only [boxcoxE, evalT_elem, evalT_bin, evalT_un, evalT_num, evalT_powc, binOp, unOp, hx, hl, eTimes, eDiv,
    eMinus, ePlus, List.map_cons, List.map_nil, emul_bool, findKey_bool, hp]
  unfold boxcox closeToZero boxcoxSeries boxcoxRegular
  simp only [ofNat_real_zero, ofNat_real_one, ofSci_real]
  simp only [powcR _ _ (show (2.0 : ℝ) ≠ 0 by norm_num), powcR _ _ (show (3.0 : ℝ) ≠ 0 by norm_num),
    powcR _ _ (show (4.0 : ℝ) ≠ 0 by norm_num)]
  by_cases h0 : Num.eq x 0 = true
  · simp [h0, pick]
  · simp only [h0, Bool.false_eq_true, if_false, pick, List.getD_cons_zero]
    by_cases hc : (Num.lt l 1.0e-5 && Num.lt (-(1.0e-5 : ℝ)) l) = true
    · simp only [hc, if_true, pick, List.getD_cons_succ, List.getD_cons_zero, emul_real, ediv_real,
        two_sci, three_sci, four_sci, rpow2, rpow3, rpow4, powN_real, log_real, add_real, mul_real,
        div_real]
    · simp only [hc, Bool.false_eq_true, if_false, pick, List.getD_cons_zero, ediv_real, pow_real, sub_real,
        div_real]

/-! ### densities, regression likelihood -/

theorem normalpdf_built (env : Env ℝ) (X MU S : HE ℝ) :
    evalT env (normalpdfE X MU S) = normalpdf (evalT env X) (evalT env MU) (evalT env S) := by
  simp only [normalpdfE, normalpdf, sqrt2pi, eTimes, eDiv, eMinus, evalT_bin, evalT_un, evalT_num, binOp, unOp,
    emul_real, ediv_real, mul_real, div_real]

theorem lognormalpdf_built (env : Env ℝ) (X MU S : HE ℝ) :
    evalT env (lognormalpdfE X MU S) = lognormalpdf (evalT env X) (evalT env MU) (evalT env S) := by
  simp only [lognormalpdfE, lognormalpdf, sqrt2pi, eTimes, eDiv, eMinus, evalT_bin, evalT_un, evalT_num, binOp,
    unOp, emul_real, ediv_real, mul_real, div_real]

theorem uniformpdf_built (env : Env ℝ) (X A B : HE ℝ) :
    evalT env (uniformpdfE X A B) = uniformpdf (evalT env X) (evalT env A) (evalT env B) := by
  simp only [uniformpdfE, uniformpdf, eTimes, eDiv, eMinus, ePlus, evalT_bin, evalT_un, evalT_num, binOp, unOp,
    emul_real, ediv_real, mul_real, div_real]

theorem triangularpdf_built (env : Env ℝ) (X A B C : HE ℝ) :
    evalT env (triangularpdfE X A B C)
      = triangularpdf (evalT env X) (evalT env A) (evalT env B) (evalT env C) := by
  simp only [triangularpdfE, triangularpdf, eTimes, eDiv, eMinus, ePlus, evalT_bin, evalT_un, evalT_num,
    evalT_msum, List.map_cons, List.map_nil, binOp, unOp, emul_real, ediv_real, mul_real, div_real]

theorem logisticcdf_built (env : Env ℝ) (X MU S : HE ℝ) :
    evalT env (logisticcdfE X MU S) = logisticcdf (evalT env X) (evalT env MU) (evalT env S) := by
  simp only [logisticcdfE, logisticcdf, eTimes, eDiv, eMinus, ePlus, evalT_bin, evalT_un, evalT_num, binOp, unOp,
    emul_real, ediv_real, mul_real, div_real]

theorem loglikReg_built (env : Env ℝ) (Y M S : HE ℝ) :
    evalT env (loglikRegE Y M S) = loglikReg (evalT env Y) (evalT env M) (evalT env S) := by
  simp only [loglikRegE, loglikReg, eTimes, eDiv, eMinus, ePlus, evalT_bin, evalT_un, evalT_num, evalT_powc, binOp,
    unOp, ofNat_real_zero, ofNat_real_one, ofNat_real, ofSci_real,
    powcR _ _ (show (2 : ℝ) ≠ 0 by norm_num), two_sci, rpow2, powN_real, emul_real, ediv_real, sub_real,
    neg_real, div_real, log_real]

/-! ### segmentation -/

section generic2
variable {α : Type} [NumOps α]

/-- **`segmented_beta`**: the `bioMultSum` it returns evaluates to the model's `segmentedBeta`, on every
number type -/
theorem segmentedBeta_built (env : Env α) (beta : String) (specs : List SegSpec) :
    evalT env (segmentedBetaE beta specs) = segmentedBeta beta specs env.beta env.var := by
  simp only [segmentedBetaE, segmentedBeta, evalT_msum, List.map_cons, evalT_beta, List.map_flatMap, segTermsE,
    List.map_map, Function.comp_def, eTimes, evalT_bin, evalT_var, evalT_num, binOp]

end generic2

/-- the expression bound by the generated code has the value of `segmented_beta()` (with no term at
all the code is the bare reference parameter) -/
theorem segmentedCode_built (env : Env ℝ) (beta : String) (specs : List SegSpec) :
    evalT env (segmentedCodeE beta specs) = evalT env (segmentedBetaE beta specs) := by
  unfold segmentedCodeE
  split
  · rename_i h
    simp only [segmentedBetaE, evalT_msum, evalT_beta, List.map_cons, List.isEmpty_iff.mp h, List.map_nil]
    simp [Num.sum]
  · rfl


/-- proves `generated tree = tree built by the model of the helper` for concrete shapes: unfold the
builders, compare node by node, decide the literal equalities (`2.5 - 1.0 = 1.5`, `0.0 = 0`, …) -/
macro "helpers_eq" : tactic => `(tactic| (
  simp [pwFormulaE, pwAsVariableE, pwVarsE, pwVarE, pwBetaNames, pwBetaName, mkThs, boxcoxE, ePow, normalpdfE, lognormalpdfE,
    uniformpdfE, triangularpdfE, logisticcdfE, loglikRegE, likRegE, loglikE, segmentedBetaE, segmentedCodeE, segTermsE,
    SegSpec.kept, SegSpec.ref, paramName, eTimes, eMinus, ePlus, eDiv, eNum]
  all_goals norm_num))

end HelpersBuild
