/- Lemmas about the id-table model (Model/IdManager.lean) over any linearly ordered type of
names; `String` with its code-point order is an instance (Mathlib.Data.String.Basic). -/
import Model.IdManager
import Mathlib.Data.List.Sort
import Mathlib.Data.String.Basic

namespace IdM

variable {ν : Type} [LinearOrder ν]

theorem mem_insertS (a x : ν) (l : List ν) : a ∈ insertS x l ↔ a = x ∨ a ∈ l := by
  induction l with
  | nil => simp [insertS]
  | cons y t ih =>
    unfold insertS
    split
    · simp
    · split
      · simp only [List.mem_cons, ih]; tauto
      · rename_i h1 h2
        have hxy : x = y := le_antisymm (not_lt.mp h2) (not_lt.mp h1)
        subst hxy
        simp only [List.mem_cons]; tauto

theorem mem_sortDedup (a : ν) (l : List ν) : a ∈ sortDedup l ↔ a ∈ l := by
  induction l with
  | nil => simp [sortDedup]
  | cons x t ih =>
    show a ∈ insertS x (sortDedup t) ↔ _
    rw [mem_insertS, ih]; simp

theorem pairwise_insertS (x : ν) (l : List ν) (h : l.Pairwise (· < ·)) :
    (insertS x l).Pairwise (· < ·) := by
  induction l with
  | nil => simp [insertS]
  | cons y t ih =>
    have ht := (List.pairwise_cons.mp h)
    unfold insertS
    split
    · rename_i hxy
      refine List.pairwise_cons.mpr ⟨?_, h⟩
      intro b hb
      rcases List.mem_cons.mp hb with rfl | hb
      · exact hxy
      · exact lt_trans hxy (ht.1 b hb)
    · split
      · rename_i hyx
        refine List.pairwise_cons.mpr ⟨?_, ih ht.2⟩
        intro b hb
        rcases (mem_insertS b x t).mp hb with rfl | hb
        · exact hyx
        · exact ht.1 b hb
      · exact h

theorem pairwise_sortDedup (l : List ν) : (sortDedup l).Pairwise (· < ·) := by
  induction l with
  | nil => simp [sortDedup]
  | cons x t ih => exact pairwise_insertS x _ ih

theorem nodup_sortDedup (l : List ν) : (sortDedup l).Nodup :=
  (pairwise_sortDedup l).imp (fun h => ne_of_lt h)

/-- the sorted list of distinct names depends only on the *set* of names: not on the order of
appearance, nor on repetitions -/
theorem sortDedup_ext (l l' : List ν) (h : ∀ a, a ∈ l ↔ a ∈ l') : sortDedup l = sortDedup l' := by
  apply List.Pairwise.eq_of_mem_iff (r := (· < ·)) (pairwise_sortDedup l) (pairwise_sortDedup l')
  intro a
  rw [mem_sortDedup, mem_sortDedup, h]

theorem sortDedup_perm (l l' : List ν) (h : l.Perm l') : sortDedup l = sortDedup l' :=
  sortDedup_ext l l' (fun _ => h.mem_iff)

/-! ### positions -/

theorem indexOf_isSome_iff (n : ν) (l : List ν) : (indexOf n l).isSome ↔ n ∈ l := by
  induction l with
  | nil => simp [indexOf]
  | cons x t ih =>
    simp only [indexOf]
    split
    · rename_i h; subst h; simp
    · rename_i h
      simp only [Option.isSome_map, ih, List.mem_cons]
      constructor
      · intro h'; exact Or.inr h'
      · rintro (h' | h')
        · exact absurd h'.symm h
        · exact h'

theorem indexOf_getD_map {β} (n : ν) (f : ν → β) (dflt : β) :
    ∀ (l : List ν) (i : Nat), indexOf n l = some i → (l.map f).getD i dflt = f n := by
  intro l
  induction l with
  | nil => intro i h; simp [indexOf] at h
  | cons x t ih =>
    intro i h
    simp only [indexOf] at h
    split at h
    · rename_i hx; cases h; subst hx; simp
    · cases hi : indexOf n t with
      | none => rw [hi] at h; simp at h
      | some j =>
        rw [hi] at h; simp at h; subst h
        simpa using ih j hi

theorem indexOf_get (n : ν) : ∀ (l : List ν) (i : Nat), indexOf n l = some i → l[i]? = some n := by
  intro l
  induction l with
  | nil => intro i h; simp [indexOf] at h
  | cons x t ih =>
    intro i h
    simp only [indexOf] at h
    split at h
    · rename_i hx; cases h; subst hx; simp
    · cases hi : indexOf n t with
      | none => rw [hi] at h; simp at h
      | some j =>
        rw [hi] at h; simp at h; subst h
        simpa using ih j hi

/-- in a list without duplicates the position determines the name -/
theorem indexOf_of_get (l : List ν) (hnd : l.Nodup) (i : Nat) (n : ν) (h : l[i]? = some n) :
    indexOf n l = some i := by
  induction l generalizing i with
  | nil => simp at h
  | cons x t ih =>
    have hx := List.nodup_cons.mp hnd
    cases i with
    | zero => simp at h; subst h; simp [indexOf]
    | succ j =>
      simp at h
      have hmem : n ∈ t := List.mem_of_getElem? h
      have hne : x ≠ n := fun e => hx.1 (e ▸ hmem)
      simp [indexOf, hne, ih hx.2 j h]

/-! ### duplicates -/

theorem nodupB_iff (l : List ν) : nodupB l = true ↔ l.Nodup := by
  induction l with
  | nil => simp [nodupB]
  | cons x t ih => simp [nodupB, ih, List.nodup_cons]

end IdM
