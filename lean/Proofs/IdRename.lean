/- Lemmas about the library's own renamings (Model/IdRename.lean). -/
import Model.IdRename
import Proofs.IdManager
import Proofs.Rename

namespace IdM

variable {ν : Type} [LinearOrder ν]

/-- renaming every declared parameter = mapping the declarations through the renaming -/
theorem renameElem_all {α} (names : List ν) (f : ν → ν) (decls : List (Decl ν α))
    (hall : ∀ d ∈ decls, d.name ∈ names) :
    renameElem names f decls = decls.map (Decl.rename f) := by
  unfold renameElem
  apply List.map_congr_left
  intro d hd
  have := hall d hd
  simp [this, Decl.rename]

/-- a declaration that is not named is left alone -/
theorem renameElem_other {α} (names : List ν) (f : ν → ν) (decls : List (Decl ν α)) (d : Decl ν α)
    (hd : d ∈ decls) (hn : d.name ∉ names) : d ∈ renameElem names f decls := by
  unfold renameElem
  refine List.mem_map.mpr ⟨d, hd, ?_⟩
  simp [hn]

theorem fixBetasRen_mem {α} (decls : List (Decl ν α)) (dict : ν → Option α) (f : ν → ν)
    (d' : Decl ν α) :
    d' ∈ fixBetasRen decls dict f ↔
      ∃ d ∈ decls, (dict d.name = none ∧ d' = d) ∨
        (∃ v, dict d.name = some v ∧ d' = { d with init := v, fixed := true, name := f d.name }) := by
  unfold fixBetasRen
  simp only [List.mem_map]
  constructor
  · rintro ⟨d, hd, rfl⟩
    refine ⟨d, hd, ?_⟩
    cases h : dict d.name with
    | none => exact Or.inl ⟨rfl, rfl⟩
    | some v => exact Or.inr ⟨v, rfl, rfl⟩
  · rintro ⟨d, hd, (⟨h, he⟩ | ⟨v, h, he⟩)⟩
    · exact ⟨d, hd, by simp [h, he]⟩
    · exact ⟨d, hd, by simp [h, he]⟩

/-- what `lookupLast` finds is a declaration with that name and status -/
theorem lookupLast_some {α} (decls : List (Decl ν α)) (fixed : Bool) (n : ν) (d : Decl ν α)
    (h : lookupLast decls fixed n = some d) : d ∈ decls ∧ d.name = n ∧ d.fixed = fixed := by
  unfold lookupLast at h
  have h1 := List.find?_some h
  have h2 := List.mem_of_find?_eq_some h
  simp only [Bool.and_eq_true, decide_eq_true_eq, beq_iff_eq] at h1
  exact ⟨by simpa using h2, h1.1, h1.2⟩

theorem lookupLast_none {α} (decls : List (Decl ν α)) (fixed : Bool) (n : ν)
    (h : lookupLast decls fixed n = none) : ∀ d ∈ decls, ¬ (d.name = n ∧ d.fixed = fixed) := by
  unfold lookupLast at h
  rw [List.find?_eq_none] at h
  intro d hd hc
  have := h d (by simpa using hd)
  simp [hc.1, hc.2] at this

end IdM
