/- Helper lemmas for the numbering state (`Model/IdState.lean`).  Core Lean only. -/
import Model.IdState
import Proofs.Engine

namespace IdState
open Expr Engine

variable {α : Type} [NumOps α]
set_option linter.unusedSectionVars false

theorem flatMap_congr' {β γ : Type} (l : List β) (f g : β → List γ) (h : ∀ x ∈ l, f x = g x) :
    l.flatMap f = l.flatMap g := by
  induction l with
  | nil => rfl
  | cons x t ih =>
    rw [List.flatMap_cons, List.flatMap_cons, h x List.mem_cons_self,
      ih (fun y hy => h y (List.mem_cons_of_mem _ hy))]

/-! ### sub-formulas -/

theorem reach_child (d : Dag α) (fuel k : Nat) (n : Node α) (hd : d[k]? = some n) (c : Nat)
    (hc : c ∈ n.children) (j : Nat) (hj : j ∈ reach d fuel c) : j ∈ reach d (fuel + 1) k := by
  rw [reach, hd]
  simp only [List.mem_cons, List.mem_flatMap]
  exact Or.inr ⟨c, hc, hj⟩

theorem reach_self (d : Dag α) (fuel k : Nat) (n : Node α) (hd : d[k]? = some n) :
    k ∈ reach d (fuel + 1) k := by
  rw [reach, hd]; exact List.mem_cons_self

/-! ### serialisation depends only on the lines of the sub-formula -/

theorem emitL_congr (l1 l2 : Nat → Node α → SigLine α) (d : Dag α) :
    ∀ fuel k, (∀ j ∈ reach d fuel k, ∀ n, d[j]? = some n → l1 j n = l2 j n) →
      emitL l1 d fuel k = emitL l2 d fuel k := by
  intro fuel
  induction fuel with
  | zero => intro k _; rfl
  | succ fuel ih =>
    intro k h
    rw [emitL, emitL]
    cases hd : d[k]? with
    | none => rfl
    | some n =>
      simp only []
      have hk := h k (reach_self d fuel k n hd) n hd
      rw [hk]
      congr 1
      apply flatMap_congr'
      intro c hc
      exact ih c (fun j hj m hm => h j (reach_child d fuel k n hd c hc j hj) m hm)

theorem emitL_lineOf (t : IdM.Table String) (d : Dag α) :
    ∀ fuel k, emitL (lineOf t) d fuel k = emit t d fuel k := by
  intro fuel
  induction fuel with
  | zero => intro k; rfl
  | succ fuel ih =>
    intro k
    rw [emitL, emit]
    cases hd : d[k]? with
    | none => rfl
    | some n =>
      simp only []
      congr 1
      apply flatMap_congr'
      intro c _
      exact ih c

/-! ### `set_id_manager` -/

theorem setMgr_mgr_mem (st : St) (R : List Nat) (m : Option Nat) (j : Nat) (h : j ∈ R) :
    (setMgr st R m).mgr j = m := by
  simp [setMgr, h]

theorem setMgr_mgr_not_mem (st : St) (R : List Nat) (m : Option Nat) (j : Nat) (h : j ∉ R) :
    (setMgr st R m).mgr j = st.mgr j := by
  simp [setMgr, h]

/-- setting the manager the nodes already hold changes nothing -/
theorem setMgr_back (st st' : St) (R : List Nat) (m m' : Option Nat)
    (h' : st' = setMgr st R m') (hu : ∀ j ∈ R, st.mgr j = m) :
    (setMgr st' R m).mgr = st.mgr := by
  funext j
  by_cases hj : j ∈ R
  · rw [setMgr_mgr_mem _ _ _ _ hj, hu j hj]
  · rw [setMgr_mgr_not_mem _ _ _ _ hj, h', setMgr_mgr_not_mem _ _ _ _ hj]

/-! ### a state whose handles are valid reads the same tables after more managers were created -/

def Valid (st : St) : Prop := ∀ j h, st.mgr j = some h → h < st.tables.length

theorem tableAt_append (st : St) (hv : Valid st) (mgr' : Nat → Option Nat) (extra : List (IdM.Table String))
    (hm : mgr' = st.mgr) (j : Nat) :
    tableAt { mgr := mgr', tables := st.tables ++ extra } j = tableAt st j := by
  subst hm
  unfold tableAt
  cases hj : st.mgr j with
  | none => rfl
  | some h =>
    simp only [Option.bind_some]
    exact List.getElem?_append_left (hv j h hj)

theorem runSt_congr (st st' : St) (d : Dag α) (h : ∀ j, tableAt st' j = tableAt st j) (k : Nat)
    (ee : EngEnv α) : runSt st' d k ee = runSt st d k ee := by
  have hl : lineSt (α := α) st' = lineSt st := by
    funext j n; unfold lineSt; rw [h j]
  have hok : nodeOK st' d = nodeOK st d := by
    funext j; unfold nodeOK; rw [h j]
  unfold runSt
  rw [hl, hok]

theorem sigSt_congr (st st' : St) (d : Dag α) (h : ∀ j, tableAt st' j = tableAt st j) (k : Nat) :
    sigSt st' d k = sigSt st d k := by
  have hl : lineSt (α := α) st' = lineSt st := by
    funext j n; unfold lineSt; rw [h j]
  have hok : nodeOK st' d = nodeOK st d := by
    funext j; unfold nodeOK; rw [h j]
  unfold sigSt
  rw [hl, hok]

/-! ### one manager on the whole sub-formula: the state-based path is the path of `Engine.run` -/

theorem runSt_uniform (st : St) (d : Dag α) (k : Nat) (t : IdM.Table String)
    (hu : ∀ j ∈ reachOf d k, tableAt st j = some t) (hnames : namesOKB t d = true) (ee : EngEnv α) :
    runSt st d k ee = run t d k ee := by
  have hn := namesOKB_spec t d hnames
  have hall : (reachOf d k).all (nodeOK st d) = true := by
    rw [List.all_eq_true]
    intro j hj
    unfold nodeOK
    cases hd : d[j]? with
    | none => rfl
    | some n => simp only [hu j hj]; exact hn j n hd
  have hemit : emitL (lineSt st) d (k + 1) k = emit t d (k + 1) k := by
    rw [← emitL_lineOf]
    apply emitL_congr
    intro j hj n _
    unfold lineSt
    rw [hu j hj]
  unfold runSt run
  simp only [hall, hnames, Bool.not_true, Bool.false_eq_true, ↓reduceIte, hemit]
  rfl

end IdState
