/- Helper lemmas for Props/C10.lean: draw-table indexing, name ↦ id, dispatch (core Lean + a few
   Mathlib list lemmas). -/
import Model.Integrals
import Mathlib.Data.List.Basic
import Mathlib.Data.List.Sort

namespace Integrals

variable {α : Type}

/-! ### moveaxis -/

theorem getD_map_range {β : Type} (f : Nat → β) (N n : Nat) (d : β) (h : n < N) :
    ((List.range N).map f).getD n d = f n := by
  rw [List.getD_eq_getElem?_getD, List.getElem?_map, List.getElem?_range h]
  rfl

/-- entry `[n][r][k]` of the moved table is entry `[k][n][r]` of the stack -/
theorem entry_moveAxis (dflt : α) (stack : List (List (List α))) (N R n r k : Nat)
    (hn : n < N) (hr : r < R) (hk : k < stack.length) :
    entry dflt (moveAxis dflt stack N R) n r k = ((stack.getD k []).getD n []).getD r dflt := by
  unfold entry moveAxis
  rw [getD_map_range _ N n [] hn, getD_map_range _ R r [] hr]
  rw [List.getD_eq_getElem?_getD, List.getElem?_map, List.getElem?_eq_getElem hk]
  simp only [Option.map_some, Option.getD_some]
  rw [List.getD_eq_getElem?_getD (l := stack), List.getElem?_eq_getElem hk]
  rfl

/-! ### the loop over the names -/

theorem collect_ok (native user : List String) (typeOf : String → String)
    (gen : Source → Nat → Nat → List (List α)) (N R : Nat) (names : List String)
    (stack : List (List (List α)))
    (h : collect native user typeOf gen N R names = .ok stack) :
    stack.length = names.length ∧
    ∀ k (hk : k < names.length), ∃ src, dispatch native user (typeOf names[k]) = .ok src ∧
      stack.getD k [] = gen src N R ∧ shapeOk (gen src N R) N R = true := by
  induction names generalizing stack with
  | nil =>
    simp only [collect] at h
    cases h
    exact ⟨rfl, fun k hk => by simp at hk⟩
  | cons name rest ih =>
    simp only [collect] at h
    cases hd : dispatch native user (typeOf name) with
    | error e => rw [hd] at h; cases h
    | ok src =>
      rw [hd] at h
      simp only at h
      by_cases hs : shapeOk (gen src N R) N R = true
      · rw [if_pos hs] at h
        cases hc : collect native user typeOf gen N R rest with
        | error e => rw [hc] at h; cases h
        | ok t =>
          rw [hc] at h
          simp only at h
          cases h
          obtain ⟨hl, hall⟩ := ih t hc
          refine ⟨by simp [hl], ?_⟩
          intro k hk
          cases k with
          | zero => exact ⟨src, by simpa using hd, by simp, hs⟩
          | succ k' =>
            have hk' : k' < rest.length := by simpa using hk
            obtain ⟨s', h1, h2, h3⟩ := hall k' hk'
            exact ⟨s', by simpa using h1, by simpa using h2, h3⟩
      · rw [if_neg hs] at h; cases h

theorem collect_error_shape (native user : List String) (typeOf : String → String)
    (gen : Source → Nat → Nat → List (List α)) (N R : Nat) (names : List String) (k : Nat)
    (hk : k < names.length)
    (hprev : ∀ j (hj : j < k), ∃ src, dispatch native user (typeOf (names[j]'(by omega))) = .ok src ∧
      shapeOk (gen src N R) N R = true)
    (src : Source) (hd : dispatch native user (typeOf names[k]) = .ok src)
    (hbad : shapeOk (gen src N R) N R = false) :
    collect native user typeOf gen N R names = .error .wrongShape := by
  induction names generalizing k with
  | nil => simp at hk
  | cons name rest ih =>
    cases k with
    | zero =>
      simp only [List.getElem_cons_zero] at hd
      simp [collect, hd, hbad]
    | succ k' =>
      obtain ⟨s0, h0, h0s⟩ := hprev 0 (by omega)
      simp only [List.getElem_cons_zero] at h0
      have hk' : k' < rest.length := by simpa using hk
      have := ih k' hk' (fun j hj => by
        obtain ⟨s, h1, h2⟩ := hprev (j + 1) (by omega)
        exact ⟨s, by simpa using h1, h2⟩) (by simpa using hd)
      simp [collect, h0, h0s, this]

theorem collect_error_unknown (native user : List String) (typeOf : String → String)
    (gen : Source → Nat → Nat → List (List α)) (N R : Nat) (names : List String) (k : Nat)
    (hk : k < names.length)
    (hprev : ∀ j (hj : j < k), ∃ src, dispatch native user (typeOf (names[j]'(by omega))) = .ok src ∧
      shapeOk (gen src N R) N R = true)
    (hd : dispatch native user (typeOf names[k]) = .error .unknownType) :
    collect native user typeOf gen N R names = .error .unknownType := by
  induction names generalizing k with
  | nil => simp at hk
  | cons name rest ih =>
    cases k with
    | zero =>
      simp only [List.getElem_cons_zero] at hd
      simp [collect, hd]
    | succ k' =>
      obtain ⟨s0, h0, h0s⟩ := hprev 0 (by omega)
      simp only [List.getElem_cons_zero] at h0
      have hk' : k' < rest.length := by simpa using hk
      have := ih k' hk' (fun j hj => by
        obtain ⟨s, h1, h2⟩ := hprev (j + 1) (by omega)
        exact ⟨s, by simpa using h1, h2⟩) (by simpa using hd)
      simp [collect, h0, h0s, this]

/-! ### names and ids -/

theorem mem_sortNames (names : List String) (a : String) : a ∈ sortNames names ↔ a ∈ names := by
  unfold sortNames
  rw [(List.mergeSort_perm _ _).mem_iff, List.mem_eraseDups]

theorem drawId_lt (names : List String) (name : String) (h : name ∈ names) :
    drawId names name < (sortNames names).length := by
  unfold drawId
  exact List.idxOf_lt_length_iff.mpr ((mem_sortNames names name).2 h)

theorem sortNames_drawId (names : List String) (name : String) (h : name ∈ names) :
    (sortNames names)[drawId names name]'(drawId_lt names name h) = name := by
  unfold drawId
  exact List.getElem_idxOf _

theorem drawId_inj (names : List String) (a b : String) (ha : a ∈ names) (hb : b ∈ names)
    (h : drawId names a = drawId names b) : a = b := by
  have h1 := sortNames_drawId names a ha
  have h2 := sortNames_drawId names b hb
  simp only [h] at h1
  exact h1.symm.trans h2

/-! ### the global numbering of the literals -/

/-- an index of the global numbering denotes one name only -/
theorem idxOf_inj_of_mem (l : List String) (a b : String) (hb : b ∈ l)
    (h : l.idxOf a = l.idxOf b) : a = b := by
  have hlt : l.idxOf b < l.length := List.idxOf_lt_length_iff.mpr hb
  have ha : a ∈ l := List.idxOf_lt_length_iff.mp (h ▸ hlt)
  have h1 : l[l.idxOf a]'(List.idxOf_lt_length_iff.mpr ha) = a := List.getElem_idxOf _
  have h2 : l[l.idxOf b]'hlt = b := List.getElem_idxOf _
  simp only [h] at h1
  exact h1.symm.trans h2

/-- differentiating w.r.t. the id of data column `j` is differentiating w.r.t. that column, provided
no parameter and no draw variable of the formula carries that id and the columns have distinct ids -/
theorem diffLit_eq_diffVar (bid vid : Nat → Nat) (did : String → Nat) (j : Nat) (e : IExpr)
    (hb : ∀ k, bid k ≠ vid j) (hv : ∀ k, vid k = vid j → k = j)
    (hd : ∀ n ∈ drawsOf e, did n ≠ vid j) :
    diffLit (vid j) bid vid did e = diffVar j e := by
  induction e with
  | num m neg k => rfl
  | nat k => rfl
  | beta k => simp [diffLit, diffVar, hb k]
  | var k =>
    by_cases hk : k = j
    · subst hk; simp [diffLit, diffVar]
    · have : vid k ≠ vid j := fun h => hk (hv k h)
      simp [diffLit, diffVar, hk, this]
  | draw n => simp [diffLit, diffVar, hd n (by simp [drawsOf])]
  | add a b iha ihb =>
    simp only [diffLit, diffVar]
    rw [iha (fun n hn => hd n (by simp [drawsOf, hn])), ihb (fun n hn => hd n (by simp [drawsOf, hn]))]
  | sub a b iha ihb =>
    simp only [diffLit, diffVar]
    rw [iha (fun n hn => hd n (by simp [drawsOf, hn])), ihb (fun n hn => hd n (by simp [drawsOf, hn]))]
  | mul a b iha ihb =>
    simp only [diffLit, diffVar]
    rw [iha (fun n hn => hd n (by simp [drawsOf, hn])), ihb (fun n hn => hd n (by simp [drawsOf, hn]))]
  | exp a iha =>
    simp only [diffLit, diffVar]
    rw [iha (fun n hn => hd n (by simpa [drawsOf] using hn))]

/-- the same for the id of parameter `i` -/
theorem diffLit_eq_diffBeta (bid vid : Nat → Nat) (did : String → Nat) (i : Nat) (e : IExpr)
    (hv : ∀ k, vid k ≠ bid i) (hb : ∀ k, bid k = bid i → k = i)
    (hd : ∀ n ∈ drawsOf e, did n ≠ bid i) :
    diffLit (bid i) bid vid did e = diffBeta i e := by
  induction e with
  | num m neg k => rfl
  | nat k => rfl
  | var k => simp [diffLit, diffBeta, hv k]
  | beta k =>
    by_cases hk : k = i
    · subst hk; simp [diffLit, diffBeta]
    · have : bid k ≠ bid i := fun h => hk (hb k h)
      simp [diffLit, diffBeta, hk, this]
  | draw n => simp [diffLit, diffBeta, hd n (by simp [drawsOf])]
  | add a b iha ihb =>
    simp only [diffLit, diffBeta]
    rw [iha (fun n hn => hd n (by simp [drawsOf, hn])), ihb (fun n hn => hd n (by simp [drawsOf, hn]))]
  | sub a b iha ihb =>
    simp only [diffLit, diffBeta]
    rw [iha (fun n hn => hd n (by simp [drawsOf, hn])), ihb (fun n hn => hd n (by simp [drawsOf, hn]))]
  | mul a b iha ihb =>
    simp only [diffLit, diffBeta]
    rw [iha (fun n hn => hd n (by simp [drawsOf, hn])), ihb (fun n hn => hd n (by simp [drawsOf, hn]))]
  | exp a iha =>
    simp only [diffLit, diffBeta]
    rw [iha (fun n hn => hd n (by simpa [drawsOf] using hn))]

/-! ### dispatch -/

theorem dispatch_native (native user : List String) (ty : String) (h : ty ∈ native) :
    dispatch native user ty = .ok (.native ty) := by
  unfold dispatch
  simp [h]

theorem dispatch_user (native user : List String) (ty : String) (h : ty ∉ native) (hu : ty ∈ user) :
    dispatch native user ty = .ok (.user ty) := by
  unfold dispatch
  simp [h, hu]

theorem dispatch_unknown (native user : List String) (ty : String) (h : ty ∉ native) (hu : ty ∉ user) :
    dispatch native user ty = .error .unknownType := by
  unfold dispatch
  simp [h, hu]

end Integrals
