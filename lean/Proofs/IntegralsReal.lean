/- Real-valued lemmas for Props/C10.lean: Monte-Carlo mean, symbolic derivative. -/
import Model.Integrals
import Proofs.Integrals
import Proofs.NumReal
import Mathlib.Algebra.BigOperators.Group.List.Basic
import Mathlib.Analysis.Calculus.Deriv.Add
import Mathlib.Analysis.Calculus.Deriv.Mul
import Mathlib.Analysis.SpecialFunctions.ExpDeriv

namespace Integrals
open NumR

theorem mc_foldl {β : Type} (t : β → ℝ) (l : List β) (a : ℝ) :
    l.foldl (fun acc b => @HAdd.hAdd ℝ ℝ ℝ (@instHAdd ℝ Num.instAddOfNumOps) acc (t b)) a
      = a + (l.map t).sum := by
  induction l generalizing a with
  | nil => simp
  | cons r rs ih =>
    simp only [List.foldl_cons, List.map_cons, List.sum_cons]
    rw [ih]
    simp only [add_real]
    ring

/-- the engine's loop is the arithmetic mean over the draws -/
theorem monteCarlo_real (names : List String) (table : List (List (List ℝ))) (betas row : List ℝ)
    (n R : ℕ) (e : IExpr) :
    monteCarlo names table betas row n R e
      = ((List.range R).map fun r =>
          evalI betas row (fun name => entry 0 table n r (drawId names name)) e).sum / (R : ℝ) := by
  unfold monteCarlo
  rw [mc_foldl]
  simp

/-- the value of a formula depends on the draws only through the variables that occur in it -/
theorem evalI_congr {α : Type} [NumOps α] (betas row : List α) (xi xi' : String → α) (e : IExpr)
    (h : ∀ name ∈ drawsOf e, xi name = xi' name) : evalI betas row xi e = evalI betas row xi' e := by
  induction e with
  | num m neg k => rfl
  | nat k => rfl
  | beta i => rfl
  | var j => rfl
  | draw name => exact h name (by simp [drawsOf])
  | add a b iha ihb =>
    simp only [evalI]
    rw [iha (fun n hn => h n (by simp [drawsOf, hn])), ihb (fun n hn => h n (by simp [drawsOf, hn]))]
  | sub a b iha ihb =>
    simp only [evalI]
    rw [iha (fun n hn => h n (by simp [drawsOf, hn])), ihb (fun n hn => h n (by simp [drawsOf, hn]))]
  | mul a b iha ihb =>
    simp only [evalI]
    rw [iha (fun n hn => h n (by simp [drawsOf, hn])), ihb (fun n hn => h n (by simp [drawsOf, hn]))]
  | exp a iha =>
    simp only [evalI]
    rw [iha (fun n hn => h n (by simpa [drawsOf] using hn))]

/-! ### evaluation on ℝ -/

@[simp] theorem evalI_nat (betas row : List ℝ) (xi : String → ℝ) (k : ℕ) :
    evalI betas row xi (.nat k) = (k : ℝ) := rfl
@[simp] theorem evalI_add (betas row : List ℝ) (xi : String → ℝ) (a b : IExpr) :
    evalI betas row xi (.add a b) = evalI betas row xi a + evalI betas row xi b := rfl
@[simp] theorem evalI_sub (betas row : List ℝ) (xi : String → ℝ) (a b : IExpr) :
    evalI betas row xi (.sub a b) = evalI betas row xi a - evalI betas row xi b := rfl
@[simp] theorem evalI_mul (betas row : List ℝ) (xi : String → ℝ) (a b : IExpr) :
    evalI betas row xi (.mul a b) = evalI betas row xi a * evalI betas row xi b := rfl
@[simp] theorem evalI_exp (betas row : List ℝ) (xi : String → ℝ) (a : IExpr) :
    evalI betas row xi (.exp a) = Real.exp (evalI betas row xi a) := rfl

theorem getD_set_real (l : List ℝ) (i k : ℕ) (t : ℝ) (hi : i < l.length) :
    (l.set i t).getD k (@OfNat.ofNat ℝ 0 Num.instOfNatOfNumOps)
      = if k = i then t else l.getD k (@OfNat.ofNat ℝ 0 Num.instOfNatOfNumOps) := by
  simp only [List.getD_eq_getElem?_getD, List.getElem?_set]
  by_cases h : i = k
  · subst h; simp [hi]
  · have : ¬ k = i := fun h' => h h'.symm
    simp [h, this]

/-- **the symbolic derivative w.r.t. a parameter is the derivative** -/
theorem diffBeta_correct (betas row : List ℝ) (xi : String → ℝ) (i : ℕ) (hi : i < betas.length)
    (e : IExpr) (t : ℝ) :
    HasDerivAt (fun t => evalI (betas.set i t) row xi e)
      (evalI (betas.set i t) row xi (diffBeta i e)) t := by
  induction e with
  | num m neg k => simpa [evalI, diffBeta] using hasDerivAt_const t _
  | nat k => simpa [evalI, diffBeta] using hasDerivAt_const t _
  | beta k =>
    by_cases hk : k = i
    · subst hk
      have : (fun t => evalI (betas.set k t) row xi (.beta k)) = fun t => t := by
        funext s
        simp only [evalI]
        rw [getD_set_real betas k k s hi]
        simp
      rw [this]
      simpa [diffBeta] using hasDerivAt_id' t
    · have : (fun t => evalI (betas.set i t) row xi (.beta k)) = fun _ => betas.getD k 0 := by
        funext s
        simp only [evalI]
        rw [getD_set_real betas i k s hi]
        simp [hk]
      rw [this]
      simpa [diffBeta, hk] using hasDerivAt_const t _
  | var j => simpa [evalI, diffBeta] using hasDerivAt_const t _
  | draw name => simpa [evalI, diffBeta] using hasDerivAt_const t _
  | add a b iha ihb => exact iha.add ihb
  | sub a b iha ihb => exact iha.sub ihb
  | mul a b iha ihb => exact iha.mul ihb
  | exp a iha => exact iha.exp

/-- **the symbolic derivative w.r.t. a data column is the derivative** -/
theorem diffVar_correct (betas row : List ℝ) (xi : String → ℝ) (j : ℕ) (hj : j < row.length)
    (e : IExpr) (t : ℝ) :
    HasDerivAt (fun t => evalI betas (row.set j t) xi e)
      (evalI betas (row.set j t) xi (diffVar j e)) t := by
  induction e with
  | num m neg k => simpa [evalI, diffVar] using hasDerivAt_const t _
  | nat k => simpa [evalI, diffVar] using hasDerivAt_const t _
  | beta k => simpa [evalI, diffVar] using hasDerivAt_const t _
  | var k =>
    by_cases hk : k = j
    · subst hk
      have : (fun t => evalI betas (row.set k t) xi (.var k)) = fun t => t := by
        funext s
        simp only [evalI]
        rw [getD_set_real row k k s hj]
        simp
      rw [this]
      simpa [diffVar] using hasDerivAt_id' t
    · have : (fun t => evalI betas (row.set j t) xi (.var k)) = fun _ => row.getD k 0 := by
        funext s
        simp only [evalI]
        rw [getD_set_real row j k s hj]
        simp [hk]
      rw [this]
      simpa [diffVar, hk] using hasDerivAt_const t _
  | draw name => simpa [evalI, diffVar] using hasDerivAt_const t _
  | add a b iha ihb => exact iha.add ihb
  | sub a b iha ihb => exact iha.sub ihb
  | mul a b iha ihb => exact iha.mul ihb
  | exp a iha => exact iha.exp

/-- a finite sum of differentiable terms (list form) -/
theorem hasDerivAt_list_sum {ι : Type} (l : List ι) (f : ι → ℝ → ℝ) (f' : ι → ℝ) (t : ℝ)
    (h : ∀ i ∈ l, HasDerivAt (f i) (f' i) t) :
    HasDerivAt (fun s => (l.map fun i => f i s).sum) (l.map f').sum t := by
  induction l with
  | nil => simpa using hasDerivAt_const t (0 : ℝ)
  | cons a as ih =>
    simp only [List.map_cons, List.sum_cons]
    exact (h a (by simp)).add (ih fun i hi => h i (by simp [hi]))

/-- **the derivative of a simulated quantity w.r.t. a data column is the simulated derivative**:
`Derive(MonteCarlo(e), x)` and `MonteCarlo(Derive(e, x))` both denote it -/
theorem monteCarlo_diffVar (names : List String) (table : List (List (List ℝ))) (betas row : List ℝ)
    (n R j : ℕ) (hj : j < row.length) (e : IExpr) (t : ℝ) :
    HasDerivAt (fun t => monteCarlo names table betas (row.set j t) n R e)
      (monteCarlo names table betas (row.set j t) n R (diffVar j e)) t := by
  simp only [monteCarlo_real]
  exact (hasDerivAt_list_sum (List.range R)
    (fun r s => evalI betas (row.set j s) (fun name => entry 0 table n r (drawId names name)) e)
    (fun r => evalI betas (row.set j t) (fun name => entry 0 table n r (drawId names name)) (diffVar j e))
    t (fun r _ => diffVar_correct betas row _ j hj e t)).div_const (R : ℝ)

/-- the same w.r.t. a parameter -/
theorem monteCarlo_diffBeta (names : List String) (table : List (List (List ℝ))) (betas row : List ℝ)
    (n R i : ℕ) (hi : i < betas.length) (e : IExpr) (t : ℝ) :
    HasDerivAt (fun t => monteCarlo names table (betas.set i t) row n R e)
      (monteCarlo names table (betas.set i t) row n R (diffBeta i e)) t := by
  simp only [monteCarlo_real]
  exact (hasDerivAt_list_sum (List.range R)
    (fun r s => evalI (betas.set i s) row (fun name => entry 0 table n r (drawId names name)) e)
    (fun r => evalI (betas.set i t) row (fun name => entry 0 table n r (drawId names name)) (diffBeta i e))
    t (fun r _ => diffBeta_correct betas row _ i hi e t)).div_const (R : ℝ)

end Integrals
