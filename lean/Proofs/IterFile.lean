/- Helper lemmas for Props/C15.lean (core Lean only). -/
import Model.IterFile

namespace IterFile

/-! ### state machine invariant -/

def Inv {α} (ge : α → α → Bool) (s₀ : St α) (seen : List (Eval α)) (s : St α) : Prop :=
  ((∀ e ∈ seen, e.finite = false) ∧ s.file = s₀.file ∧ s.best = none) ∨
  (∃ e ∈ seen, e.finite = true ∧ s.file = some e.x ∧ s.best = some e.f ∧
      ∀ q ∈ seen, q.finite = true → ge e.f q.f = true)

theorem step_inv {α} (ge : α → α → Bool)
    (htot : ∀ a b, ge a b = true ∨ ge b a = true)
    (htr : ∀ a b c, ge a b = true → ge b c = true → ge a c = true)
    (s₀ : St α) (seen : List (Eval α)) (s : St α) (e : Eval α)
    (h : Inv ge s₀ seen s) : Inv ge s₀ (seen ++ [e]) (step ge s e) := by
  have hrefl : ∀ a, ge a a = true := fun a => by rcases htot a a with h | h <;> exact h
  unfold step
  cases hfin : e.finite with
  | false =>
    simp only [Bool.not_false, ↓reduceIte]
    rcases h with ⟨h1, h2, h3⟩ | ⟨p, hp, hpf, hfile, hbest, hall⟩
    · left
      refine ⟨?_, h2, h3⟩
      intro q hq
      rcases List.mem_append.mp hq with hq | hq
      · exact h1 q hq
      · simp only [List.mem_singleton] at hq; rw [hq]; exact hfin
    · right
      refine ⟨p, List.mem_append_left _ hp, hpf, hfile, hbest, ?_⟩
      intro q hq hqf
      rcases List.mem_append.mp hq with hq | hq
      · exact hall q hq hqf
      · simp only [List.mem_singleton] at hq; rw [hq, hfin] at hqf; cases hqf
  | true =>
    simp only [Bool.not_true, Bool.false_eq_true, ↓reduceIte]
    rcases h with ⟨h1, _, h3⟩ | ⟨p, hp, hpf, hfile, hbest, hall⟩
    · rw [h3]
      simp only [hrefl, ↓reduceIte]
      right
      refine ⟨e, List.mem_append_right _ (List.mem_singleton.mpr rfl), hfin, rfl, rfl, ?_⟩
      intro q hq hqf
      rcases List.mem_append.mp hq with hq | hq
      · rw [h1 q hq] at hqf; cases hqf
      · simp only [List.mem_singleton] at hq; rw [hq]; exact hrefl _
    · rw [hbest]
      simp only
      cases hcmp : ge e.f p.f with
      | true =>
        simp only [↓reduceIte]
        right
        refine ⟨e, List.mem_append_right _ (List.mem_singleton.mpr rfl), hfin, rfl, rfl, ?_⟩
        intro q hq hqf
        rcases List.mem_append.mp hq with hq | hq
        · exact htr _ _ _ hcmp (hall q hq hqf)
        · simp only [List.mem_singleton] at hq; rw [hq]; exact hrefl _
      | false =>
        simp only [Bool.false_eq_true, ↓reduceIte]
        right
        refine ⟨p, List.mem_append_left _ hp, hpf, hfile, rfl, ?_⟩
        intro q hq hqf
        rcases List.mem_append.mp hq with hq | hq
        · exact hall q hq hqf
        · simp only [List.mem_singleton] at hq; rw [hq]
          rcases htot p.f e.f with h | h
          · exact h
          · rw [hcmp] at h; cases h

theorem foldl_inv {α} (ge : α → α → Bool)
    (htot : ∀ a b, ge a b = true ∨ ge b a = true)
    (htr : ∀ a b c, ge a b = true → ge b c = true → ge a c = true)
    (s₀ : St α) (h : List (Eval α)) :
    ∀ (seen : List (Eval α)) (s : St α), Inv ge s₀ seen s →
      Inv ge s₀ (seen ++ h) (h.foldl (step ge) s) := by
  induction h with
  | nil => intro seen s hs; simpa using hs
  | cons e t ih =>
    intro seen s hs
    have := ih (seen ++ [e]) (step ge s e) (step_inv ge htot htr s₀ seen s e hs)
    simpa [List.append_assoc] using this

theorem run_inv {α} (ge : α → α → Bool)
    (htot : ∀ a b, ge a b = true ∨ ge b a = true)
    (htr : ∀ a b c, ge a b = true → ge b c = true → ge a c = true)
    (s₀ : St α) (h : List (Eval α)) :
    let s := run ge (reset s₀) h
    ((∀ e ∈ h, e.finite = false) ∧ s.file = s₀.file ∧ s.best = none) ∨
    (∃ e ∈ h, e.finite = true ∧ s.file = some e.x ∧ s.best = some e.f ∧
        ∀ q ∈ h, q.finite = true → ge e.f q.f = true) := by
  have h0 : Inv ge s₀ [] (reset s₀) := Or.inl ⟨(fun _ h => nomatch h), rfl, rfl⟩
  have := foldl_inv ge htot htr s₀ h [] (reset s₀) h0
  simpa [Inv, run] using this

/-! ### text of the file -/

theorem rsplitEq_none (b : List Char) (hb : '=' ∉ b) : rsplitEq b = none := by
  induction b with
  | nil => rfl
  | cons c t ih =>
    have hc : c ≠ '=' := fun h => hb (h ▸ List.mem_cons_self)
    have ht : '=' ∉ t := fun h => hb (List.mem_cons_of_mem _ h)
    simp [rsplitEq, ih ht, hc]

theorem rsplitEq_append (a b : List Char) (hb : '=' ∉ b) :
    rsplitEq (a ++ '=' :: b) = some (a, b) := by
  induction a with
  | nil => simp [rsplitEq, rsplitEq_none b hb]
  | cons c t ih => simp [rsplitEq, ih]

theorem lstrip_length_le (l : List Char) : (lstrip l).length ≤ l.length := by
  induction l with
  | nil => simp [lstrip]
  | cons c t ih =>
    unfold lstrip
    split
    · exact Nat.le_succ_of_le ih
    · exact Nat.le_refl _

theorem rstrip_length_le (l : List Char) : (rstrip l).length ≤ l.length := by
  unfold rstrip
  have := lstrip_length_le l.reverse
  simpa using this

theorem lstrip_eq_self_of_head (c : Char) (t : List Char) (h : isBlank c = false) :
    lstrip (c :: t) = c :: t := by
  simp [lstrip, h]

/-- a stripped, non-empty name starts with a non-blank -/
theorem head_not_blank (c : Char) (t : List Char) (h : strip (c :: t) = c :: t) :
    isBlank c = false := by
  cases hb : isBlank c with
  | false => rfl
  | true =>
    exfalso
    have h1 : (strip (c :: t)).length ≤ t.length := by
      unfold strip
      have : lstrip (c :: t) = lstrip t := by simp [lstrip, hb]
      rw [this]
      exact Nat.le_trans (rstrip_length_le _) (lstrip_length_le t)
    rw [h] at h1
    simp at h1
    omega

theorem rstrip_append_blank (n : List Char) : rstrip (n ++ [' ']) = rstrip n := by
  unfold rstrip
  simp [lstrip, isBlank]

theorem strip_name_blank (n : List Char) (hn : strip n = n) : strip (n ++ [' ']) = n := by
  cases n with
  | nil => simp [strip, rstrip, lstrip, isBlank]
  | cons c t =>
    have hc := head_not_blank c t hn
    have h1 : lstrip (c :: t) = c :: t := lstrip_eq_self_of_head c t hc
    have h2 : lstrip ((c :: t) ++ [' ']) = (c :: t) ++ [' '] := by
      show lstrip (c :: (t ++ [' '])) = _
      exact lstrip_eq_self_of_head c _ hc
    unfold strip at hn ⊢
    rw [h2, rstrip_append_blank]
    rw [h1] at hn
    exact hn

theorem strip_blank_value (v : List Char) (hv : strip v = v) : strip (' ' :: v) = v := by
  unfold strip at hv ⊢
  have : lstrip (' ' :: v) = lstrip v := by simp [lstrip, isBlank]
  rw [this]; exact hv

theorem parseLine_renderLine (n v : List Char) (hn : NameOK n) (hv : ValueOK v) :
    parseLine (renderLine n v) = some (n, v) := by
  unfold parseLine renderLine
  have hsplit : rsplitEq (n ++ [' ', '=', ' '] ++ v) = some (n ++ [' '], ' ' :: v) := by
    have : n ++ [' ', '=', ' '] ++ v = (n ++ [' ']) ++ '=' :: (' ' :: v) := by simp
    rw [this]
    apply rsplitEq_append
    intro h
    rcases List.mem_cons.mp h with h | h
    · cases h
    · exact hv.1 h
  rw [hsplit]
  simp only [Option.some.injEq, Prod.mk.injEq]
  exact ⟨strip_name_blank n hn, strip_blank_value v hv.2⟩

/-! ### directory model -/

theorem lookup_filter_ne (d : Dir) (p q : String) (h : q ≠ p) :
    (d.filter (·.1 != p)).lookup q = d.lookup q := by
  induction d with
  | nil => rfl
  | cons e t ih =>
    obtain ⟨k, c⟩ := e
    by_cases hk : k = p
    · subst hk
      have hq : (q == k) = false := by simpa using h
      simp [List.filter, List.lookup, hq, ih]
    · have hk' : (k != p) = true := by simpa using hk
      simp only [List.filter, hk', List.lookup]
      rw [ih]

theorem get_set_same (d : Dir) (p c : String) : (d.set p c).get p = some c := by
  simp [Dir.set, Dir.get]

theorem get_set_ne (d : Dir) (p q c : String) (h : q ≠ p) : (d.set p c).get q = d.get q := by
  have hq : (q == p) = false := by simpa using h
  simp only [Dir.set, Dir.get, List.lookup, hq]
  exact lookup_filter_ne d p q h

theorem get_del_ne (d : Dir) (p q : String) (h : q ≠ p) : (d.del p).get q = d.get q :=
  lookup_filter_ne d p q h

/-- operations that touch only `tmp` -/
def OnlyTmp (tmp : String) : FsOp → Prop
  | .openTrunc p => p = tmp
  | .write p _ => p = tmp
  | .close _ => True
  | .replace _ _ => False

theorem applyOp_onlyTmp (d : Dir) (tmp file : String) (hne : tmp ≠ file) (op : FsOp)
    (h : OnlyTmp tmp op) : (applyOp d op).get file = d.get file := by
  cases op with
  | openTrunc p => simp only [OnlyTmp] at h; subst h; exact get_set_ne _ _ _ _ (Ne.symm hne)
  | write p c => simp only [OnlyTmp] at h; subst h; exact get_set_ne _ _ _ _ (Ne.symm hne)
  | close p => rfl
  | replace s t => cases h

theorem applyOps_onlyTmp (tmp file : String) (hne : tmp ≠ file) (ops : List FsOp) :
    ∀ d : Dir, (∀ op ∈ ops, OnlyTmp tmp op) → (applyOps d ops).get file = d.get file := by
  induction ops with
  | nil => intro d _; rfl
  | cons op t ih =>
    intro d h
    show (applyOps (applyOp d op) t).get file = _
    rw [ih _ (fun o ho => h o (List.mem_cons_of_mem _ ho))]
    exact applyOp_onlyTmp d tmp file hne op (h op List.mem_cons_self)

theorem writes_content (tmp : String) (chunks : List String) :
    ∀ (d : Dir) (acc : String), d.get tmp = some acc →
      (applyOps d (chunks.map (FsOp.write tmp))).get tmp = some (chunks.foldl (· ++ ·) acc) := by
  induction chunks with
  | nil => intro d acc h; simpa [applyOps] using h
  | cons c t ih =>
    intro d acc h
    show (applyOps (applyOp d (.write tmp c)) (t.map (FsOp.write tmp))).get tmp = _
    apply ih
    simp [applyOp, h, get_set_same]

theorem take_onlyTmp (tmp : String) (chunks : List String) (k : Nat) :
    ∀ op ∈ ([FsOp.openTrunc tmp] ++ chunks.map (FsOp.write tmp) ++ [FsOp.close tmp]).take k,
      OnlyTmp tmp op := by
  intro op hop
  have hmem := List.mem_of_mem_take hop
  simp only [List.mem_append, List.mem_map, List.mem_cons,
    List.not_mem_nil, or_false] at hmem
  rcases hmem with (h | ⟨c, _, h⟩) | h
  · subst h; rfl
  · subst h; rfl
  · subst h; trivial

theorem crash_protocol (d : Dir) (tmp file : String) (chunks : List String) (hne : tmp ≠ file)
    (k : Nat) :
    (crash d (protocol tmp file chunks) k).get file = d.get file ∨
    (crash d (protocol tmp file chunks) k).get file = some (concat chunks) := by
  let pre := [FsOp.openTrunc tmp] ++ chunks.map (FsOp.write tmp) ++ [FsOp.close tmp]
  have hprot : protocol tmp file chunks = pre ++ [FsOp.replace tmp file] := by
    simp [protocol, pre]
  unfold crash
  rw [hprot]
  by_cases hk : k ≤ pre.length
  · left
    rw [List.take_append_of_le_length hk]
    exact applyOps_onlyTmp tmp file hne _ d (take_onlyTmp tmp chunks k)
  · right
    have hk' : pre.length + 1 ≤ k := by omega
    have : (pre ++ [FsOp.replace tmp file]).take k = pre ++ [FsOp.replace tmp file] := by
      apply List.take_of_length_le
      simp; omega
    rw [this]
    show (applyOps d (pre ++ [FsOp.replace tmp file])).get file = _
    unfold applyOps
    rw [List.foldl_append]
    show (applyOp (applyOps d pre) (.replace tmp file)).get file = _
    have htmp : (applyOps d pre).get tmp = some (concat chunks) := by
      show (applyOps d ([FsOp.openTrunc tmp] ++ chunks.map (FsOp.write tmp) ++ [FsOp.close tmp])).get tmp = _
      unfold applyOps
      rw [List.foldl_append, List.foldl_append]
      show (applyOp (applyOps (applyOp d (.openTrunc tmp)) (chunks.map (FsOp.write tmp))) (.close tmp)).get tmp = _
      show (applyOps (applyOp d (.openTrunc tmp)) (chunks.map (FsOp.write tmp))).get tmp = _
      exact writes_content tmp chunks _ "" (get_set_same d tmp "")
    simp only [applyOp, htmp]
    exact get_set_same _ _ _

/-! ### the write protocol with buffers -/

/-- primitives that touch only the handle / the path `tmp` and publish nothing -/
def OnlyTmpB (tmp : String) : BOp → Prop
  | .openTrunc p => p = tmp
  | .write p _ => p = tmp
  | .flush p => p = tmp
  | .close p => p = tmp
  | .replace _ _ => False
  | .remove _ => False

theorem onlyTmpOp_sound (tmp : String) (op : BOp) (h : onlyTmpOp tmp op = true) : OnlyTmpB tmp op := by
  cases op <;> simp_all [onlyTmpOp, OnlyTmpB]

/-- every open handle was opened on `tmp` and still refers to it -/
def GoodHs (tmp : String) (fs : Fs) : Prop := ∀ h ∈ fs.hs, h.id = tmp ∧ h.cur = some tmp

theorem flushH_frame (fs : Fs) (tmp file : String) (hne : tmp ≠ file) (hg : GoodHs tmp fs) :
    GoodHs tmp (flushH fs tmp) ∧ (flushH fs tmp).disk.get file = fs.disk.get file := by
  unfold flushH
  cases hf : fs.hs.find? (·.id == tmp) with
  | none => exact ⟨hg, rfl⟩
  | some hd =>
    have hmem : hd ∈ fs.hs := List.mem_of_find?_eq_some hf
    have hcur := (hg hd hmem).2
    refine ⟨?_, ?_⟩
    · intro h hh
      simp only [List.mem_map] at hh
      obtain ⟨x, hx, rfl⟩ := hh
      have := hg x hx
      split <;> exact this
    · simp only [hcur]
      exact get_set_ne _ _ _ _ (Ne.symm hne)

theorem applyB_frame (fs : Fs) (tmp file : String) (hne : tmp ≠ file) (hg : GoodHs tmp fs)
    (op : BOp) (hop : OnlyTmpB tmp op) :
    GoodHs tmp (applyB fs op) ∧ (applyB fs op).disk.get file = fs.disk.get file := by
  cases op with
  | openTrunc p =>
    simp only [OnlyTmpB] at hop; subst hop
    refine ⟨?_, get_set_ne _ _ _ _ (Ne.symm hne)⟩
    intro h hh
    simp only [applyB, List.mem_cons] at hh
    rcases hh with rfl | hh
    · exact ⟨rfl, rfl⟩
    · exact hg h (List.mem_filter.mp hh).1
  | write p c =>
    simp only [OnlyTmpB] at hop; subst hop
    refine ⟨?_, rfl⟩
    intro h hh
    simp only [applyB, List.mem_map] at hh
    obtain ⟨x, hx, rfl⟩ := hh
    have := hg x hx
    split <;> exact this
  | flush p =>
    simp only [OnlyTmpB] at hop; subst hop
    exact flushH_frame fs p file hne hg
  | close p =>
    simp only [OnlyTmpB] at hop; subst hop
    obtain ⟨h1, h2⟩ := flushH_frame fs p file hne hg
    refine ⟨?_, h2⟩
    intro h hh
    simp only [applyB] at hh
    exact h1 h (List.mem_filter.mp hh).1
  | replace s t => cases hop
  | remove q => cases hop

theorem applyBs_frame (tmp file : String) (hne : tmp ≠ file) (ops : List BOp) :
    ∀ fs : Fs, GoodHs tmp fs → (∀ op ∈ ops, OnlyTmpB tmp op) →
      (applyBs fs ops).disk.get file = fs.disk.get file := by
  induction ops with
  | nil => intro fs _ _; rfl
  | cons op t ih =>
    intro fs hg h
    obtain ⟨h1, h2⟩ := applyB_frame fs tmp file hne hg op (h op List.mem_cons_self)
    show (applyBs (applyB fs op) t).disk.get file = _
    rw [ih _ h1 (fun o ho => h o (List.mem_cons_of_mem _ ho)), h2]

/-- buffered writes change no file -/
theorem writes_state (tmp : String) (D : Dir) (cur : Option String) (chunks : List String) :
    ∀ acc : String, applyBs ⟨D, [⟨tmp, cur, acc⟩]⟩ (chunks.map (BOp.write tmp))
      = ⟨D, [⟨tmp, cur, chunks.foldl (· ++ ·) acc⟩]⟩ := by
  induction chunks with
  | nil => intro acc; rfl
  | cons c t ih =>
    intro acc
    show applyBs (applyB ⟨D, [⟨tmp, cur, acc⟩]⟩ (.write tmp c)) (t.map (BOp.write tmp)) = _
    have : applyB ⟨D, [⟨tmp, cur, acc⟩]⟩ (.write tmp c) = ⟨D, [⟨tmp, cur, acc ++ c⟩]⟩ := by
      simp [applyB]
    rw [this, ih]
    rfl

theorem preB_onlyTmp (tmp : String) (chunks : List String) (k : Nat) :
    ∀ op ∈ ([BOp.openTrunc tmp] ++ chunks.map (BOp.write tmp) ++ [BOp.close tmp]).take k,
      OnlyTmpB tmp op := by
  intro op hop
  have hmem := List.mem_of_mem_take hop
  simp only [List.mem_append, List.mem_map, List.mem_cons,
    List.not_mem_nil, or_false] at hmem
  rcases hmem with (h | ⟨c, _, h⟩) | h
  · subst h; rfl
  · subst h; rfl
  · subst h; rfl

theorem goodHs_nil (tmp : String) (d : Dir) : GoodHs tmp ⟨d, []⟩ := fun _ h => nomatch h

/-- state after the temporary file was written and closed: it holds the complete text -/
theorem preB_state (d : Dir) (tmp : String) (chunks : List String) :
    (applyBs ⟨d, []⟩ ([BOp.openTrunc tmp] ++ chunks.map (BOp.write tmp) ++ [BOp.close tmp])).disk.get tmp
      = some (concat chunks) := by
  unfold applyBs
  rw [List.foldl_append, List.foldl_append]
  have h1 : List.foldl applyB ⟨d, []⟩ [BOp.openTrunc tmp] = ⟨d.set tmp "", [⟨tmp, some tmp, ""⟩]⟩ := by
    simp [applyB]
  rw [h1]
  have h2 := writes_state tmp (d.set tmp "") (some tmp) chunks ""
  unfold applyBs at h2
  rw [h2]
  simp [applyB, flushH, get_set_same, concat]

theorem crashB_protocol (d : Dir) (tmp file : String) (chunks : List String) (hne : tmp ≠ file)
    (k : Nat) :
    (crashB d (protocolB tmp file chunks) k).get file = d.get file ∨
    (crashB d (protocolB tmp file chunks) k).get file = some (concat chunks) := by
  let pre := [BOp.openTrunc tmp] ++ chunks.map (BOp.write tmp) ++ [BOp.close tmp]
  have hprot : protocolB tmp file chunks = pre ++ [BOp.replace tmp file] := by
    simp [protocolB, pre]
  unfold crashB
  rw [hprot]
  by_cases hk : k ≤ pre.length
  · left
    rw [List.take_append_of_le_length hk]
    exact applyBs_frame tmp file hne _ ⟨d, []⟩ (goodHs_nil tmp d) (preB_onlyTmp tmp chunks k)
  · right
    have : (pre ++ [BOp.replace tmp file]).take k = pre ++ [BOp.replace tmp file] := by
      apply List.take_of_length_le
      simp; omega
    rw [this]
    show (applyBs ⟨d, []⟩ (pre ++ [BOp.replace tmp file])).disk.get file = _
    unfold applyBs
    rw [List.foldl_append]
    show (applyB (applyBs ⟨d, []⟩ pre) (.replace tmp file)).disk.get file = _
    have htmp := preB_state d tmp chunks
    have hbne : (tmp == file) = false := by simpa using hne
    simp only [applyB, hbne, Bool.false_eq_true, ↓reduceIte]
    show (match (applyBs ⟨d, []⟩ pre).disk.get tmp with
      | none => applyBs ⟨d, []⟩ pre
      | some c => _).disk.get file = _
    rw [htmp]
    exact get_set_same _ _ _

/-- the shape with the rename inside the `with` block: a stop right after the rename leaves an
EMPTY published file (the text is still in the buffer of the handle) -/
theorem crashB_replace_before_close (d : Dir) (tmp file : String) (chunks : List String)
    (hne : tmp ≠ file) :
    (crashB d (protocolReplaceBeforeClose tmp file chunks) (chunks.length + 2)).get file = some "" := by
  let pre := [BOp.openTrunc tmp] ++ chunks.map (BOp.write tmp) ++ [BOp.replace tmp file]
  have hprot : protocolReplaceBeforeClose tmp file chunks = pre ++ [BOp.close tmp] := by
    simp [protocolReplaceBeforeClose, pre]
  have hlen : pre.length = chunks.length + 2 := by simp [pre]
  unfold crashB
  rw [hprot, ← hlen, List.take_left']
  · show (applyBs ⟨d, []⟩ ([BOp.openTrunc tmp] ++ chunks.map (BOp.write tmp) ++ [BOp.replace tmp file])).disk.get file = _
    unfold applyBs
    rw [List.foldl_append, List.foldl_append]
    have h1 : List.foldl applyB ⟨d, []⟩ [BOp.openTrunc tmp] = ⟨d.set tmp "", [⟨tmp, some tmp, ""⟩]⟩ := by
      simp [applyB]
    rw [h1]
    have h2 := writes_state tmp (d.set tmp "") (some tmp) chunks ""
    unfold applyBs at h2
    rw [h2]
    have hbne : (tmp == file) = false := by simpa using hne
    simp [applyB, hbne, get_set_same]
  · rfl

/-! ### sessions (several entry points, scaled flags, renames) -/

theorem lookup_filter_ne' {β} (d : List (String × β)) (p q : String) (h : q ≠ p) :
    (d.filter (·.1 != p)).lookup q = d.lookup q := by
  induction d with
  | nil => rfl
  | cons e t ih =>
    obtain ⟨k, c⟩ := e
    by_cases hk : k = p
    · subst hk
      have hq : (q == k) = false := by simpa using h
      simp [List.filter, List.lookup, hq, ih]
    · have hk' : (k != p) = true := by simpa using hk
      simp only [List.filter, hk', List.lookup]
      rw [ih]

theorem files_get_set_same (d : Files) (n : String) (v : List String) :
    (d.set n v).get n = some v := by
  simp [Files.set, Files.get]

theorem files_get_set_ne (d : Files) (n m : String) (v : List String) (h : m ≠ n) :
    (d.set n v).get m = d.get m := by
  have hq : (m == n) = false := by simpa using h
  simp only [Files.set, Files.get, List.lookup, hq]
  exact lookup_filter_ne' d n m h

theorem step_best_nonfinite {α} (ge : α → α → Bool) (b : Option α) (fl : Option (List String))
    (e : Eval α) (h : e.finite = false) : (step ge ⟨b, fl⟩ e).best = b := by
  simp [step, h]

theorem step_file_nonfinite {α} (ge : α → α → Bool) (b : Option α) (fl : Option (List String))
    (e : Eval α) (h : e.finite = false) : (step ge ⟨b, fl⟩ e).file = fl := by
  simp [step, h]

theorem saves_nonfinite {α} (ge : α → α → Bool) (b : Option α) (e : Eval α)
    (h : e.finite = false) : saves ge b e = false := by
  simp [saves, h]

theorem step_best_saved {α} (ge : α → α → Bool) (b : Option α) (fl : Option (List String))
    (e : Eval α) (h : e.finite = true) (hs : ge e.f (b.getD e.f) = true) :
    (step ge ⟨b, fl⟩ e).best = some e.f := by
  cases b with
  | none => simp only [Option.getD] at hs; simp [step, h, hs]
  | some b => simp only [Option.getD] at hs; simp [step, h, hs]

theorem step_file_saved {α} (ge : α → α → Bool) (b : Option α) (fl : Option (List String))
    (e : Eval α) (h : e.finite = true) (hs : ge e.f (b.getD e.f) = true) :
    (step ge ⟨b, fl⟩ e).file = some e.x := by
  cases b with
  | none => simp only [Option.getD] at hs; simp [step, h, hs]
  | some b => simp only [Option.getD] at hs; simp [step, h, hs]

theorem step_best_not_saved {α} (ge : α → α → Bool) (b : Option α) (fl : Option (List String))
    (e : Eval α) (h : e.finite = true) (hs : ge e.f (b.getD e.f) = false) :
    (step ge ⟨b, fl⟩ e).best = some (b.getD e.f) := by
  cases b with
  | none => simp only [Option.getD] at hs; simp [step, h, hs]
  | some b => simp only [Option.getD] at hs; simp [step, h, hs]

theorem step_file_not_saved {α} (ge : α → α → Bool) (b : Option α) (fl : Option (List String))
    (e : Eval α) (h : e.finite = true) (hs : ge e.f (b.getD e.f) = false) :
    (step ge ⟨b, fl⟩ e).file = fl := by
  cases b with
  | none => simp only [Option.getD] at hs; simp [step, h, hs]
  | some b => simp only [Option.getD] at hs; simp [step, h, hs]

theorem saves_finite {α} (ge : α → α → Bool) (b : Option α) (e : Eval α)
    (h : e.finite = true) : saves ge b e = ge e.f (b.getD e.f) := by
  simp [saves, h]

/-- the marker does not depend on what is in the file -/
theorem step_best_indep {α} (ge : α → α → Bool) (b : Option α) (fl fl' : Option (List String))
    (e : Eval α) : (step ge ⟨b, fl⟩ e).best = (step ge ⟨b, fl'⟩ e).best := by
  cases hfin : e.finite with
  | false => rw [step_best_nonfinite ge b fl e hfin, step_best_nonfinite ge b fl' e hfin]
  | true =>
    cases hs : ge e.f (b.getD e.f) with
    | true => rw [step_best_saved ge b fl e hfin hs, step_best_saved ge b fl' e hfin hs]
    | false => rw [step_best_not_saved ge b fl e hfin hs, step_best_not_saved ge b fl' e hfin hs]

/-- the single-file machine in terms of `saves` -/
theorem step_file_eq {α} (ge : α → α → Bool) (b : Option α) (fl : Option (List String))
    (e : Eval α) : (step ge ⟨b, fl⟩ e).file = if saves ge b e then some e.x else fl := by
  cases hfin : e.finite with
  | false => rw [step_file_nonfinite ge b fl e hfin, saves_nonfinite ge b e hfin]; rfl
  | true =>
    rw [saves_finite ge b e hfin]
    cases hs : ge e.f (b.getD e.f) with
    | true => rw [step_file_saved ge b fl e hfin hs]; rfl
    | false => rw [step_file_not_saved ge b fl e hfin hs]; rfl

/-- one evaluation of a session, seen from the file of the current name, is one `step` -/
theorem sstep_eval_as_step {α} (ge : α → α → Bool) (s : Sess α) (e : Eval α) (sc : Bool) :
    let s' := sstep ge s (.eval e sc)
    let t := step ge ⟨s.best, s.files.get s.name⟩ e
    s'.name = s.name ∧ s'.best = t.best ∧ s'.files.get s.name = t.file := by
  refine ⟨rfl, ?_, ?_⟩
  · exact step_best_indep ge s.best none _ e
  · show (if saves ge s.best e then s.files.set s.name e.x else s.files).get s.name = _
    rw [step_file_eq]
    cases saves ge s.best e with
    | true => simp only [↓reduceIte]; exact files_get_set_same _ _ _
    | false => simp

theorem srun_evals_as_run {α} (ge : α → α → Bool) (l : List (Eval α × Bool)) :
    ∀ s : Sess α,
      let s' := srun ge s (l.map fun p => Op.eval p.1 p.2)
      let t := run ge ⟨s.best, s.files.get s.name⟩ (l.map (·.1))
      s'.name = s.name ∧ s'.best = t.best ∧ s'.files.get s.name = t.file := by
  induction l with
  | nil => intro s; exact ⟨rfl, rfl, rfl⟩
  | cons p t ih =>
    intro s
    obtain ⟨h1, h2, h3⟩ := sstep_eval_as_step ge s p.1 p.2
    have := ih (sstep ge s (.eval p.1 p.2))
    simp only [srun, run, List.map_cons, List.foldl_cons] at this ⊢
    rw [h1, h2, h3] at this
    exact this

theorem sstep_eval_frame {α} (ge : α → α → Bool) (s : Sess α) (e : Eval α) (sc : Bool)
    (n : String) (hn : n ≠ s.name) :
    (sstep ge s (.eval e sc)).files.get n = s.files.get n := by
  show (if saves ge s.best e then s.files.set s.name e.x else s.files).get n = _
  cases saves ge s.best e with
  | true => simp only [↓reduceIte]; exact files_get_set_ne _ _ _ _ hn
  | false => simp

def SInv {α} (ge : α → α → Bool) (files₀ : Files) (seen : List (String × Eval α))
    (s : Sess α) : Prop :=
  ((∀ p ∈ seen, p.2.finite = false) ∧ s.files = files₀ ∧ s.best = none) ∨
  (∃ p ∈ seen, p.2.finite = true ∧ s.files.get p.1 = some p.2.x ∧ s.best = some p.2.f ∧
      ∀ q ∈ seen, q.2.finite = true → ge p.2.f q.2.f = true)

theorem sstep_eval_inv {α} (ge : α → α → Bool)
    (htot : ∀ a b, ge a b = true ∨ ge b a = true)
    (htr : ∀ a b c, ge a b = true → ge b c = true → ge a c = true)
    (files₀ : Files) (seen : List (String × Eval α)) (s : Sess α) (e : Eval α) (sc : Bool)
    (h : SInv ge files₀ seen s) :
    SInv ge files₀ (seen ++ [(s.name, e)]) (sstep ge s (.eval e sc)) := by
  have hrefl : ∀ a, ge a a = true := fun a => by rcases htot a a with h | h <;> exact h
  have hbest : (sstep ge s (.eval e sc)).best = (step ge ⟨s.best, none⟩ e).best := rfl
  have hfiles : (sstep ge s (.eval e sc)).files
      = if saves ge s.best e then s.files.set s.name e.x else s.files := rfl
  cases hfin : e.finite with
  | false =>
    have hb : (sstep ge s (.eval e sc)).best = s.best := by
      rw [hbest]; exact step_best_nonfinite ge _ _ e hfin
    have hf : (sstep ge s (.eval e sc)).files = s.files := by
      rw [hfiles, saves_nonfinite ge _ e hfin]; rfl
    rcases h with ⟨h1, h2, h3⟩ | ⟨p, hp, hpf, hfile, hbst, hall⟩
    · left
      refine ⟨?_, by rw [hf]; exact h2, by rw [hb]; exact h3⟩
      intro q hq
      rcases List.mem_append.mp hq with hq | hq
      · exact h1 q hq
      · simp only [List.mem_singleton] at hq; rw [hq]; exact hfin
    · right
      refine ⟨p, List.mem_append_left _ hp, hpf, by rw [hf]; exact hfile, by rw [hb]; exact hbst, ?_⟩
      intro q hq hqf
      rcases List.mem_append.mp hq with hq | hq
      · exact hall q hq hqf
      · simp only [List.mem_singleton] at hq; rw [hq] at hqf; rw [hfin] at hqf; cases hqf
  | true =>
    have hnew : ge e.f (s.best.getD e.f) = true →
        (sstep ge s (.eval e sc)).best = some e.f ∧
        (sstep ge s (.eval e sc)).files.get s.name = some e.x := by
      intro hs
      refine ⟨by rw [hbest]; exact step_best_saved ge _ _ e hfin hs, ?_⟩
      rw [hfiles, saves_finite ge _ e hfin, hs]
      simp only [↓reduceIte]
      exact files_get_set_same _ _ _
    rcases h with ⟨h1, _, h3⟩ | ⟨p, hp, hpf, hfile, hbst, hall⟩
    · have hs : ge e.f (s.best.getD e.f) = true := by rw [h3]; exact hrefl _
      obtain ⟨hb, hf⟩ := hnew hs
      right
      refine ⟨(s.name, e), List.mem_append_right _ (List.mem_singleton.mpr rfl), hfin, hf, hb, ?_⟩
      intro q hq hqf
      rcases List.mem_append.mp hq with hq | hq
      · rw [h1 q hq] at hqf; cases hqf
      · simp only [List.mem_singleton] at hq; rw [hq]; exact hrefl _
    · cases hcmp : ge e.f p.2.f with
      | true =>
        have hs : ge e.f (s.best.getD e.f) = true := by rw [hbst]; exact hcmp
        obtain ⟨hb, hf⟩ := hnew hs
        right
        refine ⟨(s.name, e), List.mem_append_right _ (List.mem_singleton.mpr rfl), hfin, hf, hb, ?_⟩
        intro q hq hqf
        rcases List.mem_append.mp hq with hq | hq
        · exact htr _ _ _ hcmp (hall q hq hqf)
        · simp only [List.mem_singleton] at hq; rw [hq]; exact hrefl _
      | false =>
        have hs : ge e.f (s.best.getD e.f) = false := by rw [hbst]; exact hcmp
        have hb : (sstep ge s (.eval e sc)).best = some p.2.f := by
          rw [hbest, step_best_not_saved ge _ _ e hfin hs, hbst]; rfl
        have hf : (sstep ge s (.eval e sc)).files = s.files := by
          rw [hfiles, saves_finite ge _ e hfin, hs]; rfl
        right
        refine ⟨p, List.mem_append_left _ hp, hpf, by rw [hf]; exact hfile, hb, ?_⟩
        intro q hq hqf
        rcases List.mem_append.mp hq with hq | hq
        · exact hall q hq hqf
        · simp only [List.mem_singleton] at hq; rw [hq]
          rcases htot p.2.f e.f with h | h
          · exact h
          · rw [hcmp] at h; cases h

theorem sfold_inv {α} (ge : α → α → Bool)
    (htot : ∀ a b, ge a b = true ∨ ge b a = true)
    (htr : ∀ a b c, ge a b = true → ge b c = true → ge a c = true)
    (files₀ : Files) (ops : List (Op α)) :
    NoReset ops → ∀ (seen : List (String × Eval α)) (s : Sess α), SInv ge files₀ seen s →
      SInv ge files₀ (seen ++ namedEvals s.name ops) (ops.foldl (sstep ge) s) := by
  induction ops with
  | nil => intro _ seen s hs; simpa [namedEvals] using hs
  | cons o t ih =>
    intro hnr seen s hs
    cases o with
    | eval e sc =>
      have := ih hnr (seen ++ [(s.name, e)]) (sstep ge s (.eval e sc))
        (sstep_eval_inv ge htot htr files₀ seen s e sc hs)
      have hname : (sstep ge s (.eval e sc)).name = s.name := rfl
      rw [hname] at this
      simpa [namedEvals, List.append_assoc] using this
    | rename n =>
      have hs' : SInv ge files₀ seen (sstep ge s (.rename n)) := hs
      have := ih hnr seen (sstep ge s (.rename n)) hs'
      have hname : (sstep ge s (.rename n)).name = n := rfl
      rw [hname] at this
      simpa [namedEvals] using this
    | reset => exact absurd hnr (by simp [NoReset])
    | bootEval e =>
      have hs' : SInv ge files₀ seen (sstep ge s (.bootEval e)) := hs
      have := ih hnr seen (sstep ge s (.bootEval e)) hs'
      have hname : (sstep ge s (.bootEval e)).name = s.name := rfl
      rw [hname] at this
      simpa [namedEvals] using this

theorem srun_inv {α} (ge : α → α → Bool)
    (htot : ∀ a b, ge a b = true ∨ ge b a = true)
    (htr : ∀ a b c, ge a b = true → ge b c = true → ge a c = true)
    (s₀ : Sess α) (ops : List (Op α)) (hnr : NoReset ops) :
    SInv ge s₀.files (namedEvals s₀.name ops) (srun ge (sstep ge s₀ .reset) ops) := by
  have h0 : SInv ge s₀.files [] (sstep ge s₀ .reset) := Or.inl ⟨(fun _ h => nomatch h), rfl, rfl⟩
  have := sfold_inv ge htot htr s₀.files ops hnr [] (sstep ge s₀ .reset) h0
  have hname : (sstep ge s₀ (.reset : Op α)).name = s₀.name := rfl
  rw [hname] at this
  simpa [srun] using this

/-! ### several objects -/

theorem wstep_files {α} (ge : α → α → Bool) (w : World α) (p : Nat × Op α) (n : String) :
    (wstep ge w p).files.get n = w.files.get n ∨
    ∃ e sc, p.2 = .eval e sc ∧ e.finite = true ∧ (wstep ge w p).files.get n = some e.x := by
  unfold wstep
  cases ho : w.objs[p.1]? with
  | none => exact Or.inl rfl
  | some o =>
    obtain ⟨i, op⟩ := p
    cases op with
    | eval e sc =>
      simp only [sstep]
      cases hs : saves ge o.best e with
      | false => left; simp
      | true =>
        simp only [↓reduceIte]
        by_cases hn : n = o.name
        · right
          refine ⟨e, sc, rfl, ?_, ?_⟩
          · simp only [saves, Bool.and_eq_true] at hs; exact hs.1
          · rw [hn]; exact files_get_set_same _ _ _
        · left; exact files_get_set_ne _ _ _ _ hn
    | rename m => exact Or.inl rfl
    | reset => exact Or.inl rfl
    | bootEval e => exact Or.inl rfl

theorem wrun_files {α} (ge : α → α → Bool) (ops : List (Nat × Op α)) :
    ∀ (w : World α) (n : String),
      (wrun ge w ops).files.get n = w.files.get n ∨
      ∃ p ∈ ops, ∃ e sc, p.2 = .eval e sc ∧ e.finite = true ∧
        (wrun ge w ops).files.get n = some e.x := by
  induction ops with
  | nil => intro w n; exact Or.inl rfl
  | cons p t ih =>
    intro w n
    have hrun : wrun ge w (p :: t) = wrun ge (wstep ge w p) t := rfl
    rw [hrun]
    rcases ih (wstep ge w p) n with h | ⟨q, hq, e, sc, h1, h2, h3⟩
    · rcases wstep_files ge w p n with h' | ⟨e, sc, h1, h2, h3⟩
      · left; rw [h, h']
      · right; exact ⟨p, List.mem_cons_self, e, sc, h1, h2, by rw [h, h3]⟩
    · right; exact ⟨q, List.mem_cons_of_mem _ hq, e, sc, h1, h2, h3⟩

/-- an operation on object `i` leaves every other object as it was -/
theorem wstep_other {α} (ge : α → α → Bool) (w : World α) (i j : Nat) (op : Op α) (hij : j ≠ i) :
    (wstep ge w (i, op)).objs[j]? = w.objs[j]? := by
  unfold wstep
  cases ho : w.objs[i]? with
  | none => rfl
  | some o => simp [List.getElem?_set_ne (Ne.symm hij)]

/-- an operation on object `i` is the session step of that object on the shared files -/
theorem wstep_self {α} (ge : α → α → Bool) (w : World α) (i : Nat) (op : Op α) (o : Obj α)
    (ho : w.objs[i]? = some o) :
    let s' := sstep ge ⟨o.name, o.best, w.files⟩ op
    (wstep ge w (i, op)).files = s'.files ∧
    (wstep ge w (i, op)).objs[i]? = some ⟨s'.name, s'.best⟩ := by
  have hi : i < w.objs.length := by
    rcases Nat.lt_or_ge i w.objs.length with h | h
    · exact h
    · rw [List.getElem?_eq_none h] at ho; cases ho
  unfold wstep
  simp only [ho]
  exact ⟨trivial, by simp [hi]⟩

end IterFile
