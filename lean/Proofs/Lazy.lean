/- Lazy reading (C12, missing data): every node semantics is *monotone* in the results of its
children — if it produced a number from some results, it produces the same number when results
that were errors are replaced by anything and successful results are kept.  Consequence: a number
produced while the variables holding the missing-data code raise an error does not depend on those
variables at all.  Core Lean only. -/
import Model.Expr
import Proofs.Engine
import Mathlib.Data.List.Forall2

namespace Expr
open Num

variable {α : Type} [NumOps α]
set_option linter.unusedSectionVars false

/-- `r'` keeps every success of `r` -/
def Keeps (r r' : Res α) : Prop := ∀ x, r = .ok x → r' = .ok x

abbrev Refines (rs rs' : List (Res α)) : Prop := List.Forall₂ Keeps rs rs'

theorem refines_length {rs rs' : List (Res α)} (h : Refines rs rs') : rs.length = rs'.length :=
  List.Forall₂.length_eq h

theorem keeps_nth {rs rs' : List (Res α)} (h : Refines rs rs') (i : Nat) : Keeps (nth rs i) (nth rs' i) := by
  induction h generalizing i with
  | nil => intro x hx; simp [nth] at hx
  | cons hab _ ih =>
    cases i with
    | zero => simpa [nth] using hab
    | succ k => simpa [nth] using ih k

theorem refines_drop {rs rs' : List (Res α)} (h : Refines rs rs') (k : Nat) : Refines (rs.drop k) (rs'.drop k) := by
  induction h generalizing k with
  | nil => simp
  | cons hab ht ih =>
    cases k with
    | zero => exact List.Forall₂.cons hab ht
    | succ j => simpa using ih j

theorem refines_take {rs rs' : List (Res α)} (h : Refines rs rs') (k : Nat) : Refines (rs.take k) (rs'.take k) := by
  induction h generalizing k with
  | nil => simp
  | cons hab _ ih =>
    cases k with
    | zero => simp
    | succ j => simpa using List.Forall₂.cons hab (ih j)

/-- helper: a successful `do` step -/
theorem bind_ok {β γ} {r : Except Err β} {f : β → Except Err γ} {v : γ} (h : r >>= f = .ok v) :
    ∃ a, r = .ok a ∧ f a = .ok v := by
  cases r with
  | error e => simp [bind, Except.bind] at h
  | ok a => exact ⟨a, rfl, by simpa [bind, Except.bind] using h⟩

theorem bin_mono {rs rs' : List (Res α)} (h : Refines rs rs') (f : α → α → α) (v : α)
    (hv : bin rs f = .ok v) : bin rs' f = .ok v := by
  unfold bin at hv ⊢
  obtain ⟨a, ha, hv⟩ := bind_ok hv
  obtain ⟨b, hb, hv⟩ := bind_ok hv
  rw [keeps_nth h 0 a ha, keeps_nth h 1 b hb]
  rw [← refines_length h]
  exact hv

theorem un_mono {rs rs' : List (Res α)} (h : Refines rs rs') (f : α → α) (v : α)
    (hv : un rs f = .ok v) : un rs' f = .ok v := by
  unfold un at hv ⊢
  obtain ⟨a, ha, hv⟩ := bind_ok hv
  rw [keeps_nth h 0 a ha]
  rw [← refines_length h]
  exact hv

theorem sumRes_mono {rs rs' : List (Res α)} (h : Refines rs rs') : ∀ v, sumRes rs = .ok v → sumRes rs' = .ok v := by
  induction h with
  | nil => intro v hv; exact hv
  | cons hab _ ih =>
    intro v hv
    unfold sumRes at hv ⊢
    obtain ⟨a, ha, hv⟩ := bind_ok hv
    obtain ⟨s, hs, hv⟩ := bind_ok hv
    rw [hab a ha, ih s hs]
    exact hv

theorem condSumRes_mono : ∀ (n : Nat) (rs rs' : List (Res α)), rs.length ≤ n → Refines rs rs' →
    ∀ v, condSumRes rs = .ok v → condSumRes rs' = .ok v := by
  intro n
  induction n with
  | zero =>
    intro rs rs' hl h v hv
    cases h with
    | nil => exact hv
    | cons _ _ => simp at hl
  | succ n ih =>
    intro rs rs' hl h v hv
    cases h with
    | nil => exact hv
    | cons hc ht =>
      cases ht with
      | nil => simp [condSumRes] at hv
      | cons htm hrest =>
        unfold condSumRes at hv ⊢
        obtain ⟨cv, hcv, hv⟩ := bind_ok hv
        obtain ⟨s, hs, hv⟩ := bind_ok hv
        have hs' := ih _ _ (by simp at hl; omega) hrest s hs
        rw [hc cv hcv, hs']
        simp only [bind, Except.bind] at hv ⊢
        split at hv
        · rename_i hz; simp only [hz, ↓reduceIte]; exact hv
        · rename_i hz
          simp only [hz, Bool.false_eq_true, ↓reduceIte]
          obtain ⟨tv, htv, hv⟩ := bind_ok hv
          rw [htm tv htv]
          exact hv

theorem linUtilZip_mono : ∀ (bs bs' vs vs' : List (Res α)), Refines bs bs' → Refines vs vs' →
    ∀ v, linUtilZip bs vs = .ok v → linUtilZip bs' vs' = .ok v := by
  intro bs bs' vs vs' hb
  induction hb generalizing vs vs' with
  | nil =>
    intro hv v h
    cases hv with
    | nil => exact h
    | cons _ _ => simp [linUtilZip] at h
  | cons hab _ ih =>
    intro hv v h
    cases hv with
    | nil => simp [linUtilZip] at h
    | cons hvv hvt =>
      unfold linUtilZip at h ⊢
      obtain ⟨bv, hbv, h⟩ := bind_ok h
      obtain ⟨vv, hvv', h⟩ := bind_ok h
      obtain ⟨s, hs, h⟩ := bind_ok h
      rw [hab bv hbv, hvv vv hvv', ih _ _ hvt s hs]
      exact h

theorem logitDenom_mono (shift : α) : ∀ (us us' avs avs' : List (Res α)), Refines us us' → Refines avs avs' →
    ∀ v, logitDenom shift us avs = .ok v → logitDenom shift us' avs' = .ok v := by
  intro us us' avs avs' hu
  induction hu generalizing avs avs' with
  | nil =>
    intro ha v h
    cases ha with
    | nil => exact h
    | cons _ _ => simp [logitDenom] at h
  | cons huu _ ih =>
    intro ha v h
    cases ha with
    | nil => simp [logitDenom] at h
    | cons haa hat =>
      unfold logitDenom at h ⊢
      obtain ⟨a, ha', h⟩ := bind_ok h
      obtain ⟨s, hs, h⟩ := bind_ok h
      rw [haa a ha', ih _ _ hat s hs]
      simp only [bind, Except.bind] at h ⊢
      split at h
      · rename_i hz; simp only [hz, ↓reduceIte]; exact h
      · rename_i hz
        simp only [hz, Bool.false_eq_true, ↓reduceIte]
        obtain ⟨uv, huv, h⟩ := bind_ok h
        rw [huu uv huv]
        exact h

/-- **monotonicity of the common node semantics** -/
theorem semCommon_mono (n : Node α) (env : Env α) {rs rs' : List (Res α)} (h : Refines rs rs') (v : α)
    (hv : semCommon n env rs = .ok v) : semCommon n env rs' = .ok v := by
  obtain ⟨k, c, nm, val, ks, ms, f⟩ := n
  cases k
  case elem =>
    simp only [semCommon, elemRes] at hv ⊢
    cases h0 : nth rs 0 with
    | error e => rw [h0] at hv; simp at hv
    | ok key =>
      rw [h0] at hv
      rw [keeps_nth h 0 key h0, ← refines_length h]
      simp only [] at hv ⊢
      split at hv
      · exact absurd hv (by simp)
      · rename_i hl
        simp only [hl, ↓reduceIte]
        split at hv
        · exact absurd hv (by simp)
        · rename_i i hi
          exact keeps_nth h (i + 1) v hv
  case multSum => exact sumRes_mono h v hv
  case condSum => exact condSumRes_mono rs.length rs rs' (Nat.le_refl _) h v hv
  case linUtil =>
    simp only [semCommon, linUtilRes] at hv ⊢
    rw [← refines_length h]
    split at hv
    · rename_i hl
      rw [if_pos hl]
      exact linUtilZip_mono _ _ _ _ (refines_take h _) (refines_drop h _) v hv
    · exact absurd hv (by simp)
  case logLogit =>
    simp only [semCommon, logLogitRes] at hv ⊢
    cases h0 : nth rs 0 with
    | error e => rw [h0] at hv; simp at hv
    | ok ch =>
      rw [h0] at hv
      rw [keeps_nth h 0 ch h0, ← refines_length h]
      simp only [] at hv ⊢
      split at hv
      · exact absurd hv (by simp)
      · rename_i hl
        simp only [hl, ↓reduceIte]
        split at hv
        · exact absurd hv (by simp)
        · rename_i i hi
          cases h1 : nth rs (1 + ks.length + i) with
          | error e => rw [h1] at hv; simp at hv
          | ok avc =>
            rw [h1] at hv
            rw [keeps_nth h _ avc h1]
            simp only [] at hv ⊢
            split at hv
            · exact absurd hv (by simp)
            · rename_i hz
              simp only [hz, Bool.false_eq_true, ↓reduceIte]
              cases h2 : nth rs (1 + i) with
              | error e => rw [h2] at hv; simp at hv
              | ok vc =>
                rw [h2] at hv
                rw [keeps_nth h _ vc h2]
                simp only [] at hv ⊢
                cases h3 : logitDenom vc ((rs.drop 1).take ks.length) (rs.drop (1 + ks.length)) with
                | error e => rw [h3] at hv; simp at hv
                | ok den =>
                  rw [h3] at hv
                  rw [logitDenom_mono vc _ _ _ _ (refines_take (refines_drop h 1) _) (refines_drop h _) den h3]
                  exact hv
  all_goals first
    | exact hv
    | exact bin_mono h _ v hv
    | exact un_mono h _ v hv

theorem semEngine_mono (n : Node α) (env : Env α) {rs rs' : List (Res α)} (h : Refines rs rs') (v : α)
    (hv : semEngine n env rs = .ok v) : semEngine n env rs' = .ok v := by
  obtain ⟨k, c, nm, val, ks, ms, f⟩ := n
  cases k
  case divide => exact bin_mono h _ v hv
  case times => exact bin_mono h _ v hv
  case powConst => exact un_mono h _ v hv
  all_goals (simp only [semEngine] at hv ⊢; exact semCommon_mono _ env h v hv)

/-- **a number produced under the missing-data test never depends on a missing-coded value** -/
theorem evalN_missing (code : α) (d : Dag α) (env env' : Env α) (hb : env'.beta = env.beta)
    (hv : ∀ name, Num.eq (env.var name) code = false → env'.var name = env.var name) :
    ∀ fuel k v, evalN (semMissing code) d env fuel k = .ok v → evalN semEngine d env' fuel k = .ok v := by
  intro fuel
  induction fuel with
  | zero => intro k v h; simp [evalN] at h
  | succ fuel ih =>
    intro k v h
    rw [evalN] at h ⊢
    cases hd : d[k]? with
    | none => rw [hd] at h; simp at h
    | some n =>
      rw [hd] at h
      simp only [] at h ⊢
      have href : Refines (n.children.map (evalN (semMissing code) d env fuel))
          (n.children.map (evalN semEngine d env' fuel)) := by
        show List.Forall₂ Keeps _ _
        rw [List.forall₂_map_left_iff, List.forall₂_map_right_iff]
        exact List.forall₂_same.mpr (fun c _ x hx => ih c x hx)
      obtain ⟨kind, c, nm, val, ks, ms, f⟩ := n
      cases kind
      case var =>
        simp only [semMissing] at h
        split at h
        · exact absurd h (by simp)
        · rename_i hne
          have hne' : Num.eq (env.var nm) code = false := by
            cases hq : Num.eq (env.var nm) code with
            | false => rfl
            | true => exact absurd hq hne
          simp only [semEngine, semCommon, hv nm hne']
          exact h
      case beta =>
        simp only [semMissing, semEngine, semCommon] at h ⊢
        rw [hb]; exact h
      all_goals
        simp only [semMissing] at h
        have h3 := semEngine_mono _ env href v h
        first
          | exact h3
          | (simp only [semEngine, semCommon] at h3 ⊢; exact h3)

end Expr

namespace Expr
open Num
variable {α : Type} [NumOps α]

theorem evalN_congr (semA semB : Sem α) (d : Dag α) (env : Env α)
    (h : ∀ (n : Node α) (rs : List (Res α)), semA n env rs = semB n env rs) :
    ∀ fuel k, evalN semA d env fuel k = evalN semB d env fuel k := by
  intro fuel
  induction fuel with
  | zero => intro k; rfl
  | succ fuel ih =>
    intro k
    rw [evalN, evalN]
    cases hd : d[k]? with
    | none => rfl
    | some n =>
      simp only []
      rw [h]
      congr 1
      apply List.map_congr_left
      intro c _
      exact ih c

/-- when no variable of the row holds the code, the missing-data test changes nothing -/
theorem evalN_missing_absent (code : α) (d : Dag α) (env : Env α)
    (hno : ∀ name, Num.eq (env.var name) code = false) (fuel k : Nat) :
    evalN (semMissing code) d env fuel k = evalN semEngine d env fuel k := by
  apply evalN_congr
  intro n rs
  obtain ⟨kind, c, nm, val, ks, ms, f⟩ := n
  cases kind <;> simp [semMissing, semEngine, semCommon, hno]

/-- a variable holding the code cannot be read -/
theorem var_missing_errors (code : α) (n : Node α) (env : Env α) (rs : List (Res α))
    (hk : n.kind = .var) (hc : Num.eq (env.var n.name) code = true) :
    semMissing code n env rs = .error .missing := by
  obtain ⟨kind, c, nm, val, ks, ms, f⟩ := n
  simp only at hk
  subst hk
  simp only at hc
  simp [semMissing, hc]

/-- arithmetic is strict: an operand that could not be read makes the operation fail -/
theorem bin_strict (rs : List (Res α)) (f : α → α → α) (e : Err)
    (h : nth rs 0 = .error e ∨ (∃ a, nth rs 0 = .ok a) ∧ nth rs 1 = .error e) : bin rs f = .error e := by
  unfold bin
  rcases h with h | ⟨⟨a, ha⟩, h⟩
  · rw [h]; rfl
  · rw [ha, h]; rfl

end Expr
