/- Lemmas for the round-3 theorems of Props/C04.lean (option matrix, histories on one data base). -/
import Model.LikSession
import Proofs.LikelihoodReal

namespace Likelihood
open NumR

/-! ### the property's aggregate -/

/-- Σ over the observations `0 … M−1` of a per-observation quantity, divided by the sample size when
`scaled` — what the property demands of every returned quantity -/
noncomputable def agg (scaled : Bool) (M : ℕ) (t : ℕ → ℝ) : ℝ :=
  if scaled then ((List.range M).map t).sum / (M : ℝ) else ((List.range M).map t).sum

theorem reported_agg (panel : Option (List Int)) (nRows : ℕ) (scaled : Bool) (t : ℕ → ℝ) :
    reported panel nRows scaled ((List.range (sampleSize panel nRows)).map t).sum
      = agg scaled (sampleSize panel nRows) t := by
  unfold reported scaledBy agg
  cases scaled <;> simp

theorem matrixOf_congr {β : Type} (K : ℕ) (e e' : ℕ → ℕ → β) (h : ∀ i j, e i j = e' i j) :
    matrixOf K e = matrixOf K e' := by
  unfold matrixOf
  apply List.map_congr_left
  intro i _
  apply List.map_congr_left
  intro j _
  exact h i j

theorem matrixOf_map {β : Type} (K : ℕ) (e : ℕ → ℕ → β) (φ : β → β) :
    (matrixOf K e).map (fun r => r.map φ) = matrixOf K fun i j => φ (e i j) := by
  unfold matrixOf
  simp [List.map_map, Function.comp_def]

theorem matrixOf_get {β : Type} (K : ℕ) (e : ℕ → ℕ → β) (i j : ℕ) (hi : i < K) (hj : j < K) :
    ((matrixOf K e)[i]?.bind fun r => r[j]?) = some (e i j) := by
  unfold matrixOf
  simp [hi, hj]

/-! ### histories -/

theorem setDataSeq_last {τ : Type} (e : τ) (l : List τ) (x : τ) : setDataSeq e (l ++ [x]) = x := by
  unfold setDataSeq
  simp [List.foldl_append]

/-- the invariant: `st.1` objects were built and every object listed in `st.2` exists and its engine
holds the current table -/
def SInv {τ : Type} (s : Sess τ) (st : ℕ × List ℕ) : Prop :=
  st.1 = s.engines.length ∧ ∀ k ∈ st.2, k < s.engines.length ∧ s.engines[k]? = some s.data

theorem sinv_init {τ : Type} (df : τ) : SInv (Sess.init df) (0, []) := by
  unfold SInv Sess.init
  simp

theorem sinv_step {τ : Type} (s : Sess τ) (st : ℕ × List ℕ) (op : SOp τ) (h : SInv s st) :
    SInv (s.step op) (syncedStep st op) := by
  obtain ⟨hlen, hall⟩ := h
  cases op with
  | build audit =>
    refine ⟨by simp [Sess.step, syncedStep, hlen], ?_⟩
    intro k hk
    simp only [syncedStep, List.mem_cons] at hk
    simp only [Sess.step, List.length_append, List.length_cons, List.length_nil]
    rcases hk with hk | hk
    · subst hk
      rw [hlen]
      refine ⟨by omega, ?_⟩
      simp
    · obtain ⟨h1, h2⟩ := hall k hk
      refine ⟨by omega, ?_⟩
      rw [List.getElem?_append_left h1]
      exact h2
  | edit f =>
    refine ⟨by simp [Sess.step, syncedStep, hlen], ?_⟩
    intro k hk
    simp [syncedStep] at hk
  | estimate k boot =>
    cases boot with
    | none => exact ⟨hlen, hall⟩
    | some rs =>
      refine ⟨by simp [Sess.step, syncedStep, hlen], ?_⟩
      intro j hj
      simp only [Sess.step, setDataSeq_last, List.length_set]
      have hj' : (j = k ∧ k < s.engines.length) ∨ j ∈ st.2 := by
        simp only [syncedStep] at hj
        split at hj
        · rename_i hk
          rcases List.mem_cons.1 hj with h | h
          · exact Or.inl ⟨h, by omega⟩
          · exact Or.inr h
        · exact Or.inr hj
      rcases hj' with ⟨hjk, hk⟩ | hj'
      · subst hjk
        exact ⟨hk, by simp [hk]⟩
      · obtain ⟨h1, h2⟩ := hall j hj'
        refine ⟨h1, ?_⟩
        rw [List.getElem?_set]
        split
        · simp [*]
        · exact h2
  | query k => exact ⟨hlen, hall⟩

theorem sinv_run {τ : Type} (ops : List (SOp τ)) (s : Sess τ) (st : ℕ × List ℕ) (h : SInv s st) :
    SInv (s.run ops) (ops.foldl syncedStep st) := by
  induction ops generalizing s st with
  | nil => exact h
  | cons op ops ih =>
    simp only [Sess.run, List.foldl_cons]
    exact ih (s.step op) (syncedStep st op) (sinv_step s st op h)

end Likelihood
