/- Helper lemmas for Props/C04.lean about the engine's row blocks (core Lean only). -/
import Model.Likelihood

namespace Likelihood

/-! ### arithmetic of the ceil-division partition -/

theorem ceilDiv_spec (a b : Nat) (ha : 1 ≤ a) (hb : 1 ≤ b) :
    1 ≤ ceilDiv a b ∧ (ceilDiv a b - 1) * b < a ∧ a ≤ ceilDiv a b * b := by
  unfold ceilDiv
  have h1 := Nat.div_add_mod (a + b - 1) b
  have h2 := Nat.mod_lt (a + b - 1) (show b > 0 by omega)
  generalize hq : (a + b - 1) / b = q at *
  generalize hr : (a + b - 1) % b = r at *
  have hc : b * q = q * b := Nat.mul_comm _ _
  have hq1 : 1 ≤ q := by
    rcases Nat.eq_zero_or_pos q with h0 | h0
    · subst h0; simp at h1; omega
    · exact h0
  refine ⟨hq1, ?_, ?_⟩
  · have : (q - 1) * b + b = q * b := by
      have : q = (q - 1) + 1 := by omega
      conv => rhs; rw [this, Nat.add_mul, Nat.one_mul]
    omega
  · omega

theorem blockSize_spec (N T : Nat) (hN : 1 ≤ N) (hT : 1 ≤ T) :
    1 ≤ blockSize N T ∧ N ≤ blockSize N T * T := by
  have h := ceilDiv_spec N T hN hT
  exact ⟨h.1, h.2.2⟩

/-- the number of threads really used is the number of blocks of that size -/
theorem nBlocks_eq (N T : Nat) (hN : 1 ≤ N) (hT : 1 ≤ T) :
    nBlocks N T = ceilDiv N (blockSize N T) := by
  have hs := blockSize_spec N T hN hT
  have hk := ceilDiv_spec N (blockSize N T) hN hs.1
  unfold nBlocks
  simp only
  split
  · rfl
  · rename_i hlt
    -- nb ≤ T because (nb - 1) * s < N ≤ s * T
    generalize ceilDiv N (blockSize N T) = k at *
    generalize blockSize N T = s at *
    have : k - 1 < T := by
      apply Nat.lt_of_mul_lt_mul_right (a := s)
      have := Nat.mul_comm s T
      omega
    omega

theorem nBlocks_spec (N T : Nat) (hN : 1 ≤ N) (hT : 1 ≤ T) :
    1 ≤ nBlocks N T ∧ nBlocks N T ≤ T ∧ nBlocks N T ≤ N ∧
    (nBlocks N T - 1) * blockSize N T < N ∧ N ≤ nBlocks N T * blockSize N T := by
  have hs := blockSize_spec N T hN hT
  have hk := ceilDiv_spec N (blockSize N T) hN hs.1
  have he := nBlocks_eq N T hN hT
  have hle : nBlocks N T ≤ T := by
    unfold nBlocks; simp only; split <;> omega
  refine ⟨by omega, hle, ?_, by rw [he]; exact hk.2.1, by rw [he]; exact hk.2.2⟩
  rw [he]
  generalize ceilDiv N (blockSize N T) = k at *
  generalize blockSize N T = s at *
  have : (k - 1) * 1 ≤ (k - 1) * s := Nat.mul_le_mul_left _ hs.1
  omega

/-! ### flattening equal-size blocks -/

theorem flatten_regular (s k : Nat) :
    ((List.range k).map (fun t => List.range' (t * s) s)).flatten = List.range (k * s) := by
  induction k with
  | zero => simp
  | succ k ih =>
    rw [List.range_succ, List.map_append, List.flatten_append, ih]
    simp only [List.map_cons, List.map_nil, List.flatten_cons, List.flatten_nil, List.append_nil]
    rw [List.range_eq_range', List.range_eq_range']
    have := @List.range'_append 0 (k * s) s 1
    simp only [Nat.one_mul, Nat.zero_add] at this
    rw [this]
    congr 1
    rw [Nat.succ_mul, Nat.add_comm]

theorem flatten_blocks_gen (N s k : Nat) (hk : 1 ≤ k) (hlo : (k - 1) * s < N) :
    ((List.range k).map (fun t => List.range' (t * s)
        ((if t = k - 1 then N else (t + 1) * s) - t * s))).flatten = List.range N := by
  obtain ⟨k', rfl⟩ : ∃ k', k = k' + 1 := ⟨k - 1, by omega⟩
  simp only [Nat.add_sub_cancel] at *
  rw [List.range_succ, List.map_append, List.flatten_append]
  have hfirst : (List.range k').map (fun t => List.range' (t * s)
        ((if t = k' then N else (t + 1) * s) - t * s))
      = (List.range k').map (fun t => List.range' (t * s) s) := by
    apply List.map_congr_left
    intro t ht
    have : t ≠ k' := by have := List.mem_range.mp ht; omega
    simp only [this, ↓reduceIte]
    congr 1
    rw [Nat.succ_mul]; omega
  rw [hfirst, flatten_regular]
  simp only [List.map_cons, List.map_nil, List.flatten_cons, List.flatten_nil, List.append_nil,
    ↓reduceIte]
  rw [List.range_eq_range', List.range_eq_range']
  have := @List.range'_append 0 (k' * s) (N - k' * s) 1
  simp only [Nat.one_mul, Nat.zero_add] at this
  rw [this]
  congr 1
  omega

theorem blocks_eq (N T : Nat) :
    blocks N T = (List.range (nBlocks N T)).map (fun t => List.range' (t * blockSize N T)
        ((if t = nBlocks N T - 1 then N else (t + 1) * blockSize N T) - t * blockSize N T)) := by
  unfold blocks block blockStart blockEnd
  rfl

/-- **the blocks cover every row exactly once, in order** -/
theorem blocks_flatten (N T : Nat) (hN : 1 ≤ N) (hT : 1 ≤ T) :
    (blocks N T).flatten = List.range N := by
  have h := nBlocks_spec N T hN hT
  rw [blocks_eq]
  exact flatten_blocks_gen N (blockSize N T) (nBlocks N T) h.1 h.2.2.2.1

theorem block_length (N T t : Nat) (hN : 1 ≤ N) (hT : 1 ≤ T) (ht : t < nBlocks N T) :
    1 ≤ (block N T t).length := by
  have h := nBlocks_spec N T hN hT
  have hs := blockSize_spec N T hN hT
  unfold block blockStart blockEnd
  simp only [List.length_range']
  generalize nBlocks N T = k at *
  generalize blockSize N T = s at *
  split
  · rename_i he; subst he; omega
  · rw [Nat.succ_mul]; omega

theorem blocks_nonempty (N T : Nat) (hN : 1 ≤ N) (hT : 1 ≤ T) :
    ∀ b ∈ blocks N T, b ≠ [] := by
  intro b hb
  unfold blocks at hb
  obtain ⟨t, ht, rfl⟩ := List.mem_map.mp hb
  have := block_length N T t hN hT (List.mem_range.mp ht)
  intro h0
  rw [h0] at this
  simp at this

theorem blocks_length (N T : Nat) : (blocks N T).length = nBlocks N T := by
  simp [blocks]

/-! ### named parameter values -/

theorem lookup_perm {β : Type} (d d' : List (String × β)) (k : String) (hp : d.Perm d')
    (hnd : (d.map Prod.fst).Nodup) : d'.lookup k = d.lookup k := by
  induction hp with
  | nil => rfl
  | cons x _ ih =>
    obtain ⟨xk, xv⟩ := x
    simp only [List.map_cons, List.nodup_cons] at hnd
    simp only [List.lookup_cons]
    rw [ih hnd.2]
  | swap x y l =>
    obtain ⟨xk, xv⟩ := x
    obtain ⟨yk, yv⟩ := y
    simp only [List.map_cons, List.nodup_cons, List.mem_cons, not_or] at hnd
    simp only [List.lookup_cons]
    have hxy : (xk == yk) = false := beq_eq_false_iff_ne.2 fun h => hnd.1.1 h.symm
    have hyx : (yk == xk) = false := beq_eq_false_iff_ne.2 hnd.1.1
    by_cases h1 : k = xk
    · subst h1; simp [hxy]
    · by_cases h2 : k = yk
      · subst h2; simp [hyx]
      · have b1 : (k == xk) = false := beq_eq_false_iff_ne.2 h1
        have b2 : (k == yk) = false := beq_eq_false_iff_ne.2 h2
        simp only [b1, b2]
  | trans h1 _ ih1 ih2 =>
    have hnd2 := ((h1.map Prod.fst).nodup_iff).1 hnd
    rw [ih2 hnd2, ih1 hnd]

theorem betaVector_congr {β : Type} (names : List String) (d d' : List (String × β))
    (h : ∀ n ∈ names, d'.lookup n = d.lookup n) : betaVector names d' = betaVector names d := by
  induction names with
  | nil => rfl
  | cons n ns ih =>
    simp only [betaVector]
    rw [h n (List.mem_cons_self), ih fun m hm => h m (List.mem_cons_of_mem _ hm)]

theorem lookup_filter {β : Type} (p : String → Bool) (d : List (String × β)) (k : String) (hk : p k = true) :
    (d.filter fun e => p e.1).lookup k = d.lookup k := by
  induction d with
  | nil => rfl
  | cons x l ih =>
    obtain ⟨xk, xv⟩ := x
    by_cases hx : p xk = true
    · simp only [List.filter_cons, hx, ↓reduceIte, List.lookup_cons, ih]
    · have hne : (k == xk) = false := by
        apply beq_eq_false_iff_ne.2
        intro h; rw [h] at hk; exact hx hk
      simp only [List.filter_cons, hx, List.lookup_cons, hne]
      exact ih

theorem betaVector_ok_iff {β : Type} (names : List String) (d : List (String × β)) (vs : List β) :
    betaVector names d = .ok vs ↔ names.map (fun n => d.lookup n) = vs.map some := by
  induction names generalizing vs with
  | nil =>
    simp only [betaVector, List.map_nil]
    constructor
    · intro h; cases h; rfl
    · intro h; cases vs with
      | nil => rfl
      | cons _ _ => simp at h
  | cons n ns ih =>
    simp only [betaVector, List.map_cons]
    cases hl : d.lookup n with
    | none =>
      simp only
      constructor
      · intro h; cases h
      · intro h; cases vs with
        | nil => simp at h
        | cons _ _ => simp at h
    | some v =>
      simp only
      cases hr : betaVector ns d with
      | error e =>
        simp only
        constructor
        · intro h; cases h
        · intro h
          cases vs with
          | nil => simp at h
          | cons v' vs' =>
            simp only [List.map_cons, List.cons.injEq] at h
            have := (ih vs').2 h.2
            rw [hr] at this; cases this
      | ok ws =>
        simp only
        constructor
        · intro h; cases h
          simp only [List.map_cons, List.cons.injEq, true_and]
          exact (ih ws).1 hr
        · intro h
          cases vs with
          | nil => simp at h
          | cons v' vs' =>
            simp only [List.map_cons, List.cons.injEq, Option.some.injEq] at h
            have := (ih vs').2 h.2
            rw [hr] at this; cases this
            rw [h.1]

theorem betaVector_error {β : Type} (names : List String) (d : List (String × β)) (n : String)
    (hn : n ∈ names) (hmiss : d.lookup n = none) : ∃ e, betaVector names d = .error e ∧ e ∈ names ∧ d.lookup e = none := by
  induction names with
  | nil => cases hn
  | cons m ms ih =>
    simp only [betaVector]
    cases hl : d.lookup m with
    | none => exact ⟨m, rfl, List.mem_cons_self, hl⟩
    | some v =>
      have hn' : n ∈ ms := by
        rcases List.mem_cons.1 hn with h | h
        · subst h; rw [hmiss] at hl; cases hl
        · exact h
      obtain ⟨e, he, hem, hel⟩ := ih hn'
      exact ⟨e, by simp [he], List.mem_cons_of_mem _ hem, hel⟩

/-! ### individuals -/

theorem mem_distinct (ids : List Int) (i : Int) : i ∈ distinct ids ↔ i ∈ ids := by
  induction ids with
  | nil => simp [distinct]
  | cons a l ih =>
    simp only [distinct, List.mem_cons, List.mem_filter, ih, bne_iff_ne, ne_eq]
    constructor
    · rintro (h | h)
      · exact Or.inl h
      · exact Or.inr h.1
    · rintro (h | h)
      · exact Or.inl h
      · by_cases hia : i = a
        · exact Or.inl hia
        · exact Or.inr ⟨h, hia⟩

theorem nodup_distinct (ids : List Int) : (distinct ids).Nodup := by
  induction ids with
  | nil => simp [distinct]
  | cons a l ih =>
    simp only [distinct, List.nodup_cons, List.mem_filter, bne_self_eq_false, Bool.false_eq_true, and_false,
      not_false_eq_true, true_and]
    exact ih.filter _

theorem flatMap_congr_mem {β γ : Type} (l : List β) (f g : β → List γ) (h : ∀ a ∈ l, f a = g a) :
    l.flatMap f = l.flatMap g := by
  induction l with
  | nil => rfl
  | cons a l ih =>
    simp only [List.flatMap_cons]
    rw [h a List.mem_cons_self, ih fun b hb => h b (List.mem_cons_of_mem _ hb)]

theorem flatMap_filter_perm {β κ : Type} [BEq κ] [LawfulBEq κ] (f : β → κ) (ks : List κ) (l : List β)
    (hnd : ks.Nodup) (hall : ∀ b ∈ l, f b ∈ ks) :
    (ks.flatMap fun k => l.filter fun b => f b == k).Perm l := by
  induction ks generalizing l with
  | nil =>
    cases l with
    | nil => simp
    | cons b _ => exact absurd (hall b List.mem_cons_self) (by simp)
  | cons k ks ih =>
    simp only [List.nodup_cons] at hnd
    simp only [List.flatMap_cons]
    have hrest : (ks.flatMap fun k' => l.filter fun b => f b == k') =
        (ks.flatMap fun k' => (l.filter fun b => !(f b == k)).filter fun b => f b == k') := by
      apply flatMap_congr_mem
      intro k' hk'
      rw [List.filter_filter]
      apply List.filter_congr
      intro b _
      by_cases hb : f b = k'
      · have : f b ≠ k := by rw [hb]; intro h; exact hnd.1 (h ▸ hk')
        subst hb
        simp [this]
      · simp [hb]
    rw [hrest]
    have h2 := ih (l.filter fun b => !(f b == k)) hnd.2 (by
      intro b hb
      simp only [List.mem_filter, Bool.not_eq_eq_eq_not, Bool.not_true, beq_eq_false_iff_ne, ne_eq] at hb
      rcases List.mem_cons.1 (hall b hb.1) with h | h
      · exact absurd h hb.2
      · exact h)
    exact (List.Perm.append_left _ h2).trans (List.filter_append_perm _ l)

theorem individuals_perm (ids : List Int) :
    ((distinct ids).flatMap (individualRows ids)).Perm (List.range ids.length) := by
  have h := flatMap_filter_perm (fun n => ids[n]?) ((distinct ids).map some) (List.range ids.length)
    (List.Pairwise.map some (fun _ _ h h' => h (Option.some.inj h')) (nodup_distinct ids)) (by
      intro n hn
      have hn' : n < ids.length := List.mem_range.1 hn
      simp only [List.mem_map]
      exact ⟨ids[n], (mem_distinct ids _).2 (List.getElem_mem hn'), (List.getElem?_eq_getElem hn').symm⟩)
  rw [List.flatMap_map] at h
  have he : individualRows ids = fun a => (List.range ids.length).filter fun b => ids[b]? == some a := by
    funext a; rfl
  rw [he]
  exact h

theorem length_distinct_le (ids : List Int) : (distinct ids).length ≤ ids.length := by
  induction ids with
  | nil => simp [distinct]
  | cons a l ih =>
    simp only [distinct, List.length_cons]
    have := List.length_filter_le (fun b => b != a) (distinct l)
    omega

end Likelihood
