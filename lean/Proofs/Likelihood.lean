/- Helper lemmas for Props/C04.lean about the engine's row blocks (core Lean only). -/
import Model.Likelihood

namespace Likelihood

/-! ### arithmetic of the ceil-division partition -/

theorem ceilDiv_spec (a b : Nat) (ha : 1 ≤ a) (hb : 1 ≤ b) :
    1 ≤ ceilDiv a b ∧ (ceilDiv a b - 1) * b < a ∧ a ≤ ceilDiv a b * b := by
  unfold ceilDiv
  have h1 := Nat.div_add_mod (a + b - 1) b
  have h2 := Nat.mod_lt (a + b - 1) (show b > 0 by omega)
  generalize hq : (a + b - 1) / b = q at *
  generalize hr : (a + b - 1) % b = r at *
  have hc : b * q = q * b := Nat.mul_comm _ _
  have hq1 : 1 ≤ q := by
    rcases Nat.eq_zero_or_pos q with h0 | h0
    · subst h0; simp at h1; omega
    · exact h0
  refine ⟨hq1, ?_, ?_⟩
  · have : (q - 1) * b + b = q * b := by
      have : q = (q - 1) + 1 := by omega
      conv => rhs; rw [this, Nat.add_mul, Nat.one_mul]
    omega
  · omega

theorem blockSize_spec (N T : Nat) (hN : 1 ≤ N) (hT : 1 ≤ T) :
    1 ≤ blockSize N T ∧ N ≤ blockSize N T * T := by
  have h := ceilDiv_spec N T hN hT
  exact ⟨h.1, h.2.2⟩

/-- the number of threads really used is the number of blocks of that size -/
theorem nBlocks_eq (N T : Nat) (hN : 1 ≤ N) (hT : 1 ≤ T) :
    nBlocks N T = ceilDiv N (blockSize N T) := by
  have hs := blockSize_spec N T hN hT
  have hk := ceilDiv_spec N (blockSize N T) hN hs.1
  unfold nBlocks
  simp only
  split
  · rfl
  · rename_i hlt
    -- nb ≤ T because (nb - 1) * s < N ≤ s * T
    generalize ceilDiv N (blockSize N T) = k at *
    generalize blockSize N T = s at *
    have : k - 1 < T := by
      apply Nat.lt_of_mul_lt_mul_right (a := s)
      have := Nat.mul_comm s T
      omega
    omega

theorem nBlocks_spec (N T : Nat) (hN : 1 ≤ N) (hT : 1 ≤ T) :
    1 ≤ nBlocks N T ∧ nBlocks N T ≤ T ∧ nBlocks N T ≤ N ∧
    (nBlocks N T - 1) * blockSize N T < N ∧ N ≤ nBlocks N T * blockSize N T := by
  have hs := blockSize_spec N T hN hT
  have hk := ceilDiv_spec N (blockSize N T) hN hs.1
  have he := nBlocks_eq N T hN hT
  have hle : nBlocks N T ≤ T := by
    unfold nBlocks; simp only; split <;> omega
  refine ⟨by omega, hle, ?_, by rw [he]; exact hk.2.1, by rw [he]; exact hk.2.2⟩
  rw [he]
  generalize ceilDiv N (blockSize N T) = k at *
  generalize blockSize N T = s at *
  have : (k - 1) * 1 ≤ (k - 1) * s := Nat.mul_le_mul_left _ hs.1
  omega

/-! ### flattening equal-size blocks -/

theorem flatten_regular (s k : Nat) :
    ((List.range k).map (fun t => List.range' (t * s) s)).flatten = List.range (k * s) := by
  induction k with
  | zero => simp
  | succ k ih =>
    rw [List.range_succ, List.map_append, List.flatten_append, ih]
    simp only [List.map_cons, List.map_nil, List.flatten_cons, List.flatten_nil, List.append_nil]
    rw [List.range_eq_range', List.range_eq_range']
    have := @List.range'_append 0 (k * s) s 1
    simp only [Nat.one_mul, Nat.zero_add] at this
    rw [this]
    congr 1
    rw [Nat.succ_mul, Nat.add_comm]

theorem flatten_blocks_gen (N s k : Nat) (hk : 1 ≤ k) (hlo : (k - 1) * s < N) :
    ((List.range k).map (fun t => List.range' (t * s)
        ((if t = k - 1 then N else (t + 1) * s) - t * s))).flatten = List.range N := by
  obtain ⟨k', rfl⟩ : ∃ k', k = k' + 1 := ⟨k - 1, by omega⟩
  simp only [Nat.add_sub_cancel] at *
  rw [List.range_succ, List.map_append, List.flatten_append]
  have hfirst : (List.range k').map (fun t => List.range' (t * s)
        ((if t = k' then N else (t + 1) * s) - t * s))
      = (List.range k').map (fun t => List.range' (t * s) s) := by
    apply List.map_congr_left
    intro t ht
    have : t ≠ k' := by have := List.mem_range.mp ht; omega
    simp only [this, ↓reduceIte]
    congr 1
    rw [Nat.succ_mul]; omega
  rw [hfirst, flatten_regular]
  simp only [List.map_cons, List.map_nil, List.flatten_cons, List.flatten_nil, List.append_nil,
    ↓reduceIte]
  rw [List.range_eq_range', List.range_eq_range']
  have := @List.range'_append 0 (k' * s) (N - k' * s) 1
  simp only [Nat.one_mul, Nat.zero_add] at this
  rw [this]
  congr 1
  omega

theorem blocks_eq (N T : Nat) :
    blocks N T = (List.range (nBlocks N T)).map (fun t => List.range' (t * blockSize N T)
        ((if t = nBlocks N T - 1 then N else (t + 1) * blockSize N T) - t * blockSize N T)) := by
  unfold blocks block blockStart blockEnd
  rfl

/-- **the blocks cover every row exactly once, in order** -/
theorem blocks_flatten (N T : Nat) (hN : 1 ≤ N) (hT : 1 ≤ T) :
    (blocks N T).flatten = List.range N := by
  have h := nBlocks_spec N T hN hT
  rw [blocks_eq]
  exact flatten_blocks_gen N (blockSize N T) (nBlocks N T) h.1 h.2.2.2.1

theorem block_length (N T t : Nat) (hN : 1 ≤ N) (hT : 1 ≤ T) (ht : t < nBlocks N T) :
    1 ≤ (block N T t).length := by
  have h := nBlocks_spec N T hN hT
  have hs := blockSize_spec N T hN hT
  unfold block blockStart blockEnd
  simp only [List.length_range']
  generalize nBlocks N T = k at *
  generalize blockSize N T = s at *
  split
  · rename_i he; subst he; omega
  · rw [Nat.succ_mul]; omega

theorem blocks_nonempty (N T : Nat) (hN : 1 ≤ N) (hT : 1 ≤ T) :
    ∀ b ∈ blocks N T, b ≠ [] := by
  intro b hb
  unfold blocks at hb
  obtain ⟨t, ht, rfl⟩ := List.mem_map.mp hb
  have := block_length N T t hN hT (List.mem_range.mp ht)
  intro h0
  rw [h0] at this
  simp at this

theorem blocks_length (N T : Nat) : (blocks N T).length = nBlocks N T := by
  simp [blocks]

end Likelihood
