/- Real-valued lemmas for Props/C04.lean: the engine's accumulation loops are sums. -/
import Model.Likelihood
import Proofs.Likelihood
import Proofs.NumReal
import Mathlib.Algebra.BigOperators.Group.List.Basic
import Mathlib.Algebra.BigOperators.Group.List.Lemmas

namespace Likelihood
open NumR

theorem term_none (x : ℕ → ℝ) (n : ℕ) : term none x n = x n := rfl
theorem term_some (w x : ℕ → ℝ) (n : ℕ) : term (some w) x n = w n * x n := rfl

theorem foldl_add_real (t : ℕ → ℝ) (rows : List ℕ) (a : ℝ) :
    rows.foldl (fun acc n => @HAdd.hAdd ℝ ℝ ℝ (@instHAdd ℝ Num.instAddOfNumOps) acc (t n)) a
      = a + (rows.map t).sum := by
  induction rows generalizing a with
  | nil => simp
  | cons r rs ih =>
    simp only [List.foldl_cons, List.map_cons, List.sum_cons]
    rw [ih]
    simp only [add_real]
    ring

/-- one thread's loop is the sum of the contributions of its rows -/
theorem threadSum_real (w : Option (ℕ → ℝ)) (x : ℕ → ℝ) (rows : List ℕ) :
    threadSum w x rows = (rows.map (term w x)).sum := by
  unfold threadSum
  rw [foldl_add_real]
  simp

theorem foldl_add_real' {β : Type} (t : β → ℝ) (l : List β) (a : ℝ) :
    l.foldl (fun acc b => @HAdd.hAdd ℝ ℝ ℝ (@instHAdd ℝ Num.instAddOfNumOps) acc (t b)) a
      = a + (l.map t).sum := by
  induction l generalizing a with
  | nil => simp
  | cons r rs ih =>
    simp only [List.foldl_cons, List.map_cons, List.sum_cons]
    rw [ih]
    simp only [add_real]
    ring

/-- adding the threads' results is the sum over all rows of all blocks -/
theorem total_real (w : Option (ℕ → ℝ)) (x : ℕ → ℝ) (bs : List (List ℕ)) :
    total w x bs = (bs.flatten.map (term w x)).sum := by
  unfold total
  rw [foldl_add_real']
  simp only [ofNat_real_zero, zero_add]
  rw [List.map_flatten, List.sum_flatten, List.map_map]
  congr 1
  apply List.map_congr_left
  intro b _
  simp [threadSum_real]

theorem weightedSum_real (w : Option (ℕ → ℝ)) (x : ℕ → ℝ) (rows : List ℕ) :
    weightedSum w x rows = (rows.map (term w x)).sum := by
  unfold weightedSum
  rw [sum_real]

theorem pairSum_real (rows : List (ℝ × ℝ)) : pairSum rows = (rows.map fun p => p.1 * p.2).sum := by
  unfold pairSum
  rw [sum_real]

theorem bhhhThread_real (w : Option (ℕ → ℝ)) (g : ℕ → ℕ → ℝ) (i j : ℕ) (rows : List ℕ) :
    bhhhThread w g i j rows = (rows.map (bhhhTerm w g i j)).sum := by
  unfold bhhhThread
  rw [foldl_add_real]
  simp

theorem bhhhUpper_real (w : Option (ℕ → ℝ)) (g : ℕ → ℕ → ℝ) (N T i j : ℕ) :
    bhhhUpper w g N T i j = ((blocks N T).flatten.map (bhhhTerm w g i j)).sum := by
  unfold bhhhUpper
  rw [foldl_add_real']
  simp only [ofNat_real_zero, zero_add]
  rw [List.map_flatten, List.sum_flatten, List.map_map]
  congr 1
  apply List.map_congr_left
  intro b _
  simp [bhhhThread_real]

theorem bhhhTerm_symm (w : Option (ℕ → ℝ)) (g : ℕ → ℕ → ℝ) (i j n : ℕ) :
    bhhhTerm w g i j n = bhhhTerm w g j i n := by
  unfold bhhhTerm
  cases w with
  | none => simp only [mul_real]; ring
  | some w => simp only [mul_real]; ring

end Likelihood
