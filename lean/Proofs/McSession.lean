/- Helper lemmas for the session part of Props/C10.lean (Model/McSession.lean). -/
import Model.McSession
import Proofs.Integrals
import Mathlib.Data.List.Basic
import Mathlib.Data.List.Sort

namespace McSession
open Integrals

variable {σ α : Type}

/-! ### the loop over the names, generator state threaded -/

theorem collectS_ok (native user : List String) (typeOf : String → String) (gen : Gen σ α) (N R : Nat)
    (names : List String) (s s' : σ) (stack : List (List (List α)))
    (h : collectS native user typeOf gen N R names s = (.ok stack, s')) :
    stack.length = names.length ∧
    ∀ k (hk : k < names.length), ∃ src, dispatch native user (typeOf names[k]) = .ok src ∧
      stack.getD k [] = (gen src (stateBefore native user typeOf gen N R names s k) N R).1 ∧
      shapeOk (gen src (stateBefore native user typeOf gen N R names s k) N R).1 N R = true := by
  induction names generalizing s stack with
  | nil =>
    simp only [collectS, Prod.mk.injEq, Except.ok.injEq] at h
    obtain ⟨h1, _⟩ := h
    subst h1
    exact ⟨rfl, fun k hk => by simp at hk⟩
  | cons name rest ih =>
    simp only [collectS] at h
    cases hd : dispatch native user (typeOf name) with
    | error e => rw [hd] at h; simp at h
    | ok src =>
      rw [hd] at h
      simp only at h
      by_cases hs : shapeOk (gen src s N R).1 N R = true
      · rw [if_pos hs] at h
        rcases hc : collectS native user typeOf gen N R rest (gen src s N R).2 with ⟨res, s''⟩
        rw [hc] at h
        cases res with
        | error e => simp at h
        | ok t =>
          simp only [Prod.mk.injEq, Except.ok.injEq] at h
          obtain ⟨h1, h2⟩ := h
          subst h1
          subst h2
          obtain ⟨hl, hall⟩ := ih _ _ hc
          refine ⟨by simp [hl], ?_⟩
          intro k hk
          cases k with
          | zero => exact ⟨src, by simpa using hd, by simp [stateBefore], by simpa [stateBefore] using hs⟩
          | succ k' =>
            have hk' : k' < rest.length := by simpa using hk
            obtain ⟨s1, g1, g2, g3⟩ := hall k' hk'
            refine ⟨s1, by simpa using g1, ?_, ?_⟩
            · simp only [stateBefore, hd]; simpa using g2
            · simp only [stateBefore, hd]; exact g3
      · rw [if_neg hs] at h; simp at h

/-- entry `[n][r][k]` of the table `generate_draws` returns is entry `[n][r]` of what the generator serving
the declared type of the `k`-th name returned *when it was called for that name* -/
theorem generateDrawsS_entry (dflt : α) (native user : List String) (typeOf : String → String)
    (gen : Gen σ α) (names : List String) (N R : Nat) (s s' : σ) (table : List (List (List α)))
    (h : generateDrawsS dflt native user typeOf gen names N R s = (.ok table, s'))
    (n r k : Nat) (hn : n < N) (hr : r < R) (hk : k < names.length) :
    ∃ src, dispatch native user (typeOf names[k]) = .ok src ∧
      entry dflt table n r k
        = (((gen src (stateBefore native user typeOf gen N R names s k) N R).1).getD n []).getD r dflt := by
  unfold generateDrawsS at h
  rcases hc : collectS native user typeOf gen N R names s with ⟨res, s''⟩
  rw [hc] at h
  cases res with
  | error e => simp at h
  | ok stack =>
    simp only [Prod.mk.injEq, Except.ok.injEq] at h
    obtain ⟨h1, _⟩ := h
    subst h1
    obtain ⟨hl, hall⟩ := collectS_ok native user typeOf gen N R names s s'' stack hc
    obtain ⟨src, g1, g2, _⟩ := hall k hk
    refine ⟨src, g1, ?_⟩
    rw [entry_moveAxis dflt stack N R n r k hn hr (by omega), g2]

/-! ### names -/

theorem nodup_eraseDups_str : ∀ (n : Nat) (l : List String), l.length ≤ n → l.eraseDups.Nodup
  | _, [], _ => by simp
  | 0, a :: as, h => by simp at h
  | n + 1, a :: as, h => by
    rw [List.eraseDups_cons, List.nodup_cons]
    constructor
    · rw [List.mem_eraseDups]
      simp [List.mem_filter]
    · apply nodup_eraseDups_str n
      have := List.length_filter_le (fun b => !b == a) as
      simp only [List.length_cons] at h
      omega

theorem sortNames_nodup (names : List String) : (sortNames names).Nodup := by
  unfold sortNames
  exact (List.mergeSort_perm _ _).nodup_iff.mpr (nodup_eraseDups_str _ _ le_rfl)

theorem drawId_sortNames_getElem (names : List String) (k : Nat) (hk : k < (sortNames names).length) :
    drawId names (sortNames names)[k] = k := by
  unfold drawId
  exact (sortNames_nodup names).idxOf_getElem k hk

/-- the list of names handed to `generate_draws` is forced: if the column `drawId name` is to be the column of
`name` for every draw variable, the list is the sorted one -/
theorem names_order_forced (names ns : List String) (hl : ns.length = (sortNames names).length)
    (h : ∀ name ∈ names, ns[drawId names name]? = some name) : ns = sortNames names := by
  apply List.ext_getElem hl
  intro k h1 h2
  have hm : (sortNames names)[k] ∈ names := (mem_sortNames _ _).1 (List.getElem_mem h2)
  have h3 := h _ hm
  rw [drawId_sortNames_getElem names k h2, List.getElem?_eq_getElem h1] at h3
  exact Option.some.inj h3

/-! ### the world -/

theorem prepareDraws_objs (E : Env σ α) (d : Decl) (R : Nat) (w : World σ α) :
    (prepareDraws E d R w).1.objs = w.objs := by
  unfold prepareDraws
  split
  · rfl
  · split <;> rfl

theorem initBiogeme_objs (E : Env σ α) (seed : Nat) (d : Decl) (R : Nat) (w : World σ α) :
    (initBiogeme E seed d R w).1.objs = w.objs := by
  unfold initBiogeme
  simp only
  have p1 := prepareDraws_objs E d R { w with rng := seedPolicy E.fresh seed w.rng }
  rcases h1 : prepareDraws E d R { w with rng := seedPolicy E.fresh seed w.rng } with ⟨w1, e1⟩
  rw [h1] at p1
  cases e1 with
  | some e => simpa using p1
  | none =>
    simp only
    have p2 := prepareDraws_objs E d R w1
    rcases h2 : prepareDraws E d R w1 with ⟨w2, e2⟩
    rw [h2] at p2
    cases e2 with
    | some e => simp only; simp only at p1 p2; rw [p2, p1]
    | none =>
      simp only
      have p3 := prepareDraws_objs E d R w2
      rcases h3 : prepareDraws E d R w2 with ⟨w3, e3⟩
      rw [h3] at p3
      simp only at p1 p2 p3
      cases e3 with
      | some e => simp only; rw [p3, p2, p1]
      | none => simp only; rw [p3, p2, p1]

/-- one operation keeps every existing object's formulas and engine table -/
theorem step_keeps (E : Env σ α) (w : World σ α) (op : Op) (i : Nat) (o : Obj α)
    (h : w.objs[i]? = some o) :
    ∃ o', (step E w op).1.objs[i]? = some o' ∧ o'.decl = o.decl ∧ o'.engine = o.engine := by
  cases op with
  | newBiogeme seed d R =>
    have hobj := initBiogeme_objs E seed d R w
    simp only [step]
    rcases hi : initBiogeme E seed d R w with ⟨w', oo, e⟩
    rw [hi] at hobj
    simp only at hobj
    have hlt : i < w.objs.length := (List.getElem?_eq_some_iff.mp h).1
    cases oo with
    | some o2 =>
      refine ⟨o, ?_, rfl, rfl⟩
      simp only [hobj]
      rw [List.getElem?_append_left hlt]
      exact h
    | none => exact ⟨o, by simpa [hobj] using h, rfl, rfl⟩
  | setNumberOfDraws j R =>
    simp only [step]
    by_cases hij : j = i
    · subst hij
      refine ⟨{ o with numberOfDraws := R }, ?_, rfl, rfl⟩
      rw [List.getElem?_modify_eq, h]
      rfl
    · exact ⟨o, by rw [List.getElem?_modify_ne _ _ hij]; exact h, rfl, rfl⟩
  | evalBiogeme j => exact ⟨o, h, rfl, rfl⟩
  | evalExpr d R => exact ⟨o, by simp only [step]; rw [prepareDraws_objs]; exact h, rfl, rfl⟩
  | consume k => exact ⟨o, h, rfl, rfl⟩
  | createFunction d R => exact ⟨o, by simp only [step]; rw [prepareDraws_objs]; exact h, rfl, rfl⟩
  | callFunction => exact ⟨o, h, rfl, rfl⟩

theorem step_quiet_theDraws (E : Env σ α) (w : World σ α) (op : Op) (hq : op.quiet = true) :
    (step E w op).1.theDraws = w.theDraws := by
  cases op <;> simp [Op.quiet] at hq <;> rfl

theorem run_quiet_theDraws (E : Env σ α) (ops : List Op) (w : World σ α)
    (hq : ∀ op ∈ ops, op.quiet = true) : (run E w ops).theDraws = w.theDraws := by
  induction ops generalizing w with
  | nil => rfl
  | cons op rest ih =>
    simp only [run]
    rw [ih _ (fun o ho => hq o (List.mem_cons_of_mem _ ho)), step_quiet_theDraws E w op (hq op List.mem_cons_self)]

theorem run_keeps (E : Env σ α) (ops : List Op) (w : World σ α) (i : Nat) (o : Obj α)
    (h : w.objs[i]? = some o) :
    ∃ o', (run E w ops).objs[i]? = some o' ∧ o'.decl = o.decl ∧ o'.engine = o.engine := by
  induction ops generalizing w o with
  | nil => exact ⟨o, h, rfl, rfl⟩
  | cons op rest ih =>
    obtain ⟨o1, h1, h2, h3⟩ := step_keeps E w op i o h
    obtain ⟨o2, g1, g2, g3⟩ := ih (step E w op).1 o1 h1
    exact ⟨o2, g1, g2.trans h2, g3.trans h3⟩

/-! ### what a constructor leaves depends on the world through the generator state only -/

theorem prepareDraws_sim (E : Env σ α) (d : Decl) (R : Nat) (w₁ w₂ : World σ α) (hd : d.isEmpty = false)
    (h : w₁.rng = w₂.rng) :
    (prepareDraws E d R w₁).2 = (prepareDraws E d R w₂).2 ∧
    (prepareDraws E d R w₁).1.rng = (prepareDraws E d R w₂).1.rng ∧
    ((prepareDraws E d R w₁).2 = none →
      (prepareDraws E d R w₁).1.theDraws = (prepareDraws E d R w₂).1.theDraws) := by
  unfold prepareDraws
  simp only [hd, Bool.false_eq_true, if_false]
  rw [h]
  rcases generateDrawsS E.dflt E.native E.user (declType d) E.gen (callNames d) E.N R w₂.rng with ⟨res, s⟩
  cases res <;> simp

theorem initBiogeme_sim (E : Env σ α) (seed : Nat) (d : Decl) (R : Nat) (w₁ w₂ : World σ α)
    (hd : d.isEmpty = false)
    (h : seedPolicy E.fresh seed w₁.rng = seedPolicy E.fresh seed w₂.rng) :
    (initBiogeme E seed d R w₁).2 = (initBiogeme E seed d R w₂).2 ∧
    (initBiogeme E seed d R w₁).1.rng = (initBiogeme E seed d R w₂).1.rng := by
  unfold initBiogeme
  simp only
  obtain ⟨a1, a2, a3⟩ := prepareDraws_sim E d R { w₁ with rng := seedPolicy E.fresh seed w₁.rng }
    { w₂ with rng := seedPolicy E.fresh seed w₂.rng } hd h
  rcases h1 : prepareDraws E d R { w₁ with rng := seedPolicy E.fresh seed w₁.rng } with ⟨u1, e1⟩
  rcases h1' : prepareDraws E d R { w₂ with rng := seedPolicy E.fresh seed w₂.rng } with ⟨v1, f1⟩
  rw [h1, h1'] at a1 a2 a3
  simp only at a1 a2 a3
  subst a1
  cases e1 with
  | some e => exact ⟨rfl, a2⟩
  | none =>
    simp only
    obtain ⟨b1, b2, b3⟩ := prepareDraws_sim E d R u1 v1 hd a2
    rcases h2 : prepareDraws E d R u1 with ⟨u2, e2⟩
    rcases h2' : prepareDraws E d R v1 with ⟨v2, f2⟩
    rw [h2, h2'] at b1 b2 b3
    simp only at b1 b2 b3
    subst b1
    cases e2 with
    | some e => exact ⟨rfl, b2⟩
    | none =>
      simp only
      have hdraws : u2.theDraws = v2.theDraws := b3 rfl
      obtain ⟨c1, c2, _⟩ := prepareDraws_sim E d R u2 v2 hd b2
      rcases h3 : prepareDraws E d R u2 with ⟨u3, e3⟩
      rcases h3' : prepareDraws E d R v2 with ⟨v3, f3⟩
      rw [h3, h3'] at c1 c2
      simp only at c1 c2
      subst c1
      cases e3 with
      | some e => exact ⟨rfl, c2⟩
      | none => simp only [hd, hdraws]; exact ⟨trivial, c2⟩

/-- the engine table of a successfully constructed object is the table of the second generation round -/
theorem initBiogeme_engine (E : Env σ α) (seed : Nat) (d : Decl) (R : Nat) (w w' : World σ α) (o : Obj α)
    (hd : d.isEmpty = false) (h : initBiogeme E seed d R w = (w', some o, none)) :
    o.decl = d ∧ ∃ t1 s1 t2 s2,
      generateDrawsS E.dflt E.native E.user (declType d) E.gen (callNames d) E.N R
        (seedPolicy E.fresh seed w.rng) = (.ok t1, s1) ∧
      generateDrawsS E.dflt E.native E.user (declType d) E.gen (callNames d) E.N R s1 = (.ok t2, s2) ∧
      o.engine = some t2 := by
  unfold initBiogeme at h
  simp only at h
  unfold prepareDraws at h
  simp only [hd, Bool.false_eq_true, if_false] at h
  rcases g1 : generateDrawsS E.dflt E.native E.user (declType d) E.gen (callNames d) E.N R
    (seedPolicy E.fresh seed w.rng) with ⟨r1, s1⟩
  rw [g1] at h
  cases r1 with
  | error e => simp at h
  | ok t1 =>
    simp only at h
    rcases g2 : generateDrawsS E.dflt E.native E.user (declType d) E.gen (callNames d) E.N R s1 with ⟨r2, s2⟩
    rw [g2] at h
    cases r2 with
    | error e => simp at h
    | ok t2 =>
      simp only at h
      rcases g3 : generateDrawsS E.dflt E.native E.user (declType d) E.gen (callNames d) E.N R s2 with ⟨r3, s3⟩
      rw [g3] at h
      cases r3 with
      | error e => simp at h
      | ok t3 =>
        simp only [Prod.mk.injEq, Option.some.injEq, and_true] at h
        obtain ⟨_, ho⟩ := h
        subst ho
        exact ⟨rfl, t1, s1, t2, s2, rfl, g2, rfl⟩

/-! ### refused generations leave the table and the objects as they were -/

theorem prepareDraws_refused (E : Env σ α) (d : Decl) (R : Nat) (w : World σ α)
    (h : (prepareDraws E d R w).2.isSome = true) :
    (prepareDraws E d R w).1.theDraws = w.theDraws ∧ (prepareDraws E d R w).1.objs = w.objs := by
  unfold prepareDraws at h ⊢
  split
  · exact ⟨rfl, rfl⟩
  · rename_i hd
    simp only [hd, if_false] at h
    rcases g : generateDrawsS E.dflt E.native E.user (declType d) E.gen (callNames d) E.N R w.rng with ⟨res, s⟩
    rw [g] at h
    cases res with
    | error e => exact ⟨rfl, rfl⟩
    | ok t => simp at h

theorem step_refused (E : Env σ α) (w : World σ α) (op : Op) (h : refusedIn E w op = true) :
    (step E w op).1.theDraws = w.theDraws ∧ (step E w op).1.objs = w.objs ∧ (step E w op).2.isSome = true := by
  cases op with
  | evalExpr d R =>
    simp only [refusedIn] at h
    exact ⟨(prepareDraws_refused E d R w h).1, (prepareDraws_refused E d R w h).2, h⟩
  | createFunction d R =>
    simp only [refusedIn] at h
    exact ⟨(prepareDraws_refused E d R w h).1, (prepareDraws_refused E d R w h).2, h⟩
  | newBiogeme seed d R =>
    simp only [refusedIn] at h
    have hp := prepareDraws_refused E d R { w with rng := seedPolicy E.fresh seed w.rng } h
    simp only [step, initBiogeme]
    rcases h1 : prepareDraws E d R { w with rng := seedPolicy E.fresh seed w.rng } with ⟨w1, e1⟩
    rw [h1] at h hp
    cases e1 with
    | none => simp at h
    | some e => exact ⟨hp.1, hp.2, rfl⟩
  | setNumberOfDraws i R => simp [refusedIn] at h
  | evalBiogeme i => simp [refusedIn] at h
  | consume k => simp [refusedIn] at h
  | callFunction => simp [refusedIn] at h

theorem run_calm_theDraws (E : Env σ α) (ops : List Op) (w : World σ α) (hc : calmRun E w ops = true) :
    (run E w ops).theDraws = w.theDraws := by
  induction ops generalizing w with
  | nil => rfl
  | cons op rest ih =>
    simp only [calmRun, Bool.and_eq_true, Bool.or_eq_true] at hc
    simp only [run]
    rw [ih _ hc.2]
    rcases hc.1 with hq | hr
    · exact step_quiet_theDraws E w op hq
    · exact (step_refused E w op hr).1

/-! ### two concrete sorted lists used by the examples of Props/C10.lean -/

theorem sortNames_zeta_alpha : sortNames ["zeta", "alpha"] = ["alpha", "zeta"] := by
  unfold sortNames
  rw [show (["zeta", "alpha"] : List String).eraseDups = ["zeta", "alpha"] from by decide]
  simp [List.mergeSort]

theorem sortNames_b2_b10 : sortNames ["b2", "b10"] = ["b10", "b2"] := by
  unfold sortNames
  rw [show (["b2", "b10"] : List String).eraseDups = ["b2", "b10"] from by decide]
  simp [List.mergeSort]

end McSession
