/- Structural facts about the forecasting algorithm (any number type): the outside good is always
in the identified set; relabelling the alternatives commutes with the whole forecast. -/
import Model.Mdcev
import Mathlib.Data.List.Basic

open Num
namespace Mdcev

variable {α : Type} [NumOps α]

/-! ### the outside good is always chosen -/

theorem identLoop_prefix (v : Variant) (scale : Option α) (budget : α)
    (ws : List (α × Alt α)) (chosen : List (Alt α)) (last : Option α) :
    chosen <+: (identLoop v scale budget ws chosen last).chosen := by
  induction ws generalizing chosen last with
  | nil => simp [identLoop]
  | cons wc rest ih =>
    obtain ⟨w, c⟩ := wc
    simp only [identLoop]
    by_cases h1 : belowLb (lowerBound v scale chosen) w = true
    · simp only [h1, if_true]; exact List.prefix_refl _
    · simp only [h1]
      by_cases h2 : Num.le budget (totalAt v scale (chosen ++ [c]) w) = true
      · simp only [h2, if_true]; exact List.prefix_refl _
      · simp only [h2]
        exact (List.prefix_append chosen [c]).trans (ih (chosen ++ [c]) (some w))

theorem outside_in_identified (v : Variant) (scale : Option α) (budget : α) (alts : List (Alt α))
    (a : Alt α) (ha : a ∈ alts) (hout : isOutside a = true) :
    a ∈ (identifyChosen v scale budget alts).chosen := by
  unfold identifyChosen
  apply (identLoop_prefix v scale budget _ _ _).subset
  exact List.mem_filter.mpr ⟨ha, hout⟩

/-! ### relabelling -/

def relabelAlt (π : Int → Int) (a : Alt α) : Alt α := { a with label := π a.label }

@[simp] theorem U_relabel (π : Int → Int) (v : Variant) (scale : Option α) (a : Alt α) (x : α) :
    U v scale (relabelAlt π a) x = U v scale a x := rfl
@[simp] theorem dU_relabel (π : Int → Int) (v : Variant) (scale : Option α) (a : Alt α) (x : α) :
    dU v scale (relabelAlt π a) x = dU v scale a x := rfl
@[simp] theorem inv_relabel (π : Int → Int) (v : Variant) (scale : Option α) (a : Alt α) (l : α) :
    inv v scale (relabelAlt π a) l = inv v scale a l := rfl
@[simp] theorem isOutside_relabel (π : Int → Int) (a : Alt α) :
    isOutside (relabelAlt π a) = isOutside a := rfl
@[simp] theorem scaledEps_relabel (π : Int → Int) (scale : Option α) (a : Alt α) :
    scaledEps scale (relabelAlt π a) = scaledEps scale a := rfl

theorem lowerBound_relabel (π : Int → Int) (v : Variant) (scale : Option α) (chosen : List (Alt α)) :
    lowerBound v scale (chosen.map (relabelAlt π)) = lowerBound v scale chosen := by
  cases v <;> simp only [lowerBound]
  rw [List.foldl_map]
  rfl

theorem totalAt_relabel (π : Int → Int) (v : Variant) (scale : Option α) (chosen : List (Alt α)) (l : α) :
    totalAt v scale (chosen.map (relabelAlt π)) l = totalAt v scale chosen l := by
  unfold totalAt
  rw [List.map_map]
  rfl

def relabelW (π : Int → Int) (wa : α × Alt α) : α × Alt α := (wa.1, relabelAlt π wa.2)

theorem insertDesc_relabel (π : Int → Int) (w : α) (a : Alt α) (l : List (α × Alt α)) :
    insertDesc w (relabelAlt π a) (l.map (relabelW π)) = (insertDesc w a l).map (relabelW π) := by
  induction l with
  | nil => rfl
  | cons h t ih =>
    obtain ⟨w', a'⟩ := h
    simp only [List.map_cons, relabelW, insertDesc]
    split
    · rfl
    · simp only [List.map_cons, relabelW]
      rw [← ih]

theorem sortDesc_relabel (π : Int → Int) (l : List (α × Alt α)) :
    sortDesc (l.map (relabelW π)) = (sortDesc l).map (relabelW π) := by
  unfold sortDesc
  have : ∀ (acc : List (α × Alt α)),
      List.foldl (fun acc wa => insertDesc wa.1 wa.2 acc) (acc.map (relabelW π)) (l.map (relabelW π))
        = (List.foldl (fun acc wa => insertDesc wa.1 wa.2 acc) acc l).map (relabelW π) := by
    induction l with
    | nil => intro acc; rfl
    | cons h t ih =>
      intro acc
      simp only [List.map_cons, List.foldl_cons]
      have := insertDesc_relabel π h.1 h.2 acc
      simp only [relabelW] at this ⊢
      rw [this]
      exact ih _
  simpa using this []

def relabelIdent (π : Int → Int) (i : Ident α) : Ident α := ⟨i.chosen.map (relabelAlt π), i.lo, i.hi⟩

theorem identLoop_relabel (π : Int → Int) (v : Variant) (scale : Option α) (budget : α)
    (ws : List (α × Alt α)) (chosen : List (Alt α)) (last : Option α) :
    identLoop v scale budget (ws.map (relabelW π)) (chosen.map (relabelAlt π)) last
      = relabelIdent π (identLoop v scale budget ws chosen last) := by
  induction ws generalizing chosen last with
  | nil =>
    simp only [List.map_nil, identLoop, lowerBound_relabel, relabelIdent]
  | cons wc rest ih =>
    obtain ⟨w, c⟩ := wc
    simp only [List.map_cons, relabelW, identLoop, lowerBound_relabel]
    have hext : chosen.map (relabelAlt π) ++ [relabelAlt π c] = (chosen ++ [c]).map (relabelAlt π) := by
      simp
    rw [hext, totalAt_relabel]
    cases h1 : belowLb (lowerBound v scale chosen) w
    · simp only [Bool.false_eq_true, ↓reduceIte]
      cases h2 : Num.le budget (totalAt v scale (chosen ++ [c]) w)
      · simp only [Bool.false_eq_true, ↓reduceIte]
        exact ih (chosen ++ [c]) (some w)
      · simp only [↓reduceIte, relabelIdent]
    · simp only [↓reduceIte, relabelIdent]

theorem identifyChosen_relabel (π : Int → Int) (v : Variant) (scale : Option α) (budget : α)
    (alts : List (Alt α)) :
    identifyChosen v scale budget (alts.map (relabelAlt π))
      = relabelIdent π (identifyChosen v scale budget alts) := by
  unfold identifyChosen
  have h1 : (alts.map (relabelAlt π)).filter (fun a => !isOutside a)
      = (alts.filter fun a => !isOutside a).map (relabelAlt π) := by
    rw [List.filter_map]; rfl
  have h2 : (alts.map (relabelAlt π)).filter isOutside = (alts.filter isOutside).map (relabelAlt π) := by
    rw [List.filter_map]; rfl
  simp only [h1, h2, List.map_map]
  have h3 : ((fun a => (dU v scale a 0, a)) ∘ relabelAlt π)
      = (relabelW π ∘ fun a => (dU v scale a 0, a)) := by
    funext a; rfl
  rw [h3, ← List.map_map, sortDesc_relabel]
  exact identLoop_relabel π v scale budget _ _ none

def relabelFc (π : Int → Int) (f : Forecast α) : Forecast α :=
  ⟨f.chosen.map π, f.lam, f.x.map fun p => (π p.1, p.2)⟩

theorem isChosenIn_relabel (π : Int → Int) (hπ : Function.Injective π) (chosen : List (Alt α)) (a : Alt α) :
    isChosenIn (chosen.map (relabelAlt π)) (relabelAlt π a) = isChosenIn chosen a := by
  unfold isChosenIn
  rw [List.any_map]
  congr 1
  funext c
  simp only [Function.comp, relabelAlt]
  by_cases h : c.label = a.label
  · simp [h]
  · have : π c.label ≠ π a.label := fun hh => h (hπ hh)
    simp [h, this]

theorem anyNegAt_relabel (π : Int → Int) (v : Variant) (scale : Option α) (chosen : List (Alt α)) :
    anyNegAt v scale (chosen.map (relabelAlt π)) = anyNegAt v scale chosen := by
  funext lam
  unfold anyNegAt
  rw [List.any_map]
  rfl

theorem finish_relabel (π : Int → Int) (hπ : Function.Injective π) (v : Variant) (scale : Option α)
    (alts chosen : List (Alt α)) (st : BisState α) :
    finish v scale (alts.map (relabelAlt π)) (chosen.map (relabelAlt π)) st
      = (finish v scale alts chosen st).map (relabelFc π) := by
  unfold finish
  cases h2 : st.negative
  · simp only [Bool.false_eq_true, ↓reduceIte, Except.map, relabelFc, List.map_map]
    congr 1
    congr 1
    apply List.map_congr_left
    intro a _
    simp only [Function.comp]
    rw [isChosenIn_relabel π hπ]
    rfl
  · simp only [↓reduceIte]; rfl

theorem forecast_relabel (π : Int → Int) (hπ : Function.Injective π) (v : Variant) (scale : Option α)
    (budget tolD tolB : α) (alts : List (Alt α)) :
    forecast v scale budget tolD tolB (alts.map (relabelAlt π))
      = (forecast v scale budget tolD tolB alts).map (relabelFc π) := by
  unfold forecast
  rw [identifyChosen_relabel]
  have hg : totalAt v scale ((identifyChosen v scale budget alts).chosen.map (relabelAlt π))
      = totalAt v scale (identifyChosen v scale budget alts).chosen := by
    funext l; exact totalAt_relabel π v scale _ l
  simp only [relabelIdent, hg, anyNegAt_relabel]
  cases h1 : Num.lt (identifyChosen v scale budget alts).hi (identifyChosen v scale budget alts).lo
  · simp only [Bool.false_eq_true, ↓reduceIte]
    exact finish_relabel π hπ v scale alts _ _
  · simp only [↓reduceIte]; rfl

/-! ### shape of a successful forecast -/

theorem finish_ok_shape (v : Variant) (scale : Option α) (alts chosen : List (Alt α)) (st : BisState α)
    (f : Forecast α) (h : finish v scale alts chosen st = .ok f) :
    f.chosen = chosen.map (·.label) ∧
    f.x = alts.map fun a => (a.label, if isChosenIn chosen a then inv v scale a f.lam else 0) := by
  unfold finish at h
  split at h
  · cases h
  · injection h with h
    subst h
    exact ⟨rfl, rfl⟩

/-- the goods outside the identified choice set get 0, the others the closed form at the returned
multiplier -/
theorem forecast_ok_shape (v : Variant) (scale : Option α) (budget tolD tolB : α)
    (alts : List (Alt α)) (f : Forecast α) (h : forecast v scale budget tolD tolB alts = .ok f) :
    f.chosen = (identifyChosen v scale budget alts).chosen.map (·.label) ∧
    f.x = alts.map fun a => (a.label,
      if isChosenIn (identifyChosen v scale budget alts).chosen a then inv v scale a f.lam else 0) := by
  unfold forecast at h
  simp only at h
  split at h
  · cases h
  · exact finish_ok_shape v scale alts _ _ f h

end Mdcev
