/- Calculus of the four MDCEV utilities over ℝ: the derivative function is the derivative, the
closed-form consumption inverts it, marginal utility is decreasing (hence concavity), optimal
consumption is decreasing in the multiplier.  Helper lemmas for Props/C18.lean. -/
import Model.Mdcev
import Proofs.NumReal
import Mathlib.Analysis.SpecialFunctions.Pow.Deriv
import Mathlib.Analysis.SpecialFunctions.Log.Deriv
import Mathlib.Analysis.Convex.Deriv

open NumR
namespace Mdcev

/-! ### the model's functions as ordinary real expressions -/

section forms
variable (scale : Option ℝ) (a : Alt ℝ)

/-- `exp(ψ + ε/σ)` -/
noncomputable def E : ℝ := Real.exp (a.psi + scaledEps scale a)

theorem E_pos : 0 < E scale a := Real.exp_pos _

theorem U_tr_in (g x : ℝ) (hg : a.gamma = some g) :
    U .translated scale a x = Real.exp (a.psi + scaledEps scale a + a.alpha * Real.log (x + g)) := by
  simp [U, hg]
theorem dU_tr_in (g x : ℝ) (hg : a.gamma = some g) :
    dU .translated scale a x =
      Real.exp (a.psi + scaledEps scale a + Real.log a.alpha + (a.alpha - 1) * Real.log (x + g)) := by
  simp [dU, hg]
theorem U_tr_out (x : ℝ) (hg : a.gamma = none) (hx : x ≠ 0) :
    U .translated scale a x = Real.exp (a.psi + scaledEps scale a + a.alpha * Real.log x) := by
  simp [U, hg, hx]
theorem dU_tr_out (x : ℝ) (hg : a.gamma = none) (hx : x ≠ 0) :
    dU .translated scale a x =
      Real.exp (a.psi + scaledEps scale a + Real.log a.alpha + (a.alpha - 1) * Real.log x) := by
  simp [dU, hg, hx]

theorem U_gp_in (g x : ℝ) (hg : a.gamma = some g) :
    U .gammaProfile scale a x = E scale a * g * Real.log (1 + x / (a.price * g)) := by
  simp [U, hg, E]
theorem dU_gp_in (g x : ℝ) (hg : a.gamma = some g) :
    dU .gammaProfile scale a x = E scale a * g / (x + a.price * g) := by
  simp [dU, hg, E]
theorem U_gp_out (x : ℝ) (hg : a.gamma = none) :
    U .gammaProfile scale a x = E scale a * Real.log (x / a.price) := by
  simp [U, hg, E]
theorem dU_gp_out (x : ℝ) (hg : a.gamma = none) (hx : x ≠ 0) :
    dU .gammaProfile scale a x = E scale a / x := by
  simp [dU, hg, E, hx]

theorem U_ge_in (g x : ℝ) (hg : a.gamma = some g) :
    U .generalized scale a x =
      E scale a * g * ((1 + x / (a.price * g)) ^ a.alpha - 1) / a.alpha := by
  simp [U, hg, E]
theorem dU_ge_in (g x : ℝ) (hg : a.gamma = some g) :
    dU .generalized scale a x = E scale a * (1 + x / (a.price * g)) ^ (a.alpha - 1) / a.price := by
  simp [dU, hg, E]
theorem U_ge_out (x : ℝ) (hg : a.gamma = none) :
    U .generalized scale a x = E scale a * (x / a.price) ^ a.alpha / a.alpha := by
  simp [U, hg, E]
theorem dU_ge_out (x : ℝ) (hg : a.gamma = none) :
    dU .generalized scale a x = E scale a * (x / a.price) ^ (a.alpha - 1) / a.price := by
  simp [dU, hg, E]

theorem U_nm_in (g x : ℝ) (hg : a.gamma = some g) :
    U .nonMonotonic scale a x =
      g * Real.exp a.psi * ((1 + x / g) ^ a.alpha - 1) / a.alpha + (a.mu + scaledEps scale a) * x := by
  simp [U, hg]
theorem dU_nm_in (g x : ℝ) (hg : a.gamma = some g) :
    dU .nonMonotonic scale a x =
      Real.exp a.psi * (1 + x / g) ^ (a.alpha - 1) + a.mu + scaledEps scale a := by
  simp [dU, hg]
theorem U_nm_out (x : ℝ) (hg : a.gamma = none) :
    U .nonMonotonic scale a x =
      Real.exp a.psi * x ^ a.alpha / a.alpha + (a.mu + scaledEps scale a) * x := by
  simp [U, hg]
theorem dU_nm_out (x : ℝ) (hg : a.gamma = none) :
    dU .nonMonotonic scale a x = Real.exp a.psi * x ^ (a.alpha - 1) + a.mu + scaledEps scale a := by
  simp [dU, hg]

end forms

/-! ### generic derivative facts -/

theorem hasDerivAt_exp_log (c α k x : ℝ) (hx : 0 < x + k) (hα : 0 < α) :
    HasDerivAt (fun t => Real.exp (c + α * Real.log (t + k)))
      (Real.exp (c + Real.log α + (α - 1) * Real.log (x + k))) x := by
  have h1 : HasDerivAt (fun t : ℝ => t + k) 1 x := (hasDerivAt_id x).add_const k
  have h2 : HasDerivAt (fun t : ℝ => Real.log (t + k)) (1 / (x + k)) x := by
    have := h1.log (ne_of_gt hx)
    simpa using this
  have h3 := ((h2.const_mul α).const_add c).exp
  convert h3 using 1
  have e1 : c + Real.log α + (α - 1) * Real.log (x + k)
      = (c + α * Real.log (x + k)) + Real.log α + (-Real.log (x + k)) := by ring
  rw [e1, Real.exp_add, Real.exp_add, Real.exp_log hα, Real.exp_neg, Real.exp_log hx]
  ring

/-- `t ↦ (1 + t/k)^α` -/
theorem hasDerivAt_one_add_div_rpow (k α x : ℝ) (hk : k ≠ 0) (hb : 0 < 1 + x / k) :
    HasDerivAt (fun t => (1 + t / k) ^ α) (α * (1 + x / k) ^ (α - 1) / k) x := by
  have h1 : HasDerivAt (fun t : ℝ => 1 + t / k) (1 / k) x := by
    have := ((hasDerivAt_id x).div_const k).const_add 1
    simpa using this
  have h2 := h1.rpow_const (p := α) (Or.inl (ne_of_gt hb))
  refine h2.congr_deriv ?_
  field_simp

theorem hasDerivAt_log_one_add_div (k x : ℝ) (hk : k ≠ 0) (hb : 0 < 1 + x / k) :
    HasDerivAt (fun t => Real.log (1 + t / k)) (1 / (x + k)) x := by
  have h1 : HasDerivAt (fun t : ℝ => 1 + t / k) (1 / k) x := by
    have := ((hasDerivAt_id x).div_const k).const_add 1
    simpa using this
  have h2 := h1.log (ne_of_gt hb)
  refine h2.congr_deriv ?_
  have hb' : 1 + x / k ≠ 0 := ne_of_gt hb
  have hxk : x + k ≠ 0 := by
    intro h
    apply hb'
    have : x = -k := by linarith
    rw [this]; field_simp; ring
  have hdiv : 1 + x / k = (x + k) / k := by field_simp; ring
  rw [hdiv]
  field_simp

/-! ### the derivative function is the derivative -/

section deriv
variable (scale : Option ℝ) (a : Alt ℝ)

theorem deriv_tr_in (g x : ℝ) (hg : a.gamma = some g) (hx : 0 < x + g) (hα : 0 < a.alpha) :
    HasDerivAt (fun t => U .translated scale a t) (dU .translated scale a x) x := by
  have hfun : (fun t => U .translated scale a t) =
      fun t => Real.exp (a.psi + scaledEps scale a + a.alpha * Real.log (t + g)) := by
    funext t; exact U_tr_in scale a g t hg
  rw [hfun, dU_tr_in scale a g x hg]
  exact hasDerivAt_exp_log _ _ g x hx hα

theorem deriv_tr_out (x : ℝ) (hg : a.gamma = none) (hx : 0 < x) (hα : 0 < a.alpha) :
    HasDerivAt (fun t => U .translated scale a t) (dU .translated scale a x) x := by
  rw [dU_tr_out scale a x hg (ne_of_gt hx)]
  have h := hasDerivAt_exp_log (a.psi + scaledEps scale a) a.alpha 0 x (by simpa using hx) hα
  simp only [add_zero] at h
  refine h.congr_of_eventuallyEq ?_
  have : ∀ᶠ t in nhds x, 0 < t := lt_mem_nhds hx
  filter_upwards [this] with t ht
  exact U_tr_out scale a t hg (ne_of_gt ht)

theorem deriv_gp_in (g x : ℝ) (hg : a.gamma = some g) (hgp : 0 < g) (hp : 0 < a.price)
    (hx : 0 < x + a.price * g) :
    HasDerivAt (fun t => U .gammaProfile scale a t) (dU .gammaProfile scale a x) x := by
  have hfun : (fun t => U .gammaProfile scale a t) =
      fun t => E scale a * g * Real.log (1 + t / (a.price * g)) := by
    funext t; exact U_gp_in scale a g t hg
  rw [hfun, dU_gp_in scale a g x hg]
  have hk : a.price * g ≠ 0 := ne_of_gt (mul_pos hp hgp)
  have hb : 0 < 1 + x / (a.price * g) := by
    have : 1 + x / (a.price * g) = (x + a.price * g) / (a.price * g) := by field_simp; ring
    rw [this]; exact div_pos hx (mul_pos hp hgp)
  have h := (hasDerivAt_log_one_add_div (a.price * g) x hk hb).const_mul (E scale a * g)
  refine h.congr_deriv ?_
  ring

theorem deriv_gp_out (x : ℝ) (hg : a.gamma = none) (hp : 0 < a.price) (hx : 0 < x) :
    HasDerivAt (fun t => U .gammaProfile scale a t) (dU .gammaProfile scale a x) x := by
  have hfun : (fun t => U .gammaProfile scale a t) = fun t => E scale a * Real.log (t / a.price) := by
    funext t; exact U_gp_out scale a t hg
  rw [hfun, dU_gp_out scale a x hg (ne_of_gt hx)]
  have h1 : HasDerivAt (fun t : ℝ => t / a.price) (1 / a.price) x := by
    simpa using (hasDerivAt_id x).div_const a.price
  have h2 := (h1.log (ne_of_gt (div_pos hx hp))).const_mul (E scale a)
  refine h2.congr_deriv ?_
  have : x ≠ 0 := ne_of_gt hx
  have : a.price ≠ 0 := ne_of_gt hp
  field_simp

theorem deriv_ge_in (g x : ℝ) (hg : a.gamma = some g) (hgp : 0 < g) (hp : 0 < a.price)
    (hα : a.alpha ≠ 0) (hx : 0 < x + a.price * g) :
    HasDerivAt (fun t => U .generalized scale a t) (dU .generalized scale a x) x := by
  have hfun : (fun t => U .generalized scale a t) =
      fun t => E scale a * g * ((1 + t / (a.price * g)) ^ a.alpha - 1) / a.alpha := by
    funext t; exact U_ge_in scale a g t hg
  rw [hfun, dU_ge_in scale a g x hg]
  have hk : a.price * g ≠ 0 := ne_of_gt (mul_pos hp hgp)
  have hb : 0 < 1 + x / (a.price * g) := by
    have : 1 + x / (a.price * g) = (x + a.price * g) / (a.price * g) := by field_simp; ring
    rw [this]; exact div_pos hx (mul_pos hp hgp)
  have h := (((hasDerivAt_one_add_div_rpow (a.price * g) a.alpha x hk hb).sub_const 1).const_mul
    (E scale a * g)).div_const a.alpha
  refine h.congr_deriv ?_
  have : g ≠ 0 := ne_of_gt hgp
  have : a.price ≠ 0 := ne_of_gt hp
  field_simp

theorem deriv_ge_out (x : ℝ) (hg : a.gamma = none) (hp : 0 < a.price) (hα : a.alpha ≠ 0)
    (hx : 0 < x) :
    HasDerivAt (fun t => U .generalized scale a t) (dU .generalized scale a x) x := by
  have hfun : (fun t => U .generalized scale a t) =
      fun t => E scale a * (t / a.price) ^ a.alpha / a.alpha := by
    funext t; exact U_ge_out scale a t hg
  rw [hfun, dU_ge_out scale a x hg]
  have h1 : HasDerivAt (fun t : ℝ => t / a.price) (1 / a.price) x := by
    simpa using (hasDerivAt_id x).div_const a.price
  have h2 := ((h1.rpow_const (p := a.alpha) (Or.inl (ne_of_gt (div_pos hx hp)))).const_mul
    (E scale a)).div_const a.alpha
  refine h2.congr_deriv ?_
  have : a.price ≠ 0 := ne_of_gt hp
  field_simp

theorem deriv_nm_in (g x : ℝ) (hg : a.gamma = some g) (hgp : 0 < g) (hα : a.alpha ≠ 0)
    (hx : 0 < x + g) :
    HasDerivAt (fun t => U .nonMonotonic scale a t) (dU .nonMonotonic scale a x) x := by
  have hfun : (fun t => U .nonMonotonic scale a t) =
      fun t => g * Real.exp a.psi * ((1 + t / g) ^ a.alpha - 1) / a.alpha
        + (a.mu + scaledEps scale a) * t := by
    funext t; exact U_nm_in scale a g t hg
  rw [hfun, dU_nm_in scale a g x hg]
  have hk : g ≠ 0 := ne_of_gt hgp
  have hb : 0 < 1 + x / g := by
    have : 1 + x / g = (x + g) / g := by field_simp; ring
    rw [this]; exact div_pos hx hgp
  have h := ((((hasDerivAt_one_add_div_rpow g a.alpha x hk hb).sub_const 1).const_mul
    (g * Real.exp a.psi)).div_const a.alpha).add
      ((hasDerivAt_id x).const_mul (a.mu + scaledEps scale a))
  refine h.congr_deriv ?_
  field_simp
  ring

theorem deriv_nm_out (x : ℝ) (hg : a.gamma = none) (hα : a.alpha ≠ 0) (hx : 0 < x) :
    HasDerivAt (fun t => U .nonMonotonic scale a t) (dU .nonMonotonic scale a x) x := by
  have hfun : (fun t => U .nonMonotonic scale a t) =
      fun t => Real.exp a.psi * t ^ a.alpha / a.alpha + (a.mu + scaledEps scale a) * t := by
    funext t; exact U_nm_out scale a t hg
  rw [hfun, dU_nm_out scale a x hg]
  have h1 : HasDerivAt (fun t : ℝ => t ^ a.alpha) (a.alpha * x ^ (a.alpha - 1)) x :=
    Real.hasDerivAt_rpow_const (Or.inl (ne_of_gt hx))
  have h := ((h1.const_mul (Real.exp a.psi)).div_const a.alpha).add
    ((hasDerivAt_id x).const_mul (a.mu + scaledEps scale a))
  refine h.congr_deriv ?_
  field_simp
  ring

end deriv

end Mdcev
