/- MDCEV over ℝ, second part: the closed-form consumption inverts the derivative; marginal
utility is decreasing; utilities are concave; consumption is decreasing in the multiplier. -/
import Proofs.MdcevCalc

open NumR
namespace Mdcev

/-! ### real forms of `inv` -/

section invforms
variable (scale : Option ℝ) (a : Alt ℝ)

/-- the exponent used by the translated inverse -/
noncomputable def trL (lam : ℝ) : ℝ :=
  (Real.log lam - a.psi - scaledEps scale a - Real.log a.alpha) / (a.alpha - 1)

theorem inv_tr_in (g lam : ℝ) (hg : a.gamma = some g) (hl : lam ≠ 0) :
    inv .translated scale a lam = Real.exp (min (trL scale a lam) maxExpArgument) - g := by
  simp [inv, hg, hl, min_real, trL]
theorem inv_tr_out (lam : ℝ) (hg : a.gamma = none) (hl : lam ≠ 0) :
    inv .translated scale a lam = Real.exp (min (trL scale a lam) maxExpArgument) := by
  simp [inv, hg, hl, min_real, trL]
theorem inv_gp_in (g lam : ℝ) (hg : a.gamma = some g) :
    inv .gammaProfile scale a lam = E scale a * g / lam - a.price * g := by
  simp [inv, hg, E]
theorem inv_gp_out (lam : ℝ) (hg : a.gamma = none) :
    inv .gammaProfile scale a lam = E scale a / lam := by
  simp [inv, hg, E]
theorem inv_ge_in (g lam : ℝ) (hg : a.gamma = some g) :
    inv .generalized scale a lam =
      a.price * g * ((a.price * lam / E scale a) ^ (1 / (a.alpha - 1)) - 1) := by
  simp [inv, hg, E]
theorem inv_ge_out (lam : ℝ) (hg : a.gamma = none) :
    inv .generalized scale a lam = a.price * (a.price * lam / E scale a) ^ (1 / (a.alpha - 1)) := by
  simp [inv, hg, E]
theorem inv_nm_in (g lam : ℝ) (hg : a.gamma = some g) :
    inv .nonMonotonic scale a lam =
      g * (((lam - a.mu - scaledEps scale a) * Real.exp (-a.psi)) ^ (1 / (a.alpha - 1)) - 1) := by
  simp [inv, hg]
theorem inv_nm_out (lam : ℝ) (hg : a.gamma = none) :
    inv .nonMonotonic scale a lam =
      ((lam - a.mu - scaledEps scale a) * Real.exp (-a.psi)) ^ (1 / (a.alpha - 1)) := by
  simp [inv, hg]

end invforms

/-! ### the closed form inverts the derivative -/

theorem rpow_inv_exponent (r α : ℝ) (hr : 0 < r) (hα : α ≠ 1) :
    (r ^ (1 / (α - 1))) ^ (α - 1) = r := by
  rw [← Real.rpow_mul (le_of_lt hr)]
  have : 1 / (α - 1) * (α - 1) = 1 := by
    have : α - 1 ≠ 0 := sub_ne_zero.mpr hα
    field_simp
  rw [this, Real.rpow_one]

section inverse
variable (scale : Option ℝ) (a : Alt ℝ)

theorem inverse_tr_in (g lam : ℝ) (hg : a.gamma = some g) (hl : 0 < lam) (hα : 0 < a.alpha)
    (hα1 : a.alpha ≠ 1) (hcap : trL scale a lam ≤ maxExpArgument) :
    dU .translated scale a (inv .translated scale a lam) = lam := by
  rw [inv_tr_in scale a g lam hg (ne_of_gt hl), dU_tr_in scale a g _ hg, min_eq_left hcap]
  have h1 : Real.exp (trL scale a lam) - g + g = Real.exp (trL scale a lam) := by ring
  rw [h1, Real.log_exp]
  have h2 : a.psi + scaledEps scale a + Real.log a.alpha + (a.alpha - 1) * trL scale a lam
      = Real.log lam := by
    unfold trL
    have : a.alpha - 1 ≠ 0 := sub_ne_zero.mpr hα1
    field_simp
    ring
  rw [h2, Real.exp_log hl]

theorem inverse_tr_out (lam : ℝ) (hg : a.gamma = none) (hl : 0 < lam) (hα : 0 < a.alpha)
    (hα1 : a.alpha ≠ 1) (hcap : trL scale a lam ≤ maxExpArgument) :
    dU .translated scale a (inv .translated scale a lam) = lam := by
  rw [inv_tr_out scale a lam hg (ne_of_gt hl), min_eq_left hcap,
    dU_tr_out scale a _ hg (ne_of_gt (Real.exp_pos _)), Real.log_exp]
  have h2 : a.psi + scaledEps scale a + Real.log a.alpha + (a.alpha - 1) * trL scale a lam
      = Real.log lam := by
    unfold trL
    have : a.alpha - 1 ≠ 0 := sub_ne_zero.mpr hα1
    field_simp
    ring
  rw [h2, Real.exp_log hl]

theorem inverse_gp_in (g lam : ℝ) (hg : a.gamma = some g) (hl : 0 < lam) (hgp : 0 < g) :
    dU .gammaProfile scale a (inv .gammaProfile scale a lam) = lam := by
  rw [inv_gp_in scale a g lam hg, dU_gp_in scale a g _ hg]
  have hE := E_pos scale a
  have : E scale a * g / lam - a.price * g + a.price * g = E scale a * g / lam := by ring
  rw [this]
  have h1 : E scale a * g ≠ 0 := ne_of_gt (mul_pos hE hgp)
  have h2 : lam ≠ 0 := ne_of_gt hl
  field_simp

theorem inverse_gp_out (lam : ℝ) (hg : a.gamma = none) (hl : 0 < lam) :
    dU .gammaProfile scale a (inv .gammaProfile scale a lam) = lam := by
  have hE := E_pos scale a
  have hne : E scale a / lam ≠ 0 := ne_of_gt (div_pos hE hl)
  rw [inv_gp_out scale a lam hg, dU_gp_out scale a _ hg hne]
  have h1 : E scale a ≠ 0 := ne_of_gt hE
  have h2 : lam ≠ 0 := ne_of_gt hl
  field_simp

theorem inverse_ge_in (g lam : ℝ) (hg : a.gamma = some g) (hl : 0 < lam) (hgp : 0 < g)
    (hp : 0 < a.price) (hα1 : a.alpha ≠ 1) :
    dU .generalized scale a (inv .generalized scale a lam) = lam := by
  have hE := E_pos scale a
  have hr : 0 < a.price * lam / E scale a := div_pos (mul_pos hp hl) hE
  rw [inv_ge_in scale a g lam hg, dU_ge_in scale a g _ hg]
  have hk : a.price * g ≠ 0 := ne_of_gt (mul_pos hp hgp)
  have h1 : 1 + a.price * g * ((a.price * lam / E scale a) ^ (1 / (a.alpha - 1)) - 1) / (a.price * g)
      = (a.price * lam / E scale a) ^ (1 / (a.alpha - 1)) := by
    field_simp; ring
  rw [h1, rpow_inv_exponent _ _ hr hα1]
  have h2 : E scale a ≠ 0 := ne_of_gt hE
  have h3 : a.price ≠ 0 := ne_of_gt hp
  field_simp

theorem inverse_ge_out (lam : ℝ) (hg : a.gamma = none) (hl : 0 < lam)
    (hp : 0 < a.price) (hα1 : a.alpha ≠ 1) :
    dU .generalized scale a (inv .generalized scale a lam) = lam := by
  have hE := E_pos scale a
  have hr : 0 < a.price * lam / E scale a := div_pos (mul_pos hp hl) hE
  rw [inv_ge_out scale a lam hg, dU_ge_out scale a _ hg]
  have h3 : a.price ≠ 0 := ne_of_gt hp
  have h1 : a.price * (a.price * lam / E scale a) ^ (1 / (a.alpha - 1)) / a.price
      = (a.price * lam / E scale a) ^ (1 / (a.alpha - 1)) := by
    field_simp
  rw [h1, rpow_inv_exponent _ _ hr hα1]
  have h2 : E scale a ≠ 0 := ne_of_gt hE
  field_simp

theorem inverse_nm_in (g lam : ℝ) (hg : a.gamma = some g) (hgp : 0 < g)
    (hl : a.mu + scaledEps scale a < lam) (hα1 : a.alpha ≠ 1) :
    dU .nonMonotonic scale a (inv .nonMonotonic scale a lam) = lam := by
  have hb : 0 < (lam - a.mu - scaledEps scale a) * Real.exp (-a.psi) :=
    mul_pos (by linarith) (Real.exp_pos _)
  rw [inv_nm_in scale a g lam hg, dU_nm_in scale a g _ hg]
  have hk : g ≠ 0 := ne_of_gt hgp
  have h1 : 1 + g * (((lam - a.mu - scaledEps scale a) * Real.exp (-a.psi)) ^ (1 / (a.alpha - 1)) - 1) / g
      = ((lam - a.mu - scaledEps scale a) * Real.exp (-a.psi)) ^ (1 / (a.alpha - 1)) := by
    field_simp; ring
  rw [h1, rpow_inv_exponent _ _ hb hα1]
  have : Real.exp a.psi * ((lam - a.mu - scaledEps scale a) * Real.exp (-a.psi))
      = lam - a.mu - scaledEps scale a := by
    rw [Real.exp_neg]
    have := (Real.exp_pos a.psi).ne'
    field_simp
  rw [this]; ring

theorem inverse_nm_out (lam : ℝ) (hg : a.gamma = none)
    (hl : a.mu + scaledEps scale a < lam) (hα1 : a.alpha ≠ 1) :
    dU .nonMonotonic scale a (inv .nonMonotonic scale a lam) = lam := by
  have hb : 0 < (lam - a.mu - scaledEps scale a) * Real.exp (-a.psi) :=
    mul_pos (by linarith) (Real.exp_pos _)
  rw [inv_nm_out scale a lam hg, dU_nm_out scale a _ hg, rpow_inv_exponent _ _ hb hα1]
  have : Real.exp a.psi * ((lam - a.mu - scaledEps scale a) * Real.exp (-a.psi))
      = lam - a.mu - scaledEps scale a := by
    rw [Real.exp_neg]
    have := (Real.exp_pos a.psi).ne'
    field_simp
  rw [this]; ring

end inverse

/-! ### marginal utility is decreasing -/

section anti
variable (scale : Option ℝ) (a : Alt ℝ)

theorem anti_tr_in (g x y : ℝ) (hg : a.gamma = some g) (hx : 0 < x + g) (hxy : x ≤ y)
    (hα : a.alpha ≤ 1) : dU .translated scale a y ≤ dU .translated scale a x := by
  rw [dU_tr_in scale a g x hg, dU_tr_in scale a g y hg]
  apply Real.exp_le_exp.mpr
  have hl : Real.log (x + g) ≤ Real.log (y + g) := Real.log_le_log hx (by linarith)
  have : (a.alpha - 1) * Real.log (y + g) ≤ (a.alpha - 1) * Real.log (x + g) :=
    mul_le_mul_of_nonpos_left hl (by linarith)
  linarith

theorem anti_tr_out (x y : ℝ) (hg : a.gamma = none) (hx : 0 < x) (hxy : x ≤ y)
    (hα : a.alpha ≤ 1) : dU .translated scale a y ≤ dU .translated scale a x := by
  have hy : 0 < y := lt_of_lt_of_le hx hxy
  rw [dU_tr_out scale a x hg (ne_of_gt hx), dU_tr_out scale a y hg (ne_of_gt hy)]
  apply Real.exp_le_exp.mpr
  have hl : Real.log x ≤ Real.log y := Real.log_le_log hx hxy
  have : (a.alpha - 1) * Real.log y ≤ (a.alpha - 1) * Real.log x :=
    mul_le_mul_of_nonpos_left hl (by linarith)
  linarith

theorem anti_gp_in (g x y : ℝ) (hg : a.gamma = some g) (hgp : 0 < g)
    (hx : 0 < x + a.price * g) (hxy : x ≤ y) :
    dU .gammaProfile scale a y ≤ dU .gammaProfile scale a x := by
  rw [dU_gp_in scale a g x hg, dU_gp_in scale a g y hg]
  exact div_le_div_of_nonneg_left (le_of_lt (mul_pos (E_pos scale a) hgp)) hx (by linarith)

theorem anti_gp_out (x y : ℝ) (hg : a.gamma = none) (hx : 0 < x) (hxy : x ≤ y) :
    dU .gammaProfile scale a y ≤ dU .gammaProfile scale a x := by
  have hy : 0 < y := lt_of_lt_of_le hx hxy
  rw [dU_gp_out scale a x hg (ne_of_gt hx), dU_gp_out scale a y hg (ne_of_gt hy)]
  exact div_le_div_of_nonneg_left (le_of_lt (E_pos scale a)) hx hxy

theorem anti_ge_in (g x y : ℝ) (hg : a.gamma = some g) (hgp : 0 < g) (hp : 0 < a.price)
    (hx : 0 < x + a.price * g) (hxy : x ≤ y) (hα : a.alpha ≤ 1) :
    dU .generalized scale a y ≤ dU .generalized scale a x := by
  rw [dU_ge_in scale a g x hg, dU_ge_in scale a g y hg]
  have hk : 0 < a.price * g := mul_pos hp hgp
  have hb : 0 < 1 + x / (a.price * g) := by
    have : 1 + x / (a.price * g) = (x + a.price * g) / (a.price * g) := by field_simp; ring
    rw [this]; exact div_pos hx hk
  have hbb : 1 + x / (a.price * g) ≤ 1 + y / (a.price * g) := by
    have := div_le_div_of_nonneg_right hxy (le_of_lt hk)
    linarith
  have hr := Real.rpow_le_rpow_of_nonpos hb hbb (by linarith : a.alpha - 1 ≤ 0)
  have hE := E_pos scale a
  apply div_le_div_of_nonneg_right _ (le_of_lt hp)
  exact mul_le_mul_of_nonneg_left hr (le_of_lt hE)

theorem anti_ge_out (x y : ℝ) (hg : a.gamma = none) (hp : 0 < a.price)
    (hx : 0 < x) (hxy : x ≤ y) (hα : a.alpha ≤ 1) :
    dU .generalized scale a y ≤ dU .generalized scale a x := by
  rw [dU_ge_out scale a x hg, dU_ge_out scale a y hg]
  have hr := Real.rpow_le_rpow_of_nonpos (div_pos hx hp)
    (div_le_div_of_nonneg_right hxy (le_of_lt hp)) (by linarith : a.alpha - 1 ≤ 0)
  apply div_le_div_of_nonneg_right _ (le_of_lt hp)
  exact mul_le_mul_of_nonneg_left hr (le_of_lt (E_pos scale a))

theorem anti_nm_in (g x y : ℝ) (hg : a.gamma = some g) (hgp : 0 < g)
    (hx : 0 < x + g) (hxy : x ≤ y) (hα : a.alpha ≤ 1) :
    dU .nonMonotonic scale a y ≤ dU .nonMonotonic scale a x := by
  rw [dU_nm_in scale a g x hg, dU_nm_in scale a g y hg]
  have hb : 0 < 1 + x / g := by
    have : 1 + x / g = (x + g) / g := by field_simp; ring
    rw [this]; exact div_pos hx hgp
  have hbb : 1 + x / g ≤ 1 + y / g := by
    have := div_le_div_of_nonneg_right hxy (le_of_lt hgp)
    linarith
  have hr := Real.rpow_le_rpow_of_nonpos hb hbb (by linarith : a.alpha - 1 ≤ 0)
  have := mul_le_mul_of_nonneg_left hr (le_of_lt (Real.exp_pos a.psi))
  linarith

theorem anti_nm_out (x y : ℝ) (hg : a.gamma = none)
    (hx : 0 < x) (hxy : x ≤ y) (hα : a.alpha ≤ 1) :
    dU .nonMonotonic scale a y ≤ dU .nonMonotonic scale a x := by
  rw [dU_nm_out scale a x hg, dU_nm_out scale a y hg]
  have hr := Real.rpow_le_rpow_of_nonpos hx hxy (by linarith : a.alpha - 1 ≤ 0)
  have := mul_le_mul_of_nonneg_left hr (le_of_lt (Real.exp_pos a.psi))
  linarith

end anti

/-! ### concavity -/

theorem concaveOn_of_hasDerivAt_antitone {S : Set ℝ} (hS : Convex ℝ S) {f f' : ℝ → ℝ}
    (hd : ∀ x ∈ S, HasDerivAt f (f' x) x)
    (ha : ∀ x ∈ S, ∀ y ∈ S, x ≤ y → f' y ≤ f' x) : ConcaveOn ℝ S f := by
  apply AntitoneOn.concaveOn_of_deriv hS
  · intro x hx
    exact (hd x hx).continuousAt.continuousWithinAt
  · intro x hx
    exact (hd x (interior_subset hx)).differentiableAt.differentiableWithinAt
  · intro x hx y hy hxy
    rw [(hd x (interior_subset hx)).deriv, (hd y (interior_subset hy)).deriv]
    exact ha x (interior_subset hx) y (interior_subset hy) hxy

/-- the documented parameter domain of an alternative -/
structure ParamOK (a : Alt ℝ) : Prop where
  alpha_pos : 0 < a.alpha
  alpha_lt : a.alpha < 1
  price_pos : 0 < a.price
  gamma_pos : ∀ g, a.gamma = some g → 0 < g

/-- where a consumption of the alternative is admissible: `[0, ∞)` for an ordinary good,
`(0, ∞)` for the outside good -/
def domain (a : Alt ℝ) : Set ℝ := if a.gamma.isSome then Set.Ici 0 else Set.Ioi 0

theorem domain_convex (a : Alt ℝ) : Convex ℝ (domain a) := by
  unfold domain; split
  · exact convex_Ici 0
  · exact convex_Ioi 0

theorem domain_in (a : Alt ℝ) (g : ℝ) (hg : a.gamma = some g) : domain a = Set.Ici 0 := by
  simp [domain, hg]
theorem domain_out (a : Alt ℝ) (hg : a.gamma = none) : domain a = Set.Ioi 0 := by
  simp [domain, hg]

/-- on its domain every variant has `dU` as derivative -/
theorem hasDerivAt_U (v : Variant) (scale : Option ℝ) (a : Alt ℝ) (hok : ParamOK a)
    (x : ℝ) (hx : x ∈ domain a) :
    HasDerivAt (fun t => U v scale a t) (dU v scale a x) x := by
  cases hgam : a.gamma with
  | none =>
    rw [domain_out a hgam] at hx
    have hx' : 0 < x := hx
    cases v with
    | translated => exact deriv_tr_out scale a x hgam hx' hok.alpha_pos
    | gammaProfile => exact deriv_gp_out scale a x hgam hok.price_pos hx'
    | generalized => exact deriv_ge_out scale a x hgam hok.price_pos (ne_of_gt hok.alpha_pos) hx'
    | nonMonotonic => exact deriv_nm_out scale a x hgam (ne_of_gt hok.alpha_pos) hx'
  | some g =>
    rw [domain_in a g hgam] at hx
    have hx' : 0 ≤ x := hx
    have hg := hok.gamma_pos g hgam
    have hp := hok.price_pos
    cases v with
    | translated => exact deriv_tr_in scale a g x hgam (by linarith) hok.alpha_pos
    | gammaProfile =>
      exact deriv_gp_in scale a g x hgam hg hp (by have := mul_pos hp hg; linarith)
    | generalized =>
      exact deriv_ge_in scale a g x hgam hg hp (ne_of_gt hok.alpha_pos)
        (by have := mul_pos hp hg; linarith)
    | nonMonotonic => exact deriv_nm_in scale a g x hgam hg (ne_of_gt hok.alpha_pos) (by linarith)

/-- marginal utility is decreasing on the domain -/
theorem dU_antitone (v : Variant) (scale : Option ℝ) (a : Alt ℝ) (hok : ParamOK a)
    (x y : ℝ) (hx : x ∈ domain a) (hxy : x ≤ y) : dU v scale a y ≤ dU v scale a x := by
  have hα : a.alpha ≤ 1 := le_of_lt hok.alpha_lt
  cases hgam : a.gamma with
  | none =>
    rw [domain_out a hgam] at hx
    have hx' : 0 < x := hx
    cases v with
    | translated => exact anti_tr_out scale a x y hgam hx' hxy hα
    | gammaProfile => exact anti_gp_out scale a x y hgam hx' hxy
    | generalized => exact anti_ge_out scale a x y hgam hok.price_pos hx' hxy hα
    | nonMonotonic => exact anti_nm_out scale a x y hgam hx' hxy hα
  | some g =>
    rw [domain_in a g hgam] at hx
    have hx' : 0 ≤ x := hx
    have hg := hok.gamma_pos g hgam
    have hp := hok.price_pos
    have hpg := mul_pos hp hg
    cases v with
    | translated => exact anti_tr_in scale a g x y hgam (by linarith) hxy hα
    | gammaProfile => exact anti_gp_in scale a g x y hgam hg (by linarith) hxy
    | generalized => exact anti_ge_in scale a g x y hgam hg hp (by linarith) hxy hα
    | nonMonotonic => exact anti_nm_in scale a g x y hgam hg (by linarith) hxy hα

theorem U_concave (v : Variant) (scale : Option ℝ) (a : Alt ℝ) (hok : ParamOK a) :
    ConcaveOn ℝ (domain a) (fun t => U v scale a t) :=
  concaveOn_of_hasDerivAt_antitone (domain_convex a)
    (fun x hx => hasDerivAt_U v scale a hok x hx)
    (fun x hx y _ hxy => dU_antitone v scale a hok x y hx hxy)

end Mdcev
