/- Round 3 helper lemmas for Props/C18.lean: the symbolic utility evaluates to the numeric utility;
an ordinary good enters the choice set with zero consumption at its own threshold, hence the
closed-form consumptions are non-negative below the threshold and the identified choice set is
never empty; the parameter update after estimation reaches every expression a forecast reads. -/
import Model.MdcevExt
import Proofs.MdcevKkt
import Proofs.MdcevAlgo
import Proofs.MdcevOrder

open NumR
namespace Mdcev

/-! ### symbolic utility = numeric utility -/

theorem symbolicU_eq (v : Variant) (scale : Option ℝ) (a : Alt ℝ) (x : ℝ)
    (hx : v = .translated → a.gamma = none → x ≠ 0) : symbolicU v scale a x = U v scale a x := by
  cases v <;> cases hg : a.gamma <;> cases scale <;>
    first
    | (have hx' := hx rfl hg
       simp [symbolicU, utilityExpr, epsExpr, evalF, envOf, U, scaledEps, hg, hx'])
    | simp [symbolicU, utilityExpr, epsExpr, evalF, envOf, U, scaledEps, hg]

/-! ### the threshold of an ordinary good -/

section threshold
variable (scale : Option ℝ) (a : Alt ℝ)

/-- marginal utility at zero of an ordinary good of the three monotonic variants is positive -/
theorem dU_zero_pos (v : Variant) (hv : v ≠ .nonMonotonic) (g : ℝ) (hg : a.gamma = some g)
    (hok : ParamOK a) : 0 < dU v scale a 0 := by
  have hE := E_pos scale a
  have hp := hok.price_pos
  have hgp := hok.gamma_pos g hg
  cases v with
  | translated => rw [dU_tr_in scale a g 0 hg]; exact Real.exp_pos _
  | gammaProfile =>
    rw [dU_gp_in scale a g 0 hg]
    have : 0 < 0 + a.price * g := by have := mul_pos hp hgp; linarith
    exact div_pos (mul_pos hE hgp) this
  | generalized =>
    rw [dU_ge_in scale a g 0 hg]
    simp only [zero_div, add_zero, Real.one_rpow, mul_one]
    exact div_pos hE hp
  | nonMonotonic => exact absurd rfl hv

/-- the closed form gives an ordinary good exactly zero at its own marginal utility at zero
(translated: below the overflow guard `MAX_EXP_ARGUMENT`) -/
theorem inv_at_threshold (v : Variant) (g : ℝ) (hg : a.gamma = some g) (hok : ParamOK a)
    (hcap : v = .translated → Real.log g ≤ maxExpArgument) : inv v scale a (dU v scale a 0) = 0 := by
  have hE := E_pos scale a
  have hp := hok.price_pos
  have hgp := hok.gamma_pos g hg
  have hα1 : a.alpha - 1 ≠ 0 := sub_ne_zero.mpr (ne_of_lt hok.alpha_lt)
  cases v with
  | translated =>
    have hw : dU .translated scale a 0 ≠ 0 := ne_of_gt (dU_zero_pos scale a .translated (by decide) g hg hok)
    rw [inv_tr_in scale a g _ hg hw]
    have htr : trL scale a (dU .translated scale a 0) = Real.log g := by
      unfold trL
      rw [dU_tr_in scale a g 0 hg, Real.log_exp, zero_add]
      field_simp
      ring
    rw [htr, min_eq_left (hcap rfl), Real.exp_log hgp]
    ring
  | gammaProfile =>
    rw [inv_gp_in scale a g _ hg, dU_gp_in scale a g 0 hg]
    have h1 : E scale a ≠ 0 := ne_of_gt hE
    have h2 : g ≠ 0 := ne_of_gt hgp
    have h3 : a.price ≠ 0 := ne_of_gt hp
    field_simp
    ring
  | generalized =>
    rw [inv_ge_in scale a g _ hg, dU_ge_in scale a g 0 hg]
    simp only [zero_div, add_zero, Real.one_rpow, mul_one]
    have h1 : E scale a ≠ 0 := ne_of_gt hE
    have h3 : a.price ≠ 0 := ne_of_gt hp
    have : a.price * (E scale a / a.price) / E scale a = 1 := by field_simp
    rw [this, Real.one_rpow]
    ring
  | nonMonotonic =>
    rw [inv_nm_in scale a g _ hg, dU_nm_in scale a g 0 hg]
    simp only [zero_div, add_zero, Real.one_rpow, mul_one]
    have : (Real.exp a.psi + a.mu + scaledEps scale a - a.mu - scaledEps scale a) * Real.exp (-a.psi) = 1 := by
      have : Real.exp a.psi + a.mu + scaledEps scale a - a.mu - scaledEps scale a = Real.exp a.psi := by ring
      rw [this, ← Real.exp_add]
      simp
    rw [this, Real.one_rpow]
    ring

/-- a multiplier not above the marginal utility at zero gives a non-negative consumption -/
theorem inv_nonneg_below_threshold (v : Variant) (g : ℝ) (hg : a.gamma = some g) (hok : ParamOK a)
    (hcap : v = .translated → Real.log g ≤ maxExpArgument) (lam : ℝ) (hl : lamOK scale a v lam)
    (hle : lam ≤ dU v scale a 0) : 0 ≤ inv v scale a lam := by
  have h := inv_antitone scale a v hok lam (dU v scale a 0) hl hle
  rw [inv_at_threshold scale a v g hg hok hcap] at h
  exact h

end threshold

/-! ### the identified choice set is not empty -/

theorem filter_not_outside_all (alts : List (Alt ℝ)) (hno : ∀ a ∈ alts, isOutside a = false) :
    (alts.filter fun a => !isOutside a) = alts := by
  apply List.filter_eq_self.mpr
  intro a ha
  simp [hno a ha]

theorem filter_outside_none (alts : List (Alt ℝ)) (hno : ∀ a ∈ alts, isOutside a = false) :
    alts.filter isOutside = [] := by
  apply List.filter_eq_nil_iff.mpr
  intro a ha
  simp [hno a ha]

theorem identified_nonempty (v : Variant) (scale : Option ℝ) (budget : ℝ) (alts : List (Alt ℝ))
    (hb : 0 < budget) (hne : alts ≠ []) (hno : ∀ a ∈ alts, isOutside a = false)
    (hok : ∀ a ∈ alts, ParamOK a)
    (hcap : v = .translated → ∀ a ∈ alts, ∀ g, a.gamma = some g → Real.log g ≤ maxExpArgument) :
    (identifyChosen v scale budget alts).chosen ≠ [] := by
  unfold identifyChosen
  simp only [filter_not_outside_all alts hno, filter_outside_none alts hno, ofNat_real_zero]
  have hperm := sortDesc_perm (alts.map fun a => (dU v scale a 0, a))
  generalize hws : sortDesc (alts.map fun a => (dU v scale a 0, a)) = ws at hperm ⊢
  cases ws with
  | nil =>
    have := hperm.length_eq
    simp at this
    exact absurd (List.eq_nil_of_length_eq_zero this.symm) hne
  | cons wc rest =>
    obtain ⟨w, c⟩ := wc
    have hmem : (w, c) ∈ alts.map fun a => (dU v scale a 0, a) :=
      hperm.subset (List.mem_cons_self)
    obtain ⟨a, ha, hwa⟩ := List.mem_map.mp hmem
    obtain ⟨hwa1, hwa2⟩ := Prod.mk.inj hwa
    have hw : w = dU v scale c 0 := by rw [← hwa1, ← hwa2]
    have hc : c ∈ alts := by rw [← hwa2]; exact ha
    have hcout := hno c hc
    obtain ⟨g, hg⟩ : ∃ g, c.gamma = some g := by
      cases hgc : c.gamma with
      | none => simp [isOutside, hgc] at hcout
      | some g => exact ⟨g, rfl⟩
    have hcok := hok c hc
    -- the lower bound does not reject the first candidate
    have h1 : belowLb (lowerBound v scale ([] : List (Alt ℝ))) w = false := by
      cases v with
      | nonMonotonic => simp [lowerBound, belowLb]
      | translated =>
        have := dU_zero_pos scale c .translated (by decide) g hg hcok
        simp [lowerBound, belowLb, hw]; linarith
      | gammaProfile =>
        have := dU_zero_pos scale c .gammaProfile (by decide) g hg hcok
        simp [lowerBound, belowLb, hw]; linarith
      | generalized =>
        have := dU_zero_pos scale c .generalized (by decide) g hg hcok
        simp [lowerBound, belowLb, hw]; linarith
    -- nor does the budget test: its consumption at its own threshold is zero
    have h2 : Num.le budget (totalAt v scale ([] ++ [c]) w) = false := by
      rw [totalAt_real, hw]
      have hz := inv_at_threshold scale c v g hg hcok (fun hv => hcap hv c hc g hg)
      simp [hz, hb]
    simp only [identLoop, h1, h2]
    intro hnil
    have hpre := identLoop_prefix v scale budget rest ([] ++ [c]) (some w)
    simp only [Bool.false_eq_true, if_false] at hnil
    rw [hnil] at hpre
    simp at hpre


/-! ### the model-specific lower bound is sound -/

/-- the step of the loop of `NonMonotonic.lower_bound_dual_variable` -/
noncomputable def nmStep (scale : Option ℝ) (lb : Option ℝ) (a : Alt ℝ) : Option ℝ :=
  let m := a.mu + scaledEps scale a
  match lb with
  | none => some m
  | some l => if Num.lt l m then some m else some l

theorem lowerBound_nm (scale : Option ℝ) (chosen : List (Alt ℝ)) :
    lowerBound .nonMonotonic scale chosen = chosen.foldl (nmStep scale) none := by
  simp only [lowerBound]
  congr 1
  funext lb a
  cases lb <;> simp [nmStep]

theorem nm_fold_bound (scale : Option ℝ) (chosen : List (Alt ℝ)) (acc : Option ℝ) (l : ℝ)
    (h : chosen.foldl (nmStep scale) acc = some l) :
    (∀ a ∈ chosen, a.mu + scaledEps scale a ≤ l) ∧ (∀ l0, acc = some l0 → l0 ≤ l) := by
  induction chosen generalizing acc with
  | nil =>
    simp only [List.foldl_nil] at h
    exact ⟨by simp, fun l0 h0 => by rw [h] at h0; exact le_of_eq (Option.some.inj h0).symm⟩
  | cons b t ih =>
    simp only [List.foldl_cons] at h
    obtain ⟨h1, h2⟩ := ih _ h
    cases acc with
    | none =>
      have hb : b.mu + scaledEps scale b ≤ l := h2 _ (by simp [nmStep])
      refine ⟨?_, by simp⟩
      intro a ha
      rcases List.mem_cons.mp ha with rfl | ha
      · exact hb
      · exact h1 a ha
    | some l0 =>
      by_cases hlt : l0 < b.mu + scaledEps scale b
      · have hs : nmStep scale (some l0) b = some (b.mu + scaledEps scale b) := by
          simp [nmStep, hlt]
        have hb : b.mu + scaledEps scale b ≤ l := h2 _ hs
        refine ⟨?_, ?_⟩
        · intro a ha
          rcases List.mem_cons.mp ha with rfl | ha
          · exact hb
          · exact h1 a ha
        · intro l1 hl1
          have : l1 = l0 := (Option.some.inj hl1).symm
          rw [this]; linarith
      · have hs : nmStep scale (some l0) b = some l0 := by
          simp [nmStep, hlt]
        have hb : l0 ≤ l := h2 _ hs
        refine ⟨?_, ?_⟩
        · intro a ha
          rcases List.mem_cons.mp ha with rfl | ha
          · linarith [not_lt.mp hlt]
          · exact h1 a ha
        · intro l1 hl1
          have : l1 = l0 := (Option.some.inj hl1).symm
          rw [this]; exact hb

/-- the bound is −∞ exactly for the empty set of the non-monotonic variant -/
theorem lowerBound_none_iff (v : Variant) (scale : Option ℝ) (chosen : List (Alt ℝ)) :
    lowerBound v scale chosen = none ↔ v = .nonMonotonic ∧ chosen = [] := by
  cases v with
  | nonMonotonic =>
    rw [lowerBound_nm]
    cases chosen with
    | nil => simp
    | cons b t =>
      simp only [List.foldl_cons, reduceCtorEq, and_false, iff_false]
      have key : ∀ (l : List (Alt ℝ)) (x : ℝ), l.foldl (nmStep scale) (some x) ≠ none := by
        intro l
        induction l with
        | nil => intro x; simp
        | cons c t ih =>
          intro x
          simp only [List.foldl_cons]
          by_cases hlt : x < c.mu + scaledEps scale c
          · have : nmStep scale (some x) c = some (c.mu + scaledEps scale c) := by simp [nmStep, hlt]
            rw [this]; exact ih _
          · have : nmStep scale (some x) c = some x := by simp [nmStep, hlt]
            rw [this]; exact ih _
      have : nmStep scale none b = some (b.mu + scaledEps scale b) := by simp [nmStep]
      rw [this]
      exact key t _
  | translated => simp [lowerBound]
  | gammaProfile => simp [lowerBound]
  | generalized => simp [lowerBound]

/-- above the model-specific lower bound the closed form is in its domain for every chosen good -/
theorem lowerBound_sound (v : Variant) (scale : Option ℝ) (chosen : List (Alt ℝ)) (l lam : ℝ)
    (h : lowerBound v scale chosen = some l) (hl : l < lam) : ∀ a ∈ chosen, lamOK scale a v lam := by
  intro a ha
  cases v with
  | nonMonotonic =>
    rw [lowerBound_nm] at h
    have := (nm_fold_bound scale chosen none l h).1 a ha
    simp only [lamOK]; linarith
  | translated =>
    simp only [lowerBound, Option.some.injEq] at h
    simp only [lamOK]; rw [← h] at hl; simpa using hl
  | gammaProfile =>
    simp only [lowerBound, Option.some.injEq] at h
    simp only [lamOK]; rw [← h] at hl; simpa using hl
  | generalized =>
    simp only [lowerBound, Option.some.injEq] at h
    simp only [lamOK]; rw [← h] at hl; simpa using hl

/-! ### the multiplier returned when the budget criterion stops the bisection (repaired behaviour) -/

theorem bisStep_met (g : ℝ → ℝ) (anyNeg : ℝ → Bool) (B tolD tolB : ℝ) (s : BisState ℝ)
    (h : ∀ l, s.met = some l → |g l - B| ≤ tolB) :
    ∀ l, (bisStep g anyNeg B tolD tolB s).met = some l → |g l - B| ≤ tolB := by
  intro l hl
  unfold bisStep at hl
  by_cases h1 : (!s.go || s.negative) = true
  · rw [if_pos h1] at hl; exact h l hl
  · rw [if_neg h1] at hl
    by_cases h2 : anyNeg ((s.lo + s.hi) / 2) = true
    · simp only [add_real, div_real, ofNat_real] at hl
      rw [if_pos h2] at hl
      exact h l hl
    · simp only [add_real, div_real, ofNat_real] at hl
      rw [if_neg h2] at hl
      simp only [sub_real, abs_real] at hl
      by_cases h3 : Num.le |g ((s.lo + s.hi) / 2) - B| tolB = true
      · simp only [h3, if_true] at hl
        have : l = (s.lo + s.hi) / 2 := (Option.some.inj hl).symm
        rw [this]
        exact (le_real _ _).mp h3
      · simp only [h3] at hl
        cases hl

theorem bisLoop_met (g : ℝ → ℝ) (anyNeg : ℝ → Bool) (B tolD tolB : ℝ) (n : Nat) (s : BisState ℝ)
    (h : ∀ l, s.met = some l → |g l - B| ≤ tolB) :
    ∀ l, (bisLoop g anyNeg B tolD tolB n s).met = some l → |g l - B| ≤ tolB := by
  induction n generalizing s with
  | zero => simpa [bisLoop] using h
  | succ n ih =>
    simp only [bisLoop]
    exact ih _ (bisStep_met g anyNeg B tolD tolB s h)

/-- the code's own choice — the midpoint of the bracket it has just updated — does not have this
property: one pass on `g l = 4 − l`, bracket [0, 4], budget 9/4, tolerance 1/2 stops on the budget
criterion at the multiplier 2 (total 2, 1/4 from the budget) and the midpoint of the new bracket
[0, 2] gives the total 3, which is 3/4 from the budget -/
theorem midpoint_after_stop_misses_budget :
    let s' := bisStep (fun l => 4 - l) (fun _ => false) (9 / 4) 0 (1 / 2)
      { lo := (0 : ℝ), hi := 4, go := true, negative := false }
    s'.go = false ∧ s'.met = some 2 ∧
      ¬ |(fun l : ℝ => 4 - l) ((s'.lo + s'.hi) / 2) - 9 / 4| ≤ 1 / 2 := by
  simp only [bisStep]
  norm_num [abs_le]

/-! ### parameters after estimation -/

theorem changeInit_lookup {α : Type} (betas : List (String × α)) (e : PExpr α) (n : String) (x b : α)
    (hmem : (n, x) ∈ e) (hb : betas.lookup n = some b) : (n, b) ∈ changeInit betas e := by
  unfold changeInit
  apply List.mem_map.mpr
  exact ⟨(n, x), hmem, by simp [hb]⟩

theorem changeInit_names {α : Type} (betas : List (String × α)) (e : PExpr α) :
    (changeInit betas e).map (·.1) = e.map (·.1) := by
  unfold changeInit
  rw [List.map_map]
  apply List.map_congr_left
  intro nv _
  simp only [Function.comp]
  split <;> rfl

/-- a parameter slot of an updated expression carries the estimated value when there is one, and
its old value otherwise -/
theorem changeInit_slot {α : Type} (betas : List (String × α)) (e : PExpr α) (nv : String × α)
    (h : nv ∈ changeInit betas e) :
    (∃ b, betas.lookup nv.1 = some b ∧ nv.2 = b) ∨ (betas.lookup nv.1 = none ∧ nv ∈ e) := by
  unfold changeInit at h
  obtain ⟨old, hold, heq⟩ := List.mem_map.mp h
  cases hl : betas.lookup old.1 with
  | none =>
    simp only [hl] at heq
    right
    rw [← heq]
    exact ⟨hl, hold⟩
  | some b =>
    simp only [hl] at heq
    left
    rw [← heq]
    exact ⟨b, hl, rfl⟩

/-- every expression read by a forecast after `_update_parameters_in_expressions` is the update
of an expression of the model -/
theorem forecastExprs_updated {α : Type} (betas : List (String × α)) (m : Params α) :
    forecastExprs (updateModel betas m) = (forecastExprs m).map (changeInit betas) := by
  unfold forecastExprs updateModel
  cases hα : m.alpha <;> cases hs : m.scale <;> cases hp : m.prices <;>
    cases hv : m.variant <;>
    simp [childUpdated, List.map_map, List.filterMap_map, Function.comp_def,
      List.map_filterMap, Option.map]

end Mdcev
