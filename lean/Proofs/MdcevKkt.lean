/- KKT ⇒ optimal for separable concave utilities; consumption decreasing in the multiplier;
bisection invariant.  Helper lemmas for Props/C18.lean. -/
import Proofs.MdcevCalc2
import Mathlib.Algebra.BigOperators.Group.Finset.Basic
import Mathlib.Algebra.Order.BigOperators.Group.Finset

open NumR
namespace Mdcev

/-! ### tangent line above a concave function -/

theorem concave_tangent {S : Set ℝ} {f : ℝ → ℝ} {f' z w : ℝ} (hc : ConcaveOn ℝ S f)
    (hz : z ∈ S) (hw : w ∈ S) (hd : HasDerivAt f f' z) : f w ≤ f z + f' * (w - z) := by
  rcases lt_trichotomy z w with h | h | h
  · have hs := hc.slope_le_of_hasDerivAt hz hw h hd
    rw [slope_def_field] at hs
    have hpos : 0 < w - z := by linarith
    have := (div_le_iff₀ hpos).mp hs
    linarith
  · subst h; simp
  · have hs := hc.le_slope_of_hasDerivAt hw hz h hd
    rw [slope_def_field] at hs
    have hpos : 0 < z - w := by linarith
    have := (le_div_iff₀ hpos).mp hs
    nlinarith

/-! ### KKT ⇒ optimal, any family of concave functions -/

theorem kkt_optimal_finset {ι : Type*} (s : Finset ι) (D : ι → Set ℝ) (f : ι → ℝ → ℝ)
    (f' : ι → ℝ) (x y : ι → ℝ) (lam B : ℝ)
    (hconc : ∀ k ∈ s, ConcaveOn ℝ (D k) (f k))
    (hxD : ∀ k ∈ s, x k ∈ D k) (hyD : ∀ k ∈ s, y k ∈ D k)
    (hder : ∀ k ∈ s, HasDerivAt (f k) (f' k) (x k))
    (hx0 : ∀ k ∈ s, 0 ≤ x k) (hy0 : ∀ k ∈ s, 0 ≤ y k)
    (hsumx : ∑ k ∈ s, x k = B) (hsumy : ∑ k ∈ s, y k = B)
    (hpos : ∀ k ∈ s, 0 < x k → f' k = lam) (hzero : ∀ k ∈ s, x k = 0 → f' k ≤ lam) :
    ∑ k ∈ s, f k (y k) ≤ ∑ k ∈ s, f k (x k) := by
  have hterm : ∀ k ∈ s, f k (y k) ≤ f k (x k) + lam * (y k - x k) := by
    intro k hk
    have ht := concave_tangent (hconc k hk) (hxD k hk) (hyD k hk) (hder k hk)
    rcases lt_or_eq_of_le (hx0 k hk) with hp | hz
    · rw [hpos k hk hp] at ht; exact ht
    · have hxz : x k = 0 := hz.symm
      have h1 := hzero k hk hxz
      have h2 : f' k * (y k - x k) ≤ lam * (y k - x k) := by
        rw [hxz, sub_zero]
        exact mul_le_mul_of_nonneg_right h1 (hy0 k hk)
      linarith
  calc ∑ k ∈ s, f k (y k) ≤ ∑ k ∈ s, (f k (x k) + lam * (y k - x k)) := Finset.sum_le_sum hterm
    _ = ∑ k ∈ s, f k (x k) + lam * (∑ k ∈ s, y k - ∑ k ∈ s, x k) := by
        rw [Finset.sum_add_distrib, ← Finset.mul_sum, Finset.sum_sub_distrib]
    _ = ∑ k ∈ s, f k (x k) := by rw [hsumx, hsumy]; ring

/-! ### KKT ⇒ optimal for the model's `sumUtilities` -/

/-- one good: forecast consumption `x`, competing consumption `y` -/
structure KktPoint (v : Variant) (scale : Option ℝ) (lam : ℝ) (p : Alt ℝ × ℝ × ℝ) : Prop where
  ok : ParamOK p.1
  xdom : p.2.1 ∈ domain p.1
  ydom : p.2.2 ∈ domain p.1
  support : 0 < p.2.1 → dU v scale p.1 p.2.1 = lam
  zero : p.2.1 = 0 → dU v scale p.1 0 ≤ lam

theorem domain_nonneg (a : Alt ℝ) (x : ℝ) (hx : x ∈ domain a) : 0 ≤ x := by
  unfold domain at hx
  split at hx
  · exact hx
  · exact le_of_lt hx

theorem kkt_term (v : Variant) (scale : Option ℝ) (lam : ℝ) (p : Alt ℝ × ℝ × ℝ)
    (h : KktPoint v scale lam p) :
    U v scale p.1 p.2.2 ≤ U v scale p.1 p.2.1 + lam * (p.2.2 - p.2.1) := by
  have hc := U_concave v scale p.1 h.ok
  have hd := hasDerivAt_U v scale p.1 h.ok p.2.1 h.xdom
  have ht := concave_tangent hc h.xdom h.ydom hd
  have hx0 := domain_nonneg p.1 p.2.1 h.xdom
  have hy0 := domain_nonneg p.1 p.2.2 h.ydom
  rcases lt_or_eq_of_le hx0 with hp | hz
  · rw [h.support hp] at ht; exact ht
  · have hxz : p.2.1 = 0 := hz.symm
    have h1 := h.zero hxz
    rw [hxz] at ht ⊢
    have h2 : dU v scale p.1 0 * (p.2.2 - 0) ≤ lam * (p.2.2 - 0) := by
      rw [sub_zero]; exact mul_le_mul_of_nonneg_right h1 hy0
    linarith

theorem kkt_list_sum (v : Variant) (scale : Option ℝ) (lam : ℝ) (pts : List (Alt ℝ × ℝ × ℝ))
    (h : ∀ p ∈ pts, KktPoint v scale lam p) :
    (pts.map fun p => U v scale p.1 p.2.2).sum ≤
      (pts.map fun p => U v scale p.1 p.2.1).sum
        + lam * ((pts.map (·.2.2)).sum - (pts.map (·.2.1)).sum) := by
  induction pts with
  | nil => simp
  | cons p t ih =>
    have h1 := kkt_term v scale lam p (h p List.mem_cons_self)
    have h2 := ih (fun q hq => h q (List.mem_cons_of_mem _ hq))
    simp only [List.map_cons, List.sum_cons]
    linarith

theorem sumUtilities_pts (v : Variant) (scale : Option ℝ) (pts : List (Alt ℝ × ℝ × ℝ))
    (sel : Alt ℝ × ℝ × ℝ → ℝ) :
    sumUtilities v scale (pts.map (·.1)) (pts.map sel) = (pts.map fun p => U v scale p.1 (sel p)).sum := by
  unfold sumUtilities
  rw [sum_real, List.zip_map', List.map_map]
  rfl

theorem kkt_optimal_pts (v : Variant) (scale : Option ℝ) (lam B : ℝ) (pts : List (Alt ℝ × ℝ × ℝ))
    (h : ∀ p ∈ pts, KktPoint v scale lam p)
    (hx : (pts.map (·.2.1)).sum = B) (hy : (pts.map (·.2.2)).sum = B) :
    sumUtilities v scale (pts.map (·.1)) (pts.map (·.2.2)) ≤
      sumUtilities v scale (pts.map (·.1)) (pts.map (·.2.1)) := by
  rw [sumUtilities_pts v scale pts (·.2.2), sumUtilities_pts v scale pts (·.2.1)]
  have := kkt_list_sum v scale lam pts h
  rw [hx, hy] at this
  linarith

/-! ### consumption is decreasing in the multiplier -/

section invanti
variable (scale : Option ℝ) (a : Alt ℝ)

theorem trL_anti (l₁ l₂ : ℝ) (h1 : 0 < l₁) (h12 : l₁ ≤ l₂) (hα : a.alpha < 1) :
    trL scale a l₂ ≤ trL scale a l₁ := by
  unfold trL
  have hl : Real.log l₁ ≤ Real.log l₂ := Real.log_le_log h1 h12
  apply div_le_div_of_nonpos_of_le (by linarith)
  linarith

/-- where the inverse of the derivative is meaningful -/
def lamOK (v : Variant) (lam : ℝ) : Prop :=
  match v with
  | .nonMonotonic => a.mu + scaledEps scale a < lam
  | _ => 0 < lam

theorem inv_antitone (v : Variant) (hok : ParamOK a) (l₁ l₂ : ℝ) (h1 : lamOK scale a v l₁)
    (h12 : l₁ ≤ l₂) : inv v scale a l₂ ≤ inv v scale a l₁ := by
  have hα := hok.alpha_lt
  have hp := hok.price_pos
  have hE := E_pos scale a
  have hex : 1 / (a.alpha - 1) ≤ 0 := by
    apply div_nonpos_of_nonneg_of_nonpos (by norm_num) (by linarith)
  cases v with
  | translated =>
    have h1' : 0 < l₁ := h1
    have h2' : 0 < l₂ := lt_of_lt_of_le h1' h12
    have hmin : min (trL scale a l₂) maxExpArgument ≤ min (trL scale a l₁) maxExpArgument :=
      min_le_min_right _ (trL_anti scale a l₁ l₂ h1' h12 hα)
    cases hgam : a.gamma with
    | none =>
      rw [inv_tr_out scale a l₁ hgam (ne_of_gt h1'), inv_tr_out scale a l₂ hgam (ne_of_gt h2')]
      exact Real.exp_le_exp.mpr hmin
    | some g =>
      rw [inv_tr_in scale a g l₁ hgam (ne_of_gt h1'), inv_tr_in scale a g l₂ hgam (ne_of_gt h2')]
      have := Real.exp_le_exp.mpr hmin
      linarith
  | gammaProfile =>
    have h1' : 0 < l₁ := h1
    cases hgam : a.gamma with
    | none =>
      rw [inv_gp_out scale a l₁ hgam, inv_gp_out scale a l₂ hgam]
      exact div_le_div_of_nonneg_left (le_of_lt hE) h1' h12
    | some g =>
      have hg := hok.gamma_pos g hgam
      rw [inv_gp_in scale a g l₁ hgam, inv_gp_in scale a g l₂ hgam]
      have := div_le_div_of_nonneg_left (le_of_lt (mul_pos hE hg)) h1' h12
      linarith
  | generalized =>
    have h1' : 0 < l₁ := h1
    have hr1 : 0 < a.price * l₁ / E scale a := div_pos (mul_pos hp h1') hE
    have hr12 : a.price * l₁ / E scale a ≤ a.price * l₂ / E scale a := by
      apply div_le_div_of_nonneg_right _ (le_of_lt hE)
      exact mul_le_mul_of_nonneg_left h12 (le_of_lt hp)
    have hr := Real.rpow_le_rpow_of_nonpos hr1 hr12 hex
    cases hgam : a.gamma with
    | none =>
      rw [inv_ge_out scale a l₁ hgam, inv_ge_out scale a l₂ hgam]
      exact mul_le_mul_of_nonneg_left hr (le_of_lt hp)
    | some g =>
      have hg := hok.gamma_pos g hgam
      rw [inv_ge_in scale a g l₁ hgam, inv_ge_in scale a g l₂ hgam]
      apply mul_le_mul_of_nonneg_left _ (le_of_lt (mul_pos hp hg))
      linarith
  | nonMonotonic =>
    have h1' : a.mu + scaledEps scale a < l₁ := h1
    have hb1 : 0 < (l₁ - a.mu - scaledEps scale a) * Real.exp (-a.psi) :=
      mul_pos (by linarith) (Real.exp_pos _)
    have hb12 : (l₁ - a.mu - scaledEps scale a) * Real.exp (-a.psi)
        ≤ (l₂ - a.mu - scaledEps scale a) * Real.exp (-a.psi) :=
      mul_le_mul_of_nonneg_right (by linarith) (le_of_lt (Real.exp_pos _))
    have hr := Real.rpow_le_rpow_of_nonpos hb1 hb12 hex
    cases hgam : a.gamma with
    | none =>
      rw [inv_nm_out scale a l₁ hgam, inv_nm_out scale a l₂ hgam]
      exact hr
    | some g =>
      have hg := hok.gamma_pos g hgam
      rw [inv_nm_in scale a g l₁ hgam, inv_nm_in scale a g l₂ hgam]
      apply mul_le_mul_of_nonneg_left _ (le_of_lt hg)
      linarith

end invanti

theorem totalAt_real (v : Variant) (scale : Option ℝ) (chosen : List (Alt ℝ)) (lam : ℝ) :
    totalAt v scale chosen lam = (chosen.map fun a => inv v scale a lam).sum := by
  unfold totalAt; rw [sum_real]

theorem totalAt_antitone (v : Variant) (scale : Option ℝ) (chosen : List (Alt ℝ))
    (hok : ∀ a ∈ chosen, ParamOK a) (l₁ l₂ : ℝ)
    (h1 : ∀ a ∈ chosen, lamOK scale a v l₁) (h12 : l₁ ≤ l₂) :
    totalAt v scale chosen l₂ ≤ totalAt v scale chosen l₁ := by
  rw [totalAt_real, totalAt_real]
  induction chosen with
  | nil => simp
  | cons a t ih =>
    simp only [List.map_cons, List.sum_cons]
    have ha := inv_antitone scale a v (hok a List.mem_cons_self) l₁ l₂ (h1 a List.mem_cons_self) h12
    have ht := ih (fun b hb => hok b (List.mem_cons_of_mem _ hb))
      (fun b hb => h1 b (List.mem_cons_of_mem _ hb))
    linarith

/-! ### bisection -/

/-- the multiplier that exhausts the budget stays bracketed -/
theorem bisStep_invariant (g : ℝ → ℝ) (anyNeg : ℝ → Bool) (B tolD tolB : ℝ) (s : BisState ℝ)
    (lamStar : ℝ) (hg : ∀ l, s.lo ≤ l → l ≤ s.hi → (l ≤ lamStar → B ≤ g l) ∧ (lamStar ≤ l → g l ≤ B))
    (hlo : s.lo ≤ lamStar) (hhi : lamStar ≤ s.hi) :
    let s' := bisStep g anyNeg B tolD tolB s
    s'.lo ≤ lamStar ∧ lamStar ≤ s'.hi ∧ s.lo ≤ s'.lo ∧ s'.hi ≤ s.hi := by
  intro s'
  show (bisStep g anyNeg B tolD tolB s).lo ≤ lamStar ∧ lamStar ≤ (bisStep g anyNeg B tolD tolB s).hi ∧
    s.lo ≤ (bisStep g anyNeg B tolD tolB s).lo ∧ (bisStep g anyNeg B tolD tolB s).hi ≤ s.hi
  unfold bisStep
  by_cases hstop : (!s.go || s.negative) = true
  · simp only [hstop, if_true]
    exact ⟨hlo, hhi, le_refl _, le_refl _⟩
  · simp only [hstop]
    have hmid1 : s.lo ≤ (s.lo + s.hi) / 2 := by linarith
    have hmid2 : (s.lo + s.hi) / 2 ≤ s.hi := by linarith
    by_cases hneg : anyNeg ((s.lo + s.hi) / 2) = true
    · simp [hneg]
      exact ⟨hlo, hhi⟩
    · have hgm := hg ((s.lo + s.hi) / 2) hmid1 hmid2
      simp only [add_real, div_real, ofNat_real, hneg, Bool.false_eq_true, if_false]
      by_cases hlt : g ((s.lo + s.hi) / 2) < B
      · -- total < budget : the upper bound moves to mid ; mid ≥ λ*
        have hge : lamStar ≤ (s.lo + s.hi) / 2 := by
          by_contra hcon
          have := (hgm.1 (le_of_lt (not_le.mp hcon)))
          linarith
        simp [hlt]
        exact ⟨hlo, hge, hmid2⟩
      · by_cases hgt : B < g ((s.lo + s.hi) / 2)
        · have hle : (s.lo + s.hi) / 2 ≤ lamStar := by
            by_contra hcon
            have := (hgm.2 (le_of_lt (not_le.mp hcon)))
            linarith
          simp [hlt, hgt]
          exact ⟨hle, hhi, hmid1⟩
        · simp [hlt, hgt]
          exact ⟨hlo, hhi⟩

/-- after a pass that neither stopped nor found a negative consumption, the bracket is halved
unless the budget is met exactly -/
theorem bisStep_halves (g : ℝ → ℝ) (anyNeg : ℝ → Bool) (B tolD tolB : ℝ) (s : BisState ℝ)
    (hgo : s.go = true) (hnn : s.negative = false) (hneg : anyNeg ((s.lo + s.hi) / 2) = false) :
    let s' := bisStep g anyNeg B tolD tolB s
    s'.hi - s'.lo = (s.hi - s.lo) / 2 ∨ g ((s.lo + s.hi) / 2) = B := by
  intro s'
  show (bisStep g anyNeg B tolD tolB s).hi - (bisStep g anyNeg B tolD tolB s).lo = (s.hi - s.lo) / 2 ∨ _
  unfold bisStep
  simp only [hgo, hnn, Bool.not_true, Bool.or_self, Bool.false_eq_true, if_false, add_real, div_real,
    ofNat_real, hneg]
  by_cases hlt : g ((s.lo + s.hi) / 2) < B
  · left; simp [hlt]; ring
  · by_cases hgt : B < g ((s.lo + s.hi) / 2)
    · left; simp [hlt, hgt]; ring
    · right; linarith [not_lt.mp hlt, not_lt.mp hgt]

/-- the loop stops only by one of the two tolerances (or runs out of passes, or meets a negative
consumption) -/
theorem bisStep_stop (g : ℝ → ℝ) (anyNeg : ℝ → Bool) (B tolD tolB : ℝ) (s : BisState ℝ)
    (hgo : s.go = true) (hnn : s.negative = false) :
    (bisStep g anyNeg B tolD tolB s).go = false → (bisStep g anyNeg B tolD tolB s).negative = false →
      (bisStep g anyNeg B tolD tolB s).hi - (bisStep g anyNeg B tolD tolB s).lo ≤ tolD ∨
        |g ((s.lo + s.hi) / 2) - B| ≤ tolB := by
  unfold bisStep
  simp only [hgo, hnn, Bool.not_true, Bool.or_self, Bool.false_eq_true, if_false, add_real, div_real,
    ofNat_real]
  by_cases hneg : anyNeg ((s.lo + s.hi) / 2) = true
  · simp [hneg]
  · simp only [hneg, Bool.false_eq_true, if_false]
    intro hstop _
    simp only [Bool.not_eq_eq_eq_not, Bool.not_false, Bool.or_eq_true, le_real, sub_real, abs_real] at hstop
    exact hstop

theorem bisLoop_invariant (g : ℝ → ℝ) (anyNeg : ℝ → Bool) (B tolD tolB : ℝ) (lamStar : ℝ)
    (n : Nat) (s : BisState ℝ)
    (hg : ∀ l, s.lo ≤ l → l ≤ s.hi → (l ≤ lamStar → B ≤ g l) ∧ (lamStar ≤ l → g l ≤ B))
    (hlo : s.lo ≤ lamStar) (hhi : lamStar ≤ s.hi) :
    (bisLoop g anyNeg B tolD tolB n s).lo ≤ lamStar ∧ lamStar ≤ (bisLoop g anyNeg B tolD tolB n s).hi := by
  induction n generalizing s with
  | zero => exact ⟨hlo, hhi⟩
  | succ n ih =>
    simp only [bisLoop]
    obtain ⟨h1, h2, h3, h4⟩ := bisStep_invariant g anyNeg B tolD tolB s lamStar hg hlo hhi
    apply ih
    · intro l hl1 hl2
      exact hg l (le_trans h3 hl1) (le_trans hl2 h4)
    · exact h1
    · exact h2

/-! ### the outside good receives a positive consumption -/

theorem inv_outside_pos (v : Variant) (scale : Option ℝ) (a : Alt ℝ) (hok : ParamOK a)
    (hout : a.gamma = none) (lam : ℝ) (hl : lamOK scale a v lam)
    (hcap : v = .translated → True) : 0 < inv v scale a lam := by
  have hE := E_pos scale a
  have hp := hok.price_pos
  cases v with
  | translated =>
    have hl' : 0 < lam := hl
    rw [inv_tr_out scale a lam hout (ne_of_gt hl')]
    exact Real.exp_pos _
  | gammaProfile =>
    have hl' : 0 < lam := hl
    rw [inv_gp_out scale a lam hout]
    exact div_pos hE hl'
  | generalized =>
    have hl' : 0 < lam := hl
    rw [inv_ge_out scale a lam hout]
    exact mul_pos hp (Real.rpow_pos_of_pos (div_pos (mul_pos hp hl') hE) _)
  | nonMonotonic =>
    have hl' : a.mu + scaledEps scale a < lam := hl
    rw [inv_nm_out scale a lam hout]
    exact Real.rpow_pos_of_pos (mul_pos (by linarith) (Real.exp_pos _)) _

/-! ### the relation evaluated by the driver, with zero tolerances, is the hypothesis of the
optimality theorem -/

theorem kktB_exact (v : Variant) (scale : Option ℝ) (B lam : ℝ) (alts : List (Alt ℝ)) (xs : List ℝ)
    (h : kktB v scale B 0 0 alts xs lam = true) :
    xs.sum = B ∧ ∀ p ∈ alts.zip xs, 0 ≤ p.2 ∧ (0 < p.2 → dU v scale p.1 p.2 = lam) ∧
      (p.2 = 0 → isOutside p.1 = false ∧ dU v scale p.1 0 ≤ lam) := by
  unfold kktB at h
  simp only [Bool.and_eq_true, List.all_eq_true, le_real, ofNat_real_zero, abs_real, sub_real,
    sum_real, zero_mul, add_zero] at h
  obtain ⟨⟨h1, h2⟩, h3⟩ := h
  refine ⟨?_, ?_⟩
  · have := abs_nonpos_iff.mp h2
    linarith
  · intro p hp
    have h3p := h3 p hp
    refine ⟨h1 p hp, ?_, ?_⟩
    · intro hpos
      have hlt : Num.lt (0 : ℝ) p.2 = true := (lt_real 0 p.2).mpr hpos
      rw [if_pos hlt] at h3p
      have := abs_nonpos_iff.mp ((le_real _ _).mp h3p)
      linarith
    · intro hz
      have hlt : ¬ (Num.lt (0 : ℝ) p.2 = true) := by
        rw [lt_real, hz]; exact lt_irrefl 0
      rw [if_neg hlt] at h3p
      simp only [Bool.and_eq_true, Bool.not_eq_true', le_real] at h3p
      exact h3p

end Mdcev
