/- The forecast does not depend on the order in which the alternatives are listed
(`index_to_key`, i.e. the iteration order of the Python set of labels), over ℝ, when the marginal
utilities at zero of the ordinary goods are pairwise distinct and there is at most one outside
good.  Helper lemmas for Props/C18.lean. -/
import Model.Mdcev
import Proofs.NumReal
import Mathlib.Data.List.Sort
import Mathlib.Data.List.Perm.Basic

open NumR
namespace Mdcev

/-! ### the stable descending insertion sort -/

theorem insertDesc_perm (w : ℝ) (a : Alt ℝ) (l : List (ℝ × Alt ℝ)) :
    (insertDesc w a l).Perm ((w, a) :: l) := by
  induction l with
  | nil => exact List.Perm.refl _
  | cons h t ih =>
    obtain ⟨w', a'⟩ := h
    simp only [insertDesc]
    split
    · exact List.Perm.refl _
    · exact (List.Perm.cons _ ih).trans (List.Perm.swap _ _ _)

theorem foldl_insert_perm (l acc : List (ℝ × Alt ℝ)) :
    (List.foldl (fun acc wa => insertDesc wa.1 wa.2 acc) acc l).Perm (l ++ acc) := by
  induction l generalizing acc with
  | nil => exact List.Perm.refl _
  | cons h t ih =>
    simp only [List.foldl_cons]
    refine (ih _).trans ?_
    have h1 := insertDesc_perm h.1 h.2 acc
    exact (List.Perm.append_left t h1).trans (List.perm_middle)

theorem sortDesc_perm (l : List (ℝ × Alt ℝ)) : (sortDesc l).Perm l := by
  unfold sortDesc
  simpa using foldl_insert_perm l []

/-- sorted by decreasing key -/
def DescSorted (l : List (ℝ × Alt ℝ)) : Prop := l.Pairwise fun p q => q.1 ≤ p.1

theorem insertDesc_sorted (w : ℝ) (a : Alt ℝ) (l : List (ℝ × Alt ℝ)) (h : DescSorted l) :
    DescSorted (insertDesc w a l) := by
  induction l with
  | nil => simp [insertDesc, DescSorted]
  | cons hd t ih =>
    obtain ⟨w', a'⟩ := hd
    unfold DescSorted at h ⊢
    rw [List.pairwise_cons] at h
    simp only [insertDesc]
    by_cases hlt : w' < w
    · have : Num.lt w' w = true := (lt_real w' w).mpr hlt
      simp only [this, if_true]
      rw [List.pairwise_cons]
      refine ⟨?_, List.pairwise_cons.mpr h⟩
      intro q hq
      rcases List.mem_cons.mp hq with rfl | hq
      · exact le_of_lt hlt
      · exact le_trans (h.1 q hq) (le_of_lt hlt)
    · have : ¬ (Num.lt w' w = true) := fun hh => hlt ((lt_real w' w).mp hh)
      simp only [this, Bool.false_eq_true, if_false]
      rw [List.pairwise_cons]
      refine ⟨?_, ih h.2⟩
      intro q hq
      have hq' := (insertDesc_perm w a t).subset hq
      rcases List.mem_cons.mp hq' with rfl | hq'
      · exact not_lt.mp hlt
      · exact h.1 q hq'

theorem foldl_insert_sorted (l acc : List (ℝ × Alt ℝ)) (h : DescSorted acc) :
    DescSorted (List.foldl (fun acc wa => insertDesc wa.1 wa.2 acc) acc l) := by
  induction l generalizing acc with
  | nil => exact h
  | cons hd t ih =>
    simp only [List.foldl_cons]
    exact ih _ (insertDesc_sorted hd.1 hd.2 acc h)

theorem sortDesc_sorted (l : List (ℝ × Alt ℝ)) : DescSorted (sortDesc l) := by
  unfold sortDesc
  exact foldl_insert_sorted l [] List.Pairwise.nil

/-- with pairwise distinct keys the sorted list does not depend on the order of the input -/
theorem sortDesc_perm_eq (l₁ l₂ : List (ℝ × Alt ℝ)) (hp : l₂.Perm l₁)
    (hkeys : (l₁.map (·.1)).Nodup) : sortDesc l₂ = sortDesc l₁ := by
  have hperm : (sortDesc l₂).Perm (sortDesc l₁) :=
    (sortDesc_perm l₂).trans (hp.trans (sortDesc_perm l₁).symm)
  refine List.Perm.eq_of_pairwise ?_ (sortDesc_sorted l₂) (sortDesc_sorted l₁) hperm
  intro p q hp2 hq1 h1 h2
  -- both are members of l₁ with equal keys
  have hpm : p ∈ l₁ := hp.subset ((sortDesc_perm l₂).subset hp2)
  have hqm : q ∈ l₁ := (sortDesc_perm l₁).subset hq1
  have hk : p.1 = q.1 := le_antisymm h2 h1
  exact List.inj_on_of_nodup_map hkeys hpm hqm hk

/-! ### the identification and the forecast -/

theorem filter_outside_eq (l₁ l₂ : List (Alt ℝ)) (hp : l₂.Perm l₁)
    (hone : (l₁.filter isOutside).length ≤ 1) : l₂.filter isOutside = l₁.filter isOutside := by
  have hf : (l₂.filter isOutside).Perm (l₁.filter isOutside) := hp.filter _
  have hlen := hf.length_eq
  match h1 : l₁.filter isOutside, h2 : l₂.filter isOutside with
  | [], [] => rfl
  | [], _ :: _ => rw [h1, h2] at hlen; simp at hlen
  | _ :: _, [] => rw [h1, h2] at hlen; simp at hlen
  | a :: t, b :: t' =>
    rw [h1] at hone
    have ht : t = [] := by
      cases t with
      | nil => rfl
      | cons _ _ => simp at hone
    have ht' : t' = [] := by
      rw [h1, h2, ht] at hlen
      cases t' with
      | nil => rfl
      | cons _ _ => simp at hlen
    subst ht ht'
    rw [h1, h2] at hf
    have := List.perm_singleton.mp hf
    rw [this]

theorem identifyChosen_perm (v : Variant) (scale : Option ℝ) (budget : ℝ) (l₁ l₂ : List (Alt ℝ))
    (hp : l₂.Perm l₁) (hone : (l₁.filter isOutside).length ≤ 1)
    (hkeys : ((l₁.filter fun a => !isOutside a).map fun a => dU v scale a 0).Nodup) :
    identifyChosen v scale budget l₂ = identifyChosen v scale budget l₁ := by
  unfold identifyChosen
  simp only [ofNat_real_zero]
  rw [filter_outside_eq l₁ l₂ hp hone]
  have hin : ((l₂.filter fun a => !isOutside a).map fun a => (dU v scale a 0, a)).Perm
      ((l₁.filter fun a => !isOutside a).map fun a => (dU v scale a 0, a)) :=
    (hp.filter _).map _
  have hk : (((l₁.filter fun a => !isOutside a).map fun a => (dU v scale a 0, a)).map (·.1)).Nodup := by
    rw [List.map_map]; exact hkeys
  rw [sortDesc_perm_eq _ _ hin hk]

/-- chosen set and multiplier do not depend on the order; the consumptions are the same up to
that order -/
theorem forecast_perm (v : Variant) (scale : Option ℝ) (budget tolD tolB : ℝ) (l₁ l₂ : List (Alt ℝ))
    (hp : l₂.Perm l₁) (hone : (l₁.filter isOutside).length ≤ 1)
    (hkeys : ((l₁.filter fun a => !isOutside a).map fun a => dU v scale a 0).Nodup) :
    (∀ e, forecast v scale budget tolD tolB l₁ = .error e → forecast v scale budget tolD tolB l₂ = .error e) ∧
    (∀ f₁, forecast v scale budget tolD tolB l₁ = .ok f₁ →
      ∃ f₂, forecast v scale budget tolD tolB l₂ = .ok f₂ ∧ f₂.chosen = f₁.chosen ∧ f₂.lam = f₁.lam ∧
        f₂.x.Perm f₁.x) := by
  unfold forecast
  rw [identifyChosen_perm v scale budget l₁ l₂ hp hone hkeys]
  generalize identifyChosen v scale budget l₁ = id
  simp only
  cases h1 : Num.lt id.hi id.lo
  · simp only [Bool.false_eq_true, ↓reduceIte]
    generalize bisLoop (totalAt v scale id.chosen) (anyNegAt v scale id.chosen) budget tolD tolB 5000
      { lo := id.lo, hi := id.hi, go := true, negative := false } = st
    unfold finish
    cases h2 : st.negative
    · simp only [Bool.false_eq_true, ↓reduceIte]
      refine ⟨fun e he => (by cases he), ?_⟩
      intro f₁ hf
      cases hf
      exact ⟨_, rfl, rfl, rfl, hp.map _⟩
    · simp only [↓reduceIte]
      exact ⟨fun e he => he, fun f₁ hf => (by cases hf)⟩
  · simp only [↓reduceIte]
    exact ⟨fun e he => he, fun f₁ hf => (by cases hf)⟩

end Mdcev
