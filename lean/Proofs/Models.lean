/-
Lemmas about the choice-model family over `ℝ` (the `ℝ` instance of the definitions of
Model/Models.lean): engine arithmetic bridges, the logit kernel, MEV.
-/
import Model.Models
import Proofs.NumReal

namespace Models

/-! ## bridges -/

@[simp] theorem emul_real (a b : ℝ) : emul a b = a * b := by
  unfold emul
  by_cases ha : a = 0
  · simp [ha]
  · by_cases hb : b = 0
    · simp [hb]
    · have h1 : Num.eq a (0 : ℝ) = false := by
        rw [Bool.eq_false_iff]; intro h; exact ha ((NumR.eq_real a 0).1 h)
      have h2 : Num.eq b (0 : ℝ) = false := by
        rw [Bool.eq_false_iff]; intro h; exact hb ((NumR.eq_real b 0).1 h)
      simp only [NumR.ofNat_real_zero] at *
      simp [h1, h2]

theorem avail_iff (av : Int → ℝ) (i : Int) : avail av i = true ↔ av i ≠ 0 := by
  unfold avail
  simp only [NumR.ofNat_real_zero, Bool.not_eq_true', ne_eq]
  constructor
  · intro h h0
    have : Num.eq (av i) (0 : ℝ) = true := (NumR.eq_real _ _).2 h0
    rw [h] at this; cases this
  · intro h
    rw [Bool.eq_false_iff]; intro h2; exact h ((NumR.eq_real _ _).1 h2)

theorem avail_false_iff (av : Int → ℝ) (i : Int) : avail av i = false ↔ av i = 0 := by
  rw [Bool.eq_false_iff, Ne, avail_iff]; simp

@[simp] theorem expL_none : expL (none : Option ℝ) = 0 := by
  simp [expL]

@[simp] theorem expL_some (x : ℝ) : expL (some x) = Real.exp x := rfl

theorem almostZero_nonneg : (0 : ℝ) ≤ almostZero := by
  unfold almostZero
  simp only [NumR.ofSci_real]
  norm_num

theorem logzero_of_pos {x : ℝ} (hx : 0 < x) : logzero x = Real.log x := by
  unfold logzero
  have : Num.le x (0 : ℝ) = false := (NumR.le_real_false x 0).2 hx
  simp only [NumR.ofNat_real_zero] at *
  simp [this]

theorem logzero_zero : logzero (0 : ℝ) = 0 := by
  unfold logzero
  simp only [NumR.neg_real, NumR.ofNat_real_zero]
  have h1 : Num.le (-almostZero) (0 : ℝ) = true := by
    rw [NumR.le_real]; linarith [almostZero_nonneg]
  have h2 : Num.le (0 : ℝ) (0 : ℝ) = true := (NumR.le_real _ _).2 le_rfl
  simp [h1, h2]

/-! ## lists -/

theorem sum_map_ite_filter {ι : Type} (l : List ι) (p : ι → Bool) (f : ι → ℝ) :
    (l.map fun c => if p c = true then f c else 0).sum = ((l.filter p).map f).sum := by
  induction l with
  | nil => simp
  | cons a t ih =>
    by_cases h : p a = true
    · simp [h, ih]
    · have h' : p a = false := by simpa using h
      simp [h', ih]

theorem sum_map_nonneg {ι : Type} (l : List ι) (f : ι → ℝ) (h : ∀ i ∈ l, 0 ≤ f i) :
    0 ≤ (l.map f).sum := by
  apply List.sum_nonneg
  intro x hx
  rcases List.mem_map.1 hx with ⟨i, hi, rfl⟩
  exact h i hi

theorem sum_map_pos_of_mem {ι : Type} (l : List ι) (f : ι → ℝ) (h : ∀ i ∈ l, 0 ≤ f i)
    (i : ι) (hi : i ∈ l) (hpos : 0 < f i) : 0 < (l.map f).sum := by
  induction l with
  | nil => cases hi
  | cons a t ih =>
    simp only [List.map_cons, List.sum_cons]
    rcases List.mem_cons.1 hi with rfl | hit
    · have : 0 ≤ (t.map f).sum := sum_map_nonneg t f (fun j hj => h j (List.mem_cons_of_mem _ hj))
      linarith
    · have h1 : 0 ≤ f a := h a (List.mem_cons_self)
      have h2 := ih (fun j hj => h j (List.mem_cons_of_mem _ hj)) hit
      linarith

theorem mem_le_sum_map {ι : Type} (l : List ι) (f : ι → ℝ) (h : ∀ i ∈ l, 0 ≤ f i)
    (i : ι) (hi : i ∈ l) : f i ≤ (l.map f).sum := by
  induction l with
  | nil => cases hi
  | cons a t ih =>
    simp only [List.map_cons, List.sum_cons]
    have ht : 0 ≤ (t.map f).sum := sum_map_nonneg t f (fun j hj => h j (List.mem_cons_of_mem _ hj))
    rcases List.mem_cons.1 hi with rfl | hit
    · linarith
    · have h1 : 0 ≤ f a := h a (List.mem_cons_self)
      have h2 := ih (fun j hj => h j (List.mem_cons_of_mem _ hj)) hit
      linarith

/-! ## the logit kernel -/

/-- the denominator on `ℝ` -/
theorem denom_real (alts : List Int) (V av : Int → ℝ) :
    denom alts V av = ((alts.filter (avail av)).map fun j => Real.exp (V j)).sum := by
  unfold denom
  rw [NumR.sum_real]
  rfl

theorem denom_pos (alts : List Int) (V av : Int → ℝ) (c : Int) (hc : c ∈ alts)
    (hav : avail av c = true) : 0 < denom alts V av := by
  rw [denom_real]
  apply sum_map_pos_of_mem _ _ (fun i _ => (Real.exp_pos _).le) c
  · exact List.mem_filter.2 ⟨hc, hav⟩
  · exact Real.exp_pos _

theorem logLogit_avail (alts : List Int) (V av : Int → ℝ) (c : Int) (hav : avail av c = true) :
    logLogit alts V av c = some (V c - Real.log (denom alts V av)) := by
  unfold logLogit
  simp [hav]

theorem logLogit_unavail (alts : List Int) (V av : Int → ℝ) (c : Int) (hav : avail av c = false) :
    logLogit alts V av c = none := by
  unfold logLogit
  simp [hav]

/-- closed form of the logit probability of an available alternative -/
theorem logitP_avail (alts : List Int) (V av : Int → ℝ) (c : Int) (hc : c ∈ alts)
    (hav : avail av c = true) :
    logitP alts V av c = Real.exp (V c) / denom alts V av := by
  unfold logitP
  rw [logLogit_avail _ _ _ _ hav, expL_some, Real.exp_sub, Real.exp_log (denom_pos alts V av c hc hav)]

theorem logitP_unavail (alts : List Int) (V av : Int → ℝ) (c : Int) (hav : avail av c = false) :
    logitP alts V av c = 0 := by
  unfold logitP
  rw [logLogit_unavail _ _ _ _ hav, expL_none]

theorem logitP_eq_ite (alts : List Int) (V av : Int → ℝ) (c : Int) (hc : c ∈ alts) :
    logitP alts V av c = if avail av c = true then Real.exp (V c) / denom alts V av else 0 := by
  by_cases hav : avail av c = true
  · rw [logitP_avail _ _ _ _ hc hav]; simp [hav]
  · have : avail av c = false := by simpa using hav
    rw [logitP_unavail _ _ _ _ this]; simp [this]

theorem logitP_range (alts : List Int) (V av : Int → ℝ) (c : Int) (hc : c ∈ alts) :
    0 ≤ logitP alts V av c ∧ logitP alts V av c ≤ 1 := by
  by_cases hav : avail av c = true
  · rw [logitP_avail _ _ _ _ hc hav]
    have hD := denom_pos alts V av c hc hav
    refine ⟨div_nonneg (Real.exp_pos _).le hD.le, ?_⟩
    rw [div_le_one hD, denom_real]
    exact mem_le_sum_map _ (fun j => Real.exp (V j)) (fun i _ => (Real.exp_pos _).le) c
      (List.mem_filter.2 ⟨hc, hav⟩)
  · have : avail av c = false := by simpa using hav
    rw [logitP_unavail _ _ _ _ this]
    exact ⟨le_rfl, zero_le_one⟩

theorem logitP_sum_one (alts : List Int) (V av : Int → ℝ) (h : ∃ i ∈ alts, avail av i = true) :
    (alts.map (logitP alts V av)).sum = 1 := by
  obtain ⟨i, hi, hav⟩ := h
  have hD := denom_pos alts V av i hi hav
  have h1 : alts.map (logitP alts V av) =
      alts.map (fun c => if avail av c = true then Real.exp (V c) / denom alts V av else 0) :=
    List.map_congr_left (fun c hc => logitP_eq_ite alts V av c hc)
  rw [h1, sum_map_ite_filter]
  have h2 : ((alts.filter (avail av)).map fun c => Real.exp (V c) / denom alts V av) =
      ((alts.filter (avail av)).map fun c => Real.exp (V c) * (denom alts V av)⁻¹) :=
    List.map_congr_left (fun c _ => div_eq_mul_inv _ _)
  rw [h2, List.sum_map_mul_right, ← denom_real]
  exact mul_inv_cancel₀ hD.ne'

/-- two utility dictionaries that differ by one constant *on the available alternatives* give the
same logit probabilities (the utilities of unavailable alternatives are not read) -/
theorem logitP_shift_on (alts : List Int) (U W av : Int → ℝ) (e : ℝ) (c : Int) (hc : c ∈ alts)
    (h : ∀ i ∈ alts, avail av i = true → W i = U i + e) :
    logitP alts W av c = logitP alts U av c := by
  by_cases hav : avail av c = true
  · rw [logitP_avail _ _ _ _ hc hav, logitP_avail _ _ _ _ hc hav]
    have hD := denom_pos alts U av c hc hav
    have hden : denom alts W av = Real.exp e * denom alts U av := by
      rw [denom_real, denom_real, ← List.sum_map_mul_left]
      congr 1
      apply List.map_congr_left
      intro j hj
      rcases List.mem_filter.1 hj with ⟨hj1, hj2⟩
      rw [h j hj1 hj2, Real.exp_add, mul_comm]
    rw [hden, h c hc hav, Real.exp_add]
    field_simp
  · have : avail av c = false := by simpa using hav
    rw [logitP_unavail _ _ _ _ this, logitP_unavail _ _ _ _ this]

/-- the log version under the same hypothesis: it moves by nothing either -/
theorem logLogit_shift_on (alts : List Int) (U W av : Int → ℝ) (e : ℝ) (c : Int) (hc : c ∈ alts)
    (h : ∀ i ∈ alts, avail av i = true → W i = U i + e) :
    logLogit alts W av c = logLogit alts U av c := by
  by_cases hav : avail av c = true
  · rw [logLogit_avail _ _ _ _ hav, logLogit_avail _ _ _ _ hav]
    have hD := denom_pos alts U av c hc hav
    have hden : denom alts W av = Real.exp e * denom alts U av := by
      rw [denom_real, denom_real, ← List.sum_map_mul_left]
      congr 1
      apply List.map_congr_left
      intro j hj
      rcases List.mem_filter.1 hj with ⟨hj1, hj2⟩
      rw [h j hj1 hj2, Real.exp_add, mul_comm]
    rw [hden, h c hc hav, Real.log_mul (Real.exp_pos e).ne' hD.ne', Real.log_exp]
    congr 1
    ring
  · have : avail av c = false := by simpa using hav
    rw [logLogit_unavail _ _ _ _ this, logLogit_unavail _ _ _ _ this]

/-- for an available alternative the log version is the log of the probability -/
theorem log_logitP (alts : List Int) (V av : Int → ℝ) (c : Int) (hav : avail av c = true) :
    ∃ l, logLogit alts V av c = some l ∧ Real.exp l = logitP alts V av c ∧
      Real.log (logitP alts V av c) = l := by
  refine ⟨V c - Real.log (denom alts V av), logLogit_avail _ _ _ _ hav, ?_, ?_⟩
  · unfold logitP; rw [logLogit_avail _ _ _ _ hav, expL_some]
  · unfold logitP; rw [logLogit_avail _ _ _ _ hav, expL_some, Real.log_exp]

/-! ## MEV -/

theorem mevP_eq_logitP (alts : List Int) (V logG av : Int → ℝ) (c : Int) :
    mevP alts V logG av c = logitP alts (fun i => V i + logG i) av c := rfl

/-- `ln G_i` is only read on the available alternatives of the choice set -/
theorem mevP_congr (alts : List Int) (V logG logG' av : Int → ℝ) (c : Int) (hc : c ∈ alts)
    (h : ∀ i ∈ alts, avail av i = true → logG' i = logG i) :
    mevP alts V logG' av c = mevP alts V logG av c := by
  rw [mevP_eq_logitP, mevP_eq_logitP]
  apply logitP_shift_on alts _ _ av 0 c hc
  intro i hi hav
  rw [h i hi hav]; ring

theorem logMev_congr (alts : List Int) (V logG logG' av : Int → ℝ) (c : Int) (hc : c ∈ alts)
    (h : ∀ i ∈ alts, avail av i = true → logG' i = logG i) :
    logMev alts V logG' av c = logMev alts V logG av c := by
  unfold logMev
  apply logLogit_shift_on alts _ _ av 0 c hc
  intro i hi hav
  rw [h i hi hav]; ring

/-- MEV: if a common shift `k` of the utilities moves every `ln G_i` (available `i`) by one and
the same constant `d`, the probabilities do not change -/
theorem mevP_shift (alts : List Int) (V logG logG' av : Int → ℝ) (k d : ℝ) (c : Int) (hc : c ∈ alts)
    (h : ∀ i ∈ alts, avail av i = true → logG' i = logG i + d) :
    mevP alts (fun i => V i + k) logG' av c = mevP alts V logG av c := by
  rw [mevP_eq_logitP, mevP_eq_logitP]
  apply logitP_shift_on alts _ _ av (k + d) c hc
  intro i hi hav
  rw [h i hi hav]; ring

end Models
