/-
Lemmas about the call level of the choice models (Model/ModelsBuild.lean): the kernel built from two
dictionaries is the semantic kernel of Model/Models.lean on the functions the dictionaries denote,
whatever the insertion order of the availability dictionary; endogenous-sampling MEV; one-alternative
nests; `check_union` after the constructor.
-/
import Model.ModelsBuild
import Proofs.Models
import Proofs.ModelsNested
import Proofs.ModelsNests
import Proofs.ModelsOrder
import Mathlib.Data.List.Perm.Basic

namespace Models

section generic
variable {α : Type} [NumOps α]

/-! ## dictionaries -/

theorem lookup_of_mem {β : Type} :
    ∀ (d : List (Int × β)), (d.map (·.1)).Nodup → ∀ p ∈ d, d.lookup p.1 = some p.2
  | [], _, p, hp => by cases hp
  | q :: d, hnd, p, hp => by
    rw [List.map_cons, List.nodup_cons] at hnd
    rcases List.mem_cons.1 hp with rfl | hp'
    · simp [List.lookup]
    · have hne : p.1 ≠ q.1 := by
        intro h
        exact hnd.1 (h ▸ List.mem_map_of_mem hp')
      have : (p.1 == q.1) = false := by simpa using hne
      rw [List.lookup_cons, this]
      exact lookup_of_mem d hnd.2 p hp'

theorem find_of_mem_keys {β : Type} :
    ∀ (d : List (Int × β)) (c : Int), c ∈ d.map (·.1) →
      ∃ v, d.find? (fun p => p.1 == c) = some (c, v) ∧ d.lookup c = some v
  | [], c, h => by cases h
  | q :: d, c, h => by
    by_cases hq : q.1 = c
    · subst hq
      exact ⟨q.2, by simp, by rw [List.lookup_cons, beq_self_eq_true]⟩
    · rw [List.map_cons] at h
      have hc : c ∈ d.map (·.1) := by
        rcases List.mem_cons.1 h with h1 | h1
        · exact absurd h1.symm hq
        · exact h1
      obtain ⟨v, h1, h2⟩ := find_of_mem_keys d c hc
      refine ⟨v, ?_, ?_⟩
      · rw [List.find?_cons]
        have : (q.1 == c) = false := by simpa using hq
        rw [this]
        exact h1
      · rw [List.lookup_cons]
        have : (c == q.1) = false := by simpa using fun h : c = q.1 => hq h.symm
        rw [this]
        exact h2

/-- two dictionaries with the same items in another insertion order answer every `d[k]` alike -/
theorem lookup_perm {β : Type} {a a' : List (Int × β)} (h : a.Perm a') :
    (a.map (·.1)).Nodup → ∀ k, a.lookup k = a'.lookup k := by
  induction h with
  | nil => intro _ _; rfl
  | cons x _ ih =>
    intro hnd k
    rw [List.map_cons, List.nodup_cons] at hnd
    rw [List.lookup_cons, List.lookup_cons, ih hnd.2 k]
  | swap x y l =>
    intro hnd k
    rw [List.map_cons, List.map_cons, List.nodup_cons] at hnd
    have hne : y.1 ≠ x.1 := fun h => hnd.1 (h ▸ List.mem_cons_self)
    rw [List.lookup_cons, List.lookup_cons, List.lookup_cons, List.lookup_cons]
    by_cases h1 : k = y.1
    · have h2 : (k == x.1) = false := by simpa using fun h : k = x.1 => hne (h1.symm.trans h)
      have h1' : (k == y.1) = true := by simpa using h1
      rw [h1', h2]
    · have h1' : (k == y.1) = false := by simpa using h1
      rw [h1']
  | trans h1 _ ih1 ih2 =>
    intro hnd k
    have hnd' := ((h1.map (·.1)).nodup_iff).1 hnd
    rw [ih1 hnd k, ih2 hnd' k]

/-! ## dict comprehensions with look-ups -/

theorem mapKeys_ok {β γ : Type} (f : Int → β → Option γ) (g : Int → β → γ) :
    ∀ (d : List (Int × β)), (∀ p ∈ d, f p.1 p.2 = some (g p.1 p.2)) →
      mapKeys f d = .ok (d.map fun p => (p.1, g p.1 p.2))
  | [], _ => rfl
  | q :: d, h => by
    have ih := mapKeys_ok f g d (fun p hp => h p (List.mem_cons_of_mem _ hp))
    unfold mapKeys
    rw [h q List.mem_cons_self, ih]
    rfl

theorem mapKeys_missing {β γ : Type} (f : Int → β → Option γ) :
    ∀ (d : List (Int × β)), (∃ p ∈ d, f p.1 p.2 = none) → mapKeys f d = .error "KeyError"
  | [], h => by obtain ⟨p, hp, _⟩ := h; cases hp
  | q :: d, h => by
    unfold mapKeys
    cases hq : f q.1 q.2 with
    | none => rfl
    | some y =>
      have : ∃ p ∈ d, f p.1 p.2 = none := by
        obtain ⟨p, hp, hn⟩ := h
        rcases List.mem_cons.1 hp with rfl | hp'
        · rw [hq] at hn; cases hn
        · exact ⟨p, hp', hn⟩
      simp only []
      rw [mapKeys_missing f d this]

/-! ## the kernel built from the dictionaries -/

open Num in
theorem kernelTriples_none (util : List (Int × α)) :
    kernelTriples util none = .ok (util.map fun p => (p.1, p.2, (1 : α))) := rfl

/-- every key of `util` is a key of `av`: the triples carry the availability found BY KEY -/
theorem kernelTriples_some (a util : List (Int × α))
    (h : ∀ p ∈ util, ∃ x, dictGet a p.1 = some x) :
    kernelTriples util (some a) = .ok (util.map fun p => (p.1, p.2, dictFun a p.1)) := by
  unfold kernelTriples
  apply mapKeys_ok (fun i v => (dictGet a i).map fun x => (v, x)) (fun i v => (v, dictFun a i))
  intro p hp
  obtain ⟨x, hx⟩ := h p hp
  simp [dictFun, hx]

/-- a key of `util` that the availability dictionary lacks: `KeyError` -/
theorem kernelTriples_missing (a util : List (Int × α)) (h : ∃ p ∈ util, dictGet a p.1 = none) :
    kernelTriples util (some a) = .error "KeyError" := by
  unfold kernelTriples
  apply mapKeys_missing
  obtain ⟨p, hp, hn⟩ := h
  exact ⟨p, hp, by simp [hn]⟩

open Num in
/-- the engine kernel on the triples `(label, util value, A label)` is the semantic kernel on the
functions the dictionaries denote (any `NumOps`, hence also the `Float` the driver runs) -/
theorem kernelValue_map (util : List (Int × α)) (A : Int → α) (hnd : (util.map (·.1)).Nodup)
    (c : Int) (hc : c ∈ util.map (·.1)) :
    kernelValue (util.map fun p => (p.1, p.2, A p.1)) c =
      .ok (logLogit (util.map (·.1)) (dictFun util) A c) := by
  obtain ⟨v, hf, hl⟩ := find_of_mem_keys util c hc
  have hfind : (util.map fun p => (p.1, p.2, A p.1)).find? (fun t => t.1 == c) = some (c, v, A c) := by
    rw [List.find?_map]
    have : ((fun t : Int × α × α => t.1 == c) ∘ fun p : Int × α => (p.1, p.2, A p.1)) =
        fun p : Int × α => p.1 == c := rfl
    rw [this, hf]
    rfl
  have hsum : ((liveTriples (util.map fun p => (p.1, p.2, A p.1))).map fun t => Num.exp t.2.1) =
      (((util.map (·.1)).filter (avail A)).map fun j => Num.exp (dictFun util j)) := by
    unfold liveTriples
    rw [List.filter_map, List.map_map, List.filter_map, List.map_map]
    have hfil : (List.filter ((fun t : Int × α × α => !Num.eq t.2.2 0) ∘ fun p : Int × α => (p.1, p.2, A p.1)) util) =
        List.filter (avail A ∘ fun p : Int × α => p.1) util := rfl
    rw [hfil]
    apply List.map_congr_left
    intro p hp
    have hp' := (List.mem_filter.1 hp).1
    simp only [Function.comp_apply, dictFun, dictGet, lookup_of_mem util hnd p hp', Option.getD_some]
  have hV : dictFun util c = v := by simp [dictFun, dictGet, hl]
  unfold kernelValue
  rw [hfind]
  dsimp only
  unfold logLogit denom
  rw [← hsum, hV]
  unfold avail
  cases h0 : Num.eq (A c) (0 : α) <;> rfl

theorem bioLogLogit_ok (util : List (Int × α)) (av : Option (List (Int × α))) (c : Int)
    (ts : List (Int × α × α)) (h : kernelTriples util av = .ok ts) :
    bioLogLogit util av c = kernelValue ts c := by
  unfold bioLogLogit
  rw [h]
  rfl

theorem bioLogLogit_error (util : List (Int × α)) (av : Option (List (Int × α))) (c : Int)
    (e : String) (h : kernelTriples util av = .error e) : bioLogLogit util av c = .error e := by
  unfold bioLogLogit
  rw [h]
  rfl

theorem loglogitCall_some (util a : List (Int × α)) (c : Int) :
    loglogitCall util (some a) c = bioLogLogit util (some a) c := rfl

theorem loglogitCall_none (util : List (Int × α)) (c : Int) :
    loglogitCall util none c = bioLogLogit util none c := rfl

/-- the audit guarantees what `get_signature` needs: every key of `util` has an availability -/
theorem keysAgree_keys {β γ : Type} (util : List (Int × β)) (a : List (Int × γ))
    (h : keysAgree util a = true) : ∀ p ∈ util, ∃ x, dictGet a p.1 = some x := by
  unfold keysAgree at h
  rw [Bool.and_eq_true, List.all_eq_true] at h
  intro p hp
  exact Option.isSome_iff_exists.1 (h.1 p hp)

theorem loglogitEval_agree (util a : List (Int × α)) (c : Int) (h : keysAgree util a = true) :
    loglogitEval util (some a) c = loglogitCall util (some a) c := by
  unfold loglogitEval auditKernel
  dsimp only
  rw [if_pos h]
  rfl

theorem loglogitEval_disagree (util a : List (Int × α)) (c : Int) (h : keysAgree util a = false) :
    loglogitEval util (some a) c = .error "BiogemeError" := by
  unfold loglogitEval auditKernel
  dsimp only
  rw [h]
  rfl

theorem loglogitEval_none (util : List (Int × α)) (c : Int) :
    loglogitEval util none c = loglogitCall util none c := rfl

/-! ## the dictionary `h` of the MEV calls -/

theorem keys_mapped {β γ : Type} (d : List (Int × β)) (g : Int → β → γ) :
    (d.map fun p => (p.1, g p.1 p.2)).map (·.1) = d.map (·.1) := by
  rw [List.map_map]
  rfl

theorem dictFun_mapped (util : List (Int × α)) (g : Int → α → α) (hnd : (util.map (·.1)).Nodup)
    (p : Int × α) (hp : p ∈ util) :
    dictFun (util.map fun q => (q.1, g q.1 q.2)) p.1 = g p.1 p.2 := by
  have hnd' : ((util.map fun q => (q.1, g q.1 q.2)).map (·.1)).Nodup := by
    rw [keys_mapped]; exact hnd
  have hm : (p.1, g p.1 p.2) ∈ util.map fun q => (q.1, g q.1 q.2) :=
    List.mem_map.2 ⟨p, hp, rfl⟩
  have := lookup_of_mem _ hnd' _ hm
  simp only [dictFun, dictGet] at this ⊢
  rw [this]
  rfl

theorem dictFun_self (util : List (Int × α)) (hnd : (util.map (·.1)).Nodup) (p : Int × α)
    (hp : p ∈ util) : dictFun util p.1 = p.2 := by
  simp only [dictFun, dictGet, lookup_of_mem util hnd p hp, Option.getD_some]

theorem logLogit_congr_on (alts : List Int) (V V' av : Int → α) (c : Int) (hc : c ∈ alts)
    (h : ∀ i ∈ alts, V i = V' i) : logLogit alts V av c = logLogit alts V' av c := by
  have hm : ((alts.filter (avail av)).map fun j => Num.exp (V j)) =
      ((alts.filter (avail av)).map fun j => Num.exp (V' j)) :=
    List.map_congr_left fun j hj => by rw [h j (List.mem_filter.1 hj).1]
  unfold logLogit denom
  rw [h c hc, hm]

theorem logmevCall_ok (util logG h : List (Int × α)) (av : Option (List (Int × α))) (c : Int)
    (hh : hDict util logG = .ok h) : logmevCall util logG av c = loglogitCall h av c := by
  unfold logmevCall loglogitCall
  rw [hh]
  rfl

theorem logmevESCall_ok (util logG corr h : List (Int × α)) (av : Option (List (Int × α))) (c : Int)
    (hh : hDictES util logG corr = .ok h) :
    logmevESCall util logG corr av c = bioLogLogit h av c := by
  unfold logmevESCall
  rw [hh]
  rfl

end generic

/-! ## endogenous sampling (over the reals) -/

theorem mevESP_eq_logitP (alts : List Int) (V logG corr av : Int → ℝ) (c : Int) :
    mevESP alts V logG corr av c = logitP alts (fun i => V i + logG i + corr i) av c := rfl

theorem logMevES_zero (alts : List Int) (V logG av : Int → ℝ) (c : Int) :
    logMevES alts V logG (fun _ => 0) av c = logMev alts V logG av c := by
  unfold logMevES logMev
  congr 1
  funext i
  simp

/-! ## a nest with exactly one alternative -/

theorem nestSum_singleton (V av : Int → ℝ) (m : Nest ℝ) (i : Int) (hm : m.alts = [i])
    (hav : avail av i = true) : nestSum V av m = Real.exp (m.mu * V i) := by
  rw [nestSum_real, hm]
  simp [hav]

theorem nestedLogG_singleton (nests : List (Nest ℝ)) (V av : Int → ℝ) (i : Int) (m : Nest ℝ)
    (h : findNest nests i = some m) (hm : m.alts = [i]) (hav : avail av i = true) (hmu : m.mu ≠ 0) :
    nestedLogG nests V av i = 0 := by
  rw [nestedLogG_some nests V av i m h, nestSum_singleton V av m i hm hav, Real.log_exp]
  field_simp
  ring

theorem nestedMuLogG_singleton (nests : List (Nest ℝ)) (mu : ℝ) (V av : Int → ℝ) (i : Int)
    (m : Nest ℝ) (h : findNest nests i = some m) (hm : m.alts = [i]) (hav : avail av i = true)
    (hmu : m.mu ≠ 0) :
    nestedMuLogG nests mu V av i = Real.log mu + (mu - 1) * V i := by
  rw [nestedMuLogG_some nests mu V av i m h, nestSum_singleton V av m i hm hav, Real.log_exp]
  field_simp
  ring

/-! ## `check_union` after the constructor -/

theorem mem_aloneOf' (cs : List Int) (lists : List (List Int)) (i : Int) :
    i ∈ aloneOf cs lists ↔ i ∈ cs ∧ i ∉ unionAlts lists := by
  unfold aloneOf
  rw [List.mem_eraseDups, List.mem_filter]
  simp

/-- an object that passed `Nests.__init__` (no member outside the choice set) always passes
`check_union`, i.e. `check_validity` -/
theorem checkUnion_of_mkNests {ν : Type} (altsOf : ν → List Int) (cs : List Int) (ns : List ν)
    (o : NestsObj ν) (h : mkNests altsOf cs ns = .ok o) :
    checkUnion o.choiceSet (o.nests.map altsOf) = true := by
  unfold mkNests at h
  by_cases hany : ((unionAlts (ns.map altsOf)).any fun i => !cs.contains i) = true
  · rw [if_pos hany] at h; cases h
  · rw [if_neg hany] at h
    have ho : o = ⟨cs, ns⟩ := by
      injection h with h'
      exact h'.symm
    subst ho
    rw [checkUnion_iff]
    have hin : ∀ i ∈ unionAlts (ns.map altsOf), i ∈ cs := by
      intro i hi
      by_contra hni
      apply hany
      rw [List.any_eq_true]
      exact ⟨i, hi, by simpa using hni⟩
    refine ⟨fun i hi => ?_, fun i hi => ?_⟩
    · by_cases hu : i ∈ unionAlts (ns.map altsOf)
      · exact Or.inl hu
      · exact Or.inr ((mem_aloneOf' _ _ _).2 ⟨hi, hu⟩)
    · rcases hi with hu | ha
      · exact hin i hu
      · exact ((mem_aloneOf' _ _ _).1 ha).1

end Models
