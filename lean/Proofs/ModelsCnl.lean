/-
Cross-nested logit over `ℝ`: the nest sums, the terms of `ln G_i`, their behaviour under a
common shift of the utilities, positivity (reachability).
-/
import Proofs.Models

namespace Models

/-! ## lists of terms -/

theorem giTerms_nil {α : Type} [NumOps α] (term : CNest α → Int → α → α) (i : Int) :
    giTerms term [] i = [] := rfl

theorem giTerms_cons {α : Type} [NumOps α] (term : CNest α → Int → α → α) (m : CNest α)
    (ms : List (CNest α)) (i : Int) :
    giTerms term (m :: ms) i =
      ((m.alphas.filter fun p => p.1 == i).map fun p => term m i p.2) ++ giTerms term ms i := by
  unfold giTerms
  rw [List.flatMap_cons]

theorem mem_giTerms {α : Type} [NumOps α] (term : CNest α → Int → α → α) (i : Int) (x : α)
    (nests : List (CNest α)) :
    x ∈ giTerms term nests i ↔ ∃ m ∈ nests, ∃ p ∈ m.alphas, p.1 = i ∧ term m i p.2 = x := by
  unfold giTerms
  simp only [List.mem_flatMap, List.mem_map, List.mem_filter, beq_iff_eq]
  constructor
  · rintro ⟨m, hm, p, ⟨hp, hpi⟩, rfl⟩
    exact ⟨m, hm, p, hp, hpi, rfl⟩
  · rintro ⟨m, hm, p, hp, hpi, rfl⟩
    exact ⟨m, hm, p, ⟨hp, hpi⟩, rfl⟩

/-! ## zero membership (`get_mev_for_cross_nested_mu`) -/

theorem zeroMember_iff (nests : List (CNest ℝ)) (i : Int) :
    zeroMember nests i = true ↔ ∀ m ∈ nests, ∀ p ∈ m.alphas, p.1 = i → p.2 = 0 := by
  unfold zeroMember
  rw [List.all_eq_true]
  constructor
  · intro h m hm p hp hpi
    have := h p.2 ((mem_giTerms _ i p.2 nests).2 ⟨m, hm, p, hp, hpi, rfl⟩)
    simpa using this
  · intro h x hx
    obtain ⟨m, hm, p, hp, hpi, rfl⟩ := (mem_giTerms _ i x nests).1 hx
    simpa using h m hm p hp hpi

theorem zeroMember_false_of_pos (nests : List (CNest ℝ)) (i : Int)
    (h : ∃ m ∈ nests, ∃ p ∈ m.alphas, p.1 = i ∧ 0 < p.2) : zeroMember nests i = false := by
  obtain ⟨m, hm, p, hp, hpi, hpos⟩ := h
  rw [Bool.eq_false_iff]
  intro hz
  have := (zeroMember_iff nests i).1 hz m hm p hp hpi
  linarith

/-- not every membership is zero and none is negative: one is positive -/
theorem pos_of_zeroMember_false (nests : List (CNest ℝ)) (i : Int)
    (hnn : ∀ m ∈ nests, ∀ p ∈ m.alphas, 0 ≤ p.2) (h : zeroMember nests i = false) :
    ∃ m ∈ nests, ∃ p ∈ m.alphas, p.1 = i ∧ 0 < p.2 := by
  by_contra hne
  have : zeroMember nests i = true := by
    rw [zeroMember_iff]
    intro m hm p hp hpi
    by_contra h0
    exact hne ⟨m, hm, p, hp, hpi, lt_of_le_of_ne (hnn m hm p hp) (Ne.symm h0)⟩
  rw [h] at this
  cases this

theorem cnlMuLogG_listed (nests : List (CNest ℝ)) (mu : ℝ) (V av : Int → ℝ) (i : Int)
    (h : inSomeCNest nests i = true) (hz : zeroMember nests i = false) :
    cnlMuLogG nests mu V av i = Real.log (mu * (giTerms (cnlMuTerm mu V av) nests i).sum) := by
  unfold cnlMuLogG
  rw [h, hz, NumR.sum_real]
  simp

theorem cnlMuLogG_alone (nests : List (CNest ℝ)) (mu : ℝ) (V av : Int → ℝ) (i : Int)
    (h : inSomeCNest nests i = false ∨ zeroMember nests i = true) :
    cnlMuLogG nests mu V av i = Real.log mu + (mu - 1) * V i := by
  unfold cnlMuLogG
  rcases h with h | h
  · rw [h]; simp
  · rw [h]; simp

theorem sum_giTerms_scale (term term' : CNest ℝ → Int → ℝ → ℝ) (c : ℝ) (i : Int) :
    ∀ (nests : List (CNest ℝ)), (∀ m ∈ nests, ∀ a, term' m i a = c * term m i a) →
      (giTerms term' nests i).sum = c * (giTerms term nests i).sum
  | [], _ => by simp [giTerms_nil]
  | m :: ms, h => by
    rw [giTerms_cons, giTerms_cons, List.sum_append, List.sum_append,
      sum_giTerms_scale term term' c i ms (fun n hn => h n (List.mem_cons_of_mem _ hn)), mul_add,
      ← List.sum_map_mul_left]
    congr 2
    apply List.map_congr_left
    intro p _
    exact h m List.mem_cons_self p.2

theorem sum_giTerms_nonneg (term : CNest ℝ → Int → ℝ → ℝ) (i : Int) :
    ∀ (nests : List (CNest ℝ)), (∀ m ∈ nests, ∀ p ∈ m.alphas, 0 ≤ term m i p.2) →
      0 ≤ (giTerms term nests i).sum
  | [], _ => by simp [giTerms_nil]
  | m :: ms, h => by
    rw [giTerms_cons, List.sum_append]
    apply add_nonneg
    · apply sum_map_nonneg
      intro p hp
      exact h m List.mem_cons_self p (List.mem_filter.1 hp).1
    · exact sum_giTerms_nonneg term i ms (fun n hn => h n (List.mem_cons_of_mem _ hn))

theorem sum_giTerms_pos (term : CNest ℝ → Int → ℝ → ℝ) (i : Int) :
    ∀ (nests : List (CNest ℝ)), (∀ m ∈ nests, ∀ p ∈ m.alphas, 0 ≤ term m i p.2) →
      (∃ m ∈ nests, ∃ p ∈ m.alphas, p.1 = i ∧ 0 < term m i p.2) →
      0 < (giTerms term nests i).sum
  | [], _, h => by obtain ⟨m, hm, _⟩ := h; cases hm
  | m :: ms, hnn, h => by
    rw [giTerms_cons, List.sum_append]
    have h0 : 0 ≤ ((m.alphas.filter fun p => p.1 == i).map fun p => term m i p.2).sum := by
      apply sum_map_nonneg
      intro p hp
      exact hnn m List.mem_cons_self p (List.mem_filter.1 hp).1
    have h1 : 0 ≤ (giTerms term ms i).sum :=
      sum_giTerms_nonneg term i ms (fun n hn => hnn n (List.mem_cons_of_mem _ hn))
    obtain ⟨n, hn, p, hp, hpi, hpos⟩ := h
    rcases List.mem_cons.1 hn with rfl | hn'
    · have : 0 < ((n.alphas.filter fun p => p.1 == i).map fun p => term n i p.2).sum := by
        apply sum_map_pos_of_mem _ _ _ p
        · exact List.mem_filter.2 ⟨hp, by simp [hpi]⟩
        · exact hpos
        · intro q hq
          exact hnn n List.mem_cons_self q (List.mem_filter.1 hq).1
      linarith
    · have := sum_giTerms_pos term i ms (fun n hn => hnn n (List.mem_cons_of_mem _ hn))
        ⟨n, hn', p, hp, hpi, hpos⟩
      linarith

/-! ## the nest sum `biosum` -/

theorem cnlBiosum_real (V av : Int → ℝ) (m : CNest ℝ) (e : ℝ) :
    cnlBiosum V av m e =
      (m.alphas.map fun p => av p.1 * p.2 ^ e * Real.exp (m.mu * V p.1)).sum := by
  unfold cnlBiosum
  rw [NumR.sum_real]
  congr 1
  apply List.map_congr_left
  intro p _
  simp

theorem cnlBiosum_shift (V av : Int → ℝ) (m : CNest ℝ) (e k : ℝ) :
    cnlBiosum (fun j => V j + k) av m e = Real.exp (m.mu * k) * cnlBiosum V av m e := by
  rw [cnlBiosum_real, cnlBiosum_real, ← List.sum_map_mul_left]
  congr 1
  apply List.map_congr_left
  intro p _
  have : Real.exp (m.mu * (V p.1 + k)) = Real.exp (m.mu * k) * Real.exp (m.mu * V p.1) := by
    rw [← Real.exp_add]; congr 1; ring
  rw [this]; ring

theorem cnlBiosum_nonneg (V av : Int → ℝ) (m : CNest ℝ) (e : ℝ)
    (ha : ∀ p ∈ m.alphas, 0 ≤ p.2) (hav : ∀ j, 0 ≤ av j) : 0 ≤ cnlBiosum V av m e := by
  rw [cnlBiosum_real]
  apply sum_map_nonneg
  intro p hp
  exact mul_nonneg (mul_nonneg (hav _) (Real.rpow_nonneg (ha p hp) _)) (Real.exp_pos _).le

theorem cnlBiosum_pos (V av : Int → ℝ) (m : CNest ℝ) (e : ℝ)
    (ha : ∀ p ∈ m.alphas, 0 ≤ p.2) (hav : ∀ j, 0 ≤ av j)
    (p : Int × ℝ) (hp : p ∈ m.alphas) (hpa : 0 < p.2) (hpv : 0 < av p.1) :
    0 < cnlBiosum V av m e := by
  rw [cnlBiosum_real]
  apply sum_map_pos_of_mem _ _ _ p hp
  · exact mul_pos (mul_pos hpv (Real.rpow_pos_of_pos hpa _)) (Real.exp_pos _)
  · intro q hq
    exact mul_nonneg (mul_nonneg (hav _) (Real.rpow_nonneg (ha q hq) _)) (Real.exp_pos _).le

/-! ## the terms -/

theorem cnlTerm_real (V av : Int → ℝ) (m : CNest ℝ) (i : Int) (a : ℝ) :
    cnlTerm V av m i a =
      a ^ m.mu * Real.exp ((m.mu - 1) * V i) * (cnlBiosum V av m m.mu) ^ ((1 - m.mu) / m.mu) := by
  unfold cnlTerm
  simp

theorem cnlMuTerm_real (mu : ℝ) (V av : Int → ℝ) (m : CNest ℝ) (i : Int) (a : ℝ) :
    cnlMuTerm mu V av m i a =
      a ^ (m.mu / mu) * Real.exp ((m.mu - 1) * V i) *
        (cnlBiosum V av m (m.mu / mu)) ^ (mu / m.mu - 1) := by
  unfold cnlMuTerm
  simp

/-- a term of `ln G_i` of the cross-nested logit does not move under a common shift -/
theorem cnlTerm_shift (V av : Int → ℝ) (m : CNest ℝ) (i : Int) (a k : ℝ) (hm : m.mu ≠ 0)
    (hB : 0 ≤ cnlBiosum V av m m.mu) :
    cnlTerm (fun j => V j + k) av m i a = cnlTerm V av m i a := by
  rw [cnlTerm_real, cnlTerm_real, cnlBiosum_shift, Real.mul_rpow (Real.exp_pos _).le hB,
    ← Real.exp_mul]
  have : Real.exp ((m.mu - 1) * (V i + k)) * Real.exp (m.mu * k * ((1 - m.mu) / m.mu)) =
      Real.exp ((m.mu - 1) * V i) := by
    rw [← Real.exp_add]; congr 1; field_simp; ring
  calc a ^ m.mu * Real.exp ((m.mu - 1) * (V i + k)) *
        (Real.exp (m.mu * k * ((1 - m.mu) / m.mu)) * cnlBiosum V av m m.mu ^ ((1 - m.mu) / m.mu))
      = a ^ m.mu * (Real.exp ((m.mu - 1) * (V i + k)) * Real.exp (m.mu * k * ((1 - m.mu) / m.mu))) *
          cnlBiosum V av m m.mu ^ ((1 - m.mu) / m.mu) := by ring
    _ = _ := by rw [this]

/-- with the scale `mu`: every term is multiplied by `exp((mu - 1) k)` -/
theorem cnlMuTerm_shift (mu : ℝ) (V av : Int → ℝ) (m : CNest ℝ) (i : Int) (a k : ℝ) (hm : m.mu ≠ 0)
    (hB : 0 ≤ cnlBiosum V av m (m.mu / mu)) :
    cnlMuTerm mu (fun j => V j + k) av m i a = Real.exp ((mu - 1) * k) * cnlMuTerm mu V av m i a := by
  rw [cnlMuTerm_real, cnlMuTerm_real, cnlBiosum_shift, Real.mul_rpow (Real.exp_pos _).le hB,
    ← Real.exp_mul]
  have : Real.exp ((m.mu - 1) * (V i + k)) * Real.exp (m.mu * k * (mu / m.mu - 1)) =
      Real.exp ((mu - 1) * k) * Real.exp ((m.mu - 1) * V i) := by
    rw [← Real.exp_add, ← Real.exp_add]; congr 1; field_simp; ring
  calc a ^ (m.mu / mu) * Real.exp ((m.mu - 1) * (V i + k)) *
        (Real.exp (m.mu * k * (mu / m.mu - 1)) * cnlBiosum V av m (m.mu / mu) ^ (mu / m.mu - 1))
      = a ^ (m.mu / mu) * (Real.exp ((m.mu - 1) * (V i + k)) * Real.exp (m.mu * k * (mu / m.mu - 1))) *
          cnlBiosum V av m (m.mu / mu) ^ (mu / m.mu - 1) := by ring
    _ = _ := by rw [this]; ring

/-! ## `ln G_i` under a common shift -/

/-- well-formed cross-nested structure: allocation parameters and availabilities are not
negative, nest parameters are not zero -/
structure CnlOK (nests : List (CNest ℝ)) (av : Int → ℝ) : Prop where
  alpha_nonneg : ∀ m ∈ nests, ∀ p ∈ m.alphas, 0 ≤ p.2
  av_nonneg : ∀ j, 0 ≤ av j
  mu_ne : ∀ m ∈ nests, m.mu ≠ 0

theorem cnlLogG_shift (nests : List (CNest ℝ)) (V av : Int → ℝ) (k : ℝ) (i : Int)
    (ok : CnlOK nests av) :
    cnlLogG nests (fun j => V j + k) av i = cnlLogG nests V av i := by
  unfold cnlLogG
  by_cases h : inSomeCNest nests i = true
  · rw [if_pos h, if_pos h, NumR.sum_real, NumR.sum_real]
    have := sum_giTerms_scale (cnlTerm V av) (cnlTerm (fun j => V j + k) av) 1 i nests (by
      intro m hm a
      rw [one_mul]
      exact cnlTerm_shift V av m i a k (ok.mu_ne m hm)
        (cnlBiosum_nonneg V av m m.mu (ok.alpha_nonneg m hm) ok.av_nonneg))
    rw [this, one_mul]
  · rw [if_neg h, if_neg h]

/-- every available alternative has a positive allocation in some nest -/
def Reachable (nests : List (CNest ℝ)) (i : Int) : Prop :=
  inSomeCNest nests i = true → ∃ m ∈ nests, ∃ p ∈ m.alphas, p.1 = i ∧ 0 < p.2

theorem cnlMuTerm_nonneg (mu : ℝ) (V av : Int → ℝ) (m : CNest ℝ) (i : Int) (a : ℝ) (ha : 0 ≤ a)
    (hB : 0 ≤ cnlBiosum V av m (m.mu / mu)) : 0 ≤ cnlMuTerm mu V av m i a := by
  rw [cnlMuTerm_real]
  exact mul_nonneg (mul_nonneg (Real.rpow_nonneg ha _) (Real.exp_pos _).le) (Real.rpow_nonneg hB _)

theorem cnlTerm_nonneg (V av : Int → ℝ) (m : CNest ℝ) (i : Int) (a : ℝ) (ha : 0 ≤ a)
    (hB : 0 ≤ cnlBiosum V av m m.mu) : 0 ≤ cnlTerm V av m i a := by
  rw [cnlTerm_real]
  exact mul_nonneg (mul_nonneg (Real.rpow_nonneg ha _) (Real.exp_pos _).le) (Real.rpow_nonneg hB _)

/-- reachability makes the sum of the terms positive (so its logarithm is a real number) -/
theorem sum_cnlMuTerms_pos (nests : List (CNest ℝ)) (mu : ℝ) (V av : Int → ℝ) (i : Int)
    (ok : CnlOK nests av) (havi : 0 < av i)
    (hr : ∃ m ∈ nests, ∃ p ∈ m.alphas, p.1 = i ∧ 0 < p.2) :
    0 < (giTerms (cnlMuTerm mu V av) nests i).sum := by
  apply sum_giTerms_pos
  · intro m hm p hp
    exact cnlMuTerm_nonneg mu V av m i p.2 (ok.alpha_nonneg m hm p hp)
      (cnlBiosum_nonneg V av m _ (ok.alpha_nonneg m hm) ok.av_nonneg)
  · obtain ⟨m, hm, p, hp, hpi, hpos⟩ := hr
    refine ⟨m, hm, p, hp, hpi, ?_⟩
    rw [cnlMuTerm_real]
    have hB : 0 < cnlBiosum V av m (m.mu / mu) :=
      cnlBiosum_pos V av m _ (ok.alpha_nonneg m hm) ok.av_nonneg p hp hpos (by rw [hpi]; exact havi)
    exact mul_pos (mul_pos (Real.rpow_pos_of_pos hpos _) (Real.exp_pos _)) (Real.rpow_pos_of_pos hB _)

theorem sum_cnlTerms_pos (nests : List (CNest ℝ)) (V av : Int → ℝ) (i : Int)
    (ok : CnlOK nests av) (havi : 0 < av i)
    (hr : ∃ m ∈ nests, ∃ p ∈ m.alphas, p.1 = i ∧ 0 < p.2) :
    0 < (giTerms (cnlTerm V av) nests i).sum := by
  apply sum_giTerms_pos
  · intro m hm p hp
    exact cnlTerm_nonneg V av m i p.2 (ok.alpha_nonneg m hm p hp)
      (cnlBiosum_nonneg V av m _ (ok.alpha_nonneg m hm) ok.av_nonneg)
  · obtain ⟨m, hm, p, hp, hpi, hpos⟩ := hr
    refine ⟨m, hm, p, hp, hpi, ?_⟩
    rw [cnlTerm_real]
    have hB : 0 < cnlBiosum V av m m.mu :=
      cnlBiosum_pos V av m _ (ok.alpha_nonneg m hm) ok.av_nonneg p hp hpos (by rw [hpi]; exact havi)
    exact mul_pos (mul_pos (Real.rpow_pos_of_pos hpos _) (Real.exp_pos _)) (Real.rpow_pos_of_pos hB _)

theorem avail_pos (av : Int → ℝ) (i : Int) (hnn : ∀ j, 0 ≤ av j) (h : avail av i = true) : 0 < av i :=
  lt_of_le_of_ne (hnn i) (Ne.symm ((avail_iff av i).1 h))

/-- cross-nested logit with scale `mu`: `ln G_i` of an available, reachable alternative moves by
`(mu - 1) k` -/
theorem cnlMuLogG_shift (nests : List (CNest ℝ)) (mu : ℝ) (V av : Int → ℝ) (k : ℝ) (i : Int)
    (ok : CnlOK nests av) (hmu : mu ≠ 0) (hav : avail av i = true) (hr : Reachable nests i) :
    cnlMuLogG nests mu (fun j => V j + k) av i = cnlMuLogG nests mu V av i + (mu - 1) * k := by
  by_cases h : inSomeCNest nests i = true
  · have hz := zeroMember_false_of_pos nests i (hr h)
    rw [cnlMuLogG_listed _ _ _ _ _ h hz, cnlMuLogG_listed _ _ _ _ _ h hz]
    have hs := sum_giTerms_scale (cnlMuTerm mu V av) (cnlMuTerm mu (fun j => V j + k) av)
      (Real.exp ((mu - 1) * k)) i nests (by
      intro m hm a
      exact cnlMuTerm_shift mu V av m i a k (ok.mu_ne m hm)
        (cnlBiosum_nonneg V av m _ (ok.alpha_nonneg m hm) ok.av_nonneg))
    have hpos := sum_cnlMuTerms_pos nests mu V av i ok (avail_pos av i ok.av_nonneg hav) (hr h)
    rw [hs, ← mul_assoc, mul_comm mu, mul_assoc,
      Real.log_mul (Real.exp_pos _).ne' (mul_ne_zero hmu hpos.ne'), Real.log_exp]
    ring
  · have h' : inSomeCNest nests i = false := by simpa using h
    rw [cnlMuLogG_alone _ _ _ _ _ (Or.inl h'), cnlMuLogG_alone _ _ _ _ _ (Or.inl h')]
    ring

theorem cnlP_eq_mevP (nests : List (CNest ℝ)) (alts : List Int) (V av : Int → ℝ) (c : Int) :
    cnlP nests alts V av c = mevP alts V (cnlLogG nests V av) av c := rfl

theorem cnlMuP_eq_mevP (nests : List (CNest ℝ)) (mu : ℝ) (alts : List Int) (V av : Int → ℝ) (c : Int) :
    cnlMuP nests mu alts V av c = mevP alts V (cnlMuLogG nests mu V av) av c := rfl

theorem cnlP_shift (nests : List (CNest ℝ)) (alts : List Int) (V av : Int → ℝ) (k : ℝ) (c : Int)
    (hc : c ∈ alts) (ok : CnlOK nests av) :
    cnlP nests alts (fun j => V j + k) av c = cnlP nests alts V av c := by
  rw [cnlP_eq_mevP, cnlP_eq_mevP]
  apply mevP_shift alts V _ _ av k 0 c hc
  intro i _ _
  rw [cnlLogG_shift nests V av k i ok]; ring

theorem cnlMuP_shift (nests : List (CNest ℝ)) (mu : ℝ) (alts : List Int) (V av : Int → ℝ) (k : ℝ)
    (c : Int) (hc : c ∈ alts) (ok : CnlOK nests av) (hmu : mu ≠ 0)
    (hr : ∀ i ∈ alts, avail av i = true → Reachable nests i) :
    cnlMuP nests mu alts (fun j => V j + k) av c = cnlMuP nests mu alts V av c := by
  rw [cnlMuP_eq_mevP, cnlMuP_eq_mevP]
  apply mevP_shift alts V _ _ av k ((mu - 1) * k) c hc
  intro i hi hav
  exact cnlMuLogG_shift nests mu V av k i ok hmu hav (hr i hi hav)

end Models
