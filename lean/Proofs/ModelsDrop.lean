/-
Unavailable alternatives are irrelevant: removing them from the dictionaries and from the nests
changes no probability (logit, nested, cross-nested).  This is the relation the harness checks
on the real code ("dropped-unavailable relation").
-/
import Proofs.ModelsNested
import Proofs.ModelsCnl

namespace Models

theorem denom_filter (alts : List Int) (V av : Int → ℝ) :
    denom (alts.filter (avail av)) V av = denom alts V av := by
  rw [denom_real, denom_real, List.filter_filter]
  simp

theorem logitP_drop (alts : List Int) (V av : Int → ℝ) (c : Int) :
    logitP (alts.filter (avail av)) V av c = logitP alts V av c := by
  unfold logitP logLogit
  rw [denom_filter]

/-! ## nested -/

/-- a nest without its unavailable members -/
noncomputable def restrictNest (av : Int → ℝ) (m : Nest ℝ) : Nest ℝ := ⟨m.mu, m.alts.filter (avail av)⟩

theorem nestSum_restrict (V av : Int → ℝ) (m : Nest ℝ) :
    nestSum V av (restrictNest av m) = nestSum V av m := by
  rw [nestSum_real, nestSum_real]
  unfold restrictNest
  simp only [List.filter_filter, Bool.and_self]

theorem findNest_restrict (av : Int → ℝ) (i : Int) (hav : avail av i = true) :
    ∀ (nests : List (Nest ℝ)),
      findNest (nests.map (restrictNest av)) i = (findNest nests i).map (restrictNest av)
  | [] => rfl
  | n :: ns => by
    rw [List.map_cons]
    unfold findNest
    rw [findNest_restrict av i hav ns]
    cases findNest ns i with
    | some m => rfl
    | none =>
      have : (restrictNest av n).alts.contains i = n.alts.contains i := by
        unfold restrictNest
        by_cases h : i ∈ n.alts
        · have h1 : i ∈ n.alts.filter (avail av) := List.mem_filter.2 ⟨h, hav⟩
          simp [h, h1]
        · have h1 : i ∉ n.alts.filter (avail av) := fun hh => h (List.mem_filter.1 hh).1
          simp [h, h1]
      simp only [Option.map_none, this]
      by_cases hc : n.alts.contains i = true
      · simp
      · simp

theorem nestedLogG_restrict (nests : List (Nest ℝ)) (V av : Int → ℝ) (i : Int)
    (hav : avail av i = true) :
    nestedLogG (nests.map (restrictNest av)) V av i = nestedLogG nests V av i := by
  cases h : findNest nests i with
  | none =>
    have : findNest (nests.map (restrictNest av)) i = none := by
      rw [findNest_restrict av i hav, h]; rfl
    rw [nestedLogG_none _ _ _ _ h, nestedLogG_none _ _ _ _ this]
  | some m =>
    have : findNest (nests.map (restrictNest av)) i = some (restrictNest av m) := by
      rw [findNest_restrict av i hav, h]; rfl
    rw [nestedLogG_some _ _ _ _ m h, nestedLogG_some _ _ _ _ _ this, nestSum_restrict]
    rfl

theorem nestedP_drop (nests : List (Nest ℝ)) (alts : List Int) (V av : Int → ℝ) (c : Int)
    (hc : c ∈ alts) :
    nestedP (nests.map (restrictNest av)) (alts.filter (avail av)) V av c =
      nestedP nests alts V av c := by
  rw [nestedP_eq_mevP, nestedP_eq_mevP, mevP_eq_logitP, mevP_eq_logitP, logitP_drop]
  apply logitP_shift_on alts _ _ av 0 c hc
  intro i _ hav
  rw [nestedLogG_restrict nests V av i hav]
  ring

/-! ## cross-nested -/

noncomputable def restrictCNest (av : Int → ℝ) (m : CNest ℝ) : CNest ℝ :=
  ⟨m.mu, m.alphas.filter fun p => avail av p.1⟩

theorem sum_filter_of_zero {ι : Type} (l : List ι) (p : ι → Bool) (f : ι → ℝ)
    (h : ∀ x ∈ l, p x = false → f x = 0) : ((l.filter p).map f).sum = (l.map f).sum := by
  rw [← sum_map_ite_filter]
  congr 1
  apply List.map_congr_left
  intro x hx
  by_cases hp : p x = true
  · simp [hp]
  · have hp' : p x = false := by simpa using hp
    simp [hp', h x hx hp']

theorem cnlBiosum_restrict (V av : Int → ℝ) (m : CNest ℝ) (e : ℝ) :
    cnlBiosum V av (restrictCNest av m) e = cnlBiosum V av m e := by
  rw [cnlBiosum_real, cnlBiosum_real]
  unfold restrictCNest
  apply sum_filter_of_zero
  intro p _ hp
  rw [(avail_false_iff av p.1).1 hp]
  ring

theorem cnlTerm_restrict (V av : Int → ℝ) (m : CNest ℝ) (i : Int) (a : ℝ) :
    cnlTerm V av (restrictCNest av m) i a = cnlTerm V av m i a := by
  rw [cnlTerm_real, cnlTerm_real, cnlBiosum_restrict]
  rfl

theorem cnlMuTerm_restrict (mu : ℝ) (V av : Int → ℝ) (m : CNest ℝ) (i : Int) (a : ℝ) :
    cnlMuTerm mu V av (restrictCNest av m) i a = cnlMuTerm mu V av m i a := by
  rw [cnlMuTerm_real, cnlMuTerm_real, cnlBiosum_restrict]
  rfl

theorem restrict_filter_key (av : Int → ℝ) (m : CNest ℝ) (i : Int) (hav : avail av i = true) :
    (restrictCNest av m).alphas.filter (fun p => p.1 == i) = m.alphas.filter (fun p => p.1 == i) := by
  unfold restrictCNest
  rw [List.filter_filter]
  apply List.filter_congr
  intro p _
  by_cases h : p.1 = i
  · simp [h, hav]
  · simp [h]

theorem giTerms_restrict (term term' : CNest ℝ → Int → ℝ → ℝ) (av : Int → ℝ) (i : Int)
    (hav : avail av i = true) (ht : ∀ m a, term' (restrictCNest av m) i a = term m i a) :
    ∀ (nests : List (CNest ℝ)),
      giTerms term' (nests.map (restrictCNest av)) i = giTerms term nests i
  | [] => rfl
  | n :: ns => by
    rw [List.map_cons, giTerms_cons, giTerms_cons, restrict_filter_key av n i hav,
      giTerms_restrict term term' av i hav ht ns]
    congr 1
    apply List.map_congr_left
    intro p _
    exact ht n p.2

theorem inSomeCNest_restrict (nests : List (CNest ℝ)) (av : Int → ℝ) (i : Int)
    (hav : avail av i = true) :
    inSomeCNest (nests.map (restrictCNest av)) i = inSomeCNest nests i := by
  unfold inSomeCNest
  rw [List.any_map]
  apply List.any_congr
  · rfl
  · intro m
    unfold restrictCNest CNest.alts
    simp only [Function.comp_apply]
    by_cases h : i ∈ m.alphas.map (·.1)
    · have h1 : i ∈ (m.alphas.filter fun p => avail av p.1).map (·.1) := by
        rcases List.mem_map.1 h with ⟨p, hp, hpi⟩
        exact List.mem_map.2 ⟨p, List.mem_filter.2 ⟨hp, by rw [hpi]; exact hav⟩, hpi⟩
      simp [h, h1]
    · have h1 : i ∉ (m.alphas.filter fun p => avail av p.1).map (·.1) := by
        intro hh
        rcases List.mem_map.1 hh with ⟨p, hp, hpi⟩
        exact h (List.mem_map.2 ⟨p, (List.mem_filter.1 hp).1, hpi⟩)
      simp [h, h1]

theorem cnlLogG_restrict (nests : List (CNest ℝ)) (V av : Int → ℝ) (i : Int)
    (hav : avail av i = true) :
    cnlLogG (nests.map (restrictCNest av)) V av i = cnlLogG nests V av i := by
  unfold cnlLogG
  rw [inSomeCNest_restrict nests av i hav,
    giTerms_restrict (cnlTerm V av) (cnlTerm V av) av i hav (fun m a => cnlTerm_restrict V av m i a)]

theorem cnlMuLogG_restrict (nests : List (CNest ℝ)) (mu : ℝ) (V av : Int → ℝ) (i : Int)
    (hav : avail av i = true) :
    cnlMuLogG (nests.map (restrictCNest av)) mu V av i = cnlMuLogG nests mu V av i := by
  unfold cnlMuLogG zeroMember
  rw [inSomeCNest_restrict nests av i hav,
    giTerms_restrict (cnlMuTerm mu V av) (cnlMuTerm mu V av) av i hav
      (fun m a => cnlMuTerm_restrict mu V av m i a),
    giTerms_restrict (fun _ _ a => a) (fun _ _ a => a) av i hav (fun _ _ => rfl)]

theorem cnlP_drop (nests : List (CNest ℝ)) (alts : List Int) (V av : Int → ℝ) (c : Int)
    (hc : c ∈ alts) :
    cnlP (nests.map (restrictCNest av)) (alts.filter (avail av)) V av c = cnlP nests alts V av c := by
  rw [cnlP_eq_mevP, cnlP_eq_mevP, mevP_eq_logitP, mevP_eq_logitP, logitP_drop]
  apply logitP_shift_on alts _ _ av 0 c hc
  intro i _ hav
  rw [cnlLogG_restrict nests V av i hav]
  ring

theorem cnlMuP_drop (nests : List (CNest ℝ)) (mu : ℝ) (alts : List Int) (V av : Int → ℝ) (c : Int)
    (hc : c ∈ alts) :
    cnlMuP (nests.map (restrictCNest av)) mu (alts.filter (avail av)) V av c =
      cnlMuP nests mu alts V av c := by
  rw [cnlMuP_eq_mevP, cnlMuP_eq_mevP, mevP_eq_logitP, mevP_eq_logitP, logitP_drop]
  apply logitP_shift_on alts _ _ av 0 c hc
  intro i _ hav
  rw [cnlMuLogG_restrict nests mu V av i hav]
  ring

theorem nestedMuLogG_restrict (nests : List (Nest ℝ)) (mu : ℝ) (V av : Int → ℝ) (i : Int)
    (hav : avail av i = true) :
    nestedMuLogG (nests.map (restrictNest av)) mu V av i = nestedMuLogG nests mu V av i := by
  cases h : findNest nests i with
  | none =>
    have : findNest (nests.map (restrictNest av)) i = none := by
      rw [findNest_restrict av i hav, h]; rfl
    rw [nestedMuLogG_none _ _ _ _ _ h, nestedMuLogG_none _ _ _ _ _ this]
  | some m =>
    have : findNest (nests.map (restrictNest av)) i = some (restrictNest av m) := by
      rw [findNest_restrict av i hav, h]; rfl
    rw [nestedMuLogG_some _ _ _ _ _ m h, nestedMuLogG_some _ _ _ _ _ _ this, nestSum_restrict]
    rfl

theorem nestedMuP_drop (nests : List (Nest ℝ)) (mu : ℝ) (alts : List Int) (V av : Int → ℝ) (c : Int)
    (hc : c ∈ alts) :
    nestedMuP (nests.map (restrictNest av)) mu (alts.filter (avail av)) V av c =
      nestedMuP nests mu alts V av c := by
  rw [nestedMuP_eq_mevP, nestedMuP_eq_mevP, mevP_eq_logitP, mevP_eq_logitP, logitP_drop]
  apply logitP_shift_on alts _ _ av 0 c hc
  intro i _ hav
  rw [nestedMuLogG_restrict nests mu V av i hav]
  ring

end Models
