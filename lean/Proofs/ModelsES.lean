/-
MEV with the correction for endogenous sampling is the MEV distribution reweighted by
`exp(correction)` and renormalised (Bierlaire, Bolduc & McFadden 2008) — over the reals.
-/
import Model.ModelsBuild
import Proofs.Models
import Proofs.ModelsBuild

namespace Models

theorem mevES_weight_sum (alts : List Int) (V logG corr av : Int → ℝ) (c : Int) (hc : c ∈ alts)
    (hav : avail av c = true) :
    (alts.map fun j => mevP alts V logG av j * Real.exp (corr j)).sum =
      denom alts (fun i => V i + logG i + corr i) av / denom alts (fun i => V i + logG i) av := by
  have hD := denom_pos alts (fun i => V i + logG i) av c hc hav
  have h1 : (alts.map fun j => mevP alts V logG av j * Real.exp (corr j)) =
      alts.map fun j => if avail av j = true then
        Real.exp (V j + logG j + corr j) / denom alts (fun i => V i + logG i) av else 0 := by
    apply List.map_congr_left
    intro j hj
    rw [mevP_eq_logitP, logitP_eq_ite _ _ _ _ hj]
    by_cases h : avail av j = true
    · simp only [h, if_true]
      rw [Real.exp_add (V j + logG j)]
      ring
    · simp [h]
  rw [h1, sum_map_ite_filter, denom_real alts (fun i => V i + logG i + corr i)]
  rw [div_eq_mul_inv, ← List.sum_map_mul_right]
  congr 1

/-- `P^ES_c · Σ_j P_j e^{ω_j} = P_c e^{ω_c}` -/
theorem mevES_reweight (alts : List Int) (V logG corr av : Int → ℝ) (c : Int) (hc : c ∈ alts) :
    mevESP alts V logG corr av c *
        (alts.map fun j => mevP alts V logG av j * Real.exp (corr j)).sum =
      mevP alts V logG av c * Real.exp (corr c) := by
  by_cases hav : avail av c = true
  · rw [mevES_weight_sum alts V logG corr av c hc hav, mevESP_eq_logitP, mevP_eq_logitP,
      logitP_avail _ _ _ _ hc hav, logitP_avail _ _ _ _ hc hav]
    have hD := denom_pos alts (fun i => V i + logG i) av c hc hav
    have hD' := denom_pos alts (fun i => V i + logG i + corr i) av c hc hav
    rw [Real.exp_add (V c + logG c)]
    field_simp
  · have h0 : avail av c = false := by simpa using hav
    rw [mevESP_eq_logitP, mevP_eq_logitP, logitP_unavail _ _ _ _ h0, logitP_unavail _ _ _ _ h0]
    simp

end Models
