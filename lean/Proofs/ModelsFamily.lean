/-
Round 3 of C06 over `ℝ`: Euler form of the generating function of the nested logit, nests with a
single available member, nests with parameter one with and without explicit scale, the membership
table of a cross-nested specification, the correlation matrix of the nested logit.
-/
import Proofs.ModelsGen
import Model.ModelsFamily
import Mathlib.Algebra.Order.BigOperators.Group.List

namespace Models

/-! ## which nest wrote `log_gi[i]`, for disjoint nests -/

theorem findNest_eq_none_of {α : Type} [NumOps α] (nests : List (Nest α)) (i : Int)
    (h : ∀ m ∈ nests, i ∉ m.alts) : findNest nests i = none := by
  cases hf : findNest nests i with
  | none => rfl
  | some m =>
    have := findNest_some nests i m hf
    exact absurd this.2 (h m this.1)

theorem findNest_of_mem : ∀ (nests : List (Nest ℝ)) (m : Nest ℝ) (j : Int),
    nests.Pairwise (fun a b => ∀ j, j ∈ a.alts → j ∉ b.alts) → m ∈ nests → j ∈ m.alts →
    findNest nests j = some m
  | [], m, j, _, hm, _ => by cases hm
  | n :: ns, m, j, hpw, hm, hj => by
    rw [List.pairwise_cons] at hpw
    rcases List.mem_cons.1 hm with heq | hm'
    · subst heq
      have hnone : findNest ns j = none :=
        findNest_eq_none_of ns j (fun b hb => hpw.1 b hb j hj)
      unfold findNest
      rw [hnone]
      simp [hj]
    · have hsome := findNest_of_mem ns m j hpw.2 hm' hj
      unfold findNest
      rw [hsome]

theorem disjoint_of_pairwise : ∀ (nests : List (Nest ℝ)),
    nests.Pairwise (fun a b => ∀ j, j ∈ a.alts → j ∉ b.alts) →
    ∀ m ∈ nests, ∀ n ∈ nests, n ≠ m → ∀ i, i ∈ m.alts → i ∉ n.alts
  | [], _, m, hm, _, _, _, _, _ => by cases hm
  | a :: t, hpw, m, hm, n, hn, hne, i, hi => by
    rw [List.pairwise_cons] at hpw
    rcases List.mem_cons.1 hm with hma | hm'
    · rcases List.mem_cons.1 hn with hna | hn'
      · exact absurd (hna.trans hma.symm) hne
      · subst hma
        exact hpw.1 n hn' i hi
    · rcases List.mem_cons.1 hn with hna | hn'
      · subst hna
        intro hin
        exact hpw.1 m hm' i hin hi
      · exact disjoint_of_pairwise t hpw.2 m hm' n hn' hne i hi

/-! ## Euler: `G(y) = Σ_i y_i ∂G/∂y_i` over the alternatives that contribute to `G` -/

/-- `y_j · exp(ln G_j) = y_j^{mu_m} · S_m^{1/mu_m - 1}` for a member of the nest `m` -/
theorem exp_h_member (nests : List (Nest ℝ)) (V av : Int → ℝ) (m : Nest ℝ) (j : Int)
    (h : findNest nests j = some m) (hS : 0 < innerS av (fun k => Real.exp (V k)) m) :
    Real.exp (V j + nestedLogG nests V av j) =
      Real.exp (V j) ^ m.mu * innerS av (fun k => Real.exp (V k)) m ^ (1 / m.mu - 1) := by
  rw [nestedLogG_some _ _ _ _ m h, nestSum_eq_innerS, Real.rpow_def_of_pos (Real.exp_pos _),
    Real.log_exp, Real.rpow_def_of_pos hS, ← Real.exp_add]
  congr 1
  ring

/-- one nest: the available members carry the whole nest term (an emptied nest contributes 0) -/
theorem euler_nest (nests : List (Nest ℝ)) (V av : Int → ℝ) (m : Nest ℝ) (hm : m ∈ nests)
    (hpw : nests.Pairwise (fun a b => ∀ j, j ∈ a.alts → j ∉ b.alts)) (hmu : m.mu ≠ 0) :
    ((m.alts.filter (avail av)).map fun j => Real.exp (V j + nestedLogG nests V av j)).sum =
      innerS av (fun k => Real.exp (V k)) m ^ (1 / m.mu) := by
  by_cases hne : m.alts.filter (avail av) = []
  · simp only [hne, innerS, List.map_nil, List.sum_nil]
    rw [Real.zero_rpow (one_div_ne_zero hmu)]
  · obtain ⟨i, hi⟩ := List.exists_mem_of_ne_nil _ hne
    have hi' := List.mem_filter.1 hi
    have hS : 0 < innerS av (fun k => Real.exp (V k)) m :=
      innerS_pos av (fun k => Real.exp (V k)) m i hi'.1 hi'.2 (fun j => Real.exp_pos _)
    have hmap : ((m.alts.filter (avail av)).map fun j => Real.exp (V j + nestedLogG nests V av j)) =
        (m.alts.filter (avail av)).map fun j =>
          Real.exp (V j) ^ m.mu * innerS av (fun k => Real.exp (V k)) m ^ (1 / m.mu - 1) := by
      apply List.map_congr_left
      intro j hj
      exact exp_h_member nests V av m j
        (findNest_of_mem nests m j hpw hm (List.mem_filter.1 hj).1) hS
    rw [hmap, List.sum_map_mul_right]
    have h1 := Real.rpow_add hS 1 (1 / m.mu - 1)
    rw [Real.rpow_one] at h1
    have h2 : (1 : ℝ) + (1 / m.mu - 1) = 1 / m.mu := by ring
    rw [h2] at h1
    rw [h1]
    rfl

/-- **Euler**: the published generating function is the sum of `y_i · exp(ln G_i)` over the
available members of the nests and the alone alternatives -/
theorem nestedG_eq_eulerSum (nests : List (Nest ℝ)) (alone : List Int) (V av : Int → ℝ)
    (hpw : nests.Pairwise (fun a b => ∀ j, j ∈ a.alts → j ∉ b.alts))
    (hmu : ∀ n ∈ nests, n.mu ≠ 0) (hal : ∀ i ∈ alone, ∀ m ∈ nests, i ∉ m.alts) :
    nestedG nests alone av (fun j => Real.exp (V j)) = eulerSum nests alone V av := by
  rw [nestedG_real]
  unfold eulerSum outerS
  simp only [NumR.sum_real, NumR.add_real, NumR.exp_real]
  congr 1
  · congr 1
    apply List.map_congr_left
    intro m hm
    exact (euler_nest nests V av m hm hpw (hmu m hm)).symm
  · congr 1
    apply List.map_congr_left
    intro i hi
    rw [nestedLogG_none _ _ _ _ (findNest_eq_none_of nests i (hal i hi)), add_zero]

/-! ## a nest with a single available member behaves as an alone alternative -/

theorem aloneLogG_none (V : Int → ℝ) (i : Int) : aloneLogG (none : Option ℝ) V i = 0 := by
  simp [aloneLogG]

theorem aloneLogG_some (mu : ℝ) (V : Int → ℝ) (i : Int) :
    aloneLogG (some mu) V i = Real.log mu + (mu - 1) * V i := by
  simp [aloneLogG]

theorem nestSum_single (V av : Int → ℝ) (m : Nest ℝ) (i : Int)
    (h : m.alts.filter (avail av) = [i]) : nestSum V av m = Real.exp (m.mu * V i) := by
  rw [nestSum_real, h]
  simp

theorem nestedLogG_single (nests : List (Nest ℝ)) (V av : Int → ℝ) (i : Int) (m : Nest ℝ)
    (hf : findNest nests i = some m) (h : m.alts.filter (avail av) = [i]) (hmu : m.mu ≠ 0) :
    nestedLogG nests V av i = 0 := by
  rw [nestedLogG_some _ _ _ _ m hf, nestSum_single V av m i h, Real.log_exp]
  field_simp
  ring

theorem nestedMuLogG_single (nests : List (Nest ℝ)) (mu : ℝ) (V av : Int → ℝ) (i : Int) (m : Nest ℝ)
    (hf : findNest nests i = some m) (h : m.alts.filter (avail av) = [i]) (hmu : m.mu ≠ 0) :
    nestedMuLogG nests mu V av i = Real.log mu + (mu - 1) * V i := by
  rw [nestedMuLogG_some _ _ _ _ _ m hf, nestSum_single V av m i h, Real.log_exp]
  field_simp
  ring

theorem eq_singleton_of_mem_of_length_le_one : ∀ {l : List Int} {i : Int}, i ∈ l → l.length ≤ 1 → l = [i]
  | [], _, hi, _ => by cases hi
  | [a], i, hi, _ => by
    rw [List.mem_singleton] at hi
    rw [hi]
  | a :: b :: t, _, _, hl => by
    simp only [List.length_cons] at hl
    omega

/-- every nest has at most one available member: every `ln G_i` that the kernel reads is the one
of an alone alternative -/
theorem nestedLogG_sparse (nests : List (Nest ℝ)) (mu : ℝ) (V av : Int → ℝ) (i : Int)
    (h : ∀ m ∈ nests, (m.alts.filter (avail av)).length ≤ 1) (hmu : ∀ m ∈ nests, m.mu ≠ 0)
    (hav : avail av i = true) :
    nestedLogG nests V av i = 0 ∧ nestedMuLogG nests mu V av i = Real.log mu + (mu - 1) * V i := by
  cases hf : findNest nests i with
  | none => exact ⟨nestedLogG_none _ _ _ _ hf, nestedMuLogG_none _ _ _ _ _ hf⟩
  | some m =>
    obtain ⟨hm, him⟩ := findNest_some nests i m hf
    have hs : m.alts.filter (avail av) = [i] :=
      eq_singleton_of_mem_of_length_le_one (List.mem_filter.2 ⟨him, hav⟩) (h m hm)
    exact ⟨nestedLogG_single nests V av i m hf hs (hmu m hm),
      nestedMuLogG_single nests mu V av i m hf hs (hmu m hm)⟩

theorem nestedP_sparse (nests : List (Nest ℝ)) (alts : List Int) (V av : Int → ℝ) (c : Int)
    (hc : c ∈ alts) (h : ∀ m ∈ nests, (m.alts.filter (avail av)).length ≤ 1)
    (hmu : ∀ m ∈ nests, m.mu ≠ 0) :
    nestedP nests alts V av c = logitP alts V av c := by
  rw [nestedP_eq_mevP, mevP_eq_logitP]
  apply logitP_shift_on alts V _ av 0 c hc
  intro i _ hav
  rw [(nestedLogG_sparse nests 1 V av i h hmu hav).1]

theorem nestedMuP_sparse (nests : List (Nest ℝ)) (mu : ℝ) (alts : List Int) (V av : Int → ℝ) (c : Int)
    (hc : c ∈ alts) (h : ∀ m ∈ nests, (m.alts.filter (avail av)).length ≤ 1)
    (hmu : ∀ m ∈ nests, m.mu ≠ 0) :
    nestedMuP nests mu alts V av c = logitP alts (fun j => mu * V j) av c := by
  rw [nestedMuP_eq_mevP, mevP_eq_logitP]
  apply logitP_shift_on alts (fun j => mu * V j) _ av (Real.log mu) c hc
  intro i _ hav
  rw [(nestedLogG_sparse nests mu V av i h hmu hav).2]
  ring

/-! ## nests with parameter one -/

/-- a nest with parameter one under an explicit scale `mu`: the log-sum of the nest stays -/
theorem nestedMuLogG_unit_nest (nests : List (Nest ℝ)) (mu : ℝ) (V av : Int → ℝ) (i : Int)
    (m : Nest ℝ) (hf : findNest nests i = some m) (h1 : m.mu = 1) :
    nestedMuLogG nests mu V av i =
      Real.log mu + (mu - 1) *
        Real.log (((m.alts.filter (avail av)).map fun j => Real.exp (V j)).sum) := by
  rw [nestedMuLogG_some _ _ _ _ _ m hf, nestSum_real, h1]
  simp

theorem mem_dropUnitNests (nests : List (Nest ℝ)) (m : Nest ℝ) :
    m ∈ dropUnitNests nests ↔ m ∈ nests ∧ m.mu ≠ 1 := by
  unfold dropUnitNests
  rw [List.mem_filter]
  constructor
  · rintro ⟨hm, hb⟩
    refine ⟨hm, fun h1 => ?_⟩
    have : Num.eq m.mu (1 : ℝ) = true := (NumR.eq_real _ _).2 h1
    simp only [NumR.ofNat_real_one] at hb
    rw [this] at hb
    cases hb
  · rintro ⟨hm, hne⟩
    refine ⟨hm, ?_⟩
    simp only [NumR.ofNat_real_one, Bool.not_eq_true']
    rw [Bool.eq_false_iff]
    intro hb
    exact hne ((NumR.eq_real _ _).1 hb)

/-- without explicit scale, dropping the nests of parameter one changes no `ln G_i` -/
theorem nestedLogG_dropUnit (nests : List (Nest ℝ)) (V av : Int → ℝ) (i : Int)
    (hpw : nests.Pairwise (fun a b => ∀ j, j ∈ a.alts → j ∉ b.alts)) :
    nestedLogG (dropUnitNests nests) V av i = nestedLogG nests V av i := by
  have hpw' : (dropUnitNests nests).Pairwise (fun a b => ∀ j, j ∈ a.alts → j ∉ b.alts) :=
    hpw.sublist List.filter_sublist
  cases hf : findNest nests i with
  | none =>
    have hno := findNest_none nests i hf
    rw [nestedLogG_none _ _ _ _ hf,
      nestedLogG_none _ _ _ _ (findNest_eq_none_of _ i (fun m hm =>
        hno m ((mem_dropUnitNests nests m).1 hm).1))]
  | some m =>
    obtain ⟨hm, him⟩ := findNest_some nests i m hf
    by_cases h1 : m.mu = 1
    · have hnone : findNest (dropUnitNests nests) i = none := by
        apply findNest_eq_none_of
        intro n hn
        have hn' := (mem_dropUnitNests nests n).1 hn
        exact disjoint_of_pairwise nests hpw m hm n hn'.1 (fun h => hn'.2 (h ▸ h1)) i him
      rw [nestedLogG_none _ _ _ _ hnone, nestedLogG_some _ _ _ _ m hf, h1]
      simp
    · have hsome := findNest_of_mem (dropUnitNests nests) m i hpw'
        ((mem_dropUnitNests nests m).2 ⟨hm, h1⟩) him
      rw [nestedLogG_some _ _ _ _ m hsome, nestedLogG_some _ _ _ _ m hf]

/-! ## the membership table -/

theorem lookup_zeros (extra : List Int) (i : Int) (z : ℝ) :
    (extra.map fun k => (k, z)).lookup i = some z ∨ (extra.map fun k => (k, z)).lookup i = none := by
  induction extra with
  | nil => right; rfl
  | cons a t ih =>
    rw [List.map_cons, List.lookup_cons]
    cases h : i == a with
    | true => left; rfl
    | false => exact ih

theorem dictGetD_withZeros (extra : CNest ℝ → List Int) (m : CNest ℝ) (i : Int) :
    dictGetD (withZeros extra m).alphas i 0 = dictGetD m.alphas i 0 := by
  unfold dictGetD withZeros
  simp only [List.lookup_append, NumR.ofNat_real_zero]
  cases hl : m.alphas.lookup i with
  | some v => simp
  | none =>
    rcases lookup_zeros (extra m) i 0 with h | h <;> simp [h]

theorem alphaRow_withZeros (extra : CNest ℝ → List Int) (nests : List (CNest ℝ)) (i : Int) :
    alphaRow (nests.map (withZeros extra)) i = alphaRow nests i := by
  unfold alphaRow
  rw [List.map_map]
  apply List.map_congr_left
  intro m _
  simp only [Function.comp, NumR.ofNat_real_zero]
  exact dictGetD_withZeros extra m i

theorem alphaRow_toCNest (nests : List (Nest ℝ)) (i : Int) :
    alphaRow (nests.map toCNest) i = nests.map fun m => if i ∈ m.alts then (1 : ℝ) else 0 := by
  unfold alphaRow
  rw [List.map_map]
  apply List.map_congr_left
  intro m _
  simp only [Function.comp, dictGetD, toCNest, NumR.ofNat_real_zero, NumR.ofNat_real_one]
  induction m.alts with
  | nil => simp
  | cons a t ih =>
    rw [List.map_cons, List.lookup_cons]
    by_cases h : i = a
    · subst h; simp
    · have hb : (i == a) = false := by simpa using h
      rw [hb]
      simp only [List.mem_cons, h, false_or]
      exact ih

/-! ## correlation matrix of the nested logit -/

theorem corrValue_unit (m : Nest ℝ) (h1 : m.mu = 1) : corrValue (1 : ℝ) m = 0 := by
  unfold corrValue
  have : Num.eq (1 : ℝ) (1 : ℝ) = true := (NumR.eq_real _ _).2 rfl
  simp only [NumR.ofNat_real_one, NumR.sub_real, NumR.div_real, NumR.mul_real]
  rw [this, h1]
  simp

theorem foldl_corr_const (nests : List (Nest ℝ)) (mu : ℝ) (i j : Int) (z : ℝ)
    (h : ∀ m ∈ nests, pairIn m.alts i j = true → corrValue mu m = z) :
    nests.foldl (fun acc m => if pairIn m.alts i j then corrValue mu m else acc) z = z := by
  induction nests with
  | nil => rfl
  | cons a t ih =>
    rw [List.foldl_cons]
    by_cases hp : pairIn a.alts i j = true
    · rw [if_pos hp, h a List.mem_cons_self hp]
      exact ih (fun m hm => h m (List.mem_cons_of_mem _ hm))
    · rw [if_neg hp]
      exact ih (fun m hm => h m (List.mem_cons_of_mem _ hm))

/-- all nest parameters one (and scale one): two different alternatives are uncorrelated -/
theorem nestedCorr_mu_one (nests : List (Nest ℝ)) (i j : Int) (hij : i ≠ j)
    (h1 : ∀ m ∈ nests, m.mu = 1) : nestedCorr nests 1 i j = 0 := by
  unfold nestedCorr
  have hb : (i == j) = false := by simpa using hij
  rw [hb]
  simp only [Bool.false_eq_true, if_false, NumR.ofNat_real_zero]
  exact foldl_corr_const nests 1 i j 0 (fun m hm _ => corrValue_unit m (h1 m hm))

/-! ## the kernel's denominator is the Euler sum -/

/-- the keys of `util` are the members of the nests and the alone alternatives (any order), every
alone alternative is available: the denominator of the kernel on `V + ln G` is the Euler sum -/
theorem denom_eq_eulerSum (nests : List (Nest ℝ)) (alone alts : List Int) (V av : Int → ℝ)
    (hperm : alts.Perm (unionAlts (nests.map Nest.alts) ++ alone))
    (hal : ∀ i ∈ alone, avail av i = true) :
    denom alts (fun i => V i + nestedLogG nests V av i) av = eulerSum nests alone V av := by
  rw [denom_real]
  unfold eulerSum
  simp only [NumR.sum_real, NumR.add_real, NumR.exp_real]
  rw [((hperm.filter (avail av)).map _).sum_eq, List.filter_append, List.map_append,
    List.sum_append]
  congr 1
  · unfold unionAlts
    rw [List.filter_flatten, List.map_flatten, List.sum_flatten, List.map_map, List.map_map,
      List.map_map]
    rfl
  · rw [List.filter_eq_self.2 (fun i hi => hal i hi)]

/-! ## summing over every key of `util` instead of the available members -/

theorem sum_filter_le {ι : Type} (l : List ι) (p : ι → Bool) (f : ι → ℝ) (hf : ∀ i ∈ l, 0 ≤ f i) :
    ((l.filter p).map f).sum ≤ (l.map f).sum := by
  rw [← sum_map_ite_filter]
  apply List.sum_le_sum
  intro i hi
  by_cases h : p i = true
  · rw [if_pos h]
  · rw [if_neg h]; exact hf i hi

theorem sum_filter_lt {ι : Type} (l : List ι) (p : ι → Bool) (f : ι → ℝ) (hf : ∀ i ∈ l, 0 ≤ f i)
    (j : ι) (hj : j ∈ l) (hpj : p j = false) (hfj : 0 < f j) :
    ((l.filter p).map f).sum < (l.map f).sum := by
  rw [← sum_map_ite_filter]
  apply List.sum_lt_sum
  · intro i hi
    by_cases h : p i = true
    · rw [if_pos h]
    · rw [if_neg h]; exact hf i hi
  · refine ⟨j, hj, ?_⟩
    rw [hpj]
    simpa using hfj

/-- as soon as one member of a nest is unavailable, the sum of `y_i · exp(ln G_i)` over EVERY member of
the nests exceeds the Euler sum (every term is positive) -/
theorem eulerSum_lt_allKeys (nests : List (Nest ℝ)) (alone : List Int) (V av : Int → ℝ)
    (m : Nest ℝ) (hm : m ∈ nests) (j : Int) (hj : j ∈ m.alts) (hav : avail av j = false) :
    eulerSum nests alone V av < eulerSumAllKeys nests alone V av := by
  unfold eulerSum eulerSumAllKeys
  simp only [NumR.sum_real, NumR.add_real, NumR.exp_real]
  have h := List.sum_lt_sum (l := nests)
    (fun n : Nest ℝ => ((n.alts.filter (avail av)).map fun j => Real.exp (V j + nestedLogG nests V av j)).sum)
    (fun n : Nest ℝ => (n.alts.map fun j => Real.exp (V j + nestedLogG nests V av j)).sum)
    (fun n _ => sum_filter_le n.alts (avail av) _ (fun i _ => (Real.exp_pos _).le))
    ⟨m, hm, sum_filter_lt m.alts (avail av) _ (fun i _ => (Real.exp_pos _).le) j hj hav
      (Real.exp_pos _)⟩
  linarith

end Models
