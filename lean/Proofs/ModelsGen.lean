/-
The generating function of the nested logit (`get_mev_generating_for_nested`) over `ℝ`:
the function of the utilities is the function of `y = exp V`; its partial derivative in `y_i`
is `exp(ln G_i)` with the published `ln G_i` of `get_mev_for_nested`.
-/
import Proofs.ModelsNested
import Mathlib.Analysis.SpecialFunctions.Pow.Deriv

namespace Models

/-! ## the function on `ℝ` -/

/-- availability-conditioned inner sum of a nest, as a function of `y` -/
noncomputable def innerS (av y : Int → ℝ) (m : Nest ℝ) : ℝ :=
  ((m.alts.filter (avail av)).map fun j => (y j) ^ m.mu).sum

noncomputable def outerS (nests : List (Nest ℝ)) (av y : Int → ℝ) : ℝ :=
  (nests.map fun m => (innerS av y m) ^ (1 / m.mu)).sum

theorem nestedG_real (nests : List (Nest ℝ)) (alone : List Int) (av y : Int → ℝ) :
    nestedG nests alone av y = outerS nests av y + (alone.map y).sum := by
  unfold nestedG outerS innerS
  simp only [NumR.sum_real, NumR.pow_real, NumR.add_real, NumR.div_real, NumR.ofNat_real_one]

theorem nestSum_eq_innerS (V av : Int → ℝ) (m : Nest ℝ) :
    nestSum V av m = innerS av (fun j => Real.exp (V j)) m := by
  rw [nestSum_real]
  unfold innerS
  congr 1
  apply List.map_congr_left
  intro j _
  rw [mul_comm, Real.exp_mul]

/-- the expression the code builds on the utilities is the generating function at `y = exp V` -/
theorem nestedGofV_eq (nests : List (Nest ℝ)) (alone : List Int) (V av : Int → ℝ) :
    nestedGofV nests alone V av = nestedG nests alone av (fun j => Real.exp (V j)) := by
  rw [nestedG_real]
  unfold nestedGofV outerS
  simp only [NumR.sum_real, NumR.pow_real, NumR.add_real, NumR.div_real, NumR.ofNat_real_one,
    NumR.exp_real]
  congr 2
  apply List.map_congr_left
  intro m _
  rw [nestSum_eq_innerS]

/-! ## changing one coordinate of `y` -/

theorem map_update_of_not_mem (g : ℝ → ℝ) (y : Int → ℝ) (i : Int) (t : ℝ) (l : List Int)
    (h : i ∉ l) : (l.map fun j => g (Function.update y i t j)) = l.map fun j => g (y j) := by
  apply List.map_congr_left
  intro j hj
  rw [Function.update_of_ne]
  intro hji
  exact h (hji ▸ hj)

theorem sum_map_update (g : ℝ → ℝ) (y : Int → ℝ) (i : Int) (t : ℝ) :
    ∀ (l : List Int), l.Nodup → i ∈ l →
      (l.map fun j => g (Function.update y i t j)).sum = g t + ((l.map fun j => g (y j)).sum - g (y i))
  | [], _, h => by cases h
  | a :: l, hnd, h => by
    have hnd' := List.nodup_cons.1 hnd
    simp only [List.map_cons, List.sum_cons]
    by_cases hai : a = i
    · subst hai
      rw [Function.update_self, map_update_of_not_mem g y a t l hnd'.1]
      ring
    · have hil : i ∈ l := by
        rcases List.mem_cons.1 h with h | h
        · exact absurd h.symm hai
        · exact h
      rw [Function.update_of_ne hai, sum_map_update g y i t l hnd'.2 hil]
      ring

theorem innerS_update_of_not_mem (av y : Int → ℝ) (m : Nest ℝ) (i : Int) (t : ℝ)
    (h : i ∉ m.alts.filter (avail av)) :
    innerS av (Function.update y i t) m = innerS av y m := by
  unfold innerS
  rw [map_update_of_not_mem (fun u => u ^ m.mu) y i t _ h]

theorem innerS_update_of_mem (av y : Int → ℝ) (m : Nest ℝ) (i : Int) (t : ℝ)
    (hnd : m.alts.Nodup) (hi : i ∈ m.alts) (hav : avail av i = true) :
    innerS av (Function.update y i t) m = t ^ m.mu + (innerS av y m - (y i) ^ m.mu) := by
  unfold innerS
  exact sum_map_update (fun u => u ^ m.mu) y i t _ (hnd.filter _) (List.mem_filter.2 ⟨hi, hav⟩)

theorem innerS_pos (av y : Int → ℝ) (m : Nest ℝ) (i : Int) (hi : i ∈ m.alts)
    (hav : avail av i = true) (hy : ∀ j, 0 < y j) : 0 < innerS av y m := by
  unfold innerS
  apply sum_map_pos_of_mem _ _ (fun j _ => Real.rpow_nonneg (hy j).le _) i
  · exact List.mem_filter.2 ⟨hi, hav⟩
  · exact Real.rpow_pos_of_pos (hy i) _

theorem outerS_cons (n : Nest ℝ) (ns : List (Nest ℝ)) (av y : Int → ℝ) :
    outerS (n :: ns) av y = (innerS av y n) ^ (1 / n.mu) + outerS ns av y := by
  unfold outerS
  simp

theorem outerS_update_const (av y : Int → ℝ) (i : Int) (t : ℝ) :
    ∀ (ns : List (Nest ℝ)), (∀ n ∈ ns, i ∉ n.alts) →
      outerS ns av (Function.update y i t) = outerS ns av y
  | [], _ => rfl
  | n :: ns, h => by
    rw [outerS_cons, outerS_cons,
      innerS_update_of_not_mem av y n i t (fun hm => h n List.mem_cons_self (List.mem_filter.1 hm).1),
      outerS_update_const av y i t ns (fun b hb => h b (List.mem_cons_of_mem _ hb))]

/-! ## the derivative -/

/-- one nest, in the coordinate of an available member -/
theorem hasDerivAt_nest (av y : Int → ℝ) (m : Nest ℝ) (i : Int) (hnd : m.alts.Nodup)
    (hi : i ∈ m.alts) (hav : avail av i = true) (hy : ∀ j, 0 < y j) (hmu : m.mu ≠ 0) :
    HasDerivAt (fun t => (innerS av (Function.update y i t) m) ^ (1 / m.mu))
      ((y i) ^ (m.mu - 1) * (innerS av y m) ^ (1 / m.mu - 1)) (y i) := by
  have hS := innerS_pos av y m i hi hav hy
  have hfun : (fun t => (innerS av (Function.update y i t) m) ^ (1 / m.mu)) =
      fun t => (t ^ m.mu + (innerS av y m - (y i) ^ m.mu)) ^ (1 / m.mu) := by
    funext t
    rw [innerS_update_of_mem av y m i t hnd hi hav]
  rw [hfun]
  have h1 : HasDerivAt (fun t : ℝ => t ^ m.mu + (innerS av y m - (y i) ^ m.mu))
      (m.mu * (y i) ^ (m.mu - 1)) (y i) :=
    (Real.hasDerivAt_rpow_const (Or.inl (hy i).ne')).add_const _
  have hval : (y i) ^ m.mu + (innerS av y m - (y i) ^ m.mu) = innerS av y m := by ring
  have h2 := h1.rpow_const (p := 1 / m.mu) (Or.inl (by rw [hval]; exact hS.ne'))
  rw [hval] at h2
  convert h2 using 1
  field_simp

theorem hasDerivAt_outer (av y : Int → ℝ) (i : Int) (m : Nest ℝ) (hy : ∀ j, 0 < y j)
    (hav : avail av i = true) :
    ∀ (nests : List (Nest ℝ)),
      nests.Pairwise (fun a b => ∀ j, j ∈ a.alts → j ∉ b.alts) → (∀ n ∈ nests, n.alts.Nodup) →
      (∀ n ∈ nests, n.mu ≠ 0) → findNest nests i = some m →
      HasDerivAt (fun t => outerS nests av (Function.update y i t))
        ((y i) ^ (m.mu - 1) * (innerS av y m) ^ (1 / m.mu - 1)) (y i)
  | [], _, _, _, h => by simp [findNest] at h
  | n :: ns, hpw, hnd, hmu, h => by
    have hpw' := List.pairwise_cons.1 hpw
    have hfun : (fun t => outerS (n :: ns) av (Function.update y i t)) =
        fun t => (innerS av (Function.update y i t) n) ^ (1 / n.mu) +
          outerS ns av (Function.update y i t) := by
      funext t; rw [outerS_cons]
    rw [hfun]
    unfold findNest at h
    cases hrec : findNest ns i with
    | some m' =>
      rw [hrec] at h
      simp only [Option.some.injEq] at h
      subst h
      obtain ⟨hm, him⟩ := findNest_some ns i m' hrec
      have hni : i ∉ n.alts := fun hin => hpw'.1 m' hm i hin him
      have hc : (fun t => (innerS av (Function.update y i t) n) ^ (1 / n.mu) +
          outerS ns av (Function.update y i t)) =
          fun t => (innerS av y n) ^ (1 / n.mu) + outerS ns av (Function.update y i t) := by
        funext t
        rw [innerS_update_of_not_mem av y n i t (fun hm => hni (List.mem_filter.1 hm).1)]
      rw [hc]
      exact (hasDerivAt_outer av y i m' hy hav ns hpw'.2
        (fun b hb => hnd b (List.mem_cons_of_mem _ hb))
        (fun b hb => hmu b (List.mem_cons_of_mem _ hb)) hrec).const_add _
    | none =>
      rw [hrec] at h
      simp only at h
      by_cases hc : n.alts.contains i = true
      · rw [if_pos hc] at h
        simp only [Option.some.injEq] at h
        subst h
        have hin : i ∈ n.alts := by simpa using hc
        have hc2 : (fun t => (innerS av (Function.update y i t) n) ^ (1 / n.mu) +
            outerS ns av (Function.update y i t)) =
            fun t => (innerS av (Function.update y i t) n) ^ (1 / n.mu) + outerS ns av y := by
          funext t
          rw [outerS_update_const av y i t ns (findNest_none ns i hrec)]
        rw [hc2]
        exact (hasDerivAt_nest av y n i (hnd n List.mem_cons_self) hin hav hy
          (hmu n List.mem_cons_self)).add_const _
      · rw [if_neg hc] at h
        cases h

/-! ## alone alternatives -/

theorem nodup_eraseDups : ∀ (n : Nat) (l : List Int), l.length ≤ n → l.eraseDups.Nodup
  | _, [], _ => by simp
  | 0, a :: as, h => by simp at h
  | n + 1, a :: as, h => by
    rw [List.eraseDups_cons, List.nodup_cons]
    constructor
    · rw [List.mem_eraseDups]
      simp [List.mem_filter]
    · apply nodup_eraseDups n
      have := List.length_filter_le (fun b => !b == a) as
      simp only [List.length_cons] at h
      omega

theorem aloneOf_nodup (cs : List Int) (lists : List (List Int)) : (aloneOf cs lists).Nodup :=
  nodup_eraseDups _ _ le_rfl

theorem mem_aloneOf (cs : List Int) (lists : List (List Int)) (i : Int) :
    i ∈ aloneOf cs lists ↔ i ∈ cs ∧ i ∉ unionAlts lists := by
  unfold aloneOf
  rw [List.mem_eraseDups, List.mem_filter]
  simp

theorem mem_unionAlts_nests (nests : List (Nest ℝ)) (i : Int) :
    i ∈ unionAlts (nests.map Nest.alts) ↔ ∃ m ∈ nests, i ∈ m.alts := by
  unfold unionAlts
  simp [List.mem_flatten]

theorem hasDerivAt_alone_mem (y : Int → ℝ) (i : Int) (alone : List Int) (hnd : alone.Nodup)
    (hi : i ∈ alone) :
    HasDerivAt (fun t => (alone.map (Function.update y i t)).sum) 1 (y i) := by
  have hfun : (fun t => (alone.map (Function.update y i t)).sum) =
      fun t => t + ((alone.map y).sum - y i) := by
    funext t
    exact sum_map_update (fun u => u) y i t alone hnd hi
  rw [hfun]
  exact (hasDerivAt_id (y i)).add_const _

theorem alone_update_const (y : Int → ℝ) (i : Int) (t : ℝ) (alone : List Int) (hi : i ∉ alone) :
    (alone.map (Function.update y i t)).sum = (alone.map y).sum := by
  have := map_update_of_not_mem (fun u => u) y i t alone hi
  exact congrArg List.sum this

/-! ## the statement -/

/-- `∂G/∂y_i = exp(ln G_i)` at `y = exp V`, for an alternative of the choice set: in a nest
(then it must be available: the docs say `G_i = 0` otherwise) or alone. -/
theorem nestedG_hasDerivAt (nests : List (Nest ℝ)) (cs : List Int) (V av : Int → ℝ) (i : Int)
    (hi : i ∈ cs)
    (hpw : nests.Pairwise (fun a b => ∀ j, j ∈ a.alts → j ∉ b.alts))
    (hnd : ∀ n ∈ nests, n.alts.Nodup) (hmu : ∀ n ∈ nests, n.mu ≠ 0)
    (hav : (∃ m ∈ nests, i ∈ m.alts) → avail av i = true) :
    HasDerivAt
      (fun t => nestedG nests (aloneOf cs (nests.map Nest.alts)) av
        (Function.update (fun j => Real.exp (V j)) i t))
      (Real.exp (nestedLogG nests V av i)) (Real.exp (V i)) := by
  set y : Int → ℝ := fun j => Real.exp (V j) with hy_def
  have hy : ∀ j, 0 < y j := fun j => Real.exp_pos _
  have hfun : (fun t => nestedG nests (aloneOf cs (nests.map Nest.alts)) av (Function.update y i t)) =
      fun t => outerS nests av (Function.update y i t) +
        ((aloneOf cs (nests.map Nest.alts)).map (Function.update y i t)).sum := by
    funext t; rw [nestedG_real]
  rw [hfun]
  have hyi : Real.exp (V i) = y i := rfl
  rw [hyi]
  cases h : findNest nests i with
  | none =>
    -- alone: the nests do not see `y_i`, the alone part has derivative 1 = exp 0
    have hnot := findNest_none nests i h
    have hial : i ∈ aloneOf cs (nests.map Nest.alts) := by
      rw [mem_aloneOf, mem_unionAlts_nests]
      exact ⟨hi, fun ⟨m, hm, him⟩ => hnot m hm him⟩
    rw [nestedLogG_none _ _ _ _ h, Real.exp_zero]
    have hc : (fun t => outerS nests av (Function.update y i t) +
        ((aloneOf cs (nests.map Nest.alts)).map (Function.update y i t)).sum) =
        fun t => outerS nests av y + ((aloneOf cs (nests.map Nest.alts)).map (Function.update y i t)).sum := by
      funext t; rw [outerS_update_const av y i t nests hnot]
    rw [hc]
    exact (hasDerivAt_alone_mem y i _ (aloneOf_nodup _ _) hial).const_add _
  | some m =>
    obtain ⟨hm, him⟩ := findNest_some nests i m h
    have havi := hav ⟨m, hm, him⟩
    have hnal : i ∉ aloneOf cs (nests.map Nest.alts) := by
      rw [mem_aloneOf, mem_unionAlts_nests]
      exact fun hh => hh.2 ⟨m, hm, him⟩
    have hc : (fun t => outerS nests av (Function.update y i t) +
        ((aloneOf cs (nests.map Nest.alts)).map (Function.update y i t)).sum) =
        fun t => outerS nests av (Function.update y i t) + ((aloneOf cs (nests.map Nest.alts)).map y).sum := by
      funext t; rw [alone_update_const y i t _ hnal]
    rw [hc]
    have hD := (hasDerivAt_outer av y i m hy havi nests hpw hnd hmu h).add_const
      (((aloneOf cs (nests.map Nest.alts)).map y).sum)
    -- exp(ln G_i) = y_i^(mu-1) * S^(1/mu - 1)
    have hS := innerS_pos av y m i him havi hy
    have hval : Real.exp (nestedLogG nests V av i) =
        y i ^ (m.mu - 1) * innerS av y m ^ (1 / m.mu - 1) := by
      rw [nestedLogG_some _ _ _ _ m h, nestSum_eq_innerS, Real.exp_add]
      congr 1
      · rw [mul_comm, Real.exp_mul]
      · rw [Real.rpow_def_of_pos hS, mul_comm]
    rw [hval]
    exact hD

end Models
