/-
Nested logit over `ℝ`: nest sums, shift behaviour of `ln G_i`, reductions (mu_m = 1, mu = 1).
-/
import Proofs.Models

namespace Models

/-! ## which nest wrote `log_gi[i]` -/

theorem findNest_some {α : Type} [NumOps α] :
    ∀ (nests : List (Nest α)) (i : Int) (m : Nest α), findNest nests i = some m → m ∈ nests ∧ i ∈ m.alts
  | [], i, m, h => by simp [findNest] at h
  | n :: ns, i, m, h => by
    unfold findNest at h
    cases hrec : findNest ns i with
    | some m' =>
      rw [hrec] at h
      simp only [Option.some.injEq] at h
      subst h
      have := findNest_some ns i m' hrec
      exact ⟨List.mem_cons_of_mem _ this.1, this.2⟩
    | none =>
      rw [hrec] at h
      simp only at h
      by_cases hc : n.alts.contains i = true
      · rw [if_pos hc] at h
        simp only [Option.some.injEq] at h
        subst h
        exact ⟨List.mem_cons_self, by simpa using hc⟩
      · rw [if_neg hc] at h
        cases h

theorem findNest_none {α : Type} [NumOps α] :
    ∀ (nests : List (Nest α)) (i : Int), findNest nests i = none → ∀ m ∈ nests, i ∉ m.alts
  | [], _, _, m, hm => by cases hm
  | n :: ns, i, h, m, hm => by
    unfold findNest at h
    cases hrec : findNest ns i with
    | some m' => rw [hrec] at h; cases h
    | none =>
      rw [hrec] at h
      simp only at h
      by_cases hc : n.alts.contains i = true
      · rw [if_pos hc] at h; cases h
      · rcases List.mem_cons.1 hm with rfl | hm'
        · simpa using hc
        · exact findNest_none ns i hrec m hm'

/-! ## nest sums -/

theorem nestSum_real (V av : Int → ℝ) (m : Nest ℝ) :
    nestSum V av m = ((m.alts.filter (avail av)).map fun j => Real.exp (m.mu * V j)).sum := by
  unfold nestSum
  rw [NumR.sum_real]
  congr 1
  apply List.map_congr_left
  intro j _
  simp

theorem nestSum_pos (V av : Int → ℝ) (m : Nest ℝ) (i : Int) (hi : i ∈ m.alts)
    (hav : avail av i = true) : 0 < nestSum V av m := by
  rw [nestSum_real]
  apply sum_map_pos_of_mem _ _ (fun j _ => (Real.exp_pos _).le) i
  · exact List.mem_filter.2 ⟨hi, hav⟩
  · exact Real.exp_pos _

theorem nestSum_shift (V av : Int → ℝ) (m : Nest ℝ) (k : ℝ) :
    nestSum (fun j => V j + k) av m = Real.exp (m.mu * k) * nestSum V av m := by
  rw [nestSum_real, nestSum_real, ← List.sum_map_mul_left]
  congr 1
  apply List.map_congr_left
  intro j _
  rw [← Real.exp_add]
  congr 1
  ring

/-! ## `ln G_i` on `ℝ` and under a common shift of the utilities -/

theorem nestedLogG_some (nests : List (Nest ℝ)) (V av : Int → ℝ) (i : Int) (m : Nest ℝ)
    (h : findNest nests i = some m) :
    nestedLogG nests V av i = (m.mu - 1) * V i + (1 / m.mu - 1) * Real.log (nestSum V av m) := by
  unfold nestedLogG
  rw [h]
  simp

theorem nestedLogG_none (nests : List (Nest ℝ)) (V av : Int → ℝ) (i : Int)
    (h : findNest nests i = none) : nestedLogG nests V av i = 0 := by
  unfold nestedLogG
  rw [h]
  simp

theorem nestedMuLogG_some (nests : List (Nest ℝ)) (mu : ℝ) (V av : Int → ℝ) (i : Int) (m : Nest ℝ)
    (h : findNest nests i = some m) :
    nestedMuLogG nests mu V av i =
      Real.log mu + (m.mu - 1) * V i + (mu / m.mu - 1) * Real.log (nestSum V av m) := by
  unfold nestedMuLogG
  rw [h]
  simp

theorem nestedMuLogG_none (nests : List (Nest ℝ)) (mu : ℝ) (V av : Int → ℝ) (i : Int)
    (h : findNest nests i = none) :
    nestedMuLogG nests mu V av i = Real.log mu + (mu - 1) * V i := by
  unfold nestedMuLogG
  rw [h]
  simp

/-- nested logit (mu = 1): `ln G_i` of an available alternative does not move -/
theorem nestedLogG_shift (nests : List (Nest ℝ)) (V av : Int → ℝ) (k : ℝ) (i : Int)
    (hmu : ∀ m ∈ nests, m.mu ≠ 0) (hav : avail av i = true) :
    nestedLogG nests (fun j => V j + k) av i = nestedLogG nests V av i := by
  cases h : findNest nests i with
  | none => rw [nestedLogG_none _ _ _ _ h, nestedLogG_none _ _ _ _ h]
  | some m =>
    obtain ⟨hm, him⟩ := findNest_some nests i m h
    have hS := nestSum_pos V av m i him hav
    have hm0 := hmu m hm
    rw [nestedLogG_some _ _ _ _ m h, nestedLogG_some _ _ _ _ m h, nestSum_shift,
      Real.log_mul (Real.exp_pos _).ne' hS.ne', Real.log_exp]
    field_simp
    ring

/-- nested logit with scale `mu`: every `ln G_i` (available `i`) moves by `(mu - 1) k` -/
theorem nestedMuLogG_shift (nests : List (Nest ℝ)) (mu : ℝ) (V av : Int → ℝ) (k : ℝ) (i : Int)
    (hmu : ∀ m ∈ nests, m.mu ≠ 0) (hav : avail av i = true) :
    nestedMuLogG nests mu (fun j => V j + k) av i = nestedMuLogG nests mu V av i + (mu - 1) * k := by
  cases h : findNest nests i with
  | none => rw [nestedMuLogG_none _ _ _ _ _ h, nestedMuLogG_none _ _ _ _ _ h]; ring
  | some m =>
    obtain ⟨hm, him⟩ := findNest_some nests i m h
    have hS := nestSum_pos V av m i him hav
    have hm0 := hmu m hm
    rw [nestedMuLogG_some _ _ _ _ _ m h, nestedMuLogG_some _ _ _ _ _ m h, nestSum_shift,
      Real.log_mul (Real.exp_pos _).ne' hS.ne', Real.log_exp]
    field_simp
    ring

theorem nestedP_eq_mevP (nests : List (Nest ℝ)) (alts : List Int) (V av : Int → ℝ) (c : Int) :
    nestedP nests alts V av c = mevP alts V (nestedLogG nests V av) av c := rfl

theorem nestedMuP_eq_mevP (nests : List (Nest ℝ)) (mu : ℝ) (alts : List Int) (V av : Int → ℝ) (c : Int) :
    nestedMuP nests mu alts V av c = mevP alts V (nestedMuLogG nests mu V av) av c := rfl

theorem nestedP_shift (nests : List (Nest ℝ)) (alts : List Int) (V av : Int → ℝ) (k : ℝ) (c : Int)
    (hc : c ∈ alts) (hmu : ∀ m ∈ nests, m.mu ≠ 0) :
    nestedP nests alts (fun j => V j + k) av c = nestedP nests alts V av c := by
  rw [nestedP_eq_mevP, nestedP_eq_mevP]
  apply mevP_shift alts V _ _ av k 0 c hc
  intro i _ hav
  rw [nestedLogG_shift nests V av k i hmu hav]; ring

theorem nestedMuP_shift (nests : List (Nest ℝ)) (mu : ℝ) (alts : List Int) (V av : Int → ℝ) (k : ℝ)
    (c : Int) (hc : c ∈ alts) (hmu : ∀ m ∈ nests, m.mu ≠ 0) :
    nestedMuP nests mu alts (fun j => V j + k) av c = nestedMuP nests mu alts V av c := by
  rw [nestedMuP_eq_mevP, nestedMuP_eq_mevP]
  apply mevP_shift alts V _ _ av k ((mu - 1) * k) c hc
  intro i _ hav
  exact nestedMuLogG_shift nests mu V av k i hmu hav

/-! ## reductions -/

/-- all nest parameters equal to one: every `ln G_i` is 0 -/
theorem nestedLogG_mu_one (nests : List (Nest ℝ)) (V av : Int → ℝ) (i : Int)
    (h1 : ∀ m ∈ nests, m.mu = 1) : nestedLogG nests V av i = 0 := by
  cases h : findNest nests i with
  | none => exact nestedLogG_none _ _ _ _ h
  | some m =>
    rw [nestedLogG_some _ _ _ _ m h, h1 m (findNest_some nests i m h).1]
    simp

/-- explicit scale one: same `ln G_i` as the unscaled version -/
theorem nestedMuLogG_one (nests : List (Nest ℝ)) (V av : Int → ℝ) (i : Int) :
    nestedMuLogG nests 1 V av i = nestedLogG nests V av i := by
  cases h : findNest nests i with
  | none => rw [nestedMuLogG_none _ _ _ _ _ h, nestedLogG_none _ _ _ _ h]; simp
  | some m => rw [nestedMuLogG_some _ _ _ _ _ m h, nestedLogG_some _ _ _ _ m h]; simp

end Models
