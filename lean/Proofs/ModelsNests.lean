/-
Nest validation (`check_partition`) and the legacy tuple syntax: what an accepted nest
specification guarantees.  (Exact data; Mathlib is only used for list lemmas.)
-/
import Model.Models
import Proofs.ModelsReduce

namespace Models

theorem mem_zip_range {β : Type} (l : List β) (i : Nat) (hi : i < l.length) :
    (i, l[i]) ∈ (List.range l.length).zip l := by
  rw [List.mem_iff_getElem]
  exact ⟨i, by simp [hi], by simp⟩

theorem interEmpty_iff (a b : List Int) : interEmpty a b = true ↔ ∀ j, j ∈ a → j ∉ b := by
  unfold interEmpty
  simp [List.all_eq_true]

/-- nests accepted by `check_intersection` are pairwise disjoint (nests at different positions) -/
theorem checkIntersection_disjoint (cs : List Int) (lists : List (List Int))
    (h : checkIntersection cs lists = true) :
    lists.Pairwise (fun a b => ∀ j, j ∈ a → j ∉ b) := by
  rw [List.pairwise_iff_getElem]
  intro i j hi hj hij
  unfold checkIntersection at h
  simp only [List.all_eq_true] at h
  have h1 := h (i, lists[i]) (mem_zip_range lists i hi)
  simp only [Bool.and_eq_true, List.all_eq_true] at h1
  have h2 := h1.2 (j, lists[j]) (mem_zip_range lists j hj)
  simp only [Bool.or_eq_true, beq_iff_eq] at h2
  rcases h2 with h2 | h2
  · omega
  · exact (interEmpty_iff _ _).1 h2

/-- … and do not meet the alone alternatives -/
theorem checkIntersection_alone (cs : List Int) (lists : List (List Int))
    (h : checkIntersection cs lists = true) :
    ∀ l ∈ lists, ∀ j, j ∈ l → j ∉ aloneOf cs lists := by
  intro l hl
  obtain ⟨i, hi, rfl⟩ := List.mem_iff_getElem.1 hl
  unfold checkIntersection at h
  simp only [List.all_eq_true] at h
  have h1 := h (i, lists[i]) (mem_zip_range lists i hi)
  simp only [Bool.and_eq_true] at h1
  exact (interEmpty_iff _ _).1 h1.1

theorem checkPartition_disjoint (cs : List Int) (lists : List (List Int))
    (h : checkPartition cs lists = true) :
    lists.Pairwise (fun a b => ∀ j, j ∈ a → j ∉ b) := by
  unfold checkPartition at h
  simp only [Bool.and_eq_true] at h
  exact checkIntersection_disjoint cs lists h.2

theorem checkUnion_cover (cs : List Int) (lists : List (List Int)) (h : checkUnion cs lists = true) :
    ∀ i ∈ cs, i ∈ unionAlts lists ∨ i ∈ aloneOf cs lists := by
  intro i hi
  unfold checkUnion at h
  simp only [Bool.and_eq_true, List.all_eq_true] at h
  have := h.1 i hi
  simpa using this

theorem pairwise_nests (nests : List (Nest ℝ))
    (h : (nests.map Nest.alts).Pairwise (fun a b => ∀ j, j ∈ a → j ∉ b)) :
    nests.Pairwise (fun a b => ∀ j, j ∈ a.alts → j ∉ b.alts) := by
  rw [List.pairwise_map] at h
  exact h

/-! ## legacy tuple syntax = object syntax -/

theorem resolve_tuple_eq_object {ν : Type} (altsOf : ν → List Int) (utilKeys : List Int) (ns : List ν) :
    resolve altsOf utilKeys (.legacy (ns.map Spec.tup)) =
      resolve altsOf utilKeys (.object utilKeys (ns.map Spec.obj)) := by
  unfold resolve
  simp only [convertSpecs_tup, convertSpecs_obj]

end Models
