/-
The order in which the nests are listed is irrelevant: validation (`check_partition`) answers the
same for every listing order and refuses every overlap (whichever two positions); for an accepted
(pairwise disjoint) structure the nest that wrote `log_gi[i]` is the only nest containing `i`, hence
`ln G_i` and the probabilities do not depend on the listing order.  Cross-nested: the sums over the
nests are permutation invariant.
-/
import Model.Models
import Proofs.ModelsNests
import Proofs.ModelsNested
import Proofs.ModelsCnl
import Mathlib.Data.List.Perm.Basic
import Mathlib.Algebra.BigOperators.Group.List.Basic

namespace Models

/-- two nests share no alternative -/
def Disj (a b : List Int) : Prop := ∀ j, j ∈ a → j ∉ b

theorem Disj.symm' {a b : List Int} (h : Disj a b) : Disj b a := fun j hb ha => h j ha hb

/-! ## `check_intersection`, `check_union`, `check_partition` characterised -/

theorem zip_range_mem {β : Type} (l : List β) (p : Nat × β) (h : p ∈ (List.range l.length).zip l) :
    ∃ (hi : p.1 < l.length), p.2 = l[p.1] := by
  obtain ⟨k, hk, rfl⟩ := List.mem_iff_getElem.1 h
  have hk' : k < l.length := by simpa using hk
  refine ⟨by simpa using hk', ?_⟩
  simp

theorem checkIntersection_iff (cs : List Int) (lists : List (List Int)) :
    checkIntersection cs lists = true ↔
      (∀ l ∈ lists, Disj l (aloneOf cs lists)) ∧ lists.Pairwise Disj := by
  constructor
  · intro h
    exact ⟨checkIntersection_alone cs lists h, checkIntersection_disjoint cs lists h⟩
  · rintro ⟨hal, hpw⟩
    rw [List.pairwise_iff_getElem] at hpw
    unfold checkIntersection
    simp only [List.all_eq_true, Bool.and_eq_true]
    intro p hp
    obtain ⟨hi, hpi⟩ := zip_range_mem lists p hp
    obtain ⟨i, ni⟩ := p
    simp only at hi hpi
    subst hpi
    refine ⟨(interEmpty_iff _ _).2 (hal _ (List.getElem_mem hi)), ?_⟩
    intro q hq
    obtain ⟨hj, hqj⟩ := zip_range_mem lists q hq
    obtain ⟨j, nj⟩ := q
    simp only at hj hqj
    subst hqj
    simp only [Bool.or_eq_true, beq_iff_eq]
    rcases Nat.lt_trichotomy i j with hlt | heq | hgt
    · exact Or.inr ((interEmpty_iff _ _).2 (hpw i j hi hj hlt))
    · exact Or.inl heq
    · exact Or.inr ((interEmpty_iff _ _).2 (Disj.symm' (hpw j i hj hi hgt)))

theorem mem_unionAlts (lists : List (List Int)) (i : Int) :
    i ∈ unionAlts lists ↔ ∃ l ∈ lists, i ∈ l := by
  unfold unionAlts
  exact List.mem_flatten

theorem unionAlts_perm {l l' : List (List Int)} (h : l.Perm l') (i : Int) :
    i ∈ unionAlts l ↔ i ∈ unionAlts l' := by
  rw [mem_unionAlts, mem_unionAlts]
  constructor
  · rintro ⟨a, ha, hi⟩; exact ⟨a, h.mem_iff.1 ha, hi⟩
  · rintro ⟨a, ha, hi⟩; exact ⟨a, h.mem_iff.2 ha, hi⟩

/-- the alone alternatives depend on the nests only through their union -/
theorem aloneOf_congr (cs : List Int) (l l' : List (List Int))
    (h : ∀ i, i ∈ unionAlts l ↔ i ∈ unionAlts l') : aloneOf cs l = aloneOf cs l' := by
  unfold aloneOf
  congr 1
  apply List.filter_congr
  intro i _
  have := h i
  by_cases h1 : i ∈ unionAlts l
  · simp [h1, this.1 h1]
  · have h2 : i ∉ unionAlts l' := fun h2 => h1 (this.2 h2)
    simp [h1, h2]

theorem checkUnion_iff (cs : List Int) (lists : List (List Int)) :
    checkUnion cs lists = true ↔
      (∀ i ∈ cs, i ∈ unionAlts lists ∨ i ∈ aloneOf cs lists) ∧
      (∀ i, (i ∈ unionAlts lists ∨ i ∈ aloneOf cs lists) → i ∈ cs) := by
  unfold checkUnion
  simp only [Bool.and_eq_true, List.all_eq_true, List.contains_iff_mem, List.mem_append]

/-- `check_union` (= the Boolean of `check_validity`) answers the same for every listing order -/
theorem checkUnion_perm (cs : List Int) {l l' : List (List Int)} (h : l.Perm l') :
    checkUnion cs l = checkUnion cs l' := by
  have hal := aloneOf_congr cs l l' (unionAlts_perm h)
  rw [Bool.eq_iff_iff]
  simp only [checkUnion_iff, hal]
  constructor
  · rintro ⟨h1, h2⟩
    refine ⟨fun i hi => ?_, fun i hi => ?_⟩
    · rcases h1 i hi with hu | ha
      · exact Or.inl ((unionAlts_perm h i).1 hu)
      · exact Or.inr ha
    · rcases hi with hu | ha
      · exact h2 i (Or.inl ((unionAlts_perm h i).2 hu))
      · exact h2 i (Or.inr ha)
  · rintro ⟨h1, h2⟩
    refine ⟨fun i hi => ?_, fun i hi => ?_⟩
    · rcases h1 i hi with hu | ha
      · exact Or.inl ((unionAlts_perm h i).2 hu)
      · exact Or.inr ha
    · rcases hi with hu | ha
      · exact h2 i (Or.inl ((unionAlts_perm h i).1 hu))
      · exact h2 i (Or.inr ha)

/-- `check_partition` answers the same for every listing order of the nests -/
theorem checkPartition_perm (cs : List Int) {l l' : List (List Int)} (h : l.Perm l') :
    checkPartition cs l = checkPartition cs l' := by
  have hal := aloneOf_congr cs l l' (unionAlts_perm h)
  rw [Bool.eq_iff_iff]
  unfold checkPartition
  simp only [Bool.and_eq_true, checkUnion_iff, checkIntersection_iff, hal]
  constructor
  · rintro ⟨⟨h1, h2⟩, h3, h4⟩
    refine ⟨⟨fun i hi => ?_, fun i hi => ?_⟩, fun a ha => h3 a (h.mem_iff.2 ha), (h.pairwise_iff (fun hxy => Disj.symm' hxy)).1 h4⟩
    · rcases h1 i hi with hu | ha
      · exact Or.inl ((unionAlts_perm h i).1 hu)
      · exact Or.inr ha
    · rcases hi with hu | ha
      · exact h2 i (Or.inl ((unionAlts_perm h i).2 hu))
      · exact h2 i (Or.inr ha)
  · rintro ⟨⟨h1, h2⟩, h3, h4⟩
    refine ⟨⟨fun i hi => ?_, fun i hi => ?_⟩, fun a ha => h3 a (h.mem_iff.1 ha), (h.pairwise_iff (fun hxy => Disj.symm' hxy)).2 h4⟩
    · rcases h1 i hi with hu | ha
      · exact Or.inl ((unionAlts_perm h i).2 hu)
      · exact Or.inr ha
    · rcases hi with hu | ha
      · exact h2 i (Or.inl ((unionAlts_perm h i).1 hu))
      · exact h2 i (Or.inr ha)

/-- an alternative written in two nests standing at different positions (any two) is refused -/
theorem checkPartition_overlap (cs : List Int) (lists : List (List Int)) (i j : Nat)
    (hi : i < lists.length) (hj : j < lists.length) (hij : i ≠ j) (x : Int)
    (hxi : x ∈ lists[i]) (hxj : x ∈ lists[j]) : checkPartition cs lists = false := by
  cases hc : checkPartition cs lists with
  | false => rfl
  | true =>
    exfalso
    have hpw := checkPartition_disjoint cs lists hc
    rw [List.pairwise_iff_getElem] at hpw
    rcases Nat.lt_or_gt_of_ne hij with hlt | hgt
    · exact hpw i j hi hj hlt x hxi hxj
    · exact hpw j i hj hi hgt x hxj hxi

/-! ## nested logit: the nest that wrote `log_gi[i]` -/

theorem findNest_perm {α : Type} [NumOps α] {nests nests' : List (Nest α)} (hp : nests.Perm nests')
    (hd : nests.Pairwise fun a b => Disj a.alts b.alts) (i : Int) :
    findNest nests i = findNest nests' i := by
  have : Std.Symm (fun a b : Nest α => Disj a.alts b.alts) := ⟨fun _ _ h => Disj.symm' h⟩
  cases h : findNest nests i with
  | none =>
    have hn := findNest_none nests i h
    cases h' : findNest nests' i with
    | none => rfl
    | some m' =>
      obtain ⟨hm', him'⟩ := findNest_some nests' i m' h'
      exact absurd him' (hn m' (hp.mem_iff.2 hm'))
  | some m =>
    obtain ⟨hm, him⟩ := findNest_some nests i m h
    cases h' : findNest nests' i with
    | none => exact absurd him (findNest_none nests' i h' m (hp.mem_iff.1 hm))
    | some m' =>
      obtain ⟨hm', him'⟩ := findNest_some nests' i m' h'
      by_cases heq : m = m'
      · rw [heq]
      · exact absurd him' (hd.forall hm (hp.mem_iff.2 hm') heq i him)

theorem nestedLogG_perm {α : Type} [NumOps α] {nests nests' : List (Nest α)} (hp : nests.Perm nests')
    (hd : nests.Pairwise fun a b => Disj a.alts b.alts) (V av : Int → α) :
    nestedLogG nests V av = nestedLogG nests' V av := by
  funext i
  unfold nestedLogG
  rw [findNest_perm hp hd i]

theorem nestedMuLogG_perm {α : Type} [NumOps α] {nests nests' : List (Nest α)} (hp : nests.Perm nests')
    (hd : nests.Pairwise fun a b => Disj a.alts b.alts) (mu : α) (V av : Int → α) :
    nestedMuLogG nests mu V av = nestedMuLogG nests' mu V av := by
  funext i
  unfold nestedMuLogG
  rw [findNest_perm hp hd i]

/-! ## cross-nested logit: sums over the nests -/

theorem giTerms_perm {α : Type} [NumOps α] {nests nests' : List (CNest α)} (hp : nests.Perm nests')
    (term : CNest α → Int → α → α) (i : Int) :
    (giTerms term nests i).Perm (giTerms term nests' i) := by
  unfold giTerms
  exact hp.flatMap_right _

theorem inSomeCNest_perm {α : Type} [NumOps α] {nests nests' : List (CNest α)} (hp : nests.Perm nests')
    (i : Int) : inSomeCNest nests i = inSomeCNest nests' i := by
  unfold inSomeCNest
  rw [Bool.eq_iff_iff]
  simp only [List.any_eq_true]
  constructor
  · rintro ⟨m, hm, h⟩; exact ⟨m, hp.mem_iff.1 hm, h⟩
  · rintro ⟨m, hm, h⟩; exact ⟨m, hp.mem_iff.2 hm, h⟩

theorem zeroMember_perm {α : Type} [NumOps α] {nests nests' : List (CNest α)} (hp : nests.Perm nests')
    (i : Int) : zeroMember nests i = zeroMember nests' i := by
  unfold zeroMember
  rw [Bool.eq_iff_iff]
  simp only [List.all_eq_true]
  have hm := fun a => (giTerms_perm hp (fun _ _ a => a) i).mem_iff (a := a)
  constructor
  · intro h a ha; exact h a ((hm a).2 ha)
  · intro h a ha; exact h a ((hm a).1 ha)

theorem sum_giTerms_perm {nests nests' : List (CNest ℝ)} (hp : nests.Perm nests')
    (term : CNest ℝ → Int → ℝ → ℝ) (i : Int) :
    Num.sum (giTerms term nests i) = Num.sum (giTerms term nests' i) := by
  rw [NumR.sum_real, NumR.sum_real]
  exact (giTerms_perm hp term i).sum_eq

theorem cnlLogG_perm {nests nests' : List (CNest ℝ)} (hp : nests.Perm nests') (V av : Int → ℝ) :
    cnlLogG nests V av = cnlLogG nests' V av := by
  funext i
  unfold cnlLogG
  rw [inSomeCNest_perm hp i, sum_giTerms_perm hp]

theorem cnlMuLogG_perm {nests nests' : List (CNest ℝ)} (hp : nests.Perm nests') (mu : ℝ)
    (V av : Int → ℝ) : cnlMuLogG nests mu V av = cnlMuLogG nests' mu V av := by
  funext i
  unfold cnlMuLogG
  rw [inSomeCNest_perm hp i, zeroMember_perm hp i, sum_giTerms_perm hp]

end Models
