/-
Ordered models over `ℝ`: the dict built by `ordered_likelihood` sums to one (telescoping) for
every `F`, lies in [0,1] for a monotone `F` with values in [0,1]; the logistic cdf and Φ are such.
-/
import Proofs.Models

namespace Models

/-! ## the logistic cdf -/

theorem logisticCdf_real (x : ℝ) : logisticCdf x = 1 / (1 + Real.exp (-x)) := by
  unfold logisticCdf
  simp

theorem logisticCdf_nonneg (x : ℝ) : 0 ≤ logisticCdf x := by
  rw [logisticCdf_real]
  have := Real.exp_pos (-x)
  positivity

theorem logisticCdf_le_one (x : ℝ) : logisticCdf x ≤ 1 := by
  rw [logisticCdf_real]
  have := Real.exp_pos (-x)
  rw [div_le_one (by linarith)]
  linarith

theorem logisticCdf_mono : Monotone (logisticCdf : ℝ → ℝ) := by
  intro x y hxy
  rw [logisticCdf_real, logisticCdf_real]
  have hx := Real.exp_pos (-x)
  have hy := Real.exp_pos (-y)
  apply one_div_le_one_div_of_le (by linarith)
  have : Real.exp (-y) ≤ Real.exp (-x) := Real.exp_le_exp.2 (by linarith)
  linarith

/-! ## Python dict assignment -/

theorem dictSet_fresh {β : Type} (d : List (Int × β)) (k : Int) (v : β) (h : ∀ p ∈ d, p.1 ≠ k) :
    dictSet d k v = d ++ [(k, v)] := by
  unfold dictSet
  have : d.any (fun p => p.1 == k) = false := by
    rw [List.any_eq_false]
    intro p hp
    simpa using h p hp
  rw [this]
  simp

theorem mem_dictSet {β : Type} (d : List (Int × β)) (k : Int) (v : β) (p : Int × β)
    (hp : p ∈ dictSet d k v) : p ∈ d ∨ p = (k, v) := by
  unfold dictSet at hp
  split at hp
  · rcases List.mem_map.1 hp with ⟨q, hq, rfl⟩
    split
    · exact Or.inr rfl
    · exact Or.inl hq
  · rcases List.mem_append.1 hp with h | h
    · exact Or.inl h
    · exact Or.inr (by simpa using h)

/-! ## the loop over the intermediate values -/

theorem orderedLoop_sum (F : ℝ → ℝ) (x : ℝ) (diffOf : Int → ℝ) :
    ∀ (items : List Int) (tau : ℝ) (d : List (Int × ℝ)),
      items.Nodup → (∀ k ∈ items, ∀ p ∈ d, p.1 ≠ k) →
      ((orderedLoop F x diffOf items tau d).1.map Prod.snd).sum =
          (d.map Prod.snd).sum + F (x - tau) - F (x - (orderedLoop F x diffOf items tau d).2) ∧
        (orderedLoop F x diffOf items tau d).1.map Prod.fst = d.map Prod.fst ++ items
  | [], tau, d, _, _ => by simp [orderedLoop]
  | item :: rest, tau, d, hnd, hfresh => by
    unfold orderedLoop
    simp only [NumR.add_real, NumR.sub_real]
    have hf : ∀ p ∈ d, p.1 ≠ item := hfresh item List.mem_cons_self
    rw [dictSet_fresh d item _ hf]
    have hnd' := (List.nodup_cons.1 hnd)
    have ih := orderedLoop_sum F x diffOf rest (tau + diffOf item)
      (d ++ [(item, F (x - tau) - F (x - (tau + diffOf item)))]) hnd'.2 (by
        intro k hk p hp
        rcases List.mem_append.1 hp with h | h
        · exact hfresh k (List.mem_cons_of_mem _ hk) p h
        · have : p = (item, F (x - tau) - F (x - (tau + diffOf item))) := by simpa using h
          rw [this]
          intro heq
          have heq' : item = k := heq
          exact hnd'.1 (heq' ▸ hk))
    constructor
    · rw [ih.1]
      simp only [List.map_append, List.sum_append, List.map_cons, List.map_nil, List.sum_cons,
        List.sum_nil]
      ring
    · rw [ih.2]
      simp

theorem orderedLoop_range (F : ℝ → ℝ) (x : ℝ) (diffOf : Int → ℝ) (hmono : Monotone F)
    (h01 : ∀ t, 0 ≤ F t ∧ F t ≤ 1) (hd : ∀ k, 0 ≤ diffOf k) :
    ∀ (items : List Int) (tau : ℝ) (d : List (Int × ℝ)),
      (∀ p ∈ d, 0 ≤ p.2 ∧ p.2 ≤ 1) →
      ∀ p ∈ (orderedLoop F x diffOf items tau d).1, 0 ≤ p.2 ∧ p.2 ≤ 1
  | [], _, d, h => by simpa [orderedLoop] using h
  | item :: rest, tau, d, h => by
    unfold orderedLoop
    simp only [NumR.add_real, NumR.sub_real]
    apply orderedLoop_range F x diffOf hmono h01 hd rest
    intro p hp
    rcases mem_dictSet _ _ _ _ hp with h1 | h1
    · exact h p h1
    · rw [h1]
      have hle : F (x - (tau + diffOf item)) ≤ F (x - tau) := hmono (by linarith [hd item])
      have := h01 (x - tau)
      have := h01 (x - (tau + diffOf item))
      constructor <;> simp only <;> linarith

/-! ## the whole function -/

theorem orderedLikelihood_cons (F : ℝ → ℝ) (x tau : ℝ) (diffOf : Int → ℝ) (a : Int) (t : List Int)
    (ht : t ≠ []) :
    orderedLikelihood F x tau diffOf (a :: t) =
      .ok (dictSet (orderedLoop F x diffOf t.dropLast tau [(a, 1 - F (x - tau))]).1 (t.getLast ht)
        (F (x - (orderedLoop F x diffOf t.dropLast tau [(a, 1 - F (x - tau))]).2))) := by
  cases t with
  | nil => exact absurd rfl ht
  | cons b t' =>
    cases t' with
    | nil => simp [orderedLikelihood, orderedLoop, pure, Except.pure]
    | cons c r =>
      have hl : (c :: r).getLast?.getD a = (c :: r).getLast (by simp) := by
        rw [List.getLast?_eq_some_getLast (by simp : c :: r ≠ [])]; rfl
      simp [orderedLikelihood, middle, pure, Except.pure, List.getLast?_cons_cons, hl]

theorem orderedLikelihood_error (F : ℝ → ℝ) (x tau : ℝ) (diffOf : Int → ℝ) (labels : List Int)
    (h : labels.length < 2) : orderedLikelihood F x tau diffOf labels = .error "BiogemeError" := by
  match labels, h with
  | [], _ => rfl
  | [_], _ => rfl

/-- the probabilities of the discrete values sum to one and the keys are the values, for every
function `F`, every threshold and every threshold differences (distinct values) -/
theorem orderedLikelihood_sum (F : ℝ → ℝ) (x tau : ℝ) (diffOf : Int → ℝ) (labels : List Int)
    (d : List (Int × ℝ)) (hnd : labels.Nodup)
    (h : orderedLikelihood F x tau diffOf labels = .ok d) :
    (d.map Prod.snd).sum = 1 ∧ d.map Prod.fst = labels := by
  match labels, hnd, h with
  | [], _, h => cases h
  | [_], _, h => cases h
  | a :: b :: r, hnd, h =>
    have ht : (b :: r) ≠ [] := by simp
    rw [orderedLikelihood_cons F x tau diffOf a (b :: r) ht] at h
    injection h with h
    have hsplit : (b :: r).dropLast ++ [(b :: r).getLast ht] = b :: r := List.dropLast_append_getLast ht
    have hnd' : (a :: ((b :: r).dropLast ++ [(b :: r).getLast ht])).Nodup := by rw [hsplit]; exact hnd
    generalize (b :: r).dropLast = mid at *
    generalize (b :: r).getLast ht = last at *
    have h1 := List.nodup_cons.1 hnd'
    have h2 := List.nodup_append.1 h1.2
    have hloop := orderedLoop_sum F x diffOf mid tau [(a, 1 - F (x - tau))] h2.1 (by
      intro k hk p hp
      have : p = (a, 1 - F (x - tau)) := by simpa using hp
      rw [this]
      intro heq
      have heq' : a = k := heq
      exact h1.1 (List.mem_append_left _ (heq' ▸ hk)))
    have hfresh : ∀ p ∈ (orderedLoop F x diffOf mid tau [(a, 1 - F (x - tau))]).1, p.1 ≠ last := by
      intro p hp heq
      have : p.1 ∈ (orderedLoop F x diffOf mid tau [(a, 1 - F (x - tau))]).1.map Prod.fst :=
        List.mem_map.2 ⟨p, hp, rfl⟩
      rw [hloop.2] at this
      simp only [List.map_cons, List.map_nil, List.cons_append, List.nil_append,
        List.mem_cons] at this
      rcases this with h | h
      · exact h1.1 (List.mem_append_right _ (by simp [← h, heq]))
      · exact h2.2.2 p.1 h last (by simp) heq
    rw [dictSet_fresh _ _ _ hfresh] at h
    subst h
    constructor
    · rw [List.map_append, List.sum_append, hloop.1]
      simp
    · rw [List.map_append, hloop.2, ← hsplit]
      simp

/-- every probability lies in [0,1] when `F` is monotone with values in [0,1] and the threshold
differences are not negative -/
theorem orderedLikelihood_range (F : ℝ → ℝ) (x tau : ℝ) (diffOf : Int → ℝ) (labels : List Int)
    (d : List (Int × ℝ)) (hmono : Monotone F) (h01 : ∀ t, 0 ≤ F t ∧ F t ≤ 1)
    (hd : ∀ k, 0 ≤ diffOf k) (h : orderedLikelihood F x tau diffOf labels = .ok d) :
    ∀ p ∈ d, 0 ≤ p.2 ∧ p.2 ≤ 1 := by
  match labels, h with
  | [], h => cases h
  | [_], h => cases h
  | a :: b :: r, h =>
    have ht : (b :: r) ≠ [] := by simp
    rw [orderedLikelihood_cons F x tau diffOf a (b :: r) ht] at h
    injection h with h
    subst h
    intro p hp
    rcases mem_dictSet _ _ _ _ hp with h1 | h1
    · refine orderedLoop_range F x diffOf hmono h01 hd _ tau _ ?_ p h1
      intro q hq
      have : q = (a, 1 - F (x - tau)) := by simpa using hq
      rw [this]
      have := h01 (x - tau)
      constructor <;> simp only <;> linarith
    · rw [h1]
      exact h01 _

end Models
