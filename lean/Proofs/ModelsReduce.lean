/-
Consistency of the model family over `ℝ`: explicit scale one for the cross-nested logit,
degenerate cross-nested = nested, conversion of the legacy tuple syntax.
-/
import Proofs.ModelsNested
import Proofs.ModelsCnl

namespace Models

/-! ## cross-nested logit with scale one -/

theorem cnlMuTerm_one (V av : Int → ℝ) (m : CNest ℝ) (i : Int) (a : ℝ) (hm : m.mu ≠ 0) :
    cnlMuTerm 1 V av m i a = cnlTerm V av m i a := by
  rw [cnlMuTerm_real, cnlTerm_real, div_one]
  have : 1 / m.mu - 1 = (1 - m.mu) / m.mu := by field_simp
  rw [this]

/-- a term whose membership is zero vanishes (`0 ^ mu_m = 0`, `mu_m ≠ 0`) -/
theorem cnlTerm_zero (V av : Int → ℝ) (m : CNest ℝ) (i : Int) (hm : m.mu ≠ 0) :
    cnlTerm V av m i 0 = 0 := by
  rw [cnlTerm_real, Real.zero_rpow hm]; ring

theorem cnlMuTerm_zero (mu : ℝ) (V av : Int → ℝ) (m : CNest ℝ) (i : Int) (hm : m.mu / mu ≠ 0) :
    cnlMuTerm mu V av m i 0 = 0 := by
  rw [cnlMuTerm_real, Real.zero_rpow hm]; ring

/-- every membership of `i` is zero: the sum of its terms is zero -/
theorem sum_giTerms_zeroMember (term : CNest ℝ → Int → ℝ → ℝ) (nests : List (CNest ℝ)) (i : Int)
    (h0 : ∀ m ∈ nests, term m i 0 = 0) (hz : zeroMember nests i = true) :
    (giTerms term nests i).sum = 0 := by
  apply List.sum_eq_zero
  intro x hx
  obtain ⟨m, hm, p, hp, hpi, rfl⟩ := (mem_giTerms term i x nests).1 hx
  rw [(zeroMember_iff nests i).1 hz m hm p hp hpi]
  exact h0 m hm

theorem cnlMuLogG_one (nests : List (CNest ℝ)) (V av : Int → ℝ) (i : Int)
    (hmu : ∀ m ∈ nests, m.mu ≠ 0)
    (hpos : inSomeCNest nests i = true → zeroMember nests i = false →
      0 < (giTerms (cnlTerm V av) nests i).sum) :
    cnlMuLogG nests 1 V av i = cnlLogG nests V av i := by
  by_cases h : inSomeCNest nests i = true
  · cases hz : zeroMember nests i with
    | false =>
      rw [cnlMuLogG_listed _ _ _ _ _ h hz]
      unfold cnlLogG
      rw [if_pos h, NumR.sum_real]
      have hs := sum_giTerms_scale (cnlTerm V av) (cnlMuTerm 1 V av) 1 i nests (by
        intro m hm a
        rw [one_mul]
        exact cnlMuTerm_one V av m i a (hmu m hm))
      rw [hs, one_mul, one_mul, logzero_of_pos (hpos h hz)]
    | true =>
      rw [cnlMuLogG_alone _ _ _ _ _ (Or.inr hz)]
      unfold cnlLogG
      rw [if_pos h, NumR.sum_real,
        sum_giTerms_zeroMember (cnlTerm V av) nests i (fun m hm => cnlTerm_zero V av m i (hmu m hm)) hz,
        logzero_zero]
      simp
  · have h' : inSomeCNest nests i = false := by simpa using h
    rw [cnlMuLogG_alone _ _ _ _ _ (Or.inl h')]
    unfold cnlLogG
    rw [if_neg h]
    simp

/-- explicit scale one = unscaled, for every well-formed cross-nested structure: an alternative
whose memberships are all zero is alone in both versions, any other listed alternative has a
positive membership (none is negative) -/
theorem cnlMuP_one_all (nests : List (CNest ℝ)) (alts : List Int) (V av : Int → ℝ) (c : Int)
    (hc : c ∈ alts) (ok : CnlOK nests av) :
    cnlMuP nests 1 alts V av c = cnlP nests alts V av c := by
  rw [cnlMuP_eq_mevP, cnlP_eq_mevP]
  apply mevP_congr alts V _ _ av c hc
  intro i _ hav
  apply cnlMuLogG_one nests V av i ok.mu_ne
  intro _ hz
  exact sum_cnlTerms_pos nests V av i ok (avail_pos av i ok.av_nonneg hav)
    (pos_of_zeroMember_false nests i ok.alpha_nonneg hz)

theorem cnlMuP_one (nests : List (CNest ℝ)) (alts : List Int) (V av : Int → ℝ) (c : Int)
    (hc : c ∈ alts) (ok : CnlOK nests av)
    (_hr : ∀ i ∈ alts, avail av i = true → Reachable nests i) :
    cnlMuP nests 1 alts V av c = cnlP nests alts V av c :=
  cnlMuP_one_all nests alts V av c hc ok

/-! ## every alternative wholly in one nest: cross-nested = nested -/

theorem toCNest_alts (m : Nest ℝ) : (toCNest m).alts = m.alts := by
  unfold toCNest CNest.alts
  simp [List.map_map, Function.comp_def]

theorem toCNest_mu (m : Nest ℝ) : (toCNest m).mu = m.mu := rfl

theorem filter_beq_of_nodup (l : List Int) (i : Int) (hnd : l.Nodup) (hi : i ∈ l) :
    l.filter (fun j => j == i) = [i] := by
  rw [List.filter_beq, List.count_eq_one_of_mem hnd hi]
  rfl

theorem filter_beq_of_not_mem (l : List Int) (i : Int) (hi : i ∉ l) :
    l.filter (fun j => j == i) = [] := by
  rw [List.filter_eq_nil_iff]
  intro j hj h
  have : j = i := by simpa using h
  exact hi (this ▸ hj)

theorem toCNest_filter (m : Nest ℝ) (i : Int) :
    (toCNest m).alphas.filter (fun p => p.1 == i) = (m.alts.filter fun j => j == i).map fun j => (j, (1 : ℝ)) := by
  unfold toCNest
  simp only [NumR.ofNat_real_one]
  rw [List.filter_map]
  rfl

theorem giTerms_toCNest_not_mem (term : CNest ℝ → Int → ℝ → ℝ) (i : Int) :
    ∀ (ns : List (Nest ℝ)), (∀ n ∈ ns, i ∉ n.alts) → giTerms term (ns.map toCNest) i = []
  | [], _ => rfl
  | n :: ns, h => by
    rw [List.map_cons, giTerms_cons, toCNest_filter,
      filter_beq_of_not_mem _ _ (h n List.mem_cons_self),
      giTerms_toCNest_not_mem term i ns (fun b hb => h b (List.mem_cons_of_mem _ hb))]
    rfl

theorem giTerms_toCNest (term : CNest ℝ → Int → ℝ → ℝ) (i : Int) (m : Nest ℝ) :
    ∀ (nests : List (Nest ℝ)),
      nests.Pairwise (fun a b => ∀ j, j ∈ a.alts → j ∉ b.alts) → (∀ n ∈ nests, n.alts.Nodup) →
      findNest nests i = some m → giTerms term (nests.map toCNest) i = [term (toCNest m) i 1]
  | [], _, _, h => by simp [findNest] at h
  | n :: ns, hpw, hnd, h => by
    have hpw' := List.pairwise_cons.1 hpw
    rw [List.map_cons, giTerms_cons, toCNest_filter]
    unfold findNest at h
    cases hrec : findNest ns i with
    | some m' =>
      rw [hrec] at h
      simp only [Option.some.injEq] at h
      subst h
      obtain ⟨hm, him⟩ := findNest_some ns i m' hrec
      have hni : i ∉ n.alts := fun hin => hpw'.1 m' hm i hin him
      rw [filter_beq_of_not_mem _ _ hni,
        giTerms_toCNest term i m' ns hpw'.2 (fun b hb => hnd b (List.mem_cons_of_mem _ hb)) hrec]
      rfl
    | none =>
      rw [hrec] at h
      simp only at h
      by_cases hc : n.alts.contains i = true
      · rw [if_pos hc] at h
        simp only [Option.some.injEq] at h
        subst h
        have hin : i ∈ n.alts := by simpa using hc
        rw [filter_beq_of_nodup _ _ (hnd n List.mem_cons_self) hin,
          giTerms_toCNest_not_mem term i ns (findNest_none ns i hrec)]
        rfl
      · rw [if_neg hc] at h
        cases h

theorem inSomeCNest_toCNest_false (nests : List (Nest ℝ)) (i : Int) (h : ∀ n ∈ nests, i ∉ n.alts) :
    inSomeCNest (nests.map toCNest) i = false := by
  unfold inSomeCNest
  rw [List.any_eq_false]
  intro m hm
  rcases List.mem_map.1 hm with ⟨n, hn, rfl⟩
  rw [toCNest_alts]
  simpa using h n hn

theorem inSomeCNest_toCNest_true (nests : List (Nest ℝ)) (i : Int) (n : Nest ℝ) (hn : n ∈ nests)
    (hi : i ∈ n.alts) : inSomeCNest (nests.map toCNest) i = true := by
  unfold inSomeCNest
  rw [List.any_eq_true]
  refine ⟨toCNest n, List.mem_map.2 ⟨n, hn, rfl⟩, ?_⟩
  rw [toCNest_alts]
  simpa using hi

/-- with 0/1 availabilities the cross-nested sum of a degenerate nest is the nested-logit sum -/
theorem cnlBiosum_toCNest (V av : Int → ℝ) (m : Nest ℝ) (h01 : ∀ j, av j = 0 ∨ av j = 1) :
    cnlBiosum V av (toCNest m) m.mu = nestSum V av m := by
  rw [cnlBiosum_real, nestSum_real, toCNest_mu]
  unfold toCNest
  simp only [NumR.ofNat_real_one, List.map_map, Function.comp_def, Real.one_rpow, mul_one]
  rw [← sum_map_ite_filter]
  congr 1
  apply List.map_congr_left
  intro j _
  rcases h01 j with h | h
  · have : avail av j = false := (avail_false_iff av j).2 h
    simp [h, this]
  · have : avail av j = true := (avail_iff av j).2 (by rw [h]; exact one_ne_zero)
    simp [h, this]

/-- `ln G_i` of the degenerate cross-nested structure = `ln G_i` of the nested logit
(available alternative) -/
theorem cnlLogG_toCNest (nests : List (Nest ℝ)) (V av : Int → ℝ) (i : Int)
    (hpw : nests.Pairwise (fun a b => ∀ j, j ∈ a.alts → j ∉ b.alts))
    (hnd : ∀ n ∈ nests, n.alts.Nodup) (hmu : ∀ m ∈ nests, m.mu ≠ 0)
    (h01 : ∀ j, av j = 0 ∨ av j = 1) (hav : avail av i = true) :
    cnlLogG (nests.map toCNest) V av i = nestedLogG nests V av i := by
  cases h : findNest nests i with
  | none =>
    rw [nestedLogG_none _ _ _ _ h]
    unfold cnlLogG
    rw [inSomeCNest_toCNest_false nests i (findNest_none nests i h)]
    simp
  | some m =>
    obtain ⟨hm, him⟩ := findNest_some nests i m h
    rw [nestedLogG_some _ _ _ _ m h]
    unfold cnlLogG
    rw [inSomeCNest_toCNest_true nests i m hm him, if_pos rfl, NumR.sum_real,
      giTerms_toCNest (cnlTerm V av) i m nests hpw hnd h]
    simp only [List.sum_cons, List.sum_nil, add_zero]
    have hS := nestSum_pos V av m i him hav
    have hm0 := hmu m hm
    rw [cnlTerm_real, toCNest_mu, cnlBiosum_toCNest V av m h01, Real.one_rpow, one_mul]
    have hpos : 0 < Real.exp ((m.mu - 1) * V i) * nestSum V av m ^ ((1 - m.mu) / m.mu) :=
      mul_pos (Real.exp_pos _) (Real.rpow_pos_of_pos hS _)
    rw [logzero_of_pos hpos, Real.log_mul (Real.exp_pos _).ne' (Real.rpow_pos_of_pos hS _).ne',
      Real.log_exp, Real.log_rpow hS]
    have : (1 - m.mu) / m.mu = 1 / m.mu - 1 := by field_simp
    rw [this]

theorem cnlP_toCNest (nests : List (Nest ℝ)) (alts : List Int) (V av : Int → ℝ) (c : Int)
    (hc : c ∈ alts)
    (hpw : nests.Pairwise (fun a b => ∀ j, j ∈ a.alts → j ∉ b.alts))
    (hnd : ∀ n ∈ nests, n.alts.Nodup) (hmu : ∀ m ∈ nests, m.mu ≠ 0)
    (h01 : ∀ j, av j = 0 ∨ av j = 1) :
    cnlP (nests.map toCNest) alts V av c = nestedP nests alts V av c := by
  rw [cnlP_eq_mevP, nestedP_eq_mevP]
  apply mevP_congr alts V _ _ av c hc
  intro i _ hav
  exact cnlLogG_toCNest nests V av i hpw hnd hmu h01 hav

/-! ## legacy tuple syntax -/

theorem convertSpecs_tup {ν : Type} (ns : List ν) :
    convertSpecs (ns.map Spec.tup) = .ok ns := by
  unfold convertSpecs
  cases ns with
  | nil => rfl
  | cons n t =>
    have hall : ((n :: t).map (Spec.tup (ν := ν))).all Spec.isObj = false := by
      simp [Spec.isObj]
    rw [hall]
    simp only [Bool.false_eq_true, if_false]
    have : ∀ l : List ν, (l.map (Spec.tup (ν := ν))).mapM (m := Except String) (fun
        | .tup n => pure n
        | .obj _ => throw "TypeError") = .ok l := by
      intro l
      induction l with
      | nil => rfl
      | cons a t ih =>
        rw [List.map_cons, List.mapM_cons, ih]
        rfl
    exact this (n :: t)

theorem convertSpecs_obj {ν : Type} (ns : List ν) :
    convertSpecs (ns.map Spec.obj) = .ok ns := by
  unfold convertSpecs
  have hall : (ns.map (Spec.obj (ν := ν))).all Spec.isObj = true := by
    simp [Spec.isObj]
  rw [hall]
  simp [pure, Except.pure, Spec.get, List.map_map, Function.comp_def]

end Models
