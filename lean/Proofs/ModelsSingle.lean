/-
Every alternative in a single nest with an allocation `alpha_i > 0`: the cross-nested logit is
the nested logit on the utilities `V_i + log alpha_i` (generalises the degenerate case alpha = 1).
-/
import Proofs.ModelsReduce

namespace Models

theorem toCNestA_alts (a : Int → ℝ) (m : Nest ℝ) : (toCNestA a m).alts = m.alts := by
  unfold toCNestA CNest.alts
  simp [List.map_map, Function.comp_def]

theorem toCNestA_mu (a : Int → ℝ) (m : Nest ℝ) : (toCNestA a m).mu = m.mu := rfl

theorem toCNestA_filter (a : Int → ℝ) (m : Nest ℝ) (i : Int) :
    (toCNestA a m).alphas.filter (fun p => p.1 == i) =
      (m.alts.filter fun j => j == i).map fun j => (j, a j) := by
  unfold toCNestA
  rw [List.filter_map]
  rfl

theorem giTerms_toCNestA_not_mem (a : Int → ℝ) (term : CNest ℝ → Int → ℝ → ℝ) (i : Int) :
    ∀ (ns : List (Nest ℝ)), (∀ n ∈ ns, i ∉ n.alts) → giTerms term (ns.map (toCNestA a)) i = []
  | [], _ => rfl
  | n :: ns, h => by
    rw [List.map_cons, giTerms_cons, toCNestA_filter,
      filter_beq_of_not_mem _ _ (h n List.mem_cons_self),
      giTerms_toCNestA_not_mem a term i ns (fun b hb => h b (List.mem_cons_of_mem _ hb))]
    rfl

theorem giTerms_toCNestA (a : Int → ℝ) (term : CNest ℝ → Int → ℝ → ℝ) (i : Int) (m : Nest ℝ) :
    ∀ (nests : List (Nest ℝ)),
      nests.Pairwise (fun x y => ∀ j, j ∈ x.alts → j ∉ y.alts) → (∀ n ∈ nests, n.alts.Nodup) →
      findNest nests i = some m →
      giTerms term (nests.map (toCNestA a)) i = [term (toCNestA a m) i (a i)]
  | [], _, _, h => by simp [findNest] at h
  | n :: ns, hpw, hnd, h => by
    have hpw' := List.pairwise_cons.1 hpw
    rw [List.map_cons, giTerms_cons, toCNestA_filter]
    unfold findNest at h
    cases hrec : findNest ns i with
    | some m' =>
      rw [hrec] at h
      simp only [Option.some.injEq] at h
      subst h
      obtain ⟨hm, him⟩ := findNest_some ns i m' hrec
      have hni : i ∉ n.alts := fun hin => hpw'.1 m' hm i hin him
      rw [filter_beq_of_not_mem _ _ hni,
        giTerms_toCNestA a term i m' ns hpw'.2 (fun b hb => hnd b (List.mem_cons_of_mem _ hb)) hrec]
      rfl
    | none =>
      rw [hrec] at h
      simp only at h
      by_cases hc : n.alts.contains i = true
      · rw [if_pos hc] at h
        simp only [Option.some.injEq] at h
        subst h
        have hin : i ∈ n.alts := by simpa using hc
        rw [filter_beq_of_nodup _ _ (hnd n List.mem_cons_self) hin,
          giTerms_toCNestA_not_mem a term i ns (findNest_none ns i hrec)]
        rfl
      · rw [if_neg hc] at h
        cases h

theorem inSomeCNest_toCNestA_false (a : Int → ℝ) (nests : List (Nest ℝ)) (i : Int)
    (h : ∀ n ∈ nests, i ∉ n.alts) : inSomeCNest (nests.map (toCNestA a)) i = false := by
  unfold inSomeCNest
  rw [List.any_eq_false]
  intro m hm
  rcases List.mem_map.1 hm with ⟨n, hn, rfl⟩
  rw [toCNestA_alts]
  simpa using h n hn

theorem inSomeCNest_toCNestA_true (a : Int → ℝ) (nests : List (Nest ℝ)) (i : Int) (n : Nest ℝ)
    (hn : n ∈ nests) (hi : i ∈ n.alts) : inSomeCNest (nests.map (toCNestA a)) i = true := by
  unfold inSomeCNest
  rw [List.any_eq_true]
  refine ⟨toCNestA a n, List.mem_map.2 ⟨n, hn, rfl⟩, ?_⟩
  rw [toCNestA_alts]
  simpa using hi

/-- the cross-nested nest sum is the nested-logit nest sum at the utilities `V + log a` -/
theorem cnlBiosum_toCNestA (a V av : Int → ℝ) (m : Nest ℝ) (ha : ∀ j, 0 < a j)
    (h01 : ∀ j, av j = 0 ∨ av j = 1) :
    cnlBiosum V av (toCNestA a m) m.mu = nestSum (fun j => V j + Real.log (a j)) av m := by
  rw [cnlBiosum_real, nestSum_real, toCNestA_mu]
  unfold toCNestA
  simp only [List.map_map, Function.comp_def]
  rw [← sum_map_ite_filter]
  congr 1
  apply List.map_congr_left
  intro j _
  have hexp : Real.exp (m.mu * (V j + Real.log (a j))) = (a j) ^ m.mu * Real.exp (m.mu * V j) := by
    rw [Real.rpow_def_of_pos (ha j), ← Real.exp_add]
    congr 1; ring
  rcases h01 j with h | h
  · have : avail av j = false := (avail_false_iff av j).2 h
    simp [h, this]
  · have : avail av j = true := (avail_iff av j).2 (by rw [h]; exact one_ne_zero)
    simp [h, this, hexp]

/-- `V_i + ln G_i` of the single-nest cross-nested structure = `W_i + ln G_i` of the nested logit
on `W = V + log a` (available alternative) -/
theorem single_nest_h (a : Int → ℝ) (nests : List (Nest ℝ)) (V av : Int → ℝ) (i : Int)
    (hpw : nests.Pairwise (fun x y => ∀ j, j ∈ x.alts → j ∉ y.alts))
    (hnd : ∀ n ∈ nests, n.alts.Nodup) (hmu : ∀ m ∈ nests, m.mu ≠ 0)
    (h01 : ∀ j, av j = 0 ∨ av j = 1) (ha : ∀ j, 0 < a j)
    (ha1 : ∀ j, (∀ m ∈ nests, j ∉ m.alts) → a j = 1) (hav : avail av i = true) :
    V i + cnlLogG (nests.map (toCNestA a)) V av i =
      (V i + Real.log (a i)) + nestedLogG nests (fun j => V j + Real.log (a j)) av i := by
  cases h : findNest nests i with
  | none =>
    have hnot := findNest_none nests i h
    rw [nestedLogG_none _ _ _ _ h]
    unfold cnlLogG
    rw [inSomeCNest_toCNestA_false a nests i hnot, ha1 i hnot]
    simp
  | some m =>
    obtain ⟨hm, him⟩ := findNest_some nests i m h
    rw [nestedLogG_some _ _ _ _ m h]
    unfold cnlLogG
    rw [inSomeCNest_toCNestA_true a nests i m hm him, if_pos rfl, NumR.sum_real,
      giTerms_toCNestA a (cnlTerm V av) i m nests hpw hnd h]
    simp only [List.sum_cons, List.sum_nil, add_zero]
    have hS := nestSum_pos (fun j => V j + Real.log (a j)) av m i him hav
    have hm0 := hmu m hm
    rw [cnlTerm_real, toCNestA_mu, cnlBiosum_toCNestA a V av m ha h01]
    have hapos : 0 < (a i) ^ m.mu := Real.rpow_pos_of_pos (ha i) _
    have hBpos := Real.rpow_pos_of_pos hS ((1 - m.mu) / m.mu)
    have hpos : 0 < (a i) ^ m.mu * Real.exp ((m.mu - 1) * V i) *
        nestSum (fun j => V j + Real.log (a j)) av m ^ ((1 - m.mu) / m.mu) :=
      mul_pos (mul_pos hapos (Real.exp_pos _)) hBpos
    rw [logzero_of_pos hpos, Real.log_mul (mul_pos hapos (Real.exp_pos _)).ne' hBpos.ne',
      Real.log_mul hapos.ne' (Real.exp_pos _).ne', Real.log_exp, Real.log_rpow hS,
      Real.log_rpow (ha i)]
    have : (1 - m.mu) / m.mu = 1 / m.mu - 1 := by field_simp
    rw [this]
    ring

theorem cnlP_toCNestA (a : Int → ℝ) (nests : List (Nest ℝ)) (alts : List Int) (V av : Int → ℝ)
    (c : Int) (hc : c ∈ alts)
    (hpw : nests.Pairwise (fun x y => ∀ j, j ∈ x.alts → j ∉ y.alts))
    (hnd : ∀ n ∈ nests, n.alts.Nodup) (hmu : ∀ m ∈ nests, m.mu ≠ 0)
    (h01 : ∀ j, av j = 0 ∨ av j = 1) (ha : ∀ j, 0 < a j)
    (ha1 : ∀ j, (∀ m ∈ nests, j ∉ m.alts) → a j = 1) :
    cnlP (nests.map (toCNestA a)) alts V av c =
      nestedP nests alts (fun j => V j + Real.log (a j)) av c := by
  rw [cnlP_eq_mevP, nestedP_eq_mevP, mevP_eq_logitP, mevP_eq_logitP]
  apply logitP_shift_on alts _ _ av 0 c hc
  intro i _ hav
  rw [single_nest_h a nests V av i hpw hnd hmu h01 ha ha1 hav]
  ring

/-! ## the same with the explicit scale `mu` -/

theorem cnlBiosum_toCNestA_mu (a V av : Int → ℝ) (mu : ℝ) (m : Nest ℝ) (ha : ∀ j, 0 < a j)
    (hmu : mu ≠ 0) (h01 : ∀ j, av j = 0 ∨ av j = 1) :
    cnlBiosum V av (toCNestA a m) (m.mu / mu) =
      nestSum (fun j => V j + Real.log (a j) / mu) av m := by
  rw [cnlBiosum_real, nestSum_real, toCNestA_mu]
  unfold toCNestA
  simp only [List.map_map, Function.comp_def]
  rw [← sum_map_ite_filter]
  congr 1
  apply List.map_congr_left
  intro j _
  have hexp : Real.exp (m.mu * (V j + Real.log (a j) / mu)) =
      (a j) ^ (m.mu / mu) * Real.exp (m.mu * V j) := by
    rw [Real.rpow_def_of_pos (ha j), ← Real.exp_add]
    congr 1; field_simp; ring
  rcases h01 j with h | h
  · have : avail av j = false := (avail_false_iff av j).2 h
    simp [h, this]
  · have : avail av j = true := (avail_iff av j).2 (by rw [h]; exact one_ne_zero)
    simp [h, this, hexp]

theorem single_nest_h_mu (a : Int → ℝ) (nests : List (Nest ℝ)) (mu : ℝ) (V av : Int → ℝ) (i : Int)
    (hpw : nests.Pairwise (fun x y => ∀ j, j ∈ x.alts → j ∉ y.alts))
    (hnd : ∀ n ∈ nests, n.alts.Nodup) (hmum : ∀ m ∈ nests, m.mu ≠ 0) (hmu : 0 < mu)
    (h01 : ∀ j, av j = 0 ∨ av j = 1) (ha : ∀ j, 0 < a j)
    (ha1 : ∀ j, (∀ m ∈ nests, j ∉ m.alts) → a j = 1) (hav : avail av i = true) :
    V i + cnlMuLogG (nests.map (toCNestA a)) mu V av i =
      (V i + Real.log (a i) / mu) +
        nestedMuLogG nests mu (fun j => V j + Real.log (a j) / mu) av i := by
  cases h : findNest nests i with
  | none =>
    have hnot := findNest_none nests i h
    rw [nestedMuLogG_none _ _ _ _ _ h,
      cnlMuLogG_alone _ _ _ _ _ (Or.inl (inSomeCNest_toCNestA_false a nests i hnot)), ha1 i hnot]
    simp
  | some m =>
    obtain ⟨hm, him⟩ := findNest_some nests i m h
    have hz : zeroMember (nests.map (toCNestA a)) i = false := by
      unfold zeroMember
      rw [giTerms_toCNestA a (fun _ _ x => x) i m nests hpw hnd h, Bool.eq_false_iff]
      intro h0
      have : a i = 0 := by simpa using h0
      exact (ha i).ne' this
    rw [nestedMuLogG_some _ _ _ _ _ m h,
      cnlMuLogG_listed _ _ _ _ _ (inSomeCNest_toCNestA_true a nests i m hm him) hz,
      giTerms_toCNestA a (cnlMuTerm mu V av) i m nests hpw hnd h]
    simp only [List.sum_cons, List.sum_nil, add_zero]
    have hS := nestSum_pos (fun j => V j + Real.log (a j) / mu) av m i him hav
    have hm0 := hmum m hm
    rw [cnlMuTerm_real, toCNestA_mu, cnlBiosum_toCNestA_mu a V av mu m ha hmu.ne' h01]
    have hapos : 0 < (a i) ^ (m.mu / mu) := Real.rpow_pos_of_pos (ha i) _
    have hBpos := Real.rpow_pos_of_pos hS (mu / m.mu - 1)
    have hpos : 0 < (a i) ^ (m.mu / mu) * Real.exp ((m.mu - 1) * V i) *
        nestSum (fun j => V j + Real.log (a j) / mu) av m ^ (mu / m.mu - 1) :=
      mul_pos (mul_pos hapos (Real.exp_pos _)) hBpos
    rw [Real.log_mul hmu.ne' hpos.ne', Real.log_mul (mul_pos hapos (Real.exp_pos _)).ne' hBpos.ne',
      Real.log_mul hapos.ne' (Real.exp_pos _).ne', Real.log_exp, Real.log_rpow hS,
      Real.log_rpow (ha i)]
    field_simp
    ring

theorem cnlMuP_toCNestA (a : Int → ℝ) (nests : List (Nest ℝ)) (mu : ℝ) (alts : List Int)
    (V av : Int → ℝ) (c : Int) (hc : c ∈ alts)
    (hpw : nests.Pairwise (fun x y => ∀ j, j ∈ x.alts → j ∉ y.alts))
    (hnd : ∀ n ∈ nests, n.alts.Nodup) (hmum : ∀ m ∈ nests, m.mu ≠ 0) (hmu : 0 < mu)
    (h01 : ∀ j, av j = 0 ∨ av j = 1) (ha : ∀ j, 0 < a j)
    (ha1 : ∀ j, (∀ m ∈ nests, j ∉ m.alts) → a j = 1) :
    cnlMuP (nests.map (toCNestA a)) mu alts V av c =
      nestedMuP nests mu alts (fun j => V j + Real.log (a j) / mu) av c := by
  rw [cnlMuP_eq_mevP, nestedMuP_eq_mevP, mevP_eq_logitP, mevP_eq_logitP]
  apply logitP_shift_on alts _ _ av 0 c hc
  intro i _ hav
  rw [single_nest_h_mu a nests mu V av i hpw hnd hmum hmu h01 ha ha1 hav]
  ring

end Models
