/-
Cross-nested memberships written as a table: zero entries added to the nests change neither
`ln G_i` of the cross-nested logit nor the one of its version with explicit scale.
-/
import Proofs.ModelsReduce

namespace Models

theorem withZeros_mu (extra : CNest ℝ → List Int) (m : CNest ℝ) : (withZeros extra m).mu = m.mu := rfl

theorem withZeros_alphas (extra : CNest ℝ → List Int) (m : CNest ℝ) :
    (withZeros extra m).alphas = m.alphas ++ (extra m).map fun i => (i, (0 : ℝ)) := by
  unfold withZeros
  simp only [NumR.ofNat_real_zero]

/-- the zero entries add nothing to the nest sum (`0 ^ e = 0`, `e ≠ 0`) -/
theorem cnlBiosum_withZeros (extra : CNest ℝ → List Int) (V av : Int → ℝ) (m : CNest ℝ) (e : ℝ)
    (he : e ≠ 0) : cnlBiosum V av (withZeros extra m) e = cnlBiosum V av m e := by
  rw [cnlBiosum_real, cnlBiosum_real, withZeros_mu, withZeros_alphas, List.map_append,
    List.sum_append, List.map_map]
  have : (List.map ((fun p : Int × ℝ => av p.1 * p.2 ^ e * Real.exp (m.mu * V p.1)) ∘
      fun i => (i, (0 : ℝ))) (extra m)).sum = 0 := by
    apply List.sum_eq_zero
    intro x hx
    obtain ⟨j, _, rfl⟩ := List.mem_map.1 hx
    simp [Real.zero_rpow he]
  rw [this, add_zero]

theorem cnlTerm_withZeros (extra : CNest ℝ → List Int) (V av : Int → ℝ) (m : CNest ℝ) (i : Int)
    (a : ℝ) (hm : m.mu ≠ 0) : cnlTerm V av (withZeros extra m) i a = cnlTerm V av m i a := by
  rw [cnlTerm_real, cnlTerm_real, withZeros_mu, cnlBiosum_withZeros extra V av m m.mu hm]

theorem cnlMuTerm_withZeros (extra : CNest ℝ → List Int) (mu : ℝ) (V av : Int → ℝ) (m : CNest ℝ)
    (i : Int) (a : ℝ) (hm : m.mu / mu ≠ 0) :
    cnlMuTerm mu V av (withZeros extra m) i a = cnlMuTerm mu V av m i a := by
  rw [cnlMuTerm_real, cnlMuTerm_real, withZeros_mu, cnlBiosum_withZeros extra V av m _ hm]

/-- the terms of `i` in the table: those of the members, then zeros -/
theorem sum_giTerms_withZeros (extra : CNest ℝ → List Int) (term term' : CNest ℝ → Int → ℝ → ℝ)
    (i : Int) :
    ∀ (nests : List (CNest ℝ)),
      (∀ m ∈ nests, ∀ a, term' (withZeros extra m) i a = term m i a) →
      (∀ m ∈ nests, term m i 0 = 0) →
      (giTerms term' (nests.map (withZeros extra)) i).sum = (giTerms term nests i).sum
  | [], _, _ => rfl
  | m :: ms, ht, h0 => by
    rw [List.map_cons, giTerms_cons, giTerms_cons, List.sum_append, List.sum_append,
      sum_giTerms_withZeros extra term term' i ms (fun n hn => ht n (List.mem_cons_of_mem _ hn))
        (fun n hn => h0 n (List.mem_cons_of_mem _ hn)),
      withZeros_alphas, List.filter_append, List.map_append, List.sum_append]
    have hz : (List.map (fun p : Int × ℝ => term' (withZeros extra m) i p.2)
        (List.filter (fun p => p.1 == i) (List.map (fun j => (j, (0 : ℝ))) (extra m)))).sum = 0 := by
      apply List.sum_eq_zero
      intro x hx
      obtain ⟨p, hp, rfl⟩ := List.mem_map.1 hx
      obtain ⟨j, _, rfl⟩ := List.mem_map.1 (List.mem_filter.1 hp).1
      rw [ht m List.mem_cons_self]
      exact h0 m List.mem_cons_self
    rw [hz, add_zero]
    congr 2
    apply List.map_congr_left
    intro p _
    exact ht m List.mem_cons_self p.2

theorem zeroMember_withZeros (extra : CNest ℝ → List Int) (nests : List (CNest ℝ)) (i : Int) :
    zeroMember (nests.map (withZeros extra)) i = zeroMember nests i := by
  rw [Bool.eq_iff_iff, zeroMember_iff, zeroMember_iff]
  constructor
  · intro h m hm p hp hpi
    exact h (withZeros extra m) (List.mem_map.2 ⟨m, hm, rfl⟩) p
      (by rw [withZeros_alphas]; exact List.mem_append_left _ hp) hpi
  · intro h m' hm' p hp hpi
    obtain ⟨m, hm, rfl⟩ := List.mem_map.1 hm'
    rw [withZeros_alphas] at hp
    rcases List.mem_append.1 hp with hp | hp
    · exact h m hm p hp hpi
    · obtain ⟨j, _, rfl⟩ := List.mem_map.1 hp
      rfl

theorem inSomeCNest_withZeros_of (extra : CNest ℝ → List Int) (nests : List (CNest ℝ)) (i : Int)
    (h : inSomeCNest nests i = true) : inSomeCNest (nests.map (withZeros extra)) i = true := by
  unfold inSomeCNest at *
  rw [List.any_eq_true] at *
  obtain ⟨m, hm, hi⟩ := h
  refine ⟨withZeros extra m, List.mem_map.2 ⟨m, hm, rfl⟩, ?_⟩
  unfold CNest.alts at *
  rw [withZeros_alphas, List.map_append]
  simp only [List.contains_eq_mem, List.mem_append, decide_eq_true_eq] at *
  exact Or.inl hi

/-- an alternative listed in no nest has no membership at all -/
theorem giTerms_not_listed (term : CNest ℝ → Int → ℝ → ℝ) (nests : List (CNest ℝ)) (i : Int)
    (h : inSomeCNest nests i = false) : giTerms term nests i = [] := by
  rw [List.eq_nil_iff_forall_not_mem]
  intro x hx
  obtain ⟨m, hm, p, hp, hpi, _⟩ := (mem_giTerms term i x nests).1 hx
  unfold inSomeCNest at h
  rw [List.any_eq_false] at h
  apply h m hm
  unfold CNest.alts
  simp only [List.contains_eq_mem, decide_eq_true_eq]
  exact List.mem_map.2 ⟨p, hp, hpi⟩

theorem zeroMember_not_listed (nests : List (CNest ℝ)) (i : Int)
    (h : inSomeCNest nests i = false) : zeroMember nests i = true := by
  unfold zeroMember
  rw [giTerms_not_listed _ nests i h]
  rfl

/-- `ln G_i` of the cross-nested logit does not see the zero entries: an alternative that the
table lists with zeros only gets `logzero 0 = 0`, the term of an alone alternative -/
theorem cnlLogG_withZeros (extra : CNest ℝ → List Int) (nests : List (CNest ℝ)) (V av : Int → ℝ)
    (i : Int) (hmu : ∀ m ∈ nests, m.mu ≠ 0) :
    cnlLogG (nests.map (withZeros extra)) V av i = cnlLogG nests V av i := by
  have hs := sum_giTerms_withZeros extra (cnlTerm V av) (cnlTerm V av) i nests
    (fun m hm a => cnlTerm_withZeros extra V av m i a (hmu m hm))
    (fun m hm => cnlTerm_zero V av m i (hmu m hm))
  unfold cnlLogG
  rw [NumR.sum_real, NumR.sum_real, hs]
  by_cases h : inSomeCNest nests i = true
  · rw [if_pos h, if_pos (inSomeCNest_withZeros_of extra nests i h)]
  · have h' : inSomeCNest nests i = false := by simpa using h
    rw [if_neg h, giTerms_not_listed _ nests i h', List.sum_nil, logzero_zero]
    simp

/-- the same with the explicit scale: the table's zero-only alternative passes the test
"zero membership everywhere" and gets the term of an alone alternative -/
theorem cnlMuLogG_withZeros (extra : CNest ℝ → List Int) (nests : List (CNest ℝ)) (mu : ℝ)
    (V av : Int → ℝ) (i : Int) (hmu : ∀ m ∈ nests, m.mu ≠ 0) (hmu0 : mu ≠ 0) :
    cnlMuLogG (nests.map (withZeros extra)) mu V av i = cnlMuLogG nests mu V av i := by
  have hd : ∀ m ∈ nests, m.mu / mu ≠ 0 := fun m hm => div_ne_zero (hmu m hm) hmu0
  have hs := sum_giTerms_withZeros extra (cnlMuTerm mu V av) (cnlMuTerm mu V av) i nests
    (fun m hm a => cnlMuTerm_withZeros extra mu V av m i a (hd m hm))
    (fun m hm => cnlMuTerm_zero mu V av m i (hd m hm))
  cases hz : zeroMember nests i with
  | true =>
    rw [cnlMuLogG_alone _ _ _ _ _ (Or.inr hz),
      cnlMuLogG_alone _ _ _ _ _ (Or.inr ((zeroMember_withZeros extra nests i).trans hz))]
  | false =>
    have h : inSomeCNest nests i = true := by
      by_contra hn
      have := zeroMember_not_listed nests i (by simpa using hn)
      rw [hz] at this
      cases this
    rw [cnlMuLogG_listed _ _ _ _ _ h hz,
      cnlMuLogG_listed _ _ _ _ _ (inSomeCNest_withZeros_of extra nests i h)
        ((zeroMember_withZeros extra nests i).trans hz), hs]

theorem cnlP_withZeros (extra : CNest ℝ → List Int) (nests : List (CNest ℝ)) (alts : List Int)
    (V av : Int → ℝ) (c : Int) (hmu : ∀ m ∈ nests, m.mu ≠ 0) :
    cnlP (nests.map (withZeros extra)) alts V av c = cnlP nests alts V av c := by
  rw [cnlP_eq_mevP, cnlP_eq_mevP]
  congr 1
  funext i
  exact cnlLogG_withZeros extra nests V av i hmu

theorem cnlMuP_withZeros (extra : CNest ℝ → List Int) (nests : List (CNest ℝ)) (mu : ℝ)
    (alts : List Int) (V av : Int → ℝ) (c : Int) (hmu : ∀ m ∈ nests, m.mu ≠ 0) (hmu0 : mu ≠ 0) :
    cnlMuP (nests.map (withZeros extra)) mu alts V av c = cnlMuP nests mu alts V av c := by
  rw [cnlMuP_eq_mevP, cnlMuP_eq_mevP]
  congr 1
  funext i
  exact cnlMuLogG_withZeros extra nests mu V av i hmu hmu0

end Models
