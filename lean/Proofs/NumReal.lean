/-
The `ℝ` instance of `NumOps` (noncomputable; comparisons decided classically) and the
`@[simp]` bridge lemmas that rewrite the law-free operations into Mathlib's.  After
`simp only [num_simps]` (or plain `simp`) a model term instantiated at `ℝ` is an ordinary
real expression.
-/
import Model.Num
import Mathlib.Analysis.SpecialFunctions.Pow.Real
import Mathlib.Analysis.SpecialFunctions.Trigonometric.Basic
import Mathlib.Analysis.SpecialFunctions.Sqrt
import Mathlib.Probability.Distributions.Gaussian.Real
import Mathlib.Probability.CDF

open Classical in
noncomputable instance : NumOps ℝ where
  add := (· + ·)
  sub := (· - ·)
  mul := (· * ·)
  div := (· / ·)
  neg := fun x => -x
  exp := Real.exp
  log := Real.log
  sin := Real.sin
  cos := Real.cos
  sqrt := Real.sqrt
  pow := fun x y => x ^ y
  abs := fun x => |x|
  ofNat := fun n => (n : ℝ)
  ofScientific := fun m s e => (OfScientific.ofScientific m s e : ℝ)
  lt := fun a b => decide (a < b)
  le := fun a b => decide (a ≤ b)
  eq := fun a b => decide (a = b)
  normalCdf := fun x => ProbabilityTheory.cdf (ProbabilityTheory.gaussianReal 0 1) x

namespace NumR

/-- the standard normal distribution function on `ℝ` -/
noncomputable def Phi (x : ℝ) : ℝ := ProbabilityTheory.cdf (ProbabilityTheory.gaussianReal 0 1) x

theorem Phi_nonneg (x : ℝ) : 0 ≤ Phi x := ProbabilityTheory.cdf_nonneg _ x
theorem Phi_le_one (x : ℝ) : Phi x ≤ 1 := ProbabilityTheory.cdf_le_one _ x
theorem Phi_mono : Monotone Phi := ProbabilityTheory.monotone_cdf _

section bridge

@[simp] theorem add_real (a b : ℝ) : @HAdd.hAdd ℝ ℝ ℝ (@instHAdd ℝ Num.instAddOfNumOps) a b = a + b := rfl
@[simp] theorem sub_real (a b : ℝ) : @HSub.hSub ℝ ℝ ℝ (@instHSub ℝ Num.instSubOfNumOps) a b = a - b := rfl
@[simp] theorem mul_real (a b : ℝ) : @HMul.hMul ℝ ℝ ℝ (@instHMul ℝ Num.instMulOfNumOps) a b = a * b := rfl
@[simp] theorem div_real (a b : ℝ) : @HDiv.hDiv ℝ ℝ ℝ (@instHDiv ℝ Num.instDivOfNumOps) a b = a / b := rfl
@[simp] theorem neg_real (a : ℝ) : @Neg.neg ℝ Num.instNegOfNumOps a = -a := rfl
@[simp] theorem ofNat_real (n : ℕ) [n.AtLeastTwo] :
    @OfNat.ofNat ℝ n Num.instOfNatOfNumOps = (OfNat.ofNat n : ℝ) := rfl
@[simp] theorem ofNat_real_zero : @OfNat.ofNat ℝ 0 Num.instOfNatOfNumOps = (0 : ℝ) := by
  show ((0 : ℕ) : ℝ) = 0
  exact Nat.cast_zero
@[simp] theorem ofNat_real_one : @OfNat.ofNat ℝ 1 Num.instOfNatOfNumOps = (1 : ℝ) := by
  show ((1 : ℕ) : ℝ) = 1
  exact Nat.cast_one
@[simp] theorem ofSci_real (m : ℕ) (s : Bool) (e : ℕ) :
    @OfScientific.ofScientific ℝ Num.instOfScientificOfNumOps m s e = (OfScientific.ofScientific m s e : ℝ) := rfl

@[simp] theorem nadd_real (a b : ℝ) : NumOps.add a b = a + b := rfl
@[simp] theorem nsub_real (a b : ℝ) : NumOps.sub a b = a - b := rfl
@[simp] theorem nmul_real (a b : ℝ) : NumOps.mul a b = a * b := rfl
@[simp] theorem ndiv_real (a b : ℝ) : NumOps.div a b = a / b := rfl
@[simp] theorem nneg_real (a : ℝ) : NumOps.neg a = -a := rfl
@[simp] theorem nofNat_real (n : ℕ) : (NumOps.ofNat n : ℝ) = (n : ℝ) := rfl
@[simp] theorem exp_real (a : ℝ) : Num.exp a = Real.exp a := rfl
@[simp] theorem log_real (a : ℝ) : Num.log a = Real.log a := rfl
@[simp] theorem sin_real (a : ℝ) : Num.sin a = Real.sin a := rfl
@[simp] theorem cos_real (a : ℝ) : Num.cos a = Real.cos a := rfl
@[simp] theorem sqrt_real (a : ℝ) : Num.sqrt a = Real.sqrt a := rfl
@[simp] theorem pow_real (a b : ℝ) : Num.pow a b = a ^ b := rfl
@[simp] theorem abs_real (a : ℝ) : Num.abs a = |a| := rfl
@[simp] theorem nat_real (n : ℕ) : (Num.nat n : ℝ) = (n : ℝ) := rfl
@[simp] theorem normalCdf_real (a : ℝ) : Num.normalCdf a = Phi a := rfl
@[simp] theorem nexp_real (a : ℝ) : NumOps.exp a = Real.exp a := rfl
@[simp] theorem nlog_real (a : ℝ) : NumOps.log a = Real.log a := rfl

@[simp] theorem lt_real (a b : ℝ) : Num.lt a b = true ↔ a < b := by
  simp [Num.lt, NumOps.lt]
@[simp] theorem le_real (a b : ℝ) : Num.le a b = true ↔ a ≤ b := by
  simp [Num.le, NumOps.le]
@[simp] theorem eq_real (a b : ℝ) : Num.eq a b = true ↔ a = b := by
  simp [Num.eq, NumOps.eq]
@[simp] theorem nlt_real (a b : ℝ) : NumOps.lt a b = true ↔ a < b := by
  simp [NumOps.lt]
@[simp] theorem nle_real (a b : ℝ) : NumOps.le a b = true ↔ a ≤ b := by
  simp [NumOps.le]
@[simp] theorem neq_real (a b : ℝ) : NumOps.eq a b = true ↔ a = b := by
  simp [NumOps.eq]
@[simp] theorem lt_real_false (a b : ℝ) : Num.lt a b = false ↔ b ≤ a := by
  simp [Num.lt, NumOps.lt]
@[simp] theorem le_real_false (a b : ℝ) : Num.le a b = false ↔ b < a := by
  simp [Num.le, NumOps.le]

@[simp] theorem int_real (z : ℤ) : (Num.int z : ℝ) = (z : ℝ) := by
  unfold Num.int
  split
  · rename_i h
    simp only [nneg_real, nofNat_real]
    have : (z.natAbs : ℤ) = -z := by omega
    have h2 : ((z.natAbs : ℕ) : ℝ) = ((z.natAbs : ℤ) : ℝ) := by simp
    rw [h2, this]; simp
  · rename_i h
    simp only [nofNat_real]
    have : (z.natAbs : ℤ) = z := by omega
    have h2 : ((z.natAbs : ℕ) : ℝ) = ((z.natAbs : ℤ) : ℝ) := by simp
    rw [h2, this]

theorem sum_real (l : List ℝ) : Num.sum l = l.sum := by
  induction l with
  | nil => simp [Num.sum]
  | cons a t ih => simp only [Num.sum, List.foldr_cons, List.sum_cons, nadd_real] at *; rw [ih]

theorem prod_real (l : List ℝ) : Num.prod l = l.prod := by
  induction l with
  | nil => simp [Num.prod]
  | cons a t ih => simp only [Num.prod, List.foldr_cons, List.prod_cons, nmul_real] at *; rw [ih]

theorem max_real (a b : ℝ) : Num.max a b = max a b := by
  unfold Num.max
  by_cases h : a ≤ b
  · simp [h]
  · have := not_le.mp h
    simp [h]
    exact this.le

theorem min_real (a b : ℝ) : Num.min a b = min a b := by
  unfold Num.min
  by_cases h : a ≤ b
  · simp [h]
  · have := not_le.mp h
    simp [h]
    exact this.le

end bridge

end NumR
