/- Helper lemmas for Props/C09.lean: the contiguity test of `Database.panel`. -/
import Model.Panel
import Mathlib.Data.List.Sort
import Mathlib.Data.List.Dedup
import Mathlib.Data.List.Nodup
import Mathlib.Data.Finset.Card
import Mathlib.Data.List.Perm.Lattice

namespace Panel

/-! ### `compress` -/

theorem mem_compress (l : List Int) (a : Int) : a ∈ compress l ↔ a ∈ l := by
  induction l using compress.induct with
  | case1 => simp [compress]
  | case2 b => simp [compress]
  | case3 x t ih =>
    simp only [compress, ↓reduceIte]
    rw [ih]
    simp
  | case4 x y t hxy ih =>
    simp only [compress, hxy, ↓reduceIte, List.mem_cons] at *
    rw [ih]

theorem compress_ne_nil (l : List Int) (h : l ≠ []) : compress l ≠ [] := by
  intro hc
  cases l with
  | nil => exact h rfl
  | cons a t =>
    have : a ∈ compress (a :: t) := (mem_compress _ _).2 (List.mem_cons_self)
    rw [hc] at this
    simp at this

/-- head of the compressed list is the head of the list -/
theorem compress_head (a : Int) (t : List Int) : ∃ r, compress (a :: t) = a :: r := by
  induction t generalizing a with
  | nil => exact ⟨[], rfl⟩
  | cons b t ih =>
    by_cases hab : a = b
    · subst hab
      simp only [compress, ↓reduceIte]
      exact ih a
    · exact ⟨compress (b :: t), by simp [compress, hab]⟩

/-- on a sorted list the compressed list is strictly increasing -/
theorem compress_sorted_lt (l : List Int) (hs : l.Pairwise (· ≤ ·)) :
    (compress l).Pairwise (· < ·) := by
  induction l using compress.induct with
  | case1 => simp [compress]
  | case2 b => simp [compress]
  | case3 x t ih =>
    simp only [compress, ↓reduceIte]
    exact ih (List.Pairwise.of_cons hs)
  | case4 x y t hxy ih =>
    simp only [compress, hxy, ↓reduceIte]
    rw [List.pairwise_cons]
    refine ⟨?_, ih (List.Pairwise.of_cons hs)⟩
    intro z hz
    have hz' : z ∈ y :: t := (mem_compress _ _).1 hz
    rw [List.pairwise_cons] at hs
    have hxz : x ≤ z := hs.1 z hz'
    have hxy' : x ≤ y := hs.1 y (List.mem_cons_self)
    have hyz : y ≤ z := by
      rcases List.mem_cons.mp hz' with h | h
      · omega
      · have := hs.2
        rw [List.pairwise_cons] at this
        exact this.1 z h
    omega

theorem sortIds_perm (l : List Int) : (sortIds l).Perm l := List.mergeSort_perm _ _

theorem sortIds_sorted (l : List Int) : (sortIds l).Pairwise (· ≤ ·) := by
  have := @List.pairwise_mergeSort Int (fun a b => decide (a ≤ b))
    (by intro a b c; simp only [decide_eq_true_eq]; omega)
    (by intro a b; simp only [Bool.or_eq_true, decide_eq_true_eq]; omega) l
  simpa [sortIds] using this

theorem compress_sort_nodup (l : List Int) : (compress (sortIds l)).Nodup := by
  have := compress_sorted_lt _ (sortIds_sorted l)
  exact this.imp (fun h => by omega)

/-- number of distinct values of a list -/
theorem toFinset_compress (l : List Int) : (compress l).toFinset = l.toFinset := by
  ext a
  simp [mem_compress]

theorem toFinset_sortIds (l : List Int) : (sortIds l).toFinset = l.toFinset := by
  ext a
  simp only [List.mem_toFinset]
  exact (sortIds_perm l).mem_iff

/-- **the test of `Database.panel` succeeds iff no id occurs in two different runs** -/
theorem panelOk_iff (l : List Int) : panelOk l = true ↔ (compress l).Nodup := by
  unfold panelOk countGroups
  rw [beq_iff_eq]
  have hd : (compress (sortIds l)).length = l.toFinset.card := by
    rw [← List.toFinset_card_of_nodup (compress_sort_nodup l), toFinset_compress, toFinset_sortIds]
  rw [hd, ← toFinset_compress l]
  constructor
  · intro h
    have : (compress l).dedup.length = (compress l).length := by
      rw [← List.card_toFinset]; exact h.symm
    have hsub := List.dedup_sublist (compress l)
    have := hsub.eq_of_length this
    exact List.dedup_eq_self.mp this
  · intro h
    rw [List.toFinset_card_of_nodup h]

/-! ### index form of contiguity -/

/-- whenever two rows carry the same id, so does every row between them -/
def OneBlockEach (l : List Int) : Prop :=
  ∀ i j k, i < j → j < k → k < l.length → l[i]? = l[k]? → l[j]? = l[i]?

theorem oneBlock_tail (x : Int) (t : List Int) (h : OneBlockEach (x :: t)) : OneBlockEach t := by
  intro i j k hij hjk hk he
  have := h (i + 1) (j + 1) (k + 1) (by omega) (by omega) (by simp; omega)
    (by simpa using he)
  simpa using this

theorem oneBlock_dup (x : Int) (t : List Int) :
    OneBlockEach (x :: x :: t) ↔ OneBlockEach (x :: t) := by
  constructor
  · exact oneBlock_tail x (x :: t)
  · intro h i j k hij hjk hk he
    cases i with
    | succ i' =>
      obtain ⟨j', rfl⟩ : ∃ j', j = j' + 1 := ⟨j - 1, by omega⟩
      obtain ⟨k', rfl⟩ : ∃ k', k = k' + 1 := ⟨k - 1, by omega⟩
      simp only [List.getElem?_cons_succ] at he ⊢
      exact h i' j' k' (by omega) (by omega) (by simp at hk ⊢; omega) he
    | zero =>
      obtain ⟨k', rfl⟩ : ∃ k', k = k' + 1 := ⟨k - 1, by omega⟩
      obtain ⟨j', rfl⟩ : ∃ j', j = j' + 1 := ⟨j - 1, by omega⟩
      simp only [List.getElem?_cons_succ, List.getElem?_cons_zero] at he ⊢
      cases j' with
      | zero => simp
      | succ j'' =>
        have hk' : k' < (x :: t).length := by simp at hk ⊢; omega
        have := h 0 (j'' + 1) k' (by omega) (by omega) hk' (by simpa using he)
        simpa using this

theorem oneBlock_ne (x y : Int) (t : List Int) (hxy : x ≠ y) :
    OneBlockEach (x :: y :: t) ↔ x ∉ y :: t ∧ OneBlockEach (y :: t) := by
  constructor
  · intro h
    refine ⟨?_, oneBlock_tail x _ h⟩
    intro hmem
    obtain ⟨m, hm⟩ := List.mem_iff_getElem?.mp hmem
    cases m with
    | zero => simp at hm; exact hxy hm.symm
    | succ m' =>
      have hlen : m' + 1 < (y :: t).length := by
        rcases Nat.lt_or_ge (m' + 1) (y :: t).length with h1 | h1
        · exact h1
        · rw [List.getElem?_eq_none h1] at hm; cases hm
      have := h 0 1 (m' + 2) (by omega) (by omega) (by simp at hlen ⊢; omega)
        (by simp only [List.getElem?_cons_zero, List.getElem?_cons_succ]; exact hm.symm)
      simp at this
      exact hxy this.symm
  · rintro ⟨hx, h⟩ i j k hij hjk hk he
    cases i with
    | succ i' =>
      obtain ⟨j', rfl⟩ : ∃ j', j = j' + 1 := ⟨j - 1, by omega⟩
      obtain ⟨k', rfl⟩ : ∃ k', k = k' + 1 := ⟨k - 1, by omega⟩
      simp only [List.getElem?_cons_succ] at he ⊢
      exact h i' j' k' (by omega) (by omega) (by simp at hk ⊢; omega) he
    | zero =>
      obtain ⟨k', rfl⟩ : ∃ k', k = k' + 1 := ⟨k - 1, by omega⟩
      exfalso
      simp only [List.getElem?_cons_succ, List.getElem?_cons_zero] at he
      exact hx (List.mem_iff_getElem?.mpr ⟨k', he.symm⟩)

/-- **`Contiguous` (one run per id) in index form** -/
theorem nodup_compress_iff (l : List Int) : (compress l).Nodup ↔ OneBlockEach l := by
  induction l using compress.induct with
  | case1 => simp [compress, OneBlockEach]
  | case2 b =>
    simp only [compress, List.nodup_cons, List.not_mem_nil, not_false_eq_true, List.nodup_nil,
      and_self, true_iff]
    intro i j k hij hjk hk
    simp at hk
    omega
  | case3 x t ih =>
    simp only [compress, ↓reduceIte]
    rw [ih, oneBlock_dup]
  | case4 x y t hxy ih =>
    simp only [compress, hxy, ↓reduceIte]
    rw [List.nodup_cons, mem_compress, ih, oneBlock_ne x y t hxy]

/-! ### counting errors (`auditErrors`) -/

theorem ite01 (b : Bool) : (if b = true then 0 else 1) = 0 ↔ b = true := by
  cases b <;> simp
theorem ite10 (b : Bool) : (if b = true then 1 else 0) = 0 ↔ b = false := by
  cases b <;> simp

end Panel
