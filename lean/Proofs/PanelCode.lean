/- Lemmas for the round-3 part of Props/C09.lean (Model/PanelCode.lean). -/
import Model.Panel
import Model.PanelCode
import Proofs.Panel
import Proofs.PanelMap
import Proofs.PanelReal
import Proofs.NumReal
import Mathlib.Order.Interval.Finset.Nat
import Mathlib.Data.List.Dedup

namespace Panel
open NumR

/-! ### count_number_of_groups -/

/-- number of `True` of the comparison with the previous row, when there is a previous row -/
theorem count_startsGroup_some (p : Int) (l : List Int) :
    ((startsGroup (some p) l).filter id).length + 1 = (compress (p :: l)).length := by
  induction l generalizing p with
  | nil => simp [startsGroup, compress]
  | cons v t ih =>
    have h := ih v
    by_cases hpv : p = v
    · subst hpv
      simp only [startsGroup, compress, ne_eq, not_true_eq_false, decide_false, if_true]
      rw [List.filter_cons_of_neg (by simp)]
      exact h
    · have hne : (some v : Option Int) ≠ some p := by
        intro hh; exact hpv (Option.some.inj hh).symm
      simp only [startsGroup, compress, hpv, if_false, List.length_cons]
      rw [show decide (some v ≠ some p) = true from decide_eq_true hne]
      rw [List.filter_cons_of_pos (by simp)]
      simp only [List.length_cons]
      omega

/-- the first row always starts a group: the number of `True` is the number of runs -/
theorem count_startsGroup_none (l : List Int) :
    ((startsGroup none l).filter id).length = (compress l).length := by
  cases l with
  | nil => simp [startsGroup, compress]
  | cons a t =>
    have h := count_startsGroup_some a t
    simp only [startsGroup]
    rw [show decide ((some a : Option Int) ≠ none) = true from decide_eq_true (by simp)]
    rw [List.filter_cons_of_pos (by simp)]
    simp only [List.length_cons]
    omega

/-- values of the running count: everything between the first value and the last -/
theorem mem_cumsumB (b : Bool) (t : List Bool) (acc x : Nat) :
    x ∈ cumsumB acc (b :: t) ↔
      acc + (if b then 1 else 0) ≤ x ∧ x ≤ acc + ((b :: t).filter id).length := by
  induction t generalizing b acc with
  | nil =>
    cases b <;> simp [cumsumB] <;> omega
  | cons b' t' ih =>
    have h := ih b' (if b then acc + 1 else acc)
    have hc : cumsumB acc (b :: b' :: t')
        = (if b then acc + 1 else acc) :: cumsumB (if b then acc + 1 else acc) (b' :: t') := rfl
    rw [hc, List.mem_cons, h]
    have hlen : ((b' :: t').filter id).length = (if b' then 1 else 0) + (t'.filter id).length := by
      cases b' <;> simp <;> omega
    have hlen2 : ((b :: b' :: t').filter id).length = (if b then 1 else 0) + ((b' :: t').filter id).length := by
      cases b <;> simp <;> omega
    rw [hlen2, hlen]
    cases b <;> cases b' <;> simp <;> omega

theorem eraseDups_length_eq_card (l : List Nat) : l.eraseDups.length = l.toFinset.card := by
  have hnd : l.eraseDups.Nodup := by
    have : ∀ n (l : List Nat), l.length ≤ n → l.eraseDups.Nodup := by
      intro n
      induction n with
      | zero => intro l hl; have : l = [] := List.length_eq_zero_iff.mp (by omega); subst this; simp
      | succ n ih =>
        intro l hl
        cases l with
        | nil => simp
        | cons a t =>
          rw [List.eraseDups_cons]
          refine List.nodup_cons.mpr ⟨?_, ?_⟩
          · intro hm
            have := List.mem_eraseDups.mp hm
            simp at this
          · apply ih
            have := List.length_filter_le (fun b => !b == a) t
            simp only [List.length_cons] at hl
            omega
    exact this l.length l le_rfl
  rw [← List.toFinset_card_of_nodup hnd]
  congr 1
  ext a
  simp

/-- **the code's counter is the number of runs** -/
theorem countGroupsCode_eq (ids : List Int) : countGroupsCode ids = countGroups ids := by
  unfold countGroupsCode countGroups
  rw [← count_startsGroup_none, eraseDups_length_eq_card]
  cases ids with
  | nil => simp [startsGroup, cumsumB]
  | cons a t =>
    have hs : startsGroup none (a :: t) = true :: startsGroup (some a) t := by
      simp only [startsGroup]
      rw [show decide ((some a : Option Int) ≠ none) = true from decide_eq_true (by simp)]
    rw [hs]
    set fl := startsGroup (some a) t with hfl
    have hset : (cumsumB 0 (true :: fl)).toFinset = Finset.Icc 1 (((true :: fl).filter id).length) := by
      ext x
      rw [List.mem_toFinset, mem_cumsumB, Finset.mem_Icc]
      simp
    rw [hset, Nat.card_Icc]
    omega

/-! ### a trajectory over one entry of the map of a table -/

section table
variable {ρ : Type}

/-- the rows `first … last` of the entry of id `a`, read in the sorted table, are the rows of the
table (in any order) that carry `a` -/
theorem traj_entry_table (g : ρ → ℝ) (dflt : ρ) (t : List (Int × ρ)) (a : Int)
    (ha : a ∈ (sortTable t).map (·.1)) (hpos : ∀ p ∈ t, 0 < g p.2) :
    trajectory (fun i => g (((sortTable t).getD i (0, dflt)).2))
        (Entry.rows ⟨a, minList (indicesOf ((sortTable t).map (·.1)) a),
          maxList (indicesOf ((sortTable t).map (·.1)) a)⟩)
      = ((t.filter fun p => decide (p.1 = a)).map fun p => g p.2).prod := by
  set s := sortTable t with hs_def
  have hsorted := sortTable_sorted t
  let e : Entry := ⟨a, minList (indicesOf (s.map (·.1)) a), maxList (indicesOf (s.map (·.1)) a)⟩
  have he : e ∈ panelMap (s.map (·.1)) := (mem_panelMap _ e).2 ⟨ha, rfl, rfl⟩
  have hrows := rows_eq_filter (s.map (·.1)) hsorted e he
  have hperm : s.Perm t := sortTable_perm t
  have hposs : ∀ p ∈ s, 0 < g p.2 := fun p hp => hpos p (hperm.mem_iff.mp hp)
  have hget : ∀ i, i < s.length → (s.getD i (0, dflt)) ∈ s := by
    intro i hi
    rw [List.getD_eq_getElem?_getD, List.getElem?_eq_getElem hi]
    exact List.getElem_mem hi
  have hlen : (s.map (·.1)).length = s.length := List.length_map _
  change trajectory (fun i => g (s.getD i (0, dflt)).2) e.rows = _
  rw [trajectory_eq_prod]
  · rw [hrows, hlen]
    have hfilt : (List.range s.length).filter (fun i => decide ((s.map (·.1))[i]? = some e.id))
        = (List.range s.length).filter (fun i => (fun p : Int × ρ => decide (p.1 = a)) (s.getD i (0, dflt))) := by
      apply List.filter_congr
      intro i hi
      have hi' : i < s.length := List.mem_range.mp hi
      simp only [List.getElem?_map, List.getD_eq_getElem?_getD, List.getElem?_eq_getElem hi',
        Option.map_some, Option.getD_some, Option.some.injEq]
      rfl
    rw [hfilt]
    rw [prod_filter_positions s (0, dflt) (fun p => decide (p.1 = a)) (fun p => g p.2)]
    exact List.Perm.prod_eq ((hperm.filter _).map _)
  · intro i hi
    rw [hrows, List.mem_filter, List.mem_range, hlen] at hi
    exact hposs _ (hget i hi.1)

end table

/-! ### bootstrap -/

theorem mem_resample (m : List Entry) (picks : List Nat) (e : Entry) (h : e ∈ resample m picks) : e ∈ m := by
  unfold resample at h
  rw [List.mem_filterMap] at h
  obtain ⟨i, _, hi⟩ := h
  exact List.mem_of_getElem? hi

theorem resample_eq_map (m : List Entry) (picks : List Nat) (d : Entry) (h : ∀ i ∈ picks, i < m.length) :
    resample m picks = picks.map fun i => m.getD i d := by
  unfold resample
  induction picks with
  | nil => rfl
  | cons p ps ih =>
    have hp : p < m.length := h p List.mem_cons_self
    rw [List.filterMap_cons, List.getElem?_eq_getElem hp]
    simp only [List.map_cons]
    rw [ih (fun i hi => h i (List.mem_cons_of_mem _ hi))]
    simp [List.getD_eq_getElem?_getD, List.getElem?_eq_getElem hp]

theorem bootstrapLoop_dbMap (s : Sess) (ps : List (List Nat)) : (s.bootstrapLoop ps).1.dbMap = s.dbMap := by
  induction ps generalizing s with
  | nil => rfl
  | cons p ps ih => simp only [Sess.bootstrapLoop]; rw [ih]

theorem bootstrapLoop_nil_state (s : Sess) : (s.bootstrapLoop []).1 = s := rfl


/-! ### order of the individuals in the map -/

/-- on a sorted column the distinct ids in order of first appearance are strictly increasing -/
theorem eraseDups_sorted_lt (l : List Int) (hs : l.Pairwise (· ≤ ·)) : l.eraseDups.Pairwise (· < ·) := by
  generalize hn : l.length = n
  induction n using Nat.strong_induction_on generalizing l with
  | _ n ih =>
    cases l with
    | nil => simp
    | cons a t =>
      rw [List.eraseDups_cons, List.pairwise_cons]
      rw [List.pairwise_cons] at hs
      refine ⟨?_, ?_⟩
      · intro z hz
        have hz' := List.mem_eraseDups.mp hz
        rw [List.mem_filter] at hz'
        have h1 : a ≤ z := hs.1 z hz'.1
        have h2 : z ≠ a := by simpa using hz'.2
        omega
      · apply ih (t.filter fun b => !b == a).length ?_ _ (hs.2.sublist List.filter_sublist) rfl
        have := List.length_filter_le (fun b => !b == a) t
        simp at hn
        omega


/-! ### one object while the table changes -/

theorem obj_history_aux {ρ : Type} [BEq ρ] [LawfulBEq ρ] (outer : ℝ → ℝ) (g : ρ → ℝ) (dflt : ρ)
    (ts : List (List (Int × ρ))) :
    ∀ (o : Obj ρ), o.engMap = panelMap (o.engTable.map (·.1)) →
      ∀ (k : ℕ) (t : List (Int × ρ)) (vals : List (Int × ℝ)), ts[k]? = some t →
        (Obj.history outer g dflt o ts)[k]? = some (some vals) → vals = tableValues outer g dflt t := by
  induction ts with
  | nil => intro o _ k t vals ht; simp at ht
  | cons t0 ts ih =>
    intro o ho k t vals ht hv
    cases k with
    | zero =>
      simp only [List.getElem?_cons_zero, Option.some.injEq] at ht
      subst ht
      simp only [Obj.history, List.getElem?_cons_zero, Option.some.injEq] at hv
      unfold Obj.evaluate at hv
      simp only [Obj.setTable, DbState.setTable, DbState.rebuild] at hv
      by_cases heq : (sortTable t0 == o.engTable) = true
      · have heq' : sortTable t0 = o.engTable := by simpa using heq
        simp only [heq, if_true, Option.some.injEq] at hv
        rw [← hv]
        unfold DbState.engineValues tableValues
        simp only [ho, ← heq']
      · simp [heq] at hv
    | succ k =>
      simp only [List.getElem?_cons_succ] at ht
      simp only [Obj.history, List.getElem?_cons_succ] at hv
      refine ih _ ?_ k t vals ht hv
      unfold Obj.evaluate
      simp only [Obj.setTable]
      by_cases heq : ((DbState.rebuild (o.db.setTable t0)).table == o.engTable) = true
      · simp only [heq, if_true]; exact ho
      · simp only [heq]; exact ho

end Panel
