/- Helper lemmas for Props/C09.lean: the individual map built by `build_panel_map`. -/
import Model.Panel
import Proofs.Panel

namespace Panel

/-! ### min / max of a list of positions -/

theorem foldl_min_spec (t : List Nat) (a : Nat) :
    (t.foldl min a = a ∨ t.foldl min a ∈ t) ∧ t.foldl min a ≤ a ∧ ∀ x ∈ t, t.foldl min a ≤ x := by
  induction t generalizing a with
  | nil => simp
  | cons b t ih =>
    simp only [List.foldl_cons]
    obtain ⟨h1, h2, h3⟩ := ih (min a b)
    refine ⟨?_, by omega, ?_⟩
    · rcases h1 with h | h
      · rw [h]
        rcases Nat.le_total a b with hab | hab
        · left; omega
        · right; simp; left; omega
      · right; exact List.mem_cons_of_mem _ h
    · intro x hx
      rcases List.mem_cons.mp hx with rfl | hx
      · omega
      · exact h3 x hx

theorem foldl_max_spec (t : List Nat) (a : Nat) :
    (t.foldl max a = a ∨ t.foldl max a ∈ t) ∧ a ≤ t.foldl max a ∧ ∀ x ∈ t, x ≤ t.foldl max a := by
  induction t generalizing a with
  | nil => simp
  | cons b t ih =>
    simp only [List.foldl_cons]
    obtain ⟨h1, h2, h3⟩ := ih (max a b)
    refine ⟨?_, by omega, ?_⟩
    · rcases h1 with h | h
      · rw [h]
        rcases Nat.le_total a b with hab | hab
        · right; simp; left; omega
        · left; omega
      · right; exact List.mem_cons_of_mem _ h
    · intro x hx
      rcases List.mem_cons.mp hx with rfl | hx
      · omega
      · exact h3 x hx

theorem minList_spec (l : List Nat) (h : l ≠ []) : minList l ∈ l ∧ ∀ x ∈ l, minList l ≤ x := by
  cases l with
  | nil => exact absurd rfl h
  | cons a t =>
    obtain ⟨h1, h2, h3⟩ := foldl_min_spec t a
    simp only [minList]
    refine ⟨?_, ?_⟩
    · rcases h1 with h | h
      · rw [h]; exact List.mem_cons_self
      · exact List.mem_cons_of_mem _ h
    · intro x hx
      rcases List.mem_cons.mp hx with rfl | hx
      · exact h2
      · exact h3 x hx

theorem maxList_spec (l : List Nat) (h : l ≠ []) : maxList l ∈ l ∧ ∀ x ∈ l, x ≤ maxList l := by
  cases l with
  | nil => exact absurd rfl h
  | cons a t =>
    obtain ⟨h1, h2, h3⟩ := foldl_max_spec t a
    simp only [maxList]
    refine ⟨?_, ?_⟩
    · rcases h1 with h | h
      · rw [h]; exact List.mem_cons_self
      · exact List.mem_cons_of_mem _ h
    · intro x hx
      rcases List.mem_cons.mp hx with rfl | hx
      · exact h2
      · exact h3 x hx

/-! ### rows of one id -/

theorem mem_indicesOf (s : List Int) (a : Int) (i : Nat) :
    i ∈ indicesOf s a ↔ i < s.length ∧ s[i]? = some a := by
  unfold indicesOf
  simp only [List.mem_filter, List.mem_range, beq_iff_eq]
  constructor
  · rintro ⟨h1, h2⟩
    refine ⟨h1, ?_⟩
    rw [List.getD_eq_getElem?_getD, List.getElem?_eq_getElem h1] at h2
    rw [List.getElem?_eq_getElem h1]
    simpa using h2
  · rintro ⟨h1, h2⟩
    refine ⟨h1, ?_⟩
    rw [List.getD_eq_getElem?_getD, h2]
    rfl

theorem indicesOf_ne_nil (s : List Int) (a : Int) (ha : a ∈ s) : indicesOf s a ≠ [] := by
  obtain ⟨m, hm⟩ := List.mem_iff_getElem?.mp ha
  have hlen : m < s.length := by
    rcases Nat.lt_or_ge m s.length with h1 | h1
    · exact h1
    · rw [List.getElem?_eq_none h1] at hm; cases hm
  intro h
  have : m ∈ indicesOf s a := (mem_indicesOf s a m).2 ⟨hlen, hm⟩
  rw [h] at this
  simp at this

/-- **on a sorted id column the rows of an id are exactly the positions `first … last`** -/
theorem block_iff (s : List Int) (hs : s.Pairwise (· ≤ ·)) (a : Int) (ha : a ∈ s) (i : Nat)
    (hi : i < s.length) :
    (minList (indicesOf s a) ≤ i ∧ i ≤ maxList (indicesOf s a)) ↔ s[i]? = some a := by
  have hne := indicesOf_ne_nil s a ha
  obtain ⟨hlo, hlo'⟩ := minList_spec _ hne
  obtain ⟨hhi, hhi'⟩ := maxList_spec _ hne
  constructor
  · rintro ⟨h1, h2⟩
    obtain ⟨hl1, hl2⟩ := (mem_indicesOf s a _).1 hlo
    obtain ⟨hh1, hh2⟩ := (mem_indicesOf s a _).1 hhi
    rw [List.getElem?_eq_getElem hl1] at hl2
    rw [List.getElem?_eq_getElem hh1] at hh2
    rw [List.getElem?_eq_getElem hi]
    have hp := List.pairwise_iff_getElem.mp hs
    have e1 : s[minList (indicesOf s a)] ≤ s[i] := by
      rcases Nat.lt_or_ge (minList (indicesOf s a)) i with h | h
      · exact hp _ _ hl1 hi h
      · have : minList (indicesOf s a) = i := by omega
        simp [this]
    have e2 : s[i] ≤ s[maxList (indicesOf s a)] := by
      rcases Nat.lt_or_ge i (maxList (indicesOf s a)) with h | h
      · exact hp _ _ hi hh1 h
      · have : maxList (indicesOf s a) = i := by omega
        simp [this]
    simp only [Option.some.injEq] at hl2 hh2 ⊢
    omega
  · intro h
    have : i ∈ indicesOf s a := (mem_indicesOf s a i).2 ⟨hi, h⟩
    exact ⟨hlo' i this, hhi' i this⟩

theorem block_bounds (s : List Int) (a : Int) (ha : a ∈ s) :
    minList (indicesOf s a) ≤ maxList (indicesOf s a) ∧ maxList (indicesOf s a) < s.length := by
  have hne := indicesOf_ne_nil s a ha
  obtain ⟨hlo, hlo'⟩ := minList_spec _ hne
  obtain ⟨hhi, hhi'⟩ := maxList_spec _ hne
  exact ⟨hhi' _ hlo, ((mem_indicesOf s a _).1 hhi).1⟩

/-! ### the map -/

theorem mem_panelMap (s : List Int) (e : Entry) :
    e ∈ panelMap s ↔ e.id ∈ s ∧ e.first = minList (indicesOf s e.id) ∧
      e.last = maxList (indicesOf s e.id) := by
  unfold panelMap
  simp only [List.mem_map, List.mem_eraseDups]
  constructor
  · rintro ⟨a, ha, rfl⟩
    exact ⟨ha, rfl, rfl⟩
  · rintro ⟨h1, h2, h3⟩
    refine ⟨e.id, h1, ?_⟩
    cases e
    simp_all

theorem eraseDups_nodup (l : List Int) : l.eraseDups.Nodup := by
  generalize hn : l.length = n
  induction n using Nat.strong_induction_on generalizing l with
  | _ n ih =>
    cases l with
    | nil => simp
    | cons a t =>
      rw [List.eraseDups_cons, List.nodup_cons]
      refine ⟨?_, ?_⟩
      · rw [List.mem_eraseDups]
        simp
      · apply ih (t.filter fun b => !b == a).length ?_ _ rfl
        have := List.length_filter_le (fun b => !b == a) t
        simp at hn
        omega

theorem panelMap_ids (s : List Int) : (panelMap s).map (·.id) = s.eraseDups := by
  unfold panelMap
  rw [List.map_map]
  simp [Function.comp_def]

/-- entries of the map are determined by their id -/
theorem panelMap_inj (s : List Int) (e e' : Entry) (h : e ∈ panelMap s) (h' : e' ∈ panelMap s)
    (hid : e.id = e'.id) : e = e' := by
  obtain ⟨_, h2, h3⟩ := (mem_panelMap s e).1 h
  obtain ⟨_, h2', h3'⟩ := (mem_panelMap s e').1 h'
  cases e; cases e'
  simp_all

theorem mem_rows (e : Entry) (i : Nat) : i ∈ e.rows ↔ e.first ≤ i ∧ i ≤ e.last := by
  unfold Entry.rows
  simp only [List.mem_range'_1]
  omega

end Panel
