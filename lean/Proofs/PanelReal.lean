/- Real-valued lemmas for Props/C09.lean: trajectory = product, Monte-Carlo mean, table level. -/
import Model.Panel
import Proofs.Panel
import Proofs.PanelMap
import Proofs.NumReal
import Mathlib.Algebra.BigOperators.Group.List.Basic
import Mathlib.Algebra.BigOperators.Group.List.Lemmas
import Mathlib.Data.List.Sort
import Mathlib.Data.List.Perm.Basic

namespace Panel
open NumR

/-! ### the trajectory operator -/

theorem traj_foldl (f : ℕ → ℝ) (rows : List ℕ) (a : ℝ) :
    rows.foldl (fun acc t => @HAdd.hAdd ℝ ℝ ℝ (@instHAdd ℝ Num.instAddOfNumOps) acc (Num.log (f t))) a
      = a + (rows.map fun t => Real.log (f t)).sum := by
  induction rows generalizing a with
  | nil => simp
  | cons r rs ih =>
    simp only [List.foldl_cons, List.map_cons, List.sum_cons]
    rw [ih]
    simp only [add_real, log_real]
    ring

/-- the engine's trajectory value is `exp` of the sum of the logs -/
theorem trajectory_real (f : ℕ → ℝ) (rows : List ℕ) :
    trajectory f rows = Real.exp ((rows.map fun t => Real.log (f t)).sum) := by
  unfold trajectory
  rw [traj_foldl]
  simp

theorem exp_sum_log (f : ℕ → ℝ) (rows : List ℕ) (hpos : ∀ t ∈ rows, 0 < f t) :
    Real.exp ((rows.map fun t => Real.log (f t)).sum) = (rows.map f).prod := by
  induction rows with
  | nil => simp
  | cons r rs ih =>
    simp only [List.map_cons, List.sum_cons, List.prod_cons]
    rw [Real.exp_add, Real.exp_log (hpos r (List.mem_cons_self)),
      ih (fun t ht => hpos t (List.mem_cons_of_mem _ ht))]

/-- … which is the product of the per-observation values when these are positive -/
theorem trajectory_eq_prod (f : ℕ → ℝ) (rows : List ℕ) (hpos : ∀ t ∈ rows, 0 < f t) :
    trajectory f rows = (rows.map f).prod := by
  rw [trajectory_real, exp_sum_log f rows hpos]

theorem trajectoryProd_real (f : ℕ → ℝ) (rows : List ℕ) : trajectoryProd f rows = (rows.map f).prod := by
  unfold trajectoryProd
  rw [prod_real]

/-! ### Monte-Carlo mean of trajectories -/

theorem mc_foldl {β : Type} (t : β → ℝ) (l : List β) (a : ℝ) :
    l.foldl (fun acc b => @HAdd.hAdd ℝ ℝ ℝ (@instHAdd ℝ Num.instAddOfNumOps) acc (t b)) a
      = a + (l.map t).sum := by
  induction l generalizing a with
  | nil => simp
  | cons r rs ih =>
    simp only [List.foldl_cons, List.map_cons, List.sum_cons]
    rw [ih]
    simp only [add_real]
    ring

theorem mcPanel_real (f : ℕ → (ℕ → ℝ) → ℝ) (draws : ℕ → ℕ → ℕ → ℝ) (ind : ℕ) (rows : List ℕ) (R : ℕ) :
    mcPanel f draws ind rows R
      = ((List.range R).map fun r => trajectory (fun t => f t (draws ind r)) rows).sum / (R : ℝ) := by
  unfold mcPanel
  rw [mc_foldl]
  simp

/-! ### tables -/

section table
variable {ρ : Type}

theorem sortTable_perm (t : List (Int × ρ)) : (sortTable t).Perm t := List.mergeSort_perm _ _

theorem sortTable_sorted (t : List (Int × ρ)) : ((sortTable t).map (·.1)).Pairwise (· ≤ ·) := by
  have := @List.pairwise_mergeSort (Int × ρ) (fun a b => decide (a.1 ≤ b.1))
    (by intro a b c; simp only [decide_eq_true_eq]; omega)
    (by intro a b; simp only [Bool.or_eq_true, decide_eq_true_eq]; omega) t
  rw [List.pairwise_map]
  simpa [sortTable] using this

/-- two orders of the same rows have the same sorted id column -/
theorem sorted_ids_eq (t t' : List (Int × ρ)) (hp : t.Perm t') :
    (sortTable t).map (·.1) = (sortTable t').map (·.1) := by
  have h1 : ((sortTable t).map (·.1)).Perm ((sortTable t').map (·.1)) :=
    (((sortTable_perm t).trans hp).trans (sortTable_perm t').symm).map _
  exact List.Perm.eq_of_pairwise (le := (· ≤ ·))
    (fun a b _ _ h1 h2 => Int.le_antisymm h1 h2) (sortTable_sorted t) (sortTable_sorted t') h1

/-- the positions `first … last` of an entry are the positions whose id is the entry's id -/
theorem rows_eq_filter (s : List Int) (hs : s.Pairwise (· ≤ ·)) (e : Entry) (he : e ∈ panelMap s) :
    e.rows = (List.range s.length).filter (fun i => decide (s[i]? = some e.id)) := by
  obtain ⟨hid, hf, hl⟩ := (mem_panelMap s e).1 he
  have hb := block_bounds s e.id hid
  apply List.Perm.eq_of_pairwise (le := (· < ·)) (fun a b _ _ h1 h2 => by omega)
  · unfold Entry.rows; exact List.pairwise_lt_range'
  · exact List.Pairwise.sublist List.filter_sublist List.pairwise_lt_range
  · apply (List.perm_ext_iff_of_nodup ?_ ?_).2
    · intro i
      rw [mem_rows, List.mem_filter, List.mem_range, decide_eq_true_eq]
      constructor
      · rintro ⟨h1, h2⟩
        have hi : i < s.length := by omega
        refine ⟨hi, (block_iff s hs e.id hid i hi).1 ?_⟩
        rw [← hf, ← hl]; exact ⟨h1, h2⟩
      · rintro ⟨hi, h⟩
        have := (block_iff s hs e.id hid i hi).2 h
        rw [← hf, ← hl] at this; exact this
    · unfold Entry.rows; exact List.nodup_range'
    · exact List.Nodup.filter _ List.nodup_range

theorem map_range_getD {β γ : Type} (l : List β) (d : β) (f : β → γ) :
    (List.range l.length).map (fun n => f (l.getD n d)) = l.map f := by
  apply List.ext_getElem
  · simp
  · intro i h1 h2
    simp only [List.length_map, List.length_range] at h1
    simp [List.getD_eq_getElem?_getD, h1]

/-- product over the positions selected by a predicate on the rows = product over the selected rows -/
theorem prod_filter_positions (s : List (Int × ρ)) (d : Int × ρ) (p : Int × ρ → Bool) (g : Int × ρ → ℝ) :
    (((List.range s.length).filter (fun i => p (s.getD i d))).map fun i => g (s.getD i d)).prod
      = ((s.filter p).map g).prod := by
  have h1 : (List.range s.length).map (fun i => s.getD i d) = s := by
    have := map_range_getD s d id
    simpa using this
  conv => rhs; rw [← h1, List.filter_map, List.map_map]
  rfl

end table

end Panel
