/- Helper lemmas for Props/C14.lean, parameter-file part (core Lean only). -/
import Model.Params

namespace Params

/-! ### value coding -/

theorem decode_encode (t : PType) (v : Val) (h : typeOK t v = true) :
    decode t (encode v) = .ok v := by
  cases t <;> cases v <;> simp_all [typeOK, Val.isBool, decode, encode]
  · rename_i b; cases b <;> rfl

theorem parseBoolean_ok_iff (v : Val) (b : Bool) :
    parseBoolean v = .ok b ↔
      ∃ x, v = .s x ∧ ((b = true ∧ x ∈ trueStr) ∨ (b = false ∧ x ∈ falseStr)) := by
  cases v with
  | s x =>
    simp only [parseBoolean]
    by_cases ht : trueStr.contains x = true
    · have hf : x ∉ falseStr := by
        have : x ∈ trueStr := by simpa using ht
        simp only [trueStr, List.mem_cons, List.not_mem_nil, or_false] at this
        rcases this with rfl | rfl | rfl | rfl <;> decide
      simp only [ht, ↓reduceIte, Except.ok.injEq, Val.s.injEq, exists_eq_left']
      have : x ∈ trueStr := by simpa using ht
      cases b <;> simp [this, hf]
    · have htn : x ∉ trueStr := by simpa using ht
      simp only [ht, Bool.false_eq_true, ↓reduceIte]
      by_cases hf : falseStr.contains x = true
      · have : x ∈ falseStr := by simpa using hf
        simp only [hf, ↓reduceIte, Except.ok.injEq, Val.s.injEq, exists_eq_left']
        cases b <;> simp [this, htn]
      · have hfn : x ∉ falseStr := by simpa using hf
        simp only [hf, Bool.false_eq_true, ↓reduceIte, Val.s.injEq, exists_eq_left']
        cases b <;> simp [htn, hfn]
  | b _ => simp [parseBoolean]
  | i _ => simp [parseBoolean]
  | f _ => simp [parseBoolean]

/-! ### checks -/

theorem checkAll_failed (algos : List String) (cs : List String) (v : Val) :
    checkAll algos cs v true ≠ .ok () := by
  induction cs with
  | nil => simp [checkAll]
  | cons c t ih =>
    simp only [checkAll]
    split <;> first | exact ih | simp

/-- a passed check list passes each of its checks -/
theorem checkAll_ok_mem (algos : List String) (cs : List String) (v : Val)
    (h : checkAll algos cs v false = .ok ()) : ∀ c ∈ cs, runCheck algos c v = .ok := by
  induction cs with
  | nil => intro c hc; cases hc
  | cons c t ih =>
    simp only [checkAll] at h
    intro c' hc'
    split at h
    · rename_i hok
      rcases List.mem_cons.mp hc' with rfl | hm
      · exact hok
      · exact ih h c' hm
    · exact absurd h (checkAll_failed algos t v)
    · cases h

theorem is_boolean_forces_bool (algos : List String) (v : Val)
    (h : runCheck algos "is_boolean" v = .ok) : v.isBool = true := by
  simp only [runCheck] at h
  simp only [show ("is_boolean" == "is_number") = false by decide, Bool.false_eq_true,
    ↓reduceIte, show ("is_boolean" == "is_boolean") = true by decide] at h
  cases hb : v.isBool with
  | true => rfl
  | false => simp [hb, ofB] at h

/-! ### the dictionary -/

theorem key_inj_of_nodup : ∀ (ps : List Entry), (ps.map (·.key)).Nodup →
    ∀ a ∈ ps, ∀ b ∈ ps, a.key = b.key → a = b := by
  intro ps
  induction ps with
  | nil => intro _ a ha; cases ha
  | cons e t ih =>
    intro hnd a ha b hb hab
    simp only [List.map_cons, List.nodup_cons, List.mem_map, not_exists, not_and] at hnd
    rcases List.mem_cons.mp ha with rfl | ha' <;> rcases List.mem_cons.mp hb with rfl | hb'
    · rfl
    · exact absurd hab.symm (hnd.1 b hb')
    · exact absurd hab (hnd.1 a ha')
    · exact ih hnd.2 a ha' b hb' hab

/-- the directory while a document written from `ps` is being read into a directory of the
same shape holding other values (`w`): keys accepted by `P` already carry the value of `ps` -/
def mix (w : Entry → Val) (P : Key → Bool) (ps : List Entry) : List Entry :=
  ps.map fun e => if P e.key then e else { e with value := w e }

theorem mix_congr (w : Entry → Val) (P Q : Key → Bool) (ps : List Entry)
    (h : ∀ e ∈ ps, P e.key = Q e.key) : mix w P ps = mix w Q ps := by
  unfold mix
  apply List.map_congr_left
  intro e he
  rw [h e he]

theorem find_mix (w : Entry → Val) (P : Key → Bool) :
    ∀ (ps : List Entry), (ps.map (·.key)).Nodup → ∀ e ∈ ps,
      find (mix w P ps) e.key = some (if P e.key then e else { e with value := w e }) := by
  intro ps
  induction ps with
  | nil => intro _ e he; cases he
  | cons a t ih =>
    intro hnd e he
    simp only [List.map_cons, List.nodup_cons, List.mem_map, not_exists, not_and] at hnd
    have hkey : (if P a.key then a else { a with value := w a }).key = a.key := by
      split <;> rfl
    simp only [find, mix, List.map_cons, List.find?_cons]
    rcases List.mem_cons.mp he with rfl | he'
    · simp [hkey]
    · have hne : a.key ≠ e.key := fun hh => hnd.1 e he' hh.symm
      have : ((if P a.key then a else { a with value := w a }).key == e.key) = false := by
        rw [hkey]; simpa using hne
      simp only [this]
      exact ih hnd.2 e he'

theorem store_mix (w : Entry → Val) (P : Key → Bool) (ps : List Entry)
    (hnd : (ps.map (·.key)).Nodup) (e : Entry) (he : e ∈ ps) :
    store (mix w P ps) e = mix w (fun k => P k || k == e.key) ps := by
  have hany : (mix w P ps).any (fun q => q.key == e.key) = true := by
    simp only [mix, List.any_map, List.any_eq_true, Function.comp]
    refine ⟨e, he, ?_⟩
    split <;> simp [Entry.key]
  unfold store
  rw [if_pos hany]
  simp only [mix, List.map_map]
  apply List.map_congr_left
  intro a ha
  simp only [Function.comp]
  have hkey : (if P a.key then a else { a with value := w a }).key = a.key := by
    split <;> rfl
  rw [hkey]
  by_cases hk : a.key = e.key
  · have hae : a = e := key_inj_of_nodup ps hnd a ha e he hk
    subst hae
    simp
  · have : (a.key == e.key) = false := by simpa using hk
    simp [this]

/-- one entry of the written document read back -/
theorem importEntry_mix (algos : List String) (w : Entry → Val) (P : Key → Bool)
    (ps : List Entry) (hnd : (ps.map (·.key)).Nodup) (e : Entry) (he : e ∈ ps)
    (ht : typeOK e.type e.value = true) (hc : checkAll algos e.checks e.value false = .ok ()) :
    importEntry algos (mix w P ps) e.sec e.name (encode e.value) =
      .ok (mix w (fun k => P k || k == e.key) ps) := by
  have hf := find_mix w P ps hnd e he
  simp only [Entry.key] at hf
  have hs := store_mix w P ps hnd e he
  cases hP : P (e.sec, e.name) with
  | true =>
    simp only [hP, ↓reduceIte] at hf
    simp only [importEntry, hf, decode_encode e.type e.value ht, addParameter, hc]
    rw [hs]
  | false =>
    simp only [hP, Bool.false_eq_true, ↓reduceIte] at hf
    simp only [importEntry, hf, decode_encode e.type e.value ht, addParameter, hc]
    rw [hs]

theorem importSection_mix (algos : List String) (w : Entry → Val) (ps : List Entry)
    (hnd : (ps.map (·.key)).Nodup)
    (hv : ∀ e ∈ ps, typeOK e.type e.value = true ∧ checkAll algos e.checks e.value false = .ok ())
    (s : String) :
    ∀ (l : List Entry) (P : Key → Bool), (∀ e ∈ l, e ∈ ps ∧ e.sec = s) →
      importSection algos s (mix w P ps) (l.map fun e => (e.name, encode e.value)) =
        .ok (mix w (fun k => P k || (l.map (·.key)).contains k) ps) := by
  intro l
  induction l with
  | nil =>
    intro P _
    simp only [List.map_nil, importSection, List.contains_nil, Bool.or_false]
  | cons a t ih =>
    intro P hl
    have ha := hl a List.mem_cons_self
    have hstep := importEntry_mix algos w P ps hnd a ha.1 (hv a ha.1).1 (hv a ha.1).2
    rw [ha.2] at hstep
    simp only [List.map_cons, importSection, hstep]
    rw [ih (fun k => P k || k == a.key) (fun e he => hl e (List.mem_cons_of_mem _ he))]
    congr 1
    apply mix_congr
    intro e _
    simp only [List.contains_cons, Bool.or_assoc]

theorem importDocument_mix (algos : List String) (w : Entry → Val) (ps : List Entry)
    (hnd : (ps.map (·.key)).Nodup)
    (hv : ∀ e ∈ ps, typeOK e.type e.value = true ∧ checkAll algos e.checks e.value false = .ok ()) :
    ∀ (secs : List String) (P : Key → Bool),
      importDocument algos (mix w P ps)
        (secs.map fun s => (s, (ps.filter (fun e => e.sec == s)).map fun e => (e.name, encode e.value))) =
        .ok (mix w (fun k => P k || secs.contains k.1) ps) := by
  intro secs
  induction secs with
  | nil => intro P; simp [importDocument]
  | cons s t ih =>
    intro P
    have hsec := importSection_mix algos w ps hnd hv s (ps.filter (fun e => e.sec == s)) P
      (fun e he => by
        simp only [List.mem_filter, beq_iff_eq] at he
        exact he)
    simp only [List.map_cons, importDocument, hsec]
    rw [ih]
    congr 1
    apply mix_congr
    intro e he
    simp only [List.contains_cons, Bool.or_assoc]
    congr 1
    have : (List.map (fun x => x.key) (List.filter (fun e => e.sec == s) ps)).contains e.key
        = (e.key.1 == s) := by
      by_cases hes : e.sec = s
      · have hm : e.key ∈ List.map (fun x => x.key) (List.filter (fun e => e.sec == s) ps) :=
          List.mem_map.mpr ⟨e, List.mem_filter.mpr ⟨he, by simpa using hes⟩, rfl⟩
        rw [List.contains_iff_mem.mpr hm]
        show true = (e.sec == s)
        simp [hes]
      · have hm : e.key ∉ List.map (fun x => x.key) (List.filter (fun e => e.sec == s) ps) := by
          intro hm
          obtain ⟨x, hx, hxk⟩ := List.mem_map.mp hm
          simp only [List.mem_filter, beq_iff_eq] at hx
          have : x.sec = e.sec := congrArg Prod.fst hxk
          exact hes (this ▸ hx.2)
        have hc : (List.map (fun x => x.key) (List.filter (fun e => e.sec == s) ps)).contains e.key = false := by
          cases hcc : (List.map (fun x => x.key) (List.filter (fun e => e.sec == s) ps)).contains e.key with
          | false => rfl
          | true => exact absurd (List.contains_iff_mem.mp hcc) hm
        rw [hc]
        show false = (e.sec == s)
        simp [hes]
    rw [this]

/-- **dump then read**: reading the document generated from `ps` into any directory with
the same keys, types and checks (a fresh `Parameters()`) gives back exactly `ps`. -/
theorem import_generate (algos : List String) (w : Entry → Val) (ps : List Entry)
    (hnd : (ps.map (·.key)).Nodup)
    (hv : ∀ e ∈ ps, typeOK e.type e.value = true ∧ checkAll algos e.checks e.value false = .ok ()) :
    importDocument algos (ps.map fun e => { e with value := w e }) (generateDocument ps) = .ok ps := by
  have h0 : (ps.map fun e => { e with value := w e }) = mix w (fun _ => false) ps := by
    simp [mix]
  rw [h0]
  unfold generateDocument
  rw [importDocument_mix algos w ps hnd hv]
  congr 1
  unfold mix
  conv => rhs; rw [← List.map_id ps]
  apply List.map_congr_left
  intro e he
  have : (sectionsOf ps).contains e.key.1 = true := by
    simp only [sectionsOf, List.contains_iff_mem, List.mem_eraseDups, List.mem_map]
    exact ⟨e, he, rfl⟩
  simp only [Bool.false_or, this, ↓reduceIte, id]

/-- unknown sections / entries of a file are ignored -/
theorem importEntry_unknown (algos : List String) (ps : List Entry) (sec name : String) (tv : Val)
    (h : find ps (sec, name) = none) : importEntry algos ps sec name tv = .ok ps := by
  simp [importEntry, h]

end Params
