/-
C14 — histories of one Parameters object: every operation keeps the keys pairwise different and
every stored value admitted by its checks.
-/
import Model.Params
import Proofs.Params

namespace Params

/-- keys pairwise different, every value admitted by the checks of its entry -/
def Inv (algos : List String) (ps : List Entry) : Prop :=
  (ps.map (·.key)).Nodup ∧ ∀ e ∈ ps, admitted algos e e.value = true

theorem store_inv (algos : List String) (ps : List Entry) (e : Entry)
    (h : Inv algos ps) (he : admitted algos e e.value = true) : Inv algos (store ps e) := by
  unfold store
  split
  · constructor
    · have : (ps.map fun q => if q.key == e.key then e else q).map (·.key) = ps.map (·.key) := by
        rw [List.map_map]
        apply List.map_congr_left
        intro q _
        simp only [Function.comp]
        split
        · rename_i hq; exact (beq_iff_eq.mp hq).symm
        · rfl
      rw [this]; exact h.1
    · intro x hx
      rcases List.mem_map.mp hx with ⟨q, hq, rfl⟩
      split
      · exact he
      · exact h.2 q hq
  · rename_i hany
    constructor
    · rw [List.map_append, List.nodup_append]
      refine ⟨h.1, by simp, ?_⟩
      intro a ha b hb
      simp only [List.map_cons, List.map_nil, List.mem_singleton] at hb
      subst hb
      rcases List.mem_map.mp ha with ⟨q, hq, rfl⟩
      intro heq
      apply hany
      exact List.any_eq_true.mpr ⟨q, hq, beq_iff_eq.mpr heq⟩
    · intro x hx
      rcases List.mem_append.mp hx with hx | hx
      · exact h.2 x hx
      · simp only [List.mem_singleton] at hx; subst hx; exact he

theorem addParameter_inv (algos : List String) (ps ps' : List Entry) (e : Entry)
    (h : Inv algos ps) (hok : addParameter algos ps e = .ok ps') : Inv algos ps' := by
  unfold addParameter at hok
  split at hok
  · rename_i u hu
    injection hok with hok; subst hok
    exact store_inv algos ps e h (by simp [admitted, hu])
  · cases hok

theorem setValue_inv (algos : List String) (ps ps' : List Entry) (sec : Option String) (name : String)
    (v : Val) (h : Inv algos ps) (hok : setValue algos ps sec name v = .ok ps') : Inv algos ps' := by
  unfold setValue at hok
  split at hok
  · exact addParameter_inv algos ps ps' _ h hok
  · cases hok

theorem importEntry_inv (algos : List String) (ps ps' : List Entry) (sec name : String) (tv : Val)
    (h : Inv algos ps) (hok : importEntry algos ps sec name tv = .ok ps') : Inv algos ps' := by
  unfold importEntry at hok
  split at hok
  · injection hok with hok; subst hok; exact h
  · split at hok
    · exact addParameter_inv algos ps ps' _ h hok
    · cases hok

theorem importSection_inv (algos : List String) (sec : String) :
    ∀ (es : List (String × Val)) (ps ps' : List Entry), Inv algos ps →
      importSection algos sec ps es = .ok ps' → Inv algos ps'
  | [], ps, ps', h, hok => by simp only [importSection] at hok; injection hok with hok; subst hok; exact h
  | (n, tv) :: t, ps, ps', h, hok => by
    simp only [importSection] at hok
    split at hok
    · rename_i q hq
      exact importSection_inv algos sec t q ps' (importEntry_inv algos ps q sec n tv h hq) hok
    · cases hok

theorem importDocument_inv (algos : List String) :
    ∀ (d : Doc) (ps ps' : List Entry), Inv algos ps → importDocument algos ps d = .ok ps' → Inv algos ps'
  | [], ps, ps', h, hok => by simp only [importDocument] at hok; injection hok with hok; subst hok; exact h
  | (s, es) :: t, ps, ps', h, hok => by
    simp only [importDocument] at hok
    split at hok
    · rename_i q hq
      exact importDocument_inv algos t q ps' (importSection_inv algos s es ps q h hq) hok
    · cases hok

/-- the state after an operation inside the domain: keys still pairwise different, values still
admitted and of the declared kind -/
def GoodState (algos : List String) (s : PState) : Prop :=
  Inv algos s.params ∧ allTypeOK s.params = true

theorem stepP_good (algos : List String) (s s' : PState) (op : POp) (h : GoodState algos s)
    (hs : stepP algos s op = some s') : GoodState algos s' := by
  cases op with
  | read d =>
    simp only [stepP] at hs
    split at hs
    · rename_i ps hp
      split at hs
      · rename_i ht; injection hs with hs; subst hs
        exact ⟨importDocument_inv algos d _ _ h.1 hp, ht⟩
      · cases hs
    · cases hs
  | set sec name v =>
    simp only [stepP] at hs
    split at hs
    · rename_i ps hp
      split at hs
      · rename_i ht; injection hs with hs; subst hs
        exact ⟨setValue_inv algos _ _ sec name v h.1 hp, ht⟩
      · cases hs
    · injection hs with hs; subst hs; exact h
  | add e =>
    simp only [stepP] at hs
    split at hs
    · rename_i ps hp
      split at hs
      · rename_i ht; injection hs with hs; subst hs
        exact ⟨addParameter_inv algos _ _ e h.1 hp, ht⟩
      · cases hs
    · injection hs with hs; subst hs; exact h
  | dump =>
    simp only [stepP] at hs
    injection hs with hs; subst hs; exact h

theorem runP_good (algos : List String) : ∀ (ops : List POp) (s s' : PState), GoodState algos s →
    runP algos s ops = some s' → GoodState algos s'
  | [], s, s', h, hr => by simp only [runP] at hr; injection hr with hr; subst hr; exact h
  | op :: ops, s, s', h, hr => by
    simp only [runP] at hr
    split at hr
    · rename_i q hq
      exact runP_good algos ops q s' (stepP_good algos s q op h hq) hr
    · cases hr

end Params
