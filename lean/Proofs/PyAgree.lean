/- C01 clause (b): where the pure-Python evaluator returns a number, it is the mathematical value.
`semPy` short-circuits `And`/`Or` and returns 0 for `0 ** c`; it reads parameters at their
starting values.  Relational proof: whenever both evaluations succeed on children results that
agree wherever both are defined, the two values are equal. -/
import Model.Expr
import Proofs.Lazy
import Proofs.NumReal
import Proofs.ExprReal

namespace Expr
open Num

variable {α : Type} [NumOps α]
set_option linter.unusedSectionVars false

/-- the two results are equal whenever both are numbers -/
def Agree (r r' : Res α) : Prop := ∀ x y, r = .ok x → r' = .ok y → x = y

abbrev AgreeL (rs rs' : List (Res α)) : Prop := List.Forall₂ Agree rs rs'

theorem agree_nth {rs rs' : List (Res α)} (h : AgreeL rs rs') (i : Nat) : Agree (nth rs i) (nth rs' i) := by
  induction h generalizing i with
  | nil => intro x y hx _; simp [nth] at hx
  | cons hab _ ih =>
    cases i with
    | zero => simpa [nth] using hab
    | succ k => simpa [nth] using ih k

theorem agreeL_drop {rs rs' : List (Res α)} (h : AgreeL rs rs') (k : Nat) : AgreeL (rs.drop k) (rs'.drop k) := by
  induction h generalizing k with
  | nil => simp
  | cons hab ht ih =>
    cases k with
    | zero => exact List.Forall₂.cons hab ht
    | succ j => simpa using ih j

theorem agreeL_take {rs rs' : List (Res α)} (h : AgreeL rs rs') (k : Nat) : AgreeL (rs.take k) (rs'.take k) := by
  induction h generalizing k with
  | nil => simp
  | cons hab _ ih =>
    cases k with
    | zero => simp
    | succ j => simpa using List.Forall₂.cons hab (ih j)

theorem bin_agree {rs rs' : List (Res α)} (h : AgreeL rs rs') (f : α → α → α) (v w : α)
    (hv : bin rs f = .ok v) (hw : bin rs' f = .ok w) : v = w := by
  unfold bin at hv hw
  obtain ⟨a, ha, hv⟩ := bind_ok hv
  obtain ⟨b, hb, hv⟩ := bind_ok hv
  obtain ⟨a', ha', hw⟩ := bind_ok hw
  obtain ⟨b', hb', hw⟩ := bind_ok hw
  have e1 := agree_nth h 0 a a' ha ha'
  have e2 := agree_nth h 1 b b' hb hb'
  subst e1 e2
  split at hv <;> split at hw <;> simp_all
  all_goals (cases hv; cases hw; rfl)

theorem un_agree {rs rs' : List (Res α)} (h : AgreeL rs rs') (f : α → α) (v w : α)
    (hv : un rs f = .ok v) (hw : un rs' f = .ok w) : v = w := by
  unfold un at hv hw
  obtain ⟨a, ha, hv⟩ := bind_ok hv
  obtain ⟨a', ha', hw⟩ := bind_ok hw
  have e1 := agree_nth h 0 a a' ha ha'
  subst e1
  split at hv <;> split at hw <;> simp_all
  all_goals (cases hv; cases hw; rfl)

theorem sumRes_agree {rs rs' : List (Res α)} (h : AgreeL rs rs') :
    ∀ v w, sumRes rs = .ok v → sumRes rs' = .ok w → v = w := by
  induction h with
  | nil => intro v w hv hw; simp [sumRes] at hv hw; cases hv; cases hw; rfl
  | cons hab _ ih =>
    intro v w hv hw
    unfold sumRes at hv hw
    obtain ⟨a, ha, hv⟩ := bind_ok hv
    obtain ⟨s, hs, hv⟩ := bind_ok hv
    obtain ⟨a', ha', hw⟩ := bind_ok hw
    obtain ⟨s', hs', hw⟩ := bind_ok hw
    have e1 := hab a a' ha ha'
    have e2 := ih s s' hs hs'
    subst e1 e2
    simp [pure, Except.pure] at hv hw
    rw [← hv, ← hw]

theorem condSumRes_agree : ∀ (n : Nat) (rs rs' : List (Res α)), rs.length ≤ n → AgreeL rs rs' →
    ∀ v w, condSumRes rs = .ok v → condSumRes rs' = .ok w → v = w := by
  intro n
  induction n with
  | zero =>
    intro rs rs' hl h v w hv hw
    cases h with
    | nil => simp [condSumRes] at hv hw; cases hv; cases hw; rfl
    | cons _ _ => simp at hl
  | succ n ih =>
    intro rs rs' hl h v w hv hw
    cases h with
    | nil => simp [condSumRes] at hv hw; cases hv; cases hw; rfl
    | cons hc ht =>
      cases ht with
      | nil => simp [condSumRes] at hv
      | cons htm hrest =>
        unfold condSumRes at hv hw
        obtain ⟨cv, hcv, hv⟩ := bind_ok hv
        obtain ⟨s, hs, hv⟩ := bind_ok hv
        obtain ⟨cv', hcv', hw⟩ := bind_ok hw
        obtain ⟨s', hs', hw⟩ := bind_ok hw
        have e1 := hc cv cv' hcv hcv'
        have e2 := ih _ _ (by simp at hl; omega) hrest s s' hs hs'
        subst e1 e2
        by_cases hz : isZero cv = true
        · simp [hz, pure, Except.pure] at hv hw
          rw [← hv, ← hw]
        · simp only [hz, Bool.false_eq_true, ↓reduceIte] at hv hw
          obtain ⟨tv, htv, hv⟩ := bind_ok hv
          obtain ⟨tv', htv', hw⟩ := bind_ok hw
          have e3 := htm tv tv' htv htv'
          subst e3
          simp [pure, Except.pure] at hv hw
          rw [← hv, ← hw]

theorem logitDenom_agree (shift : α) : ∀ (us us' avs avs' : List (Res α)), AgreeL us us' → AgreeL avs avs' →
    ∀ v w, logitDenom shift us avs = .ok v → logitDenom shift us' avs' = .ok w → v = w := by
  intro us us' avs avs' hu
  induction hu generalizing avs avs' with
  | nil =>
    intro ha v w hv hw
    cases ha with
    | nil => simp [logitDenom] at hv hw; cases hv; cases hw; rfl
    | cons _ _ => simp [logitDenom] at hv
  | cons huu _ ih =>
    intro ha v w hv hw
    cases ha with
    | nil => simp [logitDenom] at hv
    | cons haa hat =>
      unfold logitDenom at hv hw
      obtain ⟨a, ha', hv⟩ := bind_ok hv
      obtain ⟨s, hs, hv⟩ := bind_ok hv
      obtain ⟨a2, ha2, hw⟩ := bind_ok hw
      obtain ⟨s2, hs2, hw⟩ := bind_ok hw
      have e1 := haa a a2 ha' ha2
      have e2 := ih _ _ hat s s2 hs hs2
      subst e1 e2
      by_cases hz : isZero a = true
      · simp [hz, pure, Except.pure] at hv hw
        rw [← hv, ← hw]
      · simp only [hz, Bool.false_eq_true, ↓reduceIte] at hv hw
        obtain ⟨uv, huv, hv⟩ := bind_ok hv
        obtain ⟨uv', huv', hw⟩ := bind_ok hw
        have e3 := huu uv uv' huv huv'
        subst e3
        simp [pure, Except.pure] at hv hw
        rw [← hv, ← hw]

theorem linUtilZip_agree : ∀ (bs bs' vs vs' : List (Res α)), AgreeL bs bs' → AgreeL vs vs' →
    ∀ v w, linUtilZip bs vs = .ok v → linUtilZip bs' vs' = .ok w → v = w := by
  intro bs bs' vs vs' hb
  induction hb generalizing vs vs' with
  | nil =>
    intro hvs v w hv hw
    cases hvs with
    | nil => simp [linUtilZip] at hv hw; cases hv; cases hw; rfl
    | cons _ _ => simp [linUtilZip] at hv
  | cons hab _ ih =>
    intro hvs v w hv hw
    cases hvs with
    | nil => simp [linUtilZip] at hv
    | cons hvv hvt =>
      unfold linUtilZip at hv hw
      obtain ⟨b1, hb1, hv⟩ := bind_ok hv
      obtain ⟨v1, hv1, hv⟩ := bind_ok hv
      obtain ⟨s1, hs1, hv⟩ := bind_ok hv
      obtain ⟨b2, hb2, hw⟩ := bind_ok hw
      obtain ⟨v2, hv2, hw⟩ := bind_ok hw
      obtain ⟨s2, hs2, hw⟩ := bind_ok hw
      have e1 := hab b1 b2 hb1 hb2
      have e2 := hvv v1 v2 hv1 hv2
      have e3 := ih _ _ hvt s1 s2 hs1 hs2
      subst e1 e2 e3
      simp [pure, Except.pure] at hv hw
      rw [← hv, ← hw]

/-- agreement of the common semantics with itself on agreeing children -/
theorem semCommon_agree (n : Node α) (env : Env α) {rs rs' : List (Res α)} (h : AgreeL rs rs') (v w : α)
    (hv : semCommon n env rs = .ok v) (hw : semCommon n env rs' = .ok w) : v = w := by
  obtain ⟨k, c, nm, val, ks, ms, f⟩ := n
  have hlen := List.Forall₂.length_eq h
  cases k
  case elem =>
    simp only [semCommon, elemRes] at hv hw
    cases h0 : nth rs 0 with
    | error e => rw [h0] at hv; simp at hv
    | ok key =>
      cases h0' : nth rs' 0 with
      | error e => rw [h0'] at hw; simp at hw
      | ok key' =>
        have e1 := agree_nth h 0 key key' h0 h0'
        subst e1
        rw [h0] at hv; rw [h0'] at hw
        simp only [] at hv hw
        rw [← hlen] at hw
        split at hv
        · exact absurd hv (by simp)
        · rename_i hl
          simp only [hl, ↓reduceIte] at hw
          split at hv
          · exact absurd hv (by simp)
          · rename_i i hi
            rw [hi] at hw
            simp only [] at hw
            exact agree_nth h (i + 1) v w hv hw
  case multSum => exact sumRes_agree h v w hv hw
  case condSum => exact condSumRes_agree rs.length rs rs' (Nat.le_refl _) h v w hv hw
  case linUtil =>
    simp only [semCommon, linUtilRes] at hv hw
    rw [← hlen] at hw
    split at hv
    · rename_i hl
      rw [if_pos hl] at hw
      exact linUtilZip_agree _ _ _ _ (agreeL_take h _) (agreeL_drop h _) v w hv hw
    · exact absurd hv (by simp)
  case logLogit =>
    simp only [semCommon, logLogitRes] at hv hw
    cases h0 : nth rs 0 with
    | error e => rw [h0] at hv; simp at hv
    | ok ch =>
      cases h0' : nth rs' 0 with
      | error e => rw [h0'] at hw; simp at hw
      | ok ch' =>
        have e1 := agree_nth h 0 ch ch' h0 h0'
        subst e1
        rw [h0] at hv; rw [h0'] at hw
        simp only [] at hv hw
        rw [← hlen] at hw
        split at hv
        · exact absurd hv (by simp)
        · rename_i hl
          simp only [hl, ↓reduceIte] at hw
          split at hv
          · exact absurd hv (by simp)
          · rename_i i hi
            rw [hi] at hw
            simp only [] at hw
            cases h1 : nth rs (1 + ks.length + i) with
            | error e => rw [h1] at hv; simp at hv
            | ok avc =>
              cases h1' : nth rs' (1 + ks.length + i) with
              | error e => rw [h1'] at hw; simp at hw
              | ok avc' =>
                have e2 := agree_nth h _ avc avc' h1 h1'
                subst e2
                rw [h1] at hv; rw [h1'] at hw
                simp only [] at hv hw
                split at hv
                · exact absurd hv (by simp)
                · rename_i hz
                  simp only [hz, Bool.false_eq_true, ↓reduceIte] at hw
                  cases h2 : nth rs (1 + i) with
                  | error e => rw [h2] at hv; simp at hv
                  | ok vc =>
                    cases h2' : nth rs' (1 + i) with
                    | error e => rw [h2'] at hw; simp at hw
                    | ok vc' =>
                      have e3 := agree_nth h _ vc vc' h2 h2'
                      subst e3
                      rw [h2] at hv; rw [h2'] at hw
                      simp only [] at hv hw
                      cases h3 : logitDenom vc ((rs.drop 1).take ks.length) (rs.drop (1 + ks.length)) with
                      | error e => rw [h3] at hv; simp at hv
                      | ok den =>
                        cases h3' : logitDenom vc ((rs'.drop 1).take ks.length) (rs'.drop (1 + ks.length)) with
                        | error e => rw [h3'] at hw; simp at hw
                        | ok den' =>
                          have e4 := logitDenom_agree vc _ _ _ _ (agreeL_take (agreeL_drop h 1) _) (agreeL_drop h _) den den' h3 h3'
                          subst e4
                          rw [h3] at hv; rw [h3'] at hw
                          cases hv; cases hw; rfl
  all_goals first
    | (simp only [semCommon, pure, Except.pure] at hv hw; cases hv; cases hw; rfl)
    | exact bin_agree h _ v w hv hw
    | exact un_agree h _ v w hv hw

end Expr

namespace Expr

theorem boolNum_real (b : Bool) : (boolNum b : ℝ) = if b then 1 else 0 := by
  unfold boolNum; split <;> simp

/-- Python evaluator vs mathematical value on one node (ℝ) -/
theorem semPy_semMath_agree (n : Node ℝ) (env : Env ℝ)
    (hb : n.kind = .beta → env.beta n.name = n.value) (hp : n.kind = .powConst → n.value ≠ 0)
    {rs rs' : List (Res ℝ)} (h : AgreeL rs rs') (v w : ℝ)
    (hv : semPy n env rs = .ok v) (hw : semMath n env rs' = .ok w) : v = w := by
  obtain ⟨k, c, nm, val, ks, ms, f⟩ := n
  have hlen := List.Forall₂.length_eq h
  cases k
  case var => simp [semPy] at hv
  case normalCdf => simp [semPy] at hv
  case belongsTo => simp [semPy] at hv
  case linUtil => simp [semPy] at hv
  case beta =>
    simp only [semPy, semMath, semCommon, pure, Except.pure] at hv hw
    cases hv; cases hw
    exact (hb rfl).symm
  case powConst =>
    simp only [semPy, semMath, semCommon, un] at hv hw
    obtain ⟨a, ha, hv⟩ := bind_ok hv
    obtain ⟨a', ha', hw⟩ := bind_ok hw
    have e1 := agree_nth h 0 a a' ha ha'
    subst e1
    split at hv
    · split at hw
      · simp only [pure, Except.pure] at hv hw
        cases hv; cases hw
        by_cases hz : isZero a = true
        · have ha0 : a = 0 := (isZero_real a).mp hz
          simp only [hz, ↓reduceIte, NumR.pow_real]
          rw [ha0, Real.zero_rpow (hp rfl)]
          exact NumR.ofNat_real_zero
        · simp [hz]
      · exact absurd hw (by simp)
    · exact absurd hv (by simp)
  case and =>
    simp only [semPy, semMath, semCommon, bin] at hv hw
    obtain ⟨a, ha, hv⟩ := bind_ok hv
    obtain ⟨a', ha', hw⟩ := bind_ok hw
    obtain ⟨b', hb', hw⟩ := bind_ok hw
    have e1 := agree_nth h 0 a a' ha ha'
    subst e1
    rw [← hlen] at hw
    split at hv
    · exact absurd hv (by simp)
    · rename_i hl
      have hl2 : rs.length = 2 := by simpa using hl
      simp only [hl2, ↓reduceIte, pure, Except.pure] at hw
      cases hw
      by_cases hz : isZero a = true
      · simp only [hz, ↓reduceIte, pure, Except.pure] at hv
        cases hv
        simp [hz, boolNum]
      · simp only [hz, Bool.false_eq_true, ↓reduceIte] at hv
        obtain ⟨b, hb1, hv⟩ := bind_ok hv
        have e2 := agree_nth h 1 b b' hb1 hb'
        subst e2
        simp only [pure, Except.pure] at hv
        cases hv
        simp [hz]
  case or =>
    simp only [semPy, semMath, semCommon, bin] at hv hw
    obtain ⟨a, ha, hv⟩ := bind_ok hv
    obtain ⟨a', ha', hw⟩ := bind_ok hw
    obtain ⟨b', hb', hw⟩ := bind_ok hw
    have e1 := agree_nth h 0 a a' ha ha'
    subst e1
    rw [← hlen] at hw
    split at hv
    · exact absurd hv (by simp)
    · rename_i hl
      have hl2 : rs.length = 2 := by simpa using hl
      simp only [hl2, ↓reduceIte, pure, Except.pure] at hw
      cases hw
      by_cases hz : isZero a = true
      · simp only [hz, Bool.not_true, Bool.false_eq_true, ↓reduceIte] at hv
        obtain ⟨b, hb1, hv⟩ := bind_ok hv
        have e2 := agree_nth h 1 b b' hb1 hb'
        subst e2
        simp only [pure, Except.pure] at hv
        cases hv
        simp [hz]
      · simp only [hz, Bool.not_false, ↓reduceIte, pure, Except.pure] at hv
        cases hv
        simp [hz, boolNum]
  all_goals (simp only [semPy, semMath] at hv hw; exact semCommon_agree _ env h v w hv hw)

/-- starting values are the valuation, and no `e ** 0` -/
def PyDomain (d : Dag ℝ) (env : Env ℝ) : Prop :=
  ∀ (k : Nat) (n : Node ℝ), d[k]? = some n →
    (n.kind = .beta → env.beta n.name = n.value) ∧ (n.kind = .powConst → n.value ≠ 0)

/-- **where the Python evaluator returns a number it is the mathematical value** -/
theorem evalN_py_agree (d : Dag ℝ) (env : Env ℝ) (hd : PyDomain d env) :
    ∀ fuel k v w, evalN semPy d env fuel k = .ok v → evalN semMath d env fuel k = .ok w → v = w := by
  intro fuel
  induction fuel with
  | zero => intro k v w hv; simp [evalN] at hv
  | succ fuel ih =>
    intro k v w hv hw
    rw [evalN] at hv hw
    cases hn : d[k]? with
    | none => rw [hn] at hv; simp at hv
    | some n =>
      rw [hn] at hv hw
      simp only [] at hv hw
      have href : AgreeL (n.children.map (evalN semPy d env fuel)) (n.children.map (evalN semMath d env fuel)) := by
        show List.Forall₂ Agree _ _
        rw [List.forall₂_map_left_iff, List.forall₂_map_right_iff]
        exact List.forall₂_same.mpr (fun c _ x y hx hy => ih c x y hx hy)
      exact semPy_semMath_agree n env (hd k n hn).1 (hd k n hn).2 href v w hv hw

end Expr
