/- Lemmas for C03: renaming of parameters, values by name, duplicates. -/
import Model.Expr
import Model.IdManager
import Proofs.IdManager
import Proofs.Engine

namespace IdM

variable {ν : Type} [LinearOrder ν]

/-- value of the free vector at the position of a name = dictionary value, else starting value -/
theorem freeValues_at {α} [Inhabited α] (t : Table ν) (decls : List (Decl ν α)) (dict : ν → Option α)
    (n : ν) (i : Nat) (hi : indexOf n t.free = some i) (dflt : α) :
    (freeValues t decls dict).getD i dflt =
      (dict n).getD (((lookupLast decls false n).map (·.init)).getD default) := by
  unfold freeValues
  exact indexOf_getD_map n
    (fun n => (dict n).getD (((lookupLast decls false n).map Decl.init).getD default)) dflt t.free i hi

theorem fixedValues_at {α} [Inhabited α] (t : Table ν) (decls : List (Decl ν α))
    (n : ν) (i : Nat) (hi : indexOf n t.fixed = some i) (dflt : α) :
    (fixedValues t decls).getD i dflt = ((lookupLast decls true n).map (·.init)).getD default := by
  unfold fixedValues
  exact indexOf_getD_map n
    (fun n => ((lookupLast decls true n).map Decl.init).getD default) dflt t.fixed i hi

theorem bounds_at {α} (t : Table ν) (decls : List (Decl ν α)) (n : ν) (i : Nat)
    (hi : indexOf n t.free = some i) :
    (bounds t decls).getD i (none, none) =
      match lookupLast decls false n with
      | some d => (d.lb, d.ub)
      | none => (none, none) := by
  unfold bounds
  exact indexOf_getD_map n (fun n => match lookupLast decls false n with
      | some d => (d.lb, d.ub)
      | none => (none, none)) (none, none) t.free i hi

/-- renaming a declaration -/
def Decl.rename {α} {μ : Type} (ρ : ν → μ) (d : Decl ν α) : Decl μ α :=
  { name := ρ d.name, fixed := d.fixed, init := d.init, lb := d.lb, ub := d.ub }

theorem find?_map_rename {α} {μ : Type} [DecidableEq μ] (ρ : ν → μ) (hρ : Function.Injective ρ)
    (fixed : Bool) (n : ν) (l : List (Decl ν α)) :
    (l.map (Decl.rename ρ)).find? (fun d => d.name = ρ n && d.fixed == fixed) =
      (l.find? (fun d => d.name = n && d.fixed == fixed)).map (Decl.rename ρ) := by
  induction l with
  | nil => rfl
  | cons d t ih =>
    simp only [List.map_cons, List.find?_cons]
    have : (decide ((Decl.rename ρ d).name = ρ n) && (Decl.rename ρ d).fixed == fixed) =
        (decide (d.name = n) && d.fixed == fixed) := by
      simp only [Decl.rename]
      congr 1
      by_cases h : d.name = n
      · simp [h]
      · have : ρ d.name ≠ ρ n := fun e => h (hρ e)
        simp [h, this]
    rw [this]
    split
    · rfl
    · exact ih

theorem lookupLast_rename {α} {μ : Type} [LinearOrder μ] (ρ : ν → μ) (hρ : Function.Injective ρ)
    (decls : List (Decl ν α)) (fixed : Bool) (n : ν) :
    lookupLast (decls.map (Decl.rename ρ)) fixed (ρ n) = (lookupLast decls fixed n).map (Decl.rename ρ) := by
  unfold lookupLast
  rw [← List.map_reverse]
  exact find?_map_rename ρ hρ fixed n decls.reverse

/-! ### duplicates -/

theorem nodup_append_iff_disjoint (a b : List ν) :
    (a ++ b).Nodup ↔ a.Nodup ∧ b.Nodup ∧ ∀ x, x ∈ a → x ∉ b := by
  rw [List.nodup_append]
  constructor
  · rintro ⟨h1, h2, h3⟩
    exact ⟨h1, h2, fun x hx hxb => h3 x hx x hxb rfl⟩
  · rintro ⟨h1, h2, h3⟩
    exact ⟨h1, h2, fun x hx y hy e => h3 x hx (e ▸ hy)⟩

theorem ite_error_iff {ε β : Type} (b : Bool) (x : β) (y : ε) :
    (∃ d, (if b = true then (Except.ok x : Except ε β) else Except.error y) = Except.error d) ↔
      ¬ b = true := by
  cases b <;> simp

theorem mapM_spec {α} (f : ν → Option α) : ∀ (xs : List ν) (l : List α), xs.mapM f = some l →
    l.length = xs.length ∧ ∀ (i : Nat) (n : ν), xs[i]? = some n → l[i]? = f n := by
  intro xs
  induction xs with
  | nil => intro l h; simp at h; subst h; simp
  | cons x t ih =>
    intro l h
    simp only [List.mapM_cons] at h
    cases hx : f x with
    | none => simp [hx] at h
    | some b =>
      cases ht : t.mapM f with
      | none => simp [hx, ht] at h
      | some bs =>
        simp [hx, ht] at h
        subst h
        obtain ⟨h1, h2⟩ := ih bs ht
        refine ⟨by simp [h1], ?_⟩
        intro i n hi
        cases i with
        | zero => simp at hi; subst hi; simp [hx]
        | succ j => simp at hi ⊢; exact h2 j n hi

end IdM

namespace Expr

variable {α : Type} [NumOps α]

/-- rename the parameters of a node -/
def Node.rename (ρ : String → String) (n : Node α) : Node α :=
  if n.kind = .beta then { n with name := ρ n.name } else n

def renameDag (ρ : String → String) (d : Dag α) : Dag α := d.map (Node.rename ρ)

/-- a semantics that reads a parameter only through `env.beta name` (or not at all) and a
variable through `env.var name` -/
def NameFaithful (sem : Sem α) : Prop :=
  ∀ (ρ : String → String) (n : Node α) (env env' : Env α) (rs : List (Res α)),
    (∀ m, env'.beta (ρ m) = env.beta m) → env'.var = env.var →
    sem (Node.rename ρ n) env' rs = sem n env rs

theorem semCommon_faithful : NameFaithful (semCommon (α := α)) := by
  intro ρ n env env' rs hb hv
  obtain ⟨k, c, nm, v, ks, ms, f⟩ := n
  cases k <;> simp [Node.rename, semCommon, hb, hv]

theorem semMath_faithful : NameFaithful (semMath (α := α)) := semCommon_faithful

theorem semEngine_faithful : NameFaithful (semEngine (α := α)) := by
  intro ρ n env env' rs hb hv
  obtain ⟨k, c, nm, v, ks, ms, f⟩ := n
  cases k <;> simp [Node.rename, semEngine, semCommon, hb, hv]

theorem evalN_rename (sem : Sem α) (hs : NameFaithful sem) (ρ : String → String) (d : Dag α)
    (env env' : Env α) (hb : ∀ m, env'.beta (ρ m) = env.beta m) (hv : env'.var = env.var) :
    ∀ fuel k, evalN sem (renameDag ρ d) env' fuel k = evalN sem d env fuel k := by
  intro fuel
  induction fuel with
  | zero => intro k; rfl
  | succ fuel ih =>
    intro k
    rw [evalN, evalN]
    unfold renameDag
    rw [List.getElem?_map]
    cases hd : d[k]? with
    | none => rfl
    | some n =>
      simp only [Option.map_some]
      have hch : (Node.rename ρ n).children = n.children := by
        unfold Node.rename; split <;> rfl
      rw [hch, hs ρ n env env' _ hb hv]
      congr 1
      apply List.map_congr_left
      intro c _
      exact ih c

end Expr
