/- Lemmas about the reporting layer (Model/ResultsByName.lean): everything a results object reports
under a name is the entry found at the position of that name. -/
import Model.ResultsByName
import Proofs.IdManager

namespace IdM

/-! ### `mapM` in `Option` -/

theorem mapM_gen {β γ} (f : β → Option γ) : ∀ (xs : List β) (l : List γ), xs.mapM f = some l →
    l.length = xs.length ∧ ∀ (i : Nat) (n : β), xs[i]? = some n → l[i]? = f n := by
  intro xs
  induction xs with
  | nil => intro l h; simp at h; subst h; simp
  | cons x t ih =>
    intro l h
    simp only [List.mapM_cons] at h
    cases hx : f x with
    | none => simp [hx] at h
    | some b =>
      cases ht : t.mapM f with
      | none => simp [hx, ht] at h
      | some bs =>
        simp [hx, ht] at h
        subst h
        obtain ⟨h1, h2⟩ := ih bs ht
        refine ⟨by simp [h1], ?_⟩
        intro i n hi
        cases i with
        | zero => simp at hi; subst hi; simp [hx]
        | succ j => simp at hi ⊢; exact h2 j n hi

/-- every output comes from an input, at the same position -/
theorem mapM_mem {β γ} (f : β → Option γ) (xs : List β) (l : List γ) (h : xs.mapM f = some l)
    (q : γ) (hq : q ∈ l) : ∃ p ∈ xs, f p = some q := by
  obtain ⟨hl, hs⟩ := mapM_gen f xs l h
  obtain ⟨i, hi, rfl⟩ := List.mem_iff_getElem.mp hq
  have hi' : i < xs.length := hl ▸ hi
  refine ⟨xs[i], List.getElem_mem hi', ?_⟩
  rw [← hs i xs[i] (List.getElem?_eq_getElem hi'), List.getElem?_eq_getElem hi]

/-- every input has its output -/
theorem mapM_mem' {β γ} (f : β → Option γ) (xs : List β) (l : List γ) (h : xs.mapM f = some l)
    (p : β) (hp : p ∈ xs) : ∃ q ∈ l, f p = some q := by
  obtain ⟨hl, hs⟩ := mapM_gen f xs l h
  obtain ⟨i, hi, rfl⟩ := List.mem_iff_getElem.mp hp
  have hi' : i < l.length := hl ▸ hi
  refine ⟨l[i], List.getElem_mem hi', ?_⟩
  rw [← hs i xs[i] (List.getElem?_eq_getElem hi), List.getElem?_eq_getElem hi']

theorem getElem?_mapIdxFrom {β γ} (f : Nat → β → γ) : ∀ (l : List β) (s i : Nat),
    (mapIdxFrom f s l)[i]? = (l[i]?).map (f (s + i)) := by
  intro l
  induction l with
  | nil => intro s i; simp [mapIdxFrom]
  | cons b t ih =>
    intro s i
    cases i with
    | zero => simp [mapIdxFrom]
    | succ j =>
      simp only [mapIdxFrom, List.getElem?_cons_succ, ih]
      congr 2
      omega

theorem mem_mapIdxFrom {β γ} (f : Nat → β → γ) (l : List β) (s : Nat) (q : γ)
    (hq : q ∈ mapIdxFrom f s l) : ∃ i b, l[i]? = some b ∧ q = f (s + i) b := by
  obtain ⟨i, hi⟩ := List.mem_iff_getElem?.mp hq
  rw [getElem?_mapIdxFrom] at hi
  cases hb : l[i]? with
  | none => simp [hb] at hi
  | some b => simp [hb] at hi; exact ⟨i, b, hb, hi.symm⟩

variable {ν : Type} [LinearOrder ν]

/-! ### the by-name entry -/

theorem byName_at {α} (names : List ν) (M : List (List α)) (a b : ν) (i j : Nat)
    (hi : indexOf a names = some i) (hj : indexOf b names = some j) :
    byName names M a b = mget M i j := by
  simp [byName, hi, hj]

/-! ### `RawResults.__init__` -/

theorem rawBetas_spec {α} (t : Table ν) (decls : List (Decl ν α)) (x : List α) (bs : List (RBeta ν α))
    (h : rawBetas t decls x = some bs) :
    bs.length = min x.length t.free.length ∧
    ∀ (k : Nat) (v : α) (n : ν), x[k]? = some v → t.free[k]? = some n →
      ∃ bd, boundsOn t decls n = some bd ∧
        bs[k]? = some { name := n, value := v, lb := bd.1, ub := bd.2 } := by
  obtain ⟨hl, hs⟩ := mapM_gen _ _ _ h
  refine ⟨by simpa using hl, ?_⟩
  intro k v n hx hn
  have hz : (x.zip t.free)[k]? = some (v, n) := by
    simp [List.getElem?_zip_eq_some, hx, hn]
  have := hs k (v, n) hz
  simp only at this
  cases hb : boundsOn t decls n with
  | none =>
    rw [hb] at this
    have hk : k < bs.length := by
      rw [hl]; exact (List.getElem?_eq_some_iff.mp hz).1
    simp [List.getElem?_eq_getElem hk] at this
  | some bd =>
    rw [hb] at this
    exact ⟨bd, rfl, by simpa using this⟩

/-! ### requests by name -/

theorem getBetaValues_spec {α} (names : List ν) (bs : List (RBeta ν α)) (req : Option (List ν))
    (l : List (ν × α)) (h : getBetaValues names bs req = some l) :
    l.map (·.1) = req.getD names ∧
    ∀ p ∈ l, ∃ i b, indexOf p.1 names = some i ∧ bs[i]? = some b ∧ b.value = p.2 := by
  unfold getBetaValues at h
  obtain ⟨hl, hs⟩ := mapM_gen _ _ _ h
  constructor
  · apply List.ext_getElem?
    intro k
    rw [List.getElem?_map]
    cases hk : (req.getD names)[k]? with
    | none =>
      have : l.length ≤ k := by rw [hl]; exact List.getElem?_eq_none_iff.mp hk
      simp [List.getElem?_eq_none_iff.mpr this]
    | some n =>
      have h1 := hs k n hk
      cases hi : indexOf n names with
      | none =>
        have hk' : k < l.length := by rw [hl]; exact (List.getElem?_eq_some_iff.mp hk).1
        simp [hi, List.getElem?_eq_getElem hk'] at h1
      | some i =>
        cases hb : bs[i]? with
        | none =>
          have hk' : k < l.length := by rw [hl]; exact (List.getElem?_eq_some_iff.mp hk).1
          simp [hi, hb, List.getElem?_eq_getElem hk'] at h1
        | some b => simp [hi, hb] at h1; simp [h1]
  · intro p hp
    obtain ⟨n, -, hn⟩ := mapM_mem _ _ _ h p hp
    cases hi : indexOf n names with
    | none => simp [hi] at hn
    | some i =>
      cases hb : bs[i]? with
      | none => simp [hi, hb] at hn
      | some b =>
        simp [hi, hb] at hn
        subst hn
        exact ⟨i, b, hi, hb, rfl⟩

theorem sens_spec {α} (names req : List ν) (M : List (List α)) (out : List (List (ν × α)))
    (h : sens names req M = some out) :
    out.length = M.length ∧
    ∀ (r : Nat) (row : List α), M[r]? = some row →
      ∃ o, out[r]? = some o ∧ o.map (·.1) = req ∧
        ∀ p ∈ o, ∃ i, indexOf p.1 names = some i ∧ row[i]? = some p.2 := by
  unfold sens at h
  cases hidx : req.mapM (fun n => indexOf n names) with
  | none => simp [hidx] at h
  | some idx =>
    simp only [hidx, Option.bind_eq_bind, Option.bind_some] at h
    obtain ⟨hl, hs⟩ := mapM_gen _ _ _ h
    obtain ⟨hil, his⟩ := mapM_gen _ _ _ hidx
    refine ⟨hl, ?_⟩
    intro r row hr
    have h1 := hs r row hr
    cases hv : idx.mapM (fun i => row[i]?) with
    | none =>
      have hk : r < out.length := by rw [hl]; exact (List.getElem?_eq_some_iff.mp hr).1
      simp [hv, List.getElem?_eq_getElem hk] at h1
    | some vals =>
      obtain ⟨hvl, hvs⟩ := mapM_gen _ _ _ hv
      simp only [hv, Option.map_some] at h1
      refine ⟨req.zip vals, h1, ?_, ?_⟩
      · apply List.map_fst_zip
        omega
      · intro p hp
        obtain ⟨k, hk⟩ := List.mem_iff_getElem?.mp hp
        rw [List.getElem?_zip_eq_some] at hk
        obtain ⟨hk1, hk2⟩ := hk
        have hi := his k p.1 hk1
        cases hix : indexOf p.1 names with
        | none =>
          have hk' : k < idx.length := by rw [hil]; exact (List.getElem?_eq_some_iff.mp hk1).1
          simp [hix, List.getElem?_eq_getElem hk'] at hi
        | some i =>
          rw [hix] at hi
          refine ⟨i, rfl, ?_⟩
          rw [← hvs k i hi, hk2]

/-! ### statistics -/

section stats
variable {α : Type} [NumOps α]

theorem withStats_spec (big : α) (V R : List (List α)) (B : Option (List (List α)))
    (bs bs' : List (RBeta ν α)) (h : withStats big V R B bs = some bs') :
    bs'.length = bs.length ∧
    ∀ (i : Nat) (b : RBeta ν α), bs[i]? = some b →
      ∃ b' v r, bs'[i]? = some b' ∧ b'.name = b.name ∧ b'.value = b.value ∧ b'.lb = b.lb ∧ b'.ub = b.ub ∧
        mget V i i = some v ∧ b'.stdErr = some (diagStat big v) ∧
          b'.tTest = some (tOf big b.value (diagStat big v)) ∧
        mget R i i = some r ∧ b'.robStdErr = some (diagStat big r) ∧
          b'.robTTest = some (tOf big b.value (diagStat big r)) ∧
        (∀ Bm, B = some Bm → ∃ c, mget Bm i i = some c ∧ b'.bootStdErr = some (diagStat big c) ∧
          b'.bootTTest = some (tOf big b.value (diagStat big c))) ∧
        (B = none → b'.bootStdErr = b.bootStdErr) := by
  unfold withStats at h
  obtain ⟨hl, hs⟩ := mapM_gen _ _ _ h
  have hlen : (mapIdxFrom (fun i (b : RBeta ν α) => (i, b)) 0 bs).length = bs.length := by
    clear h hl hs
    generalize 0 = s
    induction bs generalizing s with
    | nil => simp [mapIdxFrom]
    | cons b t ih => simp [mapIdxFrom, ih]
  refine ⟨by rw [hl, hlen], ?_⟩
  intro i b hb
  have hz : (mapIdxFrom (fun i (b : RBeta ν α) => (i, b)) 0 bs)[i]? = some (i, b) := by
    rw [getElem?_mapIdxFrom, hb]; simp
  have h1 := hs i (i, b) hz
  have hk : i < bs'.length := by
    rw [hl, hlen]; exact (List.getElem?_eq_some_iff.mp hb).1
  simp only at h1
  cases hv : mget V i i with
  | none => simp [hv, List.getElem?_eq_getElem hk] at h1
  | some v =>
    cases hr : mget R i i with
    | none => simp [hv, hr, List.getElem?_eq_getElem hk] at h1
    | some r =>
      cases B with
      | none =>
        simp [hv, hr] at h1
        exact ⟨_, v, r, h1, rfl, rfl, rfl, rfl, rfl, rfl, rfl, rfl, rfl, rfl,
          (fun Bm hB => by cases hB), fun _ => rfl⟩
      | some Bm =>
        cases hc : mget Bm i i with
        | none => simp [hv, hr, hc, List.getElem?_eq_getElem hk] at h1
        | some c =>
          simp [hv, hr, hc] at h1
          exact ⟨_, v, r, h1, rfl, rfl, rfl, rfl, rfl, rfl, rfl, rfl, rfl, rfl,
            (fun Bm' hB => by cases hB; exact ⟨c, hc, rfl, rfl⟩), fun hB => by cases hB⟩

theorem secondOrder_spec (big : α) (names : List ν) (x : List α) (Ms : List (List (List α)))
    (tab : List ((ν × ν) × List (PairStat α))) (h : secondOrder big names x Ms = some tab) :
    (∀ e ∈ tab, ∃ i j, j < i ∧ i < x.length ∧ names[i]? = some e.1.1 ∧ names[j]? = some e.1.2 ∧
        e.2.length = Ms.length ∧
        ∀ (m : Nat) (M : List (List α)), Ms[m]? = some M →
          ∃ st, e.2[m]? = some st ∧ mget M i j = some st.cov ∧ calcTest big x M i j = some st.test) ∧
    (∀ i j, j < i → i < x.length → ∃ e ∈ tab, names[i]? = some e.1.1 ∧ names[j]? = some e.1.2) := by
  unfold secondOrder at h
  have key : ∀ (i j : Nat) (e : (ν × ν) × List (PairStat α)),
      secondOrderEntry big names x Ms (i, j) = some e →
      names[i]? = some e.1.1 ∧ names[j]? = some e.1.2 ∧ e.2.length = Ms.length ∧
        ∀ (m : Nat) (M : List (List α)), Ms[m]? = some M →
          ∃ st, e.2[m]? = some st ∧ mget M i j = some st.cov ∧ calcTest big x M i j = some st.test := by
    intro i j e he
    unfold secondOrderEntry at he
    cases ha : names[i]? with
    | none => simp [ha] at he
    | some a =>
      cases hb : names[j]? with
      | none => simp [ha, hb] at he
      | some b =>
        cases hst : (Ms.mapM fun M => pairStat big x M i j) with
        | none => simp [ha, hb, hst] at he
        | some st =>
          simp [ha, hb, hst] at he
          subst he
          obtain ⟨hl, hs⟩ := mapM_gen _ _ _ hst
          refine ⟨rfl, rfl, hl, ?_⟩
          intro m M hM
          have h1 := hs m M hM
          unfold pairStat at h1
          cases hc : mget M i j with
          | none =>
            have hk : m < st.length := by rw [hl]; exact (List.getElem?_eq_some_iff.mp hM).1
            simp [hc, List.getElem?_eq_getElem hk] at h1
          | some c =>
            cases ht : calcTest big x M i j with
            | none =>
              have hk : m < st.length := by rw [hl]; exact (List.getElem?_eq_some_iff.mp hM).1
              simp [hc, ht, List.getElem?_eq_getElem hk] at h1
            | some tt =>
              simp [hc, ht] at h1
              exact ⟨_, h1, rfl, rfl⟩
  constructor
  · intro e he
    obtain ⟨p, hp, hpe⟩ := mapM_mem _ _ _ h e he
    simp only [List.mem_flatMap, List.mem_range, List.mem_map] at hp
    obtain ⟨i, hi, j, hj, rfl⟩ := hp
    exact ⟨i, j, hj, hi, key i j e hpe⟩
  · intro i j hj hi
    have hp : (i, j) ∈ ((List.range x.length).flatMap fun i => (List.range i).map fun j => (i, j)) := by
      simp only [List.mem_flatMap, List.mem_range, List.mem_map]
      exact ⟨i, hi, j, hj, rfl⟩
    obtain ⟨e, he, hpe⟩ := mapM_mem' _ _ _ h (i, j) hp
    obtain ⟨h1, h2, -⟩ := key i j e hpe
    exact ⟨e, he, h1, h2⟩

end stats

/-! ### labelled matrices -/

theorem frame_spec {α} (bs : List ν) (M : List (List α)) (fr : List ((ν × ν) × α))
    (h : frame bs M = some fr) :
    (∀ e ∈ fr, ∃ i j, bs[i]? = some e.1.1 ∧ bs[j]? = some e.1.2 ∧ mget M i j = some e.2) ∧
    (∀ i j a b, bs[i]? = some a → bs[j]? = some b → ∃ v, ((a, b), v) ∈ fr ∧ mget M i j = some v) := by
  unfold frame at h
  constructor
  · intro e he
    obtain ⟨p, hp, hpe⟩ := mapM_mem _ _ _ h e he
    simp only [List.mem_flatMap] at hp
    obtain ⟨q, hq, hp⟩ := hp
    obtain ⟨i, a, hia, rfl⟩ := mem_mapIdxFrom _ _ _ _ hq
    obtain ⟨j, b, hjb, rfl⟩ := mem_mapIdxFrom _ _ _ _ hp
    simp only [Nat.zero_add] at hpe
    cases hm : mget M i j with
    | none => simp [hm] at hpe
    | some v =>
      simp [hm] at hpe
      subst hpe
      exact ⟨i, j, hia, hjb, hm⟩
  · intro i j a b hia hjb
    have hp : (i, a, j, b) ∈ ((mapIdxFrom (fun i a => (i, a)) 0 bs).flatMap fun (i, a) =>
        (mapIdxFrom (fun j b => (i, a, j, b)) 0 bs)) := by
      simp only [List.mem_flatMap]
      refine ⟨(i, a), ?_, ?_⟩
      · apply List.mem_iff_getElem?.mpr
        exact ⟨i, by rw [getElem?_mapIdxFrom, hia]; simp⟩
      · apply List.mem_iff_getElem?.mpr
        exact ⟨j, by rw [getElem?_mapIdxFrom, hjb]; simp⟩
    obtain ⟨e, he, hpe⟩ := mapM_mem' _ _ _ h _ hp
    cases hm : mget M i j with
    | none => simp [hm] at hpe
    | some v =>
      simp [hm] at hpe
      subst hpe
      exact ⟨v, he, rfl⟩

end IdM
