/-
C14 — lemmas about the attribute model of the results object (Model/ResultsObj.lean):
`_calculate_stats` computes from the raw attributes only, so it is idempotent, commutes with
recording a file name, and re-creates on load exactly what was stored.
-/
import Model.ResultsObj

namespace ResObj

variable {V : Type}

theorem calcCore_raw (F : Attr → Obj V → Option V) (o : Obj V) (a : Attr) (h : kindOf a = .raw) :
    calcCore F o a = o a := by
  simp [calcCore, h]

theorem calcCore_ctorOnly (F : Attr → Obj V → Option V) (o : Obj V) (a : Attr) (h : kindOf a = .ctorOnly) :
    calcCore F o a = o a := by
  simp [calcCore, h]

theorem calcCore_file (F : Attr → Obj V → Option V) (o : Obj V) (a : Attr) (h : kindOf a = .file) :
    calcCore F o a = o a := by
  simp [calcCore, h]

/-- the guards are raw attributes -/
theorem guard_raw (a gd : Attr) (h : kindOf a = .general (some gd)) : kindOf gd = .raw := by
  cases a <;> simp [kindOf] at h <;> subst h <;> rfl

/-- what `_calculate_stats` computes from is untouched by it -/
theorem rawPart_calcCore (F : Attr → Obj V → Option V) (o : Obj V) : rawPart (calcCore F o) = rawPart o := by
  funext a
  unfold rawPart
  cases h : kindOf a <;> simp
  exact calcCore_raw F o a h

/-- the preconditions of `_calculate_stats` (attributes it needs, BHHH with a hessian) -/
def pre (o : Obj V) : Except Err Unit :=
  if needed.any (fun a => (o a).isAbsent) then .error .attributeError
  else if (o Attr.H).isVal && (o Attr.bootstrap).isAbsent then .error .attributeError
  else if (o Attr.H).isVal && !(o Attr.bhhh).isVal then .error .attributeError
  else .ok ()

theorem calcStats_eq (F : Attr → Obj V → Option V) (o : Obj V) :
    calcStats F o = (pre o).map fun _ => calcCore F o := by
  unfold calcStats pre
  split
  · rfl
  · split
    · rfl
    · split <;> rfl

/-- two objects with the same raw attributes meet (or miss) the preconditions together -/
theorem pre_congr (o o' : Obj V) (h : ∀ a, kindOf a = .raw → o' a = o a) : pre o' = pre o := by
  have e : ∀ a, kindOf a = .raw → o' a = o a := h
  unfold pre
  simp only [needed, List.any_cons, List.any_nil, Bool.or_false]
  rw [e Attr.nullLogLike rfl, e Attr.initLogLike rfl, e Attr.logLike rfl, e Attr.nparam rfl,
    e Attr.sampleSize rfl, e Attr.H rfl, e Attr.bootstrap rfl, e Attr.bhhh rfl]

theorem calcCore_general_none (F : Attr → Obj V → Option V) (o : Obj V) (a : Attr) (h : kindOf a = .general none) :
    calcCore F o a = .ofOption (F a (rawPart o)) := by
  simp [calcCore, h]

theorem calcCore_general_some (F : Attr → Obj V → Option V) (o : Obj V) (a gd : Attr)
    (h : kindOf a = .general (some gd)) :
    calcCore F o a = if (o gd).isVal then .ofOption (F a (rawPart o)) else .none := by
  simp [calcCore, h]

theorem calcCore_second (F : Attr → Obj V → Option V) (o : Obj V) (a : Attr) (h : kindOf a = .second) :
    calcCore F o a = if (o Attr.H).isVal then .ofOption (F a (rawPart o)) else o a := by
  simp [calcCore, h]

theorem calcCore_boot (F : Attr → Obj V → Option V) (o : Obj V) (a : Attr) (h : kindOf a = .boot) :
    calcCore F o a =
      if (o Attr.H).isVal && (o Attr.bootstrap).isVal then .ofOption (F a (rawPart o)) else o a := by
  simp [calcCore, h]

/-- the result for one attribute depends on the raw attributes, and on the attribute itself only
where `_calculate_stats` leaves it alone -/
theorem calcCore_congr (F : Attr → Obj V → Option V) (o o' : Obj V) (a : Attr)
    (hraw : ∀ b, kindOf b = .raw → o' b = o b) (ha : calcCore F o a = o a → o' a = o a) :
    calcCore F o' a = calcCore F o a := by
  have hr : rawPart o' = rawPart o := by
    funext b; unfold rawPart; cases hb : kindOf b <;> simp; exact hraw b hb
  cases h : kindOf a with
  | raw => rw [calcCore_raw F o' a h, calcCore_raw F o a h]; exact ha (calcCore_raw F o a h)
  | ctorOnly => rw [calcCore_ctorOnly F o' a h, calcCore_ctorOnly F o a h]; exact ha (calcCore_ctorOnly F o a h)
  | file => rw [calcCore_file F o' a h, calcCore_file F o a h]; exact ha (calcCore_file F o a h)
  | general gd =>
    cases gd with
    | none => rw [calcCore_general_none F o' a h, calcCore_general_none F o a h, hr]
    | some gd =>
      rw [calcCore_general_some F o' a gd h, calcCore_general_some F o a gd h, hr, hraw gd (guard_raw a gd h)]
  | second =>
    rw [calcCore_second F o' a h, calcCore_second F o a h, hr, hraw Attr.H rfl]
    cases hv : (o Attr.H).isVal
    · have := calcCore_second F o a h
      rw [hv] at this
      simp only [Bool.false_eq_true, if_false] at this ⊢
      exact ha this
    · simp
  | boot =>
    rw [calcCore_boot F o' a h, calcCore_boot F o a h, hr, hraw Attr.H rfl, hraw Attr.bootstrap rfl]
    cases hv : ((o Attr.H).isVal && (o Attr.bootstrap).isVal)
    · have := calcCore_boot F o a h
      rw [hv] at this
      simp only [Bool.false_eq_true, if_false] at this ⊢
      exact ha this
    · simp

/-- **`_calculate_stats` is idempotent** (as a function on attribute sets) -/
theorem calcCore_idem (F : Attr → Obj V → Option V) (o : Obj V) :
    calcCore F (calcCore F o) = calcCore F o := by
  funext a
  exact calcCore_congr F o (calcCore F o) a (fun b hb => calcCore_raw F o b hb) (fun h => h)

/-- an object on which `_calculate_stats` changes nothing -/
def Fixed (F : Attr → Obj V → Option V) (o : Obj V) : Prop := calcStats F o = .ok o

theorem fixed_of_calcStats (F : Attr → Obj V → Option V) (o o' : Obj V) (h : calcStats F o = .ok o') :
    Fixed F o' := by
  rw [calcStats_eq] at h
  unfold Fixed
  rw [calcStats_eq]
  cases hp : pre o with
  | error e => rw [hp] at h; cases h
  | ok u =>
    rw [hp] at h
    simp only [Except.map] at h
    injection h with h
    subst h
    rw [pre_congr o (calcCore F o) (fun a ha => calcCore_raw F o a ha), hp]
    simp [Except.map, calcCore_idem]

/-- recording a file name commutes with `_calculate_stats` -/
theorem fixed_set_file (F : Attr → Obj V → Option V) (o : Obj V) (f : FileAttr) (s : Slot V)
    (h : Fixed F o) : Fixed F (set o f.attr s) := by
  have hk : kindOf f.attr = .file := by cases f <;> rfl
  have hne : ∀ b, kindOf b = .raw → set o f.attr s b = o b := by
    intro b hb
    have : b ≠ f.attr := fun e => by rw [e, hk] at hb; cases hb
    simp [set, this]
  unfold Fixed at *
  rw [calcStats_eq] at *
  rw [pre_congr o _ hne]
  cases hp : pre o with
  | error e => rw [hp] at h; cases h
  | ok u =>
    rw [hp] at h
    simp only [Except.map] at h ⊢
    injection h with h
    congr 1
    funext a
    by_cases ha : a = f.attr
    · subst ha; rw [calcCore_file F _ _ hk]
    · have e1 : set o f.attr s a = o a := by simp [set, ha]
      rw [calcCore_congr F o _ a hne (fun _ => e1), e1]
      exact congrFun h a

theorem fixed_record (F : Attr → Obj V → Option V) (ws : List (FileAttr × V)) :
    ∀ o : Obj V, Fixed F o → Fixed F (record o ws) := by
  induction ws with
  | nil => intro o h; exact h
  | cons w ws ih => intro o h; exact ih _ (fixed_set_file F o w.1 (.val w.2) h)

end ResObj
