/- Helper lemmas for Props/C19.lean: the structural part (any number type). -/
import Model.Sampling
import Mathlib.Data.List.Perm.Subperm
import Mathlib.Data.List.Nodup

namespace Sampling

/-! ### the relations as propositions -/

/-- a partition accepted by `Partition` and `check_partition`, as far as the sampling protocol
needs it: segments are sets, pairwise disjoint, at least one alternative requested -/
structure ValidStrata (strata : List Stratum) : Prop where
  nodup : ∀ s ∈ strata, s.subset.Nodup
  disjoint : strata.Pairwise (fun a b => ∀ x, x ∈ a.subset → x ∉ b.subset)
  kpos : ∀ s ∈ strata, 1 ≤ s.k

/-- the property statement about one generated choice set -/
structure Protocol {α} [NumOps α] (strata : List Stratum) (chosen : Int) (rows : List (Int × α)) : Prop where
  first : ∃ lp rest, rows = (chosen, lp) :: rest
  nodup : (rows.map (·.1)).Nodup
  counts : ∀ s ∈ strata, (countIn s (rows.map (·.1)) : Int) = s.k
  member : ∀ r ∈ rows, ∃ s ∈ strata, r.1 ∈ s.subset ∧ r.2 = logProba s

structure MevProtocol {α} [NumOps α] (strata : List Stratum) (rows : List (Int × α)) : Prop where
  nodup : (rows.map (·.1)).Nodup
  counts : ∀ s ∈ strata, (countIn s (rows.map (·.1)) : Int) = s.k
  member : ∀ r ∈ rows, ∃ s ∈ strata, r.1 ∈ s.subset ∧ r.2 = mevWeight s

/-! ### the Boolean checker run by the driver decides the relation -/

theorem protocolB_iff {α} [NumOps α] (eqv : α → α → Bool) (heqv : ∀ a b, eqv a b = true ↔ a = b)
    (strata : List Stratum) (chosen : Int) (rows : List (Int × α)) :
    protocolB eqv strata chosen rows = true ↔ Protocol strata chosen rows := by
  unfold protocolB
  simp only [Bool.and_eq_true, decide_eq_true_eq, List.all_eq_true, List.any_eq_true,
    List.contains_iff_mem, heqv]
  constructor
  · rintro ⟨⟨⟨h1, h2⟩, h3⟩, h4⟩
    refine ⟨?_, h2, h3, ?_⟩
    · cases rows with
      | nil => simp at h1
      | cons r t =>
        obtain ⟨a, lp⟩ := r
        simp only [beq_iff_eq] at h1
        exact ⟨lp, t, by rw [h1]⟩
    · intro r hr
      obtain ⟨s, hs, h5, h6⟩ := h4 r hr
      exact ⟨s, hs, h5, h6⟩
  · intro h
    obtain ⟨lp, rest, hrows⟩ := h.first
    refine ⟨⟨⟨?_, h.nodup⟩, h.counts⟩, ?_⟩
    · rw [hrows]; simp
    · intro r hr
      obtain ⟨s, hs, h5, h6⟩ := h.member r hr
      exact ⟨s, hs, h5, h6⟩

theorem mevProtocolB_iff {α} [NumOps α] (eqv : α → α → Bool) (heqv : ∀ a b, eqv a b = true ↔ a = b)
    (strata : List Stratum) (rows : List (Int × α)) :
    mevProtocolB eqv strata rows = true ↔ MevProtocol strata rows := by
  unfold mevProtocolB
  simp only [Bool.and_eq_true, decide_eq_true_eq, List.all_eq_true, List.any_eq_true,
    List.contains_iff_mem, heqv]
  constructor
  · rintro ⟨⟨h2, h3⟩, h4⟩
    refine ⟨h2, h3, ?_⟩
    intro r hr
    obtain ⟨s, hs, h5, h6⟩ := h4 r hr
    exact ⟨s, hs, h5, h6⟩
  · intro h
    refine ⟨⟨h.nodup, h.counts⟩, ?_⟩
    intro r hr
    obtain ⟨s, hs, h5, h6⟩ := h.member r hr
    exact ⟨s, hs, h5, h6⟩

/-! ### `countIn` -/

theorem countIn_nil (s : Stratum) : countIn s [] = 0 := rfl

theorem countIn_append (s : Stratum) (a b : List Int) :
    countIn s (a ++ b) = countIn s a + countIn s b := by
  unfold countIn; simp [List.filter_append]

theorem countIn_cons (s : Stratum) (x : Int) (t : List Int) :
    countIn s (x :: t) = (if x ∈ s.subset then 1 else 0) + countIn s t := by
  unfold countIn
  by_cases h : x ∈ s.subset
  · simp [h]; omega
  · simp [h]

theorem countIn_all (s : Stratum) (l : List Int) (h : ∀ x ∈ l, x ∈ s.subset) :
    countIn s l = l.length := by
  induction l with
  | nil => rfl
  | cons x t ih =>
    rw [countIn_cons, ih (fun y hy => h y (List.mem_cons_of_mem _ hy))]
    simp [h x (List.mem_cons_self)]; omega

theorem countIn_none (s : Stratum) (l : List Int) (h : ∀ x ∈ l, x ∉ s.subset) :
    countIn s l = 0 := by
  induction l with
  | nil => rfl
  | cons x t ih =>
    rw [countIn_cons, ih (fun y hy => h y (List.mem_cons_of_mem _ hy))]
    simp [h x (List.mem_cons_self)]

/-! ### facts about `body` (the sampled rows) under the contract of the random draws -/

section body
variable {α : Type} [NumOps α]

theorem pickOK_spec {chosen : Int} {s : Stratum} {p : List Int} (h : pickOK chosen s p = true) :
    (p.length : Int) = needed chosen s ∧ p.Nodup ∧ ∀ a ∈ p, a ∈ s.subset ∧ a ≠ chosen := by
  unfold pickOK at h
  simp only [Bool.and_eq_true, decide_eq_true_eq, List.all_eq_true, List.contains_iff_mem,
    bne_iff_ne, ne_eq] at h
  exact ⟨h.1.1, h.1.2, h.2⟩

theorem body_map_fst (strata : List Stratum) (picks : List (List Int)) (chosen : Int)
    (h : picksOK chosen strata picks = true) :
    (body (α := α) strata picks).map (·.1) = picks.flatten := by
  induction strata generalizing picks with
  | nil => cases picks <;> simp_all [picksOK, body]
  | cons s ss ih =>
    cases picks with
    | nil => simp [picksOK] at h
    | cons p ps =>
      simp only [picksOK, Bool.and_eq_true] at h
      simp [body, ih ps h.2, Function.comp_def]

theorem body_mem (strata : List Stratum) (picks : List (List Int)) (chosen : Int)
    (h : picksOK chosen strata picks = true) :
    ∀ r ∈ body (α := α) strata picks, ∃ s ∈ strata, r.1 ∈ s.subset ∧ r.1 ≠ chosen ∧ r.2 = logProba s := by
  induction strata generalizing picks with
  | nil => cases picks <;> simp_all [picksOK, body]
  | cons s ss ih =>
    cases picks with
    | nil => simp [picksOK] at h
    | cons p ps =>
      simp only [picksOK, Bool.and_eq_true] at h
      obtain ⟨_, _, hp⟩ := pickOK_spec h.1
      intro r hr
      simp only [body, List.mem_append, List.mem_map] at hr
      rcases hr with ⟨a, ha, rfl⟩ | hr
      · exact ⟨s, List.mem_cons_self, (hp a ha).1, (hp a ha).2, rfl⟩
      · obtain ⟨s', hs', h1⟩ := ih ps h.2 r hr
        exact ⟨s', List.mem_cons_of_mem _ hs', h1⟩

/-- ids sampled in the strata `ss` all lie in one of them -/
theorem flatten_mem (strata : List Stratum) (picks : List (List Int)) (chosen : Int)
    (h : picksOK chosen strata picks = true) :
    ∀ a ∈ picks.flatten, ∃ s ∈ strata, a ∈ s.subset ∧ a ≠ chosen := by
  induction strata generalizing picks with
  | nil => cases picks <;> simp_all [picksOK]
  | cons s ss ih =>
    cases picks with
    | nil => simp [picksOK] at h
    | cons p ps =>
      simp only [picksOK, Bool.and_eq_true] at h
      obtain ⟨_, _, hp⟩ := pickOK_spec h.1
      intro a ha
      simp only [List.flatten_cons, List.mem_append] at ha
      rcases ha with ha | ha
      · exact ⟨s, List.mem_cons_self, (hp a ha).1, (hp a ha).2⟩
      · obtain ⟨s', hs', h1⟩ := ih ps h.2 a ha
        exact ⟨s', List.mem_cons_of_mem _ hs', h1⟩

theorem flatten_nodup (strata : List Stratum) (picks : List (List Int)) (chosen : Int)
    (hd : strata.Pairwise (fun a b => ∀ x, x ∈ a.subset → x ∉ b.subset))
    (h : picksOK chosen strata picks = true) : picks.flatten.Nodup := by
  induction strata generalizing picks with
  | nil => cases picks <;> simp_all [picksOK]
  | cons s ss ih =>
    cases picks with
    | nil => simp [picksOK] at h
    | cons p ps =>
      simp only [picksOK, Bool.and_eq_true] at h
      obtain ⟨_, hnd, hp⟩ := pickOK_spec h.1
      rw [List.pairwise_cons] at hd
      simp only [List.flatten_cons]
      rw [List.nodup_append]
      refine ⟨hnd, ih ps hd.2 h.2, ?_⟩
      intro a ha b hb hab
      subst hab
      obtain ⟨s', hs', h1, _⟩ := flatten_mem ss ps chosen h.2 a hb
      exact hd.1 s' hs' a (hp a ha).1 h1

theorem flatten_count (strata : List Stratum) (picks : List (List Int)) (chosen : Int)
    (hd : strata.Pairwise (fun a b => ∀ x, x ∈ a.subset → x ∉ b.subset))
    (h : picksOK chosen strata picks = true) :
    ∀ s ∈ strata, (countIn s picks.flatten : Int) = needed chosen s := by
  induction strata generalizing picks with
  | nil => intro s hs; cases hs
  | cons t ts ih =>
    cases picks with
    | nil => simp [picksOK] at h
    | cons p ps =>
      simp only [picksOK, Bool.and_eq_true] at h
      obtain ⟨hlen, _, hp⟩ := pickOK_spec h.1
      rw [List.pairwise_cons] at hd
      intro s hs
      simp only [List.flatten_cons, countIn_append]
      rcases List.mem_cons.mp hs with rfl | hs'
      · -- the stratum of this pick: all of `p`, nothing of the others
        have h1 : countIn s p = p.length := countIn_all s p (fun x hx => (hp x hx).1)
        have h2 : countIn s ps.flatten = 0 := by
          apply countIn_none
          intro x hx hxs
          obtain ⟨s', hs', h3, _⟩ := flatten_mem ts ps chosen h.2 x hx
          exact hd.1 s' hs' x hxs h3
        rw [h1, h2]; simpa using hlen
      · have h1 : countIn s p = 0 := by
          apply countIn_none
          intro x hx hxs
          exact hd.1 s hs' x (hp x hx).1 hxs
        rw [h1]
        simpa using ih ps hd.2 h.2 s hs'

theorem chosenLogp_acc (chosen : Int) (strata : List Stratum) (acc : Option α)
    (h : ∀ s ∈ strata, chosen ∉ s.subset) : chosenLogp chosen strata acc = acc := by
  induction strata generalizing acc with
  | nil => rfl
  | cons s t ih =>
    have hs : s.subset.contains chosen = false := by
      simpa using h s List.mem_cons_self
    simp only [chosenLogp, hs]
    exact ih _ (fun s' hs' => h s' (List.mem_cons_of_mem _ hs'))

theorem chosenLogp_spec (chosen : Int) (strata : List Stratum) (acc : Option α)
    (hd : strata.Pairwise (fun a b => ∀ x, x ∈ a.subset → x ∉ b.subset))
    (s : Stratum) (hs : s ∈ strata) (hc : chosen ∈ s.subset) :
    chosenLogp chosen strata acc = some (logProba s) := by
  induction strata generalizing acc with
  | nil => cases hs
  | cons t ts ih =>
    rw [List.pairwise_cons] at hd
    rcases List.mem_cons.mp hs with rfl | hs'
    · have : s.subset.contains chosen = true := by simpa using hc
      simp only [chosenLogp, this, if_true]
      exact chosenLogp_acc chosen ts _ (fun s' hs' => hd.1 s' hs' chosen hc)
    · simp only [chosenLogp]
      exact ih _ hd.2 hs'

end body

/-! ### second sample -/

section mev
variable {α : Type} [NumOps α]

theorem mevPickOK_spec {s : Stratum} {p : List Int} (h : mevPickOK s p = true) :
    (p.length : Int) = s.k ∧ p.Nodup ∧ ∀ a ∈ p, a ∈ s.subset := by
  unfold mevPickOK at h
  simp only [Bool.and_eq_true, decide_eq_true_eq, List.all_eq_true, List.contains_iff_mem] at h
  exact ⟨h.1.1, h.1.2, h.2⟩

theorem sampleMev_facts (strata : List Stratum) (picks : List (List Int))
    (hd : strata.Pairwise (fun a b => ∀ x, x ∈ a.subset → x ∉ b.subset))
    (h : mevPicksOK strata picks = true) :
    ((sampleMev (α := α) strata picks).map (·.1)).Nodup ∧
    (∀ s ∈ strata, (countIn s ((sampleMev (α := α) strata picks).map (·.1)) : Int) = s.k) ∧
    (∀ r ∈ sampleMev (α := α) strata picks, ∃ s ∈ strata, r.1 ∈ s.subset ∧ r.2 = mevWeight s) := by
  induction strata generalizing picks with
  | nil => cases picks <;> simp_all [mevPicksOK, sampleMev]
  | cons t ts ih =>
    cases picks with
    | nil => simp [mevPicksOK] at h
    | cons p ps =>
      simp only [mevPicksOK, Bool.and_eq_true] at h
      obtain ⟨hlen, hnd, hp⟩ := mevPickOK_spec h.1
      rw [List.pairwise_cons] at hd
      obtain ⟨ih1, ih2, ih3⟩ := ih ps hd.2 h.2
      have hfst : (sampleMev (α := α) (t :: ts) (p :: ps)).map (·.1)
          = p ++ (sampleMev (α := α) ts ps).map (·.1) := by
        simp [sampleMev, Function.comp_def]
      have hrest : ∀ x ∈ (sampleMev (α := α) ts ps).map (·.1), ∃ s' ∈ ts, x ∈ s'.subset := by
        intro x hx
        obtain ⟨r, hr, rfl⟩ := List.mem_map.mp hx
        obtain ⟨s', hs', h1, _⟩ := ih3 r hr
        exact ⟨s', hs', h1⟩
      refine ⟨?_, ?_, ?_⟩
      · rw [hfst, List.nodup_append]
        refine ⟨hnd, ih1, ?_⟩
        intro a ha b hb hab
        subst hab
        obtain ⟨s', hs', h1⟩ := hrest a hb
        exact hd.1 s' hs' a (hp a ha) h1
      · intro s hs
        rw [hfst, countIn_append]
        rcases List.mem_cons.mp hs with rfl | hs'
        · have h1 : countIn s p = p.length := countIn_all s p hp
          have h2 : countIn s ((sampleMev (α := α) ts ps).map (·.1)) = 0 := by
            apply countIn_none
            intro x hx hxs
            obtain ⟨s', hs', h3⟩ := hrest x hx
            exact hd.1 s' hs' x hxs h3
          rw [h1, h2]; simpa using hlen
        · have h1 : countIn s p = 0 := by
            apply countIn_none
            intro x hx hxs
            exact hd.1 s hs' x (hp x hx) hxs
          rw [h1]
          simpa using ih2 s hs'
      · intro r hr
        simp only [sampleMev, List.mem_append, List.mem_map] at hr
        rcases hr with ⟨a, ha, rfl⟩ | hr
        · exact ⟨t, List.mem_cons_self, hp a ha, rfl⟩
        · obtain ⟨s', hs', h1⟩ := ih3 r hr
          exact ⟨s', List.mem_cons_of_mem _ hs', h1⟩

end mev

/-! ### the main structural theorem -/

theorem sampleAlternatives_protocol {α} [NumOps α] (altIds : List Int) (strata : List Stratum)
    (chosen : Int) (picks : List (List Int))
    (hv : ValidStrata strata) (hocc : altIds.count chosen = 1)
    (hin : ∃ s ∈ strata, chosen ∈ s.subset)
    (hp : picksOK chosen strata picks = true) :
    ∃ rows : List (Int × α),
      sampleAlternatives altIds strata chosen picks = .ok (rows.map fun r => (r.1, some r.2)) ∧
      Protocol strata chosen rows := by
  obtain ⟨s₀, hs₀, hc₀⟩ := hin
  refine ⟨(chosen, logProba s₀) :: body strata picks, ?_, ?_⟩
  · unfold sampleAlternatives
    simp only [hocc, hp]
    simp [chosenLogp_spec chosen strata none hv.disjoint s₀ hs₀ hc₀]
  · have hids : ((chosen, logProba (α := α) s₀) :: body strata picks).map (·.1)
        = chosen :: picks.flatten := by
      simp only [List.map_cons]
      rw [body_map_fst strata picks chosen hp]
    refine ⟨⟨_, _, rfl⟩, ?_, ?_, ?_⟩
    · rw [hids, List.nodup_cons]
      refine ⟨?_, flatten_nodup strata picks chosen hv.disjoint hp⟩
      intro hmem
      obtain ⟨_, _, _, hne⟩ := flatten_mem strata picks chosen hp chosen hmem
      exact hne rfl
    · intro s hs
      rw [hids, countIn_cons]
      have h1 := flatten_count strata picks chosen hv.disjoint hp s hs
      have hk := hv.kpos s hs
      unfold needed at h1
      by_cases hcs : chosen ∈ s.subset
      · have : s.subset.contains chosen = true := by simpa using hcs
        simp only [this, if_true] at h1
        simp only [hcs, if_true]
        push_cast
        omega
      · have : s.subset.contains chosen = false := by simpa using hcs
        simp only [this] at h1
        simp only [hcs, if_false]
        push_cast
        simpa using h1
    · intro r hr
      rcases List.mem_cons.mp hr with rfl | hr
      · exact ⟨s₀, hs₀, hc₀, rfl⟩
      · obtain ⟨s, hs, h1, _, h3⟩ := body_mem strata picks chosen hp r hr
        exact ⟨s, hs, h1, h3⟩

/-! ### context validation -/

theorem checkStratum_ok_iff (altIds : List Int) (s : Stratum) :
    checkStratum altIds s = .ok () ↔
      s.subset ≠ [] ∧ s.k ≤ (s.subset.length : Int) ∧ s.k ≠ 0 ∧ ∀ a ∈ s.subset, a ∈ altIds := by
  unfold checkStratum
  split_ifs with h1 h2 h3 h4
  · simp [List.length_eq_zero_iff.mp h1]
  · simp only [reduceCtorEq, false_iff, not_and]
    intro _ h; omega
  · simp [h3]
  · simp only [reduceCtorEq, false_iff, not_and]
    intro _ _ _ hall
    simp only [List.any_eq_true, Bool.not_eq_true'] at h4
    obtain ⟨a, ha, hna⟩ := h4
    have : altIds.contains a = true := by simpa using hall a ha
    rw [this] at hna; cases hna
  · simp only [true_iff]
    refine ⟨fun h => h1 (by simp [h]), by omega, h3, ?_⟩
    intro a ha
    by_contra hna
    apply h4
    simp only [List.any_eq_true, Bool.not_eq_true']
    exact ⟨a, ha, by simpa using hna⟩

theorem checkPartition_ok_iff (altIds : List Int) (strata : List Stratum) :
    checkPartition altIds strata = .ok () ↔ ∀ s ∈ strata, checkStratum altIds s = .ok () := by
  induction strata with
  | nil => simp [checkPartition]
  | cons s t ih =>
    simp only [checkPartition, List.mem_cons, forall_eq_or_imp]
    cases h : checkStratum altIds s with
    | error e => simp
    | ok u => cases u; simp [ih]

theorem pairwiseDisjointB_iff (segs : List (List Int)) :
    pairwiseDisjointB segs = true ↔ segs.Pairwise (fun a b => ∀ x, x ∈ a → x ∉ b) := by
  induction segs with
  | nil => simp [pairwiseDisjointB]
  | cons s t ih =>
    simp only [pairwiseDisjointB, Bool.and_eq_true, List.all_eq_true, List.pairwise_cons, ih]
    constructor
    · rintro ⟨h1, h2⟩
      refine ⟨?_, h2⟩
      intro b hb x hx
      have := h1 b hb
      simp only [disjointB, List.all_eq_true, Bool.not_eq_true'] at this
      have h3 := this x hx
      intro hxb
      have : b.contains x = true := by simpa using hxb
      rw [this] at h3; cases h3
    · rintro ⟨h1, h2⟩
      refine ⟨?_, h2⟩
      intro b hb
      simp only [disjointB, List.all_eq_true, Bool.not_eq_true']
      intro x hx
      simpa using h1 b hb x hx

/-! ### formulas: renaming and evaluation -/

section formula
variable {α : Type} [NumOps α]

theorem eval_rename (names : List String) (pre suf : String) (env : String → Option α) (f : Formula α) :
    (f.rename names pre suf).eval env =
      f.eval (fun n => if names.contains n then env (pre ++ n ++ suf) else env n) := by
  induction f with
  | const c => rfl
  | var n =>
    by_cases h : n ∈ names <;> simp [Formula.rename, Formula.eval, h]
  | add a b iha ihb => simp only [Formula.rename, Formula.eval, iha, ihb]
  | sub a b iha ihb => simp only [Formula.rename, Formula.eval, iha, ihb]
  | mul a b iha ihb => simp only [Formula.rename, Formula.eval, iha, ihb]
  | div a b iha ihb => simp only [Formula.rename, Formula.eval, iha, ihb]
  | neg a iha => simp only [Formula.rename, Formula.eval, iha]
  | exp a iha => simp only [Formula.rename, Formula.eval, iha]
  | log a iha => simp only [Formula.rename, Formula.eval, iha]

theorem eval_congr (env₁ env₂ : String → Option α) (f : Formula α)
    (h : ∀ n ∈ f.vars, env₁ n = env₂ n) : f.eval env₁ = f.eval env₂ := by
  induction f with
  | const c => rfl
  | var n => exact h n (by simp [Formula.vars])
  | add a b iha ihb | sub a b iha ihb | mul a b iha ihb | div a b iha ihb =>
    simp only [Formula.eval]
    rw [iha (fun n hn => h n (by simp [Formula.vars, hn])),
        ihb (fun n hn => h n (by simp [Formula.vars, hn]))]
  | neg a iha | exp a iha | log a iha =>
    simp only [Formula.eval]
    rw [iha (fun n hn => h n (by simpa [Formula.vars] using hn))]

/-! ### flattening: what a generated column name is bound to -/

theorem lookupLast_append (a b : List (String × α)) (n : String) :
    lookupLast (a ++ b) n = (match lookupLast b n with | some w => some w | none => lookupLast a n) := by
  induction a with
  | nil => simp only [List.nil_append, lookupLast]; cases lookupLast b n <;> rfl
  | cons kv t ih =>
    obtain ⟨k, v⟩ := kv
    simp only [List.cons_append, lookupLast, ih]
    cases lookupLast b n <;> rfl

theorem lookupLast_none (l : List (String × α)) (n : String) (h : ∀ kv ∈ l, kv.1 ≠ n) :
    lookupLast l n = none := by
  induction l with
  | nil => rfl
  | cons kv t ih =>
    obtain ⟨k, v⟩ := kv
    simp only [lookupLast, ih (fun kv hkv => h kv (List.mem_cons_of_mem _ hkv))]
    have : k ≠ n := h (k, v) List.mem_cons_self
    simp [this]

/-- value of column `c` in a row of the sample table -/
def cell (cols : List String) (r : List α) (c : String) : Option α := lookupLast (cols.zip r) c

/-- the generated names are unambiguous: different (column, row number) pairs give different
names -/
def KeysInj (pre : String) (cols : List String) : Prop :=
  ∀ c c' i i', c ∈ cols → c' ∈ cols → colKey pre c i = colKey pre c' i' → c = c' ∧ i = i'

omit [NumOps α] in
theorem split_unique {β} (a : β) (l₁ l₂ d₁ d₂ : List β) (h : l₁ ++ a :: d₁ = l₂ ++ a :: d₂)
    (h₁ : a ∉ d₁) (h₂ : a ∉ d₂) : l₁ = l₂ ∧ d₁ = d₂ := by
  rcases List.append_eq_append_iff.mp h with ⟨m, hm, hd⟩ | ⟨m, hm, hd⟩
  · cases m with
    | nil => simp at hd; simp [hm, hd]
    | cons x m' =>
      simp only [List.cons_append, List.cons.injEq] at hd
      exact absurd (by rw [hd.2]; simp) h₁
  · cases m with
    | nil => simp at hd; simp [hm, hd]
    | cons x m' =>
      simp only [List.cons_append, List.cons.injEq] at hd
      exact absurd (by rw [hd.2]; simp) h₂

omit [NumOps α] in
/-- `f'{col}_{row}'` is injective in (col, row) for all column names whatsoever: the decimal row
number contains no underscore, so the last underscore separates the two parts -/
theorem colKey_inj (pre c c' : String) (i i' : Nat) (h : colKey pre c i = colKey pre c' i') :
    c = c' ∧ i = i' := by
  unfold colKey at h
  have h' := congrArg String.toList h
  simp only [String.toList_append] at h'
  have hu : ("_" : String).toList = ['_'] := rfl
  rw [hu, List.append_assoc, List.append_assoc, List.append_assoc, List.append_assoc] at h'
  have h2 := List.append_cancel_left h'
  have hd : ∀ n : Nat, (toString n).toList = Nat.toDigits 10 n := fun n => by
    rw [Nat.toString_eq_repr, Nat.toList_repr]
  rw [hd, hd] at h2
  obtain ⟨hc, hdig⟩ := split_unique '_' _ _ _ _ h2 Nat.underscore_not_in_toDigits Nat.underscore_not_in_toDigits
  refine ⟨String.toList_inj.mp hc, ?_⟩
  have := congrArg (fun l => Nat.ofDigitChars 10 l 0) hdig
  simpa [Nat.ofDigitChars_ten_toDigits] using this

omit [NumOps α] in
theorem keysInj (pre : String) (cols : List String) : KeysInj pre cols :=
  fun c c' i i' _ _ h => colKey_inj pre c c' i i' h

theorem lookupLast_map_key (pre : String) (cols : List String) (r : List α) (i : Nat) (c : String)
    (hk : KeysInj pre cols) (hc : c ∈ cols) :
    lookupLast ((cols.zip r).map (fun cv => (colKey pre cv.1 i, cv.2))) (colKey pre c i) = cell cols r c := by
  unfold cell
  have : ∀ (l : List (String × α)), (∀ kv ∈ l, kv.1 ∈ cols) →
      lookupLast (l.map (fun cv => (colKey pre cv.1 i, cv.2))) (colKey pre c i) = lookupLast l c := by
    intro l hl
    induction l with
    | nil => rfl
    | cons kv t ih =>
      obtain ⟨k, v⟩ := kv
      simp only [List.map_cons, lookupLast, ih (fun kv hkv => hl kv (List.mem_cons_of_mem _ hkv))]
      have hkc : k ∈ cols := hl (k, v) List.mem_cons_self
      by_cases hkn : k = c
      · simp [hkn]
      · have : colKey pre k i ≠ colKey pre c i := fun h => hkn (hk k c i i hkc hc h).1
        simp [hkn, this]
  apply this
  intro kv hkv
  exact (List.of_mem_zip hkv).1

theorem lookupLast_flattenSample (pre : String) (cols : List String) (rows : List (List α))
    (start i : Nat) (c : String) (hk : KeysInj pre cols) (hc : c ∈ cols)
    (hi : i < rows.length) :
    lookupLast (flattenSample pre cols rows start) (colKey pre c (start + i)) = cell cols (rows[i]) c := by
  induction rows generalizing start i with
  | nil => simp at hi
  | cons r rs ih =>
    simp only [flattenSample, lookupLast_append]
    cases i with
    | zero =>
      -- the later rows do not bind this name
      have hnone : lookupLast (flattenSample pre cols rs (start + 1)) (colKey pre c (start + 0)) = none := by
        apply lookupLast_none
        have : ∀ (rs : List (List α)) (st : Nat), start < st →
            ∀ kv ∈ flattenSample pre cols rs st, kv.1 ≠ colKey pre c (start + 0) := by
          intro rs
          induction rs with
          | nil => intro st _ kv hkv; simp [flattenSample] at hkv
          | cons r' rs' ih' =>
            intro st hst kv hkv
            simp only [flattenSample, List.mem_append, List.mem_map] at hkv
            rcases hkv with ⟨cv, hcv, rfl⟩ | hkv
            · intro heq
              have := (hk cv.1 c st (start + 0) (List.of_mem_zip hcv).1 hc heq).2
              omega
            · exact ih' (st + 1) (by omega) kv hkv
        exact this rs (start + 1) (by omega)
      rw [hnone]
      simpa using lookupLast_map_key pre cols r (start + 0) c hk hc
    | succ j =>
      have hj : j < rs.length := by simpa using hi
      have := ih (start + 1) j hj
      have he : start + 1 + j = start + (j + 1) := by omega
      rw [he] at this
      rw [this]
      have hnone : lookupLast ((cols.zip r).map (fun cv => (colKey pre cv.1 start, cv.2)))
          (colKey pre c (start + (j + 1))) = none := by
        apply lookupLast_none
        intro kv hkv heq
        obtain ⟨cv, hcv, rfl⟩ := List.mem_map.mp hkv
        have := (hk cv.1 c start (start + (j + 1)) (List.of_mem_zip hcv).1 hc heq).2
        omega
      rw [hnone]
      have hget : (r :: rs)[j + 1] = rs[j] := by simp
      rw [hget]
      cases cell cols rs[j] c <;> rfl


omit [NumOps α] in
theorem lookupLast_isSome_of_mem (l : List (String × α)) (k : String) (v : α) (h : (k, v) ∈ l) :
    ∃ w, lookupLast l k = some w := by
  induction l with
  | nil => cases h
  | cons kv t ih =>
    obtain ⟨k', v'⟩ := kv
    simp only [lookupLast]
    rcases List.mem_cons.mp h with heq | hmem
    · cases lookupLast t k with
      | some w => exact ⟨w, rfl⟩
      | none =>
        have : k' = k := by simpa using (congrArg Prod.fst heq).symm
        exact ⟨v', by simp [this]⟩
    · obtain ⟨w, hw⟩ := ih hmem
      exact ⟨w, by rw [hw]⟩

omit [NumOps α] in
theorem cell_isSome (cols : List String) (r : List α) (c : String) (hc : c ∈ cols)
    (hlen : cols.length ≤ r.length) : ∃ w, cell cols r c = some w := by
  obtain ⟨j, hj, hcj⟩ := List.getElem_of_mem hc
  have hjr : j < r.length := by omega
  apply lookupLast_isSome_of_mem (cols.zip r) c (r[j])
  rw [List.mem_iff_getElem]
  exact ⟨j, by simp [List.length_zip]; omega, by simp [hcj]⟩

/-- the renamed copy of a formula, evaluated on the merged row, reads every attribute of
alternatives from the columns of sampled alternative `i` and everything else unchanged -/
theorem rename_reads_row_i (altCols cols : List String) (ind tail : List (String × α))
    (rows : List (List α)) (f : Formula α) (i : Nat)
    (hsub : ∀ c ∈ altCols, c ∈ cols) (hi : i < rows.length)
    (hlen : cols.length ≤ (rows[i]).length)
    (htail : ∀ kv ∈ tail, ∀ c ∈ cols, ∀ j, kv.1 ≠ colKey "" c j) :
    (f.rename (attrsOf altCols f) "" ("_" ++ toString i)).eval
        (lookupLast (ind ++ flattenSample "" cols rows 0 ++ tail))
      = f.eval (fun n => if altCols.contains n then cell cols (rows[i]) n
                         else lookupLast (ind ++ flattenSample "" cols rows 0 ++ tail) n) := by
  rw [eval_rename]
  apply eval_congr
  intro n hn
  have hcont : (attrsOf altCols f).contains n = altCols.contains n := by
    unfold attrsOf
    by_cases h : n ∈ altCols
    · have h1 : altCols.contains n = true := by simpa using h
      have h2 : n ∈ List.filter altCols.contains f.vars := List.mem_filter.mpr ⟨hn, h1⟩
      simp [h2, h]
    · have h1 : altCols.contains n = false := by simpa using h
      have h2 : n ∉ List.filter altCols.contains f.vars := fun hm => by
        have := (List.mem_filter.mp hm).2
        rw [h1] at this; cases this
      simp [h2, h]
  rw [hcont]
  by_cases h : altCols.contains n = true
  · simp only [h, if_true]
    have hkey : "" ++ n ++ ("_" ++ toString i) = colKey "" n (0 + i) := by
      simp [colKey, String.append_assoc]
    rw [hkey, lookupLast_append]
    have hc : n ∈ cols := hsub n (by simpa using h)
    have hnone : lookupLast tail (colKey "" n (0 + i)) = none :=
      lookupLast_none tail _ (fun kv hkv => htail kv hkv n hc (0 + i))
    rw [hnone, lookupLast_append,
      lookupLast_flattenSample "" cols rows 0 i n (keysInj "" cols) hc hi]
    obtain ⟨w, hw⟩ := cell_isSome cols (rows[i]) n hc hlen
    rw [hw]
  · have h' : n ∉ altCols := by simpa using h
    simp [h']

end formula

end Sampling
