/- Helper lemmas for Props/C19.lean: the cross-nested logit generated on a sample
(`GenerateModel.get_cross_nested_logit`): the dictionary of MEV sums keyed by the name of the nest,
and the equivalence with `models.logcnl` on the full choice set under complete sampling of both
samples (over ℝ). -/
import Model.SamplingCnl
import Proofs.SamplingNested

namespace Sampling

open NumR

/-! ### the dictionary of MEV sums, keyed by the name of the nest -/

section dict
variable {α : Type} [NumOps α]

/-- the sum computed for one nest -/
def cnlSumOf (n : CnlCol α) (mev : List (α × α)) : α :=
  cnlMevSum n.mu ((n.mevAlpha.zip mev).map fun am => (am.1, am.2.1, am.2.2))

/-- with pairwise distinct names every nest reads back its own sum -/
theorem lookupLast_cnlSums (nests : List (CnlCol α)) (mev : List (α × α))
    (hd : (nests.map (·.name)).Nodup) :
    ∀ n ∈ nests, lookupLast (cnlSumsDict nests mev) n.name = some (cnlSumOf n mev) := by
  induction nests with
  | nil => intro n hn; cases hn
  | cons m t ih =>
    rw [List.map_cons, List.nodup_cons] at hd
    intro n hn
    have hstep : lookupLast (cnlSumsDict (m :: t) mev) n.name =
        (match lookupLast (cnlSumsDict t mev) n.name with
          | some w => some w
          | none => if m.name = n.name then some (cnlSumOf m mev) else none) := rfl
    rw [hstep]
    rcases List.mem_cons.mp hn with rfl | hn'
    · have hnone : lookupLast (cnlSumsDict t mev) n.name = none := by
        apply lookupLast_none
        intro kv hkv
        simp only [cnlSumsDict, List.mem_map] at hkv
        obtain ⟨n', hn', rfl⟩ := hkv
        intro heq
        exact hd.1 (List.mem_map.mpr ⟨n', hn', heq⟩)
      rw [hnone]; simp
    · rw [ih hd.2 n hn']

/-- the second dictionary with the same keys written twice: the last assignment wins, the first
nest reads the sum of the second one (what happens to nests carrying the same name) -/
theorem lookupLast_cnlSums_same_name (m n : CnlCol α) (mev : List (α × α)) (h : m.name = n.name) :
    lookupLast (cnlSumsDict [m, n] mev) m.name = some (cnlSumOf n mev) := by
  simp [cnlSumsDict, lookupLast, h, cnlSumOf]

open Num in
/-- the generated model when every nest reads its own sum -/
theorem cnlLogitRows_eq (nests : List (CnlCol α)) (rows : List (List α × α × α)) (mev : List (α × α))
    (hd : (nests.map (·.name)).Nodup) :
    cnlLogitRows nests rows mev =
      logLogitFirst (rows.map fun r => r.2.1 - r.2.2 +
        cnlTerm ((nests.zip r.1).map fun na => (na.2, na.1.mu, cnlSumOf na.1 mev)) r.2.1) := by
  unfold cnlLogitRows
  simp only []
  rw [mapM_some _ (fun r => r.2.1 - r.2.2 +
        cnlTerm ((nests.zip r.1).map fun na => (na.2, na.1.mu, cnlSumOf na.1 mev)) r.2.1) rows
    (by
      intro r _
      rw [mapM_some _ (fun na => (na.2, na.1.mu, cnlSumOf na.1 mev)) (nests.zip r.1)
        (by
          intro na hna
          rw [lookupLast_cnlSums nests mev hd na.1 (List.of_mem_zip hna).1]
          rfl)]
      rfl)]
  simp

/-- `alphaOf` of a listed alternative is the listed alpha (keys without repetition) -/
theorem alphaOf_mem (n : CnlNest α) (p : Int × α) (hk : (n.alpha.map (·.1)).Nodup) (hp : p ∈ n.alpha) :
    alphaOf n p.1 = p.2 := by
  unfold alphaOf
  have : ∀ l : List (Int × α), (l.map (·.1)).Nodup → p ∈ l → l.find? (fun q => q.1 == p.1) = some p := by
    intro l
    induction l with
    | nil => intro _ h; cases h
    | cons q t ih =>
      intro hnd hmem
      rw [List.map_cons, List.nodup_cons] at hnd
      rcases List.mem_cons.mp hmem with rfl | ht
      · simp
      · have hne : q.1 ≠ p.1 := by
          intro h
          exact hnd.1 (h ▸ List.mem_map.mpr ⟨p, ht, rfl⟩)
        rw [List.find?_cons_of_neg (by simpa using hne)]
        exact ih hnd.2 ht
  rw [this n.alpha hk hp]

/-- an alternative that is not listed is not found -/
theorem find_not_mem (n : CnlNest α) (a : Int) (h : a ∉ n.alpha.map (·.1)) :
    n.alpha.find? (fun q => q.1 == a) = none := by
  rw [List.find?_eq_none]
  intro q hq
  simp only [beq_iff_eq]
  intro he
  exact h (List.mem_map.mpr ⟨q, hq, he⟩)

end dict

/-! ### complete sampling of both samples (over ℝ) -/

/-- what `NestsForCrossNestedLogit` / the context guarantee of the nests, as far as the generated
model needs it: pairwise distinct names (the repaired context, F-C19-3), every `dict_of_alpha`
without repeated key (a Python dict) and without a zero alpha, non-zero nest parameters -/
structure ValidCnl (nests : List (CnlNest ℝ)) : Prop where
  names : (nests.map (·.name)).Nodup
  keys : ∀ n ∈ nests, (n.alpha.map (·.1)).Nodup
  nonzero : ∀ n ∈ nests, ∀ p ∈ n.alpha, p.2 ≠ 0
  mu : ∀ n ∈ nests, n.mu ≠ 0

theorem isZero_real (x : ℝ) : isZero x = true ↔ x = 0 := by
  unfold isZero
  rw [eq_real, ofNat_real_zero]

/-- `alphaOf` of an alternative that is not listed is 0 -/
theorem alphaOf_not_mem (n : CnlNest ℝ) (a : Int) (h : a ∉ n.alpha.map (·.1)) : alphaOf n a = 0 := by
  unfold alphaOf
  rw [find_not_mem n a h]
  exact ofNat_real_zero

theorem alphaOf_ne_zero_iff (n : CnlNest ℝ) (hk : (n.alpha.map (·.1)).Nodup)
    (hnz : ∀ p ∈ n.alpha, p.2 ≠ 0) (a : Int) :
    (!isZero (alphaOf n a)) = (n.alpha.any fun p => p.1 == a) := by
  by_cases h : a ∈ n.alpha.map (·.1)
  · obtain ⟨p, hp, rfl⟩ := List.mem_map.mp h
    have h1 : alphaOf n p.1 ≠ 0 := by rw [alphaOf_mem n p hk hp]; exact hnz p hp
    have h2 : (n.alpha.any fun q => q.1 == p.1) = true := by
      rw [List.any_eq_true]; exact ⟨p, hp, by simp⟩
    rw [h2]
    have : isZero (alphaOf n p.1) = false := by
      rw [Bool.eq_false_iff]; intro he; exact h1 ((isZero_real _).mp he)
    rw [this]; rfl
  · have h1 : alphaOf n a = (0 : ℝ) := alphaOf_not_mem n a h
    have h2 : (n.alpha.any fun q => q.1 == a) = false := by
      rw [Bool.eq_false_iff, Ne, List.any_eq_true]
      rintro ⟨q, hq, he⟩
      exact h (List.mem_map.mpr ⟨q, hq, by simpa using he⟩)
    rw [h2]
    have : isZero (alphaOf n a) = true := (isZero_real _).mpr h1
    rw [this]; rfl

/-- the MEV sum of a nest over a second sample that contains every alternative listed by the nest
once, with weight 1: `biosum` of the nest on the full choice set -/
theorem cnlMevSum_full (U : Int → ℝ) (mev : List (Int × ℝ)) (n : CnlNest ℝ)
    (hnd : (mev.map (·.1)).Nodup) (hw : ∀ r ∈ mev, r.2 = 1)
    (hk : (n.alpha.map (·.1)).Nodup) (hnz : ∀ p ∈ n.alpha, p.2 ≠ 0)
    (hsub : ∀ a ∈ n.alpha.map (·.1), a ∈ mev.map (·.1)) :
    cnlMevSum n.mu (mev.map fun r => (alphaOf n r.1, r.2, U r.1)) = cnlBiosum U n := by
  unfold cnlMevSum cnlBiosum
  rw [sum_real, sum_real, List.filter_map, List.map_map]
  -- the rows kept are those whose alternative is listed by the nest
  have h1 : (mev.filter ((fun r : ℝ × ℝ × ℝ => !isZero r.1) ∘ fun r => (alphaOf n r.1, r.2, U r.1))).map
        ((fun r : ℝ × ℝ × ℝ => r.2.1 * Num.pow r.1 n.mu * Num.exp (n.mu * r.2.2)) ∘ fun r => (alphaOf n r.1, r.2, U r.1))
      = ((mev.map (·.1)).filter fun a => n.alpha.any fun p => p.1 == a).map
          fun b => (alphaOf n b) ^ n.mu * Real.exp (n.mu * U b) := by
    rw [List.filter_map, List.map_map]
    have hf : (mev.filter ((fun r : ℝ × ℝ × ℝ => !isZero r.1) ∘ fun r => (alphaOf n r.1, r.2, U r.1)))
        = mev.filter ((fun a => n.alpha.any fun p => p.1 == a) ∘ fun r => r.1) := by
      apply List.filter_congr
      intro r _
      simp only [Function.comp_def]
      exact alphaOf_ne_zero_iff n hk hnz r.1
    rw [hf]
    apply List.map_congr_left
    intro r hr
    have := hw r (List.mem_filter.mp hr).1
    simp [this]
  rw [h1]
  have hperm : ((mev.map (·.1)).filter fun a => n.alpha.any fun p => p.1 == a).Perm (n.alpha.map (·.1)) := by
    rw [List.perm_ext_iff_of_nodup (hnd.filter _) hk]
    intro a
    simp only [List.mem_filter, List.any_eq_true, beq_iff_eq, List.mem_map]
    constructor
    · rintro ⟨_, p, hp, he⟩; exact ⟨p, hp, he⟩
    · rintro ⟨p, hp, he⟩
      exact ⟨by simpa using hsub a (List.mem_map.mpr ⟨p, hp, he⟩), p, hp, he⟩
  rw [(hperm.map _).sum_eq, List.map_map]
  congr 1
  apply List.map_congr_left
  intro p hp
  simp only [Function.comp_def, alphaOf_mem n p hk hp, pow_real, exp_real, mul_real]

/-- the MEV term of a row under a complete second sample: ln G of the full model -/
theorem cnlTerm_full (U : Int → ℝ) (nests : List (CnlNest ℝ)) (mev : List (Int × ℝ))
    (hv : ValidCnl nests)
    (hnd : (mev.map (·.1)).Nodup) (hw : ∀ r ∈ mev, r.2 = 1)
    (hsub : ∀ n ∈ nests, ∀ a ∈ n.alpha.map (·.1), a ∈ mev.map (·.1)) (a : Int) :
    cnlTerm (nests.map fun n => (alphaOf n a, n.mu,
        cnlMevSum n.mu (mev.map fun r => (alphaOf n r.1, r.2, U r.1)))) (U a)
      = cnlLogG U nests a := by
  unfold cnlTerm cnlLogG
  congr 2
  rw [List.filter_map, List.map_map]
  have hf : nests.filter ((fun t : ℝ × ℝ × ℝ => !isZero t.1) ∘ fun n => (alphaOf n a, n.mu,
        cnlMevSum n.mu (mev.map fun r => (alphaOf n r.1, r.2, U r.1))))
      = nests.filter fun n => n.alpha.any fun p => p.1 == a := by
    apply List.filter_congr
    intro n hn
    simp only [Function.comp_def]
    exact alphaOf_ne_zero_iff n (hv.keys n hn) (hv.nonzero n hn) a
  rw [hf]
  apply List.map_congr_left
  intro n hn
  have hn' := (List.mem_filter.mp hn).1
  simp only [Function.comp_def]
  rw [cnlMevSum_full U mev n hnd hw (hv.keys n hn') (hv.nonzero n hn') (hsub n hn')]
  have hmu := hv.mu n hn'
  have : (1 / n.mu - 1 : ℝ) = (1 - n.mu) / n.mu := by field_simp
  simp only [pow_real, exp_real, mul_real, sub_real, div_real, ofNat_real_one, this]

/-- the generated cross-nested logit on the sample, when the second sample contains every listed
alternative once with weight 1: the logit on `U_a + ln G_a − correction` over the main sample -/
theorem cnlSampledLLAbs_eq (U : Int → ℝ) (nests : List (CnlNest ℝ)) (rows mev : List (Int × ℝ))
    (hv : ValidCnl nests)
    (hnd : (mev.map (·.1)).Nodup) (hw : ∀ r ∈ mev, r.2 = 1)
    (hsub : ∀ n ∈ nests, ∀ a ∈ n.alpha.map (·.1), a ∈ mev.map (·.1)) :
    cnlSampledLLAbs U nests rows mev
      = sampledLLAbs (fun a => U a + cnlLogG U nests a) rows := by
  unfold cnlSampledLLAbs sampledLLAbs
  rw [cnlLogitRows_eq _ _ _ (by rw [List.map_map]; exact hv.names), List.map_map]
  congr 1
  apply List.map_congr_left
  intro r _
  simp only [Function.comp_def]
  have hz : ((nests.map fun n => (⟨n.mu, n.name, mev.map fun r => alphaOf n r.1⟩ : CnlCol ℝ)).zip
        (nests.map fun n => alphaOf n r.1)).map
        (fun na => (na.2, na.1.mu, cnlSumOf na.1 (mev.map fun r => (r.2, U r.1))))
      = nests.map fun n => (alphaOf n r.1, n.mu,
          cnlMevSum n.mu (mev.map fun r => (alphaOf n r.1, r.2, U r.1))) := by
    rw [List.zip_map', List.map_map]
    apply List.map_congr_left
    intro n _
    simp only [Function.comp_def, cnlSumOf, List.zip_map', List.map_map]
  rw [hz, cnlTerm_full U nests mev hv hnd hw hsub]
  simp only [sub_real, add_real]
  ring

/-- **complete sampling of both samples**: the cross-nested logit generated on the sample has the
log likelihood of the cross-nested logit on the full choice set -/
theorem cnl_full_sample_ll (strata : List Stratum) (alts : List Int) (chosen : Int)
    (rows mev : List (Int × ℝ)) (U : Int → ℝ) (nests : List (CnlNest ℝ))
    (hv : ValidStrata strata) (hcov : Covers strata alts)
    (hfull : ∀ s ∈ strata, s.k = (s.subset.length : Int))
    (hp : Protocol strata chosen rows)
    (hn : ValidCnl nests)
    (hnd : (mev.map (·.1)).Nodup) (hw : ∀ r ∈ mev, r.2 = 1)
    (hsub : ∀ n ∈ nests, ∀ a ∈ n.alpha.map (·.1), a ∈ mev.map (·.1)) :
    cnlSampledLLAbs U nests rows mev = some (fullCnlLL U nests alts chosen) := by
  rw [cnlSampledLLAbs_eq U nests rows mev hn hnd hw hsub,
    full_sample_ll strata alts chosen rows _ hv hcov hfull hp]
  rfl

end Sampling
