/-
Helper lemmas for the labelled frames of the sampling of alternatives and for
`generate_segment_size` (Model/SamplingFrames.lean).
-/
import Model.SamplingFrames
import Proofs.Sampling

namespace Sampling

/-! ### `generate_segment_size` -/

theorem segmentSizesNat_length (n m : Nat) : (segmentSizesNat n m).length = m := by
  simp [segmentSizesNat]

theorem sum_range_step (q r m : Nat) :
    ((List.range m).map fun i => if i < r then q + 1 else q).sum = m * q + min r m := by
  induction m with
  | zero => simp
  | succ m ih =>
    rw [List.range_succ, List.map_append, List.sum_append, ih]
    simp only [List.map_cons, List.map_nil, List.sum_cons, List.sum_nil]
    by_cases h : m < r
    · simp only [h, if_true]
      have : min r (m + 1) = min r m + 1 := by omega
      rw [this, Nat.succ_mul]; omega
    · simp only [h, if_false]
      have : min r (m + 1) = min r m := by omega
      rw [this, Nat.succ_mul]; omega

theorem segmentSizesNat_sum (n m : Nat) (hm : 0 < m) : (segmentSizesNat n m).sum = n := by
  unfold segmentSizesNat
  rw [sum_range_step]
  have h1 : n % m < m := Nat.mod_lt _ hm
  have h2 : min (n % m) m = n % m := by omega
  rw [h2]
  exact Nat.div_add_mod n m

theorem segmentSizesNat_mem (n m x : Nat) (h : x ∈ segmentSizesNat n m) :
    x = n / m ∨ x = n / m + 1 := by
  unfold segmentSizesNat at h
  simp only [List.mem_map, List.mem_range] at h
  obtain ⟨i, _, hi⟩ := h
  by_cases h' : i < n % m
  · simp only [h', if_true] at hi; exact Or.inr hi.symm
  · simp only [h', if_false] at hi; exact Or.inl hi.symm

/-- the larger sizes come first -/
theorem segmentSizesNat_sorted (n m : Nat) : (segmentSizesNat n m).Pairwise (fun a b => b ≤ a) := by
  unfold segmentSizesNat
  rw [List.pairwise_map]
  refine List.Pairwise.imp_of_mem ?_ (List.pairwise_lt_range (n := m))
  intro a b _ _ hab
  by_cases hb : b < n % m
  · have ha : a < n % m := by omega
    simp [ha, hb]
  · simp only [hb, if_false]
    by_cases ha : a < n % m <;> simp [ha]

/-! ### frames -/

section frames
variable {α : Type} {ι κ : Type}

theorem stackDict_relabelFrom (pre : String) (cols : List String) (f : List (ι × List α)) (i : Nat) :
    stackDict pre cols (relabelFrom f i) = flattenSample pre cols (f.map (·.2)) i := by
  induction f generalizing i with
  | nil => rfl
  | cons r t ih =>
    simp only [relabelFrom, stackDict, List.map_cons, flattenSample, ih]

theorem processRowL_concat (ind : List (String × α)) (d : Drawn ι α) :
    processRowL ind d.concat
      = flattenRow ind d.cols (d.main.map (·.2)) d.mevCols (d.mev.map (·.2)) := by
  simp only [processRowL, Drawn.concat, ignoreIndex, stackDict_relabelFrom, flattenRow]

theorem applyRows_concat (inds : List (ι × List (String × α))) (pieces : List (Drawn κ α)) :
    applyRows inds (pieces.map Drawn.concat)
      = List.zipWith (fun r d => (r.1, flattenRow r.2 d.cols (d.main.map (·.2)) d.mevCols (d.mev.map (·.2))))
          inds pieces := by
  induction inds generalizing pieces with
  | nil => cases pieces <;> rfl
  | cons r t ih =>
    cases pieces with
    | nil => rfl
    | cons d ds =>
      simp only [List.map_cons, applyRows, List.zipWith_cons_cons, ih, processRowL_concat]

theorem applyRows_length (inds : List (ι × List (String × α))) (ds : List (Drawn Nat α)) :
    (applyRows inds ds).length = min inds.length ds.length := by
  induction inds generalizing ds with
  | nil => cases ds <;> simp [applyRows]
  | cons r t ih =>
    cases ds with
    | nil => simp [applyRows]
    | cons d ds => simp only [applyRows, List.length_cons, ih]; omega

theorem applyRows_get (inds : List (ι × List (String × α))) (ds : List (Drawn Nat α)) (p : Nat)
    (r : ι × List (String × α)) (d : Drawn Nat α) (hr : inds[p]? = some r) (hd : ds[p]? = some d) :
    (applyRows inds ds)[p]? = some (r.1, processRowL r.2 d) := by
  induction inds generalizing ds p with
  | nil => simp at hr
  | cons r' t ih =>
    cases ds with
    | nil => simp at hd
    | cons d' ds' =>
      cases p with
      | zero =>
        simp only [List.getElem?_cons_zero, Option.some.injEq] at hr hd
        subst hr; subst hd
        simp [applyRows]
      | succ p =>
        simp only [List.getElem?_cons_succ] at hr hd
        simp only [applyRows, List.getElem?_cons_succ]
        exact ih ds' p hr hd

theorem applyRows_relabel (g : ι → κ) (inds : List (ι × List (String × α))) (ds : List (Drawn Nat α)) :
    applyRows (inds.map fun r => (g r.1, r.2)) ds = (applyRows inds ds).map fun r => (g r.1, r.2) := by
  induction inds generalizing ds with
  | nil => cases ds <;> rfl
  | cons r t ih =>
    cases ds with
    | nil => rfl
    | cons d ds => simp only [List.map_cons, applyRows, ih]

theorem maskIds_relabel (g : ι → κ) (p : Int → Bool) (alts : List (ι × Int × List α)) :
    maskIds p (alts.map fun r => (g r.1, r.2)) = (maskIds p alts).map fun r => (g r.1, r.2) := by
  unfold maskIds
  rw [List.filter_map]
  rfl

theorem rowsOfIds_relabel (g : ι → κ) (alts : List (ι × Int × List α)) (ids : List Int) :
    rowsOfIds (alts.map fun r => (g r.1, r.2)) ids = (rowsOfIds alts ids).map fun r => (g r.1, r.2) := by
  unfold rowsOfIds
  induction ids with
  | nil => rfl
  | cons a t ih =>
    simp only [List.flatMap_cons, List.map_append]
    rw [ih, maskIds_relabel]

theorem rowsOfIds_mem (alts : List (ι × Int × List α)) (ids : List Int) (r : ι × Int × List α)
    (h : r ∈ rowsOfIds alts ids) : r ∈ alts ∧ r.2.1 ∈ ids := by
  unfold rowsOfIds maskIds at h
  simp only [List.mem_flatMap, List.mem_filter, beq_iff_eq] at h
  obtain ⟨a, ha, hr, he⟩ := h
  exact ⟨hr, he ▸ ha⟩

theorem maskIds_single (alts : List (ι × Int × List α)) (a : Int)
    (h : (alts.map (·.2.1)).count a = 1) :
    ∃ r, r ∈ alts ∧ r.2.1 = a ∧ maskIds (fun b => b == a) alts = [r] := by
  have hlen : (maskIds (fun b => b == a) alts).length = 1 := by
    unfold maskIds
    rw [← List.countP_eq_length_filter]
    rw [List.count, List.countP_map] at h
    rw [← h]
    rfl
  match hm : maskIds (fun b => b == a) alts, hlen with
  | [r], _ =>
    have hr : r ∈ maskIds (fun b => b == a) alts := by rw [hm]; simp
    unfold maskIds at hr
    simp only [List.mem_filter, beq_iff_eq] at hr
    exact ⟨r, hr.1, hr.2, rfl⟩

theorem rowsOfIds_ids (alts : List (ι × Int × List α)) (ids : List Int)
    (h : ∀ a ∈ ids, (alts.map (·.2.1)).count a = 1) :
    (rowsOfIds alts ids).map (·.2.1) = ids := by
  induction ids with
  | nil => rfl
  | cons a t ih =>
    obtain ⟨r, _, hra, hm⟩ := maskIds_single alts a (h a List.mem_cons_self)
    have := ih (fun b hb => h b (List.mem_cons_of_mem _ hb))
    unfold rowsOfIds at this ⊢
    simp only [List.flatMap_cons, this, hm, List.map_cons, hra,
      List.singleton_append]

end frames

end Sampling

namespace Sampling

theorem sum_map_ofNat (l : List Nat) : (l.map Int.ofNat).sum = (l.sum : Int) := by
  induction l with
  | nil => rfl
  | cons a t ih =>
    simp only [List.map_cons, List.sum_cons, ih, Int.ofNat_eq_natCast]
    omega

/-- what an accepted call of `generate_segment_size` returns -/
theorem generateSegmentSize_ok (n m : Int) (l : List Int) (h : generateSegmentSize n m = .ok l) :
    0 ≤ n ∧ 0 < m ∧ (l.length : Int) = m ∧ l.sum = n ∧
      (∀ x ∈ l, x = n / m ∨ x = n / m + 1) ∧ l.Pairwise (fun a b => b ≤ a) := by
  unfold generateSegmentSize at h
  by_cases h1 : n < 0
  · simp [h1] at h
  by_cases h2 : m ≤ 0
  · simp [h1, h2] at h
  simp only [h1, h2, if_false, Except.ok.injEq] at h
  have hn : 0 ≤ n := by omega
  have hm : 0 < m := by omega
  obtain ⟨n', rfl⟩ := Int.eq_ofNat_of_zero_le hn
  obtain ⟨m', rfl⟩ := Int.eq_ofNat_of_zero_le (Int.le_of_lt hm)
  simp only [Int.toNat_natCast] at h
  have hm' : 0 < m' := by omega
  subst h
  refine ⟨hn, hm, ?_, ?_, ?_, ?_⟩
  · simp [segmentSizesNat_length]
  · rw [sum_map_ofNat, segmentSizesNat_sum n' m' hm']
  · intro x hx
    simp only [List.mem_map] at hx
    obtain ⟨y, hy, rfl⟩ := hx
    rcases segmentSizesNat_mem n' m' y hy with h | h
    · left; subst h; simp [Int.ofNat_eq_natCast]
    · right; subst h; simp [Int.ofNat_eq_natCast]
  · rw [List.pairwise_map]
    refine (segmentSizesNat_sorted n' m').imp ?_
    intro a b hab
    simp only [Int.ofNat_eq_natCast]
    omega

end Sampling
