/- Helper lemmas for Props/C19.lean: the nested logit generated on a sample
(`GenerateModel.get_nested_logit`): the dictionary of MEV sums, and the equivalence with the
nested logit on the full choice set under complete sampling of both samples (over ℝ). -/
import Proofs.SamplingReal

namespace Sampling

open NumR

/-! ### the dictionary of MEV sums -/

section dict
variable {α : Type} [NumOps α] {ι : Type}

theorem dictGet_none_of_no_key (d : List (List Int × α)) (key : List Int)
    (h : ∀ kv ∈ d, kv.1 ≠ key) : dictGet d key = none := by
  induction d with
  | nil => rfl
  | cons kv t ih =>
    obtain ⟨k, v⟩ := kv
    have hk : k ≠ key := h (k, v) List.mem_cons_self
    simp only [dictGet]
    rw [ih (fun kv hkv => h kv (List.mem_cons_of_mem _ hkv))]
    simp [hk]

/-- what `NestsForNestedLogit.check_partition` guarantees of the nests, as far as the generated
model needs it: no nest is empty, the lists have no repetition, the nests are pairwise disjoint -/
structure ValidNests (nests : List (Nest α)) : Prop where
  nonempty : ∀ n ∈ nests, n.alts ≠ []
  nodup : ∀ n ∈ nests, n.alts.Nodup
  disjoint : nests.Pairwise (fun a b => ∀ x, x ∈ a.alts → x ∉ b.alts)

/-- keyed by the tuple of its alternatives, every nest finds its own MEV sum in the dictionary -/
theorem dictGet_mevSums (mem : List Int → ι → Bool) (mev : List (ι × α × α)) (nests : List (Nest α))
    (hne : ∀ n ∈ nests, n.alts ≠ [])
    (hd : nests.Pairwise (fun a b => ∀ x, x ∈ a.alts → x ∉ b.alts)) :
    ∀ n ∈ nests, dictGet (mevSumsDict mem mev nests) n.alts = some (nestMevSum mem mev n) := by
  induction nests with
  | nil => intro n hn; cases hn
  | cons m t ih =>
    rw [List.pairwise_cons] at hd
    intro n hn
    have hstep : dictGet (mevSumsDict mem mev (m :: t)) n.alts =
        (match dictGet (mevSumsDict mem mev t) n.alts with
          | some w => some w
          | none => if m.alts = n.alts then some (nestMevSum mem mev m) else none) := rfl
    rw [hstep]
    rcases List.mem_cons.mp hn with rfl | hn'
    · have hnone : dictGet (mevSumsDict mem mev t) n.alts = none := by
        apply dictGet_none_of_no_key
        intro kv hkv
        simp only [mevSumsDict, List.mem_map] at hkv
        obtain ⟨n', hn', rfl⟩ := hkv
        intro heq
        obtain ⟨x, hx⟩ := List.exists_mem_of_ne_nil _ (hne n List.mem_cons_self)
        have heq' : n'.alts = n.alts := heq
        exact hd.1 n' hn' x hx (by rw [heq']; exact hx)
      rw [hnone]; simp
    · rw [ih (fun n hn => hne n (List.mem_cons_of_mem _ hn)) hd.2 n hn']

theorem mapM_some {β γ : Type} (f : β → Option γ) (g : β → γ) (l : List β)
    (h : ∀ x ∈ l, f x = some (g x)) : l.mapM f = some (l.map g) := by
  induction l with
  | nil => rfl
  | cons a t ih =>
    rw [List.mapM_cons, h a List.mem_cons_self, ih (fun x hx => h x (List.mem_cons_of_mem _ hx))]
    rfl

open Num in
/-- value of the MEV term of a row when every nest reads its own sum -/
def nestedTermVal (mem : List Int → ι → Bool) (mev : List (ι × α × α)) (nests : List (Nest α))
    (id : ι) (v : α) : α :=
  Num.sum ((nests.filter fun n => mem n.alts id).map fun n =>
    (n.mu - 1) * v + (1 / n.mu - 1) * Num.log (nestMevSum mem mev n))

/-- the MEV term of a row: every nest reads its own sum -/
theorem nestedTerm_eq (mem : List Int → ι → Bool) (mev : List (ι × α × α)) (nests : List (Nest α))
    (hne : ∀ n ∈ nests, n.alts ≠ [])
    (hd : nests.Pairwise (fun a b => ∀ x, x ∈ a.alts → x ∉ b.alts)) (id : ι) (v : α) :
    nestedTerm mem (mevSumsDict mem mev nests) nests id v = some (nestedTermVal mem mev nests id v) := by
  unfold nestedTerm nestedTermVal
  rw [mapM_some _
    (fun n => (mem n.alts id, _)) nests
    (by
      intro n hn
      rw [dictGet_mevSums mem mev nests hne hd n hn]
      rfl)]
  simp only [Option.pure_def, Option.bind_eq_bind, Option.bind_some, List.filter_map, List.map_map]
  rfl

open Num in
theorem nestedLogitRows_eq (mem : List Int → ι → Bool) (nests : List (Nest α))
    (rows mev : List (ι × α × α))
    (hne : ∀ n ∈ nests, n.alts ≠ [])
    (hd : nests.Pairwise (fun a b => ∀ x, x ∈ a.alts → x ∉ b.alts)) :
    nestedLogitRows mem nests rows mev =
      logLogitFirst (rows.map fun r => r.2.1 - r.2.2 + nestedTermVal mem mev nests r.1 r.2.1) := by
  unfold nestedLogitRows
  simp only []
  rw [mapM_some _ (fun r => r.2.1 - r.2.2 + nestedTermVal mem mev nests r.1 r.2.1) rows
    (by
      intro r _
      rw [nestedTerm_eq mem mev nests hne hd]
      rfl)]
  rfl

end dict

/-! ### complete sampling of both samples (over ℝ) -/

/-- complete second sample: every weight is n/n = 1 -/
theorem mevWeight_full (s : Stratum) (hne : s.subset ≠ []) (h : s.k = (s.subset.length : Int)) :
    (mevWeight s : ℝ) = 1 := by
  rw [mevWeight_real, h]
  have : (s.subset.length : ℝ) ≠ 0 := by
    have : 0 < s.subset.length := List.length_pos_of_ne_nil hne
    exact_mod_cast (by omega : s.subset.length ≠ 0)
  simpa using div_self this

/-- the MEV sum of a nest over a second sample that contains every alternative of the nest once,
with weight 1: the sum over the nest itself -/
theorem nestMevSum_full (U : Int → ℝ) (mev : List (Int × ℝ)) (n : Nest ℝ)
    (hnd : (mev.map (·.1)).Nodup) (hw : ∀ r ∈ mev, r.2 = 1)
    (hn : n.alts.Nodup) (hsub : ∀ a ∈ n.alts, a ∈ mev.map (·.1)) :
    nestMevSum (fun l a => l.contains a) (mev.map fun r => (r.1, r.2, U r.1)) n
      = Num.sum (n.alts.map fun b => Num.exp (n.mu * U b)) := by
  unfold nestMevSum
  rw [sum_real, sum_real, List.filter_map, List.map_map]
  have h1 : (mev.filter ((fun r : Int × ℝ × ℝ => n.alts.contains r.1) ∘ fun r => (r.1, r.2, U r.1))).map
        ((fun r : Int × ℝ × ℝ => r.2.1 * Num.exp (n.mu * r.2.2)) ∘ fun r => (r.1, r.2, U r.1))
      = (((mev.map (·.1)).filter fun a => n.alts.contains a)).map fun b => Real.exp (n.mu * U b) := by
    rw [List.filter_map, List.map_map]
    apply List.map_congr_left
    intro r hr
    have := hw r (List.mem_filter.mp hr).1
    simp [this]
  rw [h1]
  have hperm : ((mev.map (·.1)).filter fun a => n.alts.contains a).Perm n.alts := by
    rw [List.perm_ext_iff_of_nodup (hnd.filter _) hn]
    intro a
    simp only [List.mem_filter, List.contains_iff_mem]
    constructor
    · intro h; exact h.2
    · intro h; exact ⟨hsub a h, h⟩
  have h2 : (n.alts.map fun b => Num.exp (n.mu * U b)) = n.alts.map fun b => Real.exp (n.mu * U b) := by
    simp
  rw [h2]
  exact (hperm.map _).sum_eq

theorem nestedTermVal_full (U : Int → ℝ) (nests : List (Nest ℝ)) (mev : List (Int × ℝ))
    (hv : ValidNests nests)
    (hnd : (mev.map (·.1)).Nodup) (hw : ∀ r ∈ mev, r.2 = 1)
    (hsub : ∀ n ∈ nests, ∀ a ∈ n.alts, a ∈ mev.map (·.1)) (a : Int) :
    nestedTermVal (fun l a => l.contains a) (mev.map fun r => (r.1, r.2, U r.1)) nests a (U a)
      = nestedLogG U nests a := by
  unfold nestedTermVal nestedLogG
  congr 1
  apply List.map_congr_left
  intro n hn
  have hn' := (List.mem_filter.mp hn).1
  rw [nestMevSum_full U mev n hnd hw (hv.nodup n hn') (hsub n hn')]

/-- the generated nested logit on the sample, when the second sample contains every alternative of
the nests once with weight 1: the logit on `U_a + ln G_a − correction` over the rows of the main
sample -/
theorem nestedSampledLLAbs_eq (U : Int → ℝ) (nests : List (Nest ℝ)) (rows mev : List (Int × ℝ))
    (hv : ValidNests nests)
    (hnd : (mev.map (·.1)).Nodup) (hw : ∀ r ∈ mev, r.2 = 1)
    (hsub : ∀ n ∈ nests, ∀ a ∈ n.alts, a ∈ mev.map (·.1)) :
    nestedSampledLLAbs U nests rows mev
      = sampledLLAbs (fun a => U a + nestedLogG U nests a) rows := by
  unfold nestedSampledLLAbs sampledLLAbs
  rw [nestedLogitRows_eq _ nests _ _ hv.nonempty hv.disjoint, List.map_map]
  congr 1
  apply List.map_congr_left
  intro r _
  simp only [Function.comp_def]
  rw [nestedTermVal_full U nests mev hv hnd hw hsub]
  simp only [sub_real, add_real]
  ring

/-- **complete sampling of both samples**: the nested logit generated on the sample has the log
likelihood of the nested logit on the full choice set -/
theorem nested_full_sample_ll (strata : List Stratum) (alts : List Int) (chosen : Int)
    (rows mev : List (Int × ℝ)) (U : Int → ℝ) (nests : List (Nest ℝ))
    (hv : ValidStrata strata) (hcov : Covers strata alts)
    (hfull : ∀ s ∈ strata, s.k = (s.subset.length : Int))
    (hp : Protocol strata chosen rows)
    (hn : ValidNests nests)
    (hnd : (mev.map (·.1)).Nodup) (hw : ∀ r ∈ mev, r.2 = 1)
    (hsub : ∀ n ∈ nests, ∀ a ∈ n.alts, a ∈ mev.map (·.1)) :
    nestedSampledLLAbs U nests rows mev = some (fullNestedLL U nests alts chosen) := by
  rw [nestedSampledLLAbs_eq U nests rows mev hn hnd hw hsub,
    full_sample_ll strata alts chosen rows _ hv hcov hfull hp]
  rfl

/-- what a complete second sample that follows its protocol looks like: no alternative twice,
every weight 1, every alternative of every stratum present -/
theorem mev_complete (mstrata : List Stratum) (mev : List (Int × ℝ))
    (hv : ValidStrata mstrata) (hne : ∀ s ∈ mstrata, s.subset ≠ [])
    (hfull : ∀ s ∈ mstrata, s.k = (s.subset.length : Int))
    (hp : MevProtocol mstrata mev) :
    (mev.map (·.1)).Nodup ∧ (∀ r ∈ mev, r.2 = 1) ∧
      ∀ s ∈ mstrata, ∀ a ∈ s.subset, a ∈ mev.map (·.1) := by
  refine ⟨hp.nodup, ?_, ?_⟩
  · intro r hr
    obtain ⟨s, hs, _, h2⟩ := hp.member r hr
    rw [h2]; exact mevWeight_full s (hne s hs) (hfull s hs)
  · intro s hs a ha
    have hc := hp.counts s hs
    rw [hfull s hs] at hc
    have hc' : countIn s (mev.map (·.1)) = s.subset.length := by exact_mod_cast hc
    exact filter_subset_full s _ (hv.nodup s hs) hp.nodup hc' a ha

end Sampling
