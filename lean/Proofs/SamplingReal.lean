/- Helper lemmas for Props/C19.lean over ℝ: correction terms and the full-sample equivalence. -/
import Proofs.Sampling
import Proofs.NumReal
import Mathlib.Algebra.BigOperators.Group.List.Basic

namespace Sampling

open NumR

theorem logProba_real (s : Stratum) :
    (logProba s : ℝ) = Real.log (s.k : ℝ) - Real.log (s.subset.length : ℝ) := by
  simp [logProba]

/-- the correction term is ln(k/n) -/
theorem logProba_eq_log_ratio (s : Stratum) (hk : 1 ≤ s.k) (hn : s.subset ≠ []) :
    (logProba s : ℝ) = Real.log ((s.k : ℝ) / (s.subset.length : ℝ)) := by
  rw [logProba_real]
  have h1 : (s.k : ℝ) ≠ 0 := by
    have : (0 : ℝ) < (s.k : ℝ) := by exact_mod_cast (by omega : (0 : Int) < s.k)
    exact ne_of_gt this
  have h2 : (s.subset.length : ℝ) ≠ 0 := by
    have : 0 < s.subset.length := List.length_pos_of_ne_nil hn
    exact_mod_cast (by omega : s.subset.length ≠ 0)
  rw [Real.log_div h1 h2]

/-- complete sampling of a stratum: the correction is ln 1 = 0 -/
theorem logProba_full (s : Stratum) (h : s.k = (s.subset.length : Int)) : (logProba s : ℝ) = 0 := by
  rw [logProba_real, h]; simp

theorem mevWeight_real (s : Stratum) : (mevWeight s : ℝ) = (s.subset.length : ℝ) / (s.k : ℝ) := by
  simp [mevWeight]

/-! ### complete sampling: the sample is a permutation of the choice set -/

/-- the strata form a partition of `alts` -/
structure Covers (strata : List Stratum) (alts : List Int) : Prop where
  nodup : alts.Nodup
  mem : ∀ a, a ∈ alts ↔ ∃ s ∈ strata, a ∈ s.subset

theorem filter_subset_full (s : Stratum) (ids : List Int) (hs : s.subset.Nodup) (hids : ids.Nodup)
    (hcount : countIn s ids = s.subset.length) : ∀ a ∈ s.subset, a ∈ ids := by
  -- the ids lying in the stratum: duplicate free, inside the stratum, as many as the stratum
  set fl := ids.filter (fun a => s.subset.contains a) with hfl
  have hnd : fl.Nodup := hids.filter _
  have hsub : fl ⊆ s.subset := by
    intro a ha
    have := (List.mem_filter.mp ha).2
    simpa using this
  have hsp : fl.Subperm s.subset := List.subperm_of_subset hnd hsub
  have hlen : s.subset.length ≤ fl.length := by
    have : fl.length = s.subset.length := hcount
    omega
  have hperm : fl.Perm s.subset := hsp.perm_of_length_le hlen
  intro a ha
  have : a ∈ fl := hperm.mem_iff.mpr ha
  exact (List.mem_filter.mp this).1

theorem full_ids_perm (strata : List Stratum) (alts : List Int) (chosen : Int) (rows : List (Int × ℝ))
    (hv : ValidStrata strata) (hcov : Covers strata alts)
    (hfull : ∀ s ∈ strata, s.k = (s.subset.length : Int))
    (hp : Protocol strata chosen rows) : (rows.map (·.1)).Perm alts := by
  rw [List.perm_ext_iff_of_nodup hp.nodup hcov.nodup]
  intro a
  constructor
  · intro ha
    obtain ⟨r, hr, rfl⟩ := List.mem_map.mp ha
    obtain ⟨s, hs, h1, _⟩ := hp.member r hr
    exact (hcov.mem r.1).mpr ⟨s, hs, h1⟩
  · intro ha
    obtain ⟨s, hs, h1⟩ := (hcov.mem a).mp ha
    have hc := hp.counts s hs
    rw [hfull s hs] at hc
    have hc' : countIn s (rows.map (·.1)) = s.subset.length := by exact_mod_cast hc
    exact filter_subset_full s _ (hv.nodup s hs) hp.nodup hc' a h1

theorem full_corrections_zero (strata : List Stratum) (chosen : Int) (rows : List (Int × ℝ))
    (hfull : ∀ s ∈ strata, s.k = (s.subset.length : Int))
    (hp : Protocol strata chosen rows) : ∀ r ∈ rows, r.2 = 0 := by
  intro r hr
  obtain ⟨s, hs, _, h2⟩ := hp.member r hr
  rw [h2]; exact logProba_full s (hfull s hs)

theorem sum_map_zero_corr (U : Int → ℝ) (rows : List (Int × ℝ)) (h : ∀ r ∈ rows, r.2 = 0) :
    rows.map (fun r => Real.exp (U r.1 - r.2)) = (rows.map (·.1)).map (fun a => Real.exp (U a)) := by
  rw [List.map_map]
  apply List.map_congr_left
  intro r hr
  simp [h r hr]

theorem full_sample_ll (strata : List Stratum) (alts : List Int) (chosen : Int) (rows : List (Int × ℝ))
    (U : Int → ℝ)
    (hv : ValidStrata strata) (hcov : Covers strata alts)
    (hfull : ∀ s ∈ strata, s.k = (s.subset.length : Int))
    (hp : Protocol strata chosen rows) :
    sampledLLAbs U rows = some (fullLL U alts chosen) := by
  have hz := full_corrections_zero strata chosen rows hfull hp
  have hperm := full_ids_perm strata alts chosen rows hv hcov hfull hp
  obtain ⟨lp, rest, hrows⟩ := hp.first
  have hlp : lp = 0 := by
    have := hz (chosen, lp) (by rw [hrows]; exact List.mem_cons_self)
    simpa using this
  unfold sampledLLAbs fullLL
  have hsum : Num.sum ((rows.map fun r => U r.1 - r.2).map Num.exp)
      = Num.sum (alts.map fun a => Num.exp (U a)) := by
    rw [sum_real, sum_real, List.map_map]
    have h1 : (rows.map ((Num.exp : ℝ → ℝ) ∘ fun r => U r.1 - r.2))
        = (rows.map (·.1)).map (fun a => Real.exp (U a)) := by
      have := sum_map_zero_corr U rows hz
      simpa [Function.comp_def] using this
    rw [h1]
    have h2 : (alts.map fun a => Num.exp (U a)) = alts.map (fun a => Real.exp (U a)) := by
      simp
    rw [h2]
    exact (hperm.map _).sum_eq
  subst hlp
  rw [hrows] at hsum
  rw [hrows]
  simp only [List.map_cons, logLogitFirst] at hsum ⊢
  rw [hsum]
  simp

end Sampling
