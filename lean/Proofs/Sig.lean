/-
Lemmas for the signature text: the engine's reader (`Sig.parseLine`) inverts the Python
writer (`Sig.renderLine`) on every line whose names contain neither a comma nor a quotation
mark.  Character-level; no Mathlib.
-/
import Model.Sig

namespace Sig
open Expr Engine Num

/-! ### splitting -/

theorem splitOn_ne_nil (sep : Char) (s : List Char) : splitOn sep s ≠ [] := by
  induction s with
  | nil => simp [splitOn]
  | cons c cs ih =>
    unfold splitOn
    split
    · simp
    · split <;> simp

theorem splitOn_append (sep : Char) (h rest : List Char) (hh : sep ∉ h) :
    splitOn sep (h ++ rest) =
      (h ++ (splitOn sep rest).headD []) :: (splitOn sep rest).tail := by
  induction h with
  | nil =>
    cases hs : splitOn sep rest with
    | nil => exact absurd hs (splitOn_ne_nil sep rest)
    | cons a b => simp [hs]
  | cons c cs ih =>
    have hc : c ≠ sep := fun e => hh (by simp [e])
    have hcs : sep ∉ cs := fun e => hh (by simp [e])
    simp only [List.cons_append]
    rw [splitOn, if_neg hc, ih hcs]

theorem splitOn_commaJoin (fs : List (List Char)) (hf : ∀ f ∈ fs, ',' ∉ f) :
    splitOn ',' (commaJoin fs) = [] :: fs := by
  induction fs with
  | nil => simp [commaJoin, splitOn]
  | cons f fs ih =>
    have h1 : ',' ∉ f := hf f (by simp)
    have h2 : ∀ g ∈ fs, ',' ∉ g := fun g hg => hf g (by simp [hg])
    have : commaJoin (f :: fs) = ',' :: (f ++ commaJoin fs) := by simp [commaJoin]
    rw [this, splitOn, if_pos rfl, splitOn_append _ _ _ h1, ih h2]
    simp

/-- the items of a line `pre,f₁,f₂,…` -/
theorem items_line (pre : List Char) (fs : List (List Char)) (hp : ',' ∉ pre)
    (hf : ∀ f ∈ fs, ',' ∉ f) : items (pre ++ commaJoin fs) = pre :: fs := by
  unfold items
  rw [splitOn_append _ _ _ hp, splitOn_commaJoin fs hf]
  simp

/-! ### blanking and extraction -/

theorem blank_noquote (s : List Char) (h : '"' ∉ s) : blank false s = s := by
  induction s with
  | nil => rfl
  | cons c cs ih =>
    have hc : c ≠ '"' := fun e => h (by simp [e])
    have hcs : '"' ∉ cs := fun e => h (by simp [e])
    simp [blank, hc, ih hcs]

theorem blank_append_noquote (q : Bool) (s t : List Char) (h : '"' ∉ s) :
    blank q (s ++ t) = blank q s ++ blank q t := by
  induction s with
  | nil => rfl
  | cons c cs ih =>
    have hc : c ≠ '"' := fun e => h (by simp [e])
    have hcs : '"' ∉ cs := fun e => h (by simp [e])
    simp [blank, hc, ih hcs]

theorem blank_true_noquote (s : List Char) (h : '"' ∉ s) :
    blank true s = List.replicate s.length ' ' := by
  induction s with
  | nil => rfl
  | cons c cs ih =>
    have hc : c ≠ '"' := fun e => h (by simp [e])
    have hcs : '"' ∉ cs := fun e => h (by simp [e])
    simp [blank, hc, ih hcs, List.replicate_succ]

/-- a quoted name: the quotes stay, the name becomes blanks -/
theorem blank_quoted (pre name post : List Char) (hp : '"' ∉ pre) (hn : '"' ∉ name) :
    blank false (pre ++ ('"' :: (name ++ ('"' :: post)))) =
      pre ++ ('"' :: (List.replicate name.length ' ' ++ ('"' :: blank false post))) := by
  rw [blank_append_noquote _ _ _ hp, blank_noquote _ hp]
  simp only [blank, if_true, Bool.not_false]
  rw [blank_append_noquote _ _ _ hn, blank_true_noquote _ hn]
  simp [blank]

theorem dropUntil_append (c : Char) (pre rest : List Char) (h : c ∉ pre) :
    dropUntil c (pre ++ c :: rest) = some rest := by
  induction pre with
  | nil => simp [dropUntil]
  | cons x xs ih =>
    have hx : x ≠ c := fun e => h (by simp [e])
    have hxs : c ∉ xs := fun e => h (by simp [e])
    simp [dropUntil, hx, ih hxs]

theorem dropUntil_none (c : Char) (s : List Char) (h : c ∉ s) : dropUntil c s = none := by
  induction s with
  | nil => rfl
  | cons x xs ih =>
    have hx : x ≠ c := fun e => h (by simp [e])
    have hxs : c ∉ xs := fun e => h (by simp [e])
    simp [dropUntil, hx, ih hxs]

theorem takeClose_append (o c : Char) (mid rest : List Char) (ho : o ∉ mid) (hc : c ∉ mid)
    (hoc : o ≠ c) : takeClose o c 0 (mid ++ c :: rest) = some mid := by
  induction mid with
  | nil => simp [takeClose, hoc.symm]
  | cons x xs ih =>
    have hxo : x ≠ o := fun e => ho (by simp [e])
    have hxc : x ≠ c := fun e => hc (by simp [e])
    have h1 : o ∉ xs := fun e => ho (by simp [e])
    have h2 : c ∉ xs := fun e => hc (by simp [e])
    simp [takeClose, hxo, hxc, ih h1 h2]

/-- extraction of a bracketed field that is preceded by text without that bracket, where the
blanked line is known -/
theorem extract_of_blank (o c : Char) (hq : o ≠ '"') (s pre mid rest : List Char)
    (hb : blank false s = pre ++ (o :: (mid ++ (c :: rest))))
    (hpre : o ∉ pre) (ho : o ∉ mid) (hc : c ∉ mid) (hoc : o ≠ c) :
    extract o c s = some mid := by
  unfold extract
  rw [if_neg hq, hb, dropUntil_append _ _ _ hpre]
  exact takeClose_append o c mid rest ho hc hoc

theorem extract_quote (pre name post : List Char) (hp : '"' ∉ pre) (hn : '"' ∉ name)
    (hpost : '"' ∉ post) :
    extract '"' '"' (pre ++ ('"' :: (name ++ ('"' :: post)))) = some name := by
  unfold extract
  rw [if_pos rfl, dropUntil_append _ _ _ hp]
  have hr : (name ++ '"' :: post).reverse = post.reverse ++ '"' :: name.reverse := by simp
  simp only [hr]
  rw [dropUntil_append _ _ _ (by simpa using hpost)]
  simp

/-! ### numerals -/

theorem natText_ne_nil (n : Nat) : natText n ≠ [] := Nat.toDigits_ne_nil

theorem natText_isDigit (n : Nat) : ∀ c ∈ natText n, c.isDigit = true :=
  fun _ hc => Nat.isDigit_of_mem_toDigits (by omega) (by omega) hc

theorem digitsVal_natText (n : Nat) : digitsVal (natText n) = n := by
  have h := @Nat.ofDigitChars_ten_toDigits n
  rw [Nat.ofDigitChars_eq_foldl] at h
  exact h

theorem parseNat_natText (n : Nat) : parseNat (natText n) = some n := by
  unfold parseNat
  rw [if_pos]
  · rw [digitsVal_natText]
  · exact ⟨natText_ne_nil n, by simpa using natText_isDigit n⟩

theorem not_mem_of_isDigit (l : List Char) (h : ∀ c ∈ l, c.isDigit = true) (x : Char)
    (hx : x.isDigit = false) : x ∉ l := fun hm => by
  have := h x hm
  rw [hx] at this
  cases this

theorem natText_not_mem (n : Nat) (x : Char) (hx : x.isDigit = false) : x ∉ natText n :=
  not_mem_of_isDigit _ (natText_isDigit n) x hx

theorem takeWhile_all (p : Char → Bool) (l : List Char) (h : ∀ c ∈ l, p c = true) :
    l.takeWhile p = l := by
  induction l with
  | nil => rfl
  | cons x xs ih =>
    simp [List.takeWhile, h x (by simp), ih (fun c hc => h c (by simp [hc]))]

theorem stoi_natText (n : Nat) : stoi (natText n) = some n := by
  have hne := natText_ne_nil n
  have hd := natText_isDigit n
  cases hl : natText n with
  | nil => exact absurd hl hne
  | cons x xs =>
    have hx : x.isDigit = true := hd x (by simp [hl])
    have hsp : x ≠ ' ' := fun e => by rw [e] at hx; exact absurd hx (by decide)
    have hpl : x ≠ '+' := fun e => by rw [e] at hx; exact absurd hx (by decide)
    have hall : ∀ c ∈ x :: xs, c.isDigit = true := by rw [← hl]; exact hd
    unfold stoi
    have h1 : (x :: xs).dropWhile (· = ' ') = x :: xs := by simp [List.dropWhile, hsp]
    have h2 : dropPlus (x :: xs) = x :: xs := by
      unfold dropPlus
      split
      · next r heq => cases heq; exact absurd rfl hpl
      · rfl
    simp only [h1, h2]
    rw [takeWhile_all _ _ hall]
    simp only [List.cons_ne_nil, if_false]
    rw [← hl, digitsVal_natText]

theorem stoiInt_intText (i : Int) : stoiInt (intText i) = some i := by
  cases i with
  | ofNat n =>
    have hne := natText_ne_nil n
    have hd := natText_isDigit n
    have hst := stoi_natText n
    show stoiInt (natText n) = some (Int.ofNat n)
    revert hst hd
    cases hl : natText n with
    | nil => exact absurd hl hne
    | cons x xs =>
      intro hd hst
      have hx : x.isDigit = true := hd x (by simp)
      have hsp : x ≠ ' ' := fun e => by rw [e] at hx; exact absurd hx (by decide)
      have hmi : x ≠ '-' := fun e => by rw [e] at hx; exact absurd hx (by decide)
      have h1 : (x :: xs).dropWhile (· = ' ') = x :: xs := by simp [List.dropWhile, hsp]
      unfold stoiInt
      simp only [h1]
      split
      · next r heq => cases heq; exact absurd rfl hmi
      · rw [hst]; rfl
  | negSucc n =>
    unfold stoiInt intText
    have h1 : ('-' :: natText (n + 1)).dropWhile (· = ' ') = '-' :: natText (n + 1) := by
      simp [List.dropWhile]
    simp only [h1]
    rw [takeWhile_all _ _ (natText_isDigit (n + 1))]
    simp only [natText_ne_nil, if_false, digitsVal_natText]
    rfl

theorem intText_not_comma (i : Int) : ',' ∉ intText i := by
  cases i with
  | ofNat n => exact natText_not_mem n ',' (by decide)
  | negSucc n =>
    unfold intText
    simp only [List.mem_cons, not_or]
    exact ⟨by decide, natText_not_mem _ ',' (by decide)⟩

/-! ### class names -/

theorem kindOfClass_className (k : Kind) : kindOfClass (className k) = some k := by
  cases k <;> rfl

def plainChar (c : Char) : Bool :=
  c ≠ ',' && c ≠ '"' && c ≠ '<' && c ≠ '>' && c ≠ '{' && c ≠ '}' && c ≠ '(' && c ≠ ')'
    && c ≠ '[' && c ≠ ']'

theorem className_plain (k : Kind) : (className k).all plainChar = true := by
  cases k <;> decide

end Sig

namespace Sig
open Expr Engine Num

theorem sanitize_ok (s : List Char) : NameOK (sanitize s) := by
  unfold NameOK sanitize
  constructor <;>
  · intro h
    obtain ⟨c, _, hc⟩ := List.mem_map.mp h
    by_cases h1 : c = ','
    · simp [h1] at hc
    · by_cases h2 : c = '"'
      · simp [h2] at hc
      · simp [h1, h2] at hc

/-! ### headers -/

theorem className_not_mem (k : Kind) (x : Char) (hx : plainChar x = false) : x ∉ className k := by
  intro hm
  have := List.all_eq_true.mp (className_plain k) x hm
  rw [hx] at this
  cases this

theorem mem_header {k : Kind} {id : Nat} {x : Char} (h : x ∈ header k id) :
    x = '<' ∨ x = '>' ∨ x = '{' ∨ x = '}' ∨ x ∈ className k ∨ x ∈ natText id := by
  simp [header] at h
  rcases h with h | h | h | h | h | h <;> simp [h]

theorem header_not_mem (k : Kind) (id : Nat) (x : Char) (h1 : plainChar x = false)
    (h2 : x.isDigit = false) (h3 : x ≠ '<' ∧ x ≠ '>' ∧ x ≠ '{' ∧ x ≠ '}') : x ∉ header k id := by
  intro hm
  rcases mem_header hm with h | h | h | h | h | h
  · exact h3.1 h
  · exact h3.2.1 h
  · exact h3.2.2.1 h
  · exact h3.2.2.2 h
  · exact className_not_mem k x h1 h
  · exact natText_not_mem id x h2 h

theorem header_noquote (k : Kind) (id : Nat) : '"' ∉ header k id :=
  header_not_mem k id '"' (by decide) (by decide) (by decide)
theorem header_nocomma (k : Kind) (id : Nat) : ',' ∉ header k id :=
  header_not_mem k id ',' (by decide) (by decide) (by decide)
theorem header_noparen (k : Kind) (id : Nat) : '(' ∉ header k id :=
  header_not_mem k id '(' (by decide) (by decide) (by decide)
theorem header_nobracket (k : Kind) (id : Nat) : '[' ∉ header k id :=
  header_not_mem k id '[' (by decide) (by decide) (by decide)

theorem blank_header (k : Kind) (id : Nat) (rest : List Char) :
    blank false (header k id ++ rest) = header k id ++ blank false rest := by
  rw [blank_append_noquote _ _ _ (header_noquote k id), blank_noquote _ (header_noquote k id)]

theorem extract_cls (k : Kind) (id : Nat) (rest : List Char) :
    extract '<' '>' (header k id ++ rest) = some (className k) := by
  apply extract_of_blank '<' '>' (by decide) _ [] (className k)
    ('{' :: (natText id ++ ('}' :: blank false rest)))
  · rw [blank_header]; simp [header]
  · simp
  · exact className_not_mem k '<' (by decide)
  · exact className_not_mem k '>' (by decide)
  · decide

theorem extract_id (k : Kind) (id : Nat) (rest : List Char) :
    extract '{' '}' (header k id ++ rest) = some (natText id) := by
  apply extract_of_blank '{' '}' (by decide) _ ('<' :: (className k ++ ['>'])) (natText id)
    (blank false rest)
  · rw [blank_header]; simp [header]
  · simp only [List.mem_cons, List.mem_append, List.mem_singleton, not_or]
    exact ⟨by decide, className_not_mem k '{' (by decide), by decide⟩
  · exact natText_not_mem id '{' (by decide)
  · exact natText_not_mem id '}' (by decide)
  · decide

theorem extract_count (k : Kind) (id n : Nat) (rest : List Char) :
    extract '(' ')' (header k id ++ ('(' :: (natText n ++ (')' :: rest)))) = some (natText n) := by
  apply extract_of_blank '(' ')' (by decide) _ (header k id) (natText n) (blank false rest)
  · rw [blank_header]
    have hq : '"' ∉ natText n := natText_not_mem n '"' (by decide)
    simp only [blank, Char.reduceEq, if_false, Bool.false_eq_true]
    rw [blank_append_noquote _ _ _ hq, blank_noquote _ hq]
    simp [blank]
  · exact header_noparen k id
  · exact natText_not_mem n '(' (by decide)
  · exact natText_not_mem n ')' (by decide)
  · decide

theorem extract_status (k : Kind) (id st : Nat) (name rest : List Char) (hn : '"' ∉ name) :
    extract '[' ']' (header k id ++ ('"' :: (name ++ ('"' :: ('[' :: (natText st ++ (']' :: rest)))))))
      = some (natText st) := by
  apply extract_of_blank '[' ']' (by decide) _
    (header k id ++ ('"' :: (List.replicate name.length ' ' ++ ['"']))) (natText st) (blank false rest)
  · rw [blank_quoted _ _ _ (header_noquote k id) hn]
    have hq : '"' ∉ natText st := natText_not_mem st '"' (by decide)
    simp only [blank, Char.reduceEq, if_false, Bool.false_eq_true]
    rw [blank_append_noquote _ _ _ hq, blank_noquote _ hq]
    simp [blank]
  · simp only [List.mem_append, List.mem_cons, List.mem_replicate, List.mem_singleton, not_or]
    refine ⟨header_nobracket k id, by decide, ?_, by decide⟩
    intro h; exact absurd h.2 (by decide)
  · exact natText_not_mem st '[' (by decide)
  · exact natText_not_mem st ']' (by decide)
  · decide

theorem extract_name (k : Kind) (id : Nat) (name post : List Char) (hn : '"' ∉ name)
    (hp : '"' ∉ post) :
    extract '"' '"' (header k id ++ ('"' :: (name ++ ('"' :: post)))) = some name :=
  extract_quote _ _ _ (header_noquote k id) hn hp

/-! ### lists of items -/

theorem mapMOpt_range' {γ : Type} (f : Nat → Option γ) (xs : List γ) (off : Nat)
    (h : ∀ i (hi : i < xs.length), f (off + i) = some xs[i]) :
    mapMOpt f (List.range' off xs.length) = some xs := by
  induction xs generalizing off with
  | nil => rfl
  | cons x xs ih =>
    have h0 : f off = some x := by have := h 0 (by simp); simpa using this
    have hs : ∀ i (hi : i < xs.length), f (off + 1 + i) = some xs[i] := by
      intro i hi
      have := h (i + 1) (by simp; omega)
      simpa [Nat.add_assoc, Nat.add_comm 1 i] using this
    simp only [List.length_cons, List.range'_succ, mapMOpt, h0, Option.bind_some, ih (off + 1) hs,
      Option.map_some]

theorem mapMOpt_range {γ : Type} (f : Nat → Option γ) (xs : List γ)
    (h : ∀ i (hi : i < xs.length), f i = some xs[i]) :
    mapMOpt f (List.range xs.length) = some xs := by
  rw [List.range_eq_range']
  exact mapMOpt_range' f xs 0 (by simpa using h)

theorem mapMOpt_range_n {γ : Type} (f : Nat → Option γ) (xs : List γ) (n : Nat) (hn : xs.length = n)
    (h : ∀ i (hi : i < xs.length), f i = some xs[i]) : mapMOpt f (List.range n) = some xs := by
  subst hn; exact mapMOpt_range f xs h

theorem interleave_get (as bs : List (List Char)) (h : as.length = bs.length) (i : Nat) :
    (interleave as bs)[2 * i]? = as[i]? ∧ (interleave as bs)[2 * i + 1]? = bs[i]? := by
  induction as generalizing bs i with
  | nil => cases bs <;> simp [interleave] at *
  | cons a as ih =>
    cases bs with
    | nil => simp at h
    | cons b bs =>
      cases i with
      | zero => simp [interleave]
      | succ i =>
        have := ih bs (by simpa using h) i
        simp only [interleave, Nat.mul_succ, List.getElem?_cons_succ]
        exact this

theorem interleave3_get (as bs cs : List (List Char)) (h1 : as.length = bs.length)
    (h2 : as.length = cs.length) (i : Nat) :
    (interleave3 as bs cs)[3 * i]? = as[i]? ∧ (interleave3 as bs cs)[3 * i + 1]? = bs[i]? ∧
      (interleave3 as bs cs)[3 * i + 2]? = cs[i]? := by
  induction as generalizing bs cs i with
  | nil => cases bs <;> cases cs <;> simp [interleave3] at *
  | cons a as ih =>
    cases bs with
    | nil => simp at h1
    | cons b bs =>
      cases cs with
      | nil => simp at h2
      | cons c cs =>
        cases i with
        | zero => simp [interleave3]
        | succ i =>
          have := ih bs cs (by simpa using h1) (by simpa using h2) i
          simp only [interleave3, Nat.mul_succ, List.getElem?_cons_succ]
          exact this

theorem linFields_get (info : Nat → Nat × List Char) (bs vs : List Nat) (h : bs.length = vs.length)
    (i : Nat) :
    (linFields info bs vs)[6 * i]? = (bs[i]?).map natText ∧
    (linFields info bs vs)[6 * i + 1]? = (bs[i]?).map (fun b => natText (info b).1) ∧
    (linFields info bs vs)[6 * i + 3]? = (vs[i]?).map natText ∧
    (linFields info bs vs)[6 * i + 4]? = (vs[i]?).map (fun v => natText (info v).1) := by
  induction bs generalizing vs i with
  | nil => cases vs <;> simp [linFields] at *
  | cons b bs ih =>
    cases vs with
    | nil => simp at h
    | cons v vs =>
      cases i with
      | zero => simp [linFields]
      | succ i =>
        have := ih vs (by simpa using h) i
        simp only [linFields, Nat.mul_succ, List.getElem?_cons_succ]
        exact this

theorem linFields_nocomma (info : Nat → Nat × List Char) (bs vs : List Nat) :
    ∀ f ∈ linFields info bs vs, ',' ∉ f := by
  induction bs generalizing vs with
  | nil => intro f hf; cases vs <;> simp [linFields] at hf
  | cons b bs ih =>
    cases vs with
    | nil => intro f hf; simp [linFields] at hf
    | cons v vs =>
      intro f hf
      simp only [linFields, List.mem_cons] at hf
      rcases hf with h | h | h | h | h | h | h
      · rw [h]; exact natText_not_mem _ ',' (by decide)
      · rw [h]; exact natText_not_mem _ ',' (by decide)
      · rw [h]; exact (sanitize_ok _).1
      · rw [h]; exact natText_not_mem _ ',' (by decide)
      · rw [h]; exact natText_not_mem _ ',' (by decide)
      · rw [h]; exact (sanitize_ok _).1
      · exact ih vs f h

theorem interleave_nocomma (as bs : List (List Char)) (ha : ∀ f ∈ as, ',' ∉ f)
    (hb : ∀ f ∈ bs, ',' ∉ f) : ∀ f ∈ interleave as bs, ',' ∉ f := by
  induction as generalizing bs with
  | nil => intro f hf; cases bs <;> simp [interleave] at hf
  | cons a as ih =>
    cases bs with
    | nil => intro f hf; simp [interleave] at hf
    | cons b bs =>
      intro f hf
      simp only [interleave, List.mem_cons] at hf
      rcases hf with h | h | h
      · rw [h]; exact ha a (by simp)
      · rw [h]; exact hb b (by simp)
      · exact ih bs (fun c hc => ha c (by simp [hc])) (fun c hc => hb c (by simp [hc])) f h

theorem interleave3_nocomma (as bs cs : List (List Char)) (ha : ∀ f ∈ as, ',' ∉ f)
    (hb : ∀ f ∈ bs, ',' ∉ f) (hc : ∀ f ∈ cs, ',' ∉ f) : ∀ f ∈ interleave3 as bs cs, ',' ∉ f := by
  induction as generalizing bs cs with
  | nil => intro f hf; cases bs <;> cases cs <;> simp [interleave3] at hf
  | cons a as ih =>
    cases bs with
    | nil => intro f hf; simp [interleave3] at hf
    | cons b bs =>
      cases cs with
      | nil => intro f hf; simp [interleave3] at hf
      | cons c cs =>
        intro f hf
        simp only [interleave3, List.mem_cons] at hf
        rcases hf with h | h | h | h
        · rw [h]; exact ha a (by simp)
        · rw [h]; exact hb b (by simp)
        · rw [h]; exact hc c (by simp)
        · exact ih bs cs (fun x hx => ha x (by simp [hx])) (fun x hx => hb x (by simp [hx]))
            (fun x hx => hc x (by simp [hx])) f h

theorem map_natText_nocomma (l : List Nat) : ∀ f ∈ l.map natText, ',' ∉ f := by
  intro f hf
  obtain ⟨n, _, rfl⟩ := List.mem_map.mp hf
  exact natText_not_mem n ',' (by decide)

theorem map_intText_nocomma (l : List Int) : ∀ f ∈ l.map intText, ',' ∉ f := by
  intro f hf
  obtain ⟨n, _, rfl⟩ := List.mem_map.mp hf
  exact intText_not_comma n

end Sig

namespace Sig
open Expr Engine Num
variable {α : Type} [NumOps α]

theorem parse_render_num (txt : α → List Char) (numOf : List Char → Option α)
    (info : Nat → Nat × List Char) (l : SigLine α) (hk : l.kind = .num)
    (h : TextWF txt numOf l) :
    parseLine numOf (renderLine txt info l) = some (canon l) := by
  have hv := h.vals l.value (Or.inl rfl)
  have hline : renderLine txt info l = header .num l.id ++ commaJoin [txt l.value] := by
    simp [renderLine, linePre, lineFields, hk]
  have hit : items (renderLine txt info l) = header .num l.id :: [txt l.value] := by
    rw [hline]; exact items_line _ _ (header_nocomma _ _) (by simpa using hv.1)
  unfold parseLine
  rw [hit, hline, extract_cls, extract_id]
  simp [parseNat_natText, kindOfClass_className, getItem, hv.2, canon, hk, emptyLine]

end Sig

namespace Sig
open Expr Engine Num
variable {α : Type} [NumOps α]

theorem linePre_nocomma (l : SigLine α) : ',' ∉ linePre l := by
  have hn := (sanitize_ok l.name.toList).1
  have hh : ∀ k, ',' ∉ header k l.id := fun k => header_nocomma k l.id
  have hd : ∀ n, ',' ∉ natText n := fun n => natText_not_mem n ',' (by decide)
  unfold linePre
  cases hk : l.kind
  case beta => simp [hh, hd, hn]
  case var => simp [hh, hd, hn]
  all_goals simp [hh, hd]

theorem lineFields_nocomma (txt : α → List Char) (numOf : List Char → Option α)
    (info : Nat → Nat × List Char) (l : SigLine α) (h : TextWF txt numOf l) :
    ∀ f ∈ lineFields txt info l, ',' ∉ f := by
  have hd : ∀ n, ',' ∉ natText n := fun n => natText_not_mem n ',' (by decide)
  have hv := (h.vals l.value (Or.inl rfl)).1
  have hm : ∀ f ∈ l.members.map txt, ',' ∉ f := by
    intro f hf
    obtain ⟨v, hv, rfl⟩ := List.mem_map.mp hf
    exact (h.vals v (Or.inr hv)).1
  intro f hf
  unfold lineFields at hf
  cases hk : l.kind <;> simp only [hk] at hf
  case num => simp at hf; rw [hf]; exact hv
  case beta => simp at hf; rcases hf with rfl | rfl <;> exact hd _
  case var => simp at hf; rcases hf with rfl | rfl <;> exact hd _
  case powConst =>
    rcases List.mem_append.mp hf with h1 | h1
    · exact map_natText_nocomma _ f h1
    · simp at h1; rw [h1]; exact hv
  case belongsTo =>
    rcases List.mem_append.mp hf with h1 | h1
    · exact map_natText_nocomma _ f h1
    · exact hm f h1
  case elem =>
    rcases List.mem_append.mp hf with h1 | h1
    · exact map_natText_nocomma _ f h1
    · exact interleave_nocomma _ _ (map_intText_nocomma _) (map_natText_nocomma _) f h1
  case linUtil =>
    exact linFields_nocomma info _ _ f hf
  case logLogit =>
    rcases List.mem_append.mp hf with h1 | h1
    · exact map_natText_nocomma _ f h1
    · exact interleave3_nocomma _ _ _ (map_intText_nocomma _) (map_natText_nocomma _)
        (map_natText_nocomma _) f h1
  all_goals exact map_natText_nocomma _ f hf

theorem items_render (txt : α → List Char) (numOf : List Char → Option α)
    (info : Nat → Nat × List Char) (l : SigLine α) (h : TextWF txt numOf l) :
    items (renderLine txt info l) = linePre l :: lineFields txt info l :=
  items_line _ _ (linePre_nocomma l) (lineFields_nocomma txt numOf info l h)

end Sig

namespace Sig
open Expr Engine Num
variable {α : Type} [NumOps α]

theorem parse_render_beta (txt : α → List Char) (numOf : List Char → Option α)
    (info : Nat → Nat × List Char) (l : SigLine α) (hk : l.kind = .beta)
    (h : TextWF txt numOf l) :
    parseLine numOf (renderLine txt info l) = some (canon l) := by
  have hn := sanitize_ok l.name.toList
  have hit := items_render txt numOf info l h
  have hf : lineFields txt info l = [natText l.uid, natText l.slot] := by simp [lineFields, hk]
  have hline : renderLine txt info l = header .beta l.id ++
      ('"' :: (sanitize l.name.toList ++ ('"' :: ('[' :: (natText l.status ++
        (']' :: commaJoin [natText l.uid, natText l.slot])))))) := by
    simp [renderLine, linePre, lineFields, hk]
  have hpost : '"' ∉ ('[' :: (natText l.status ++ (']' :: commaJoin [natText l.uid, natText l.slot]))) := by
    have hd : ∀ n, '"' ∉ natText n := fun n => natText_not_mem n '"' (by decide)
    simp [commaJoin, hd]
  unfold parseLine
  rw [hit, hf, hline, extract_cls, extract_id, extract_name _ _ _ _ hn.2 hpost,
    extract_status _ _ _ _ _ hn.2]
  simp [parseNat_natText, kindOfClass_className, getItem, stoi_natText, canon, hk, emptyLine]

theorem parse_render_var (txt : α → List Char) (numOf : List Char → Option α)
    (info : Nat → Nat × List Char) (l : SigLine α) (hk : l.kind = .var)
    (h : TextWF txt numOf l) :
    parseLine numOf (renderLine txt info l) = some (canon l) := by
  have hn := sanitize_ok l.name.toList
  have hit := items_render txt numOf info l h
  have hf : lineFields txt info l = [natText l.uid, natText l.slot] := by simp [lineFields, hk]
  have hline : renderLine txt info l = header .var l.id ++
      ('"' :: (sanitize l.name.toList ++ ('"' :: commaJoin [natText l.uid, natText l.slot]))) := by
    simp [renderLine, linePre, lineFields, hk]
  have hpost : '"' ∉ commaJoin [natText l.uid, natText l.slot] := by
    have hd : ∀ n, '"' ∉ natText n := fun n => natText_not_mem n '"' (by decide)
    simp [commaJoin, hd]
  unfold parseLine
  rw [hit, hf, hline, extract_cls, extract_id, extract_name _ _ _ _ hn.2 hpost]
  simp [parseNat_natText, kindOfClass_className, getItem, stoi_natText, canon, hk, emptyLine]

end Sig

namespace Sig
open Expr Engine Num
variable {α : Type} [NumOps α]

theorem length_two {β : Type} (l : List β) (h : l.length = 2) : ∃ a b, l = [a, b] := by
  match l, h with
  | [a, b], _ => exact ⟨a, b, rfl⟩

theorem length_one {β : Type} (l : List β) (h : l.length = 1) : ∃ a, l = [a] := by
  match l, h with
  | [a], _ => exact ⟨a, rfl⟩

theorem parse_render_binary (txt : α → List Char) (numOf : List Char → Option α)
    (info : Nat → Nat × List Char) (l : SigLine α) (hs : shapeOf l.kind = .binary)
    (h : TextWF txt numOf l) :
    parseLine numOf (renderLine txt info l) = some (canon l) := by
  have hit := items_render txt numOf info l h
  have har := h.arity
  cases hk : l.kind <;> simp [shapeOf, hk] at hs <;>
  ( have hlen : l.children.length = 2 := by simpa [arityOK, hk, shapeOf] using har
    obtain ⟨a, b, hc⟩ := length_two _ hlen
    have hf : lineFields txt info l = [natText a, natText b] := by simp [lineFields, hk, hc]
    have hline : renderLine txt info l = header l.kind l.id ++
        ('(' :: (natText 2 ++ (')' :: commaJoin [natText a, natText b]))) := by
      simp [renderLine, linePre, lineFields, hk, hc]
    unfold parseLine
    rw [hit, hf, hline, extract_cls, extract_id, extract_count]
    simp [parseNat_natText, kindOfClass_className, getItem, childAt, stoi_natText, canon, hk,
      emptyLine, shapeOf, hc] )

theorem parse_render_unary (txt : α → List Char) (numOf : List Char → Option α)
    (info : Nat → Nat × List Char) (l : SigLine α) (hs : shapeOf l.kind = .unary)
    (h : TextWF txt numOf l) :
    parseLine numOf (renderLine txt info l) = some (canon l) := by
  have hit := items_render txt numOf info l h
  have har := h.arity
  cases hk : l.kind <;> simp [shapeOf, hk] at hs <;>
  ( have hlen : l.children.length = 1 := by simpa [arityOK, hk, shapeOf] using har
    obtain ⟨a, hc⟩ := length_one _ hlen
    have hf : lineFields txt info l = [natText a] := by simp [lineFields, hk, hc]
    have hline : renderLine txt info l = header l.kind l.id ++
        ('(' :: (natText 1 ++ (')' :: commaJoin [natText a]))) := by
      simp [renderLine, linePre, lineFields, hk, hc]
    unfold parseLine
    rw [hit, hf, hline, extract_cls, extract_id]
    simp [parseNat_natText, kindOfClass_className, getItem, childAt, canon, hk,
      emptyLine, shapeOf, hc] )

theorem parse_render_powConst (txt : α → List Char) (numOf : List Char → Option α)
    (info : Nat → Nat × List Char) (l : SigLine α) (hk : l.kind = .powConst)
    (h : TextWF txt numOf l) :
    parseLine numOf (renderLine txt info l) = some (canon l) := by
  have hit := items_render txt numOf info l h
  have hv := h.vals l.value (Or.inl rfl)
  have hlen : l.children.length = 1 := by simpa [arityOK, hk] using h.arity
  obtain ⟨a, hc⟩ := length_one _ hlen
  have hf : lineFields txt info l = [natText a, txt l.value] := by simp [lineFields, hk, hc]
  have hline : renderLine txt info l = header .powConst l.id ++
      commaJoin [natText a, txt l.value] := by
    simp [renderLine, linePre, lineFields, hk, hc]
  unfold parseLine
  rw [hit, hf, hline, extract_cls, extract_id]
  simp [parseNat_natText, kindOfClass_className, getItem, childAt, canon, hk, emptyLine, hc, hv.2]

end Sig

namespace Sig
open Expr Engine Num
variable {α : Type} [NumOps α]

theorem getElem?_cons_one {β : Type} (a : β) (L : List β) (j : Nat) : (a :: L)[1 + j]? = L[j]? := by
  rw [Nat.add_comm]; simp

theorem getElem?_cons_two {β : Type} (a b : β) (L : List β) (j : Nat) :
    (a :: b :: L)[2 + j]? = L[j]? := by
  have : 2 + j = j + 1 + 1 := by omega
  rw [this]; simp

theorem childAt_natTexts (pre : List Char) (cs : List Nat) (i : Nat) (hi : i < cs.length) :
    childAt (pre :: cs.map natText) (1 + i) = some cs[i] := by
  unfold childAt getItem
  rw [getElem?_cons_one]
  simp [hi, parseNat_natText]

theorem parse_render_multSum (txt : α → List Char) (numOf : List Char → Option α)
    (info : Nat → Nat × List Char) (l : SigLine α) (hk : l.kind = .multSum)
    (h : TextWF txt numOf l) :
    parseLine numOf (renderLine txt info l) = some (canon l) := by
  have hit := items_render txt numOf info l h
  have hf : lineFields txt info l = l.children.map natText := by simp [lineFields, hk]
  have hline : renderLine txt info l = header .multSum l.id ++
      ('(' :: (natText l.children.length ++ (')' :: commaJoin (l.children.map natText)))) := by
    simp [renderLine, linePre, lineFields, hk]
  have hcs : mapMOpt (fun i => childAt (linePre l :: l.children.map natText) (1 + i))
      (List.range l.children.length) = some l.children :=
    mapMOpt_range _ _ (fun i hi => childAt_natTexts _ _ i hi)
  unfold parseLine
  rw [hit, hf, hline, extract_cls, extract_id, extract_count]
  simp [parseNat_natText, kindOfClass_className, stoi_natText, canon, hk, emptyLine, hcs]

theorem parse_render_condSum (txt : α → List Char) (numOf : List Char → Option α)
    (info : Nat → Nat × List Char) (l : SigLine α) (hk : l.kind = .condSum)
    (h : TextWF txt numOf l) :
    parseLine numOf (renderLine txt info l) = some (canon l) := by
  have hit := items_render txt numOf info l h
  have hev : l.children.length % 2 = 0 := by simpa [arityOK, hk] using h.arity
  have hf : lineFields txt info l = l.children.map natText := by simp [lineFields, hk]
  have hline : renderLine txt info l = header .condSum l.id ++
      ('(' :: (natText (l.children.length / 2) ++ (')' :: commaJoin (l.children.map natText)))) := by
    simp [renderLine, linePre, lineFields, hk]
  have hcs : mapMOpt (fun i => childAt (linePre l :: l.children.map natText) (1 + i))
      (List.range (2 * (l.children.length / 2))) = some l.children :=
    mapMOpt_range_n _ _ _ (by omega) (fun i hi => childAt_natTexts _ _ i hi)
  unfold parseLine
  rw [hit, hf, hline, extract_cls, extract_id, extract_count]
  simp [parseNat_natText, kindOfClass_className, stoi_natText, canon, hk, emptyLine, hcs]

theorem parse_render_belongsTo (txt : α → List Char) (numOf : List Char → Option α)
    (info : Nat → Nat × List Char) (l : SigLine α) (hk : l.kind = .belongsTo)
    (h : TextWF txt numOf l) :
    parseLine numOf (renderLine txt info l) = some (canon l) := by
  have hit := items_render txt numOf info l h
  have hlen : l.children.length = 1 := by simpa [arityOK, hk] using h.arity
  obtain ⟨a, hc⟩ := length_one _ hlen
  have hf : lineFields txt info l = natText a :: l.members.map txt := by simp [lineFields, hk, hc]
  have hline : renderLine txt info l = header .belongsTo l.id ++
      ('(' :: (natText l.members.length ++ (')' :: commaJoin (natText a :: l.members.map txt)))) := by
    simp [renderLine, linePre, lineFields, hk, hc]
  have hms : mapMOpt (fun i => ((linePre l :: natText a :: l.members.map txt)[2 + i]?).bind numOf)
      (List.range l.members.length) = some l.members := by
    apply mapMOpt_range
    intro i hi
    rw [getElem?_cons_two]
    simp [hi, (h.vals l.members[i] (Or.inr (List.getElem_mem hi))).2]
  unfold parseLine
  rw [hit, hf, hline, extract_cls, extract_id, extract_count]
  simp [parseNat_natText, kindOfClass_className, stoi_natText, canon, hk, emptyLine, hms, childAt,
    getItem, hc]

end Sig

namespace Sig
open Expr Engine Num
variable {α : Type} [NumOps α]

theorem parse_render_elem (txt : α → List Char) (numOf : List Char → Option α)
    (info : Nat → Nat × List Char) (l : SigLine α) (hk : l.kind = .elem)
    (h : TextWF txt numOf l) :
    parseLine numOf (renderLine txt info l) = some (canon l) := by
  have hit := items_render txt numOf info l h
  have hlen : l.children.length = l.keys.length + 1 := by simpa [arityOK, hk] using h.arity
  obtain ⟨c0, cs, hc⟩ : ∃ c0 cs, l.children = c0 :: cs := by
    cases hcc : l.children with
    | nil => simp [hcc] at hlen
    | cons a b => exact ⟨a, b, rfl⟩
  have hcl : cs.length = l.keys.length := by simpa [hc] using hlen
  have hf : lineFields txt info l =
      natText c0 :: interleave (l.keys.map intText) (cs.map natText) := by
    simp [lineFields, hk, hc]
  have hline : renderLine txt info l = header .elem l.id ++
      ('(' :: (natText l.keys.length ++ (')' :: commaJoin
        (natText c0 :: interleave (l.keys.map intText) (cs.map natText))))) := by
    simp [renderLine, linePre, lineFields, hk, hc]
  have hil := interleave_get (l.keys.map intText) (cs.map natText) (by simp [hcl])
  have hks : mapMOpt (fun i => ((linePre l :: natText c0 ::
        interleave (l.keys.map intText) (cs.map natText))[2 + 2 * i]?).bind stoiInt)
      (List.range l.keys.length) = some l.keys := by
    apply mapMOpt_range
    intro i hi
    rw [getElem?_cons_two, (hil i).1]
    simp [hi, stoiInt_intText]
  have hcs : mapMOpt (fun i => ((natText c0 ::
        interleave (l.keys.map intText) (cs.map natText))[2 + 2 * i]?).bind parseNat)
      (List.range l.keys.length) = some cs := by
    apply mapMOpt_range_n _ _ _ hcl
    intro i hi
    have : 2 + 2 * i = 1 + (2 * i + 1) := by omega
    rw [this, getElem?_cons_one, (hil i).2]
    simp [hi, parseNat_natText]
  unfold parseLine
  rw [hit, hf, hline, extract_cls, extract_id, extract_count]
  simp [parseNat_natText, kindOfClass_className, stoi_natText, canon, hk, emptyLine, childAt,
    getItem, hc, hks, hcs]

theorem parse_render_linUtil (txt : α → List Char) (numOf : List Char → Option α)
    (info : Nat → Nat × List Char) (l : SigLine α) (hk : l.kind = .linUtil)
    (h : TextWF txt numOf l) :
    parseLine numOf (renderLine txt info l) = some (canon l) := by
  have hit := items_render txt numOf info l h
  have hev : l.children.length % 2 = 0 := by simpa [arityOK, hk] using h.arity
  generalize hh : l.children.length / 2 = hN
  have hbl : (l.children.take hN).length = hN := by simp; omega
  have hvl : (l.children.drop hN).length = hN := by simp; omega
  have hf : lineFields txt info l = linFields info (l.children.take hN) (l.children.drop hN) := by
    simp [lineFields, hk, hh]
  have hline : renderLine txt info l = header .linUtil l.id ++
      ('(' :: (natText hN ++ (')' :: commaJoin
        (linFields info (l.children.take hN) (l.children.drop hN))))) := by
    simp [renderLine, linePre, lineFields, hk, hh]
  have hg := linFields_get info (l.children.take hN) (l.children.drop hN) (by rw [hbl, hvl])
  have e1 : ∀ i, i * 6 = 6 * i := fun i => by omega
  have e2 : ∀ i, i * 6 + 1 = 6 * i + 1 := fun i => by omega
  have e4 : ∀ i, i * 6 + 3 = 6 * i + 3 := fun i => by omega
  have e5 : ∀ i, i * 6 + 4 = 6 * i + 4 := fun i => by omega
  have hbs : mapMOpt (fun i => ((linFields info (l.children.take hN)
        (l.children.drop hN))[i * 6]?).bind parseNat) (List.range hN)
      = some (l.children.take hN) := by
    apply mapMOpt_range_n _ _ _ hbl
    intro i hi
    rw [e1, (hg i).1]
    simp [List.getElem?_eq_getElem hi, parseNat_natText]
  have hbu : (mapMOpt (fun i => ((linFields info (l.children.take hN)
        (l.children.drop hN))[i * 6 + 1]?).bind stoi) (List.range hN)).isSome = true := by
    rw [mapMOpt_range_n _ ((l.children.take hN).map fun b => (info b).1) _ (by simpa using hbl)]
    · rfl
    · intro i hi
      have hi' : i < (l.children.take hN).length := by simpa using hi
      rw [e2, (hg i).2.1]
      simp [List.getElem?_eq_getElem hi', stoi_natText]
  have hvs : mapMOpt (fun i => ((linFields info (l.children.take hN)
        (l.children.drop hN))[i * 6 + 3]?).bind parseNat) (List.range hN)
      = some (l.children.drop hN) := by
    apply mapMOpt_range_n _ _ _ hvl
    intro i hi
    rw [e4, (hg i).2.2.1]
    simp [List.getElem?_eq_getElem hi, parseNat_natText]
  have hvu : (mapMOpt (fun i => ((linFields info (l.children.take hN)
        (l.children.drop hN))[i * 6 + 4]?).bind stoi) (List.range hN)).isSome = true := by
    rw [mapMOpt_range_n _ ((l.children.drop hN).map fun b => (info b).1) _ (by simpa using hvl)]
    · rfl
    · intro i hi
      have hi' : i < (l.children.drop hN).length := by simpa using hi
      rw [e5, (hg i).2.2.2]
      simp [List.getElem?_eq_getElem hi', stoi_natText]
  obtain ⟨xb, hxb⟩ := Option.isSome_iff_exists.mp hbu
  obtain ⟨xv, hxv⟩ := Option.isSome_iff_exists.mp hvu
  unfold parseLine
  rw [hit, hf, hline, extract_cls, extract_id, extract_count]
  simp [parseNat_natText, kindOfClass_className, stoi_natText, canon, hk, emptyLine, childAt,
    getItem, hbs, hvs, hxb, hxv]

end Sig

namespace Sig
open Expr Engine Num
variable {α : Type} [NumOps α]

theorem parse_render_logLogit (txt : α → List Char) (numOf : List Char → Option α)
    (info : Nat → Nat × List Char) (l : SigLine α) (hk : l.kind = .logLogit)
    (h : TextWF txt numOf l) :
    parseLine numOf (renderLine txt info l) = some (canon l) := by
  have hit := items_render txt numOf info l h
  have hlen : l.children.length = 2 * l.keys.length + 1 := by simpa [arityOK, hk] using h.arity
  obtain ⟨c0, rest, hc⟩ : ∃ c0 rest, l.children = c0 :: rest := by
    cases hcc : l.children with
    | nil => simp [hcc] at hlen
    | cons a b => exact ⟨a, b, rfl⟩
  generalize hm : l.keys.length = m at *
  have hrl : rest.length = 2 * m := by simpa [hc] using hlen
  have hul : (rest.take m).length = m := by simp; omega
  have hal : (rest.drop m).length = m := by simp; omega
  have hd1 : ∀ (a : List Char) (L : List (List Char)), List.drop (1 + m) (a :: L) = List.drop m L := by
    intro a L; rw [Nat.add_comm]; rfl
  have hf : lineFields txt info l = natText c0 ::
      interleave3 (l.keys.map intText) ((rest.take m).map natText) ((rest.drop m).map natText) := by
    simp [lineFields, hk, hc, hm, hd1]
  have hline : renderLine txt info l = header .logLogit l.id ++
      ('(' :: (natText m ++ (')' :: commaJoin (natText c0 ::
        interleave3 (l.keys.map intText) ((rest.take m).map natText) ((rest.drop m).map natText))))) := by
    simp [renderLine, linePre, lineFields, hk, hc, hm, hd1]
  have hil := interleave3_get (l.keys.map intText) ((rest.take m).map natText)
    ((rest.drop m).map natText) (by simp [hm]; omega) (by simp [hm]; omega)
  have hks : mapMOpt (fun i => ((linePre l :: natText c0 :: interleave3 (l.keys.map intText)
        ((rest.take m).map natText) ((rest.drop m).map natText))[2 + 3 * i]?).bind stoiInt)
      (List.range m) = some l.keys := by
    apply mapMOpt_range_n _ _ _ hm
    intro i hi
    rw [getElem?_cons_two, (hil i).1]
    simp [hi, stoiInt_intText]
  have hus : mapMOpt (fun i => ((natText c0 :: interleave3 (l.keys.map intText)
        ((rest.take m).map natText) ((rest.drop m).map natText))[2 + 3 * i]?).bind parseNat)
      (List.range m) = some (rest.take m) := by
    apply mapMOpt_range_n _ _ _ hul
    intro i hi
    have : 2 + 3 * i = 1 + (3 * i + 1) := by omega
    rw [this, getElem?_cons_one, (hil i).2.1, List.getElem?_map, List.getElem?_eq_getElem hi]
    simp [parseNat_natText]
  have has : mapMOpt (fun i => ((interleave3 (l.keys.map intText)
        ((rest.take m).map natText) ((rest.drop m).map natText))[2 + 3 * i]?).bind parseNat)
      (List.range m) = some (rest.drop m) := by
    apply mapMOpt_range_n _ _ _ hal
    intro i hi
    have : 2 + 3 * i = 3 * i + 2 := by omega
    rw [this, (hil i).2.2, List.getElem?_map, List.getElem?_eq_getElem hi]
    simp [parseNat_natText]
  simp only [List.map_take, List.map_drop] at hks hus has
  unfold parseLine
  rw [hit, hf, hline, extract_cls, extract_id, extract_count]
  simp [parseNat_natText, kindOfClass_className, stoi_natText, canon, hk, emptyLine, childAt,
    getItem, hc, hks, hus, has]

/-- **the engine's reader inverts the Python writer**, line by line -/
theorem parse_render (txt : α → List Char) (numOf : List Char → Option α)
    (info : Nat → Nat × List Char) (l : SigLine α) (h : TextWF txt numOf l) :
    parseLine numOf (renderLine txt info l) = some (canon l) := by
  cases hs : shapeOf l.kind
  case binary => exact parse_render_binary txt numOf info l hs h
  case unary => exact parse_render_unary txt numOf info l hs h
  all_goals
    cases hk : l.kind <;> simp [shapeOf, hk] at hs
  case literal.num => exact parse_render_num txt numOf info l hk h
  case elementary.beta => exact parse_render_beta txt numOf info l hk h
  case elementary.var => exact parse_render_var txt numOf info l hk h
  case unaryArg.powConst => exact parse_render_powConst txt numOf info l hk h
  case counted.belongsTo => exact parse_render_belongsTo txt numOf info l hk h
  case counted.elem => exact parse_render_elem txt numOf info l hk h
  case counted.multSum => exact parse_render_multSum txt numOf info l hk h
  case counted.condSum => exact parse_render_condSum txt numOf info l hk h
  case counted.linUtil => exact parse_render_linUtil txt numOf info l hk h
  case counted.logLogit => exact parse_render_logLogit txt numOf info l hk h

end Sig

namespace Sig
open Expr Engine Num
variable {α : Type} [NumOps α]

theorem canon_id (l : SigLine α) : (canon l).id = l.id := by
  unfold canon; cases l.kind <;> rfl

theorem canon_children (l : SigLine α) (h : arityOK l = true) : (canon l).children = l.children := by
  unfold canon
  cases hk : l.kind <;> simp [emptyLine]
  all_goals
    have : l.children.length = 0 := by simpa [arityOK, hk] using h
    exact (List.length_eq_zero_iff.mp this)

theorem lineSem_canon (l : SigLine α) : lineSem (canon l) = lineSem l := by
  funext ee rs
  cases hk : l.kind <;>
    simp [lineSem, canon, hk, emptyLine, toNode, semEngine, semCommon]

theorem loadLine_canon (s : Store α) (l : SigLine α) (h : arityOK l = true) :
    loadLine s (canon l) = loadLine s l := by
  unfold loadLine compile
  rw [canon_id, canon_children l h, lineSem_canon]

theorem loadText_render (txt : α → List Char) (numOf : List Char → Option α)
    (info : Nat → Nat × List Char) (ls : List (SigLine α))
    (hwf : ∀ l ∈ ls, TextWF txt numOf l) (s : Store α) :
    loadText numOf s (ls.map (renderLine txt info)) = some (load s ls) := by
  induction ls generalizing s with
  | nil => rfl
  | cons l ls ih =>
    have hl := hwf l (by simp)
    simp only [List.map_cons, loadText, parse_render txt numOf info l hl, load, List.foldl_cons,
      loadLine_canon s l hl.arity]
    exact ih (fun x hx => hwf x (by simp [hx])) _

theorem emit_mem (t : IdM.Table String) (d : Dag α) (fuel k : Nat) (l : SigLine α)
    (h : l ∈ emit t d fuel k) : ∃ j n, d[j]? = some n ∧ l = lineOf t j n := by
  induction fuel generalizing k with
  | zero => simp [emit] at h
  | succ fuel ih =>
    unfold emit at h
    cases hd : d[k]? with
    | none => simp [hd] at h
    | some n =>
      simp only [hd, List.mem_append, List.mem_flatMap, List.mem_singleton] at h
      rcases h with ⟨c, _, hc⟩ | rfl
      · exact ih c hc
      · exact ⟨k, n, hd, rfl⟩

theorem runText_eq_run (txt : α → List Char) (numOf : List Char → Option α)
    (info : Nat → Nat × List Char) (t : IdM.Table String) (d : Dag α) (k : Nat) (ee : EngEnv α)
    (hwf : ∀ j n, d[j]? = some n → TextWF txt numOf (lineOf t j n)) :
    runText txt numOf info t d k ee = run t d k ee := by
  unfold runText run
  rw [loadText_render txt numOf info _ (fun l hl => by
    obtain ⟨j, n, hj, rfl⟩ := emit_mem t d _ _ l hl
    exact hwf j n hj)]
  split <;> rfl

end Sig
