/-
Helper lemmas for Props/C08.lean: the list-of-rows matrices of Model/Stats.lean seen as
Mathlib matrices (leading n×n block), uniqueness of the Moore–Penrose pseudo-inverse, and the
real-number reading of the statistics formulas.
-/
import Model.Stats
import Proofs.NumReal
import Mathlib.Data.Matrix.Mul
import Mathlib.Data.Matrix.Diagonal
import Mathlib.LinearAlgebra.Matrix.NonsingularInverse
import Mathlib.Algebra.BigOperators.Fin

namespace Stats

section generic
variable {α : Type} [NumOps α]

theorem vget_map_range (c : Nat) (g : Nat → α) (j : Nat) (hj : j < c) :
    vget ((List.range c).map g) j = g j := by
  unfold vget
  simp [List.getD_eq_getElem?_getD, hj]

theorem ent_build (r c : Nat) (f : Nat → Nat → α) (i j : Nat) (hi : i < r) (hj : j < c) :
    ent (build r c f) i j = f i j := by
  unfold ent build
  have : ((List.range r).map fun i => (List.range c).map fun j => f i j).getD i [] =
      (List.range c).map fun j => f i j := by
    simp [List.getD_eq_getElem?_getD, hi]
  rw [this]
  exact vget_map_range c (f i) j hj

end generic

/-- the leading n×n block as a Mathlib matrix -/
noncomputable def toM (n : Nat) (A : Mat ℝ) : Matrix (Fin n) (Fin n) ℝ := fun i j => ent A i j

theorem dot_real (n : Nat) (f g : Nat → ℝ) : dot n f g = ∑ k : Fin n, f k * g k := by
  unfold dot
  rw [NumR.sum_real]
  rw [Fin.sum_univ_eq_sum_range (fun k => f k * g k) n]
  induction n with
  | zero => simp
  | succ m ih =>
    rw [List.range_succ, List.map_append, List.sum_append, Finset.sum_range_succ, ih]
    simp

theorem ent_mmul (n : Nat) (A B : Mat ℝ) (i j : Nat) (hi : i < n) (hj : j < n) :
    ent (mmul n A B) i j = ∑ k : Fin n, ent A i k * ent B k j := by
  unfold mmul
  rw [ent_build _ _ _ _ _ hi hj, dot_real]

theorem toM_mmul (n : Nat) (A B : Mat ℝ) : toM n (mmul n A B) = toM n A * toM n B := by
  ext i j
  simp only [toM, mmul, Matrix.mul_apply]
  rw [ent_build _ _ _ _ _ i.2 j.2, dot_real]


theorem toM_transpose (n : Nat) (A : Mat ℝ) : toM n (transpose n A) = (toM n A).transpose := by
  ext i j
  simp only [toM, transpose, Matrix.transpose_apply]
  rw [ent_build _ _ _ _ _ i.2 j.2]

theorem toM_mneg (n : Nat) (A : Mat ℝ) : toM n (mneg n A) = - toM n A := by
  ext i j
  simp only [toM, mneg, Matrix.neg_apply]
  rw [ent_build _ _ _ _ _ i.2 j.2]

theorem eqOn_iff (n : Nat) (A B : Mat ℝ) : EqOn n A B ↔ toM n A = toM n B := by
  constructor
  · intro h; ext i j; exact h i j i.2 j.2
  · intro h i j hi hj
    have := congrFun (congrFun h ⟨i, hi⟩) ⟨j, hj⟩
    exact this

theorem isSymm_iff (n : Nat) (A : Mat ℝ) : IsSymm n A ↔ (toM n A).transpose = toM n A := by
  constructor
  · intro h; ext i j; exact h j i j.2 i.2
  · intro h i j hi hj
    have := congrFun (congrFun h ⟨j, hj⟩) ⟨i, hi⟩
    exact this

/-- the four Penrose equations on Mathlib matrices -/
structure MPinv {n : Nat} (A X : Matrix (Fin n) (Fin n) ℝ) : Prop where
  axa : A * X * A = A
  xax : X * A * X = X
  ax : (A * X).transpose = A * X
  xa : (X * A).transpose = X * A

theorem isPinv_iff (n : Nat) (A X : Mat ℝ) : IsPinv n A X ↔ MPinv (toM n A) (toM n X) := by
  unfold IsPinv
  simp only [eqOn_iff, toM_mmul, toM_transpose]
  constructor
  · rintro ⟨a, b, c, d⟩; exact ⟨a, b, c, d⟩
  · rintro ⟨a, b, c, d⟩; exact ⟨a, b, c, d⟩

theorem MPinv.unique {n : Nat} {A X Y : Matrix (Fin n) (Fin n) ℝ} (hX : MPinv A X) (hY : MPinv A Y) :
    X = Y := by
  -- X = X A Y = Y
  have h1 : X = X * A * Y := by
    calc X = X * A * X := hX.xax.symm
      _ = X * (A * X).transpose := by rw [hX.ax, Matrix.mul_assoc]
      _ = X * (X.transpose * A.transpose) := by rw [Matrix.transpose_mul]
      _ = X * (X.transpose * (A * Y * A).transpose) := by rw [hY.axa]
      _ = X * (X.transpose * (A.transpose * (A * Y).transpose)) := by
          rw [Matrix.transpose_mul (A * Y) A]
      _ = X * ((A * X).transpose * (A * Y).transpose) := by
          rw [Matrix.transpose_mul A X, Matrix.mul_assoc]
      _ = X * ((A * X) * (A * Y)) := by rw [hX.ax, hY.ax]
      _ = (X * A * X) * A * Y := by simp only [Matrix.mul_assoc]
      _ = X * A * Y := by rw [hX.xax]
  have h2 : Y = X * A * Y := by
    calc Y = Y * A * Y := hY.xax.symm
      _ = (Y * A).transpose * Y := by rw [hY.xa]
      _ = (A.transpose * Y.transpose) * Y := by rw [Matrix.transpose_mul]
      _ = ((A * X * A).transpose * Y.transpose) * Y := by rw [hX.axa]
      _ = (((X * A).transpose * A.transpose) * Y.transpose) * Y := by
          rw [Matrix.mul_assoc A X A, Matrix.transpose_mul A (X * A)]
      _ = ((X * A).transpose * (Y * A).transpose) * Y := by
          rw [Matrix.transpose_mul Y A]; simp only [Matrix.mul_assoc]
      _ = ((X * A) * (Y * A)) * Y := by rw [hX.xa, hY.xa]
      _ = X * A * (Y * A * Y) := by simp only [Matrix.mul_assoc]
      _ = X * A * Y := by rw [hY.xax]
  rw [h1]; exact h2.symm


theorem MPinv.neg {n : Nat} {A X : Matrix (Fin n) (Fin n) ℝ} (h : MPinv A X) : MPinv (-A) (-X) := by
  refine ⟨?_, ?_, ?_, ?_⟩
  · simp [h.axa]
  · simp [h.xax]
  · simp [h.ax]
  · simp [h.xa]

theorem MPinv.transpose {n : Nat} {A X : Matrix (Fin n) (Fin n) ℝ} (h : MPinv A X) :
    MPinv A.transpose X.transpose := by
  refine ⟨?_, ?_, ?_, ?_⟩
  · rw [← Matrix.transpose_mul, ← Matrix.transpose_mul, ← Matrix.mul_assoc, h.axa]
  · rw [← Matrix.transpose_mul, ← Matrix.transpose_mul, ← Matrix.mul_assoc, h.xax]
  · rw [← Matrix.transpose_mul, Matrix.transpose_transpose, h.xa]
  · rw [← Matrix.transpose_mul, Matrix.transpose_transpose, h.ax]

theorem MPinv.symm_of_symm {n : Nat} {A X : Matrix (Fin n) (Fin n) ℝ} (h : MPinv A X)
    (hA : A.transpose = A) : X.transpose = X := by
  have h2 := h.transpose
  rw [hA] at h2
  exact MPinv.unique h2 h

theorem MPinv.of_inverse {n : Nat} {A X : Matrix (Fin n) (Fin n) ℝ} (h : A * X = 1) : MPinv A X := by
  have h' : X * A = 1 := mul_eq_one_comm.mp h
  refine ⟨?_, ?_, ?_, ?_⟩
  · rw [h, Matrix.one_mul]
  · rw [h', Matrix.one_mul]
  · rw [h, Matrix.transpose_one]
  · rw [h', Matrix.transpose_one]

theorem toM_ident (n : Nat) : toM n (ident n) = 1 := by
  ext i j
  simp only [toM, ident]
  rw [ent_build _ _ _ _ _ i.2 j.2]
  by_cases h : i = j
  · subst h; simp
  · have : (i : Nat) ≠ j := fun e => h (Fin.ext e)
    simp [this, h]

theorem eq_of_shape {α : Type} [NumOps α] (n : Nat) (A B : Mat α) (hA : Shape n A) (hB : Shape n B)
    (h : EqOn n A B) : A = B := by
  apply List.ext_getElem (by rw [hA.1, hB.1])
  intro i h1 h2
  have hi : i < n := by rw [← hA.1]; exact h1
  have la : (A[i]).length = n := hA.2 _ (List.getElem_mem h1)
  have lb : (B[i]).length = n := hB.2 _ (List.getElem_mem h2)
  apply List.ext_getElem (by rw [la, lb])
  intro j h3 h4
  have hj : j < n := by rw [← la]; exact h3
  have := h i j hi hj
  simp only [ent, vget, List.getD_eq_getElem?_getD] at this
  simp only [List.getElem?_eq_getElem h1, List.getElem?_eq_getElem h2, Option.getD_some,
    List.getElem?_eq_getElem h3, List.getElem?_eq_getElem h4] at this
  exact this


/-! ## special values on ℝ -/

theorem zero_real : (0 : ℝ) = @OfNat.ofNat ℝ 0 Num.instOfNatOfNumOps := NumR.ofNat_real_zero.symm

theorem maxFloat_pos : (0 : ℝ) < (maxFloat : ℝ) := by
  unfold maxFloat
  show (0 : ℝ) < (OfScientific.ofScientific 17976931348623157 false 292 : ℝ)
  norm_num

theorem isNaN_real (x : ℝ) : isNaN x = false := by
  unfold isNaN
  have : Num.eq x x = true := (NumR.eq_real x x).mpr rfl
  rw [this]; rfl

theorem nanToNum_real (x : ℝ) (h : |x| ≤ maxFloat) : nanToNum x = x := by
  unfold nanToNum
  rw [isNaN_real]
  have h1 : ¬ (maxFloat : ℝ) < x := not_lt.mpr (le_trans (le_abs_self x) h)
  have h2 : ¬ x < -(maxFloat : ℝ) := by
    have := neg_abs_le x
    intro hc; linarith
  simp [h1, h2]

theorem seOf_real (v : ℝ) (h : 0 ≤ v) : seOf v = Real.sqrt v := by
  unfold seOf
  have : ¬ v < 0 := not_lt.mpr h
  simp [this]

theorem seOf_neg (v : ℝ) (h : v < 0) : seOf v = maxFloat := by
  unfold seOf
  simp [h]

theorem tOf_real (b s : ℝ) (hs : s ≠ 0) (h : |b / s| ≤ maxFloat) : tOf b s = b / s := by
  unfold tOf
  simp only [NumR.eq_real, NumR.ofNat_real_zero, hs, ↓reduceIte]
  rw [show @HDiv.hDiv ℝ ℝ ℝ (@instHDiv ℝ Num.instDivOfNumOps) b s = b / s from rfl]
  exact nanToNum_real _ h

theorem tOf_zero (b : ℝ) : tOf b 0 = maxFloat := by
  unfold tOf
  simp

theorem pOf_real (t : ℝ) : pOf t = 2 * (1 - NumR.Phi |t|) := by
  unfold pOf
  simp

theorem pOf_neg (t : ℝ) : pOf (-t) = pOf t := by
  rw [pOf_real, pOf_real, abs_neg]

theorem pOf_range (t : ℝ) : 0 ≤ pOf t ∧ pOf t ≤ 2 := by
  rw [pOf_real]
  have h1 := NumR.Phi_nonneg |t|
  have h2 := NumR.Phi_le_one |t|
  constructor <;> linarith

/-- larger |t| never gives a larger p-value -/
theorem pOf_antitone (s t : ℝ) (h : |s| ≤ |t|) : pOf t ≤ pOf s := by
  rw [pOf_real, pOf_real]
  have := NumR.Phi_mono h
  linarith

/-! ## summary statistics on ℝ -/

theorem lrt_real (L0 L : ℝ) : lrt L0 L = -2 * (L0 - L) := by
  unfold lrt; simp

theorem aic_real (K : Nat) (L : ℝ) : aic K L = 2 * (K : ℝ) - 2 * L := by
  unfold aic; simp

theorem bic_real (K N : Nat) (L : ℝ) : bic K N L = -2 * L + (K : ℝ) * Real.log (N : ℝ) := by
  unfold bic; simp

theorem rho2_real (L0 L : ℝ) (h : |1 - L / L0| ≤ maxFloat) : rho2 L0 L = 1 - L / L0 := by
  unfold rho2
  simp only [NumR.sub_real, NumR.div_real, NumR.ofNat_real_one]
  exact nanToNum_real _ h

theorem rhoBar2_real (K : Nat) (L0 L : ℝ) (h : |1 - (L - K) / L0| ≤ maxFloat) :
    rhoBar2 K L0 L = 1 - (L - K) / L0 := by
  unfold rhoBar2
  simp only [NumR.sub_real, NumR.div_real, NumR.ofNat_real_one, NumR.nat_real]
  exact nanToNum_real _ h


/-! ## correlation -/

theorem toM_diagInvSqrt (K : Nat) (V : Mat ℝ) :
    toM K (diagInvSqrt K V) = Matrix.diagonal fun i : Fin K => 1 / Real.sqrt (ent V i i) := by
  ext i j
  simp only [toM, diagInvSqrt]
  rw [ent_build _ _ _ _ _ i.2 j.2]
  by_cases h : i = j
  · subst h; simp
  · have : (i : Nat) ≠ j := fun e => h (Fin.ext e)
    simp [this, h]

theorem corrProd_entry (K : Nat) (V : Mat ℝ) (i j : Nat) (hi : i < K) (hj : j < K) :
    ent (corrProd K V) i j = ent V i j / (Real.sqrt (ent V i i) * Real.sqrt (ent V j j)) := by
  have h : ent (corrProd K V) i j = (toM K (diagInvSqrt K V) * (toM K V * toM K (diagInvSqrt K V))) ⟨i, hi⟩ ⟨j, hj⟩ := by
    unfold corrProd
    rw [← toM_mmul, ← toM_mmul]; rfl
  rw [h, toM_diagInvSqrt, Matrix.diagonal_mul, Matrix.mul_diagonal]
  simp only [toM]
  ring

theorem corrEntry_real (V : Mat ℝ) (i j : Nat) :
    corrEntry V i j = ent V i j / (Real.sqrt (ent V i i) * Real.sqrt (ent V j j)) := by
  unfold corrEntry; simp

theorem allPos_iff (K : Nat) (V : Mat ℝ) : allPos K V = true ↔ ∀ k, k < K → 0 < ent V k k := by
  unfold allPos
  simp [List.all_eq_true]

theorem corr_pos (K : Nat) (V : Mat ℝ) (h : ∀ k, k < K → 0 < ent V k k) : corr K V = corrProd K V := by
  unfold corr
  rw [(allPos_iff K V).mpr h]; rfl

/-! ## pair tests -/

theorem pairR_real (V : Mat ℝ) (i j : Nat) : pairR V i j = ent V i i + ent V j j - 2 * ent V i j := by
  unfold pairR; simp

theorem pairT_pos (beta : List ℝ) (V : Mat ℝ) (i j : Nat) (h : 0 < pairR V i j) :
    pairT beta V i j = (vget beta i - vget beta j) / Real.sqrt (pairR V i j) := by
  unfold pairT
  have : ¬ pairR V i j ≤ 0 := not_le.mpr h
  simp [this]

theorem pairT_nonpos (beta : List ℝ) (V : Mat ℝ) (i j : Nat) (h : pairR V i j ≤ 0) :
    pairT beta V i j = maxFloat := by
  unfold pairT
  simp [h]

theorem pairR_symm (V : Mat ℝ) (i j : Nat) (h : ent V i j = ent V j i) : pairR V j i = pairR V i j := by
  rw [pairR_real, pairR_real, h]; ring

/-! ## robust covariance -/

theorem robust_isSymm (K : Nat) (V B : Mat ℝ) (hV : IsSymm K V) (hB : IsSymm K B) :
    IsSymm K (robust K V B) := by
  rw [isSymm_iff] at *
  unfold robust
  rw [toM_mmul, toM_mmul, Matrix.transpose_mul, Matrix.transpose_mul, hV, hB, Matrix.mul_assoc]

/-- positive semi-definiteness of the leading block, in the vocabulary of the model -/
def PSD (n : Nat) (B : Mat ℝ) : Prop :=
  ∀ x : Fin n → ℝ, 0 ≤ ∑ a : Fin n, ∑ b : Fin n, x a * ent B a b * x b

theorem robust_diag_nonneg (K : Nat) (V B : Mat ℝ) (hV : IsSymm K V) (hB : PSD K B) (k : Nat) (hk : k < K) :
    0 ≤ ent (robust K V B) k k := by
  have h : ent (robust K V B) k k = (toM K V * (toM K B * toM K V)) ⟨k, hk⟩ ⟨k, hk⟩ := by
    unfold robust
    rw [← toM_mmul, ← toM_mmul]; rfl
  rw [h, Matrix.mul_apply]
  simp only [Matrix.mul_apply, toM]
  have := hB (fun a => ent V k a)
  convert this using 2 with a _
  rw [Finset.mul_sum]
  apply Finset.sum_congr rfl
  intro b _
  rw [hV b k b.2 hk]
  ring

/-! ## sample covariance -/

theorem colMean_real (S : Mat ℝ) (j : Nat) :
    colMean S j = (S.map fun row => vget row j).sum / (S.length : ℝ) := by
  unfold colMean
  rw [NumR.sum_real]; simp

theorem sampleCov_entry (K : Nat) (S : Mat ℝ) (i j : Nat) (hi : i < K) (hj : j < K) :
    ent (sampleCov K S) i j =
      (S.map fun row => (vget row i - colMean S i) * (vget row j - colMean S j)).sum
        / ((S.length - 1 : ℕ) : ℝ) := by
  unfold sampleCov
  rw [ent_build _ _ _ _ _ hi hj, NumR.div_real, NumR.sum_real]
  simp

theorem sampleCov_isSymm (K : Nat) (S : Mat ℝ) : IsSymm K (sampleCov K S) := by
  intro i j hi hj
  rw [sampleCov_entry K S i j hi hj, sampleCov_entry K S j i hj hi]
  congr 1
  congr 1
  apply List.map_congr_left
  intro r _
  ring

theorem sampleCov_diag_nonneg (K : Nat) (S : Mat ℝ) (k : Nat) (hk : k < K) :
    0 ≤ ent (sampleCov K S) k k := by
  rw [sampleCov_entry K S k k hk hk]
  apply div_nonneg
  · apply List.sum_nonneg
    intro x hx
    simp only [List.mem_map] at hx
    obtain ⟨r, _, rfl⟩ := hx
    exact mul_self_nonneg _
  · exact Nat.cast_nonneg _

/-! ## likelihood-ratio test -/

theorem lrRoles_refused_iff (l1 l2 : ℝ) (k1 k2 : Int) :
    lrRoles l1 k1 l2 k2 = .refused ↔ (l2 < l1 ∧ k1 < k2) ∨ (l1 ≤ l2 ∧ k2 ≤ k1) := by
  unfold lrRoles
  by_cases h : l2 < l1
  · have h' : ¬ l1 ≤ l2 := not_le.mpr h
    by_cases hk : k1 < k2 <;> simp [h, h', hk]
  · have h' : l1 ≤ l2 := not_lt.mp h
    by_cases hk : k1 ≥ k2 <;> simp [h, h', hk]

theorem lrRoles_ok (l1 l2 : ℝ) (k1 k2 : Int) (stat : ℝ) (df : Int) (llU llR : ℝ) (kU kR : Int)
    (h : lrRoles l1 k1 l2 k2 = .ok stat df llU llR kU kR) :
    stat = -2 * (llR - llU) ∧ df = kU - kR ∧ 0 ≤ df ∧ llR ≤ llU ∧ 0 ≤ stat ∧
    ((llU = l1 ∧ kU = k1 ∧ llR = l2 ∧ kR = k2) ∨ (llU = l2 ∧ kU = k2 ∧ llR = l1 ∧ kR = k1)) := by
  unfold lrRoles at h
  by_cases hl : l2 < l1
  · by_cases hk : k1 < k2
    · simp [hl, hk] at h
    · simp only [NumR.lt_real, hl, hk, ↓reduceIte, LR.ok.injEq] at h
      obtain ⟨rfl, rfl, rfl, rfl, rfl, rfl⟩ := h
      refine ⟨by simp, rfl, by omega, hl.le, ?_, Or.inl ⟨rfl, rfl, rfl, rfl⟩⟩
      simp; linarith
  · have hl' : l1 ≤ l2 := not_lt.mp hl
    by_cases hk : k1 ≥ k2
    · simp [hl, hk] at h
    · simp only [NumR.lt_real, hl, hk, ↓reduceIte, LR.ok.injEq] at h
      obtain ⟨rfl, rfl, rfl, rfl, rfl, rfl⟩ := h
      refine ⟨by simp, rfl, by omega, hl', ?_, Or.inr ⟨rfl, rfl, rfl, rfl⟩⟩
      simp; linarith

theorem lrRoles_symm (l1 l2 : ℝ) (k1 k2 : Int) (hl : l1 ≠ l2) (hk : k1 ≠ k2) :
    lrRoles l1 k1 l2 k2 = lrRoles l2 k2 l1 k1 := by
  unfold lrRoles
  rcases lt_or_gt_of_ne hl with h | h
  · have h' : ¬ l2 < l1 := not_lt.mpr h.le
    by_cases hk' : k1 ≥ k2
    · have : ¬ k2 < k1 → False := fun x => by omega
      have h3 : k2 < k1 := by omega
      simp [h, h', hk', h3]
    · have h3 : ¬ k2 < k1 := by omega
      simp [h, h', hk', h3]
  · have h' : ¬ l1 < l2 := not_lt.mpr h.le
    by_cases hk' : k1 < k2
    · have h3 : k2 ≥ k1 := by omega
      simp [h, h', hk', h3]
    · have h3 : ¬ k2 ≥ k1 := by omega
      simp [h, h', hk', h3]

theorem lrReject_iff (stat thr : ℝ) : lrReject stat thr = true ↔ thr < stat := by
  unfold lrReject
  simp

/-! ## positive semi-definiteness and the range of correlations -/

theorem psd_two_point (K : Nat) (V : Mat ℝ) (hB : PSD K V) (i j : Fin K) (hij : i ≠ j) (a b : ℝ) :
    0 ≤ a * a * ent V i i + a * b * ent V i j + b * a * ent V j i + b * b * ent V j j := by
  have h := hB (fun k => if k = i then a else if k = j then b else 0)
  have inner : ∀ p : Fin K, ∑ q : Fin K, (if p = i then a else if p = j then b else 0) * ent V p q *
      (if q = i then a else if q = j then b else 0) =
      (if p = i then a else if p = j then b else 0) * ent V p i * a +
      (if p = i then a else if p = j then b else 0) * ent V p j * b := by
    intro p
    rw [← Finset.sum_subset (Finset.subset_univ {i, j})]
    · rw [Finset.sum_pair hij]
      simp [hij.symm]
    · intro q _ hq
      simp only [Finset.mem_insert, Finset.mem_singleton, not_or] at hq
      simp [hq.1, hq.2]
  simp only [inner] at h
  rw [← Finset.sum_subset (Finset.subset_univ {i, j})] at h
  · rw [Finset.sum_pair hij] at h
    simp [hij.symm] at h
    linarith
  · intro p _ hp
    simp only [Finset.mem_insert, Finset.mem_singleton, not_or] at hp
    simp [hp.1, hp.2]

/-- Cauchy–Schwarz for a symmetric positive semi-definite matrix -/
theorem psd_cauchy_schwarz (K : Nat) (V : Mat ℝ) (hS : IsSymm K V) (hB : PSD K V) (i j : Nat)
    (hi : i < K) (hj : j < K) (hjj : 0 < ent V j j) :
    ent V i j ^ 2 ≤ ent V i i * ent V j j := by
  by_cases hij : i = j
  · subst hij; nlinarith
  · have hne : (⟨i, hi⟩ : Fin K) ≠ ⟨j, hj⟩ := fun e => hij (Fin.mk.inj e)
    have h := psd_two_point K V hB ⟨i, hi⟩ ⟨j, hj⟩ hne (ent V j j) (- ent V i j)
    simp only at h
    rw [hS j i hj hi] at h
    nlinarith

theorem corr_abs_le_one (K : Nat) (V : Mat ℝ) (hS : IsSymm K V) (hB : PSD K V)
    (hpos : ∀ k, k < K → 0 < ent V k k) (i j : Nat) (hi : i < K) (hj : j < K) :
    |ent (corr K V) i j| ≤ 1 := by
  rw [corr_pos K V hpos, corrProd_entry K V i j hi hj]
  have hii := hpos i hi
  have hjj := hpos j hj
  have hcs := psd_cauchy_schwarz K V hS hB i j hi hj hjj
  have hd : 0 < Real.sqrt (ent V i i) * Real.sqrt (ent V j j) :=
    mul_pos (Real.sqrt_pos.mpr hii) (Real.sqrt_pos.mpr hjj)
  rw [abs_div, abs_of_pos hd, div_le_one hd]
  rw [← Real.sqrt_mul hii.le, ← Real.sqrt_sq_eq_abs]
  exact Real.sqrt_le_sqrt hcs


/-! ### the robust and the bootstrap covariance are positive semi-definite -/

theorem psd_iff (K : Nat) (M : Mat ℝ) :
    PSD K M ↔ ∀ x : Fin K → ℝ, 0 ≤ x ⬝ᵥ (toM K M).mulVec x := by
  unfold PSD
  constructor
  · intro h x
    have := h x
    simp only [dotProduct, Matrix.mulVec, toM]
    convert this using 2 with a _
    rw [Finset.mul_sum]
    apply Finset.sum_congr rfl
    intro b _
    ring
  · intro h x
    have := h x
    simp only [dotProduct, Matrix.mulVec, toM] at this
    convert this using 2 with a _
    rw [Finset.mul_sum]
    apply Finset.sum_congr rfl
    intro b _
    ring

theorem robust_psd (K : Nat) (V B : Mat ℝ) (hV : IsSymm K V) (hB : PSD K B) : PSD K (robust K V B) := by
  rw [psd_iff] at *
  intro x
  unfold robust
  rw [toM_mmul, toM_mmul]
  have hVt : (toM K V).transpose = toM K V := (isSymm_iff K V).mp hV
  have h := hB ((toM K V).mulVec x)
  have e : x ⬝ᵥ (toM K V * (toM K B * toM K V)).mulVec x =
      (toM K V).mulVec x ⬝ᵥ (toM K B).mulVec ((toM K V).mulVec x) := by
    rw [← Matrix.mulVec_mulVec, ← Matrix.mulVec_mulVec, Matrix.dotProduct_mulVec]
    congr 1
    rw [← Matrix.mulVec_transpose, hVt]
  rw [e]
  exact h

theorem sum_sq_form (K : Nat) (T : List (List ℝ)) (d : List ℝ → Fin K → ℝ) (x : Fin K → ℝ) :
    ∑ a : Fin K, ∑ b : Fin K, x a * (T.map fun r => d r a * d r b).sum * x b =
      (T.map fun r => (∑ a : Fin K, x a * d r a) ^ 2).sum := by
  induction T with
  | nil => simp
  | cons r t ih =>
    simp only [List.map_cons, List.sum_cons]
    rw [← ih]
    rw [sq, Finset.sum_mul_sum, ← Finset.sum_add_distrib]
    apply Finset.sum_congr rfl
    intro a _
    rw [← Finset.sum_add_distrib]
    apply Finset.sum_congr rfl
    intro b _
    ring

theorem sampleCov_psd (K : Nat) (S : Mat ℝ) : PSD K (sampleCov K S) := by
  intro x
  have e : ∀ a b : Fin K, x a * ent (sampleCov K S) a b * x b =
      (x a * (S.map fun r => (vget r a - colMean S a) * (vget r b - colMean S b)).sum * x b) /
        ((S.length - 1 : ℕ) : ℝ) := by
    intro a b
    rw [sampleCov_entry K S a b a.2 b.2]
    ring
  simp only [e]
  simp only [← Finset.sum_div]
  apply div_nonneg _ (Nat.cast_nonneg _)
  rw [sum_sq_form K S (fun r a => vget r a - colMean S a) x]
  apply List.sum_nonneg
  intro y hy
  simp only [List.mem_map] at hy
  obtain ⟨r, _, rfl⟩ := hy
  exact sq_nonneg _

end Stats
