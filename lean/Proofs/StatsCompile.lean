/-
Helper lemmas for Props/C08.lean: the compiled table over entries with an error path
(Model/StatsCompile.lean): column k depends on entry k only, the column of an unreadable entry is
empty, a filled cell of a readable entry is an assignment of THAT entry.
-/
import Model.StatsCompile
import Proofs.StatsTables

namespace Stats
variable {α : Type} [NumOps α]

theorem compileColumns_get (o : CompileOpts) (entries : List (Option (Raw α × Rep α))) (k : Nat) :
    (compileColumns o entries)[k]? = (entries[k]?).map (entryColumn o) := by
  unfold compileColumns
  rw [List.getElem?_map]

theorem compileTableE_some (o : CompileOpts) (models : List (Raw α × Rep α)) :
    compileTableE o (models.map some) = compileTable o models := by
  unfold compileTableE compileTable compileColumns
  simp only [List.map_map]
  rfl

theorem compileTableE_cell (o : CompileOpts) (entries : List (Option (Raw α × Rep α)))
    (l : RLabel) (cells : List (Option (Cell α))) (h : (l, cells) ∈ compileTableE o entries)
    (k : Nat) : cells[k]? = (entries[k]?).map fun e => (entryColumn o e).reverse.lookup l := by
  unfold compileTableE at h
  simp only [List.mem_map, Prod.mk.injEq] at h
  obtain ⟨l', _, rfl, rfl⟩ := h
  rw [List.getElem?_map, compileColumns_get, Option.map_map]
  rfl

end Stats
