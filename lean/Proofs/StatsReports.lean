/-
Helper lemmas for Props/C08.lean, text-report part (Model/StatsReports.lean): every figure of
`short_summary`, `__str__`, `print_general_statistics`, the HTML/LaTeX/F12 reports is the quantity
its label (or position) names.  Generic in the number type unless stated.
-/
import Model.StatsReports
import Proofs.StatsTables
import Proofs.NumReal
import Mathlib.Tactic.CasesM

namespace Stats
variable {α : Type} [NumOps α]

theorem short_summary_meaning (raw : Raw α) (l : GLabel) (v : GVal α)
    (h : (l, v) ∈ shortSummaryItems raw) : v = raw.meaning l := by
  unfold shortSummaryItems summary at h
  simp only [List.mem_append, List.mem_cons, List.mem_ite_nil_right, List.not_mem_nil, or_false,
    Prod.mk.injEq] at h
  casesm* _ ∨ _, _ ∧ _ <;> subst_vars <;> simp [Raw.meaning, lrt, rho2, rhoBar2, aic, bic]

theorem str_items_meaning (raw : Raw α) (l : GLabel) (v : GVal α)
    (h : (l, v) ∈ strItems raw) : v = raw.meaning l := by
  unfold strItems summary at h
  simp only [List.mem_append, List.mem_cons, List.mem_ite_nil_right, List.not_mem_nil, or_false,
    Prod.mk.injEq] at h
  casesm* _ ∨ _, _ ∧ _ <;> subst_vars <;> simp [Raw.meaning, lrt, rho2, rhoBar2, aic, bic]

theorem mkTxt_ok (items out : List (GLabel × GVal α)) (h : mkTxt items = .ok out) : out = items := by
  unfold mkTxt at h
  split at h
  · cases h; rfl
  · cases h

theorem mkTxtT_ok (items out : List (GLabel × GVal α)) (h : mkTxtT items = .ok out) : out = items := by
  unfold mkTxtT at h
  split at h
  · cases h; rfl
  · cases h

/-- the text is refused exactly when some figure is `None` under a non-empty format -/
theorem mkTxt_error_iff (items : List (GLabel × GVal α)) :
    mkTxt items = .error ↔ ∃ p ∈ items, p.2.formattable p.1.format = false := by
  unfold mkTxt
  split
  · rename_i h
    constructor
    · intro e; cases e
    · rintro ⟨p, hp, hf⟩
      have := List.all_eq_true.mp h p hp
      simp [hf] at this
  · rename_i h
    constructor
    · intro _
      simp only [List.all_eq_true, not_forall] at h
      obtain ⟨p, hp, hf⟩ := h
      exact ⟨p, hp, by simpa using hf⟩
    · intro _; rfl

theorem betaLine_meaning (r : Rep α) (k : Nat) (q : ParamQty) (v : α)
    (h : (q, v) ∈ betaLine r k) : v = r.qty k q := by
  unfold betaLine at h
  cases hb : r.boot <;> simp only [hb] at h <;>
    simp only [List.mem_append, List.mem_cons, List.not_mem_nil, or_false, Prod.mk.injEq] at h <;>
    casesm* _ ∨ _, _ ∧ _ <;> subst_vars <;> simp [Rep.qty]

theorem strPairLine_eq (r : Rep α) (i j : Nat) :
    strPairLine r i j = strPairMeaning.map fun p => r.pairQty p.1 p.2 i j := by
  unfold strPairLine strPairLineOf secondOrderEntry pairBlock strPairMeaning
  cases hb : r.boot <;> simp [Rep.pairQty, Rep.cov]

theorem htmlGeneral_mem (raw : Raw α) (p : GLabel × GVal α) :
    p ∈ htmlGeneral raw ↔ p ∈ generalStatistics raw ∧ p.2.formattable .g7 = true := by
  unfold htmlGeneral
  rw [List.mem_filter]
  constructor
  · rintro ⟨h1, h2⟩
    refine ⟨h1, ?_⟩
    rcases p with ⟨l, v⟩
    cases v with
    | onum x => cases x <;> simp_all [GVal.formattable]
    | _ => simp [GVal.formattable]
  · rintro ⟨h1, h2⟩
    refine ⟨h1, ?_⟩
    rcases p with ⟨l, v⟩
    cases v with
    | onum x => cases x <;> simp_all [GVal.formattable]
    | _ => simp

/-! ### `name.split('-')` -/

theorem seg0_append (a b : List Char) (ha : '-' ∉ a) : seg0 (a ++ '-' :: b) = a := by
  unfold seg0
  induction a with
  | nil => simp [List.takeWhile]
  | cons c t ih =>
    have hc : c ≠ '-' := fun e => ha (by simp [e])
    have ht : '-' ∉ t := fun e => ha (List.mem_cons_of_mem _ e)
    simp only [List.cons_append, List.takeWhile_cons]
    have : (c != '-') = true := by simpa using hc
    rw [this]
    simp only [↓reduceIte, List.cons.injEq, true_and]
    exact ih ht

theorem afterDash_append (a b : List Char) (ha : '-' ∉ a) : afterDash (a ++ '-' :: b) = b := by
  unfold afterDash
  induction a with
  | nil => simp [List.dropWhile]
  | cons c t ih =>
    have hc : c ≠ '-' := fun e => ha (by simp [e])
    have ht : '-' ∉ t := fun e => ha (List.mem_cons_of_mem _ e)
    simp only [List.cons_append, List.dropWhile_cons]
    have : (c != '-') = true := by simpa using hc
    rw [this]
    simp only [↓reduceIte]
    exact ih ht

theorem seg0_nodash (b : List Char) (hb : '-' ∉ b) : seg0 b = b := by
  unfold seg0
  induction b with
  | nil => rfl
  | cons c t ih =>
    have hc : c ≠ '-' := fun e => hb (by simp [e])
    have ht : '-' ∉ t := fun e => hb (List.mem_cons_of_mem _ e)
    have : (c != '-') = true := by simpa using hc
    simp only [List.takeWhile_cons, this, ↓reduceIte, List.cons.injEq, true_and]
    exact ih ht

theorem htmlPairNames_nodash (r : Rep α) (i j : Nat)
    (hi : '-' ∉ r.names.getD i []) (hj : '-' ∉ r.names.getD j []) :
    htmlPairNames r i j = (r.names.getD i [], r.names.getD j []) := by
  unfold htmlPairNames seg1 pairLabel
  have e : r.names.getD i [] ++ ['-'] ++ r.names.getD j [] = r.names.getD i [] ++ '-' :: r.names.getD j [] := by
    simp
  rw [e, seg0_append _ _ hi, afterDash_append _ _ hi, seg0_nodash _ hj]

/-! ### secondary views -/

theorem corrSubsetPairs_iff (r : Rep α) (subset : List (List Char)) (p : Nat × Nat) :
    p ∈ corrSubsetPairs r subset ↔
      p ∈ pairs r.K ∧ r.names.getD p.1 [] ∈ subset ∧ r.names.getD p.2 [] ∈ subset := by
  unfold corrSubsetPairs
  rcases p with ⟨i, j⟩
  simp [List.mem_filter]

theorem corrTableSubset_sub (r : Rep α) (subset : List (List Char)) (row : List Char × List (Option α))
    (h : row ∈ corrTableSubset r subset) : row ∈ corrTable r := by
  unfold corrTableSubset at h
  unfold corrTable
  rw [List.mem_map] at h ⊢
  obtain ⟨p, hp, e⟩ := h
  exact ⟨p, ((corrSubsetPairs_iff r subset p).mp hp).1, e⟩

theorem sensDraws_by_name (names : List (List Char)) (hnd : names.Nodup) (ks : List Nat)
    (hks : ∀ k ∈ ks, k < names.length) (S : Mat α) :
    sensDraws names (ks.map fun k => names.getD k []) S =
      some (S.map fun row => ks.map fun k => (names.getD k [], vget row k)) := by
  unfold sensDraws
  have hall : ((ks.map fun k => names.getD k []).all fun n => (nameIndex names n).isSome) = true := by
    rw [List.all_eq_true]
    intro n hn
    obtain ⟨k, hk, rfl⟩ := List.mem_map.mp hn
    rw [nameIndex_getD names hnd k (hks k hk)]
    rfl
  rw [if_pos hall]
  congr 1
  apply List.map_congr_left
  intro row _
  rw [List.map_map]
  apply List.map_congr_left
  intro k hk
  show (names.getD k [], vget row ((nameIndex names (names.getD k [])).getD 0)) = _
  rw [nameIndex_getD names hnd k (hks k hk)]
  rfl

/-! ### F12 -/

theorem any_false_getD (l : List Bool) (h : l.any id = false) (k : Nat) : l.getD k false = false := by
  by_cases hk : k < l.length
  · have hm : l[k] ∈ l := List.getElem_mem hk
    have := List.any_eq_false.mp h l[k] hm
    simp [List.getD_eq_getElem?_getD, hk] at this ⊢
    exact this
  · simp [List.getD_eq_getElem?_getD, Nat.not_lt.mp hk]

theorem f12Corr_eq (r : Rep α) (rob : Bool) :
    f12Corr r rob = (pairs r.K).map fun p =>
      r.pairQty (if rob then .robust else .classical) .corr p.1 p.2 := by
  unfold f12Corr f12CorrOf secondOrderTable
  rw [List.map_map]
  apply List.map_congr_left
  rintro ⟨i, j⟩ _
  unfold secondOrderEntry pairBlock
  cases rob <;> cases hb : r.boot <;> simp [Rep.pairQty, Rep.cov, vget]

/-- the F12 coefficient line over ℝ (the flag compares a float with 1) -/
theorem eq_real_false (a b : ℝ) : Num.eq a b = false ↔ a ≠ b := by
  rw [← Bool.not_eq_true, NumR.eq_real]

theorem f12Coef_real (r : Rep ℝ) (rob : Bool) (k : Nat) :
    f12Coef r rob k =
      (r.active.getD k false, vget r.beta k,
       r.stat (if rob then .robust else .classical) .se k) := by
  unfold f12Coef paramRow
  cases ha : r.anyActive
  · have hk : r.active.getD k false = false := any_false_getD r.active (by simpa [Rep.anyActive] using ha) k
    rw [hk]
    cases rob <;> cases hb : r.boot <;>
      simp (config := {decide := true}) [List.lookup, plabel_beq]
  · cases hk : r.active.getD k false <;> cases rob <;> cases hb : r.boot <;>
      simp (config := {decide := true}) [List.lookup, plabel_beq, eq_real_false]

end Stats
