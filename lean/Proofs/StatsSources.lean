/-
Helper lemmas for Props/C08.lean: the value printed under a label is the value stored in the
attribute the label reads (Model/StatsSources.lean), and that value is the label's defining formula.
-/
import Model.StatsSources
import Proofs.StatsReports

namespace Stats
variable {α : Type} [NumOps α]

/-- the stored attribute holds the defining formula of the label that reads it -/
theorem attrValue_meaning (raw : Raw α) (l : GLabel) : attrValue raw l.source = raw.meaning l := by
  cases l <;> simp [attrValue, GLabel.source, Raw.meaning, summary, lrt, rho2, rhoBar2, aic, bic]

theorem general_source (raw : Raw α) (l : GLabel) (v : GVal α)
    (h : (l, v) ∈ generalStatistics raw) : v = attrValue raw l.source := by
  rw [attrValue_meaning]; exact general_meaning raw l v h

theorem short_source (raw : Raw α) (l : GLabel) (v : GVal α)
    (h : (l, v) ∈ shortSummaryItems raw) : v = attrValue raw l.source ∧ l ∈ shortLabels := by
  refine ⟨by rw [attrValue_meaning]; exact short_summary_meaning raw l v h, ?_⟩
  unfold shortSummaryItems at h
  simp only [List.mem_append, List.mem_cons, List.mem_ite_nil_right, List.not_mem_nil, or_false,
    Prod.mk.injEq] at h
  casesm* _ ∨ _, _ ∧ _ <;> subst_vars <;> decide

theorem str_source (raw : Raw α) (l : GLabel) (v : GVal α)
    (h : (l, v) ∈ strItems raw) : v = attrValue raw l.source ∧ l ∈ strLabels := by
  refine ⟨by rw [attrValue_meaning]; exact str_items_meaning raw l v h, ?_⟩
  unfold strItems at h
  simp only [List.mem_append, List.mem_cons, List.mem_ite_nil_right, List.not_mem_nil, or_false,
    Prod.mk.injEq] at h
  casesm* _ ∨ _, _ ∧ _ <;> subst_vars <;> decide

end Stats
