/-
Helper lemmas for Props/C08.lean, table part: every cell of the parameter, correlation, general
statistics and compiled tables is the quantity its label names; rendered labels are distinct.
Generic in the number type (hold for the Float instance as well).
-/
import Model.Stats
import Mathlib.Tactic.CasesM

namespace Stats
variable {α : Type} [NumOps α]

theorem plabel_beq (a b : PLabel) : (a == b) = decide (a = b) := rfl
theorem clabel_beq (a b : CLabel) : (a == b) = decide (a = b) := rfl
theorem glabel_beq (a b : GLabel) : (a == b) = decide (a = b) := rfl

theorem param_row_lookup (r : Rep α) (onlyRobust : Bool) (k : Nat) (c : PLabel)
    (hc : c ∈ paramColumns r.anyActive onlyRobust (r.boot.map (·.1))) :
    (paramRow r onlyRobust k).lookup c = some (r.qty k c.meaning) := by
  unfold paramColumns at hc
  unfold paramRow
  cases ha : r.anyActive <;> cases onlyRobust <;> cases hb : r.boot <;>
    simp only [ha, hb, Option.map_none, Option.map_some] at hc ⊢ <;>
    simp at hc <;>
    casesm* _ ∨ _ <;>
    subst hc <;> simp (config := {decide := true}) [List.lookup, PLabel.meaning, Rep.qty, plabel_beq]

theorem corr_row_lookup (r : Rep α) (i j : Nat) (c : CLabel) (hc : c ∈ corrColumns r.boot.isSome) :
    (corrRow r i j).lookup c = some (r.pairQty c.meaning.1 c.meaning.2 i j) := by
  unfold corrColumns at hc
  unfold corrRow secondOrderEntry pairBlock
  cases hb : r.boot <;>
    simp only [hb, Option.isSome_none, Option.isSome_some] at hc ⊢ <;>
    simp at hc <;>
    casesm* _ ∨ _ <;>
    subst hc <;> simp (config := {decide := true}) [List.lookup, clabel_beq, CLabel.meaning, Rep.pairQty, Rep.cov, vget, hb]


theorem general_meaning (raw : Raw α) (l : GLabel) (v : GVal α)
    (h : (l, v) ∈ generalStatistics raw) : v = raw.meaning l := by
  unfold generalStatistics summary at h
  simp only [List.mem_append, List.mem_cons, List.mem_ite_nil_right, List.not_mem_nil, or_false,
    Prod.mk.injEq] at h
  casesm* _ ∨ _, _ ∧ _ <;> subst_vars <;> simp [Raw.meaning, lrt, rho2, rhoBar2, aic, bic]


theorem mem_of_lookup {β γ : Type} [BEq β] [LawfulBEq β] (l : List (β × γ)) (a : β) (b : γ)
    (h : l.lookup a = some b) : (a, b) ∈ l := by
  induction l with
  | nil => simp [List.lookup] at h
  | cons p t ih =>
    obtain ⟨k, v⟩ := p
    simp only [List.lookup] at h
    split at h
    · rename_i heq
      have := eq_of_beq heq
      simp only [Option.some.injEq] at h
      subst h; subst this
      exact List.mem_cons_self
    · exact List.mem_cons_of_mem _ (ih h)

theorem nameIndex_getD (names : List (List Char)) (hnd : names.Nodup) (k : Nat) (hk : k < names.length) :
    nameIndex names (names.getD k []) = some k := by
  unfold nameIndex
  have hget : names.getD k [] = names[k] := by
    simp [List.getD_eq_getElem?_getD, hk]
  rw [hget]
  have hidx : names.findIdx (· == names[k]) = k := by
    rw [List.findIdx_eq hk]
    refine ⟨by simp, ?_⟩
    intro j hj
    have hjl : j < names.length := Nat.lt_trans hj hk
    have : names[j] ≠ names[k] := by
      intro e
      have h2 : names[j]? = names[k]? := by
        rw [List.getElem?_eq_getElem hjl, List.getElem?_eq_getElem hk, e]
      have := (List.getElem?_inj hjl hnd).mp h2
      omega
    simpa using this
  simp only [hidx, hk, ↓reduceIte]

theorem compile_column_meaning (o : CompileOpts) (raw : Raw α) (r : Rep α)
    (hK : r.K = r.names.length) (hnd : r.names.Nodup)
    (hstats : ∀ s ∈ o.statistics, ((generalStatistics raw).lookup s).isSome)
    (l : RLabel) (c : Cell α) (h : (l, c) ∈ compileColumn o raw r) :
    l.meaning raw r = some c := by
  unfold compileColumn at h
  rw [List.mem_append] at h
  rcases h with h | h
  · simp only [List.mem_map, Prod.mk.injEq] at h
    obtain ⟨s, hs, rfl, rfl⟩ := h
    have := hstats s hs
    obtain ⟨v, hv⟩ := Option.isSome_iff_exists.mp this
    have hm := general_meaning raw s v (mem_of_lookup _ _ _ hv)
    simp [RLabel.meaning, hv, hm]
  · cases hp : o.includeParams
    · simp [hp] at h
    · simp only [hp, ↓reduceIte] at h
      cases hf : o.formatted
      · simp only [hf, Bool.false_eq_true, ↓reduceIte, List.mem_flatMap, List.mem_range,
          List.mem_append, List.mem_cons, List.not_mem_nil, or_false, Prod.mk.injEq] at h
        obtain ⟨k, hk, h⟩ := h
        rw [hK] at hk
        have hi := nameIndex_getD r.names hnd k hk
        rcases h with (⟨rfl, rfl⟩ | h) | h
        · simp only [RLabel.meaning, hi, Option.map_some]
        · cases hs : o.includeStd
          · simp [hs] at h
          · simp only [hs, ↓reduceIte, List.mem_cons, List.not_mem_nil, or_false, Prod.mk.injEq] at h
            obtain ⟨rfl, rfl⟩ := h
            simp only [RLabel.meaning, hi, Option.map_some]
        · cases ht : o.includeT
          · simp [ht] at h
          · simp only [ht, ↓reduceIte, List.mem_cons, List.not_mem_nil, or_false, Prod.mk.injEq] at h
            obtain ⟨rfl, rfl⟩ := h
            simp only [RLabel.meaning, hi, Option.map_some]
      · simp only [hf, ↓reduceIte, List.mem_map, List.mem_range, Prod.mk.injEq] at h
        obtain ⟨k, hk, rfl, rfl⟩ := h
        rw [hK] at hk
        have hi := nameIndex_getD r.names hnd k hk
        simp only [RLabel.meaning, hi, Option.map_some]

theorem mem_dedup {β : Type} [DecidableEq β] (l : List β) (a : β) : a ∈ dedup l ↔ a ∈ l := by
  induction l with
  | nil => simp [dedup]
  | cons b t ih =>
    simp only [dedup, List.mem_cons, List.mem_filter, ih, decide_eq_true_eq]
    constructor
    · rintro (h | ⟨h, _⟩)
      · exact Or.inl h
      · exact Or.inr h
    · intro h
      by_cases e : a = b
      · exact Or.inl e
      · rcases h with h | h
        · exact Or.inl h
        · exact Or.inr ⟨h, e⟩

theorem dedup_nodup {β : Type} [DecidableEq β] (l : List β) : (dedup l).Nodup := by
  induction l with
  | nil => simp [dedup]
  | cons b t ih =>
    simp only [dedup, List.nodup_cons, List.mem_filter, decide_eq_true_eq, ne_eq, not_true_eq_false,
      and_false, not_false_eq_true, true_and]
    exact List.Pairwise.filter _ ih

theorem compile_table_cell (o : CompileOpts) (models : List (Raw α × Rep α))
    (l : RLabel) (cells : List (Option (Cell α))) (h : (l, cells) ∈ compileTable o models)
    (m : Nat) (hm : m < models.length) (c : Cell α) (hc : cells[m]? = some (some c)) :
    (l, c) ∈ compileColumn o (models[m]).1 (models[m]).2 := by
  unfold compileTable at h
  simp only [List.mem_map, Prod.mk.injEq] at h
  obtain ⟨l', _, rfl, rfl⟩ := h
  simp only [List.map_map, List.getElem?_map, List.getElem?_eq_getElem hm, Option.map_some,
    Function.comp, Option.some.injEq] at hc
  have := mem_of_lookup _ _ _ hc
  exact List.mem_reverse.mp this

theorem compile_table_rows (o : CompileOpts) (models : List (Raw α × Rep α)) (l : RLabel) :
    l ∈ (compileTable o models).map (·.1) ↔
      ∃ m, ∃ hm : m < models.length, ∃ c, (l, c) ∈ compileColumn o (models[m]).1 (models[m]).2 := by
  unfold compileTable
  simp only [List.map_map, Function.comp_def, List.map_id', mem_dedup, List.mem_map, List.mem_flatMap,
    id, Prod.exists, exists_and_right, exists_eq_right]
  constructor
  · rintro ⟨c, col, ⟨raw, r, hmem, rfl⟩, hc⟩
    obtain ⟨m, hm, he⟩ := List.getElem_of_mem hmem
    exact ⟨m, hm, c, by rw [he]; exact hc⟩
  · rintro ⟨m, hm, c, hc⟩
    exact ⟨c, _, ⟨(models[m]).1, (models[m]).2, List.getElem_mem hm, rfl⟩, hc⟩


/-! ## the rendered labels are pairwise different (pandas aligns on the strings) -/

def PLabel.all (n : Nat) : List PLabel :=
  [.value, .activeBound, .stdErr, .tTest, .pValue, .robStdErr, .robTTest, .robPValue,
   .bootStdErr n, .bootTTest, .bootPValue]

def CLabel.all : List CLabel :=
  [.covariance, .correlation, .tTest, .pValue, .robCov, .robCorr, .robTTest, .robPValue,
   .bootCov, .bootCorr, .bootTTest, .bootPValue]

theorem boot_label_ne (n : Nat) (s : String) (hs : s.toList.take 10 ≠ "Bootstrap[".toList) :
    "Bootstrap[" ++ toString n ++ "] Std err" ≠ s := by
  intro h
  apply hs
  rw [← h]
  simp only [String.toList_append]
  have : "Bootstrap[".toList.length = 10 := by decide
  rw [List.append_assoc, List.take_append_of_le_length (by omega)]
  rw [List.take_of_length_le (by omega)]

theorem plabel_render_inj (n : Nat) (a b : PLabel) (ha : a ∈ PLabel.all n) (hb : b ∈ PLabel.all n)
    (h : a.render = b.render) : a = b := by
  simp only [PLabel.all, List.mem_cons, List.not_mem_nil, or_false] at ha hb
  casesm* _ ∨ _ <;> subst_vars <;> first
    | rfl
    | (exfalso; revert h; simp only [PLabel.render]; decide)
    | (exfalso; revert h; simp only [PLabel.render]; exact boot_label_ne n _ (by decide))
    | (exfalso; revert h; simp only [PLabel.render]; exact fun e => boot_label_ne n _ (by decide) e.symm)

theorem clabel_render_nodup : (CLabel.all.map CLabel.render).Nodup := by decide
theorem glabel_render_nodup : (GLabel.all.map GLabel.render).Nodup := by decide

/-! ## rendered row labels of the compiled table -/

/-- a parameter name that cannot be confused with another row label -/
def NameOK (n : List Char) : Prop :=
  (∀ s : GLabel, n ≠ s.render.toList) ∧ ¬ " (std)".toList <:+ n ∧ ¬ " (ttest)".toList <:+ n

/-- the labels one call of `compile_estimation_results` can produce -/
def RLabel.inTable (o : CompileOpts) : RLabel → Prop
  | .stat _ => True
  | .fmt n s t => o.formatted = true ∧ s = o.includeStd ∧ t = o.includeT ∧ NameOK n
  | .val n => o.formatted = false ∧ NameOK n
  | .std n => o.formatted = false ∧ NameOK n
  | .tt n => o.formatted = false ∧ NameOK n

theorem stat_last (s : GLabel) : s.render.toList.getLast? ≠ some ')' := by
  cases s <;> decide

theorem last_std (n : List Char) : (n ++ " (std)".toList).getLast? = some ')' := by
  rw [List.getLast?_append]
  have : " (std)".toList.getLast? = some ')' := by decide
  rw [this]; rfl
theorem last_tt (n : List Char) : (n ++ " (ttest)".toList).getLast? = some ')' := by
  rw [List.getLast?_append]
  have : " (ttest)".toList.getLast? = some ')' := by decide
  rw [this]; rfl
theorem last_ttest (n : List Char) : (n ++ " (t-test)".toList).getLast? = some ')' := by
  rw [List.getLast?_append]
  have : " (t-test)".toList.getLast? = some ')' := by decide
  rw [this]; rfl

theorem std_ne_tt (n m : List Char) : n ++ " (std)".toList ≠ m ++ " (ttest)".toList := by
  intro h
  have := congrArg List.reverse h
  simp [List.reverse_append] at this

theorem fmt_suffix_last (s t : Bool) (n : List Char) (h : s = true ∨ t = true) :
    (n ++ (if s then " (std)".toList else []) ++ (if t then " (t-test)".toList else [])).getLast? = some ')' := by
  cases s <;> cases t
  · simp at h
  · simp
  · simp
  · simp only [↓reduceIte]; exact last_ttest _

theorem glabel_render_inj (s s' : GLabel) (h : s.render.toList = s'.render.toList) : s = s' := by
  have h' : s.render = s'.render := String.toList_inj.mp h
  cases s <;> cases s' <;> first | rfl | (exfalso; revert h'; decide)

theorem stat_ne_fmt (g : GLabel) (n : List Char) (s t : Bool) (hn : NameOK n) :
    g.render.toList ≠ (n ++ (if s then " (std)".toList else [])) ++ (if t then " (t-test)".toList else []) := by
  by_cases hst : s = true ∨ t = true
  · intro h
    have := fmt_suffix_last s t n hst
    rw [← h] at this
    exact stat_last g this
  · have hs : s = false := by cases s <;> simp at hst ⊢
    have ht : t = false := by cases t <;> simp at hst ⊢
    subst hs; subst ht
    intro h
    simp only [Bool.false_eq_true, ↓reduceIte, List.append_nil] at h
    exact hn.1 g h.symm

theorem stat_ne_std (g : GLabel) (n : List Char) : g.render.toList ≠ n ++ " (std)".toList := by
  intro h
  have := last_std n
  rw [← h] at this
  exact stat_last g this

theorem stat_ne_tt (g : GLabel) (n : List Char) : g.render.toList ≠ n ++ " (ttest)".toList := by
  intro h
  have := last_tt n
  rw [← h] at this
  exact stat_last g this

theorem name_ne_std (n m : List Char) (hn : NameOK n) : n ≠ m ++ " (std)".toList := by
  intro h
  exact hn.2.1 ⟨m, h.symm⟩

theorem name_ne_tt (n m : List Char) (hn : NameOK n) : n ≠ m ++ " (ttest)".toList := by
  intro h
  exact hn.2.2 ⟨m, h.symm⟩

theorem rlabel_render_inj (o : CompileOpts) (a b : RLabel) (ha : a.inTable o) (hb : b.inTable o)
    (h : a.render = b.render) : a = b := by
  cases a <;> cases b <;> simp only [RLabel.inTable] at ha hb <;> simp only [RLabel.render] at h
  case stat.stat => rw [glabel_render_inj _ _ h]
  case stat.fmt => exact absurd h (stat_ne_fmt _ _ _ _ hb.2.2.2)
  case stat.val => exact absurd h.symm (hb.2.1 _)
  case stat.std => exact absurd h (stat_ne_std _ _)
  case stat.tt => exact absurd h (stat_ne_tt _ _)
  case fmt.stat => exact absurd h.symm (stat_ne_fmt _ _ _ _ ha.2.2.2)
  case fmt.fmt =>
    obtain ⟨_, rfl, rfl, _⟩ := ha
    obtain ⟨_, rfl, rfl, _⟩ := hb
    have := List.append_cancel_right (List.append_cancel_right h)
    rw [this]
  case fmt.val => rw [ha.1] at hb; exact absurd hb.1 (by decide)
  case fmt.std => rw [ha.1] at hb; exact absurd hb.1 (by decide)
  case fmt.tt => rw [ha.1] at hb; exact absurd hb.1 (by decide)
  case val.stat => exact absurd h (ha.2.1 _)
  case val.fmt => rw [hb.1] at ha; exact absurd ha.1 (by decide)
  case val.val => rw [h]
  case val.std => exact absurd h (name_ne_std _ _ ha.2)
  case val.tt => exact absurd h (name_ne_tt _ _ ha.2)
  case std.stat => exact absurd h.symm (stat_ne_std _ _)
  case std.fmt => rw [hb.1] at ha; exact absurd ha.1 (by decide)
  case std.val => exact absurd h.symm (name_ne_std _ _ hb.2)
  case std.std => rw [List.append_cancel_right h]
  case std.tt => exact absurd h (std_ne_tt _ _)
  case tt.stat => exact absurd h.symm (stat_ne_tt _ _)
  case tt.fmt => rw [hb.1] at ha; exact absurd ha.1 (by decide)
  case tt.val => exact absurd h.symm (name_ne_tt _ _ hb.2)
  case tt.std => exact absurd h.symm (std_ne_tt _ _)
  case tt.tt => rw [List.append_cancel_right h]

/-- every label a call produces is one of the table's labels (names taken from the model) -/
theorem compile_column_inTable (o : CompileOpts) (raw : Raw α) (r : Rep α)
    (hok : ∀ k, k < r.K → NameOK (r.names.getD k []))
    (l : RLabel) (c : Cell α) (h : (l, c) ∈ compileColumn o raw r) : l.inTable o := by
  unfold compileColumn at h
  rw [List.mem_append] at h
  rcases h with h | h
  · simp only [List.mem_map, Prod.mk.injEq] at h
    obtain ⟨s, _, rfl, _⟩ := h
    trivial
  · cases hp : o.includeParams
    · simp [hp] at h
    · simp only [hp, ↓reduceIte] at h
      cases hf : o.formatted
      · simp only [hf, Bool.false_eq_true, ↓reduceIte, List.mem_flatMap, List.mem_range,
          List.mem_append, List.mem_cons, List.not_mem_nil, or_false, Prod.mk.injEq] at h
        obtain ⟨k, hk, h⟩ := h
        rcases h with (⟨rfl, _⟩ | h) | h
        · exact ⟨hf, hok k hk⟩
        · cases hs : o.includeStd
          · simp [hs] at h
          · simp only [hs, ↓reduceIte, List.mem_cons, List.not_mem_nil, or_false, Prod.mk.injEq] at h
            obtain ⟨rfl, _⟩ := h
            exact ⟨hf, hok k hk⟩
        · cases ht : o.includeT
          · simp [ht] at h
          · simp only [ht, ↓reduceIte, List.mem_cons, List.not_mem_nil, or_false, Prod.mk.injEq] at h
            obtain ⟨rfl, _⟩ := h
            exact ⟨hf, hok k hk⟩
      · simp only [hf, ↓reduceIte, List.mem_map, List.mem_range, Prod.mk.injEq] at h
        obtain ⟨k, hk, rfl, _⟩ := h
        exact ⟨hf, rfl, rfl, hok k hk⟩

end Stats
