/- Helper lemmas for Props/C13.lean (core Lean only). -/
import Model.Table

namespace Tbl

variable {α : Type}

/-! ### remove -/

theorem keepPositional_eq {α} : ∀ (rows : List (Row α)) (m : List Bool), m.length = rows.length →
    keepPositional rows m = ((rows.zip m).filter fun p => !p.2).map (·.1) := by
  intro rows
  induction rows with
  | nil => intro m _; simp [keepPositional]
  | cons r t ih =>
    intro m hm
    cases m with
    | nil => simp at hm
    | cons d m =>
      simp only [List.length_cons, Nat.add_right_cancel_iff] at hm
      simp only [keepPositional, List.zip_cons_cons, List.filter_cons]
      cases d <;> simp [ih m hm]

theorem keepPositional_length {α} : ∀ (rows : List (Row α)) (m : List Bool), m.length = rows.length →
    (keepPositional rows m).length + countTrue m = rows.length := by
  intro rows
  induction rows with
  | nil => intro m hm; cases m <;> simp_all [keepPositional, countTrue]
  | cons r t ih =>
    intro m hm
    cases m with
    | nil => simp at hm
    | cons d m =>
      simp only [List.length_cons, Nat.add_right_cancel_iff] at hm
      have := ih m hm
      unfold countTrue at this ⊢
      cases d with
      | true => simp only [keepPositional, ↓reduceIte, List.countP_cons, id, List.length_cons]; omega
      | false =>
        simp only [keepPositional, Bool.false_eq_true, ↓reduceIte, List.countP_cons, id, List.length_cons]
        omega

theorem badLabels_mem {α} : ∀ (rows : List (Row α)) (m : List Bool) (l : Int),
    l ∈ badLabels rows m → l ∈ rows.map (·.1) := by
  intro rows
  induction rows with
  | nil => intro m l h; simp [badLabels] at h
  | cons r t ih =>
    intro m l h
    cases m with
    | nil => simp [badLabels] at h
    | cons d m =>
      simp only [badLabels] at h
      cases d with
      | true =>
        simp only [↓reduceIte, List.mem_cons] at h
        rcases h with rfl | h
        · simp
        · exact List.mem_cons_of_mem _ (ih m l h)
      | false =>
        simp only [Bool.false_eq_true, ↓reduceIte] at h
        exact List.mem_cons_of_mem _ (ih m l h)

/-- with pairwise different labels, dropping by label is dropping by position -/
theorem keepByLabel_eq_positional {α} : ∀ (rows : List (Row α)) (m : List Bool),
    m.length = rows.length → (rows.map (·.1)).Nodup →
    keepByLabel rows m = keepPositional rows m := by
  intro rows
  induction rows with
  | nil => intro m _ _; simp [keepByLabel, keepPositional]
  | cons r t ih =>
    intro m hm hnd
    cases m with
    | nil => simp at hm
    | cons d m =>
      simp only [List.length_cons, Nat.add_right_cancel_iff] at hm
      simp only [List.map_cons, List.nodup_cons] at hnd
      have iht := ih m hm hnd.2
      have hr : r.1 ∉ badLabels t m := fun h => hnd.1 (badLabels_mem t m r.1 h)
      unfold keepByLabel at iht ⊢
      cases d with
      | true =>
        simp only [badLabels, ↓reduceIte, keepPositional, List.filter_cons, List.contains_cons,
          BEq.rfl, Bool.true_or, Bool.not_true, Bool.false_eq_true]
        rw [← iht]
        apply List.filter_congr
        intro x hx
        have hxr : x.1 ≠ r.1 := fun h => hnd.1 (h ▸ List.mem_map_of_mem (f := (·.1)) hx)
        have : (x.1 == r.1) = false := by simpa using hxr
        simp [this]
      | false =>
        simp only [badLabels, Bool.false_eq_true, ↓reduceIte, keepPositional, List.filter_cons]
        have : (badLabels t m).contains r.1 = false := by
          cases h : (badLabels t m).contains r.1 with
          | false => rfl
          | true => exact absurd (List.contains_iff_mem.mp h) hr
        simp only [this, Bool.not_false, ↓reduceIte]
        rw [iht]

/-! ### scale -/

theorem modifyAt_length {α} (f : α → α) : ∀ (l : List α) (j : Nat), (modifyAt f l j).length = l.length := by
  intro l
  induction l with
  | nil => intro j; rfl
  | cons a t ih => intro j; cases j <;> simp [modifyAt, ih]

theorem modifyAt_getElem? {α} (f : α → α) : ∀ (l : List α) (j i : Nat),
    (modifyAt f l j)[i]? = if i = j then l[i]?.map f else l[i]? := by
  intro l
  induction l with
  | nil => intro j i; simp [modifyAt]
  | cons a t ih =>
    intro j i
    cases j with
    | zero => cases i <;> simp [modifyAt]
    | succ j =>
      cases i with
      | zero => simp [modifyAt]
      | succ i => simp [modifyAt, ih j i]

/-! ### array_split -/

theorem sum_map_add_const (a : Nat) (f : Nat → Nat) : ∀ (l : List Nat),
    (l.map fun i => a + f i).sum = l.length * a + (l.map f).sum := by
  intro l
  induction l with
  | nil => simp
  | cons x t ih => simp only [List.map_cons, List.sum_cons, ih, List.length_cons, Nat.succ_mul]; omega

theorem sum_indicator (m : Nat) : ∀ k, ((List.range k).map fun i => if i < m then 1 else 0).sum = min m k := by
  intro k
  induction k with
  | zero => simp
  | succ k ih =>
    rw [List.range_succ, List.map_append, List.sum_append_nat, ih]
    simp only [List.map_cons, List.map_nil, List.sum_cons, List.sum_nil, Nat.add_zero]
    split <;> omega

theorem splitSizes_sum (n k : Nat) (hk : 0 < k) : (splitSizes n k).sum = n := by
  unfold splitSizes
  rw [sum_map_add_const, sum_indicator, List.length_range]
  have h1 : n % k < k := Nat.mod_lt _ hk
  have h2 := Nat.div_add_mod n k
  rw [Nat.min_eq_left (Nat.le_of_lt h1)]
  exact h2

theorem splitSizes_length (n k : Nat) : (splitSizes n k).length = k := by simp [splitSizes]

theorem cut_flatten {β} : ∀ (sizes : List Nat) (l : List β), (cut l sizes).flatten = l.take sizes.sum := by
  intro sizes
  induction sizes with
  | nil => intro l; simp [cut]
  | cons s ss ih =>
    intro l
    simp only [cut, List.flatten_cons, ih, List.sum_cons]
    rw [List.take_add, List.take_drop]

theorem cut_length {β} : ∀ (sizes : List Nat) (l : List β), (cut l sizes).length = sizes.length := by
  intro sizes
  induction sizes with
  | nil => intro l; rfl
  | cons s ss ih => intro l; simp [cut, ih]

theorem arraySplit_flatten {β} (l : List β) (k : Nat) (hk : 0 < k) : (arraySplit l k).flatten = l := by
  unfold arraySplit
  rw [cut_flatten, splitSizes_sum _ _ hk, List.take_length]

theorem arraySplit_length {β} (l : List β) (k : Nat) : (arraySplit l k).length = k := by
  unfold arraySplit
  rw [cut_length, splitSizes_length]

theorem cut_sizes {β} : ∀ (sizes : List Nat) (l : List β), sizes.sum ≤ l.length →
    (cut l sizes).map List.length = sizes := by
  intro sizes
  induction sizes with
  | nil => intro l _; rfl
  | cons s ss ih =>
    intro l h
    simp only [List.sum_cons] at h
    simp only [cut, List.map_cons, List.length_take]
    rw [ih (l.drop s) (by simp only [List.length_drop]; omega)]
    congr 1
    omega

theorem arraySplit_sizes {β} (l : List β) (k : Nat) (hk : 0 < k) :
    (arraySplit l k).map List.length = splitSizes l.length k := by
  unfold arraySplit
  exact cut_sizes _ _ (by rw [splitSizes_sum _ _ hk]; exact Nat.le_refl _)

/-! ### folds -/

theorem foldsOf_validation {β} (parts : List (List β)) : (foldsOf parts).map (·.2) = parts := by
  unfold foldsOf
  rw [List.map_map]
  apply List.ext_getElem
  · simp
  · intro i h1 h2
    simp only [List.length_map, List.length_range] at h1
    simp [List.getD_eq_getElem?_getD, h1]

theorem take_drop_perm {β} (parts : List (List β)) (i : Nat) (hi : i < parts.length) :
    ((parts.take i ++ parts.drop (i + 1)).flatten ++ parts[i]).Perm parts.flatten := by
  have hsplit : parts = parts.take i ++ parts[i] :: parts.drop (i + 1) := by
    rw [List.getElem_cons_drop hi, List.take_append_drop]
  conv => rhs; rw [hsplit]
  simp only [List.flatten_append, List.flatten_cons]
  -- A ++ C ++ B ~ A ++ (B ++ C)
  rw [List.append_assoc]
  apply List.Perm.append_left
  exact List.perm_append_comm

theorem foldsOf_complement {β} (parts : List (List β)) (f : List β × List β) (hf : f ∈ foldsOf parts) :
    (f.1 ++ f.2).Perm parts.flatten := by
  unfold foldsOf at hf
  simp only [List.mem_map, List.mem_range] at hf
  obtain ⟨i, hi, rfl⟩ := hf
  simp only [List.getD_eq_getElem?_getD, List.getElem?_eq_getElem hi, Option.getD_some]
  exact take_drop_perm parts i hi

theorem foldsOf_length {β} (parts : List (List β)) : (foldsOf parts).length = parts.length := by
  simp [foldsOf]

/-! ### partition of rows by disjoint lists of keys -/

theorem filter_parts_perm {β κ : Type} (key : β → κ) (memb : κ → List κ → Bool)
    (hmem : ∀ x l, memb x l = true ↔ x ∈ l) :
    ∀ (parts : List (List κ)) (l : List β), parts.flatten.Nodup → (∀ x ∈ l, key x ∈ parts.flatten) →
      ((parts.map fun ids => l.filter fun x => memb (key x) ids).flatten).Perm l := by
  intro parts
  induction parts with
  | nil =>
    intro l _ hcov
    cases l with
    | nil => simp
    | cons x t => exact absurd (hcov x List.mem_cons_self) (by simp)
  | cons P Q ih =>
    intro l hnd hcov
    simp only [List.flatten_cons] at hnd hcov
    have hQ : Q.flatten.Nodup := (List.nodup_append.mp hnd).2.1
    have hdisj : ∀ a ∈ P, ∀ b ∈ Q.flatten, a ≠ b := (List.nodup_append.mp hnd).2.2
    let l' := l.filter fun x => !memb (key x) P
    have hcov' : ∀ x ∈ l', key x ∈ Q.flatten := by
      intro x hx
      simp only [l', List.mem_filter, Bool.not_eq_true'] at hx
      rcases List.mem_append.mp (hcov x hx.1) with h | h
      · have := (hmem (key x) P).mpr h; rw [hx.2] at this; cases this
      · exact h
    have ih' := ih l' hQ hcov'
    have hsame : (Q.map fun ids => l'.filter fun x => memb (key x) ids) =
        (Q.map fun ids => l.filter fun x => memb (key x) ids) := by
      apply List.map_congr_left
      intro ids hids
      simp only [l', List.filter_filter]
      apply List.filter_congr
      intro x _
      cases hm : memb (key x) ids with
      | false => simp
      | true =>
        have hk : key x ∈ Q.flatten := List.mem_flatten.mpr ⟨ids, hids, (hmem _ _).mp hm⟩
        have : memb (key x) P = false := by
          cases hp : memb (key x) P with
          | false => rfl
          | true => exact absurd rfl (hdisj _ ((hmem _ _).mp hp) _ hk)
        simp [this]
    simp only [List.map_cons, List.flatten_cons]
    rw [← hsame]
    exact (List.Perm.append_left _ ih').trans (List.filter_append_perm _ l)

/-! ### group ids -/

section eqlaw
variable [NumOps α] (heq : ∀ a b : α, Num.eq a b = true ↔ a = b)
include heq

theorem memB_iff (x : α) (l : List α) : memB x l = true ↔ x ∈ l := by
  unfold memB
  simp only [List.any_eq_true]
  constructor
  · rintro ⟨y, hy, h⟩; rw [← (heq y x).mp h]; exact hy
  · intro h; exact ⟨x, h, (heq x x).mpr rfl⟩

theorem mem_dedup : ∀ (l : List α) (x : α), x ∈ dedup l ↔ x ∈ l := by
  intro l
  induction l with
  | nil => intro x; simp [dedup]
  | cons a t ih =>
    intro x
    simp only [dedup, List.mem_cons, List.mem_filter, ih, Bool.not_eq_true']
    constructor
    · rintro (h | ⟨h, _⟩)
      · exact Or.inl h
      · exact Or.inr h
    · rintro (h | h)
      · exact Or.inl h
      · by_cases hxa : x = a
        · exact Or.inl hxa
        · right
          refine ⟨h, ?_⟩
          cases hh : Num.eq x a with
          | false => rfl
          | true => exact absurd ((heq x a).mp hh) hxa

theorem nodup_dedup : ∀ (l : List α), (dedup l).Nodup := by
  intro l
  induction l with
  | nil => simp [dedup]
  | cons a t ih =>
    simp only [dedup, List.nodup_cons, List.mem_filter, Bool.not_eq_true', not_and]
    refine ⟨?_, List.Nodup.sublist List.filter_sublist ih⟩
    intro _ h
    rw [(heq a a).mpr rfl] at h; cases h

/-- grouped split: the validation parts contain every row exactly once -/
theorem splitGroups_validation_perm (rows : List (Row α)) (j : Nat) (sids : List α) (k : Nat)
    (hk : 0 < k) (hs : sids.Perm (dedup (rows.map fun r => cellD r.2 j))) :
    (((splitGroups rows j sids k).map (·.2)).flatten).Perm rows := by
  unfold splitGroups
  rw [foldsOf_validation]
  have hflat := arraySplit_flatten sids k hk
  apply filter_parts_perm (fun r : Row α => cellD r.2 j) memB (memB_iff heq)
  · rw [hflat]; exact (List.Perm.nodup_iff hs).mpr (nodup_dedup heq _)
  · intro r hr
    rw [hflat]
    exact hs.symm.subset ((mem_dedup heq _ _).mpr (List.mem_map_of_mem hr))

/-- every individual's observations, each row once (flattening loses and duplicates nothing) -/
theorem groupsBy_perm (rows : List (Row α)) (j : Nat) :
    (((groupsBy rows j).map (·.2)).flatten).Perm rows := by
  unfold groupsBy
  rw [List.map_map]
  have h := filter_parts_perm (fun r : Row α => cellD r.2 j) memB (memB_iff heq)
    ((dedup (rows.map fun r => cellD r.2 j)).map fun i => [i]) rows
    (by
      have : ((dedup (rows.map fun r => cellD r.2 j)).map fun i => [i]).flatten
          = dedup (rows.map fun r => cellD r.2 j) := by
        induction (dedup (rows.map fun r => cellD r.2 j)) with
        | nil => rfl
        | cons a t ih => simp [ih]
      rw [this]; exact nodup_dedup heq _)
    (by
      intro r hr
      have : ((dedup (rows.map fun r => cellD r.2 j)).map fun i => [i]).flatten
          = dedup (rows.map fun r => cellD r.2 j) := by
        induction (dedup (rows.map fun r => cellD r.2 j)) with
        | nil => rfl
        | cons a t ih => simp [ih]
      rw [this]
      exact (mem_dedup heq _ _).mpr (List.mem_map_of_mem hr))
  rw [List.map_map] at h
  have hfun : ((fun ids => List.filter (fun x : Row α => memB (cellD x.2 j) ids) rows) ∘ fun i => [i])
      = ((fun x : α × List (Row α) => x.2) ∘ fun i => (i, List.filter (fun r : Row α => Num.eq (cellD r.2 j) i) rows)) := by
    funext i
    simp only [Function.comp]
    apply List.filter_congr
    intro x _
    simp [memB, Bool.eq_iff_iff, heq, eq_comm]
  rw [hfun] at h
  exact h

/-! ### counting -/

/-- over pairwise different values the counts add up to the number of entries that hold one of them -/
theorem sum_countP_nodup : ∀ (d : List α), d.Nodup → ∀ (m : List α),
    (d.map fun v => m.countP fun x => Num.eq x v).sum = m.countP fun x => memB x d := by
  intro d
  induction d with
  | nil => intro _ m; simp [memB]
  | cons a d ih =>
    intro hd m
    have hnd := List.nodup_cons.mp hd
    rw [List.map_cons, List.sum_cons, ih hnd.2 m]
    induction m with
    | nil => rfl
    | cons x m ihm =>
      have hx : memB x (a :: d) = (Num.eq x a || memB x d) := by
        have h1 : Num.eq a x = Num.eq x a := by
          rw [Bool.eq_iff_iff, heq, heq]; exact eq_comm
        simp [memB, h1]
      rw [List.countP_cons, List.countP_cons, List.countP_cons, hx]
      cases h1 : Num.eq x a with
      | false =>
        cases h2 : memB x d <;> simp <;> omega
      | true =>
        have hxa : x = a := (heq x a).mp h1
        have h2 : memB x d = false := by
          cases hh : memB x d with
          | false => rfl
          | true => exact absurd ((memB_iff heq x d).mp hh) (hxa ▸ hnd.1)
        rw [h2]; simp; omega

/-- **the counts of the distinct values of a column add up to the number of rows**: no entry is
counted for two values, none is left out -/
theorem counts_partition (l : List α) :
    ((dedup l).map fun v => l.countP fun x => Num.eq x v).sum = l.length := by
  rw [sum_countP_nodup heq _ (nodup_dedup heq l) l, List.countP_eq_length]
  intro x hx
  exact (memB_iff heq x _).mpr ((mem_dedup heq l x).mpr hx)

/-- a value that no entry holds is counted 0 times, one that some entry holds at least once -/
theorem countP_eq_zero_iff_absent (l : List α) (v : α) :
    (l.countP fun x => Num.eq x v) = 0 ↔ v ∉ l := by
  rw [List.countP_eq_zero]
  constructor
  · intro h hv; exact h v hv ((heq v v).mpr rfl)
  · intro h x hx hxv; exact h ((heq x v).mp hxv ▸ hx)

end eqlaw

/-! ### extraction, sampling -/

theorem filterMap_getElem?_eq {β} (rows : List β) (d : β) : ∀ (l : List Int),
    (∀ i ∈ l, 0 ≤ i ∧ i < rows.length) →
    (l.filterMap fun i => rows[i.toNat]?) = (l.map fun i => (rows[i.toNat]?).getD d) := by
  intro l
  induction l with
  | nil => intro _; rfl
  | cons a t ih =>
    intro hl
    have ha := hl a List.mem_cons_self
    have hlt : a.toNat < rows.length := by omega
    simp only [List.filterMap_cons, List.getElem?_eq_getElem hlt, List.map_cons, Option.getD_some]
    rw [ih (fun i hi => hl i (List.mem_cons_of_mem _ hi))]

theorem extract_ok (db : DB α) (pos : List Int)
    (h : ∀ i ∈ pos, 0 ≤ i ∧ i < db.t.rows.length) :
    ∃ out, db.extract pos = .ok out ∧ out.length = pos.length ∧
      ∀ (n : Nat) (hn : n < pos.length), out[n]? = db.t.rows[(pos[n]).toNat]? := by
  have hany : pos.any (fun i => i < 0 || i ≥ db.t.rows.length) = false := by
    rw [List.any_eq_false]
    intro i hi
    have := h i hi
    simp only [Bool.or_eq_true, decide_eq_true_eq, not_or, Int.not_lt, ge_iff_le, Int.not_le]
    exact this
  have hfm := filterMap_getElem?_eq db.t.rows ((0 : Int), []) pos h
  refine ⟨pos.map fun i => (db.t.rows[i.toNat]?).getD ((0 : Int), []), ?_, by simp, ?_⟩
  · simp only [DB.extract, hany, Bool.false_eq_true, ↓reduceIte, hfm]
  · intro n hn
    have hp := h pos[n] (List.getElem_mem hn)
    have hlt : (pos[n]).toNat < db.t.rows.length := by omega
    simp [List.getElem?_eq_getElem hn, List.getElem?_eq_getElem hlt]

theorem extract_err (db : DB α) (pos : List Int)
    (h : ∃ i ∈ pos, i < 0 ∨ i ≥ db.t.rows.length) : db.extract pos = .error .indexError := by
  have hany : pos.any (fun i => i < 0 || i ≥ db.t.rows.length) = true := by
    rw [List.any_eq_true]
    obtain ⟨i, hi, hc⟩ := h
    exact ⟨i, hi, by simpa using hc⟩
  simp [DB.extract, hany]

/-! ### the invariant of operation sequences -/

theorem colIdx_some (cols : List String) (c : String) (j : Nat) (h : colIdx cols c = some j) :
    j < cols.length ∧ cols[j]? = some c := by
  unfold colIdx at h
  split at h
  · rename_i j' hj
    simp only [Option.some.injEq] at h
    subst h
    rw [List.findIdx?_eq_some_iff_getElem] at hj
    obtain ⟨hlt, hc, _⟩ := hj
    refine ⟨hlt, ?_⟩
    rw [List.getElem?_eq_getElem hlt]
    simpa using hc
  · cases h

theorem colIdx_inj (cols : List String) (c c' : String) (j : Nat)
    (h : colIdx cols c = some j) (h' : colIdx cols c' = some j) : c = c' := by
  have a := (colIdx_some cols c j h).2
  have b := (colIdx_some cols c' j h').2
  rw [a] at b
  exact Option.some.inj b

theorem colIdx_append (cols : List String) (c n : String) (j : Nat) (h : colIdx cols c = some j) :
    colIdx (cols ++ [n]) c = some j := by
  unfold colIdx at h ⊢
  split at h
  · rename_i j' hj
    simp only [Option.some.injEq] at h
    subst h
    rw [List.findIdx?_append, hj]
    rfl
  · cases h

theorem cellD_append [NumOps α] (r : List α) (v : α) (j : Nat) (h : j < r.length) :
    cellD (r ++ [v]) j = cellD r j := by
  unfold cellD
  simp [List.getD_eq_getElem?_getD, List.getElem?_append_left h]

theorem cellD_modifyAt_ne [NumOps α] (f : α → α) (r : List α) (j j' : Nat) (h : j ≠ j') :
    cellD (modifyAt f r j') j = cellD r j := by
  unfold cellD
  simp [List.getD_eq_getElem?_getD, modifyAt_getElem?, h]

theorem renumber_labels (rows : List (Row α)) :
    (renumber rows).map (·.1) = (List.range rows.length).map fun i : Nat => (i : Int) := by
  unfold renumber
  rw [List.map_map]
  apply List.ext_getElem
  · simp
  · intro i h1 h2
    simp

theorem renumber_values (rows : List (Row α)) : (renumber rows).map (·.2) = rows.map (·.2) := by
  unfold renumber
  rw [List.map_map]
  apply List.ext_getElem
  · simp
  · intro i h1 h2
    simp

theorem renumber_length (rows : List (Row α)) : (renumber rows).length = rows.length := by
  simp [renumber]

/-- what sequences of operations preserve: every row has one value per column; in panel mode
the panel column exists, the rows are numbered 0..n-1 and the map is the map of the runs of
the current id column -/
structure Inv [NumOps α] (db : DB α) : Prop where
  widths : ∀ r ∈ db.t.rows, r.2.length = db.t.cols.length
  panelOK : ∀ c, db.panelCol = some c → ∃ j, colIdx db.t.cols c = some j ∧
    db.t.labels = ((List.range db.t.rows.length).map fun i : Nat => (i : Int)) ∧
    db.map = runMap (db.t.column j) 0

theorem rebuild_inv [NumOps α] (db : DB α) (hw : ∀ r ∈ db.t.rows, r.2.length = db.t.cols.length)
    (hc : ∀ c, db.panelCol = some c → ∃ j, colIdx db.t.cols c = some j) : Inv db.rebuild := by
  unfold DB.rebuild
  cases hp : db.panelCol with
  | none =>
    exact ⟨hw, fun c h => by simp only; rw [hp] at h; cases h⟩
  | some c =>
    obtain ⟨j, hj⟩ := hc c hp
    simp only [hj]
    constructor
    · intro r hr
      simp only at hr ⊢
      have hv : r.2 ∈ (renumber (sortBy db.t.rows j)).map (·.2) := List.mem_map_of_mem hr
      rw [renumber_values] at hv
      obtain ⟨r', hr', he⟩ := List.mem_map.mp hv
      have : r' ∈ db.t.rows := (List.mergeSort_perm _ _).subset hr'
      rw [← he]; exact hw r' this
    · intro c' hc'
      simp only at hc' ⊢
      have : c = c' := Option.some.inj hc'
      subst this
      refine ⟨j, hj, ?_, ?_⟩
      · simp only [Table.labels]
        rw [renumber_labels, renumber_length]
      · simp only [Table.column]

theorem keepPositional_sublist {α} : ∀ (rows : List (Row α)) (m : List Bool), (keepPositional rows m).Sublist rows := by
  intro rows
  induction rows with
  | nil => intro m; simp [keepPositional]
  | cons r t ih =>
    intro m
    cases m with
    | nil => simp [keepPositional]
    | cons d m =>
      simp only [keepPositional]
      cases d
      · simp only [Bool.false_eq_true, ↓reduceIte]; exact (ih m).cons_cons r
      · simp only [↓reduceIte]; exact (ih m).cons r

theorem okOr_inv [NumOps α] (db : DB α) (r : Except Err (DB α)) (h : Inv db)
    (hr : ∀ d, r = .ok d → Inv d) : Inv (okOr db r) := by
  cases r with
  | ok d => exact hr d rfl
  | error e => exact h

theorem remove_inv [NumOps α] (db : DB α) (f : Fm α) (h : Inv db) : Inv (okOr db (db.remove f)) := by
  apply okOr_inv db _ h
  intro d hd
  unfold DB.remove at hd
  split at hd
  · cases hd
  · split at hd
    · cases hd
    · simp only [Except.ok.injEq] at hd
      rw [← hd]
      apply rebuild_inv
      · intro r hr
        exact h.widths r ((keepPositional_sublist _ _).subset hr)
      · intro c hc
        obtain ⟨j, hj, _⟩ := h.panelOK c hc
        exact ⟨j, hj⟩

theorem panel_inv [NumOps α] (db : DB α) (c : String) (h : Inv db) : Inv (okOr db (db.panel c)) := by
  apply okOr_inv db _ h
  intro d hd
  unfold DB.panel at hd
  split at hd
  · cases hd
  · rename_i j hj
    simp only at hd
    split at hd
    · cases hd
    · simp only [Except.ok.injEq] at hd
      rw [← hd]
      apply rebuild_inv
      · exact h.widths
      · intro c' hc'
        simp only [Option.some.injEq] at hc'
        subst hc'
        exact ⟨j, hj⟩

theorem addColumn_inv [NumOps α] (db : DB α) (n : String) (f : Fm α) (h : Inv db) :
    Inv (okOr db (db.addColumn n f)) := by
  apply okOr_inv db _ h
  intro d hd
  unfold DB.addColumn at hd
  split at hd
  · cases hd
  · split at hd
    · cases hd
    · split at hd
      · cases hd
      · simp only [Except.ok.injEq] at hd
        rw [← hd]
        constructor
        · intro r hr
          simp only [Table.addCol, List.mem_map] at hr
          obtain ⟨r', hr', rfl⟩ := hr
          simp [Table.addCol, h.widths r' hr']
        · intro c hc
          simp only at hc
          obtain ⟨j, hj, hl, hm⟩ := h.panelOK c hc
          have hjlt := (colIdx_some _ _ _ hj).1
          refine ⟨j, ?_, ?_, ?_⟩
          · simp only [Table.addCol]; exact colIdx_append _ _ _ _ hj
          · simp only [Table.labels, Table.addCol, List.map_map, List.length_map] at hl ⊢
            exact hl
          · simp only [Table.column, Table.addCol, List.map_map] at hm ⊢
            rw [hm]
            congr 1
            apply List.map_congr_left
            intro r hr
            simp only [Function.comp]
            exact (cellD_append r.2 _ j (by rw [h.widths r hr]; exact hjlt)).symm

theorem scale_inv [NumOps α] (db : DB α) (c : String) (s : α) (h : Inv db)
    (hne : db.panelCol ≠ some c) : Inv (okOr db (db.scale c s)) := by
  apply okOr_inv db _ h
  intro d hd
  unfold DB.scale at hd
  split at hd
  · cases hd
  · rename_i j' hj'
    simp only [Except.ok.injEq] at hd
    rw [← hd]
    constructor
    · intro r hr
      simp only [Table.scaleCol, List.mem_map] at hr
      obtain ⟨r', hr', rfl⟩ := hr
      simp [Table.scaleCol, modifyAt_length, h.widths r' hr']
    · intro c' hc'
      simp only at hc'
      obtain ⟨j, hj, hl, hm⟩ := h.panelOK c' hc'
      have hjj : j ≠ j' := fun e => hne (by rw [hc']; congr 1; exact (colIdx_inj _ _ _ _ (e ▸ hj) hj'))
      refine ⟨j, hj, ?_, ?_⟩
      · simp only [Table.labels, Table.scaleCol, List.map_map, List.length_map] at hl ⊢
        exact hl
      · simp only [Table.column, Table.scaleCol, List.map_map] at hm ⊢
        rw [hm]
        congr 1
        apply List.map_congr_left
        intro r _
        simp only [Function.comp]
        exact (cellD_modifyAt_ne _ r.2 j j' hjj).symm

/-- the panel column of a run never leaves the set {initial one} ∪ {columns named by a panel op} -/
def panelCandidates (db : DB α) (ops : List (Op α)) : List String :=
  (match db.panelCol with | some c => [c] | none => []) ++
    ops.filterMap fun op => match op with | .panel c => some c | _ => none

def scaleTargets (ops : List (Op α)) : List String :=
  ops.filterMap fun op => match op with | .scale c _ => some c | _ => none

theorem apply_panelCol [NumOps α] (db : DB α) (op : Op α) :
    (db.apply op).panelCol = db.panelCol ∨ ∃ c, op = .panel c ∧ (db.apply op).panelCol = some c := by
  cases op with
  | remove f =>
    left
    simp only [DB.apply, DB.remove]
    split
    · rfl
    · split
      · rfl
      · simp only [okOr, DB.rebuild]
        split
        · rfl
        · split <;> rfl
  | addColumn n f =>
    left
    simp only [DB.apply, DB.addColumn]
    split
    · rfl
    · split
      · rfl
      · split <;> rfl
  | scale c s =>
    left
    simp only [DB.apply, DB.scale]
    split <;> rfl
  | panel c =>
    simp only [DB.apply, DB.panel]
    split
    · left; rfl
    · split
      · left; rfl
      · right
        refine ⟨c, rfl, ?_⟩
        simp only [okOr, DB.rebuild]
        split <;> rfl

theorem run_inv [NumOps α] (ops : List (Op α)) : ∀ (db : DB α), Inv db →
    (∀ c ∈ scaleTargets ops, c ∉ panelCandidates db ops) → Inv (db.run ops) := by
  induction ops with
  | nil => intro db h _; exact h
  | cons op t ih =>
    intro db h hg
    simp only [DB.run, List.foldl_cons]
    have hstep : Inv (db.apply op) := by
      cases op with
      | remove f => exact remove_inv db f h
      | addColumn n f => exact addColumn_inv db n f h
      | panel c => exact panel_inv db c h
      | scale c s =>
        apply scale_inv db c s h
        intro hpc
        apply hg c (by simp [scaleTargets])
        simp [panelCandidates, hpc]
    apply ih (db.apply op) hstep
    intro c hc
    have hc' : c ∈ scaleTargets (op :: t) := by
      simp only [scaleTargets, List.filterMap_cons] at hc ⊢
      split
      · exact hc
      · exact List.mem_cons_of_mem _ hc
    have hnot := hg c hc'
    intro hin
    apply hnot
    simp only [panelCandidates, List.mem_append, List.filterMap_cons] at hin ⊢
    rcases hin with hin | hin
    · rcases apply_panelCol db op with heqp | ⟨c0, hop, hpc⟩
      · rw [heqp] at hin; exact Or.inl hin
      · rw [hpc] at hin
        simp only [List.mem_cons, List.not_mem_nil, or_false] at hin
        right
        rw [hop]
        simp [hin]
    · right
      split
      · exact hin
      · exact List.mem_cons_of_mem _ hin

end Tbl
