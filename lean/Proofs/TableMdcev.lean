/- Helper lemmas for `mdcev_count` (core Lean only). -/
import Model.TableMdcev
import Proofs.TableTools

namespace Tbl

variable {α : Type}

theorem cellD_modifyAt_self [NumOps α] (f : α → α) (r : List α) (k : Nat) (h : k < r.length) :
    cellD (modifyAt f r k) k = f (cellD r k) := by
  unfold cellD
  simp [List.getD_eq_getElem?_getD, modifyAt_getElem?, List.getElem?_eq_getElem h]

theorem cellD_append_self [NumOps α] (r : List α) (v : α) : cellD (r ++ [v]) r.length = v := by
  unfold cellD
  simp [List.getD_eq_getElem?_getD]

/-- a new column: appended, everything else as it was -/
theorem mdcevCount_new [NumOps α] (t : Table α) (js : List Nat) (name : String)
    (hn : colIdx t.cols name = none) (hw : ∀ r ∈ t.rows, r.2.length = t.cols.length) :
    (t.mdcevCount js name).cols = t.cols ++ [name] ∧
    (t.mdcevCount js name).labels = t.labels ∧
    (t.mdcevCount js name).column t.cols.length = t.rows.map (fun r => Num.nat (nonZeroCount js r.2)) ∧
    ∀ j, j < t.cols.length → (t.mdcevCount js name).column j = t.column j := by
  simp only [Table.mdcevCount, hn]
  refine ⟨trivial, by simp [Table.labels, List.map_map, Function.comp_def], ?_, ?_⟩
  · simp only [Table.column, List.map_map]
    apply List.map_congr_left
    intro r hr
    simp only [Function.comp]
    rw [← hw r hr]
    exact cellD_append_self r.2 _
  · intro j hj
    simp only [Table.column, List.map_map]
    apply List.map_congr_left
    intro r hr
    exact cellD_append r.2 _ j (by rw [hw r hr]; exact hj)

/-- an existing column: overwritten in place, everything else as it was -/
theorem mdcevCount_existing [NumOps α] (t : Table α) (js : List Nat) (name : String) (k : Nat)
    (hk : colIdx t.cols name = some k) (hw : ∀ r ∈ t.rows, r.2.length = t.cols.length) :
    (t.mdcevCount js name).cols = t.cols ∧
    (t.mdcevCount js name).labels = t.labels ∧
    (t.mdcevCount js name).column k = t.rows.map (fun r => Num.nat (nonZeroCount js r.2)) ∧
    (∀ j, j ≠ k → (t.mdcevCount js name).column j = t.column j) ∧
    (∀ r ∈ (t.mdcevCount js name).rows, r.2.length = t.cols.length) := by
  have hkl : k < t.cols.length := (colIdx_some t.cols name k hk).1
  simp only [Table.mdcevCount, hk]
  refine ⟨trivial, by simp [Table.labels, List.map_map, Function.comp_def], ?_, ?_, ?_⟩
  · simp only [Table.column, List.map_map]
    apply List.map_congr_left
    intro r hr
    simp only [Function.comp]
    exact cellD_modifyAt_self _ r.2 k (by rw [hw r hr]; exact hkl)
  · intro j hj
    simp only [Table.column, List.map_map]
    apply List.map_congr_left
    intro r _
    exact cellD_modifyAt_ne _ r.2 j k hj
  · intro r hr
    obtain ⟨r0, hr0, rfl⟩ := List.mem_map.mp hr
    simp only [modifyAt_length]
    exact hw r0 hr0

/-- `mdcev_count` keeps the invariant of operation sequences, provided it does not overwrite the
panel column (the individual map is keyed by it) -/
theorem mdcevCount_inv [NumOps α] (db : DB α) (names : List String) (name : String) (h : Inv db)
    (hg : db.panelCol ≠ some name) : Inv (okOr db (db.mdcevCount names name)) := by
  apply okOr_inv db _ h
  intro d hd
  unfold DB.mdcevCount at hd
  split at hd
  · cases hd
  · rename_i js _
    simp only [Except.ok.injEq] at hd
    rw [← hd]
    cases hn : colIdx db.t.cols name with
    | none =>
      obtain ⟨hc, hl, _, hcol⟩ := mdcevCount_new db.t js name hn h.widths
      constructor
      · intro r hr
        simp only [Table.mdcevCount, hn, List.mem_map] at hr
        obtain ⟨r', hr', rfl⟩ := hr
        simp [Table.mdcevCount, hn, h.widths r' hr']
      · intro c hcp
        simp only at hcp
        obtain ⟨j, hj, hlab, hm⟩ := h.panelOK c hcp
        have hjlt := (colIdx_some _ _ _ hj).1
        refine ⟨j, ?_, ?_, ?_⟩
        · simp only; rw [hc]; exact colIdx_append _ _ _ _ hj
        · simp only
          rw [hl, hlab]
          simp [Table.mdcevCount, hn]
        · simp only
          rw [hcol j hjlt]; exact hm
    | some k =>
      obtain ⟨hc, hl, _, hcol, hw⟩ := mdcevCount_existing db.t js name k hn h.widths
      constructor
      · intro r hr
        simp only at hr ⊢
        rw [hc]; exact hw r hr
      · intro c hcp
        simp only at hcp
        obtain ⟨j, hj, hlab, hm⟩ := h.panelOK c hcp
        have hjk : j ≠ k := by
          intro e
          subst e
          exact hg (by rw [hcp, colIdx_inj _ _ _ _ hj hn])
        refine ⟨j, ?_, ?_, ?_⟩
        · simp only; rw [hc]; exact hj
        · simp only
          rw [hl, hlab]
          simp [Table.mdcevCount, hn]
        · simp only
          rw [hcol j hjk]; exact hm

end Tbl
