/- Helper lemmas for the `tools.database` part of Props/C13.lean (core Lean only). -/
import Model.TableTools
import Proofs.Table

namespace Tbl

variable {α : Type}

section eqlaw
variable [NumOps α] (heq : ∀ a b : α, Num.eq a b = true ↔ a = b)
include heq

/-- the test the detection applies to one group: every value equals the value of the first row -/
theorem headAll_iff (l : List (Row α)) (c : Nat) :
    (match l with
      | [] => true
      | r :: rest => rest.all fun r' => Num.eq (cellD r'.2 c) (cellD r.2 c)) = true ↔
    ∀ a ∈ l, ∀ b ∈ l, cellD a.2 c = cellD b.2 c := by
  cases l with
  | nil => simp
  | cons r rest =>
    simp only [List.all_eq_true, heq]
    constructor
    · intro h a ha b hb
      have key : ∀ x ∈ r :: rest, cellD x.2 c = cellD r.2 c := by
        intro x hx
        rcases List.mem_cons.mp hx with rfl | hx
        · rfl
        · exact h x hx
      exact (key a ha).trans (key b hb).symm
    · intro h r' hr'
      exact h r' (List.mem_cons_of_mem _ hr') r List.mem_cons_self

/-- membership in the groups: the id occurs in the table, the rows are those with that id -/
theorem mem_groupsBy (rows : List (Row α)) (j : Nat) (g : α × List (Row α)) :
    g ∈ groupsBy rows j ↔ (∃ r ∈ rows, cellD r.2 j = g.1) ∧
      g.2 = rows.filter fun r => Num.eq (cellD r.2 j) g.1 := by
  unfold groupsBy
  simp only [List.mem_map, mem_dedup heq]
  constructor
  · rintro ⟨i, ⟨r, hr, rfl⟩, rfl⟩
    exact ⟨⟨r, hr, rfl⟩, rfl⟩
  · rintro ⟨⟨r, hr, hi⟩, h2⟩
    refine ⟨g.1, ⟨r, hr, hi⟩, ?_⟩
    cases g with
    | mk a b => simp only at h2 ⊢; rw [h2]

theorem mem_group_rows (rows : List (Row α)) (j : Nat) (i : α) (r : Row α) :
    r ∈ (rows.filter fun r => Num.eq (cellD r.2 j) i) ↔ r ∈ rows ∧ cellD r.2 j = i := by
  rw [List.mem_filter, heq]

/-- **the detection of the identical columns is exact, wherever the rows of a group are** -/
theorem identicalCols_iff (t : Table α) (j c : Nat) :
    c ∈ identicalCols t j ↔ c < t.cols.length ∧
      ∀ r ∈ t.rows, ∀ r' ∈ t.rows, cellD r.2 j = cellD r'.2 j → cellD r.2 c = cellD r'.2 c := by
  unfold identicalCols
  simp only [List.mem_filter, List.mem_range, List.all_eq_true]
  constructor
  · rintro ⟨hc, hall⟩
    refine ⟨hc, fun r hr r' hr' hid => ?_⟩
    have hg : (cellD r.2 j, t.rows.filter fun x => Num.eq (cellD x.2 j) (cellD r.2 j)) ∈ groupsBy t.rows j :=
      (mem_groupsBy heq _ _ _).mpr ⟨⟨r, hr, rfl⟩, rfl⟩
    have h := (headAll_iff heq _ c).mp (hall _ hg)
    exact h r ((mem_group_rows heq _ _ _ _).mpr ⟨hr, rfl⟩) r' ((mem_group_rows heq _ _ _ _).mpr ⟨hr', hid.symm⟩)
  · rintro ⟨hc, hall⟩
    refine ⟨hc, fun g hg => ?_⟩
    obtain ⟨_, h2⟩ := (mem_groupsBy heq _ _ _).mp hg
    apply (headAll_iff heq _ c).mpr
    intro a ha b hb
    rw [h2] at ha hb
    obtain ⟨ha1, ha2⟩ := (mem_group_rows heq _ _ _ _).mp ha
    obtain ⟨hb1, hb2⟩ := (mem_group_rows heq _ _ _ _).mp hb
    exact hall a ha1 b hb1 (ha2.trans hb2.symm)

/-- `Series.is_unique` -/
theorem allDistinct_iff : ∀ (l : List α), allDistinct l = true ↔ l.Nodup := by
  intro l
  induction l with
  | nil => simp [allDistinct]
  | cons a t ih =>
    simp only [allDistinct, Bool.and_eq_true, Bool.not_eq_true', List.nodup_cons, ih]
    constructor
    · rintro ⟨h1, h2⟩
      refine ⟨fun hm => ?_, h2⟩
      rw [(memB_iff heq a t).mpr hm] at h1; cases h1
    · rintro ⟨h1, h2⟩
      refine ⟨?_, h2⟩
      cases hh : memB a t with
      | false => rfl
      | true => exact absurd ((memB_iff heq a t).mp hh) h1

end eqlaw

/-! ### the cells of one individual -/

/-- every varying cell of every observation is stored under the key of that observation -/
theorem obsCells_mem [NumOps α] (cols : List String) (vary : List Nat) (jr : Option Nat) :
    ∀ (rows : List (Row α)) (o0 o : Nat) (r : Row α), rows[o]? = some r →
      ∀ c ∈ vary, some c ≠ jr →
        (CellName.obs (obsKey jr (o0 + o) r) (cols.getD c ""), cellD r.2 c) ∈ obsCells cols vary jr o0 rows := by
  intro rows
  induction rows with
  | nil => intro o0 o r h; simp at h
  | cons a rest ih =>
    intro o0 o r h c hc hne
    cases o with
    | zero =>
      simp only [List.getElem?_cons_zero, Option.some.injEq] at h
      subst h
      simp only [obsCells, List.mem_append, List.mem_map, List.mem_filter]
      left
      exact ⟨c, ⟨hc, by simpa using hne⟩, rfl⟩
    | succ o =>
      simp only [List.getElem?_cons_succ] at h
      simp only [obsCells, List.mem_append]
      right
      have := ih (o0 + 1) o r h c hc hne
      rw [show o0 + 1 + o = o0 + (o + 1) by omega] at this
      exact this

/-- nothing is invented: every observation cell is a varying cell of a row of the individual -/
theorem obsCells_sound [NumOps α] (cols : List String) (vary : List Nat) (jr : Option Nat) :
    ∀ (rows : List (Row α)) (o0 : Nat) (n : CellName α) (v : α), (n, v) ∈ obsCells cols vary jr o0 rows →
      ∃ r ∈ rows, ∃ c ∈ vary, v = cellD r.2 c ∧ ∃ k, n = CellName.obs k (cols.getD c "") := by
  intro rows
  induction rows with
  | nil => intro o0 n v h; simp [obsCells] at h
  | cons a rest ih =>
    intro o0 n v h
    simp only [obsCells, List.mem_append, List.mem_map, List.mem_filter] at h
    rcases h with ⟨c, ⟨hc, _⟩, hh⟩ | h
    · refine ⟨a, List.mem_cons_self, c, hc, ?_, ?_⟩
      · exact (congrArg Prod.snd hh).symm
      · exact ⟨_, (congrArg Prod.fst hh).symm⟩
    · obtain ⟨r, hr, rest'⟩ := ih (o0 + 1) n v h
      exact ⟨r, List.mem_cons_of_mem _ hr, rest'⟩

theorem mem_varyingCols (ncols j : Nat) (ident : List Nat) (c : Nat) :
    c ∈ varyingCols ncols j ident ↔ c < ncols ∧ c ∉ ident ∧ c ≠ j := by
  simp [varyingCols, List.mem_filter]

/-- the flat row of an individual: an identical column holds the value of the first row; a varying
column of observation `o` is stored under the key of that observation -/
theorem flatRow_reads [NumOps α] (cols : List String) (j : Nat) (ident : List Nat) (jr : Option Nat)
    (g : α × List (Row α)) (o : Nat) (r : Row α) (h : g.2[o]? = some r) (c : Nat) (hcj : c ≠ j) :
    (flatRow cols j ident jr g).1 = g.1 ∧
    (c ∈ ident → ∀ first, g.2[0]? = some first →
      (CellName.common (cols.getD c ""), cellD first.2 c) ∈ (flatRow cols j ident jr g).2) ∧
    (c < cols.length → c ∉ ident → some c ≠ jr →
      (CellName.obs (obsKey jr o r) (cols.getD c ""), cellD r.2 c) ∈ (flatRow cols j ident jr g).2) := by
  refine ⟨rfl, ?_, ?_⟩
  · intro hc first hf
    simp only [flatRow, List.mem_append, List.mem_map, List.mem_filter]
    left
    refine ⟨c, ⟨hc, by simpa using hcj⟩, ?_⟩
    have : g.2.headD ((0 : Int), []) = first := by
      cases hg : g.2 with
      | nil => rw [hg] at hf; simp at hf
      | cons a t => rw [hg] at hf; simp at hf; simp [hf]
    rw [this]
  · intro hc hni hne
    simp only [flatRow, List.mem_append]
    right
    have := obsCells_mem cols (varyingCols cols.length j ident) jr g.2 0 o r h c
      ((mem_varyingCols _ _ _ _).mpr ⟨hc, hni, hcj⟩) hne
    simpa using this

/-- nothing is invented in a flat row -/
theorem flatRow_sound [NumOps α] (cols : List String) (j : Nat) (ident : List Nat) (jr : Option Nat)
    (g : α × List (Row α)) (first : Row α) (hf : g.2[0]? = some first) (n : CellName α) (v : α)
    (h : (n, v) ∈ (flatRow cols j ident jr g).2) :
    ∃ r ∈ g.2, ∃ c, c ≠ j ∧ v = cellD r.2 c ∧
      ((c ∈ ident ∧ n = CellName.common (cols.getD c "") ∧ r = first) ∨
       (c ∉ ident ∧ ∃ k, n = CellName.obs k (cols.getD c ""))) := by
  have hfirst : g.2.headD ((0 : Int), []) = first ∧ first ∈ g.2 := by
    cases hg : g.2 with
    | nil => rw [hg] at hf; simp at hf
    | cons a t => rw [hg] at hf; simp at hf; simp [hf]
  simp only [flatRow, List.mem_append, List.mem_map, List.mem_filter] at h
  rcases h with ⟨c, ⟨hc, hcj⟩, hh⟩ | h
  · refine ⟨first, hfirst.2, c, by simpa using hcj, ?_, Or.inl ⟨hc, (congrArg Prod.fst hh).symm, rfl⟩⟩
    rw [← hfirst.1]; exact (congrArg Prod.snd hh).symm
  · obtain ⟨r, hr, c, hc, hv, k, hn⟩ := obsCells_sound cols _ jr g.2 0 n v h
    obtain ⟨_, hni, hcj⟩ := (mem_varyingCols _ _ _ _).mp hc
    exact ⟨r, hr, c, hcj, hv, Or.inr ⟨hni, k, hn⟩⟩

/-! ### mdcev_row_split -/

theorem rowSplit_all (db : DB α) : db.rowSplit none = .ok (db.t.rows.map fun r => [r]) := rfl

theorem rowSplit_err (db : DB α) (pos : List Int)
    (h : ∃ i ∈ pos, i < 0 ∨ i ≥ db.t.rows.length) : db.rowSplit (some pos) = .error .indexError := by
  obtain ⟨i, hi, hb⟩ := h
  have : pos.any (fun i => decide (i < 0) || decide (i ≥ (db.t.rows.length : Int))) = true := by
    rw [List.any_eq_true]
    exact ⟨i, hi, by rcases hb with hb | hb <;> simp [hb]⟩
  simp [DB.rowSplit, this]

/-- a range given = `extract_rows` of that range, every row as a table of its own -/
theorem rowSplit_eq_extract (db : DB α) (pos : List Int) :
    db.rowSplit (some pos) = (db.extract pos).map (List.map fun r => [r]) := by
  unfold DB.rowSplit DB.extract
  by_cases h : pos.any (fun i => decide (i < 0) || decide (i ≥ (db.t.rows.length : Int))) = true
  · simp [h, Except.map]
  · simp [h, Except.map, List.map_filterMap]

end Tbl
