/-
C01 — every expression evaluates to its mathematical value on both evaluation paths.
Property theorems only (lemmas in Proofs/Engine, Proofs/ExprHom, Proofs/ExprReal, Proofs/IdManager).

Model: `Model/Expr.lean` (DAG of nodes, three node semantics), `Model/IdManager.lean`
(`prepare`), `Model/Engine.lean` (`get_signature` serialisation, engine loader "first definition
wins", evaluation on the input vectors), `Model/Sig.lean` (the signature *text*: the per-class
writers of `get_signature`, and the reader of the engine after `bioFormula::processFormula`).
-/
import Model.Expr
import Model.Engine
import Proofs.Engine
import Proofs.ExprHom
import Proofs.ExprReal
import Proofs.IdManager
import Proofs.PyAgree
import Model.Sig
import Proofs.Sig
import Model.IdState
import Proofs.IdState
import Model.ExprMC
import Proofs.ExprMC
import Proofs.ExprMCReal
import Model.ExprEdit
import Proofs.ExprEdit

open Expr Engine

namespace C01

/-- **Compiler correctness of the engine path, every formula.**  For every well-formed DAG
(any operator kinds, any nesting, any sharing), every node `k`, every id table that names the
formula's parameters and variables, and every input of matching sizes: serialising the formula
post-order with re-emitted shared children, loading the lines into an empty engine (first
definition of an id wins, children looked up by id) and evaluating on the input vectors gives
the evaluation of the formula, by name, with the engine's node semantics. -/
theorem engine_correct {α} [NumOps α] (t : IdM.Table String) (d : Dag α) (hwf : WF d) (k : Nat)
    (hk : k < d.length) (hnames : namesOKB t d = true) (ee : EngEnv α) (hs : Sized t ee) :
    run t d k ee = eval semEngine d (envOf t ee) k :=
  run_eq t d hwf k hk hnames ee hs

/-- A point of the regular domain of the property for the one place where the real-number
model is totalised: no `Divide` node has a zero denominator.  (`log`/`power` of non-positive
numbers are excluded by the generators; on ℝ they do not change the statement.) -/
def NoZeroDenominator (d : Dag ℝ) (env : Env ℝ) : Prop :=
  ∀ (k : Nat) (n : Node ℝ), d[k]? = some n → n.kind = .divide →
    ∀ c, n.children[1]? = some c → eval semMath d env c ≠ .ok 0

/-- **Engine value = mathematical value (ℝ).**  On the reals, in the regular domain, the number
produced by the engine path is the ordinary mathematical value of the formula. -/
theorem engine_value (t : IdM.Table String) (d : Dag ℝ) (hwf : WF d) (k : Nat)
    (hk : k < d.length) (hnames : namesOKB t d = true) (ee : EngEnv ℝ) (hs : Sized t ee)
    (_hreg : NoZeroDenominator d (envOf t ee)) :
    run t d k ee = eval semMath d (envOf t ee) k := by
  rw [engine_correct t d hwf k hk hnames ee hs, semEngine_eq_semMath_fun]

/-- **The id table built from the formula itself always works**: if `prepare` accepts the
declarations of the formula (no name used twice) and the variables are columns of the table,
every parameter and variable has its ids and the serialisation cannot fail. -/
theorem prepare_names {α} [NumOps α] (d : Dag α) (cols : List String) (t : IdM.Table String)
    (hp : IdM.prepare (declsOf d) [] [] cols = .ok t)
    (hv : ∀ n ∈ d, n.kind = .var → n.name ∈ cols) : namesOKB t d = true :=
  prepare_namesOK d cols t hp hv

/-- **The position handed to the engine is the position of that name's value** (free
parameters): with the vectors Python builds from a name→value dictionary, the environment the
engine inputs denote gives a free parameter the dictionary value if it is named there, else its
starting value. -/
theorem index_lookup_free (t : IdM.Table String) (decls : List (IdM.Decl String ℝ))
    (dict : String → Option ℝ) (row : String → ℝ) (n : String) (hn : n ∈ t.free) :
    (envOf t (pyInputs t decls dict row)).beta n =
      (dict n).getD (((IdM.lookupLast decls false n).map (·.init)).getD default) := by
  obtain ⟨i, hi⟩ := Option.isSome_iff_exists.mp ((IdM.indexOf_isSome_iff n t.free).mpr hn)
  simp only [envOf, hi, pyInputs, IdM.freeValues]
  exact IdM.indexOf_getD_map n
    (fun n => (dict n).getD (((IdM.lookupLast decls false n).map IdM.Decl.init).getD default))
    _ t.free i hi

/-- the same for fixed parameters: always the declared value -/
theorem index_lookup_fixed (t : IdM.Table String) (decls : List (IdM.Decl String ℝ))
    (dict : String → Option ℝ) (row : String → ℝ) (n : String) (hn : n ∈ t.fixed)
    (hfree : n ∉ t.free) :
    (envOf t (pyInputs t decls dict row)).beta n =
      ((IdM.lookupLast decls true n).map (·.init)).getD default := by
  obtain ⟨i, hi⟩ := Option.isSome_iff_exists.mp ((IdM.indexOf_isSome_iff n t.fixed).mpr hn)
  have hnone : IdM.indexOf n t.free = none := by
    cases h : IdM.indexOf n t.free with
    | none => rfl
    | some j => exact absurd ((IdM.indexOf_isSome_iff n t.free).mp (by rw [h]; rfl)) hfree
  simp only [envOf, hnone, hi, pyInputs, IdM.fixedValues]
  exact IdM.indexOf_getD_map n
    (fun n => ((IdM.lookupLast decls true n).map IdM.Decl.init).getD default) _ t.fixed i hi

/-- and for data variables: the value of that column in the row -/
theorem index_lookup_var (t : IdM.Table String) (decls : List (IdM.Decl String ℝ))
    (dict : String → Option ℝ) (row : String → ℝ) (n : String) (hn : n ∈ t.cols) :
    (envOf t (pyInputs t decls dict row)).var n = row n := by
  obtain ⟨i, hi⟩ := Option.isSome_iff_exists.mp ((IdM.indexOf_isSome_iff n t.cols).mpr hn)
  simp only [envOf, hi, pyInputs]
  exact IdM.indexOf_getD_map n row _ t.cols i hi

theorem inputs_sized (t : IdM.Table String) (decls : List (IdM.Decl String ℝ))
    (dict : String → Option ℝ) (row : String → ℝ) : Sized t (pyInputs t decls dict row) :=
  pyInputs_sized t decls dict row

/-- **End to end, by name.**  Take any well-formed formula, build the id table with `prepare` from
the formula's own declarations and the columns of the data, hand the engine the vectors Python
builds from a (partial) name→value dictionary and a data row: the number that comes out of
serialise → load → run is the mathematical value of the formula under the valuation *by name*
(free parameter: dictionary value if named, else starting value; fixed parameter: declared value;
variable: its column). -/
theorem end_to_end (d : Dag ℝ) (hwf : WF d) (k : Nat) (hk : k < d.length) (cols : List String)
    (t : IdM.Table String) (hp : IdM.prepare (declsOf d) [] [] cols = .ok t)
    (hv : ∀ n ∈ d, n.kind = .var → n.name ∈ cols)
    (dict : String → Option ℝ) (row : String → ℝ)
    (hreg : NoZeroDenominator d (envOf t (pyInputs t (declsOf d) dict row))) :
    run t d k (pyInputs t (declsOf d) dict row) =
      eval semMath d (namedEnv (declsOf d) dict row) k := by
  have hnames := prepare_names d cols t hp hv
  rw [engine_value t d hwf k hk hnames _ (inputs_sized t _ dict row) hreg]
  -- the table produced by prepare
  have ht : t.free = IdM.sortDedup (((declsOf d).filter (!·.fixed)).map (·.name)) ∧
      t.fixed = IdM.sortDedup (((declsOf d).filter (·.fixed)).map (·.name)) ∧ t.cols = cols ∧ t.all.Nodup := by
    unfold IdM.prepare at hp
    simp only at hp
    split at hp
    · rename_i hnd
      cases hp
      exact ⟨rfl, rfl, rfl, (IdM.nodupB_iff _).mp hnd⟩
    · cases hp
  obtain ⟨hfree, hfixed, hcols, hnd⟩ := ht
  apply evalN_env_congr
  intro j n hj
  have hmem : n ∈ d := List.mem_of_getElem? hj
  constructor
  · intro hkind
    have hdecl : (⟨n.name, n.fixed, n.value, none, none⟩ : IdM.Decl String ℝ) ∈ declsOf d := by
      unfold declsOf
      simp only [List.mem_map, List.mem_filter]
      exact ⟨n, ⟨hmem, by simp [hkind]⟩, rfl⟩
    cases hfx : n.fixed with
    | false =>
      have hin : n.name ∈ t.free := by
        rw [hfree, IdM.mem_sortDedup]
        simp only [List.mem_map, List.mem_filter]
        exact ⟨_, ⟨hdecl, by simp [hfx]⟩, rfl⟩
      rw [index_lookup_free t (declsOf d) dict row n.name hin]
      obtain ⟨d', hd'⟩ := lookupLast_some_of_mem (declsOf d) false n.name ⟨_, hdecl, rfl, hfx⟩
      simp [namedEnv, hd']
    | true =>
      have hin : n.name ∈ t.fixed := by
        rw [hfixed, IdM.mem_sortDedup]
        simp only [List.mem_map, List.mem_filter]
        exact ⟨_, ⟨hdecl, by simp [hfx]⟩, rfl⟩
      have hnot : n.name ∉ t.free := by
        intro hf
        have h1 := (List.nodup_append.mp (List.nodup_append.mp (List.nodup_append.mp
          (List.nodup_append.mp hnd).1).1).1).2.2
        exact h1 _ hf _ hin rfl
      rw [index_lookup_fixed t (declsOf d) dict row n.name hin hnot]
      have hnone : IdM.lookupLast (declsOf d) false n.name = none := by
        apply lookupLast_none_of_not_mem
        intro hcon
        apply hnot
        rw [hfree, IdM.mem_sortDedup]
        simpa using hcon
      simp [namedEnv, hnone]
  · intro hkind
    have hin : n.name ∈ t.cols := by rw [hcols]; exact hv n hmem hkind
    rw [index_lookup_var t (declsOf d) dict row n.name hin]
    rfl

/-- **Sharing changes no value.**  If `d'` maps onto `d` by a node-preserving map (`d'` is `d`
with some shared sub-formulas duplicated, or `d` is `d'` with equal sub-formulas merged), every
node of `d'` has the value of its image — for each of the three semantics. -/
theorem share_invariant {α} [NumOps α] (h : Nat → Nat) (d' d : Dag α) (hwf' : WF d') (hwf : WF d)
    (hh : Hom h d' d) (env : Env α) (k : Nat) (hk : k < d'.length) :
    eval semMath d' env k = eval semMath d env (h k) ∧
    eval semEngine d' env k = eval semEngine d env (h k) ∧
    eval semPy d' env k = eval semPy d env (h k) :=
  ⟨eval_hom semMath semMath_blind h d' d hwf' hwf hh env k hk,
   eval_hom semEngine semEngine_blind h d' d hwf' hwf hh env k hk,
   eval_hom semPy semPy_blind h d' d hwf' hwf hh env k hk⟩

/-- **Evaluating several formulas side by side changes none of them**: the nodes of further
formulas appended to the DAG do not change the value of node `k`. -/
theorem side_by_side {α} [NumOps α] (sem : Sem α) (hb : ChildrenBlind sem) (d extra : Dag α)
    (hwf : WF d) (hwf2 : WF (d ++ extra)) (env : Env α) (k : Nat) (hk : k < d.length) :
    eval sem (d ++ extra) env k = eval sem d env k := by
  have hh : Hom id d (d ++ extra) := by
    intro j n' hj
    have hjl : j < d.length := by
      rcases List.getElem?_eq_some_iff.mp hj with ⟨hl, _⟩; exact hl
    have hmap : n'.children.map id = n'.children := List.map_id _
    rw [hmap]
    show (d ++ extra)[j]? = some n'
    rw [List.getElem?_append_left hjl]; exact hj
  exact (eval_hom sem hb id d (d ++ extra) hwf hwf2 hh env k hk).symm

/-- **Where the pure-Python evaluator accepts the formula it returns that same number** (ℝ).
`get_value()` reads parameters at their starting values, short-circuits `And`/`Or` and returns 0
for `0 ** c`; whenever it returns a number `v` and the mathematical value `w` of the formula is
defined (at the starting values, no `e ** 0`), `v = w`. -/
theorem pyEval_agrees (d : Dag ℝ) (env : Env ℝ) (hd : PyDomain d env) (k : Nat) (v w : ℝ)
    (hv : eval semPy d env k = .ok v) (hw : eval semMath d env k = .ok w) : v = w :=
  evalN_py_agree d env hd (k + 1) k v w hv hw

/-- the Python evaluator does not implement data variables, the normal cdf, set membership and
linear utilities: such a node is never "accepted" -/
theorem pyEval_unsupported {α} [NumOps α] (n : Node α) (env : Env α) (rs : List (Res α))
    (h : n.kind = .var ∨ n.kind = .normalCdf ∨ n.kind = .belongsTo ∨ n.kind = .linUtil) :
    semPy n env rs = .error .unsupported := by
  obtain ⟨k, c, nm, v, ks, ms, f⟩ := n
  rcases h with h | h | h | h <;> (simp only at h; subst h; rfl)

/-- **The engine's reader inverts the Python writer, character by character — every name.**
For every line whose layout can carry its children (`arityOK`) and whose literals are read back
by the engine's `stod` as the doubles Python's `str` wrote: parsing the text `get_signature`
writes — with the engine's own `extractParentheses` (blanking between quotes, bracket matching),
`split` on commas of the whole line and `stoi` — gives back exactly the fields the line
carries.  No hypothesis on names: `Elementary.signature_name` (commit `d509bfb`) replaces the
two characters the reader cannot carry, `Sig.sanitize_ok`. -/
theorem text_roundtrip {α} [NumOps α] (txt : α → List Char) (numOf : List Char → Option α)
    (info : Nat → Nat × List Char) (l : SigLine α) (h : Sig.TextWF txt numOf l) :
    Sig.parseLine numOf (Sig.renderLine txt info l) = some (Sig.canon l) :=
  Sig.parse_render txt numOf info l h

/-- … and the fields the text does not carry are not used by the engine: loading the parsed
line is loading the line. -/
theorem text_carries_all {α} [NumOps α] (s : Store α) (l : SigLine α) (h : Sig.arityOK l = true) :
    loadLine s (Sig.canon l) = loadLine s l :=
  Sig.loadLine_canon s l h

/-- **The engine path through the text is the engine path** (hence, by `engine_correct` and
`engine_value`, the value of the formula): serialise, *write the bytes*, let the engine *read
the bytes*, load, evaluate. -/
theorem engine_reads_text {α} [NumOps α] (txt : α → List Char) (numOf : List Char → Option α)
    (info : Nat → Nat × List Char) (t : IdM.Table String) (d : Dag α) (k : Nat) (ee : EngEnv α)
    (hwf : ∀ j n, d[j]? = some n → Sig.TextWF txt numOf (lineOf t j n)) :
    Sig.runText txt numOf info t d k ee = run t d k ee :=
  Sig.runText_eq_run txt numOf info t d k ee hwf

/-- Why the writer must replace these characters (defect F-E7, repaired by `d509bfb`): the
reader splits the *whole* line on commas, so for a data column written as `x,1` (elementary
index 1, column 0) it reads column 1. -/
theorem comma_in_name_misread :
    (Sig.parseLine (α := Float) (fun _ => none) "<Variable>{12}\"x,1\",1,0".toList).map
      (fun l => (l.name, l.uid, l.slot)) = some ("x,1", 1, 1) := by
  decide

/-- a quotation mark inside the name of a parameter makes its line unreadable ("Open parenthesis
not found") -/
theorem quote_in_name_unreadable :
    (Sig.parseLine (α := Float) (fun _ => none) "<Beta>{12}\"b\"2\"[0],1,1".toList).isNone = true := by
  decide


/-! ### the numbering is a *state*: evaluating a sub-formula on its own (`prepare_ids=True`) -/

/-- **Evaluating a sub-formula on its own puts the numbering back.**  Let the sub-formula `k` hold
one manager on all its nodes (as it does after `IdManager([P, Q, …])` + `set_id_manager`, after
`create_function` or inside a `BIOGEME` object, for every sub-formula of `P`, `Q`, …), a manager that
knows the parameters and variables of `k`.  After `get_value_and_derivatives(prepare_ids=True)` on
`k` — remember the manager, renumber `k` alone, evaluate, `set_id_manager(remembered)` — *every node
of the DAG* holds the manager it held before; the only trace is one more manager in the heap. -/
theorem alone_restores {α} [NumOps α] (st st1 st2 : IdState.St) (d : Dag α) (k : Nat)
    (cols : List String) (hv : IdState.Valid st)
    (hu : ∀ j ∈ IdState.reachOf d k, st.mgr j = st.mgr k)
    (hkn : ∀ h t, st.mgr k = some h → st.tables[h]? = some t →
      IdState.knows t d (IdState.reachOf d k) = true)
    (ha : IdState.aloneAt st d k cols = .ok (st1, st2)) :
    st2.mgr = st.mgr ∧ ∃ t', st2.tables = st.tables ++ [t'] := by
  unfold IdState.aloneAt IdState.prepareAt IdState.persist at ha
  have hR : [k].flatMap (IdState.reachOf d) = IdState.reachOf d k := by simp
  rw [hR] at ha
  dsimp only at ha
  cases ht : IdState.tableFor d (IdState.reachOf d k) cols with
  | error e => rw [ht] at ha; cases ha
  | ok t' =>
    rw [ht] at ha
    simp only [Except.ok.injEq, Prod.mk.injEq] at ha
    obtain ⟨h1, h2⟩ := ha
    subst h1
    cases hm : st.mgr k with
    | none =>
      rw [hm] at h2
      simp only [IdState.restoreAt] at h2
      subst h2
      refine ⟨?_, t', rfl⟩
      exact IdState.setMgr_back { st with tables := st.tables ++ [t'] } _ _ none _ rfl
        (fun j hj => by rw [← hm]; exact hu j hj)
    | some h =>
      rw [hm] at h2
      have hlt : h < st.tables.length := hv k h hm
      have hget : (st.tables ++ [t'])[h]? = st.tables[h]? := List.getElem?_append_left hlt
      have hsome : st.tables[h]? = some st.tables[h] := List.getElem?_eq_getElem hlt
      have hknows := hkn h st.tables[h] hm hsome
      simp only [IdState.restoreAt, IdState.setMgr, hget, hsome, hknows, ↓reduceIte] at h2
      subst h2
      refine ⟨?_, t', rfl⟩
      exact IdState.setMgr_back { st with tables := st.tables ++ [t'] } _ _ (some h) _ rfl
        (fun j hj => by rw [← hm]; exact hu j hj)

/-- **… hence it changes the value of no formula**: whatever is evaluated afterwards in its own
context (`prepare_ids=False`, the function made by `create_function`, `BIOGEME.simulate`) — the
parents of the sub-formula, their other sub-formulas, any other formula — writes the same
signature and returns the same number as before. -/
theorem alone_neutral {α} [NumOps α] (st st1 st2 : IdState.St) (d : Dag α) (k : Nat)
    (cols : List String) (hv : IdState.Valid st)
    (hu : ∀ j ∈ IdState.reachOf d k, st.mgr j = st.mgr k)
    (hkn : ∀ h t, st.mgr k = some h → st.tables[h]? = some t →
      IdState.knows t d (IdState.reachOf d k) = true)
    (ha : IdState.aloneAt st d k cols = .ok (st1, st2)) (r : Nat) (ee : EngEnv α) :
    IdState.runSt st2 d r ee = IdState.runSt st d r ee ∧ IdState.sigSt st2 d r = IdState.sigSt st d r ∧
    IdState.ctxAt st2 d r ee = IdState.ctxAt st d r ee := by
  obtain ⟨hm, t', htab⟩ := alone_restores st st1 st2 d k cols hv hu hkn ha
  have hst2 : st2 = { mgr := st2.mgr, tables := st.tables ++ [t'] } := by
    cases st2; simp only at htab; simp [htab]
  have htA : ∀ j, IdState.tableAt st2 j = IdState.tableAt st j := by
    intro j; rw [hst2]; exact IdState.tableAt_append st hv _ [t'] hm j
  have hrun := IdState.runSt_congr st st2 d htA r ee
  refine ⟨hrun, IdState.sigSt_congr st st2 d htA r, ?_⟩
  unfold IdState.ctxAt
  rw [hm, hrun]

/-- **… nor does any number of them in a row** — in particular the evaluations the library performs
by itself while it audits a formula that contains a logit (the choice and every availability are
evaluated alone, `prepare_ids=True`, by `Database.check_availability_of_chosen_alt`): in a state where
each of these parts holds one manager on all its nodes they leave every reference where it was, which is
why the model of an evaluation need not follow them. -/
theorem alone_many_neutral {α} [NumOps α] (d : Dag α) (cols : List String) (ks : List Nat) :
    ∀ (st st' : IdState.St), IdState.Valid st →
      (∀ k ∈ ks, (∀ j ∈ IdState.reachOf d k, st.mgr j = st.mgr k) ∧
        ∀ h t, st.mgr k = some h → st.tables[h]? = some t →
          IdState.knows t d (IdState.reachOf d k) = true) →
      IdState.aloneSeq st d cols ks = .ok st' →
      st'.mgr = st.mgr ∧ ∃ extra, st'.tables = st.tables ++ extra := by
  induction ks with
  | nil =>
    intro st st' _ _ h
    simp only [IdState.aloneSeq, Except.ok.injEq] at h
    subst h
    exact ⟨rfl, [], by simp⟩
  | cons k ks ih =>
    intro st st' hv hall h
    simp only [IdState.aloneSeq] at h
    cases ha : IdState.aloneAt st d k cols with
    | error e => rw [ha] at h; cases h
    | ok p =>
      obtain ⟨st1, st2⟩ := p
      rw [ha] at h
      simp only at h
      obtain ⟨hu, hkn⟩ := hall k List.mem_cons_self
      obtain ⟨hm, t', htab⟩ := alone_restores st st1 st2 d k cols hv hu hkn ha
      have hv2 : IdState.Valid st2 := by
        intro j hh hj
        rw [hm] at hj
        have := hv j hh hj
        rw [htab, List.length_append]
        omega
      have hall2 : ∀ k' ∈ ks, (∀ j ∈ IdState.reachOf d k', st2.mgr j = st2.mgr k') ∧
          ∀ hh t, st2.mgr k' = some hh → st2.tables[hh]? = some t →
            IdState.knows t d (IdState.reachOf d k') = true := by
        intro k' hk'
        obtain ⟨hu', hkn'⟩ := hall k' (List.mem_cons_of_mem _ hk')
        rw [hm]
        refine ⟨hu', ?_⟩
        intro hh t hmk hget
        have hlt : hh < st.tables.length := hv k' hh hmk
        rw [htab, List.getElem?_append_left hlt] at hget
        exact hkn' hh t hmk hget
      obtain ⟨hm', extra, htab'⟩ := ih st2 st' hv2 hall2 h
      refine ⟨by rw [hm', hm], [t'] ++ extra, ?_⟩
      rw [htab', htab, List.append_assoc]

/-- **A formula evaluated in a persistent context takes the engine path of `engine_correct`**: when
all nodes of the sub-formula `k` refer to one id table that names the parameters and variables of
the DAG, the evaluation in the current state is serialise → load → run with that table, hence the
evaluation of the formula by name. -/
theorem context_value {α} [NumOps α] (st : IdState.St) (d : Dag α) (hwf : WF d) (k : Nat)
    (hk : k < d.length) (t : IdM.Table String)
    (hu : ∀ j ∈ IdState.reachOf d k, IdState.tableAt st j = some t)
    (hnames : namesOKB t d = true) (ee : EngEnv α) (hs : Sized t ee) :
    IdState.runSt st d k ee = eval semEngine d (envOf t ee) k := by
  rw [IdState.runSt_uniform st d k t hu hnames ee]
  exact engine_correct t d hwf k hk hnames ee hs

/-- the state of the witness below: `a*x + z*y` numbered as a whole (`a`, `z` free: `z` is
parameter 1), then the product `z*y` renumbered alone (`z` is parameter 0) -/
def seqDag : Dag Float :=
  [ { kind := .beta, name := "a", value := 2.0 },
    { kind := .var, name := "x", value := 0.0 },
    { kind := .beta, name := "z", value := 0.5 },
    { kind := .var, name := "y", value := 0.0 },
    { kind := .times, children := [0, 1], value := 0.0 },
    { kind := .times, children := [2, 3], value := 0.0 },
    { kind := .plus, children := [4, 5], value := 0.0 } ]

def slotsOf (o : Option (List (SigLine Float))) : Option (List (Nat × Nat × Nat)) :=
  o.map fun ls => ls.map fun l => (l.id, l.uid, l.slot)

def seqStates : Option (IdState.St × IdState.St × IdState.St) :=
  match IdState.persist IdState.St.init seqDag [6] ["x", "y"] with
  | .error _ => none
  | .ok st =>
    match IdState.aloneAt st seqDag 5 ["x", "y"] with
    | .error _ => none
    | .ok (st1, st2) => some (st, st2, IdState.restoreShallow st1 5 (st.mgr 5))

/-- Why the remembered manager must be *propagated* (`set_id_manager`) and not only stored back in
the evaluated node: on `a*x + z*y`, after `z*y` was evaluated alone, a restoration of the
reference of the node `z*y` only leaves `z` with parameter id 0 — the id of `a` in the vector of
the parent — whereas the propagated restoration gives back the signature of before. -/
theorem shallow_restore_misnumbers :
    (seqStates.map fun (st, st2, bad) =>
      (slotsOf (IdState.sigSt st2 seqDag 6) == slotsOf (IdState.sigSt st seqDag 6),
       (slotsOf (IdState.sigSt st seqDag 6)).map (·.lookup 2),
       (slotsOf (IdState.sigSt bad seqDag 6)).map (·.lookup 2))) =
    some (true, some (some (1, 1)), some (some (0, 0))) := by
  decide +kernel

/-- the hypotheses of `alone_restores` are satisfiable: the sub-formula `z*y` of the witness -/
example : ∃ st st1 st2, IdState.persist IdState.St.init seqDag [6] ["x", "y"] = .ok st ∧
    IdState.aloneAt st seqDag 5 ["x", "y"] = .ok (st1, st2) ∧
    (∀ j ∈ IdState.reachOf seqDag 5, st.mgr j = st.mgr 5) ∧ st.mgr 5 = some 0 := by
  refine ⟨_, _, _, rfl, rfl, ?_, by decide⟩
  decide

/-- … and of `alone_many_neutral` (both products, one after the other) and `context_value` (after the
numbering of the whole, every node of the whole refers to the table `a, z | x, y`) -/
example : (match IdState.persist IdState.St.init seqDag [6] ["x", "y"] with
    | .error _ => false
    | .ok st =>
      (match IdState.aloneSeq st seqDag ["x", "y"] [5, 4] with
       | .ok st' => (List.range 7).all fun j => st'.mgr j == st.mgr j
       | .error _ => false) &&
      (IdState.reachOf seqDag 6).all fun j =>
        (IdState.tableAt st j).map (fun t => (t.free, t.fixed, t.cols)) == some (["a", "z"], [], ["x", "y"])) = true := by
  decide +kernel

/-! ### non-vacuity: a shared sub-formula, evaluated on the three paths -/

/-- (b + x) * (b + x) with the sum shared, b free = 2, x = 3 -/
def exDag : Dag Float :=
  [ { kind := .beta, name := "b", value := 2.0 },
    { kind := .var, name := "x", value := 0.0 },
    { kind := .plus, children := [0, 1], value := 0.0 },
    { kind := .times, children := [2, 2], value := 0.0 } ]
def exTable : IdM.Table String := { free := ["b"], fixed := [], rvs := [], draws := [], cols := ["x"] }

example : wfB exDag = true ∧ namesOKB exTable exDag = true := by decide

/-- the hypotheses of `text_roundtrip` are satisfiable: the line of the parameter `b` -/
example : Sig.TextWF (fun _ : Float => ['7']) (fun _ => some 2.0)
    (lineOf exTable 0 { kind := .beta, name := "b,\"1", value := 2.0 }) := by
  refine ⟨rfl, ?_⟩
  rintro v (rfl | h)
  · exact ⟨by decide, rfl⟩
  · cases h

/-! ### round 3: draws, MonteCarlo and PanelLikelihoodTrajectory (`Model/ExprMC.lean`)

The three operators that evaluate their argument several times in different contexts.  The shared
language is used unchanged (a `base` node is a node of `Model/Expr.lean`); the context now carries
the rows and the draws of the current individual. -/

open ExprMC in
/-- **Compiler correctness of the engine path with draws.**  For every well-formed extended DAG (any
nesting of `MonteCarlo` / `PanelLikelihoodTrajectory` / `bioDraws` with every operator kind, any
sharing — also of a sub-formula between the inside and the outside of a `MonteCarlo`), every id
table naming its parameters, variables and draws, and inputs of matching sizes for one individual:
serialise → load ("first definition wins") → run gives the evaluation of the formula by name, where
`MonteCarlo` re-evaluates its argument at every draw and `PanelLikelihoodTrajectory` at every row. -/
theorem mc_engine_correct {α} [NumOps α] (t : IdM.Table String) (d : XDag α) (hwf : WFX d) (k : Nat)
    (hk : k < d.length) (hnames : namesOKXB t d = true) (xe : XEngEnv α) (hs : SizedX t xe) :
    runX t d k xe = evalXRoot semEngine d (xenvOf t xe) k :=
  runX_eq t d hwf k hk hnames xe hs

open ExprMC in
/-- … which on the reals is the value with the mathematical node semantics -/
theorem mc_engine_value (t : IdM.Table String) (d : XDag ℝ) (hwf : WFX d) (k : Nat)
    (hk : k < d.length) (hnames : namesOKXB t d = true) (xe : XEngEnv ℝ) (hs : SizedX t xe) :
    runX t d k xe = evalXRoot semMath d (xenvOf t xe) k := by
  rw [mc_engine_correct t d hwf k hk hnames xe hs, semEngine_eq_semMath_fun]

open ExprMC in
/-- **The value of `MonteCarlo(e)` is the arithmetic mean of `e` over the draws** (ℝ): if `e`
evaluates to `v r` at draw `r` for each of the `R ≥ 1` draws of the individual, the node evaluates to
`(v 0 + … + v (R-1)) / R` — whatever draw was current outside. -/
theorem monteCarlo_is_mean (sem : Sem ℝ) (d : XDag ℝ) (xe : XEnv ℝ) (fuel k c : Nat) (n : XNode ℝ)
    (hd : d[k]? = some n) (hx : n.x = .monteCarlo) (hc : n.node.children = [c]) (v : Nat → ℝ)
    (hR : xe.draws ≠ [])
    (hv : ∀ r, r < xe.draws.length → evalX sem d fuel { xe with draw := some r } c = .ok (v r)) :
    evalX sem d (fuel + 1) xe k =
      .ok (((List.range xe.draws.length).map v).sum / (xe.draws.length : ℝ)) := by
  rw [evalX, hd]
  simp only [hx, hc]
  have hmap : ((List.range xe.draws.length).map fun r => evalX sem d fuel { xe with draw := some r } c) =
      ((List.range xe.draws.length).map v).map Except.ok := by
    rw [List.map_map]
    apply List.map_congr_left
    intro r hr
    exact hv r (List.mem_range.mp hr)
  rw [hmap, avgRes_ok_real]
  · simp
  · intro h
    have hl := congrArg List.length h
    simp only [List.length_map, List.length_range, List.length_nil] at hl
    exact hR (List.length_eq_zero_iff.mp hl)

open ExprMC in
/-- **The value of `PanelLikelihoodTrajectory(e)` is the product of `e` over the rows of the
individual** (ℝ, `e` positive at every row — it is a probability). -/
theorem panelTrajectory_is_product (sem : Sem ℝ) (d : XDag ℝ) (xe : XEnv ℝ) (fuel k c : Nat)
    (n : XNode ℝ) (hd : d[k]? = some n) (hx : n.x = .panelTraj) (hc : n.node.children = [c])
    (v : Nat → ℝ) (hpos : ∀ r, r < xe.rows.length → 0 < v r)
    (hv : ∀ r, r < xe.rows.length → evalX sem d fuel { xe with row := r } c = .ok (v r)) :
    evalX sem d (fuel + 1) xe k = .ok ((List.range xe.rows.length).map v).prod := by
  rw [evalX, hd]
  simp only [hx, hc]
  have hmap : ((List.range xe.rows.length).map fun r => evalX sem d fuel { xe with row := r } c) =
      ((List.range xe.rows.length).map v).map Except.ok := by
    rw [List.map_map]
    apply List.map_congr_left
    intro r hr
    exact hv r (List.mem_range.mp hr)
  rw [hmap, trajRes_ok_real]
  intro w hw
  obtain ⟨r, hr, rfl⟩ := List.mem_map.mp hw
  exact hpos r (List.mem_range.mp hr)

open ExprMC in
/-- a draw read outside every `MonteCarlo` has no value (the engine: "Draw index is not defined") -/
theorem draws_outside_monteCarlo {α} [NumOps α] (sem : Sem α) (d : XDag α) (xe : XEnv α)
    (fuel k : Nat) (n : XNode α) (hd : d[k]? = some n) (hx : n.x = .draws) (ho : xe.draw = none) :
    evalX sem d (fuel + 1) xe k = .error .domain := by
  rw [evalX, hd]
  simp only [hx, ho]

open ExprMC in
/-- **The extension is conservative**: a formula without the three new kinds has, in any context,
the value the shared model gives it at the current row — all theorems above about `eval` apply. -/
theorem mc_conservative {α} [NumOps α] (sem : Sem α) (d : XDag α) (hb : allBase d = true)
    (xe : XEnv α) (k : Nat) : evalXRoot sem d xe k = eval sem (baseDag d) xe.env k :=
  evalX_base sem d hb (k + 1) xe k

open ExprMC in
/-- **The engine's reader inverts the writer on the lines of the three new classes too**
(`bioDraws.get_signature`, `UnaryOperator.get_signature` for `MonteCarlo` and
`PanelLikelihoodTrajectory`; the reader takes for them the branches with the code of `Variable` and
`UnaryMinus`). -/
theorem mc_text_roundtrip {α} [NumOps α] (txt : α → List Char) (numOf : List Char → Option α)
    (info : Nat → Nat × List Char) (l : XLine α) (h : TextWFX txt numOf l) :
    parseLineX numOf (renderLineX txt info l) = some (canonX l) :=
  parse_renderX txt numOf info l h

open ExprMC in
/-- … hence the engine path through the bytes is the proved engine path, with draws. -/
theorem mc_engine_reads_text {α} [NumOps α] (txt : α → List Char) (numOf : List Char → Option α)
    (info : Nat → Nat × List Char) (t : IdM.Table String) (d : XDag α) (k : Nat) (xe : XEngEnv α)
    (hwf : ∀ j n, d[j]? = some n → TextWFX txt numOf (lineOfX t j n)) :
    runTextX txt numOf info t d k xe = runX t d k xe :=
  runTextX_eq_runX txt numOf info t d k xe hwf

/-! ### round 3: edits of the parameters of a formula (`Model/ExprEdit.lean`) -/

/-- the declarations of `Model/ExprEdit.lean` are those `end_to_end` speaks about -/
theorem edit_decls_eq (d : Dag ℝ) : ExprEdit.decls d = declsOf d := rfl

/-- **`change_init_values` replaces the starting value of the named parameters — free or fixed — and
nothing else**: the declarations of the edited formula are the old ones with the new values where
named; the formula by name is unchanged (every semantics that reads parameters by name). -/
theorem changeInit_decls {α} [NumOps α] (f : String → Option α) (d : Dag α) :
    ExprEdit.decls (ExprEdit.changeInit f d) = (ExprEdit.decls d).map (ExprEdit.changeInitDecl f) := by
  apply ExprEdit.decls_map _ _ d (ExprEdit.changeInitNode_kind f)
  intro n hk
  unfold ExprEdit.changeInitNode ExprEdit.changeInitDecl
  simp only [hk, ↓reduceIte]
  cases f n.name <;> rfl

theorem changeInit_value {α} [NumOps α] (f : String → Option α) (d : Dag α) (env : Env α) (k : Nat) :
    eval semEngine (ExprEdit.changeInit f d) env k = eval semEngine d env k ∧
    eval semMath (ExprEdit.changeInit f d) env k = eval semMath d env k :=
  ⟨ExprEdit.evalN_map semEngine _ env env d (ExprEdit.changeInitNode_children f)
      (fun n _ rs => ExprEdit.semEngine_changeInit f n env rs) (k + 1) k,
   ExprEdit.evalN_map semMath _ env env d (ExprEdit.changeInitNode_children f)
      (fun n _ rs => ExprEdit.semCommon_changeInit f n env rs) (k + 1) k⟩

/-- **`fix_betas` turns each named parameter into a fixed one with the given value and the new name**
(declarations), and the edited formula has, under any valuation that gives the new names the values
the old names had, the value of the original — so by `end_to_end` its engine value is the
mathematical value at the fixed values, whatever a dictionary says about the old or new names. -/
theorem fixBetas_decls {α} [NumOps α] (f : String → Option α) (pre suf : String) (d : Dag α) :
    ExprEdit.decls (ExprEdit.fixBetas f pre suf d) = (ExprEdit.decls d).map (ExprEdit.fixDecl f pre suf) := by
  apply ExprEdit.decls_map _ _ d (ExprEdit.fixNode_kind f pre suf)
  intro n hk
  unfold ExprEdit.fixNode ExprEdit.fixDecl
  simp only [hk, ↓reduceIte]
  cases f n.name <;> rfl

theorem fixBetas_value {α} [NumOps α] (f : String → Option α) (pre suf : String) (d : Dag α)
    (env env' : Env α) (hvar : env'.var = env.var)
    (hb : ∀ n ∈ d, n.kind = .beta →
      env'.beta (match f n.name with | some _ => pre ++ n.name ++ suf | none => n.name) = env.beta n.name)
    (k : Nat) :
    eval semEngine (ExprEdit.fixBetas f pre suf d) env' k = eval semEngine d env k :=
  ExprEdit.evalN_map semEngine _ env env' d (ExprEdit.fixNode_children f pre suf)
    (fun n hn rs => ExprEdit.semEngine_fix f pre suf n env env' hvar (hb n hn) rs) (k + 1) k

/-- the hypotheses of `fixBetas_value` are satisfiable: `b * x` with `b` fixed as `p_b` -/
example : ∃ (env env' : Env Float) (f : String → Option Float),
    env'.var = env.var ∧ f "b" = some 1.0 ∧
    ∀ n ∈ exDag, n.kind = .beta →
      env'.beta (match f n.name with | some _ => "p_" ++ n.name ++ "" | none => n.name) = env.beta n.name := by
  refine ⟨{ beta := fun _ => 2.0, var := fun _ => 3.0 }, { beta := fun _ => 2.0, var := fun _ => 3.0 },
    fun m => if m = "b" then some 1.0 else none, rfl, rfl, ?_⟩
  intro n _ _
  rfl


open ExprMC in
/-- **The id table built from the formula itself always works, with draws**: if `prepare` accepts the
parameters and draw variables of the formula (no name used twice) and the variables are columns,
every parameter, variable and draw has its ids. -/
theorem mc_prepare_names {α} [NumOps α] (d : XDag α) (cols : List String) (t : IdM.Table String)
    (hp : IdM.prepare (declsX d) [] (drawNames d) cols = .ok t)
    (hv : ∀ n ∈ d, n.x = .base → n.node.kind = .var → n.node.name ∈ cols) : namesOKXB t d = true :=
  prepare_namesOKX d cols t hp hv

open ExprMC in
/-- **The position handed to the engine is the position of that name's value, for draws and for the
rows of an individual**: a vector written in the order of the id table is read back by name. -/
theorem mc_index_lookup {α} [NumOps α] (names : List String) (f : String → α) (n : String)
    (hn : n ∈ names) : byName names (names.map f) n = f n := by
  obtain ⟨i, hi⟩ := Option.isSome_iff_exists.mp ((IdM.indexOf_isSome_iff n names).mpr hn)
  simp only [byName, hi]
  exact IdM.indexOf_getD_map n f _ names i hi

/-- witness: MonteCarlo(exp(b * ξ)) * b with the parameter shared between the inside and the outside -/
def mcDag : ExprMC.XDag Float :=
  [ { node := { kind := .beta, name := "b", value := 0.5 } },
    { x := .draws, node := { kind := .num, name := "xi", value := 0.0 } },
    { node := { kind := .times, children := [0, 1], value := 0.0 } },
    { node := { kind := .exp, children := [2], value := 0.0 } },
    { x := .monteCarlo, node := { kind := .num, children := [3], value := 0.0 } },
    { node := { kind := .times, children := [4, 0], value := 0.0 } } ]
def mcTable : IdM.Table String := { free := ["b"], fixed := [], rvs := [], draws := ["xi"], cols := ["x"] }

example : ExprMC.wfXB mcDag = true ∧ ExprMC.namesOKXB mcTable mcDag = true ∧ ExprMC.allBase mcDag = false := by
  decide

/-- the hypothesis of `mc_prepare_names` is satisfiable: the table of the witness is the one `prepare` builds -/
example : ((IdM.prepare (ExprMC.declsX mcDag) [] (ExprMC.drawNames mcDag) ["x"]).toOption.map
    fun t => (t.free, t.fixed, t.draws, t.cols)) = some (["b"], [], ["xi"], ["x"]) := by
  decide +kernel

/-- the hypotheses of `mc_engine_correct` are satisfiable: one row, two draws, outside `MonteCarlo` -/
example : ExprMC.SizedX mcTable
    ({ free := [0.5], fixed := [], rows := [[1.0]], row := 0, draws := [[0.25], [0.75]], draw := none } :
      ExprMC.XEngEnv Float) := by
  refine ⟨rfl, rfl, ?_, by decide, ?_, ?_⟩
  · intro r hr
    simp only [List.mem_singleton] at hr
    subst hr; rfl
  · intro dr hdr
    simp only [List.mem_cons, List.mem_nil_iff, or_false] at hdr
    rcases hdr with rfl | rfl <;> rfl
  · intro r hr; cases hr

/-- the hypotheses of `mc_text_roundtrip` are satisfiable: the lines of the draw and of the operator -/
example : ExprMC.TextWFX (fun _ : Float => ['7']) (fun _ => some 0.0) (ExprMC.lineOfX mcTable 1 mcDag[1]) ∧
    ExprMC.TextWFX (fun _ : Float => ['7']) (fun _ => some 0.0) (ExprMC.lineOfX mcTable 4 mcDag[4]) := by
  refine ⟨⟨rfl, rfl, ?_⟩, ⟨rfl, rfl, ?_⟩⟩ <;>
  · rintro v (rfl | h)
    · exact ⟨by decide, rfl⟩
    · cases h

end C01
