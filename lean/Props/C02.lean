/-
C02 — gradient, Hessian and BHHH returned with a value are its true derivatives.
Property theorems only (lemmas in Proofs/Diff.lean).  Model: Model/Diff.lean.
-/
import Model.Diff
import Proofs.Diff

open Diff

namespace C02

/-- **The gradient entry is the first derivative of the reported function.**  For every formula
of the differentiable fragment and every point of its regular domain, the value of the symbolic
derivative w.r.t. parameter `n` is the derivative of `t ↦ value with parameter n set to t`. -/
theorem diff_correct (env : Env ℝ) (n : String) (e : E ℝ) (h : Regular env e) :
    HasDerivAt (fun t => ev (env.setPar n t) e) (ev env (diff n e)) (env.par n) :=
  Diff.diff_correct env n e h

/-- the regular domain is closed under differentiation -/
theorem smooth_closed (env : Env ℝ) (n : String) (e : E ℝ) (h : Regular env e) :
    Regular env (diff n e) :=
  regular_diff env n e h

/-- **The Hessian entry (i,j) is the derivative w.r.t. parameter i of gradient entry j.** -/
theorem hess_correct (env : Env ℝ) (i j : String) (e : E ℝ) (h : Regular env e) :
    HasDerivAt (fun t => ev (env.setPar i t) (diff j e)) (ev env (diff i (diff j e))) (env.par i) :=
  Diff.hess_correct env i j e h

/-- **The Hessian is symmetric.** -/
theorem hess_symm (env : Env ℝ) (i j : String) (e : E ℝ) (h : Regular env e) :
    ev env (diff i (diff j e)) = ev env (diff j (diff i e)) :=
  Diff.hess_symm env i j e h

/-- **Entry k belongs to the k-th name of the reported list**: the gradient vector built in the
order of a list of names has at position k the derivative w.r.t. the k-th name; same for the
Hessian. -/
theorem entry_name {α} [NumOps α] (names : List String) (env : Env α) (e : E α) (k : Nat) (n : String)
    (hk : names[k]? = some n) : (grad names env e)[k]? = some (ev env (diff n e)) := by
  simp [grad, List.getElem?_map, hk]

theorem hess_entry_name {α} [NumOps α] (names : List String) (env : Env α) (e : E α) (a b : Nat)
    (i j : String) (ha : names[a]? = some i) (hb : names[b]? = some j) :
    ((hess names env e)[a]?.bind (·[b]?)) = some (ev env (diff j (diff i e))) := by
  simp [hess, List.getElem?_map, ha, hb]

/-- **Aggregated gradient = derivative of the aggregated value**: the sum over observations of the
per-observation derivatives is the derivative of the sum of the per-observation values. -/
theorem aggregate_sum (n : String) (e : E ℝ) (x : ℝ) (envs : List (Env ℝ))
    (h : ∀ env ∈ envs, Regular env e ∧ env.par n = x) :
    HasDerivAt (fun t => Num.sum (envs.map fun env => ev (env.setPar n t) e))
      (Num.sum (envs.map fun env => ev env (diff n e))) x :=
  agg_deriv n e x envs h

/-- **BHHH is the sum over observations of the outer products of the per-observation gradients**
(entrywise), and is symmetric. -/
theorem bhhh_def (k : Nat) (gs : List (List ℝ)) (h : ∀ g ∈ gs, g.length = k) (i j : Nat) :
    entry (bhhh k gs) i j = (gs.map fun g => g.getD i 0 * g.getD j 0).sum :=
  (bhhh_entry k gs h i j).1

theorem bhhh_symm (k : Nat) (gs : List (List ℝ)) (h : ∀ g ∈ gs, g.length = k) (i j : Nat) :
    entry (bhhh k gs) i j = entry (bhhh k gs) j i :=
  Diff.bhhh_symm k gs h i j

/-- **Second derivatives are never returned without first ones**: the request is refused; in every
accepted request each returned slot is the requested one. -/
theorem package_flags (fl : Flags) :
    (package fl = none ↔ ((fl.hessian = true ∨ fl.bhhh = true) ∧ fl.gradient = false)) ∧
    (∀ r, package fl = some r → r = (fl.gradient, fl.hessian, fl.bhhh)) := by
  obtain ⟨g, h, b⟩ := fl
  cases g <;> cases h <;> cases b <;> simp [package]

/-! ### non-vacuity -/

/-- log(exp(b·x) + 1) / b² at b = 1/2, x = 2 is regular -/
example : Regular ({ par := fun _ => 1 / 2, var := fun _ => 2 } : Env ℝ)
    (.div (.log (.add (.exp (.mul (.par "b") (.var "x"))) (.num 1))) (.powc (.par "b") 2)) := by
  simp only [Regular, ev_add, ev_exp, ev_mul, ev_par, ev_var, ev_num, ev_powc, true_and, and_true]
  refine ⟨by positivity, by norm_num, ?_⟩
  positivity

end C02
