/-
C02 — gradient, Hessian and BHHH returned with a value are its true derivatives.
Property theorems only (lemmas in Proofs/Diff.lean, Proofs/FinDiff.lean, Proofs/IdManager.lean).
Models: Model/Diff.lean (differentiation), Model/FinDiff.lean (tools.derivatives), Model/IdManager.lean (literal ids).
-/
import Model.Diff
import Proofs.Diff
import Model.FinDiff
import Proofs.FinDiff
import Model.IdManager
import Proofs.IdManager

open Diff

namespace C02

/-- **The gradient entry is the first derivative of the reported function.**  For every formula
of the differentiable fragment and every point of its regular domain, the value of the symbolic
derivative w.r.t. parameter `n` is the derivative of `t ↦ value with parameter n set to t`. -/
theorem diff_correct (env : Env ℝ) (n : String) (e : E ℝ) (h : Regular env e) :
    HasDerivAt (fun t => ev (env.setPar n t) e) (ev env (diff n e)) (env.par n) :=
  Diff.diff_correct env n e h

/-- the regular domain is closed under differentiation -/
theorem smooth_closed (env : Env ℝ) (n : String) (e : E ℝ) (h : Regular env e) :
    Regular env (diff n e) :=
  regular_diff env n e h

/-- **The Hessian entry (i,j) is the derivative w.r.t. parameter i of gradient entry j.** -/
theorem hess_correct (env : Env ℝ) (i j : String) (e : E ℝ) (h : Regular env e) :
    HasDerivAt (fun t => ev (env.setPar i t) (diff j e)) (ev env (diff i (diff j e))) (env.par i) :=
  Diff.hess_correct env i j e h

/-- **The Hessian is symmetric.** -/
theorem hess_symm (env : Env ℝ) (i j : String) (e : E ℝ) (h : Regular env e) :
    ev env (diff i (diff j e)) = ev env (diff j (diff i e)) :=
  Diff.hess_symm env i j e h

/-- **Entry k belongs to the k-th name of the reported list**: the gradient vector built in the
order of a list of names has at position k the derivative w.r.t. the k-th name; same for the
Hessian. -/
theorem entry_name {α} [NumOps α] (names : List String) (env : Env α) (e : E α) (k : Nat) (n : String)
    (hk : names[k]? = some n) : (grad names env e)[k]? = some (ev env (diff n e)) := by
  simp [grad, List.getElem?_map, hk]

theorem hess_entry_name {α} [NumOps α] (names : List String) (env : Env α) (e : E α) (a b : Nat)
    (i j : String) (ha : names[a]? = some i) (hb : names[b]? = some j) :
    ((hess names env e)[a]?.bind (·[b]?)) = some (ev env (diff j (diff i e))) := by
  simp [hess, List.getElem?_map, ha, hb]

/-- **Aggregated gradient = derivative of the aggregated value**: the sum over observations of the
per-observation derivatives is the derivative of the sum of the per-observation values. -/
theorem aggregate_sum (n : String) (e : E ℝ) (x : ℝ) (envs : List (Env ℝ))
    (h : ∀ env ∈ envs, Regular env e ∧ env.par n = x) :
    HasDerivAt (fun t => Num.sum (envs.map fun env => ev (env.setPar n t) e))
      (Num.sum (envs.map fun env => ev env (diff n e))) x :=
  agg_deriv n e x envs h

/-- **BHHH is the sum over observations of the outer products of the per-observation gradients**
(entrywise), and is symmetric. -/
theorem bhhh_def (k : Nat) (gs : List (List ℝ)) (h : ∀ g ∈ gs, g.length = k) (i j : Nat) :
    entry (bhhh k gs) i j = (gs.map fun g => g.getD i 0 * g.getD j 0).sum :=
  (bhhh_entry k gs h i j).1

theorem bhhh_symm (k : Nat) (gs : List (List ℝ)) (h : ∀ g ∈ gs, g.length = k) (i j : Nat) :
    entry (bhhh k gs) i j = entry (bhhh k gs) j i :=
  Diff.bhhh_symm k gs h i j

/-- **Second derivatives are never returned without first ones**: the request is refused; in every
accepted request each returned slot is the requested one. -/
theorem package_flags (fl : Flags) :
    (package fl = none ↔ ((fl.hessian = true ∨ fl.bhhh = true) ∧ fl.gradient = false)) ∧
    (∀ r, package fl = some r → r = (fl.gradient, fl.hessian, fl.bhhh)) := by
  obtain ⟨g, h, b⟩ := fl
  cases g <;> cases h <;> cases b <;> simp [package]


/-! ### the finite-difference self-check offered to users (`tools.derivatives`) -/

/-- **The step of `findiff_g` / `findiff_h` is never zero**, whatever the coordinate (in particular
at a coordinate that is exactly 0): the difference quotient is always defined. -/
theorem fd_step_ne_zero (t x : ℝ) (ht : t ≠ 0) : FinDiff.fdStep t x ≠ 0 :=
  FinDiff.fdStep_ne_zero t x ht

/-- its size is `tau · max(1, |xᵢ|)` and it moves away from zero -/
theorem fd_step_size (t x : ℝ) : |FinDiff.fdStep t x| = |t| * max 1 |x| :=
  FinDiff.abs_fdStep t x

theorem fd_step_sign (t x : ℝ) (ht : 0 < t) :
    (0 ≤ x → 0 < FinDiff.fdStep t x) ∧ (x < 0 → FinDiff.fdStep t x < 0) :=
  FinDiff.fdStep_sign t x ht

/-- `findiff_g` is exact on a function that is affine along the coordinate -/
theorem findiff_g_affine (t : ℝ) (ht : t ≠ 0) (f : List ℝ → ℝ) (x : List ℝ) (i : Nat)
    (hi : i < x.length) (a : ℝ) (hline : ∀ s, f (x.set i s) = f x + a * (s - x.getD i 0)) :
    (FinDiff.findiffG t f x).getD i 0 = a :=
  FinDiff.findiffG_affine t ht f x i hi a hline

/-- **`findiff_g` approximates the gradient**: entry `i` tends to the partial derivative with
respect to coordinate `i` when the step parameter tends to 0. -/
theorem findiff_g_tendsto (f : List ℝ → ℝ) (x : List ℝ) (i : Nat) (hi : i < x.length) (d : ℝ)
    (h : HasDerivAt (fun s => f (x.set i s)) d (x.getD i 0)) :
    Filter.Tendsto (fun t : ℝ => (FinDiff.findiffG t f x).getD i 0) (nhdsWithin 0 {0}ᶜ) (nhds d) :=
  FinDiff.findiffG_tendsto f x i hi d h

/-- **`findiff_h` approximates the Hessian**: entry `(r, i)` tends to the derivative of gradient
entry `r` with respect to coordinate `i`. -/
theorem findiff_h_tendsto (g : List ℝ → List ℝ) (x : List ℝ) (r i : Nat) (hr : r < x.length)
    (hi : i < x.length) (d : ℝ)
    (h : HasDerivAt (fun s => (g (x.set i s)).getD r 0) d (x.getD i 0)) :
    Filter.Tendsto (fun t : ℝ => ((FinDiff.findiffH t g x).getD r []).getD i 0)
      (nhdsWithin 0 {0}ᶜ) (nhds d) :=
  FinDiff.findiffH_tendsto g x r i hr hi d h

/-- **The self-check confirms a true gradient**: `check_derivatives` returns the value, gradient and
Hessian of the function at `x` unchanged, and where the reported gradient entry is the partial
derivative of the reported value, the reported discrepancy `gdiff` tends to 0 with the step. -/
theorem check_derivatives_confirms (F : List ℝ → ℝ × List ℝ × List (List ℝ)) (x : List ℝ) (i : Nat)
    (hi : i < x.length) (hg : (F x).2.1.length = x.length)
    (h : HasDerivAt (fun s => (F (x.set i s)).1) ((F x).2.1.getD i 0) (x.getD i 0)) :
    (∀ t : ℝ, ((FinDiff.checkDerivatives t F x).f, (FinDiff.checkDerivatives t F x).g,
        (FinDiff.checkDerivatives t F x).h) = F x) ∧
    Filter.Tendsto (fun t : ℝ => (FinDiff.checkDerivatives t F x).gdiff.getD i 0)
      (nhdsWithin 0 {0}ᶜ) (nhds 0) :=
  ⟨fun _ => rfl, FinDiff.gdiff_tendsto_zero F x i hi hg h⟩

/-! ### the literal ids used for differentiation -/

section ids
variable {ν : Type} [LinearOrder ν]
open IdM

/-- **The literal id handed to the engine for the k-th sorted free parameter is k, and it denotes
that parameter only**: when `IdManager.prepare` accepts the specification no other elementary
expression (fixed parameter, random variable, draw, column of the database) has that id. -/
theorem literal_ids_follow_names {α} (decls : List (Decl ν α)) (rvs draws cols : List ν) (t : Table ν)
    (h : prepare decls rvs draws cols = .ok t) (k : Nat) (n : ν) (hk : t.free[k]? = some n) :
    t.uid n = some k ∧ ∀ m, t.uid m = some k → m = n := by
  have hnd : t.all.Nodup := by
    unfold prepare at h
    simp only at h
    split at h
    · rename_i hb
      cases h
      exact (nodupB_iff _).mp hb
    · cases h
  have hall : t.all[k]? = some n := by
    have hlt : k < t.free.length := by
      by_contra hc
      rw [List.getElem?_eq_none (not_lt.mp hc)] at hk
      cases hk
    simp only [Table.all, List.append_assoc]
    rw [List.getElem?_append_left hlt]
    exact hk
  refine ⟨indexOf_of_get _ hnd k n hall, fun m hm => ?_⟩
  have := indexOf_get m _ k hm
  rw [hall] at this
  exact (Option.some.inj this).symm

/-- **A free parameter named like a column of the database is refused** (otherwise the column
would take over the parameter's literal id and the gradient entry would belong to the column). -/
theorem parameter_named_like_column_refused {α} (decls : List (Decl ν α)) (rvs draws cols : List ν)
    (n : ν) (h1 : ∃ d ∈ decls, d.name = n) (h2 : n ∈ cols) :
    ∃ dups, prepare decls rvs draws cols = .error dups := by
  unfold prepare
  simp only
  split
  · rename_i hb
    exfalso
    have hnd := (nodupB_iff _).mp hb
    simp only [Table.all] at hnd
    obtain ⟨d, hd, hn⟩ := h1
    have hmem : n ∈ sortDedup ((decls.filter (!·.fixed)).map (·.name)) ++
        sortDedup ((decls.filter (·.fixed)).map (·.name)) ++ sortDedup rvs ++ sortDedup draws := by
      cases hf : d.fixed
      · have : n ∈ sortDedup ((decls.filter (!·.fixed)).map (·.name)) := by
          rw [mem_sortDedup]
          exact List.mem_map.mpr ⟨d, List.mem_filter.mpr ⟨hd, by simp [hf]⟩, hn⟩
        simp [this]
      · have : n ∈ sortDedup ((decls.filter (·.fixed)).map (·.name)) := by
          rw [mem_sortDedup]
          exact List.mem_map.mpr ⟨d, List.mem_filter.mpr ⟨hd, by simp [hf]⟩, hn⟩
        simp [this]
    exact (List.nodup_append.mp hnd).2.2 n hmem n h2 rfl
  · exact ⟨_, rfl⟩

end ids

/-! ### non-vacuity -/

/-- log(exp(b·x) + 1) / b² at b = 1/2, x = 2 is regular -/
example : Regular ({ par := fun _ => 1 / 2, var := fun _ => 2 } : Env ℝ)
    (.div (.log (.add (.exp (.mul (.par "b") (.var "x"))) (.num 1))) (.powc (.par "b") 2)) := by
  simp only [Regular, ev_add, ev_exp, ev_mul, ev_par, ev_var, ev_num, ev_powc, true_and, and_true]
  refine ⟨by positivity, by norm_num, ?_⟩
  positivity

/-- the step at a coordinate that is exactly 0 is `tau`, not 0 -/
example : FinDiff.fdStep (1 / 10000000 : ℝ) 0 = 1 / 10000000 := by
  rw [FinDiff.fdStep_eq]; simp [FinDiff.dir]

/-- `f(x) = 3·x₁ − x₀` is affine along coordinate 1 at the point `[0, 0]` -/
example : ∀ s : ℝ, (fun p : List ℝ => 3 * p.getD 1 0 - p.getD 0 0) (([0, 0] : List ℝ).set 1 s) =
    (fun p : List ℝ => 3 * p.getD 1 0 - p.getD 0 0) [0, 0] + 3 * (s - ([0, 0] : List ℝ).getD 1 0) := by
  intro s; simp

/-- an accepted specification with two free parameters whose sorted order differs from the order of
appearance, and a refused one (parameter named like a column) -/
example : (IdM.prepare (α := Nat) [⟨"b2", false, 0, none, none⟩, ⟨"b10", false, 0, none, none⟩] [] [] ["x", "cost"]).toOption.map
    (fun t => (t.free, t.uid "b2")) = some (["b10", "b2"], some 1) := by decide
example : (IdM.prepare (α := Nat) [⟨"b1", false, 0, none, none⟩, ⟨"cost", false, 0, none, none⟩] [] [] ["x", "cost"]).toOption.isNone = true := by
  decide

end C02
