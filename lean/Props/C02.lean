/-
C02 — gradient, Hessian and BHHH returned with a value are its true derivatives.
Property theorems only (lemmas in Proofs/Diff.lean, Proofs/FinDiff.lean, Proofs/IdManager.lean).
Models: Model/Diff.lean (differentiation), Model/FinDiff.lean (tools.derivatives), Model/IdManager.lean (literal ids),
Model/DerivOut.lean (round 3: named outputs, packaging of the engine arrays, tuple unpacking, create_function /
create_objective_function, positional points, successive calls; lemmas in Proofs/DerivOut.lean).
-/
import Model.Diff
import Proofs.Diff
import Model.FinDiff
import Proofs.FinDiff
import Model.IdManager
import Proofs.IdManager
import Model.DerivOut
import Proofs.DerivOut

open Diff DerivOut

namespace C02

/-- **The gradient entry is the first derivative of the reported function.**  For every formula
of the differentiable fragment and every point of its regular domain, the value of the symbolic
derivative w.r.t. parameter `n` is the derivative of `t ↦ value with parameter n set to t`. -/
theorem diff_correct (env : Env ℝ) (n : String) (e : E ℝ) (h : Regular env e) :
    HasDerivAt (fun t => ev (env.setPar n t) e) (ev env (diff n e)) (env.par n) :=
  Diff.diff_correct env n e h

/-- the regular domain is closed under differentiation -/
theorem smooth_closed (env : Env ℝ) (n : String) (e : E ℝ) (h : Regular env e) :
    Regular env (diff n e) :=
  regular_diff env n e h

/-- **The Hessian entry (i,j) is the derivative w.r.t. parameter i of gradient entry j.** -/
theorem hess_correct (env : Env ℝ) (i j : String) (e : E ℝ) (h : Regular env e) :
    HasDerivAt (fun t => ev (env.setPar i t) (diff j e)) (ev env (diff i (diff j e))) (env.par i) :=
  Diff.hess_correct env i j e h

/-- **The Hessian is symmetric.** -/
theorem hess_symm (env : Env ℝ) (i j : String) (e : E ℝ) (h : Regular env e) :
    ev env (diff i (diff j e)) = ev env (diff j (diff i e)) :=
  Diff.hess_symm env i j e h

/-- **Entry k belongs to the k-th name of the reported list**: the gradient vector built in the
order of a list of names has at position k the derivative w.r.t. the k-th name; same for the
Hessian. -/
theorem entry_name {α} [NumOps α] (names : List String) (env : Env α) (e : E α) (k : Nat) (n : String)
    (hk : names[k]? = some n) : (grad names env e)[k]? = some (ev env (diff n e)) := by
  simp [grad, List.getElem?_map, hk]

theorem hess_entry_name {α} [NumOps α] (names : List String) (env : Env α) (e : E α) (a b : Nat)
    (i j : String) (ha : names[a]? = some i) (hb : names[b]? = some j) :
    ((hess names env e)[a]?.bind (·[b]?)) = some (ev env (diff j (diff i e))) := by
  simp [hess, List.getElem?_map, ha, hb]

/-- **Aggregated gradient = derivative of the aggregated value**: the sum over observations of the
per-observation derivatives is the derivative of the sum of the per-observation values. -/
theorem aggregate_sum (n : String) (e : E ℝ) (x : ℝ) (envs : List (Env ℝ))
    (h : ∀ env ∈ envs, Regular env e ∧ env.par n = x) :
    HasDerivAt (fun t => Num.sum (envs.map fun env => ev (env.setPar n t) e))
      (Num.sum (envs.map fun env => ev env (diff n e))) x :=
  agg_deriv n e x envs h

/-- **BHHH is the sum over observations of the outer products of the per-observation gradients**
(entrywise), and is symmetric. -/
theorem bhhh_def (k : Nat) (gs : List (List ℝ)) (h : ∀ g ∈ gs, g.length = k) (i j : Nat) :
    entry (bhhh k gs) i j = (gs.map fun g => g.getD i 0 * g.getD j 0).sum :=
  (bhhh_entry k gs h i j).1

theorem bhhh_symm (k : Nat) (gs : List (List ℝ)) (h : ∀ g ∈ gs, g.length = k) (i j : Nat) :
    entry (bhhh k gs) i j = entry (bhhh k gs) j i :=
  Diff.bhhh_symm k gs h i j

/-- **Second derivatives are never returned without first ones**: the request is refused; in every
accepted request each returned slot is the requested one. -/
theorem package_flags (fl : Flags) :
    (package fl = none ↔ ((fl.hessian = true ∨ fl.bhhh = true) ∧ fl.gradient = false)) ∧
    (∀ r, package fl = some r → r = (fl.gradient, fl.hessian, fl.bhhh)) := by
  obtain ⟨g, h, b⟩ := fl
  cases g <;> cases h <;> cases b <;> simp [package]


/-! ### the finite-difference self-check offered to users (`tools.derivatives`) -/

/-- **The step of `findiff_g` / `findiff_h` is never zero**, whatever the coordinate (in particular
at a coordinate that is exactly 0): the difference quotient is always defined. -/
theorem fd_step_ne_zero (t x : ℝ) (ht : t ≠ 0) : FinDiff.fdStep t x ≠ 0 :=
  FinDiff.fdStep_ne_zero t x ht

/-- its size is `tau · max(1, |xᵢ|)` and it moves away from zero -/
theorem fd_step_size (t x : ℝ) : |FinDiff.fdStep t x| = |t| * max 1 |x| :=
  FinDiff.abs_fdStep t x

theorem fd_step_sign (t x : ℝ) (ht : 0 < t) :
    (0 ≤ x → 0 < FinDiff.fdStep t x) ∧ (x < 0 → FinDiff.fdStep t x < 0) :=
  FinDiff.fdStep_sign t x ht

/-- `findiff_g` is exact on a function that is affine along the coordinate -/
theorem findiff_g_affine (t : ℝ) (ht : t ≠ 0) (f : List ℝ → ℝ) (x : List ℝ) (i : Nat)
    (hi : i < x.length) (a : ℝ) (hline : ∀ s, f (x.set i s) = f x + a * (s - x.getD i 0)) :
    (FinDiff.findiffG t f x).getD i 0 = a :=
  FinDiff.findiffG_affine t ht f x i hi a hline

/-- **`findiff_g` approximates the gradient**: entry `i` tends to the partial derivative with
respect to coordinate `i` when the step parameter tends to 0. -/
theorem findiff_g_tendsto (f : List ℝ → ℝ) (x : List ℝ) (i : Nat) (hi : i < x.length) (d : ℝ)
    (h : HasDerivAt (fun s => f (x.set i s)) d (x.getD i 0)) :
    Filter.Tendsto (fun t : ℝ => (FinDiff.findiffG t f x).getD i 0) (nhdsWithin 0 {0}ᶜ) (nhds d) :=
  FinDiff.findiffG_tendsto f x i hi d h

/-- **`findiff_h` approximates the Hessian**: entry `(r, i)` tends to the derivative of gradient
entry `r` with respect to coordinate `i`. -/
theorem findiff_h_tendsto (g : List ℝ → List ℝ) (x : List ℝ) (r i : Nat) (hr : r < x.length)
    (hi : i < x.length) (d : ℝ)
    (h : HasDerivAt (fun s => (g (x.set i s)).getD r 0) d (x.getD i 0)) :
    Filter.Tendsto (fun t : ℝ => ((FinDiff.findiffH t g x).getD r []).getD i 0)
      (nhdsWithin 0 {0}ᶜ) (nhds d) :=
  FinDiff.findiffH_tendsto g x r i hr hi d h

/-- **The self-check confirms a true gradient**: `check_derivatives` returns the value, gradient and
Hessian of the function at `x` unchanged, and where the reported gradient entry is the partial
derivative of the reported value, the reported discrepancy `gdiff` tends to 0 with the step. -/
theorem check_derivatives_confirms (F : List ℝ → ℝ × List ℝ × List (List ℝ)) (x : List ℝ) (i : Nat)
    (hi : i < x.length) (hg : (F x).2.1.length = x.length)
    (h : HasDerivAt (fun s => (F (x.set i s)).1) ((F x).2.1.getD i 0) (x.getD i 0)) :
    (∀ t : ℝ, ((FinDiff.checkDerivatives t F x).f, (FinDiff.checkDerivatives t F x).g,
        (FinDiff.checkDerivatives t F x).h) = F x) ∧
    Filter.Tendsto (fun t : ℝ => (FinDiff.checkDerivatives t F x).gdiff.getD i 0)
      (nhdsWithin 0 {0}ᶜ) (nhds 0) :=
  ⟨fun _ => rfl, FinDiff.gdiff_tendsto_zero F x i hi hg h⟩

/-! ### the literal ids used for differentiation -/

section ids
variable {ν : Type} [LinearOrder ν]
open IdM

/-- **The literal id handed to the engine for the k-th sorted free parameter is k, and it denotes
that parameter only**: when `IdManager.prepare` accepts the specification no other elementary
expression (fixed parameter, random variable, draw, column of the database) has that id. -/
theorem literal_ids_follow_names {α} (decls : List (Decl ν α)) (rvs draws cols : List ν) (t : Table ν)
    (h : prepare decls rvs draws cols = .ok t) (k : Nat) (n : ν) (hk : t.free[k]? = some n) :
    t.uid n = some k ∧ ∀ m, t.uid m = some k → m = n := by
  have hnd : t.all.Nodup := by
    unfold prepare at h
    simp only at h
    split at h
    · rename_i hb
      cases h
      exact (nodupB_iff _).mp hb
    · cases h
  have hall : t.all[k]? = some n := by
    have hlt : k < t.free.length := by
      by_contra hc
      rw [List.getElem?_eq_none (not_lt.mp hc)] at hk
      cases hk
    simp only [Table.all, List.append_assoc]
    rw [List.getElem?_append_left hlt]
    exact hk
  refine ⟨indexOf_of_get _ hnd k n hall, fun m hm => ?_⟩
  have := indexOf_get m _ k hm
  rw [hall] at this
  exact (Option.some.inj this).symm

/-- **A free parameter named like a column of the database is refused** (otherwise the column
would take over the parameter's literal id and the gradient entry would belong to the column). -/
theorem parameter_named_like_column_refused {α} (decls : List (Decl ν α)) (rvs draws cols : List ν)
    (n : ν) (h1 : ∃ d ∈ decls, d.name = n) (h2 : n ∈ cols) :
    ∃ dups, prepare decls rvs draws cols = .error dups := by
  unfold prepare
  simp only
  split
  · rename_i hb
    exfalso
    have hnd := (nodupB_iff _).mp hb
    simp only [Table.all] at hnd
    obtain ⟨d, hd, hn⟩ := h1
    have hmem : n ∈ sortDedup ((decls.filter (!·.fixed)).map (·.name)) ++
        sortDedup ((decls.filter (·.fixed)).map (·.name)) ++ sortDedup rvs ++ sortDedup draws := by
      cases hf : d.fixed
      · have : n ∈ sortDedup ((decls.filter (!·.fixed)).map (·.name)) := by
          rw [mem_sortDedup]
          exact List.mem_map.mpr ⟨d, List.mem_filter.mpr ⟨hd, by simp [hf]⟩, hn⟩
        simp [this]
      · have : n ∈ sortDedup ((decls.filter (·.fixed)).map (·.name)) := by
          rw [mem_sortDedup]
          exact List.mem_map.mpr ⟨d, List.mem_filter.mpr ⟨hd, by simp [hf]⟩, hn⟩
        simp [this]
    exact (List.nodup_append.mp hnd).2.2 n hmem n h2 rfl
  · exact ⟨_, rfl⟩

end ids


/-! ### round 3: how the derivatives leave the library (named outputs, shared numbering, packaging, unpacking,
objective functions, successive calls) -/

/-- **Named gradient: the entry read under name `n` is the derivative with respect to `n`**, when the names are
numbered by `expressions_names_indices` (position in the list) and converted by `convert_to_dict`. -/
theorem named_lookup {α} [NumOps α] (names : List String) (hnd : names.Nodup) (env : Env α) (e : E α)
    (k : Nat) (n : String) (hk : names[k]? = some n) :
    ∃ d, namedVec (indices names) (grad names env e) = some d ∧ dictGet d n = some (ev env (diff n e)) := by
  obtain ⟨d, h1, h2⟩ := namedVec_get (ev env e) names (grad names env e) (by simp [grad]) n
  refine ⟨d, h1, ?_⟩
  rw [h2, IdM.indexOf_of_get names hnd k n hk]
  simp [List.getD_eq_getElem?_getD, entry_name names env e k n hk]

/-- **Named Hessian: the entry read under `(i, j)` is the second derivative with respect to `i` and `j`** (the same
conversion is used for the BHHH matrix and for each observation of the per-observation outputs). -/
theorem named_hess_lookup {α} [NumOps α] (names : List String) (hnd : names.Nodup) (env : Env α) (e : E α)
    (a b : Nat) (i j : String) (ha : names[a]? = some i) (hb : names[b]? = some j) :
    ∃ D, namedMat (indices names) (hess names env e) = some D ∧
      matGet D i j = some (ev env (diff j (diff i e))) := by
  obtain ⟨D, h1, h2⟩ := namedMat_get (ev env e) names (hess names env e) (by simp [hess])
    (by intro r hr; simp only [hess, List.mem_map] at hr; obtain ⟨_, _, rfl⟩ := hr; simp) i j
  refine ⟨D, h1, ?_⟩
  rw [h2, IdM.indexOf_of_get names hnd a i ha, IdM.indexOf_of_get names hnd b j hb]
  have := hess_entry_name names env e a b i j ha hb
  simp only [Option.bind_some, Option.map_some]
  cases hA : (hess names env e)[a]? with
  | none => simp [hA] at this
  | some r =>
    simp only [hA, Option.bind_some] at this
    simp [List.getD_eq_getElem?_getD, hA, this]

/-- **a named matrix of any content** (BHHH, per-observation Hessian): entry `(i, j)` of the two-level dictionary
is the entry at the positions of `i` and `j` in the id manager's list -/
theorem named_matrix_lookup (names : List String) (hnd : names.Nodup) (M : List (List ℝ))
    (hr : M.length = names.length) (hc : ∀ r ∈ M, r.length = names.length)
    (a b : Nat) (i j : String) (ha : names[a]? = some i) (hb : names[b]? = some j) :
    ∃ D, namedMat (indices names) M = some D ∧ matGet D i j = some (entry M a b) := by
  obtain ⟨D, h1, h2⟩ := namedMat_get (0 : ℝ) names M hr hc i j
  refine ⟨D, h1, ?_⟩
  rw [h2, IdM.indexOf_of_get names hnd a i ha, IdM.indexOf_of_get names hnd b j hb]
  rfl

/-- `convert_to_dict` raises IndexError exactly when an index of the map is outside the sequence -/
theorem convert_to_dict_refuses (m : List (String × Nat)) (seq : List ℝ) :
    convertToDict m seq = none ↔ ∃ p ∈ m, seq.length ≤ p.2 :=
  convertToDict_none_iff m seq

/-- **A parameter that does not occur in the formula has a zero entry** (gradient, and Hessian row/column):
this is what the engine must report for the parameters of the OTHER formulas of a shared id manager. -/
theorem foreign_parameter_zero (env : Env ℝ) (n m : String) (e : E ℝ) (h : n ∉ pars e) :
    ev env (diff n e) = 0 ∧ ev env (diff n (diff m e)) = 0 ∧
      (Regular env e → ev env (diff m (diff n e)) = 0) := by
  have h2 : ev env (diff n (diff m e)) = 0 :=
    foreign_zero env n (diff m e) (fun hc => h (pars_diff_subset m e n hc))
  exact ⟨foreign_zero env n e h, h2, fun hr => by rw [Diff.hess_symm env m n e hr]; exact h2⟩

/-- **Shared numbering.**  Whatever formulas contributed declarations to the id manager (`decls`: the parameters of
ALL the formulas that share it), when `prepare` accepts them the named gradient of a formula `e` computed over the
manager's list has, under every name of that list, the derivative of `e` with respect to that parameter - zero for
the parameters that belong to the other formulas only. -/
theorem named_entry_shared {α'} (decls : List (IdM.Decl String α')) (rvs draws cols : List String)
    (t : IdM.Table String) (h : IdM.prepare decls rvs draws cols = .ok t) (env : Env ℝ) (e : E ℝ)
    (n : String) (hn : n ∈ t.free) :
    ∃ d, namedVec (indices t.free) (grad t.free env e) = some d ∧ dictGet d n = some (ev env (diff n e)) ∧
      (n ∉ pars e → dictGet d n = some 0) := by
  have hnd : t.free.Nodup := by
    unfold IdM.prepare at h
    simp only at h
    split at h
    · cases h
      exact IdM.nodup_sortDedup _
    · cases h
  obtain ⟨k, hk⟩ := List.getElem?_of_mem hn
  obtain ⟨d, h1, h2⟩ := named_lookup t.free hnd env e k n hk
  exact ⟨d, h1, h2, fun hf => by rw [h2, foreign_zero env n e hf]⟩

/-- **Packaging of the engine's arrays** (`calculate_function_and_derivatives`): the aggregated mode returns entry 0
of each requested array and nothing else; with a database the per-observation mode returns the requested arrays as
they are; without a database the single observation is returned like an aggregated output, and more than one entry
is refused. -/
theorem package_slots {α : Type} (fl : Flags) (hasDb : Bool) (f0 : α) (fs : List α) (g0 : List α) (gs : List (List α))
    (h0 b0 : List (List α)) (hs bs : List (List (List α))) :
    calcPackage fl true hasDb ⟨f0 :: fs, g0 :: gs, h0 :: hs, b0 :: bs⟩ =
      .ok (.agg ⟨f0, if fl.gradient then some g0 else none, if fl.hessian then some h0 else none,
                 if fl.bhhh then some b0 else none⟩) ∧
    calcPackage fl false true ⟨f0 :: fs, g0 :: gs, h0 :: hs, b0 :: bs⟩ =
      .ok (.dis ⟨f0 :: fs, if fl.gradient then some (g0 :: gs) else none, if fl.hessian then some (h0 :: hs) else none,
                 if fl.bhhh then some (b0 :: bs) else none⟩) ∧
    calcPackage fl false false ⟨[f0], [g0], [h0], [b0]⟩ = calcPackage fl true false ⟨[f0], [g0], [h0], [b0]⟩ ∧
    (∀ f1, calcPackage fl false false ⟨f0 :: f1 :: fs, g0 :: gs, h0 :: hs, b0 :: bs⟩ = .error "BiogemeError") :=
  ⟨calcPackage_agg fl hasDb f0 fs g0 gs h0 b0 hs bs, calcPackage_dis fl _, calcPackage_nodb fl f0 g0 h0 b0,
   fun f1 => calcPackage_nodb_many fl f0 f1 fs _ _ _⟩

/-- **Tuple unpacking of an output** yields the value, the gradient, the Hessian and the BHHH matrix of the output, in
that order; every later unpacking of the same object is refused, and the object is never changed by it. -/
theorem unpack_once {α : Type} (o : Agg α) (k : Nat) :
    (Proxy.iter ⟨o, false⟩).1 = .ok (o.f, o.g, o.h, o.b) ∧
    ((Proxy.iter ⟨o, false⟩).2.iters k).1 = List.replicate k (.error "TypeError") ∧
    ((Proxy.iter ⟨o, false⟩).2.iters k).2.data = o := by
  have h := iters_done (Proxy.iter ⟨o, false⟩).2 rfl k
  exact ⟨rfl, h.1, by rw [h.2]; rfl⟩

/-- **`create_objective_function`: `_f`, `_f_g` and `_f_g_h` report the same function at the same positional point**
(coordinate k = value of the k-th name of the id manager), `_f_g` without a Hessian; a vector of another length is
refused. -/
theorem objective_reports_same_function (names : List String) (envs : List (Env ℝ)) (e : E ℝ) (x : List ℝ)
    (hx : x.length = names.length) :
    objF names envs e x = .ok (aggValue (envs.map (pointEnv names x)) e) ∧
    objFG names envs e x = .ok (aggValue (envs.map (pointEnv names x)) e,
      some (aggGrad names (envs.map (pointEnv names x)) e), none) ∧
    objFGH names envs e x = .ok (aggValue (envs.map (pointEnv names x)) e,
      some (aggGrad names (envs.map (pointEnv names x)) e), some (aggHess names (envs.map (pointEnv names x)) e)) ∧
    (∀ y : List ℝ, y.length ≠ names.length → objF names envs e y = .error "BiogemeError") := by
  refine ⟨?_, ?_, ?_, ?_⟩
  · simp [objF, myFunctionRaw, package, hx, engineAgg, calcPackage_agg, Except.map]
  · simp [objFG, myFunctionRaw, package, hx, engineAgg, calcPackage_agg, Except.map]
  · simp [objFGH, myFunctionRaw, package, hx, engineAgg, calcPackage_agg, Except.map]
  · intro y hy
    simp [objF, myFunctionRaw, package, hy, Except.map]

/-- **The gradient reported by the objective function is the derivative of the value it reports**: entry k of the
gradient of `_f_g` / `_f_g_h` at `x` is the derivative of `t ↦ _f(x with coordinate k set to t)`, for any list of
names of the id manager (also names that do not occur in the formula). -/
theorem objective_gradient_correct (names : List String) (hnd : names.Nodup) (envs : List (Env ℝ)) (e : E ℝ)
    (x : List ℝ) (hx : x.length = names.length) (k : Nat) (n : String) (hk : names[k]? = some n)
    (hreg : ∀ env ∈ envs, Regular (pointEnv names x env) e) :
    HasDerivAt (fun t => aggValue (envs.map (pointEnv names (x.set k t))) e)
      ((aggGrad names (envs.map (pointEnv names x)) e).getD k 0) (x.getD k 0) := by
  have hkl : k < x.length := by
    have := indexOf_lt n names k (IdM.indexOf_of_get names hnd k n hk)
    omega
  have h := agg_deriv n e (x.getD k 0) (envs.map (pointEnv names x)) (by
    intro env henv
    obtain ⟨b, hb, rfl⟩ := List.mem_map.mp henv
    exact ⟨hreg b hb, pointEnv_par names hnd x k n hk b hkl⟩)
  have hf : (fun t => Num.sum ((envs.map (pointEnv names x)).map fun env => ev (env.setPar n t) e)) =
      fun t => aggValue (envs.map (pointEnv names (x.set k t))) e := by
    funext t
    simp only [aggValue, List.map_map]
    congr 1
    apply List.map_congr_left
    intro b _
    simp only [Function.comp, pointEnv_set names hnd x hx k n hk b t]
  have hg : Num.sum ((envs.map (pointEnv names x)).map fun env => ev env (diff n e)) =
      (aggGrad names (envs.map (pointEnv names x)) e).getD k 0 := by
    rw [getD_aggGrad]
    simp only [NumR.sum_real]
    congr 1
    apply List.map_congr_left
    intro env _
    simp [grad, List.getD_eq_getElem?_getD, List.getElem?_map, hk]
  rw [hf, hg] at h
  exact h

/-- **Outputs of successive calls on one object do not alias**: every call allocates the arrays it returns, so
after any sequence of calls the i-th returned output still holds what was computed at the i-th point. -/
theorem outputs_do_not_alias {β γ : Type} (H : β → γ) (xs : List β) (i : Nat) :
    (runCalls H xs)[i]? = xs[i]?.map H := by
  rw [runCalls_eq, List.getElem?_map]

/-! ### non-vacuity -/

/-- log(exp(b·x) + 1) / b² at b = 1/2, x = 2 is regular -/
example : Regular ({ par := fun _ => 1 / 2, var := fun _ => 2 } : Env ℝ)
    (.div (.log (.add (.exp (.mul (.par "b") (.var "x"))) (.num 1))) (.powc (.par "b") 2)) := by
  simp only [Regular, ev_add, ev_exp, ev_mul, ev_par, ev_var, ev_num, ev_powc, true_and, and_true]
  refine ⟨by positivity, by norm_num, ?_⟩
  positivity

/-- the step at a coordinate that is exactly 0 is `tau`, not 0 -/
example : FinDiff.fdStep (1 / 10000000 : ℝ) 0 = 1 / 10000000 := by
  rw [FinDiff.fdStep_eq]; simp [FinDiff.dir]

/-- `f(x) = 3·x₁ − x₀` is affine along coordinate 1 at the point `[0, 0]` -/
example : ∀ s : ℝ, (fun p : List ℝ => 3 * p.getD 1 0 - p.getD 0 0) (([0, 0] : List ℝ).set 1 s) =
    (fun p : List ℝ => 3 * p.getD 1 0 - p.getD 0 0) [0, 0] + 3 * (s - ([0, 0] : List ℝ).getD 1 0) := by
  intro s; simp

/-- an accepted specification with two free parameters whose sorted order differs from the order of
appearance, and a refused one (parameter named like a column) -/
example : (IdM.prepare (α := Nat) [⟨"b2", false, 0, none, none⟩, ⟨"b10", false, 0, none, none⟩] [] [] ["x", "cost"]).toOption.map
    (fun t => (t.free, t.uid "b2")) = some (["b10", "b2"], some 1) := by decide
example : (IdM.prepare (α := Nat) [⟨"b1", false, 0, none, none⟩, ⟨"cost", false, 0, none, none⟩] [] [] ["x", "cost"]).toOption.isNone = true := by
  decide

/-- shared numbering: an id manager that serves the formula b·x and another formula with the parameters a0, b, zz is
accepted and lists ["a0", "b", "zz"]; "a0" and "zz" are foreign to b·x -/
example : (IdM.prepare (α := Nat) [⟨"b", false, 0, none, none⟩, ⟨"zz", false, 0, none, none⟩, ⟨"a0", false, 0, none, none⟩,
    ⟨"b", false, 0, none, none⟩] [] [] ["x"]).toOption.map (·.free) = some ["a0", "b", "zz"] := by decide
example : "a0" ∉ pars (.mul (.par "b") (.var "x") : E ℝ) := by simp [pars]
/-- a mapping that points outside the vector is refused -/
example : convertToDict [("a", 0), ("b", 2)] [(1 : Nat), 2] = none := by decide
/-- unpacking twice -/
example : ((Proxy.iter ⟨(⟨1, some [2], none, none⟩ : Agg Nat), false⟩).2.iters 2).1 =
    [.error "TypeError", .error "TypeError"] := rfl
/-- the positional point [5, 7] under the names ["a", "b"] gives b the value 7; a fixed parameter keeps its value -/
example : ((pointEnv ["a", "b"] [5, 7] ({ par := fun _ => 1, var := fun _ => 0 } : Env Nat)).par "b",
    (pointEnv ["a", "b"] [5, 7] ({ par := fun _ => 1, var := fun _ => 0 } : Env Nat)).par "c") = (7, 1) := by decide
/-- every formula is regular where it has no division, logarithm or power: the hypothesis of
`objective_gradient_correct` is satisfiable with two rows and a foreign name in the list -/
example : ∀ env ∈ [({ par := fun _ => 1, var := fun _ => 2 } : Env ℝ), { par := fun _ => 1, var := fun _ => 3 }],
    Regular (pointEnv ["a0", "b"] [0, 1] env) (.mul (.par "b") (.var "x")) := by
  intro env _; simp [Regular]

end C02
