/-
C03 — parameters are identified by name everywhere, never by position of appearance.
Property theorems only (lemmas in Proofs/IdManager, Proofs/Rename).
-/
import Model.Expr
import Model.IdManager
import Model.IdSeq
import Proofs.IdManager
import Proofs.Rename

open IdM Expr

namespace C03

variable {ν : Type} [LinearOrder ν]

/-- **Order of appearance is irrelevant.**  The list of free (or fixed) parameter names depends
only on the *set* of declared names: any reordering of the terms of a specification (parameters
met in a different order), and any repetition of a parameter, gives the same numbering. -/
theorem prepare_order_irrelevant (l l' : List ν) (h : ∀ a, a ∈ l ↔ a ∈ l') :
    sortDedup l = sortDedup l' :=
  sortDedup_ext l l' h

theorem prepare_perm (l l' : List ν) (h : l.Perm l') : sortDedup l = sortDedup l' :=
  sortDedup_perm l l' h

/-- the reported list is strictly increasing, without repetition, and contains exactly the
declared names -/
theorem names_sorted_exact (l : List ν) :
    (sortDedup l).Pairwise (· < ·) ∧ (sortDedup l).Nodup ∧ ∀ a, a ∈ sortDedup l ↔ a ∈ l :=
  ⟨pairwise_sortDedup l, nodup_sortDedup l, fun a => mem_sortDedup a l⟩

/-- **A name-to-value dictionary overrides only the parameters it names.**  The entry of the free
vector at the position of name `n` is the dictionary value when `n` is in the dictionary and the
starting value of `n` otherwise — whatever the position is. -/
theorem dict_by_name {α} [Inhabited α] (t : Table ν) (decls : List (Decl ν α)) (dict : ν → Option α)
    (n : ν) (i : Nat) (hi : indexOf n t.free = some i) (dflt : α) :
    (freeValues t decls dict).getD i dflt =
      (dict n).getD (((lookupLast decls false n).map (·.init)).getD default) :=
  freeValues_at t decls dict n i hi dflt

/-- **Fixed parameters keep exactly the value they were given**: their vector does not depend on
the dictionary at all, and the entry at the position of `n` is its declared value. -/
theorem fixed_untouched {α} [Inhabited α] (t : Table ν) (decls : List (Decl ν α))
    (n : ν) (i : Nat) (hi : indexOf n t.fixed = some i) (dflt : α) :
    (fixedValues t decls).getD i dflt = ((lookupLast decls true n).map (·.init)).getD default :=
  fixedValues_at t decls n i hi dflt

/-- **Bounds are attached to names**: the i-th bound pair is that of the i-th reported name. -/
theorem bounds_by_name {α} (t : Table ν) (decls : List (Decl ν α)) (n : ν) (i : Nat)
    (hi : indexOf n t.free = some i) :
    (bounds t decls).getD i (none, none) =
      match lookupLast decls false n with
      | some d => (d.lb, d.ub)
      | none => (none, none) :=
  bounds_at t decls n i hi

/-- **Renaming through any one-to-one map.**  Rename every declaration by an injective `ρ` and
the dictionary accordingly (`dict' (ρ n) = dict n`): the value at the position of `ρ n` in the
new free vector equals the value at the position of `n` in the old one — although the positions
themselves may be completely different (e.g. an order-reversing renaming). -/
theorem rename_values {α} [Inhabited α] {μ : Type} [LinearOrder μ] (ρ : ν → μ)
    (hρ : Function.Injective ρ) (decls : List (Decl ν α)) (t : Table ν) (t' : Table μ)
    (dict : ν → Option α) (dict' : μ → Option α) (hd : ∀ n, dict' (ρ n) = dict n)
    (n : ν) (i j : Nat) (hi : indexOf n t.free = some i) (hj : indexOf (ρ n) t'.free = some j)
    (dflt : α) :
    (freeValues t' (decls.map (Decl.rename ρ)) dict').getD j dflt =
      (freeValues t decls dict).getD i dflt := by
  rw [freeValues_at t' _ dict' (ρ n) j hj, freeValues_at t decls dict n i hi, hd,
      lookupLast_rename ρ hρ]
  cases lookupLast decls false n <;> rfl

/-- the renamed specification has exactly the renamed names as free parameters -/
theorem rename_names {μ : Type} [LinearOrder μ] (ρ : ν → μ) (l : List ν) (m : μ) :
    m ∈ sortDedup (l.map ρ) ↔ ∃ n ∈ l, ρ n = m := by
  rw [mem_sortDedup]; simp

/-- **The value of a formula depends on the valuation by name only**: renaming the parameters of
the formula by `ρ` and evaluating under an environment that gives `ρ n` the value of `n` changes
no value (mathematical and engine semantics). -/
theorem rename_eval {α} [NumOps α] (ρ : String → String) (d : Dag α) (env env' : Env α)
    (hb : ∀ m, env'.beta (ρ m) = env.beta m) (hv : env'.var = env.var) (k : Nat) :
    eval semMath (renameDag ρ d) env' k = eval semMath d env k ∧
    eval semEngine (renameDag ρ d) env' k = eval semEngine d env k :=
  ⟨evalN_rename semMath semMath_faithful ρ d env env' hb hv (k + 1) k,
   evalN_rename semEngine semEngine_faithful ρ d env env' hb hv (k + 1) k⟩

/-- **A name used for two different kinds of element is refused, and only then.**  `prepare`
returns an error exactly when the concatenation free ++ fixed ++ random variables ++ draws ++
columns contains a name twice; since each of the first four lists is duplicate-free by
construction, that means: one name in two categories, or a repeated column. -/
theorem duplicate_iff {α} (decls : List (Decl ν α)) (rvs draws cols : List ν) :
    (∃ dups, prepare decls rvs draws cols = .error dups) ↔
      ¬ (sortDedup ((decls.filter (!·.fixed)).map (·.name)) ++
         sortDedup ((decls.filter (·.fixed)).map (·.name)) ++
         sortDedup rvs ++ sortDedup draws ++ cols).Nodup := by
  unfold prepare
  simp only [Table.all]
  rw [← nodupB_iff]
  exact ite_error_iff _ _ _

/-- one name declared both free and fixed is a duplicate -/
theorem free_and_fixed_refused {α} (decls : List (Decl ν α)) (rvs draws cols : List ν) (n : ν)
    (h1 : ∃ d ∈ decls, d.name = n ∧ d.fixed = false) (h2 : ∃ d ∈ decls, d.name = n ∧ d.fixed = true) :
    ∃ dups, prepare decls rvs draws cols = .error dups := by
  rw [duplicate_iff]
  intro hnd
  have hfree : n ∈ sortDedup ((decls.filter (!·.fixed)).map (·.name)) := by
    rw [mem_sortDedup]
    obtain ⟨d, hd, hn, hf⟩ := h1
    exact List.mem_map.mpr ⟨d, List.mem_filter.mpr ⟨hd, by simp [hf]⟩, hn⟩
  have hfix : n ∈ sortDedup ((decls.filter (·.fixed)).map (·.name)) := by
    rw [mem_sortDedup]
    obtain ⟨d, hd, hn, hf⟩ := h2
    exact List.mem_map.mpr ⟨d, List.mem_filter.mpr ⟨hd, by simp [hf]⟩, hn⟩
  have h := (List.nodup_append.mp (List.nodup_append.mp (List.nodup_append.mp
    (List.nodup_append.mp hnd).1).1).1).2.2
  exact h n hfree n hfix rfl

/-- a parameter name equal to a column name is a duplicate -/
theorem beta_and_column_refused {α} (decls : List (Decl ν α)) (rvs draws cols : List ν) (n : ν)
    (h1 : ∃ d ∈ decls, d.name = n ∧ d.fixed = false) (h2 : n ∈ cols) :
    ∃ dups, prepare decls rvs draws cols = .error dups := by
  rw [duplicate_iff]
  intro hnd
  have hfree : n ∈ sortDedup ((decls.filter (!·.fixed)).map (·.name)) := by
    rw [mem_sortDedup]
    obtain ⟨d, hd, hn, hf⟩ := h1
    exact List.mem_map.mpr ⟨d, List.mem_filter.mpr ⟨hd, by simp [hf]⟩, hn⟩
  have h := (List.nodup_append.mp hnd).2.2
  exact h n (by simp [hfree]) n h2 rfl

/-- `beta_values_dict_to_list`: when it succeeds every free name is in the dictionary and entry i
is the dictionary value of the i-th reported name -/
theorem dict_to_list {α} (t : Table ν) (dict : ν → Option α) (l : List α)
    (h : dictToList t dict = some l) :
    l.length = t.free.length ∧ ∀ (i : Nat) (n : ν), t.free[i]? = some n → (l[i]?) = dict n :=
  mapM_spec dict t.free l h


/-! ### any two of the five kinds -/

/-- **Any two different kinds.**  A name that designates elements of two different kinds — whichever
two of: free parameter (0), fixed parameter (1), random variable of numerical integration (2), draw
(3), column of the database (4) — is refused.  No pair of kinds is privileged: in particular the
clashes that involve no parameter at all (random variable / draw, draw / column, random variable /
column) are refused like the others. -/
theorem two_kinds_refused {α} (decls : List (Decl ν α)) (rvs draws cols : List ν) (n : ν)
    (i j : Nat) (hij : i < j) (hj : j < 5)
    (hi : n ∈ (mkTable decls rvs draws cols).kind i) (hjn : n ∈ (mkTable decls rvs draws cols).kind j) :
    ∃ dups, prepare decls rvs draws cols = .error dups := by
  rw [duplicate_iff]
  intro hnd
  simp only [List.nodup_append, List.mem_append] at hnd
  obtain ⟨⟨⟨⟨-, -, h01⟩, -, h2⟩, -, h3⟩, -, h4⟩ := hnd
  have hcases : (i = 0 ∧ j = 1) ∨ (i = 0 ∧ j = 2) ∨ (i = 1 ∧ j = 2) ∨ (i = 0 ∧ j = 3) ∨
      (i = 1 ∧ j = 3) ∨ (i = 2 ∧ j = 3) ∨ (i = 0 ∧ j = 4) ∨ (i = 1 ∧ j = 4) ∨ (i = 2 ∧ j = 4) ∨
      (i = 3 ∧ j = 4) := by omega
  rcases hcases with ⟨rfl, rfl⟩ | ⟨rfl, rfl⟩ | ⟨rfl, rfl⟩ | ⟨rfl, rfl⟩ | ⟨rfl, rfl⟩ | ⟨rfl, rfl⟩ |
    ⟨rfl, rfl⟩ | ⟨rfl, rfl⟩ | ⟨rfl, rfl⟩ | ⟨rfl, rfl⟩ <;> simp only [Table.kind, mkTable] at hi hjn
  · exact h01 n hi n hjn rfl
  · exact h2 n (Or.inl hi) n hjn rfl
  · exact h2 n (Or.inr hi) n hjn rfl
  · exact h3 n (Or.inl (Or.inl hi)) n hjn rfl
  · exact h3 n (Or.inl (Or.inr hi)) n hjn rfl
  · exact h3 n (Or.inr hi) n hjn rfl
  · exact h4 n (Or.inl (Or.inl (Or.inl hi))) n hjn rfl
  · exact h4 n (Or.inl (Or.inl (Or.inr hi))) n hjn rfl
  · exact h4 n (Or.inl (Or.inr hi)) n hjn rfl
  · exact h4 n (Or.inr hi) n hjn rfl

/-- **…and only then**: when the columns of the table are distinct, a refusal always comes from a
name shared by two different kinds (repeating an element of one kind is not a clash). -/
theorem refused_only_if_two_kinds {α} (decls : List (Decl ν α)) (rvs draws cols : List ν)
    (hcols : cols.Nodup) (h : ∃ dups, prepare decls rvs draws cols = .error dups) :
    ∃ n i j, i < j ∧ j < 5 ∧ n ∈ (mkTable decls rvs draws cols).kind i ∧
      n ∈ (mkTable decls rvs draws cols).kind j := by
  rw [duplicate_iff] at h
  by_contra hno
  apply h
  have key : ∀ (i j : Nat), i < j → j < 5 → ∀ a ∈ (mkTable decls rvs draws cols).kind i,
      ∀ b ∈ (mkTable decls rvs draws cols).kind j, a ≠ b := by
    intro i j hij hj a ha b hb hab
    subst hab
    exact hno ⟨a, i, j, hij, hj, ha, hb⟩
  simp only [List.nodup_append, List.mem_append]
  refine ⟨⟨⟨⟨nodup_sortDedup _, nodup_sortDedup _, key 0 1 (by omega) (by omega)⟩,
    nodup_sortDedup _, ?_⟩, nodup_sortDedup _, ?_⟩, hcols, ?_⟩
  · rintro a (ha | ha)
    · exact key 0 2 (by omega) (by omega) a ha
    · exact key 1 2 (by omega) (by omega) a ha
  · rintro a ((ha | ha) | ha)
    · exact key 0 3 (by omega) (by omega) a ha
    · exact key 1 3 (by omega) (by omega) a ha
    · exact key 2 3 (by omega) (by omega) a ha
  · rintro a (((ha | ha) | ha) | ha)
    · exact key 0 4 (by omega) (by omega) a ha
    · exact key 1 4 (by omega) (by omega) a ha
    · exact key 2 4 (by omega) (by omega) a ha
    · exact key 3 4 (by omega) (by omega) a ha

/-! ### sequences of calls on one numbering -/

/-- the declarations reached by a sequence of calls are the starting ones rewritten by the
`change_init_values` calls of the sequence, and by nothing else -/
theorem runState_decls {α} [Inhabited α] (t : Table ν) (ops : List (Op ν α)) :
    ∀ s : St ν α, (runState t s ops).decls = declsAfter s.decls ops := by
  induction ops with
  | nil => intro s; rfl
  | cons o os ih =>
    intro s
    cases o <;> simp only [runState, declsAfter, ih] <;> simp only [step] <;> try rfl
    split <;> rfl

/-- **Fixed parameters keep exactly the value they were given**, whatever calls are made: no call
writes the vector of fixed values. -/
theorem seq_fixed_untouched {α} [Inhabited α] (t : Table ν) (ops : List (Op ν α)) :
    ∀ s : St ν α, (runState t s ops).fixedVec = s.fixedVec := by
  induction ops with
  | nil => intro s; rfl
  | cons o os ih =>
    intro s
    cases o <;> simp only [runState, ih] <;> simp only [step] <;> try rfl
    split <;> rfl

/-- **A dictionary overrides only the parameters it names — at every call.**  After any sequence
`pre` of calls on the same numbering (evaluations with other dictionaries, with vectors, changes of
starting values), an evaluation with dictionary `d` hands the engine, at the position of name `n`,
the value `d n` when `n` is named and otherwise the *current starting value* of `n`: nothing that
an earlier dictionary or vector supplied survives. -/
theorem seq_dict_by_name {α} [Inhabited α] (t : Table ν) (decls : List (Decl ν α))
    (pre : List (Op ν α)) (d : ν → Option α) (n : ν) (i : Nat) (hi : indexOf n t.free = some i)
    (dflt : α) :
    ∃ v f, (step t (runState t (initSt t decls) pre) (.evalDict d)).2 = some (v, f) ∧
      f = fixedValues t decls ∧
      v.getD i dflt =
        (d n).getD (((lookupLast (declsAfter decls pre) false n).map (·.init)).getD default) := by
  refine ⟨_, _, rfl, ?_, ?_⟩
  · rw [seq_fixed_untouched]; rfl
  · rw [runState_decls]
    exact freeValues_at t _ d n i hi dflt

/-- in particular the history of dictionaries and vectors is irrelevant: two states with the same
declarations give the same evaluation under a dictionary -/
theorem evalDict_forgets_history {α} [Inhabited α] (t : Table ν) (s s' : St ν α)
    (hd : s.decls = s'.decls) (hf : s.fixedVec = s'.fixedVec) (d : ν → Option α) :
    (step t s (.evalDict d)).2 = (step t s' (.evalDict d)).2 := by
  simp only [step, hd, hf]

/-! ### non-vacuity -/

example : sortDedup ["b2", "b10", "a", "b2"] = ["a", "b10", "b2"] := by decide
example : (prepare [(⟨"b", false, (1 : Int), none, none⟩ : Decl String Int), ⟨"b", true, 2, none, none⟩]
    [] [] ["x"]).toBool = false := by decide

-- a draw named like a column, with no parameter involved, is refused
example : (prepare ([⟨"b", false, (1 : Int), none, none⟩] : List (Decl String Int))
    [] ["x"] ["x", "y"]).toBool = false := by decide
example : "x" ∈ (mkTable ([⟨"b", false, (1 : Int), none, none⟩] : List (Decl String Int))
    [] ["x"] ["x", "y"]).kind 3 ∧ "x" ∈ (mkTable ([⟨"b", false, (1 : Int), none, none⟩] : List (Decl String Int))
    [] ["x"] ["x", "y"]).kind 4 := by decide
-- second call omits what the first one named: the starting value comes back
example : run (mkTable ([⟨"a", false, (1 : Int), none, none⟩, ⟨"b", false, 2, none, none⟩] : List (Decl String Int)) [] [] [])
    (initSt (mkTable ([⟨"a", false, (1 : Int), none, none⟩, ⟨"b", false, 2, none, none⟩] : List (Decl String Int)) [] [] [])
      [⟨"a", false, 1, none, none⟩, ⟨"b", false, 2, none, none⟩])
    [.evalDict (fun n => if n = "a" then some 7 else none), .evalDict (fun n => if n = "b" then some 9 else none)]
    = [some ([7, 2], []), some ([1, 9], [])] := by decide

end C03
