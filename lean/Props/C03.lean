/-
C03 — parameters are identified by name everywhere, never by position of appearance.
Property theorems only (lemmas in Proofs/IdManager, Proofs/Rename, Proofs/ResultsByName, Proofs/IdRename).

Models: Model/IdManager (numbering, vectors, bounds, dictionaries), Model/IdSeq (sequences of calls on one
numbering), Model/ResultsByName (RawResults / bioResults: estimates, bounds, standard errors, table of pairs,
labelled matrices, requests by name, draws for sensitivity analysis), Model/IdRename (rename_elementary,
fix_betas with prefix and suffix).
-/
import Model.Expr
import Model.IdManager
import Model.IdSeq
import Proofs.IdManager
import Proofs.Rename
import Model.ResultsByName
import Proofs.ResultsByName
import Model.IdRename
import Proofs.IdRename

open IdM Expr

namespace C03

variable {ν : Type} [LinearOrder ν]

/-- **Order of appearance is irrelevant.**  The list of free (or fixed) parameter names depends
only on the *set* of declared names: any reordering of the terms of a specification (parameters
met in a different order), and any repetition of a parameter, gives the same numbering. -/
theorem prepare_order_irrelevant (l l' : List ν) (h : ∀ a, a ∈ l ↔ a ∈ l') :
    sortDedup l = sortDedup l' :=
  sortDedup_ext l l' h

theorem prepare_perm (l l' : List ν) (h : l.Perm l') : sortDedup l = sortDedup l' :=
  sortDedup_perm l l' h

/-- the reported list is strictly increasing, without repetition, and contains exactly the
declared names -/
theorem names_sorted_exact (l : List ν) :
    (sortDedup l).Pairwise (· < ·) ∧ (sortDedup l).Nodup ∧ ∀ a, a ∈ sortDedup l ↔ a ∈ l :=
  ⟨pairwise_sortDedup l, nodup_sortDedup l, fun a => mem_sortDedup a l⟩

/-- **A name-to-value dictionary overrides only the parameters it names.**  The entry of the free
vector at the position of name `n` is the dictionary value when `n` is in the dictionary and the
starting value of `n` otherwise — whatever the position is. -/
theorem dict_by_name {α} [Inhabited α] (t : Table ν) (decls : List (Decl ν α)) (dict : ν → Option α)
    (n : ν) (i : Nat) (hi : indexOf n t.free = some i) (dflt : α) :
    (freeValues t decls dict).getD i dflt =
      (dict n).getD (((lookupLast decls false n).map (·.init)).getD default) :=
  freeValues_at t decls dict n i hi dflt

/-- **Fixed parameters keep exactly the value they were given**: their vector does not depend on
the dictionary at all, and the entry at the position of `n` is its declared value. -/
theorem fixed_untouched {α} [Inhabited α] (t : Table ν) (decls : List (Decl ν α))
    (n : ν) (i : Nat) (hi : indexOf n t.fixed = some i) (dflt : α) :
    (fixedValues t decls).getD i dflt = ((lookupLast decls true n).map (·.init)).getD default :=
  fixedValues_at t decls n i hi dflt

/-- **Bounds are attached to names**: the i-th bound pair is that of the i-th reported name. -/
theorem bounds_by_name {α} (t : Table ν) (decls : List (Decl ν α)) (n : ν) (i : Nat)
    (hi : indexOf n t.free = some i) :
    (bounds t decls).getD i (none, none) =
      match lookupLast decls false n with
      | some d => (d.lb, d.ub)
      | none => (none, none) :=
  bounds_at t decls n i hi

/-- **Renaming through any one-to-one map.**  Rename every declaration by an injective `ρ` and
the dictionary accordingly (`dict' (ρ n) = dict n`): the value at the position of `ρ n` in the
new free vector equals the value at the position of `n` in the old one — although the positions
themselves may be completely different (e.g. an order-reversing renaming). -/
theorem rename_values {α} [Inhabited α] {μ : Type} [LinearOrder μ] (ρ : ν → μ)
    (hρ : Function.Injective ρ) (decls : List (Decl ν α)) (t : Table ν) (t' : Table μ)
    (dict : ν → Option α) (dict' : μ → Option α) (hd : ∀ n, dict' (ρ n) = dict n)
    (n : ν) (i j : Nat) (hi : indexOf n t.free = some i) (hj : indexOf (ρ n) t'.free = some j)
    (dflt : α) :
    (freeValues t' (decls.map (Decl.rename ρ)) dict').getD j dflt =
      (freeValues t decls dict).getD i dflt := by
  rw [freeValues_at t' _ dict' (ρ n) j hj, freeValues_at t decls dict n i hi, hd,
      lookupLast_rename ρ hρ]
  cases lookupLast decls false n <;> rfl

/-- the renamed specification has exactly the renamed names as free parameters -/
theorem rename_names {μ : Type} [LinearOrder μ] (ρ : ν → μ) (l : List ν) (m : μ) :
    m ∈ sortDedup (l.map ρ) ↔ ∃ n ∈ l, ρ n = m := by
  rw [mem_sortDedup]; simp

/-- **The value of a formula depends on the valuation by name only**: renaming the parameters of
the formula by `ρ` and evaluating under an environment that gives `ρ n` the value of `n` changes
no value (mathematical and engine semantics). -/
theorem rename_eval {α} [NumOps α] (ρ : String → String) (d : Dag α) (env env' : Env α)
    (hb : ∀ m, env'.beta (ρ m) = env.beta m) (hv : env'.var = env.var) (k : Nat) :
    eval semMath (renameDag ρ d) env' k = eval semMath d env k ∧
    eval semEngine (renameDag ρ d) env' k = eval semEngine d env k :=
  ⟨evalN_rename semMath semMath_faithful ρ d env env' hb hv (k + 1) k,
   evalN_rename semEngine semEngine_faithful ρ d env env' hb hv (k + 1) k⟩

/-- **A name used for two different kinds of element is refused, and only then.**  `prepare`
returns an error exactly when the concatenation free ++ fixed ++ random variables ++ draws ++
columns contains a name twice; since each of the first four lists is duplicate-free by
construction, that means: one name in two categories, or a repeated column. -/
theorem duplicate_iff {α} (decls : List (Decl ν α)) (rvs draws cols : List ν) :
    (∃ dups, prepare decls rvs draws cols = .error dups) ↔
      ¬ (sortDedup ((decls.filter (!·.fixed)).map (·.name)) ++
         sortDedup ((decls.filter (·.fixed)).map (·.name)) ++
         sortDedup rvs ++ sortDedup draws ++ cols).Nodup := by
  unfold prepare
  simp only [Table.all]
  rw [← nodupB_iff]
  exact ite_error_iff _ _ _

/-- one name declared both free and fixed is a duplicate -/
theorem free_and_fixed_refused {α} (decls : List (Decl ν α)) (rvs draws cols : List ν) (n : ν)
    (h1 : ∃ d ∈ decls, d.name = n ∧ d.fixed = false) (h2 : ∃ d ∈ decls, d.name = n ∧ d.fixed = true) :
    ∃ dups, prepare decls rvs draws cols = .error dups := by
  rw [duplicate_iff]
  intro hnd
  have hfree : n ∈ sortDedup ((decls.filter (!·.fixed)).map (·.name)) := by
    rw [mem_sortDedup]
    obtain ⟨d, hd, hn, hf⟩ := h1
    exact List.mem_map.mpr ⟨d, List.mem_filter.mpr ⟨hd, by simp [hf]⟩, hn⟩
  have hfix : n ∈ sortDedup ((decls.filter (·.fixed)).map (·.name)) := by
    rw [mem_sortDedup]
    obtain ⟨d, hd, hn, hf⟩ := h2
    exact List.mem_map.mpr ⟨d, List.mem_filter.mpr ⟨hd, by simp [hf]⟩, hn⟩
  have h := (List.nodup_append.mp (List.nodup_append.mp (List.nodup_append.mp
    (List.nodup_append.mp hnd).1).1).1).2.2
  exact h n hfree n hfix rfl

/-- a parameter name equal to a column name is a duplicate -/
theorem beta_and_column_refused {α} (decls : List (Decl ν α)) (rvs draws cols : List ν) (n : ν)
    (h1 : ∃ d ∈ decls, d.name = n ∧ d.fixed = false) (h2 : n ∈ cols) :
    ∃ dups, prepare decls rvs draws cols = .error dups := by
  rw [duplicate_iff]
  intro hnd
  have hfree : n ∈ sortDedup ((decls.filter (!·.fixed)).map (·.name)) := by
    rw [mem_sortDedup]
    obtain ⟨d, hd, hn, hf⟩ := h1
    exact List.mem_map.mpr ⟨d, List.mem_filter.mpr ⟨hd, by simp [hf]⟩, hn⟩
  have h := (List.nodup_append.mp hnd).2.2
  exact h n (by simp [hfree]) n h2 rfl

/-- `beta_values_dict_to_list`: when it succeeds every free name is in the dictionary and entry i
is the dictionary value of the i-th reported name -/
theorem dict_to_list {α} (t : Table ν) (dict : ν → Option α) (l : List α)
    (h : dictToList t dict = some l) :
    l.length = t.free.length ∧ ∀ (i : Nat) (n : ν), t.free[i]? = some n → (l[i]?) = dict n :=
  mapM_spec dict t.free l h


/-! ### any two of the five kinds -/

/-- **Any two different kinds.**  A name that designates elements of two different kinds — whichever
two of: free parameter (0), fixed parameter (1), random variable of numerical integration (2), draw
(3), column of the database (4) — is refused.  No pair of kinds is privileged: in particular the
clashes that involve no parameter at all (random variable / draw, draw / column, random variable /
column) are refused like the others. -/
theorem two_kinds_refused {α} (decls : List (Decl ν α)) (rvs draws cols : List ν) (n : ν)
    (i j : Nat) (hij : i < j) (hj : j < 5)
    (hi : n ∈ (mkTable decls rvs draws cols).kind i) (hjn : n ∈ (mkTable decls rvs draws cols).kind j) :
    ∃ dups, prepare decls rvs draws cols = .error dups := by
  rw [duplicate_iff]
  intro hnd
  simp only [List.nodup_append, List.mem_append] at hnd
  obtain ⟨⟨⟨⟨-, -, h01⟩, -, h2⟩, -, h3⟩, -, h4⟩ := hnd
  have hcases : (i = 0 ∧ j = 1) ∨ (i = 0 ∧ j = 2) ∨ (i = 1 ∧ j = 2) ∨ (i = 0 ∧ j = 3) ∨
      (i = 1 ∧ j = 3) ∨ (i = 2 ∧ j = 3) ∨ (i = 0 ∧ j = 4) ∨ (i = 1 ∧ j = 4) ∨ (i = 2 ∧ j = 4) ∨
      (i = 3 ∧ j = 4) := by omega
  rcases hcases with ⟨rfl, rfl⟩ | ⟨rfl, rfl⟩ | ⟨rfl, rfl⟩ | ⟨rfl, rfl⟩ | ⟨rfl, rfl⟩ | ⟨rfl, rfl⟩ |
    ⟨rfl, rfl⟩ | ⟨rfl, rfl⟩ | ⟨rfl, rfl⟩ | ⟨rfl, rfl⟩ <;> simp only [Table.kind, mkTable] at hi hjn
  · exact h01 n hi n hjn rfl
  · exact h2 n (Or.inl hi) n hjn rfl
  · exact h2 n (Or.inr hi) n hjn rfl
  · exact h3 n (Or.inl (Or.inl hi)) n hjn rfl
  · exact h3 n (Or.inl (Or.inr hi)) n hjn rfl
  · exact h3 n (Or.inr hi) n hjn rfl
  · exact h4 n (Or.inl (Or.inl (Or.inl hi))) n hjn rfl
  · exact h4 n (Or.inl (Or.inl (Or.inr hi))) n hjn rfl
  · exact h4 n (Or.inl (Or.inr hi)) n hjn rfl
  · exact h4 n (Or.inr hi) n hjn rfl

/-- **…and only then**: when the columns of the table are distinct, a refusal always comes from a
name shared by two different kinds (repeating an element of one kind is not a clash). -/
theorem refused_only_if_two_kinds {α} (decls : List (Decl ν α)) (rvs draws cols : List ν)
    (hcols : cols.Nodup) (h : ∃ dups, prepare decls rvs draws cols = .error dups) :
    ∃ n i j, i < j ∧ j < 5 ∧ n ∈ (mkTable decls rvs draws cols).kind i ∧
      n ∈ (mkTable decls rvs draws cols).kind j := by
  rw [duplicate_iff] at h
  by_contra hno
  apply h
  have key : ∀ (i j : Nat), i < j → j < 5 → ∀ a ∈ (mkTable decls rvs draws cols).kind i,
      ∀ b ∈ (mkTable decls rvs draws cols).kind j, a ≠ b := by
    intro i j hij hj a ha b hb hab
    subst hab
    exact hno ⟨a, i, j, hij, hj, ha, hb⟩
  simp only [List.nodup_append, List.mem_append]
  refine ⟨⟨⟨⟨nodup_sortDedup _, nodup_sortDedup _, key 0 1 (by omega) (by omega)⟩,
    nodup_sortDedup _, ?_⟩, nodup_sortDedup _, ?_⟩, hcols, ?_⟩
  · rintro a (ha | ha)
    · exact key 0 2 (by omega) (by omega) a ha
    · exact key 1 2 (by omega) (by omega) a ha
  · rintro a ((ha | ha) | ha)
    · exact key 0 3 (by omega) (by omega) a ha
    · exact key 1 3 (by omega) (by omega) a ha
    · exact key 2 3 (by omega) (by omega) a ha
  · rintro a (((ha | ha) | ha) | ha)
    · exact key 0 4 (by omega) (by omega) a ha
    · exact key 1 4 (by omega) (by omega) a ha
    · exact key 2 4 (by omega) (by omega) a ha
    · exact key 3 4 (by omega) (by omega) a ha

/-! ### sequences of calls on one numbering -/

/-- the declarations reached by a sequence of calls are the starting ones rewritten by the
`change_init_values` calls of the sequence, and by nothing else -/
theorem runState_decls {α} [Inhabited α] (t : Table ν) (ops : List (Op ν α)) :
    ∀ s : St ν α, (runState t s ops).decls = declsAfter s.decls ops := by
  induction ops with
  | nil => intro s; rfl
  | cons o os ih =>
    intro s
    cases o <;> simp only [runState, declsAfter, ih] <;> simp only [step] <;> try rfl
    split <;> rfl

/-- **Fixed parameters keep exactly the value they were given**, whatever calls are made: no call
writes the vector of fixed values. -/
theorem seq_fixed_untouched {α} [Inhabited α] (t : Table ν) (ops : List (Op ν α)) :
    ∀ s : St ν α, (runState t s ops).fixedVec = s.fixedVec := by
  induction ops with
  | nil => intro s; rfl
  | cons o os ih =>
    intro s
    cases o <;> simp only [runState, ih] <;> simp only [step] <;> try rfl
    split <;> rfl

/-- **A dictionary overrides only the parameters it names — at every call.**  After any sequence
`pre` of calls on the same numbering (evaluations with other dictionaries, with vectors, changes of
starting values), an evaluation with dictionary `d` hands the engine, at the position of name `n`,
the value `d n` when `n` is named and otherwise the *current starting value* of `n`: nothing that
an earlier dictionary or vector supplied survives. -/
theorem seq_dict_by_name {α} [Inhabited α] (t : Table ν) (decls : List (Decl ν α))
    (pre : List (Op ν α)) (d : ν → Option α) (n : ν) (i : Nat) (hi : indexOf n t.free = some i)
    (dflt : α) :
    ∃ v f, (step t (runState t (initSt t decls) pre) (.evalDict d)).2 = some (v, f) ∧
      f = fixedValues t decls ∧
      v.getD i dflt =
        (d n).getD (((lookupLast (declsAfter decls pre) false n).map (·.init)).getD default) := by
  refine ⟨_, _, rfl, ?_, ?_⟩
  · rw [seq_fixed_untouched]; rfl
  · rw [runState_decls]
    exact freeValues_at t _ d n i hi dflt

/-- in particular the history of dictionaries and vectors is irrelevant: two states with the same
declarations give the same evaluation under a dictionary -/
theorem evalDict_forgets_history {α} [Inhabited α] (t : Table ν) (s s' : St ν α)
    (hd : s.decls = s'.decls) (hf : s.fixedVec = s'.fixedVec) (d : ν → Option α) :
    (step t s (.evalDict d)).2 = (step t s' (.evalDict d)).2 := by
  simp only [step, hd, hf]

/-! ### results: every estimate, bound and statistic is attached to the corresponding name -/

theorem prepare_ok_free {α} (decls : List (Decl ν α)) (rvs draws cols : List ν) (t : Table ν)
    (ht : prepare decls rvs draws cols = .ok t) :
    t.free = sortDedup ((decls.filter (!·.fixed)).map (·.name)) := by
  unfold prepare at ht
  simp only at ht
  split at ht
  · cases ht; rfl
  · cases ht

/-- **Estimates paired with names and bounds** (`RawResults.__init__`).  The k-th result object bears
the k-th reported name, the k-th value of the vector returned by the optimiser and the bounds
*declared for that name* — whatever the order in which the parameters were met in the formula. -/
theorem results_pairing {α} (decls : List (Decl ν α)) (rvs draws cols : List ν) (t : Table ν)
    (ht : prepare decls rvs draws cols = .ok t) (x : List α) (bs : List (RBeta ν α))
    (h : rawBetas t decls x = some bs) (k : Nat) (v : α) (n : ν)
    (hx : x[k]? = some v) (hn : t.free[k]? = some n) :
    ∃ b, bs[k]? = some b ∧ b.name = n ∧ b.value = v ∧
      (b.lb, b.ub) = match lookupLast decls false n with
                     | some d => (d.lb, d.ub)
                     | none => (none, none) := by
  obtain ⟨-, hs⟩ := rawBetas_spec t decls x bs h
  obtain ⟨bd, hbd, hb⟩ := hs k v n hx hn
  have hnd : t.free.Nodup := by rw [prepare_ok_free decls rvs draws cols t ht]; exact nodup_sortDedup _
  have hi := indexOf_of_get t.free hnd k n hn
  refine ⟨_, hb, rfl, rfl, ?_⟩
  simp only [boundsOn, hi, Option.map_some, Option.some.injEq] at hbd
  have hba := bounds_at t decls n k hi
  rw [hbd] at hba
  exact hba

/-- **Standard errors and t statistics are attached to names** (`_calculate_stats`): the result object
that bears name `n` receives the statistics of the diagonal entry *designated by `n`* in each
matrix, and keeps its name, value and bounds. -/
theorem stats_by_name {α} [NumOps α] (big : α) (V R : List (List α)) (B : Option (List (List α)))
    (bs bs' : List (RBeta ν α)) (h : withStats big V R B bs = some bs')
    (hnd : (bs.map (·.name)).Nodup) (n : ν) (b : RBeta ν α) (hb : b ∈ bs) (hbn : b.name = n) :
    ∃ b' v r, b' ∈ bs' ∧ b'.name = n ∧ b'.value = b.value ∧ b'.lb = b.lb ∧ b'.ub = b.ub ∧
      byName (bs.map (·.name)) V n n = some v ∧ b'.stdErr = some (diagStat big v) ∧
        b'.tTest = some (tOf big b.value (diagStat big v)) ∧
      byName (bs.map (·.name)) R n n = some r ∧ b'.robStdErr = some (diagStat big r) ∧
        b'.robTTest = some (tOf big b.value (diagStat big r)) ∧
      ∀ Bm, B = some Bm → ∃ c, byName (bs.map (·.name)) Bm n n = some c ∧
        b'.bootStdErr = some (diagStat big c) ∧ b'.bootTTest = some (tOf big b.value (diagStat big c)) := by
  obtain ⟨i, hi⟩ := List.mem_iff_getElem?.mp hb
  obtain ⟨-, hs⟩ := withStats_spec big V R B bs bs' h
  obtain ⟨b', v, r, h1, h2, h3, h4, h5, h6, h7, h8, h9, h10, h11, h12, -⟩ := hs i b hi
  have hidx : indexOf n (bs.map (·.name)) = some i :=
    indexOf_of_get _ hnd i n (by rw [List.getElem?_map, hi]; simp [hbn])
  refine ⟨b', v, r, List.mem_of_getElem? h1, h2.trans hbn, h3, h4, h5, ?_, h7, h8, ?_, h10, h11, ?_⟩
  · rw [byName_at _ _ _ _ _ _ hidx hidx]; exact h6
  · rw [byName_at _ _ _ _ _ _ hidx hidx]; exact h9
  · intro Bm hB
    obtain ⟨c, hc1, hc2, hc3⟩ := h12 Bm hB
    exact ⟨c, by rw [byName_at _ _ _ _ _ _ hidx hidx]; exact hc1, hc2, hc3⟩

/-- **Values requested by name** (`get_beta_values(my_betas)`): for ANY request — a subset, any
order, repetitions — the answer lists the requested names in the order of the request, and the value
reported under a name is the value of the result object that bears this name. -/
theorem beta_values_by_name {α} (bs : List (RBeta ν α)) (req : Option (List ν)) (l : List (ν × α))
    (h : getBetaValues (bs.map (·.name)) bs req = some l) :
    l.map (·.1) = req.getD (bs.map (·.name)) ∧
    ∀ p ∈ l, ∃ b ∈ bs, b.name = p.1 ∧ b.value = p.2 := by
  obtain ⟨h1, h2⟩ := getBetaValues_spec _ bs req l h
  refine ⟨h1, ?_⟩
  intro p hp
  obtain ⟨i, b, hi, hb, hv⟩ := h2 p hp
  have := indexOf_get p.1 _ i hi
  rw [List.getElem?_map, hb] at this
  exact ⟨b, List.mem_of_getElem? hb, by simpa using this, hv⟩

/-- **Draws for sensitivity analysis are reported under the right names**
(`get_betas_for_sensitivity_analysis(my_betas)`): for ANY request, the dictionary made from row `r`
of the sample (bootstrap estimates or simulated draws, columns in the order of the reported names)
has the requested names as keys, in the order of the request, and the value under a name is the
entry of the row *at the position of that name* — not at the position of the name in the request,
nor in the sorted request. -/
theorem sensitivity_by_name {α} (names req : List ν) (M : List (List α)) (out : List (List (ν × α)))
    (h : sens names req M = some out) :
    out.length = M.length ∧
    ∀ (r : Nat) (row : List α), M[r]? = some row →
      ∃ o, out[r]? = some o ∧ o.map (·.1) = req ∧
        ∀ p ∈ o, ∃ i, indexOf p.1 names = some i ∧ row[i]? = some p.2 :=
  sens_spec names req M out h

/-- …hence the order of the request is irrelevant: two requests report the same value under the same
name, draw by draw. -/
theorem sensitivity_request_order_irrelevant {α} (names req req' : List ν) (M : List (List α))
    (out out' : List (List (ν × α))) (h : sens names req M = some out) (h' : sens names req' M = some out')
    (r : Nat) (o o' : List (ν × α)) (ho : out[r]? = some o) (ho' : out'[r]? = some o')
    (n : ν) (v v' : α) (hv : (n, v) ∈ o) (hv' : (n, v') ∈ o') : v = v' := by
  obtain ⟨hl, hs⟩ := sens_spec names req M out h
  obtain ⟨-, hs'⟩ := sens_spec names req' M out' h'
  have hr : r < M.length := hl ▸ (List.getElem?_eq_some_iff.mp ho).1
  obtain ⟨o1, e1, -, p1⟩ := hs r M[r] (List.getElem?_eq_getElem hr)
  obtain ⟨o2, e2, -, p2⟩ := hs' r M[r] (List.getElem?_eq_getElem hr)
  rw [ho] at e1; cases e1
  rw [ho'] at e2; cases e2
  obtain ⟨i, hi, hri⟩ := p1 (n, v) hv
  obtain ⟨j, hj, hrj⟩ := p2 (n, v') hv'
  simp only at hi hj hri hrj
  rw [hi] at hj; cases hj
  rw [hri] at hrj; exact Option.some.inj hrj

/-- **Statistics of pairs are attached to the two names** (`secondOrderTable`, read by
`get_correlation_results` and `get_f12`): every line is keyed by two *different* reported names and
holds, for each matrix, the entry designated by these two names and the test computed at their two
positions; every pair of reported names has its line. -/
theorem second_order_by_name {α} [NumOps α] (big : α) (names : List ν) (hnd : names.Nodup)
    (x : List α) (Ms : List (List (List α))) (tab : List ((ν × ν) × List (PairStat α)))
    (h : secondOrder big names x Ms = some tab) :
    (∀ e ∈ tab, e.1.1 ≠ e.1.2 ∧ e.2.length = Ms.length ∧
        ∀ (m : Nat) (M : List (List α)), Ms[m]? = some M →
          ∃ st i j, e.2[m]? = some st ∧ byName names M e.1.1 e.1.2 = some st.cov ∧
            indexOf e.1.1 names = some i ∧ indexOf e.1.2 names = some j ∧
            calcTest big x M i j = some st.test) ∧
    (∀ i j, j < i → i < x.length → ∃ e ∈ tab, names[i]? = some e.1.1 ∧ names[j]? = some e.1.2) := by
  obtain ⟨h1, h2⟩ := secondOrder_spec big names x Ms tab h
  refine ⟨?_, h2⟩
  intro e he
  obtain ⟨i, j, hji, -, hi, hj, hl, hm⟩ := h1 e he
  have hii := indexOf_of_get names hnd i _ hi
  have hjj := indexOf_of_get names hnd j _ hj
  refine ⟨?_, hl, ?_⟩
  · intro heq
    rw [heq, hjj] at hii
    cases hii
    omega
  · intro m M hM
    obtain ⟨st, hs1, hs2, hs3⟩ := hm m M hM
    exact ⟨st, i, j, hs1, by rw [byName_at _ _ _ _ _ _ hii hjj]; exact hs2, hii, hjj, hs3⟩

/-- `get_correlation_results(subset)` keeps exactly the lines whose two names are in the subset -/
theorem correlation_subset {β} (tab : List ((ν × ν) × β)) (s : List ν) (e : (ν × ν) × β) :
    e ∈ corrSubset tab (some s) ↔ e ∈ tab ∧ e.1.1 ∈ s ∧ e.1.2 ∈ s := by
  simp [corrSubset, List.mem_filter]

/-- **Labelled matrices** (`get_var_covar`, `get_robust_var_covar`, `get_bootstrap_var_covar`): the
cell labelled (a, b) holds the entry designated by the names a and b, and every pair of names has
its cell. -/
theorem varcovar_by_name {α} (names : List ν) (hnd : names.Nodup) (M : List (List α))
    (fr : List ((ν × ν) × α)) (h : frame names M = some fr) :
    (∀ e ∈ fr, byName names M e.1.1 e.1.2 = some e.2) ∧
    (∀ a b, a ∈ names → b ∈ names → ∃ v, ((a, b), v) ∈ fr) := by
  obtain ⟨h1, h2⟩ := frame_spec names M fr h
  constructor
  · intro e he
    obtain ⟨i, j, hi, hj, hm⟩ := h1 e he
    rw [byName_at _ _ _ _ _ _ (indexOf_of_get names hnd i _ hi) (indexOf_of_get names hnd j _ hj)]
    exact hm
  · intro a b ha hb
    obtain ⟨i, hi⟩ := List.mem_iff_getElem?.mp ha
    obtain ⟨j, hj⟩ := List.mem_iff_getElem?.mp hb
    obtain ⟨v, hv, -⟩ := h2 i j a b hi hj
    exact ⟨v, hv⟩

/-- **Renaming / re-laying out.**  If the parameters are renamed by `ρ` (so that their positions in
the reported list change in any way) and the matrix handed to the results is laid out accordingly
(the entry at the positions of `ρ a`, `ρ b` is the entry that was at the positions of `a`, `b`), every
by-name entry — hence, by the theorems above, every labelled cell, pair statistic and standard
error — is the one of the corresponding original names. -/
theorem byName_rename {α} {μ : Type} [LinearOrder μ] (ρ : ν → μ) (names : List ν) (names' : List μ)
    (M M' : List (List α))
    (hmem : ∀ a, (indexOf a names).isSome = (indexOf (ρ a) names').isSome)
    (hM : ∀ a b i j i' j', indexOf a names = some i → indexOf b names = some j →
      indexOf (ρ a) names' = some i' → indexOf (ρ b) names' = some j' → mget M' i' j' = mget M i j)
    (a b : ν) : byName names' M' (ρ a) (ρ b) = byName names M a b := by
  have ha := hmem a
  have hb := hmem b
  unfold byName
  cases hi : indexOf a names <;> cases hi' : indexOf (ρ a) names' <;> simp [hi, hi'] at ha ⊢
  cases hj : indexOf b names <;> cases hj' : indexOf (ρ b) names' <;> simp [hj, hj'] at hb ⊢
  exact hM a b _ _ _ _ hi hj hi' hj'


/-! ### the library's own renamings: `rename_elementary`, `fix_betas(prefix, suffix)` -/

/-- **`rename_elementary` on all parameters is a renaming in the sense of the property**: with an
injective new-name map (prefix/suffix), the value found at the position of the new name of `n` is the
value that was found at the position of `n` — although adding a suffix may reverse the order of two
names (`b1` < `b10` but `b10_x` < `b1_x`). -/
theorem rename_elementary_values {α} [Inhabited α] (f : ν → ν) (hf : Function.Injective f)
    (names : List ν) (decls : List (Decl ν α)) (hall : ∀ d ∈ decls, d.name ∈ names)
    (t t' : Table ν) (dict dict' : ν → Option α) (hd : ∀ n, dict' (f n) = dict n)
    (n : ν) (i j : Nat) (hi : indexOf n t.free = some i) (hj : indexOf (f n) t'.free = some j) (dflt : α) :
    (freeValues t' (renameElem names f decls) dict').getD j dflt = (freeValues t decls dict).getD i dflt := by
  rw [renameElem_all names f decls hall]
  exact rename_values f hf decls t t' dict dict' hd n i j hi hj dflt

/-- parameters that `rename_elementary` does not name keep their declaration -/
theorem rename_elementary_other {α} (names : List ν) (f : ν → ν) (decls : List (Decl ν α)) (d : Decl ν α)
    (hd : d ∈ decls) (hn : d.name ∉ names) : d ∈ renameElem names f decls :=
  renameElem_other names f decls d hd hn

/-- **`fix_betas` gives a fixed parameter exactly the value of the dictionary, under its new name.**
After `fix_betas(dict, prefix, suffix)` the vector of fixed values holds, at the position of the new
name of `n`, the dictionary value of `n` — provided the new name is not already taken by a parameter
the dictionary does not name, and parameters sharing the new name share the value. -/
theorem fix_betas_value {α} [Inhabited α] (decls : List (Decl ν α)) (dict : ν → Option α) (f : ν → ν)
    (t : Table ν) (n : ν) (v : α) (i : Nat) (hn : ∃ d ∈ decls, d.name = n) (hv : dict n = some v)
    (hcoll : ∀ d ∈ decls, f d.name = f n → dict d.name ≠ none → dict d.name = some v)
    (hfresh : ∀ d ∈ decls, dict d.name = none → d.name ≠ f n)
    (hi : indexOf (f n) t.fixed = some i) (dflt : α) :
    (fixedValues t (fixBetasRen decls dict f)).getD i dflt = v := by
  rw [fixedValues_at t _ (f n) i hi dflt]
  cases hl : lookupLast (fixBetasRen decls dict f) true (f n) with
  | some d' =>
    obtain ⟨hmem, hname, -⟩ := lookupLast_some _ _ _ _ hl
    obtain ⟨d, hd, (⟨h0, he⟩ | ⟨v', h1, he⟩)⟩ := (fixBetasRen_mem decls dict f d').mp hmem
    · rw [he] at hname
      exact absurd hname (hfresh d hd h0)
    · rw [he] at hname
      have := hcoll d hd hname (by simp [h1])
      rw [h1] at this
      cases this
      rw [he]
      rfl
  | none =>
    exfalso
    obtain ⟨d, hd, hdn⟩ := hn
    refine lookupLast_none _ _ _ hl { d with init := v, fixed := true, name := f d.name } ?_ ⟨by simp [hdn], rfl⟩
    exact (fixBetasRen_mem decls dict f _).mpr ⟨d, hd, Or.inr ⟨v, by rw [hdn]; exact hv, rfl⟩⟩

/-- …and touches nothing else: a parameter the dictionary does not name keeps its declaration
(name, status, value, bounds). -/
theorem fix_betas_other {α} (decls : List (Decl ν α)) (dict : ν → Option α) (f : ν → ν) (d : Decl ν α)
    (hd : d ∈ decls) (hn : dict d.name = none) : d ∈ fixBetasRen decls dict f :=
  (fixBetasRen_mem decls dict f d).mpr ⟨d, hd, Or.inl ⟨hn, rfl⟩⟩

/-- without prefix and suffix this is the plain `fix_betas` -/
theorem fix_betas_no_affix {α} (decls : List (Decl ν α)) (dict : ν → Option α) :
    fixBetasRen decls dict id = fixBetas decls dict := by
  unfold fixBetasRen fixBetas
  apply List.map_congr_left
  intro d _
  cases dict d.name <;> rfl


/-! ### non-vacuity -/

example : sortDedup ["b2", "b10", "a", "b2"] = ["a", "b10", "b2"] := by decide
example : (prepare [(⟨"b", false, (1 : Int), none, none⟩ : Decl String Int), ⟨"b", true, 2, none, none⟩]
    [] [] ["x"]).toBool = false := by decide

-- a draw named like a column, with no parameter involved, is refused
example : (prepare ([⟨"b", false, (1 : Int), none, none⟩] : List (Decl String Int))
    [] ["x"] ["x", "y"]).toBool = false := by decide
example : "x" ∈ (mkTable ([⟨"b", false, (1 : Int), none, none⟩] : List (Decl String Int))
    [] ["x"] ["x", "y"]).kind 3 ∧ "x" ∈ (mkTable ([⟨"b", false, (1 : Int), none, none⟩] : List (Decl String Int))
    [] ["x"] ["x", "y"]).kind 4 := by decide
-- second call omits what the first one named: the starting value comes back
example : run (mkTable ([⟨"a", false, (1 : Int), none, none⟩, ⟨"b", false, 2, none, none⟩] : List (Decl String Int)) [] [] [])
    (initSt (mkTable ([⟨"a", false, (1 : Int), none, none⟩, ⟨"b", false, 2, none, none⟩] : List (Decl String Int)) [] [] [])
      [⟨"a", false, 1, none, none⟩, ⟨"b", false, 2, none, none⟩])
    [.evalDict (fun n => if n = "a" then some 7 else none), .evalDict (fun n => if n = "b" then some 9 else none)]
    = [some ([7, 2], []), some ([1, 9], [])] := by decide

-- results: appearance order b2, b10, a(fixed); reported order b10, b2; the optimiser's vector [7, 9]
example : (rawBetas (mkTable ([⟨"b2", false, (1 : Int), some (-2), none⟩, ⟨"b10", false, 2, none, some 3⟩,
      ⟨"a", true, 5, none, none⟩] : List (Decl String Int)) [] [] ["x"])
    [⟨"b2", false, 1, some (-2), none⟩, ⟨"b10", false, 2, none, some 3⟩, ⟨"a", true, 5, none, none⟩] [7, 9]).map
      (·.map fun b => (b.name, b.value, b.lb, b.ub))
    = some [("b10", 7, none, some 3), ("b2", 9, some (-2), none)] := by decide
-- a request in the order of appearance: the draws of b2 are reported under b2
example : sens ["b10", "b2", "c"] ["b2", "b10"] [[(1 : Int), 2, 3], [4, 5, 6]]
    = some [[("b2", 2), ("b10", 1)], [("b2", 5), ("b10", 4)]] := by decide
example : getBetaValues ["b10", "b2"] ([⟨"b10", (7 : Int), none, none, none, none, none, none, none, none⟩,
    ⟨"b2", 9, none, none, none, none, none, none, none, none⟩] : List (RBeta String Int)) (some ["b2", "b10", "b2"])
    = some [("b2", 9), ("b10", 7), ("b2", 9)] := by decide
example : frame ["b10", "b2"] [[(1 : Int), 2], [3, 4]]
    = some [(("b10", "b10"), 1), (("b10", "b2"), 2), (("b2", "b10"), 3), (("b2", "b2"), 4)] := by decide
example : byName ["b10", "b2"] [[(1 : Int), 2], [3, 4]] "b2" "b10" = some 3 := by decide
example : corrSubset [((("b2", "b10") : String × String), (1 : Int)), (("c", "b10"), 2)] (some ["b10", "b2"])
    = [(("b2", "b10"), 1)] := by decide
example : (withStats (ν := String) (1e308 : Float) [[4.0, 0.0], [0.0, 9.0]] [[1.0, 0.0], [0.0, 1.0]] none
    [⟨"b10", 7.0, none, none, none, none, none, none, none, none⟩,
     ⟨"b2", 9.0, none, none, none, none, none, none, none, none⟩]).isSome = true := by rfl
example : ((secondOrder (1e308 : Float) ["b10", "b2", "c"] [1.0, 2.0, 3.0]
    [[[4.0, 0.0, 0.0], [0.0, 9.0, 0.0], [0.0, 0.0, 1.0]]]).map (·.map (·.1)))
    = some [("b2", "b10"), ("c", "b10"), ("c", "b2")] := by rfl

-- a suffix reverses the order of b1 and b10; fix_betas renames what it fixes
example : sortDedup (["b1", "b10"].map (affix none (some "_x"))) = ["b10_x", "b1_x"] := by decide
example : (fixBetasRen ([⟨"b2", false, (1 : Int), none, none⟩, ⟨"a", false, 2, none, none⟩] : List (Decl String Int))
    (fun n => if n = "b2" then some 7 else none) (affix (some "fix_") none)).map (fun d => (d.name, d.fixed, d.init))
    = [("fix_b2", true, 7), ("a", false, 2)] := by decide

end C03
