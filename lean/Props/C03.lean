/-
C03 — parameters are identified by name everywhere, never by position of appearance.
Property theorems only (lemmas in Proofs/IdManager, Proofs/Rename).
-/
import Model.Expr
import Model.IdManager
import Proofs.IdManager
import Proofs.Rename

open IdM Expr

namespace C03

variable {ν : Type} [LinearOrder ν]

/-- **Order of appearance is irrelevant.**  The list of free (or fixed) parameter names depends
only on the *set* of declared names: any reordering of the terms of a specification (parameters
met in a different order), and any repetition of a parameter, gives the same numbering. -/
theorem prepare_order_irrelevant (l l' : List ν) (h : ∀ a, a ∈ l ↔ a ∈ l') :
    sortDedup l = sortDedup l' :=
  sortDedup_ext l l' h

theorem prepare_perm (l l' : List ν) (h : l.Perm l') : sortDedup l = sortDedup l' :=
  sortDedup_perm l l' h

/-- the reported list is strictly increasing, without repetition, and contains exactly the
declared names -/
theorem names_sorted_exact (l : List ν) :
    (sortDedup l).Pairwise (· < ·) ∧ (sortDedup l).Nodup ∧ ∀ a, a ∈ sortDedup l ↔ a ∈ l :=
  ⟨pairwise_sortDedup l, nodup_sortDedup l, fun a => mem_sortDedup a l⟩

/-- **A name-to-value dictionary overrides only the parameters it names.**  The entry of the free
vector at the position of name `n` is the dictionary value when `n` is in the dictionary and the
starting value of `n` otherwise — whatever the position is. -/
theorem dict_by_name {α} [Inhabited α] (t : Table ν) (decls : List (Decl ν α)) (dict : ν → Option α)
    (n : ν) (i : Nat) (hi : indexOf n t.free = some i) (dflt : α) :
    (freeValues t decls dict).getD i dflt =
      (dict n).getD (((lookupLast decls false n).map (·.init)).getD default) :=
  freeValues_at t decls dict n i hi dflt

/-- **Fixed parameters keep exactly the value they were given**: their vector does not depend on
the dictionary at all, and the entry at the position of `n` is its declared value. -/
theorem fixed_untouched {α} [Inhabited α] (t : Table ν) (decls : List (Decl ν α))
    (n : ν) (i : Nat) (hi : indexOf n t.fixed = some i) (dflt : α) :
    (fixedValues t decls).getD i dflt = ((lookupLast decls true n).map (·.init)).getD default :=
  fixedValues_at t decls n i hi dflt

/-- **Bounds are attached to names**: the i-th bound pair is that of the i-th reported name. -/
theorem bounds_by_name {α} (t : Table ν) (decls : List (Decl ν α)) (n : ν) (i : Nat)
    (hi : indexOf n t.free = some i) :
    (bounds t decls).getD i (none, none) =
      match lookupLast decls false n with
      | some d => (d.lb, d.ub)
      | none => (none, none) :=
  bounds_at t decls n i hi

/-- **Renaming through any one-to-one map.**  Rename every declaration by an injective `ρ` and
the dictionary accordingly (`dict' (ρ n) = dict n`): the value at the position of `ρ n` in the
new free vector equals the value at the position of `n` in the old one — although the positions
themselves may be completely different (e.g. an order-reversing renaming). -/
theorem rename_values {α} [Inhabited α] {μ : Type} [LinearOrder μ] (ρ : ν → μ)
    (hρ : Function.Injective ρ) (decls : List (Decl ν α)) (t : Table ν) (t' : Table μ)
    (dict : ν → Option α) (dict' : μ → Option α) (hd : ∀ n, dict' (ρ n) = dict n)
    (n : ν) (i j : Nat) (hi : indexOf n t.free = some i) (hj : indexOf (ρ n) t'.free = some j)
    (dflt : α) :
    (freeValues t' (decls.map (Decl.rename ρ)) dict').getD j dflt =
      (freeValues t decls dict).getD i dflt := by
  rw [freeValues_at t' _ dict' (ρ n) j hj, freeValues_at t decls dict n i hi, hd,
      lookupLast_rename ρ hρ]
  cases lookupLast decls false n <;> rfl

/-- the renamed specification has exactly the renamed names as free parameters -/
theorem rename_names {μ : Type} [LinearOrder μ] (ρ : ν → μ) (l : List ν) (m : μ) :
    m ∈ sortDedup (l.map ρ) ↔ ∃ n ∈ l, ρ n = m := by
  rw [mem_sortDedup]; simp

/-- **The value of a formula depends on the valuation by name only**: renaming the parameters of
the formula by `ρ` and evaluating under an environment that gives `ρ n` the value of `n` changes
no value (mathematical and engine semantics). -/
theorem rename_eval {α} [NumOps α] (ρ : String → String) (d : Dag α) (env env' : Env α)
    (hb : ∀ m, env'.beta (ρ m) = env.beta m) (hv : env'.var = env.var) (k : Nat) :
    eval semMath (renameDag ρ d) env' k = eval semMath d env k ∧
    eval semEngine (renameDag ρ d) env' k = eval semEngine d env k :=
  ⟨evalN_rename semMath semMath_faithful ρ d env env' hb hv (k + 1) k,
   evalN_rename semEngine semEngine_faithful ρ d env env' hb hv (k + 1) k⟩

/-- **A name used for two different kinds of element is refused, and only then.**  `prepare`
returns an error exactly when the concatenation free ++ fixed ++ random variables ++ draws ++
columns contains a name twice; since each of the first four lists is duplicate-free by
construction, that means: one name in two categories, or a repeated column. -/
theorem duplicate_iff {α} (decls : List (Decl ν α)) (rvs draws cols : List ν) :
    (∃ dups, prepare decls rvs draws cols = .error dups) ↔
      ¬ (sortDedup ((decls.filter (!·.fixed)).map (·.name)) ++
         sortDedup ((decls.filter (·.fixed)).map (·.name)) ++
         sortDedup rvs ++ sortDedup draws ++ cols).Nodup := by
  unfold prepare
  simp only [Table.all]
  rw [← nodupB_iff]
  exact ite_error_iff _ _ _

/-- one name declared both free and fixed is a duplicate -/
theorem free_and_fixed_refused {α} (decls : List (Decl ν α)) (rvs draws cols : List ν) (n : ν)
    (h1 : ∃ d ∈ decls, d.name = n ∧ d.fixed = false) (h2 : ∃ d ∈ decls, d.name = n ∧ d.fixed = true) :
    ∃ dups, prepare decls rvs draws cols = .error dups := by
  rw [duplicate_iff]
  intro hnd
  have hfree : n ∈ sortDedup ((decls.filter (!·.fixed)).map (·.name)) := by
    rw [mem_sortDedup]
    obtain ⟨d, hd, hn, hf⟩ := h1
    exact List.mem_map.mpr ⟨d, List.mem_filter.mpr ⟨hd, by simp [hf]⟩, hn⟩
  have hfix : n ∈ sortDedup ((decls.filter (·.fixed)).map (·.name)) := by
    rw [mem_sortDedup]
    obtain ⟨d, hd, hn, hf⟩ := h2
    exact List.mem_map.mpr ⟨d, List.mem_filter.mpr ⟨hd, by simp [hf]⟩, hn⟩
  have h := (List.nodup_append.mp (List.nodup_append.mp (List.nodup_append.mp
    (List.nodup_append.mp hnd).1).1).1).2.2
  exact h n hfree n hfix rfl

/-- a parameter name equal to a column name is a duplicate -/
theorem beta_and_column_refused {α} (decls : List (Decl ν α)) (rvs draws cols : List ν) (n : ν)
    (h1 : ∃ d ∈ decls, d.name = n ∧ d.fixed = false) (h2 : n ∈ cols) :
    ∃ dups, prepare decls rvs draws cols = .error dups := by
  rw [duplicate_iff]
  intro hnd
  have hfree : n ∈ sortDedup ((decls.filter (!·.fixed)).map (·.name)) := by
    rw [mem_sortDedup]
    obtain ⟨d, hd, hn, hf⟩ := h1
    exact List.mem_map.mpr ⟨d, List.mem_filter.mpr ⟨hd, by simp [hf]⟩, hn⟩
  have h := (List.nodup_append.mp hnd).2.2
  exact h n (by simp [hfree]) n h2 rfl

/-- `beta_values_dict_to_list`: when it succeeds every free name is in the dictionary and entry i
is the dictionary value of the i-th reported name -/
theorem dict_to_list {α} (t : Table ν) (dict : ν → Option α) (l : List α)
    (h : dictToList t dict = some l) :
    l.length = t.free.length ∧ ∀ (i : Nat) (n : ν), t.free[i]? = some n → (l[i]?) = dict n :=
  mapM_spec dict t.free l h

/-! ### non-vacuity -/

example : sortDedup ["b2", "b10", "a", "b2"] = ["a", "b10", "b2"] := by decide
example : (prepare [(⟨"b", false, (1 : Int), none, none⟩ : Decl String Int), ⟨"b", true, 2, none, none⟩]
    [] [] ["x"]).toBool = false := by decide

end C03
