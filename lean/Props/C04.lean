/-
C04 — the sample log likelihood is the weighted sum of per-observation values.
Property theorems only (helper lemmas in Proofs/Likelihood.lean, Proofs/LikelihoodReal.lean).

`blocks N T` is the engine's distribution of the rows over the threads (modelled from
`biogeme.cc:prepareData`, not verified); `loglike`, `gradEntry`, `hessEntry`, `bhhhEntry` are the
engine's accumulation loops; `calculateLikelihood` adds the Python layer (`0 ↦ cpu count`,
division by the sample size).  Real-valued statements are over `ℝ` for the same definitions the
driver runs on `Float`.

Not expressible here (clause "schedules" of the property is therefore PARTIAL): the interleaving
of the threads.  The model uses the fact, read in the engine source, that every thread writes only
its own accumulator and that the accumulators are added after all threads were joined.
-/
import Model.Likelihood
import Proofs.Likelihood
import Proofs.LikelihoodReal
import Model.LikSession
import Proofs.LikSession
import Model.DbSplit
import Proofs.DbSplit

open Likelihood

namespace C04

/-! ### (d) every thread count: the row blocks are a partition -/

/-- **The engine's blocks cover the rows `0 … N−1` exactly once, in order, no block is empty and
at most `T` threads are used — for every number of rows `N ≥ 1` and every thread count `T ≥ 1`,
including `T > N`.** -/
theorem blocks_partition (N T : Nat) (hN : 1 ≤ N) (hT : 1 ≤ T) :
    (blocks N T).flatten = List.range N ∧ (∀ b ∈ blocks N T, b ≠ []) ∧
    1 ≤ (blocks N T).length ∧ (blocks N T).length ≤ T ∧ (blocks N T).length ≤ N := by
  have h := nBlocks_spec N T hN hT
  refine ⟨blocks_flatten N T hN hT, blocks_nonempty N T hN hT, ?_, ?_, ?_⟩ <;>
    rw [blocks_length] <;> omega

/-- no row is dropped at a thread boundary and none is taken twice -/
theorem each_row_once (N T : Nat) (hN : 1 ≤ N) (hT : 1 ≤ T) :
    (blocks N T).flatten.Nodup ∧ ∀ n, n ∈ (blocks N T).flatten ↔ n < N := by
  rw [blocks_flatten N T hN hT]
  exact ⟨List.nodup_range, fun n => List.mem_range⟩

/-- the block of thread `t` is the interval `[t·size, min((t+1)·size, N))` with `size = ⌈N/T⌉` -/
theorem block_interval (N T t : Nat) (hN : 1 ≤ N) (hT : 1 ≤ T) (ht : t < nBlocks N T) :
    block N T t = List.range' (t * blockSize N T)
      (min ((t + 1) * blockSize N T) N - t * blockSize N T) := by
  have h := nBlocks_spec N T hN hT
  unfold block blockStart blockEnd
  congr 1
  generalize nBlocks N T = k at *
  generalize hs : blockSize N T = s at *
  split
  · rename_i he
    have : (k - 1 + 1) * s = k * s := by congr 1; omega
    subst he
    rw [this]
    omega
  · rename_i hne
    -- t + 1 ≤ k − 1, hence (t+1)·s ≤ (k−1)·s < N
    have h1 : (t + 1) * s ≤ (k - 1) * s := Nat.mul_le_mul_right _ (by omega)
    omega

example : blocks 7 6 = [[0, 1], [2, 3], [4, 5], [6]] := by decide
example : blocks 3 5 = [[0], [1], [2]] := by decide
example : blocks 10 4 = [[0, 1, 2], [3, 4, 5], [6, 7, 8], [9]] := by decide
example : blocks 5 1 = [[0, 1, 2, 3, 4]] := by decide

/-! ### (a) the value is Σ w·ℓ, (d) for every thread count -/

/-- Σ over the blocks of Σ over the rows of the block = Σ over the rows -/
theorem sum_blocks (w : Option (ℕ → ℝ)) (x : ℕ → ℝ) (N T : ℕ) (hN : 1 ≤ N) (hT : 1 ≤ T) :
    total w x (blocks N T) = ((List.range N).map (term w x)).sum := by
  rw [total_real, blocks_flatten N T hN hT]

/-- **with a weight formula the log likelihood is Σ_n w_n·ℓ_n**, for every thread count -/
theorem weighted (w l : ℕ → ℝ) (N T : ℕ) (hN : 1 ≤ N) (hT : 1 ≤ T) :
    loglike (some w) l N T = ((List.range N).map fun n => w n * l n).sum := by
  unfold loglike
  rw [sum_blocks _ _ N T hN hT]
  rfl

/-- **without a weight formula every weight is one**: the log likelihood is Σ_n ℓ_n -/
theorem unweighted (l : ℕ → ℝ) (N T : ℕ) (hN : 1 ≤ N) (hT : 1 ≤ T) :
    loglike none l N T = ((List.range N).map l).sum ∧
    loglike none l N T = loglike (some fun _ => 1) l N T := by
  constructor
  · unfold loglike
    rw [sum_blocks _ _ N T hN hT]
    rfl
  · unfold loglike
    rw [sum_blocks _ _ N T hN hT, sum_blocks _ _ N T hN hT]
    congr 1
    apply List.map_congr_left
    intro n _
    simp [term]

/-- **the value does not depend on the thread count** (1, 2, …, N, N+1, 2N, …) -/
theorem thread_invariant (w : Option (ℕ → ℝ)) (l : ℕ → ℝ) (N T₁ T₂ : ℕ) (hN : 1 ≤ N)
    (h1 : 1 ≤ T₁) (h2 : 1 ≤ T₂) : loglike w l N T₁ = loglike w l N T₂ := by
  unfold loglike
  rw [sum_blocks _ _ N T₁ hN h1, sum_blocks _ _ N T₂ hN h2]

/-- thread-count resolution: `0 ↦ cpu count`; the engine always receives at least one thread -/
theorem threads_resolved (param cpu : Nat) (hcpu : 1 ≤ cpu) :
    1 ≤ resolveThreads param cpu ∧ (param ≠ 0 → resolveThreads param cpu = param) ∧
    resolveThreads 0 cpu = cpu := by
  unfold resolveThreads
  refine ⟨?_, ?_, by simp⟩
  · split <;> omega
  · intro h; simp [h]

/-- **(b) the scaled variant is the sum divided by the sample size**, whatever the parameter
`number_of_threads` (0 included) -/
theorem scaled (w : Option (ℕ → ℝ)) (l : ℕ → ℝ) (N param cpu : ℕ) (hN : 1 ≤ N) (hcpu : 1 ≤ cpu) :
    calculateLikelihood w l N param cpu true = ((List.range N).map (term w l)).sum / (N : ℝ) ∧
    calculateLikelihood w l N param cpu false = ((List.range N).map (term w l)).sum := by
  have hT := (threads_resolved param cpu hcpu).1
  unfold calculateLikelihood scaledBy loglike
  rw [sum_blocks _ _ N _ hN hT]
  simp

/-! ### (c) row order and (e) splits, at the level of tables -/

theorem tableLoglike_eq (b : Bool) (rows : List (ℝ × ℝ)) (T : ℕ) (hne : rows ≠ []) (hT : 1 ≤ T) :
    tableLoglike b rows T = (rows.map fun p => if b then p.1 * p.2 else p.2).sum := by
  have hN : 1 ≤ rows.length := by
    cases rows with
    | nil => exact absurd rfl hne
    | cons _ _ => simp
  unfold tableLoglike loglike
  rw [sum_blocks _ _ _ T hN hT]
  have hmap : ∀ (d : ℝ × ℝ) (f : ℝ × ℝ → ℝ),
      (List.range rows.length).map (fun n => f (rows.getD n d)) = rows.map f := by
    intro d f
    apply List.ext_getElem
    · simp
    · intro i h1 h2
      simp only [List.length_map, List.length_range] at h1
      simp [List.getD_eq_getElem?_getD, h1]
  cases b with
  | true =>
    simp only [↓reduceIte]
    exact congrArg List.sum (hmap _ fun p => p.1 * p.2)
  | false =>
    simp only [Bool.false_eq_true, ↓reduceIte]
    exact congrArg List.sum (hmap _ fun p => p.2)

/-- **(a) at table level**: the reported value is the property's Σ w·ℓ -/
theorem table_value (b : Bool) (rows : List (ℝ × ℝ)) (T : ℕ) (hne : rows ≠ []) (hT : 1 ≤ T) :
    tableLoglike b rows T = tableSum b rows := by
  rw [tableLoglike_eq b rows T hne hT]
  unfold tableSum
  rw [NumR.sum_real]

/-- **(c) the value does not depend on the order of the rows** — nor on the thread counts used
for the two orders -/
theorem perm_invariant (b : Bool) (rows rows' : List (ℝ × ℝ)) (T T' : ℕ) (hne : rows ≠ [])
    (hp : rows.Perm rows') (hT : 1 ≤ T) (hT' : 1 ≤ T') :
    tableLoglike b rows' T' = tableLoglike b rows T := by
  have hne' : rows' ≠ [] := by
    intro h; rw [h] at hp; exact hne (List.Perm.eq_nil hp)
  rw [tableLoglike_eq b rows T hne hT, tableLoglike_eq b rows' T' hne' hT']
  exact (List.Perm.sum_eq (hp.map _)).symm

/-- **(e) splitting the rows into two parts and adding the two values** -/
theorem split_additive (b : Bool) (r₁ r₂ : List (ℝ × ℝ)) (T T₁ T₂ : ℕ) (h1 : r₁ ≠ []) (h2 : r₂ ≠ [])
    (hT : 1 ≤ T) (hT₁ : 1 ≤ T₁) (hT₂ : 1 ≤ T₂) :
    tableLoglike b (r₁ ++ r₂) T = tableLoglike b r₁ T₁ + tableLoglike b r₂ T₂ := by
  have h12 : r₁ ++ r₂ ≠ [] := by simp [h1]
  rw [tableLoglike_eq b _ T h12 hT, tableLoglike_eq b r₁ T₁ h1 hT₁, tableLoglike_eq b r₂ T₂ h2 hT₂]
  simp

/-- **(e) any number of parts**, each evaluated with its own thread count -/
theorem split_additive_many (b : Bool) (parts : List (List (ℝ × ℝ))) (T : ℕ) (Ts : List (ℝ × ℝ) → ℕ)
    (hparts : parts ≠ []) (hne : ∀ p ∈ parts, p ≠ []) (hT : 1 ≤ T) (hTs : ∀ p ∈ parts, 1 ≤ Ts p) :
    tableLoglike b parts.flatten T = (parts.map fun p => tableLoglike b p (Ts p)).sum := by
  have hfl : parts.flatten ≠ [] := by
    cases parts with
    | nil => exact absurd rfl hparts
    | cons p ps =>
      have := hne p (List.mem_cons_self)
      simp [this]
  rw [tableLoglike_eq b _ T hfl hT, List.map_flatten, List.sum_flatten, List.map_map]
  congr 1
  apply List.map_congr_left
  intro p hp
  simp only [Function.comp]
  rw [tableLoglike_eq b p (Ts p) (hne p hp) (hTs p hp)]

example : tableLoglike true [((2 : ℝ), (3 : ℝ)), (1, 5), (4, -1)] 2 = 7 := by
  rw [tableLoglike_eq _ _ _ (by simp) (by omega)]; norm_num

/-! ### (f) gradient, Hessian and BHHH aggregate the same way -/

/-- gradient entry `i` = Σ_n w_n·∂ℓ_n/∂β_i -/
theorem gradient_sum (w : Option (ℕ → ℝ)) (g : ℕ → ℕ → ℝ) (N T i : ℕ) (hN : 1 ≤ N) (hT : 1 ≤ T) :
    gradEntry w g N T i = ((List.range N).map (term w fun n => g n i)).sum := by
  unfold gradEntry
  exact sum_blocks _ _ N T hN hT

/-- Hessian entry `(i, j)` = Σ_n w_n·∂²ℓ_n/∂β_i∂β_j for **every** pair (the engine accumulates the
upper triangle and mirrors it; per-row Hessians are symmetric) -/
theorem hessian_sum (w : Option (ℕ → ℝ)) (h : ℕ → ℕ → ℕ → ℝ) (N T i j : ℕ) (hN : 1 ≤ N) (hT : 1 ≤ T)
    (hsym : ∀ n a b, h n a b = h n b a) :
    hessEntry w h N T i j = ((List.range N).map (term w fun n => h n i j)).sum := by
  unfold hessEntry
  split
  · exact sum_blocks _ _ N T hN hT
  · rw [sum_blocks _ _ N T hN hT]
    congr 1
    apply List.map_congr_left
    intro n _
    cases w with
    | none => simp only [term]; exact hsym n j i
    | some w => simp only [term]; rw [hsym n j i]

/-- BHHH entry `(i, j)` = Σ_n w_n·g_n[i]·g_n[j] for every pair -/
theorem bhhh_sum (w : Option (ℕ → ℝ)) (g : ℕ → ℕ → ℝ) (N T i j : ℕ) (hN : 1 ≤ N) (hT : 1 ≤ T) :
    bhhhEntry w g N T i j = ((List.range N).map (bhhhTerm w g i j)).sum := by
  unfold bhhhEntry
  split
  · rw [bhhhUpper_real, blocks_flatten N T hN hT]
  · rw [bhhhUpper_real, blocks_flatten N T hN hT]
    congr 1
    apply List.map_congr_left
    intro n _
    exact bhhhTerm_symm w g j i n

/-- unweighted BHHH is Σ_n g_n g_nᵀ entrywise -/
theorem bhhh_outer (g : ℕ → ℕ → ℝ) (N T i j : ℕ) (hN : 1 ≤ N) (hT : 1 ≤ T) :
    bhhhEntry none g N T i j = ((List.range N).map fun n => g n i * g n j).sum := by
  rw [bhhh_sum none g N T i j hN hT]
  rfl

/-- the derivative aggregates do not depend on the thread count either -/
theorem derivatives_thread_invariant (w : Option (ℕ → ℝ)) (g : ℕ → ℕ → ℝ) (h : ℕ → ℕ → ℕ → ℝ)
    (N T₁ T₂ i j : ℕ) (hN : 1 ≤ N) (h1 : 1 ≤ T₁) (h2 : 1 ≤ T₂)
    (hsym : ∀ n a b, h n a b = h n b a) :
    gradEntry w g N T₁ i = gradEntry w g N T₂ i ∧
    hessEntry w h N T₁ i j = hessEntry w h N T₂ i j ∧
    bhhhEntry w g N T₁ i j = bhhhEntry w g N T₂ i j := by
  refine ⟨?_, ?_, ?_⟩
  · rw [gradient_sum w g N T₁ i hN h1, gradient_sum w g N T₂ i hN h2]
  · rw [hessian_sum w h N T₁ i j hN h1 hsym, hessian_sum w h N T₂ i j hN h2 hsym]
  · rw [bhhh_sum w g N T₁ i j hN h1, bhhh_sum w g N T₂ i j hN h2]

/-! ### "for the same parameters": named values → the vector of the engine

`simulate(the_beta_values)` receives the parameter point as a dict; `calculate_likelihood(x)` as
a vector in the order of `free_beta_names`.  The two denote the same point exactly when entry `i`
of the vector built from the dict is the value stored under name `i` — whatever the order in which
the dict was written and whatever other entries it holds. -/

/-- the vector is built **by name**: it exists iff every free parameter has an entry, and then
its `i`-th entry is the value stored under the `i`-th name -/
theorem beta_vector_by_name {β : Type} (names : List String) (d : List (String × β)) (vs : List β) :
    betaVector names d = .ok vs ↔ names.map (fun n => d.lookup n) = vs.map some :=
  betaVector_ok_iff names d vs

/-- **the order in which the entries of the dict were written is irrelevant** -/
theorem beta_vector_order {β : Type} (names : List String) (d d' : List (String × β))
    (hp : d.Perm d') (hkeys : (d.map Prod.fst).Nodup) : betaVector names d' = betaVector names d :=
  betaVector_congr names d d' fun n _ => lookup_perm d d' n hp hkeys

/-- **entries of parameters the model does not have are irrelevant**, wherever they stand in the
dict: only the sub-dict of the model's own names matters -/
theorem beta_vector_foreign {β : Type} (names : List String) (d : List (String × β)) :
    betaVector names (d.filter fun e => names.contains e.1) = betaVector names d :=
  betaVector_congr names d _ fun n hn =>
    lookup_filter (fun k => names.contains k) d n (List.contains_iff_mem.2 hn)

/-- two dicts with the same entries for the model's names (in any order, with any foreign
entries in between) give the same vector, hence the same simulated values -/
theorem beta_vector_same_point {β : Type} (names : List String) (d d' : List (String × β))
    (hkeys : ((d.filter fun e => names.contains e.1).map Prod.fst).Nodup)
    (hp : (d.filter fun e => names.contains e.1).Perm (d'.filter fun e => names.contains e.1)) :
    betaVector names d' = betaVector names d := by
  rw [← beta_vector_foreign names d', ← beta_vector_foreign names d]
  exact beta_vector_order names _ _ hp hkeys

/-- a free parameter without entry is an error naming a missing parameter (never a default) -/
theorem beta_vector_incomplete {β : Type} (names : List String) (d : List (String × β)) (n : String)
    (hn : n ∈ names) (hmiss : d.lookup n = none) :
    ∃ e, betaVector names d = .error e ∧ e ∈ names ∧ d.lookup e = none :=
  betaVector_error names d n hn hmiss

example : betaVector ["asc", "b_cost", "b_time"]
    [("not_in_model", 7), ("b_time", 1), ("asc", 3), ("b_cost", 2)] = .ok [3, 2, 1] := by decide
example : betaVector ["asc", "b_cost", "b_time"] [("b_time", 1), ("asc", 3)] = .error "b_cost" := by
  decide
example : foreignKeys ["asc", "b_cost"] [("B_COST", 1), ("asc", 3), ("b_cost", 2), ("zz", 0)]
    = ["B_COST", "zz"] := by decide

/-! ### sample size: rows, or individuals of panel data -/

/-- `get_sample_size()`: the number of rows without panel; with panel the number of distinct
values of the panel column — each individual once, every id of the column among them, never
more than the number of rows -/
theorem sample_size (ids : List Int) (nRows : Nat) :
    sampleSize none nRows = nRows ∧
    sampleSize (some ids) nRows = (distinct ids).length ∧
    (distinct ids).Nodup ∧ (∀ i, i ∈ distinct ids ↔ i ∈ ids) ∧
    (distinct ids).length ≤ ids.length :=
  ⟨rfl, rfl, nodup_distinct ids, mem_distinct ids, length_distinct_le ids⟩

example : sampleSize (some [5, 5, 5, -2, 7, 7]) 6 = 3 := by decide
example : distinct [5, 5, 5, -2, 7, 7] = [5, -2, 7] := by decide
example : individualRows [5, 5, 5, -2, 7, 7] 7 = [4, 5] := by decide

/-- **every row belongs to exactly one individual**: the rows of the individuals, one individual
after the other, are a rearrangement of the rows `0 … N−1` -/
theorem individuals_partition (ids : List Int) :
    ((distinct ids).flatMap (individualRows ids)).Perm (List.range ids.length) :=
  individuals_perm ids

/-- adding, individual by individual, a row quantity (the log of a product over the rows of the
individual is the sum of the logs) is adding it over the rows -/
theorem individuals_sum (ids : List Int) (x : ℕ → ℝ) :
    ((distinct ids).map fun i => ((individualRows ids i).map x).sum).sum
      = ((List.range ids.length).map x).sum := by
  have h := (individuals_perm ids).map x
  rw [← List.Perm.sum_eq h, List.flatMap_def, List.map_flatten, List.sum_flatten, List.map_map,
    List.map_map]
  rfl

/-- **(b) on every kind of data: the scaled value is the sum over the observations divided by the
sample size** — the number of individuals for panel data, not the number of rows -/
theorem scaled_sample_size (panel : Option (List Int)) (nRows T : ℕ) (w : Option (ℕ → ℝ)) (l : ℕ → ℝ)
    (hM : 1 ≤ sampleSize panel nRows) (hT : 1 ≤ T) :
    reported panel nRows true (loglike w l (sampleSize panel nRows) T)
      = ((List.range (sampleSize panel nRows)).map (term w l)).sum / (sampleSize panel nRows : ℝ) ∧
    reported panel nRows false (loglike w l (sampleSize panel nRows) T)
      = ((List.range (sampleSize panel nRows)).map (term w l)).sum := by
  unfold loglike
  rw [sum_blocks _ _ _ T hM hT]
  unfold reported scaledBy
  simp

/-- **(f) gradient, Hessian and BHHH are scaled by the same sample size** -/
theorem scaled_derivatives (panel : Option (List Int)) (nRows T i j : ℕ) (w : Option (ℕ → ℝ))
    (g : ℕ → ℕ → ℝ) (h : ℕ → ℕ → ℕ → ℝ) (hM : 1 ≤ sampleSize panel nRows) (hT : 1 ≤ T)
    (hsym : ∀ n a b, h n a b = h n b a) :
    reported panel nRows true (gradEntry w g (sampleSize panel nRows) T i)
      = ((List.range (sampleSize panel nRows)).map (term w fun n => g n i)).sum
        / (sampleSize panel nRows : ℝ) ∧
    reported panel nRows true (hessEntry w h (sampleSize panel nRows) T i j)
      = ((List.range (sampleSize panel nRows)).map (term w fun n => h n i j)).sum
        / (sampleSize panel nRows : ℝ) ∧
    reported panel nRows true (bhhhEntry w g (sampleSize panel nRows) T i j)
      = ((List.range (sampleSize panel nRows)).map (bhhhTerm w g i j)).sum
        / (sampleSize panel nRows : ℝ) := by
  rw [gradient_sum w g _ T i hM hT, hessian_sum w h _ T i j hM hT hsym, bhhh_sum w g _ T i j hM hT]
  unfold reported scaledBy
  simp


/-! ### round 3 — the whole option matrix of `calculate_likelihood_and_derivatives`

`agg scaled M t` is the property's aggregate: Σ over the observations `0 … M−1` of `t`, divided by the
sample size `M` when `scaled`. -/

/-- **for every combination of `scaled`, `hessian`, `bhhh`** (8 cells), every data base (rows or
individuals), every thread parameter (0 included): the function value, every gradient entry, every entry
of the Hessian *if requested* and every entry of the BHHH matrix *if requested* are the weighted sums of
the per-observation quantities, all divided by the same sample size when `scaled`; a matrix that was
not requested carries no value. -/
theorem option_matrix (o : Obs ℝ) (K : ℕ) (panel : Option (List Int)) (nRows param cpu : ℕ)
    (scaled hessian bhhh : Bool) (hM : 1 ≤ sampleSize panel nRows) (hcpu : 1 ≤ cpu)
    (hsym : ∀ n a b, o.h n a b = o.h n b a) :
    (likelihoodAndDerivatives o K panel nRows param cpu scaled hessian bhhh).f
      = agg scaled (sampleSize panel nRows) (term o.w o.l) ∧
    (likelihoodAndDerivatives o K panel nRows param cpu scaled hessian bhhh).g
      = (List.range K).map (fun i => agg scaled (sampleSize panel nRows) (term o.w fun n => o.g n i)) ∧
    (likelihoodAndDerivatives o K panel nRows param cpu scaled hessian bhhh).h
      = (if hessian then some (matrixOf K fun i j =>
          agg scaled (sampleSize panel nRows) (term o.w fun n => o.h n i j)) else none) ∧
    (likelihoodAndDerivatives o K panel nRows param cpu scaled hessian bhhh).b
      = (if bhhh then some (matrixOf K fun i j =>
          agg scaled (sampleSize panel nRows) (bhhhTerm o.w o.g i j)) else none) := by
  have hT := (threads_resolved param cpu hcpu).1
  refine ⟨?_, ?_, ?_, ?_⟩
  · simp only [likelihoodAndDerivatives, engineDerivs, Derivs.map]
    unfold loglike
    rw [sum_blocks _ _ _ _ hM hT, reported_agg]
  · simp only [likelihoodAndDerivatives, engineDerivs, Derivs.map, List.map_map]
    apply List.map_congr_left
    intro i _
    simp only [Function.comp]
    rw [gradient_sum _ _ _ _ i hM hT, reported_agg]
  · cases hessian
    · simp [likelihoodAndDerivatives, engineDerivs, Derivs.map]
    · simp only [likelihoodAndDerivatives, engineDerivs, Derivs.map, if_true, Option.map_some,
        matrixOf_map]
      congr 1
      apply matrixOf_congr
      intro i j
      rw [hessian_sum _ _ _ _ i j hM hT hsym, reported_agg]
  · cases bhhh
    · simp [likelihoodAndDerivatives, engineDerivs, Derivs.map]
    · simp only [likelihoodAndDerivatives, engineDerivs, Derivs.map, if_true, Option.map_some,
        matrixOf_map]
      congr 1
      apply matrixOf_congr
      intro i j
      rw [bhhh_sum _ _ _ _ i j hM hT, reported_agg]

/-- the function value and the gradient do not depend on which matrices are requested, and a requested
matrix does not depend on whether the other one is requested -/
theorem option_independent (o : Obs ℝ) (K : ℕ) (panel : Option (List Int)) (nRows param cpu : ℕ)
    (scaled hs bh hs' bh' : Bool) :
    (likelihoodAndDerivatives o K panel nRows param cpu scaled hs bh).f
      = (likelihoodAndDerivatives o K panel nRows param cpu scaled hs' bh').f ∧
    (likelihoodAndDerivatives o K panel nRows param cpu scaled hs bh).g
      = (likelihoodAndDerivatives o K panel nRows param cpu scaled hs' bh').g ∧
    (likelihoodAndDerivatives o K panel nRows param cpu scaled true bh).h
      = (likelihoodAndDerivatives o K panel nRows param cpu scaled true bh').h ∧
    (likelihoodAndDerivatives o K panel nRows param cpu scaled hs true).b
      = (likelihoodAndDerivatives o K panel nRows param cpu scaled hs' true).b := by
  simp [likelihoodAndDerivatives, engineDerivs, Derivs.map]

/-- the function handed to the optimiser (`NegativeLikelihood._f`, `._f_g`, `._f_g_h`): minus the
**unscaled** sums, gradient and Hessian included; `_f_g` carries no Hessian, none carries a BHHH -/
theorem optimiser_function (o : Obs ℝ) (K : ℕ) (panel : Option (List Int)) (nRows param cpu : ℕ)
    (hessian : Bool) (hM : 1 ≤ sampleSize panel nRows) (hcpu : 1 ≤ cpu)
    (hsym : ∀ n a b, o.h n a b = o.h n b a) :
    negF o panel nRows param cpu = - agg false (sampleSize panel nRows) (term o.w o.l) ∧
    (negDerivs o K panel nRows param cpu hessian).f
      = - agg false (sampleSize panel nRows) (term o.w o.l) ∧
    (negDerivs o K panel nRows param cpu hessian).g
      = (List.range K).map (fun i => - agg false (sampleSize panel nRows) (term o.w fun n => o.g n i)) ∧
    (negDerivs o K panel nRows param cpu hessian).h
      = (if hessian then some (matrixOf K fun i j =>
          - agg false (sampleSize panel nRows) (term o.w fun n => o.h n i j)) else none) ∧
    (negDerivs o K panel nRows param cpu hessian).b = none := by
  have hT := (threads_resolved param cpu hcpu).1
  obtain ⟨hf, hg, hh, hb⟩ := option_matrix o K panel nRows param cpu false hessian false hM hcpu hsym
  refine ⟨?_, ?_, ?_, ?_, ?_⟩
  · unfold negF loglike
    rw [sum_blocks _ _ _ _ hM hT, reported_agg]
  · simp only [negDerivs, Derivs.map] at *
    rw [hf]
  · simp only [negDerivs, Derivs.map] at *
    rw [hg, List.map_map]
    apply List.map_congr_left
    intro i _
    simp
  · simp only [negDerivs, Derivs.map] at *
    rw [hh]
    cases hessian
    · simp
    · simp only [if_true, Option.map_some, matrixOf_map]
  · simp only [negDerivs, Derivs.map] at *
    rw [hb]; simp

example : agg true 2 (fun n => if n = 0 then 3 else 5) = 4 := by
  unfold agg; norm_num [List.range_succ]

example : (likelihoodAndDerivatives (α := ℝ) ⟨none, fun _ => 1, fun _ _ => 1, fun _ _ _ => 0⟩ 2 none 3 0 4
    true false true).h = none := by
  simp [likelihoodAndDerivatives, engineDerivs, Derivs.map]

/-! ### round 3 — histories on ONE data base shared by several objects

`Sess` (Model/LikSession.lean): `Database.data` / `fullData` (one pandas object until the first
`BIOGEME(…)` rebinds `data`), one engine copy per object; `build`, `edit` (scale_column / add_column /
define_variable / remove), `estimate` with or without bootstrap, `query`. -/

/-- **after an estimation with bootstrap the engine of the object holds the CURRENT table of the data
base** — in every state, i.e. whatever objects were built and whatever edits were made before; the table
itself is untouched -/
theorem bootstrap_restores {τ : Type} (s : Sess τ) (k : ℕ) (rs : List (τ → τ))
    (hk : k < s.engines.length) :
    (s.step (.estimate k (some rs))).engines[k]? = some s.data ∧
    (s.step (.estimate k (some rs))).data = s.data ∧
    ∀ j, j ≠ k → (s.step (.estimate k (some rs))).engines[j]? = s.engines[j]? := by
  refine ⟨?_, rfl, ?_⟩
  · simp [Sess.step, setDataSeq_last, hk]
  · intro j hj
    simp only [Sess.step]
    rw [List.getElem?_set_ne (Ne.symm hj)]

/-- **for every history** (objects built, edits in place, estimations with and without bootstrap, calls
in any order): every object built — or estimated with bootstrap — since the last edit holds the current
table in its engine -/
theorem session_engine_current {τ : Type} (df : τ) (ops : List (SOp τ)) (k : ℕ)
    (hk : k ∈ (synced ops).2) :
    k < ((Sess.init df).run ops).engines.length ∧
    ((Sess.init df).run ops).engines[k]? = some ((Sess.init df).run ops).data :=
  (sinv_run ops (Sess.init df) (0, []) (sinv_init df)).2 k hk

/-- **the log likelihood such an object reports is the property's Σ w·ℓ over the rows of the CURRENT
table** (what `simulate`, which is handed `database.data` at every call, reports row by row), divided by
the current sample size when `scaled` — for every thread count.
PARTIAL (guard `k ∈ synced`): an object built *before* the last edit keeps the table of its
construction in its engine (`session_stale_witness`). -/
theorem session_loglike_partial {τ : Type} (df : τ) (ops : List (SOp τ)) (k T : ℕ)
    (rowsOf : τ → List (ℝ × ℝ)) (weighted scaled : Bool) (hk : k ∈ (synced ops).2) (hT : 1 ≤ T)
    (hne : rowsOf ((Sess.init df).run ops).data ≠ []) :
    ((Sess.init df).run ops).reportedLoglike k rowsOf weighted T scaled
      = if scaled then tableSum weighted (rowsOf ((Sess.init df).run ops).data)
            / ((rowsOf ((Sess.init df).run ops).data).length : ℝ)
        else tableSum weighted (rowsOf ((Sess.init df).run ops).data) := by
  obtain ⟨h1, h2⟩ := session_engine_current df ops k hk
  unfold Sess.reportedLoglike
  have : ((Sess.init df).run ops).engines.getD k ((Sess.init df).run ops).data
      = ((Sess.init df).run ops).data := by
    rw [List.getD_eq_getElem?_getD, h2]; rfl
  rw [this, table_value weighted _ T hne hT]
  unfold scaledBy
  cases scaled <;> simp

/-- the guard cannot be dropped: an object built before an edit keeps the table of its construction
(rows [1,2,3]; the row 2 is removed afterwards) -/
theorem session_stale_witness :
    ((Sess.init [1, 2, 3]).run [.build true, .edit fun t => t.filter (· != 2)]).engines[0]?
      ≠ some ((Sess.init [1, 2, 3]).run [.build true, .edit fun t => t.filter (· != 2)]).data := by
  decide

/-- `fullData` stops following `data` once an object was built: it is not the table of the data set
(the engine must be refilled from `data`, never from `fullData`) -/
theorem fullData_not_current :
    ((Sess.init [1, 2, 3]).run [.build true, .edit fun t => t.filter (· != 2)]).fullData = [1, 2, 3] ∧
    ((Sess.init [1, 2, 3]).run [.build true, .edit fun t => t.filter (· != 2)]).data = [1, 3] ∧
    ((Sess.init [1, 2, 3]).run [.edit fun t => t.filter (· != 2)]).fullData = [1, 3] := by
  decide

-- a history of the kind the theorem covers: first object, edit, second object, bootstrap, call
example : (synced (τ := List ℕ) [.build true, .edit fun t => t.map (· * 2), .build true,
    .estimate 1 (some [fun t => t.take 1, fun t => t.reverse]), .query 1]).2 = [1, 1] := by decide
example : ((Sess.init [1, 2, 3]).run [.build true, .edit fun t => t.map (· * 2), .build true,
    .estimate 1 (some [fun t => t.take 1, fun t => t.reverse]), .query 1]).engines
      = [[1, 2, 3], [2, 4, 6]] := by decide

/-! ### round 3 — `Database.split`: estimation / validation sets are parts whose values are added -/

/-- `numpy.array_split` after the shuffle: `k` slices which, one after the other, are the shuffled rows
(no row lost, none taken twice); with at most as many slices as rows none is empty -/
theorem db_split_partition {β : Type} (shuffled : List β) (k : ℕ) (hk : 1 ≤ k) :
    (arraySplit shuffled k).flatten = shuffled ∧ (arraySplit shuffled k).length = k ∧
    (dbSplit shuffled k).length = k ∧
    (k ≤ shuffled.length → ∀ p ∈ arraySplit shuffled k, p ≠ []) := by
  obtain ⟨h1, h2, _⟩ := arraySplit_spec shuffled k hk
  refine ⟨h1, h2, by simp [dbSplit, h2], fun hkn => arraySplit_nonempty shuffled k hk hkn⟩

/-- **the log likelihoods of the validation sets add up to the log likelihood of the table**, whatever
the shuffle, the number of slices and the thread counts used for the parts -/
theorem db_split_validation_sum (b : Bool) (rows shuffled : List (ℝ × ℝ)) (k T : ℕ)
    (Ts : List (ℝ × ℝ) → ℕ) (hp : rows.Perm shuffled) (hk : 1 ≤ k) (hkn : k ≤ rows.length)
    (hT : 1 ≤ T) (hTs : ∀ p, 1 ≤ Ts p) :
    ((arraySplit shuffled k).map fun p => tableLoglike b p (Ts p)).sum = tableLoglike b rows T := by
  have hlen : shuffled.length = rows.length := hp.length_eq.symm
  have hne : rows ≠ [] := by
    intro h; rw [h] at hkn; simp at hkn; omega
  obtain ⟨hfl, hl, _⟩ := arraySplit_spec shuffled k hk
  have hparts : arraySplit shuffled k ≠ [] := by
    intro h; rw [h] at hl; simp at hl; omega
  have h := split_additive_many b (arraySplit shuffled k) T Ts hparts
    (arraySplit_nonempty shuffled k hk (by omega)) hT (fun p _ => hTs p)
  rw [hfl] at h
  rw [← h]
  exact perm_invariant b rows shuffled T T hne hp hT hT

/-- **estimation set `i` + validation set `i` = the table**: their log likelihoods add up to the log
likelihood of the table (`k ≥ 2` slices, so that the estimation set is not empty) -/
theorem db_split_estimation_validation (b : Bool) (rows shuffled : List (ℝ × ℝ)) (k i T T₁ T₂ : ℕ)
    (hp : rows.Perm shuffled) (hk : 2 ≤ k) (hkn : k ≤ rows.length) (hi : i < k)
    (hT : 1 ≤ T) (hT₁ : 1 ≤ T₁) (hT₂ : 1 ≤ T₂) :
    tableLoglike b (othersOf (arraySplit shuffled k) i) T₁
      + tableLoglike b ((arraySplit shuffled k).getD i []) T₂ = tableLoglike b rows T := by
  have hlen : shuffled.length = rows.length := hp.length_eq.symm
  obtain ⟨hfl, hl, _⟩ := arraySplit_spec shuffled k (by omega)
  have hne := arraySplit_nonempty shuffled k (by omega) (by omega)
  have hi' : i < (arraySplit shuffled k).length := by omega
  have hval : (arraySplit shuffled k).getD i [] ≠ [] := by
    rw [List.getD_eq_getElem?_getD, List.getElem?_eq_getElem hi']
    exact hne _ (List.getElem_mem hi')
  -- another slice exists and lies in the estimation set
  have hest : othersOf (arraySplit shuffled k) i ≠ [] := by
    unfold othersOf
    intro h
    have hall : ∀ p ∈ (arraySplit shuffled k).take i ++ (arraySplit shuffled k).drop (i + 1), p = [] := by
      have h' : (∀ l ∈ List.take i (arraySplit shuffled k), l = []) ∧
          ∀ l ∈ List.drop (i + 1) (arraySplit shuffled k), l = [] := by
        simpa [List.flatten_eq_nil_iff] using h
      intro p hp
      rcases List.mem_append.1 hp with h1 | h1
      · exact h'.1 p h1
      · exact h'.2 p h1
    have hlen2 : ((arraySplit shuffled k).take i ++ (arraySplit shuffled k).drop (i + 1)).length = k - 1 := by
      simp [hl]; omega
    cases hq : (arraySplit shuffled k).take i ++ (arraySplit shuffled k).drop (i + 1) with
    | nil => rw [hq] at hlen2; simp at hlen2; omega
    | cons q qs =>
      have hqm : q ∈ (arraySplit shuffled k).take i ++ (arraySplit shuffled k).drop (i + 1) := by
        rw [hq]; exact List.mem_cons_self
      have hq0 := hall q hqm
      have : q ∈ arraySplit shuffled k := by
        rcases List.mem_append.1 hqm with h1 | h1
        · exact List.mem_of_mem_take h1
        · exact List.mem_of_mem_drop h1
      exact hne q this hq0
  have hperm := others_append_perm (arraySplit shuffled k) i hi'
  rw [hfl] at hperm
  have hrows : rows ≠ [] := by
    intro h; rw [h] at hkn; simp at hkn; omega
  rw [← split_additive b _ _ T T₁ T₂ hest hval hT hT₁ hT₂]
  exact perm_invariant b rows _ T T hrows (hp.trans hperm.symm) hT hT

example : arraySplit [10, 11, 12, 13, 14, 15, 16] 3 = [[10, 11, 12], [13, 14], [15, 16]] := by decide
example : dbSplit [3, 0, 2, 1, 4] 2 = [([1, 4], [3, 0, 2]), ([3, 0, 2], [1, 4])] := by decide

end C04
