/-
C05 — choice models return proper probability distributions over available options.
Property theorems only (helper lemmas in Proofs/Models*.lean).  Every statement is about the `ℝ`
instance of the definitions of Model/Models.lean that Driver/C05.lean runs on `Float`.

Reading guide: `alts` = keys of the `util` dict (any list of integer labels), `V`, `av` = the
utilities and availability values by label (`av = fun _ => 1` is `availability=None`),
an alternative is available iff `av i ≠ 0`; a `none` log-probability is `log(0) = −∞`.

Round 3 (section "the calls"): Model/ModelsBuild.lean is the level of the Python calls — dictionaries as
insertion-ordered lists of (label, value), `availability=None`, look-ups by key, the audit of the key
sets, the `_bioLogLogitFullChoiceSet` branch, `logmev_endogenous_sampling`, the `Beta` test of
`ordered_likelihood`; the theorems tie that level to the semantic level above (Driver/C05.lean op `call`
runs the same definitions on `Float`).
-/
import Model.Models
import Proofs.Models
import Proofs.ModelsNested
import Proofs.ModelsCnl
import Proofs.ModelsOrdered
import Proofs.ModelsDrop
import Proofs.ModelsOrder
import Model.ModelsBuild
import Proofs.ModelsBuild
import Proofs.ModelsES

open Models

namespace C05

/-! ## logit -/

/-- probabilities of the logit model lie in [0,1] (any utilities, any availability pattern) -/
theorem logit_range (alts : List Int) (V av : Int → ℝ) (c : Int) (hc : c ∈ alts) :
    0 ≤ logitP alts V av c ∧ logitP alts V av c ≤ 1 :=
  logitP_range alts V av c hc

/-- they sum to one over the alternatives as soon as one alternative is available -/
theorem logit_sum_one (alts : List Int) (V av : Int → ℝ) (h : ∃ i ∈ alts, av i ≠ 0) :
    (alts.map (logitP alts V av)).sum = 1 := by
  obtain ⟨i, hi, hav⟩ := h
  exact logitP_sum_one alts V av ⟨i, hi, (avail_iff av i).2 hav⟩

example : ∃ i ∈ [7, 3, 12], (fun j : Int => if j = 3 then (0 : ℝ) else 1) i ≠ 0 :=
  ⟨7, by simp, by simp⟩

/-- an unavailable alternative has probability zero (its log-probability is `log 0`) -/
theorem logit_unavailable_zero (alts : List Int) (V av : Int → ℝ) (c : Int) (h : av c = 0) :
    logitP alts V av c = 0 ∧ logLogit alts V av c = none :=
  ⟨logitP_unavail alts V av c ((avail_false_iff av c).2 h),
   logLogit_unavail alts V av c ((avail_false_iff av c).2 h)⟩

/-- adding one constant to all utilities changes no logit probability -/
theorem logit_shift (alts : List Int) (V av : Int → ℝ) (k : ℝ) (c : Int) (hc : c ∈ alts) :
    logitP alts (fun i => V i + k) av c = logitP alts V av c :=
  logitP_shift_on alts V _ av k c hc (fun _ _ _ => rfl)

/-- `loglogit` is the logarithm of `logit` (available chosen alternative), and `logit` is the
closed form `exp V_c / Σ_{available} exp V_j` -/
theorem loglogit_is_log (alts : List Int) (V av : Int → ℝ) (c : Int) (hc : c ∈ alts) (h : av c ≠ 0) :
    (∃ l, logLogit alts V av c = some l ∧ Real.exp l = logitP alts V av c ∧
      Real.log (logitP alts V av c) = l) ∧
    logitP alts V av c =
      Real.exp (V c) / ((alts.filter fun j => av j ≠ 0).map fun j => Real.exp (V j)).sum := by
  have hav := (avail_iff av c).2 h
  refine ⟨log_logitP alts V av c hav, ?_⟩
  rw [logitP_avail alts V av c hc hav, denom_real]
  congr 3
  apply List.filter_congr
  intro j _
  by_cases hj : av j = 0
  · simp [hj, (avail_false_iff av j).2 hj]
  · simp [hj, (avail_iff av j).2 hj]

/-! ## MEV with arbitrary user-supplied `ln G_i` -/

/-- for *every* family of terms `logG` (user-supplied generating terms included) the MEV
probabilities lie in [0,1], sum to one (one available alternative) and vanish when unavailable -/
theorem mev_distribution (alts : List Int) (V logG av : Int → ℝ) :
    (∀ c ∈ alts, 0 ≤ mevP alts V logG av c ∧ mevP alts V logG av c ≤ 1) ∧
    ((∃ i ∈ alts, av i ≠ 0) → (alts.map (mevP alts V logG av)).sum = 1) ∧
    (∀ c, av c = 0 → mevP alts V logG av c = 0) :=
  ⟨fun c hc => logit_range alts _ av c hc,
   fun h => logit_sum_one alts _ av h,
   fun c h => (logit_unavailable_zero alts _ av c h).1⟩

/-! ## nested and cross-nested logit: shift invariance -/

/-- nested logit: for every list of nests (partition or not, alone alternatives, nests with
unavailable members) with non-zero nest parameters, a common shift of the utilities changes no
probability -/
theorem nested_shift (nests : List (Nest ℝ)) (alts : List Int) (V av : Int → ℝ) (k : ℝ) (c : Int)
    (hc : c ∈ alts) (hmu : ∀ m ∈ nests, m.mu ≠ 0) :
    nestedP nests alts (fun j => V j + k) av c = nestedP nests alts V av c :=
  nestedP_shift nests alts V av k c hc hmu

/-- nested logit with explicit scale `mu` -/
theorem nested_mu_shift (nests : List (Nest ℝ)) (mu : ℝ) (alts : List Int) (V av : Int → ℝ) (k : ℝ)
    (c : Int) (hc : c ∈ alts) (hmu : ∀ m ∈ nests, m.mu ≠ 0) :
    nestedMuP nests mu alts (fun j => V j + k) av c = nestedMuP nests mu alts V av c :=
  nestedMuP_shift nests mu alts V av k c hc hmu

example : ∀ m ∈ [(⟨1.5, [7, 12]⟩ : Nest ℝ), ⟨1, [3]⟩], m.mu ≠ 0 := by
  intro m hm
  simp only [List.mem_cons, List.not_mem_nil, or_false] at hm
  rcases hm with rfl | rfl <;> norm_num

/-- cross-nested logit: overlapping nests, any allocation `alpha ≥ 0`, availability values `≥ 0`,
nest parameters `≠ 0` -/
theorem cnl_shift (nests : List (CNest ℝ)) (alts : List Int) (V av : Int → ℝ) (k : ℝ) (c : Int)
    (hc : c ∈ alts) (ok : CnlOK nests av) :
    cnlP nests alts (fun j => V j + k) av c = cnlP nests alts V av c :=
  cnlP_shift nests alts V av k c hc ok

/-- cross-nested logit with explicit scale `mu ≠ 0`; every available alternative that appears in
a nest has a positive allocation in some nest -/
theorem cnl_mu_shift (nests : List (CNest ℝ)) (mu : ℝ) (alts : List Int) (V av : Int → ℝ) (k : ℝ)
    (c : Int) (hc : c ∈ alts) (ok : CnlOK nests av) (hmu : mu ≠ 0)
    (hr : ∀ i ∈ alts, av i ≠ 0 → Reachable nests i) :
    cnlMuP nests mu alts (fun j => V j + k) av c = cnlMuP nests mu alts V av c :=
  cnlMuP_shift nests mu alts V av k c hc ok hmu (fun i hi hav => hr i hi ((avail_iff av i).1 hav))

/-- the hypotheses of `cnl_shift` / `cnl_mu_shift` hold for an overlapping structure -/
example : CnlOK [(⟨1.5, [(7, 0.5), (12, 1)]⟩ : CNest ℝ), ⟨2, [(7, 0.5), (3, 1)]⟩] (fun _ => 1) where
  alpha_nonneg := by
    intro m hm p hp
    simp only [List.mem_cons, List.not_mem_nil, or_false] at hm
    rcases hm with rfl | rfl <;>
      (simp only [List.mem_cons, List.not_mem_nil, or_false] at hp; rcases hp with rfl | rfl <;> norm_num)
  av_nonneg := fun _ => zero_le_one
  mu_ne := by
    intro m hm
    simp only [List.mem_cons, List.not_mem_nil, or_false] at hm
    rcases hm with rfl | rfl <;> norm_num

/-- reachability: alternative 7 has a positive allocation in a nest; 5 is in no nest (alone) -/
example : Reachable [(⟨1.5, [(7, 0.5), (12, 1)]⟩ : CNest ℝ), ⟨2, [(7, 0), (3, 1)]⟩] 7 ∧
    Reachable [(⟨1.5, [(7, 0.5), (12, 1)]⟩ : CNest ℝ), ⟨2, [(7, 0), (3, 1)]⟩] 5 := by
  constructor
  · intro _
    exact ⟨⟨1.5, [(7, 0.5), (12, 1)]⟩, by simp, (7, 0.5), by simp, rfl, by norm_num⟩
  · intro h
    simp [inSomeCNest, CNest.alts] at h

/-! ## hence: distributions for every nest structure -/

theorem nested_distribution (nests : List (Nest ℝ)) (alts : List Int) (V av : Int → ℝ) :
    (∀ c ∈ alts, 0 ≤ nestedP nests alts V av c ∧ nestedP nests alts V av c ≤ 1) ∧
    ((∃ i ∈ alts, av i ≠ 0) → (alts.map (nestedP nests alts V av)).sum = 1) ∧
    (∀ c, av c = 0 → nestedP nests alts V av c = 0) :=
  mev_distribution alts V (nestedLogG nests V av) av

theorem nested_mu_distribution (nests : List (Nest ℝ)) (mu : ℝ) (alts : List Int) (V av : Int → ℝ) :
    (∀ c ∈ alts, 0 ≤ nestedMuP nests mu alts V av c ∧ nestedMuP nests mu alts V av c ≤ 1) ∧
    ((∃ i ∈ alts, av i ≠ 0) → (alts.map (nestedMuP nests mu alts V av)).sum = 1) ∧
    (∀ c, av c = 0 → nestedMuP nests mu alts V av c = 0) :=
  mev_distribution alts V (nestedMuLogG nests mu V av) av

theorem cnl_distribution (nests : List (CNest ℝ)) (alts : List Int) (V av : Int → ℝ) :
    (∀ c ∈ alts, 0 ≤ cnlP nests alts V av c ∧ cnlP nests alts V av c ≤ 1) ∧
    ((∃ i ∈ alts, av i ≠ 0) → (alts.map (cnlP nests alts V av)).sum = 1) ∧
    (∀ c, av c = 0 → cnlP nests alts V av c = 0) :=
  mev_distribution alts V (cnlLogG nests V av) av

theorem cnl_mu_distribution (nests : List (CNest ℝ)) (mu : ℝ) (alts : List Int) (V av : Int → ℝ) :
    (∀ c ∈ alts, 0 ≤ cnlMuP nests mu alts V av c ∧ cnlMuP nests mu alts V av c ≤ 1) ∧
    ((∃ i ∈ alts, av i ≠ 0) → (alts.map (cnlMuP nests mu alts V av)).sum = 1) ∧
    (∀ c, av c = 0 → cnlMuP nests mu alts V av c = 0) :=
  mev_distribution alts V (cnlMuLogG nests mu V av) av

/-! ## unavailable alternatives are irrelevant -/

/-- removing the unavailable alternatives from the utilities and from the nests changes no
probability: logit, nested (± mu), cross-nested (± mu).  (This is the "dropped-unavailable"
relation the harness applies to the real outputs; it fails for a nest sum that forgets the
availability condition.) -/
theorem unavailable_irrelevant (nests : List (Nest ℝ)) (cn : List (CNest ℝ)) (mu : ℝ)
    (alts : List Int) (V av : Int → ℝ) (c : Int) (hc : c ∈ alts) :
    logitP (alts.filter (avail av)) V av c = logitP alts V av c ∧
    nestedP (nests.map (restrictNest av)) (alts.filter (avail av)) V av c = nestedP nests alts V av c ∧
    nestedMuP (nests.map (restrictNest av)) mu (alts.filter (avail av)) V av c =
      nestedMuP nests mu alts V av c ∧
    cnlP (cn.map (restrictCNest av)) (alts.filter (avail av)) V av c = cnlP cn alts V av c ∧
    cnlMuP (cn.map (restrictCNest av)) mu (alts.filter (avail av)) V av c = cnlMuP cn mu alts V av c :=
  ⟨logitP_drop alts V av c, nestedP_drop nests alts V av c hc, nestedMuP_drop nests mu alts V av c hc,
   cnlP_drop cn alts V av c hc, cnlMuP_drop cn mu alts V av c hc⟩

/-! ## nest structures: the listing order is irrelevant, overlapping nests are refused -/

/-- `check_partition` (nested logit) and `check_validity` (cross-nested) give the same verdict for
every order in which the nests are listed -/
theorem validation_order_irrelevant (cs : List Int) (lists lists' : List (List Int))
    (h : lists.Perm lists') :
    checkPartition cs lists = checkPartition cs lists' ∧
    checkValidity cs lists = checkValidity cs lists' :=
  ⟨checkPartition_perm cs h, checkUnion_perm cs h⟩

example : ([[3, 14], [27, 8], [40, 14]] : List (List Int)).Perm [[40, 14], [3, 14], [27, 8]] := by
  decide

/-- `check_partition` accepts exactly the structures whose nests are pairwise disjoint (nests at any
two different positions, neighbours or not) and cover, with the alone alternatives, the choice set -/
theorem partition_iff (cs : List Int) (lists : List (List Int)) :
    checkPartition cs lists = true ↔
      ((∀ i ∈ cs, i ∈ unionAlts lists ∨ i ∈ aloneOf cs lists) ∧
        (∀ i, (i ∈ unionAlts lists ∨ i ∈ aloneOf cs lists) → i ∈ cs)) ∧
      (∀ l ∈ lists, ∀ j, j ∈ l → j ∉ aloneOf cs lists) ∧
      lists.Pairwise (fun a b => ∀ j, j ∈ a → j ∉ b) := by
  unfold checkPartition
  rw [Bool.and_eq_true, checkUnion_iff, checkIntersection_iff]
  rfl

/-- the nested logit functions (`nested`, `lognested`, `nested_mev_mu`, `lognested_mev_mu`: the Boolean
is the `_mu` flag) refuse with `BiogemeError` every specification in which an alternative is written
in two nests, whichever two positions `i ≠ j` of the tuple they occupy -/
theorem nested_overlap_refused (utilKeys : List Int) (arg : NestsArg (Nest ℝ)) (b : Bool)
    (o : NestsObj (Nest ℝ)) (hres : resolve Nest.alts utilKeys arg = .ok o) (i j : Nat)
    (hi : i < o.nests.length) (hj : j < o.nests.length) (hij : i ≠ j) (x : Int)
    (hxi : x ∈ o.nests[i].alts) (hxj : x ∈ o.nests[j].alts) :
    nestedSetup utilKeys arg b = .error "BiogemeError" := by
  have hc := checkPartition_overlap o.choiceSet (o.nests.map Nest.alts) i j (by simpa using hi)
    (by simpa using hj) hij x (by simpa using hxi) (by simpa using hxj)
  unfold nestedSetup
  rw [hres]
  simp only [bind, Except.bind, hc]
  rfl

/-- the hypotheses on a concrete input: three nests, the first and the last one share alternative 14 -/
example :
    resolve Nest.alts [14, 3, 27, 8, 40, 5]
        (.legacy [.tup (⟨1.5, [3, 14]⟩ : Nest ℝ), .tup ⟨2, [27, 8]⟩, .tup ⟨3, [40, 14]⟩]) =
      .ok ⟨[14, 3, 27, 8, 40, 5], [⟨1.5, [3, 14]⟩, ⟨2, [27, 8]⟩, ⟨3, [40, 14]⟩]⟩ ∧
    checkPartition [14, 3, 27, 8, 40, 5] [[3, 14], [27, 8], [40, 14]] = false ∧
    checkPartition [14, 3, 27, 8, 40, 5] [[3, 14], [27, 8], [40]] = true := by
  refine ⟨rfl, by decide, by decide⟩

/-- nested logit (± mu): for an accepted structure the probabilities and log-probabilities do not
depend on the order in which the nests are listed -/
theorem nested_order_irrelevant (cs alts : List Int) (nests nests' : List (Nest ℝ)) (mu : ℝ)
    (V av : Int → ℝ) (c : Int) (hp : nests.Perm nests')
    (hok : checkPartition cs (nests.map Nest.alts) = true) :
    nestedP nests alts V av c = nestedP nests' alts V av c ∧
    nestedMuP nests mu alts V av c = nestedMuP nests' mu alts V av c ∧
    logNestedP nests alts V av c = logNestedP nests' alts V av c ∧
    logNestedMuP nests mu alts V av c = logNestedMuP nests' mu alts V av c := by
  have hd := pairwise_nests nests (checkPartition_disjoint cs _ hok)
  unfold nestedP nestedMuP logNestedP logNestedMuP
  rw [nestedLogG_perm hp hd, nestedMuLogG_perm hp hd]
  exact ⟨rfl, rfl, rfl, rfl⟩

example : [(⟨1.5, [3, 14]⟩ : Nest ℝ), ⟨2, [27]⟩, ⟨3, [40, 8]⟩].Perm
    [⟨2, [27]⟩, ⟨1.5, [3, 14]⟩, ⟨3, [40, 8]⟩] := List.Perm.swap _ _ _

/-- cross-nested logit (± mu): the same for every structure (overlapping nests, any allocation) -/
theorem cnl_order_irrelevant (alts : List Int) (nests nests' : List (CNest ℝ)) (mu : ℝ)
    (V av : Int → ℝ) (c : Int) (hp : nests.Perm nests') :
    cnlP nests alts V av c = cnlP nests' alts V av c ∧
    cnlMuP nests mu alts V av c = cnlMuP nests' mu alts V av c ∧
    logCnlP nests alts V av c = logCnlP nests' alts V av c ∧
    logCnlMuP nests mu alts V av c = logCnlMuP nests' mu alts V av c := by
  unfold cnlP cnlMuP logCnlP logCnlMuP
  rw [cnlLogG_perm hp, cnlMuLogG_perm hp]
  exact ⟨rfl, rfl, rfl, rfl⟩

/-! ## round 3 — the calls: dictionaries, `availability=None`, endogenous sampling, one-alternative nests -/

/-- `models.loglogit` / `models.logit` on the dictionaries the user wrote: the keys of `util` are
distinct labels in any order, the availability dictionary has (at least) the same keys **in any
insertion order**; or `availability=None`.  The value is the semantic kernel / probability of the
theorems above on the functions the dictionaries denote: the availability of an alternative is the one
stored under ITS KEY, and `None` is the all-ones pattern.  (A numeric 0/1 is an availability like any
other: there is no branch that drops the dictionary.) -/
theorem logit_call (util a : List (Int × ℝ)) (hnd : (util.map (·.1)).Nodup)
    (hkeys : ∀ p ∈ util, ∃ x, dictGet a p.1 = some x) (c : Int) (hc : c ∈ util.map (·.1)) :
    loglogitCall util (some a) c = .ok (logLogit (util.map (·.1)) (dictFun util) (dictFun a) c) ∧
    logitCall util (some a) c = .ok (logitP (util.map (·.1)) (dictFun util) (dictFun a) c) := by
  have h1 : loglogitCall util (some a) c =
      .ok (logLogit (util.map (·.1)) (dictFun util) (dictFun a) c) := by
    rw [loglogitCall_some, bioLogLogit_ok _ _ _ _ (kernelTriples_some a util hkeys)]
    exact kernelValue_map util (dictFun a) hnd c hc
  refine ⟨h1, ?_⟩
  unfold logitCall logitP
  rw [h1]
  rfl

/-- `availability=None` (the `_bioLogLogitFullChoiceSet` branch of `models.logit` / `loglogit`): the
all-ones availability pattern -/
theorem logit_call_none (util : List (Int × ℝ)) (hnd : (util.map (·.1)).Nodup) (c : Int)
    (hc : c ∈ util.map (·.1)) :
    loglogitCall util none c = .ok (logLogit (util.map (·.1)) (dictFun util) (fun _ => 1) c) ∧
    logitCall util none c = .ok (logitP (util.map (·.1)) (dictFun util) (fun _ => 1) c) := by
  have h2 : loglogitCall util none c =
      .ok (logLogit (util.map (·.1)) (dictFun util) (fun _ => 1) c) := by
    rw [loglogitCall_none, bioLogLogit_ok _ _ _ _ (kernelTriples_none util)]
    have := kernelValue_map util (fun _ => (1 : ℝ)) hnd c hc
    simpa using this
  refine ⟨h2, ?_⟩
  unfold logitCall logitP
  rw [h2]
  rfl

example : ([(7, (0.5 : ℝ)), (3, 1), (12, -2)].map (·.1)).Nodup ∧
    (∀ p ∈ [(7, (0.5 : ℝ)), (3, 1), (12, -2)], ∃ x, dictGet [(12, (1 : ℝ)), (7, 0), (3, 1)] p.1 = some x) := by
  refine ⟨by decide, ?_⟩
  intro p hp
  simp only [List.mem_cons, List.not_mem_nil, or_false] at hp
  rcases hp with rfl | rfl | rfl <;> simp [dictGet, List.lookup]

/-- the insertion order of the availability dictionary is irrelevant for every kernel-based call
(logit, MEV, MEV with endogenous sampling), whatever `NumOps` (reals and the driver's `Float`) -/
theorem availability_order_irrelevant {α : Type} [NumOps α] (util logG corr a a' : List (Int × α))
    (hp : a.Perm a') (hnd : (a.map (·.1)).Nodup) (c : Int) :
    loglogitCall util (some a) c = loglogitCall util (some a') c ∧
    logmevCall util logG (some a) c = logmevCall util logG (some a') c ∧
    logmevESCall util logG corr (some a) c = logmevESCall util logG corr (some a') c := by
  have h : dictGet a = dictGet a' := funext (lookup_perm hp hnd)
  unfold loglogitCall logmevCall logmevESCall bioLogLogit kernelTriples
  refine ⟨?_, ?_, ?_⟩ <;> simp only [h]

example : ([(12, (1 : ℝ)), (7, 0), (3, 1)]).Perm [(7, 0), (3, 1), (12, 1)] ∧
    ([(12, (1 : ℝ)), (7, 0), (3, 1)].map (·.1)).Nodup := by
  refine ⟨?_, by decide⟩
  exact (List.perm_cons_append_cons _ (l₁ := [(7, (0 : ℝ)), (3, 1)]) (l₂ := []) (List.Perm.refl _)).trans (by simp)

/-- an alternative of `util` without an entry in the availability dictionary: `KeyError`, never a
silent default -/
theorem availability_key_missing {α : Type} [NumOps α] (util a : List (Int × α))
    (h : ∃ p ∈ util, dictGet a p.1 = none) (c : Int) :
    loglogitCall util (some a) c = .error "KeyError" := by
  rw [loglogitCall_some, bioLogLogit_error _ _ _ _ (kernelTriples_missing a util h)]

/-- evaluation of `models.loglogit(util, av, c)` (`get_value_c`, `BIOGEME`): the audit refuses
dictionaries whose key sets differ (`BiogemeError`); when they agree — in whatever insertion order —
the value is the semantic kernel; the `KeyError` of `get_signature` is unreachable -/
theorem logit_evaluated (util a : List (Int × ℝ)) (hnd : (util.map (·.1)).Nodup) (c : Int)
    (hc : c ∈ util.map (·.1)) :
    (keysAgree util a = true →
      loglogitEval util (some a) c = .ok (logLogit (util.map (·.1)) (dictFun util) (dictFun a) c)) ∧
    (keysAgree util a = false → loglogitEval util (some a) c = .error "BiogemeError") ∧
    loglogitEval util none c = .ok (logLogit (util.map (·.1)) (dictFun util) (fun _ => 1) c) :=
  ⟨fun h => by
      rw [loglogitEval_agree util a c h]
      exact (logit_call util a hnd (keysAgree_keys util a h) c hc).1,
   loglogitEval_disagree util a c,
   by
      rw [loglogitEval_none]
      exact (logit_call_none util hnd c hc).1⟩

/-- `models.logmev` / `logmev_endogenous_sampling` on the dictionaries the user wrote (`log_gi` and the
corrections looked up by key, availability dictionary in any insertion order): the value is the
semantic `logMev` / `logMevES` of the theorems on the functions the dictionaries denote -/
theorem mev_call (util logG corr a : List (Int × ℝ)) (hnd : (util.map (·.1)).Nodup)
    (hg : ∀ p ∈ util, ∃ g, dictGet logG p.1 = some g) (hw : ∀ p ∈ util, ∃ w, dictGet corr p.1 = some w)
    (hkeys : ∀ p ∈ util, ∃ x, dictGet a p.1 = some x) (c : Int) (hc : c ∈ util.map (·.1)) :
    logmevCall util logG (some a) c =
      .ok (logMev (util.map (·.1)) (dictFun util) (dictFun logG) (dictFun a) c) ∧
    logmevESCall util logG corr (some a) c =
      .ok (logMevES (util.map (·.1)) (dictFun util) (dictFun logG) (dictFun corr) (dictFun a) c) := by
  constructor
  · have hh : hDict util logG = .ok (util.map fun p => (p.1, p.2 + dictFun logG p.1)) := by
      unfold hDict
      apply mapKeys_ok (fun i v => (dictGet logG i).map fun g => v + g) (fun i v => v + dictFun logG i)
      intro p hp
      obtain ⟨g, hgp⟩ := hg p hp
      simp [dictFun, hgp]
    have hk : (util.map fun p => (p.1, p.2 + dictFun logG p.1)).map (·.1) = util.map (·.1) :=
      keys_mapped util (fun i v => v + dictFun logG i)
    rw [logmevCall_ok _ _ _ _ _ hh]
    have h1 := (logit_call (util.map fun p => (p.1, p.2 + dictFun logG p.1)) a
      (by rw [hk]; exact hnd)
      (fun q hq => by
        obtain ⟨p, hp, rfl⟩ := List.mem_map.1 hq
        exact hkeys p hp) c (by rw [hk]; exact hc)).1
    rw [h1, hk]
    congr 1
    unfold logMev
    apply logLogit_congr_on _ _ _ _ _ hc
    intro i hi
    obtain ⟨p, hp, rfl⟩ := List.mem_map.1 hi
    rw [dictFun_mapped util (fun i v => v + dictFun logG i) hnd p hp, dictFun_self util hnd p hp]
  · have hh : hDictES util logG corr =
        .ok (util.map fun p => (p.1, p.2 + dictFun logG p.1 + dictFun corr p.1)) := by
      unfold hDictES
      apply mapKeys_ok
        (fun i v => (dictGet logG i).bind fun g => (dictGet corr i).map fun w => v + g + w)
        (fun i v => v + dictFun logG i + dictFun corr i)
      intro p hp
      obtain ⟨g, hgp⟩ := hg p hp
      obtain ⟨w, hwp⟩ := hw p hp
      simp [dictFun, hgp, hwp]
    have hk : (util.map fun p => (p.1, p.2 + dictFun logG p.1 + dictFun corr p.1)).map (·.1) =
        util.map (·.1) := keys_mapped util (fun i v => v + dictFun logG i + dictFun corr i)
    rw [logmevESCall_ok _ _ _ _ _ _ hh, ← loglogitCall_some]
    have h1 := (logit_call (util.map fun p => (p.1, p.2 + dictFun logG p.1 + dictFun corr p.1)) a
      (by rw [hk]; exact hnd)
      (fun q hq => by
        obtain ⟨p, hp, rfl⟩ := List.mem_map.1 hq
        exact hkeys p hp) c (by rw [hk]; exact hc)).1
    rw [h1, hk]
    congr 1
    unfold logMevES
    apply logLogit_congr_on _ _ _ _ _ hc
    intro i hi
    obtain ⟨p, hp, rfl⟩ := List.mem_map.1 hi
    rw [dictFun_mapped util (fun i v => v + dictFun logG i + dictFun corr i) hnd p hp,
      dictFun_self util hnd p hp]

/-- MEV with the correction for endogenous sampling (`logmev_endogenous_sampling`,
`mev_endogenous_sampling`), arbitrary `ln G_i` and arbitrary correction terms: a distribution over the
available alternatives, and the log version is the logarithm of the probability version -/
theorem mev_es_distribution (alts : List Int) (V logG corr av : Int → ℝ) :
    (∀ c ∈ alts, 0 ≤ mevESP alts V logG corr av c ∧ mevESP alts V logG corr av c ≤ 1) ∧
    ((∃ i ∈ alts, av i ≠ 0) → (alts.map (mevESP alts V logG corr av)).sum = 1) ∧
    (∀ c, av c = 0 → mevESP alts V logG corr av c = 0 ∧ logMevES alts V logG corr av c = none) ∧
    (∀ c, av c ≠ 0 → ∃ l, logMevES alts V logG corr av c = some l ∧
        Real.exp l = mevESP alts V logG corr av c ∧ Real.log (mevESP alts V logG corr av c) = l) :=
  ⟨fun c hc => logit_range alts _ av c hc,
   fun h => logit_sum_one alts _ av h,
   fun c h => logit_unavailable_zero alts _ av c h,
   fun c h => log_logitP alts _ av c ((avail_iff av c).2 h)⟩

/-- without correction, or with the same correction for every alternative, it is the MEV model -/
theorem mev_es_neutral_correction (alts : List Int) (V logG av : Int → ℝ) (k : ℝ) (c : Int)
    (hc : c ∈ alts) :
    logMevES alts V logG (fun _ => 0) av c = logMev alts V logG av c ∧
    mevESP alts V logG (fun _ => k) av c = mevP alts V logG av c := by
  refine ⟨logMevES_zero alts V logG av c, ?_⟩
  rw [mevESP_eq_logitP, mevP_eq_logitP]
  exact logitP_shift_on alts _ _ av k c hc (fun _ _ _ => rfl)

/-- the correction reweights the MEV distribution: `P^ES_c · Σ_j P_j e^{ω_j} = P_c e^{ω_c}`
(this is the relation the harness applies to the real outputs of `mev_endogenous_sampling` and `mev`) -/
theorem mev_es_reweight (alts : List Int) (V logG corr av : Int → ℝ) (c : Int) (hc : c ∈ alts) :
    mevESP alts V logG corr av c *
        (alts.map fun j => mevP alts V logG av j * Real.exp (corr j)).sum =
      mevP alts V logG av c * Real.exp (corr c) :=
  mevES_reweight alts V logG corr av c hc

/-- a nest with exactly one (available) alternative is the same as leaving the alternative alone:
`ln G_i = 0` without scale, `log mu + (mu − 1) V_i` with the scale `mu`, whatever its own `mu_m ≠ 0` -/
theorem singleton_nest_is_alone (nests : List (Nest ℝ)) (mu : ℝ) (V av : Int → ℝ) (i : Int)
    (m : Nest ℝ) (h : findNest nests i = some m) (hm : m.alts = [i]) (hav : av i ≠ 0)
    (hmu : m.mu ≠ 0) :
    nestedLogG nests V av i = 0 ∧
    nestedMuLogG nests mu V av i = Real.log mu + (mu - 1) * V i ∧
    nestedLogG nests V av i = nestedLogG [] V av i ∧
    nestedMuLogG nests mu V av i = nestedMuLogG [] mu V av i := by
  have hav' := (avail_iff av i).2 hav
  have h1 := nestedLogG_singleton nests V av i m h hm hav' hmu
  have h2 := nestedMuLogG_singleton nests mu V av i m h hm hav' hmu
  refine ⟨h1, h2, ?_, ?_⟩
  · rw [h1, nestedLogG_none [] V av i rfl]
  · rw [h2, nestedMuLogG_none [] mu V av i rfl]

example : findNest [(⟨1.5, [7, 12]⟩ : Nest ℝ), ⟨2.5, [3]⟩] 3 = some ⟨2.5, [3]⟩ := by
  simp [findNest]

/-- a nest object that passed its constructor (no member outside the choice set) always passes
`check_union`, hence `check_validity`: the cross-nested functions never refuse at that step (the
failure branch of `check_union` is unreachable through the public constructors) -/
theorem validity_after_constructor {ν : Type} (altsOf : ν → List Int) (utilKeys : List Int)
    (arg : NestsArg ν) (o : NestsObj ν) (h : resolve altsOf utilKeys arg = .ok o) :
    checkValidity o.choiceSet (o.nests.map altsOf) = true := by
  unfold checkValidity
  cases arg with
  | object cs specs =>
    unfold resolve at h
    cases hc : convertSpecs specs with
    | error e => simp only [hc, bind, Except.bind] at h; cases h
    | ok ns =>
      simp only [hc, bind, Except.bind] at h
      exact checkUnion_of_mkNests altsOf cs ns o h
  | legacy specs =>
    unfold resolve at h
    cases hc : convertSpecs specs with
    | error e => simp only [hc, bind, Except.bind] at h; cases h
    | ok ns =>
      simp only [hc, bind, Except.bind] at h
      exact checkUnion_of_mkNests altsOf utilKeys ns o h

/-- `ordered_likelihood` as called: a threshold that is not a `Beta` is refused, a `Beta` (free or
fixed, with or without bounds) gives the dictionary of the theorems below exactly when there are at
least two discrete values -/
theorem ordered_call_defined (F : ℝ → ℝ) (x tau : ℝ) (diffOf : Int → ℝ) (labels : List Int) :
    orderedCall false F x tau diffOf labels = .error "BiogemeError" ∧
    orderedCall true F x tau diffOf labels = orderedLikelihood F x tau diffOf labels ∧
    (2 ≤ labels.length → ∃ d, orderedCall true F x tau diffOf labels = .ok d) := by
  refine ⟨rfl, rfl, fun h => ?_⟩
  match labels, h with
  | a :: b :: r, _ => exact ⟨_, orderedLikelihood_cons F x tau diffOf a (b :: r) (by simp)⟩

/-! ## log versions -/

/-- each log-probability function is the logarithm of the probability function: for an available
chosen alternative it is a real number `l` with `exp l = P` and `log P = l`; for an unavailable one
both are `log 0` / `0`.  (`lognested`, `lognested_mev_mu`, `logcnl`, `logcnlmu`, `logmev` are all
`logMev` on their `ln G_i`; stated once for arbitrary `logG`.) -/
theorem log_versions (alts : List Int) (V logG av : Int → ℝ) (c : Int) :
    (av c ≠ 0 → ∃ l, logMev alts V logG av c = some l ∧ Real.exp l = mevP alts V logG av c ∧
        Real.log (mevP alts V logG av c) = l) ∧
    (av c = 0 → logMev alts V logG av c = none ∧ mevP alts V logG av c = 0) :=
  ⟨fun h => log_logitP alts _ av c ((avail_iff av c).2 h),
   fun h => ⟨(logit_unavailable_zero alts _ av c h).2, (logit_unavailable_zero alts _ av c h).1⟩⟩

/-- the named log versions are this `logMev` of the same `ln G_i` as the probability versions -/
theorem log_versions_named (nests : List (Nest ℝ)) (cn : List (CNest ℝ)) (mu : ℝ) (alts : List Int)
    (V av : Int → ℝ) (c : Int) :
    nestedP nests alts V av c = expL (logNestedP nests alts V av c) ∧
    nestedMuP nests mu alts V av c = expL (logNestedMuP nests mu alts V av c) ∧
    cnlP cn alts V av c = expL (logCnlP cn alts V av c) ∧
    cnlMuP cn mu alts V av c = expL (logCnlMuP cn mu alts V av c) ∧
    logitP alts V av c = expL (logLogit alts V av c) :=
  ⟨rfl, rfl, rfl, rfl, rfl⟩

/-! ## ordered models -/

/-- the probabilities of the discrete values telescope to one, for *any* function `F`, threshold
and threshold differences; the keys of the result are the discrete values -/
theorem ordered_sum_one (F : ℝ → ℝ) (x tau : ℝ) (diffOf : Int → ℝ) (labels : List Int)
    (d : List (Int × ℝ)) (hnd : labels.Nodup)
    (h : orderedLikelihood F x tau diffOf labels = .ok d) :
    (d.map Prod.snd).sum = 1 ∧ d.map Prod.fst = labels :=
  orderedLikelihood_sum F x tau diffOf labels d hnd h

/-- they lie in [0,1] when `F` is monotone with values in [0,1] and the differences are `≥ 0` -/
theorem ordered_range (F : ℝ → ℝ) (x tau : ℝ) (diffOf : Int → ℝ) (labels : List Int)
    (d : List (Int × ℝ)) (hmono : Monotone F) (h01 : ∀ t, 0 ≤ F t ∧ F t ≤ 1)
    (hd : ∀ k, 0 ≤ diffOf k) (h : orderedLikelihood F x tau diffOf labels = .ok d) :
    ∀ p ∈ d, 0 ≤ p.2 ∧ p.2 ≤ 1 :=
  orderedLikelihood_range F x tau diffOf labels d hmono h01 hd h

/-- the function returns a dict exactly when there are at least two discrete values -/
theorem ordered_defined (F : ℝ → ℝ) (x tau : ℝ) (diffOf : Int → ℝ) (labels : List Int) :
    (2 ≤ labels.length → ∃ d, orderedLikelihood F x tau diffOf labels = .ok d) ∧
    (labels.length < 2 → orderedLikelihood F x tau diffOf labels = .error "BiogemeError") := by
  constructor
  · intro h
    match labels, h with
    | a :: b :: r, _ => exact ⟨_, orderedLikelihood_cons F x tau diffOf a (b :: r) (by simp)⟩
  · exact orderedLikelihood_error F x tau diffOf labels

/-- the logistic cdf of `distributions.logisticcdf` and Φ satisfy the hypotheses of `ordered_range` -/
theorem cdf_hypotheses :
    (Monotone (logisticCdf : ℝ → ℝ) ∧ ∀ t : ℝ, 0 ≤ logisticCdf t ∧ logisticCdf t ≤ 1) ∧
    (Monotone (Num.normalCdf : ℝ → ℝ) ∧ ∀ t : ℝ, 0 ≤ Num.normalCdf t ∧ Num.normalCdf t ≤ 1) :=
  ⟨⟨logisticCdf_mono, fun t => ⟨logisticCdf_nonneg t, logisticCdf_le_one t⟩⟩,
   ⟨NumR.Phi_mono, fun t => ⟨NumR.Phi_nonneg t, NumR.Phi_le_one t⟩⟩⟩

/-- ordered logit and ordered probit are distributions over the discrete values -/
theorem ordered_logit_probit_distribution (x tau : ℝ) (diffOf : Int → ℝ) (labels : List Int)
    (hnd : labels.Nodup) (hd : ∀ k, 0 ≤ diffOf k) (d : List (Int × ℝ)) :
    (orderedLikelihood logisticCdf x tau diffOf labels = .ok d →
      (d.map Prod.snd).sum = 1 ∧ ∀ p ∈ d, 0 ≤ p.2 ∧ p.2 ≤ 1) ∧
    (orderedLikelihood Num.normalCdf x tau diffOf labels = .ok d →
      (d.map Prod.snd).sum = 1 ∧ ∀ p ∈ d, 0 ≤ p.2 ∧ p.2 ≤ 1) :=
  ⟨fun h => ⟨(ordered_sum_one _ x tau diffOf labels d hnd h).1,
      ordered_range _ x tau diffOf labels d cdf_hypotheses.1.1 cdf_hypotheses.1.2 hd h⟩,
   fun h => ⟨(ordered_sum_one _ x tau diffOf labels d hnd h).1,
      ordered_range _ x tau diffOf labels d cdf_hypotheses.2.1 cdf_hypotheses.2.2 hd h⟩⟩

example : ([1, 2, 5, 9] : List Int).Nodup ∧ (2 ≤ ([1, 2, 5, 9] : List Int).length) := by decide

end C05
