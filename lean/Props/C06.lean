/-
C06 — the model family is consistent: special cases and generating functions agree.
Property theorems only (helper lemmas in Proofs/Models*.lean); `ℝ` instance of the definitions of
Model/Models.lean that Driver/C06.lean runs on `Float`.
-/
import Model.Models
import Proofs.Models
import Proofs.ModelsNested
import Proofs.ModelsCnl
import Proofs.ModelsReduce
import Proofs.ModelsSingle
import Proofs.ModelsTable
import Proofs.ModelsGen
import Proofs.ModelsNests
import Proofs.ModelsFamily

open Models

namespace C06

/-- a nested logit whose nest parameters all equal one is the logit model (any nests, any
availabilities, every alternative) -/
theorem nested_mu_one (nests : List (Nest ℝ)) (alts : List Int) (V av : Int → ℝ) (c : Int)
    (h1 : ∀ m ∈ nests, m.mu = 1) :
    nestedP nests alts V av c = logitP alts V av c ∧
      logNestedP nests alts V av c = logLogit alts V av c := by
  have : (fun i => V i + nestedLogG nests V av i) = V := by
    funext i
    rw [nestedLogG_mu_one nests V av i h1, add_zero]
  constructor
  · rw [nestedP_eq_mevP, mevP_eq_logitP, this]
  · unfold logNestedP logMev
    rw [this]

example : ∀ m ∈ [(⟨1, [7, 12]⟩ : Nest ℝ), ⟨1, [3]⟩], m.mu = 1 := by
  intro m hm
  simp only [List.mem_cons, List.not_mem_nil, or_false] at hm
  rcases hm with rfl | rfl <;> rfl

/-- a cross-nested logit in which every alternative belongs wholly (alpha = 1) to one nest gives
the probabilities of the nested logit with the same nests (disjoint nests without repeated
members, 0/1 availabilities) -/
theorem cnl_degenerate (nests : List (Nest ℝ)) (alts : List Int) (V av : Int → ℝ) (c : Int)
    (hc : c ∈ alts)
    (hpw : nests.Pairwise (fun a b => ∀ j, j ∈ a.alts → j ∉ b.alts))
    (hnd : ∀ n ∈ nests, n.alts.Nodup) (hmu : ∀ m ∈ nests, m.mu ≠ 0)
    (h01 : ∀ j, av j = 0 ∨ av j = 1) :
    cnlP (nests.map toCNest) alts V av c = nestedP nests alts V av c :=
  cnlP_toCNest nests alts V av c hc hpw hnd hmu h01

/-- more generally, with an allocation `a i > 0` of alternative `i` to its only nest, the
cross-nested logit is the nested logit on the utilities `V_i + log (a i)` (`a i = 1` for the
alternatives outside every nest, which have no allocation parameter) -/
theorem cnl_single_nest (a : Int → ℝ) (nests : List (Nest ℝ)) (alts : List Int) (V av : Int → ℝ)
    (c : Int) (hc : c ∈ alts)
    (hpw : nests.Pairwise (fun x y => ∀ j, j ∈ x.alts → j ∉ y.alts))
    (hnd : ∀ n ∈ nests, n.alts.Nodup) (hmu : ∀ m ∈ nests, m.mu ≠ 0)
    (h01 : ∀ j, av j = 0 ∨ av j = 1) (ha : ∀ j, 0 < a j)
    (ha1 : ∀ j, (∀ m ∈ nests, j ∉ m.alts) → a j = 1) :
    cnlP (nests.map (toCNestA a)) alts V av c =
      nestedP nests alts (fun j => V j + Real.log (a j)) av c :=
  cnlP_toCNestA a nests alts V av c hc hpw hnd hmu h01 ha ha1

/-- allocations satisfying the hypotheses: 0.5 for alternative 7 (in a nest), 1 elsewhere -/
example : let a : Int → ℝ := fun j => if j = 7 then 0.5 else 1
    (∀ j, 0 < a j) ∧ (∀ j, (∀ m ∈ [(⟨1.5, [7, 12]⟩ : Nest ℝ), ⟨2, [3]⟩], j ∉ m.alts) → a j = 1) := by
  intro a
  constructor
  · intro j
    by_cases h : j = 7
    · simp only [a, h, if_true]; norm_num
    · simp [a, h]
  · intro j hj
    have : j ≠ 7 := fun h => hj ⟨1.5, [7, 12]⟩ (by simp) (by simp [h])
    simp [a, this]

/-- the same reduction with the explicit scale `mu > 0`: `cnlmu` on single-nest allocations is
`nested_mev_mu` on the utilities `V_i + log (a i) / mu` (with `a = 1`: degenerate cnlmu = nested-mu) -/
theorem cnl_mu_single_nest (a : Int → ℝ) (nests : List (Nest ℝ)) (mu : ℝ) (alts : List Int)
    (V av : Int → ℝ) (c : Int) (hc : c ∈ alts)
    (hpw : nests.Pairwise (fun x y => ∀ j, j ∈ x.alts → j ∉ y.alts))
    (hnd : ∀ n ∈ nests, n.alts.Nodup) (hmum : ∀ m ∈ nests, m.mu ≠ 0) (hmu : 0 < mu)
    (h01 : ∀ j, av j = 0 ∨ av j = 1) (ha : ∀ j, 0 < a j)
    (ha1 : ∀ j, (∀ m ∈ nests, j ∉ m.alts) → a j = 1) :
    cnlMuP (nests.map (toCNestA a)) mu alts V av c =
      nestedMuP nests mu alts (fun j => V j + Real.log (a j) / mu) av c :=
  cnlMuP_toCNestA a nests mu alts V av c hc hpw hnd hmum hmu h01 ha ha1

/-- the disjointness hypothesis is what `check_partition` enforces before any nested model is built -/
theorem check_partition_sound (cs : List Int) (nests : List (Nest ℝ))
    (h : checkPartition cs (nests.map Nest.alts) = true) :
    nests.Pairwise (fun a b => ∀ j, j ∈ a.alts → j ∉ b.alts) ∧
    (∀ i ∈ cs, (∃ m ∈ nests, i ∈ m.alts) ∨ i ∈ aloneOf cs (nests.map Nest.alts)) ∧
    (∀ m ∈ nests, ∀ j, j ∈ m.alts → j ∉ aloneOf cs (nests.map Nest.alts)) := by
  have h' := h
  unfold checkPartition at h'
  simp only [Bool.and_eq_true] at h'
  refine ⟨pairwise_nests nests (checkPartition_disjoint cs _ h), ?_, ?_⟩
  · intro i hi
    rcases checkUnion_cover cs _ h'.1 i hi with h1 | h1
    · exact Or.inl ((mem_unionAlts_nests nests i).1 h1)
    · exact Or.inr h1
  · intro m hm j hj
    exact checkIntersection_alone cs _ h'.2 m.alts (List.mem_map.2 ⟨m, hm, rfl⟩) j hj

example : checkPartition [7, 3, 12, 5] [[7, 12], [3]] = true ∧
    checkPartition [7, 3, 12] [[7, 12], [3, 7]] = false := by decide

/-- explicit scale one = unscaled version: nested logit (every alternative, no hypothesis) -/
theorem scale_one_nested (nests : List (Nest ℝ)) (alts : List Int) (V av : Int → ℝ) (c : Int) :
    nestedMuP nests 1 alts V av c = nestedP nests alts V av c ∧
      logNestedMuP nests 1 alts V av c = logNestedP nests alts V av c := by
  have : nestedMuLogG nests 1 V av = nestedLogG nests V av := by
    funext i; exact nestedMuLogG_one nests V av i
  constructor
  · rw [nestedMuP_eq_mevP, nestedP_eq_mevP, this]
  · unfold logNestedMuP logNestedP
    rw [this]

/-- explicit scale one = unscaled version: cross-nested logit, every well-formed structure
(alpha, availabilities ≥ 0, nest parameters ≠ 0).  An alternative whose membership is zero in every
nest that lists it (an alternative outside every nest in a membership table) is "alone in its own
nest" in both versions; any other listed alternative has a positive membership. -/
theorem scale_one_cnl (nests : List (CNest ℝ)) (alts : List Int) (V av : Int → ℝ) (c : Int)
    (hc : c ∈ alts) (ok : CnlOK nests av) :
    cnlMuP nests 1 alts V av c = cnlP nests alts V av c :=
  cnlMuP_one_all nests alts V av c hc ok

/-- a well-formed structure with an alternative (5) of zero membership in every nest -/
example : CnlOK [(⟨1.5, [(1, 1), (2, 0.5), (5, 0)]⟩ : CNest ℝ), ⟨2, [(2, 0.5), (3, 1), (5, 0)]⟩]
    (fun _ => 1) ∧
    zeroMember [(⟨1.5, [(1, 1), (2, 0.5), (5, 0)]⟩ : CNest ℝ), ⟨2, [(2, 0.5), (3, 1), (5, 0)]⟩] 5 = true := by
  refine ⟨⟨?_, fun _ => zero_le_one, ?_⟩, ?_⟩
  · intro m hm p hp
    simp only [List.mem_cons, List.not_mem_nil, or_false] at hm
    rcases hm with rfl | rfl <;>
      (simp only [List.mem_cons, List.not_mem_nil, or_false] at hp
       rcases hp with rfl | rfl | rfl <;> norm_num)
  · intro m hm
    simp only [List.mem_cons, List.not_mem_nil, or_false] at hm
    rcases hm with rfl | rfl <;> norm_num
  · rw [zeroMember_iff]
    intro m hm p hp hpi
    simp only [List.mem_cons, List.not_mem_nil, or_false] at hm
    rcases hm with rfl | rfl <;>
      (simp only [List.mem_cons, List.not_mem_nil, or_false] at hp
       rcases hp with rfl | rfl | rfl <;> simp_all)

/-- **memberships written as a table**: listing in a nest alternatives that do not belong to it,
with alpha 0 (`extra m`: any list — the rest of the choice set gives the full table), changes no
cross-nested probability, without and with the explicit scale.  In particular an alternative
outside every nest, listed with alpha 0 everywhere, is treated as alone. -/
theorem cnl_table (extra : CNest ℝ → List Int) (nests : List (CNest ℝ)) (alts : List Int)
    (V av : Int → ℝ) (c : Int) (hmu : ∀ m ∈ nests, m.mu ≠ 0) :
    cnlP (nests.map (withZeros extra)) alts V av c = cnlP nests alts V av c :=
  cnlP_withZeros extra nests alts V av c hmu

theorem cnl_mu_table (extra : CNest ℝ → List Int) (nests : List (CNest ℝ)) (mu : ℝ)
    (alts : List Int) (V av : Int → ℝ) (c : Int) (hmu : ∀ m ∈ nests, m.mu ≠ 0) (hmu0 : mu ≠ 0) :
    cnlMuP (nests.map (withZeros extra)) mu alts V av c = cnlMuP nests mu alts V av c :=
  cnlMuP_withZeros extra nests mu alts V av c hmu hmu0

/-- the full table over the choice set `[7, 3, 12, 5]` of a nest with members 7 and 12 -/
example : withZeros (fun m => [7, 3, 12, 5].filter fun i => !m.alts.contains i)
    (⟨1.5, [(7, 1), (12, 1)]⟩ : CNest ℝ) = ⟨1.5, [(7, 1), (12, 1), (3, 0), (5, 0)]⟩ := by
  simp [withZeros, CNest.alts]

/-- **whole memberships written as a full table = nested logit**: alpha 1 in the nest of the
alternative, 0 in the nests listed in `extra` (all the others), alternatives outside every nest
with alpha 0 everywhere -/
theorem cnl_degenerate_table (extra : CNest ℝ → List Int) (nests : List (Nest ℝ)) (alts : List Int)
    (V av : Int → ℝ) (c : Int) (hc : c ∈ alts)
    (hpw : nests.Pairwise (fun a b => ∀ j, j ∈ a.alts → j ∉ b.alts))
    (hnd : ∀ n ∈ nests, n.alts.Nodup) (hmu : ∀ m ∈ nests, m.mu ≠ 0)
    (h01 : ∀ j, av j = 0 ∨ av j = 1) :
    cnlP ((nests.map toCNest).map (withZeros extra)) alts V av c = nestedP nests alts V av c := by
  rw [cnl_table extra _ alts V av c (by
    intro m hm
    obtain ⟨n, hn, rfl⟩ := List.mem_map.1 hm
    exact hmu n hn)]
  exact cnlP_toCNest nests alts V av c hc hpw hnd hmu h01

/-- the same with the explicit scale `mu > 0` (and allocations `a i > 0`; `a = 1`: whole memberships) -/
theorem cnl_mu_single_nest_table (extra : CNest ℝ → List Int) (a : Int → ℝ) (nests : List (Nest ℝ))
    (mu : ℝ) (alts : List Int) (V av : Int → ℝ) (c : Int) (hc : c ∈ alts)
    (hpw : nests.Pairwise (fun x y => ∀ j, j ∈ x.alts → j ∉ y.alts))
    (hnd : ∀ n ∈ nests, n.alts.Nodup) (hmum : ∀ m ∈ nests, m.mu ≠ 0) (hmu : 0 < mu)
    (h01 : ∀ j, av j = 0 ∨ av j = 1) (ha : ∀ j, 0 < a j)
    (ha1 : ∀ j, (∀ m ∈ nests, j ∉ m.alts) → a j = 1) :
    cnlMuP ((nests.map (toCNestA a)).map (withZeros extra)) mu alts V av c =
      nestedMuP nests mu alts (fun j => V j + Real.log (a j) / mu) av c := by
  rw [cnl_mu_table extra _ mu alts V av c (by
    intro m hm
    obtain ⟨n, hn, rfl⟩ := List.mem_map.1 hm
    exact hmum n hn) hmu.ne']
  exact cnlMuP_toCNestA a nests mu alts V av c hc hpw hnd hmum hmu h01 ha ha1

/-- nests written as legacy tuples are converted to the nests written as objects, with
`choice_set = list(util)`: the two calls build the same validated nest object, hence the same
`ln G_i`, probabilities and errors -/
theorem tuple_syntax {ν : Type} (altsOf : ν → List Int) (utilKeys : List Int) (ns : List ν) :
    convertSpecs (ns.map Spec.tup) = .ok ns ∧ convertSpecs (ns.map Spec.obj) = .ok ns ∧
    resolve altsOf utilKeys (.legacy (ns.map Spec.tup)) =
      resolve altsOf utilKeys (.object utilKeys (ns.map Spec.obj)) :=
  ⟨convertSpecs_tup ns, convertSpecs_obj ns, resolve_tuple_eq_object altsOf utilKeys ns⟩

theorem tuple_syntax_models (utilKeys : List Int) (ns : List (Nest ℝ)) (cn : List (CNest ℝ)) (b : Bool) :
    nestedSetup utilKeys (.legacy (ns.map Spec.tup)) b =
      nestedSetup utilKeys (.object utilKeys (ns.map Spec.obj)) b ∧
    cnlSetup utilKeys (.legacy (cn.map Spec.tup)) b =
      cnlSetup utilKeys (.object utilKeys (cn.map Spec.obj)) b := by
  unfold nestedSetup cnlSetup
  rw [resolve_tuple_eq_object, resolve_tuple_eq_object]
  exact ⟨rfl, rfl⟩

/-- the expression built by `get_mev_generating_for_nested` on the utilities is the generating
function `G(y) = Σ_m (Σ_{j∈m, available} y_j^{mu_m})^{1/mu_m} + Σ_{i alone} y_i` at `y = exp V` -/
theorem generating_is_G (nests : List (Nest ℝ)) (alone : List Int) (V av : Int → ℝ) :
    nestedGofV nests alone V av = nestedG nests alone av (fun j => Real.exp (V j)) :=
  nestedGofV_eq nests alone V av

/-- **the published terms are the log-derivatives of the published generating function**:
for an alternative `i` of the choice set (alone, or an available member of a nest),
`∂G/∂y_i (exp V) = exp(ln G_i)` with `ln G_i` from `get_mev_for_nested` -/
theorem generating_deriv (nests : List (Nest ℝ)) (cs : List Int) (V av : Int → ℝ) (i : Int)
    (hi : i ∈ cs)
    (hpw : nests.Pairwise (fun a b => ∀ j, j ∈ a.alts → j ∉ b.alts))
    (hnd : ∀ n ∈ nests, n.alts.Nodup) (hmu : ∀ n ∈ nests, n.mu ≠ 0)
    (hav : (∃ m ∈ nests, i ∈ m.alts) → av i ≠ 0) :
    HasDerivAt
      (fun t => nestedG nests (aloneOf cs (nests.map Nest.alts)) av
        (Function.update (fun j => Real.exp (V j)) i t))
      (Real.exp (nestedLogG nests V av i)) (Real.exp (V i)) :=
  nestedG_hasDerivAt nests cs V av i hi hpw hnd hmu (fun h => (avail_iff av i).2 (hav h))

/-- the hypotheses of `generating_deriv` / `cnl_degenerate` hold for a structure with a nest
and an alone alternative -/
example :
    [(⟨1.5, [7, 12]⟩ : Nest ℝ), ⟨2, [3]⟩].Pairwise (fun a b => ∀ j, j ∈ a.alts → j ∉ b.alts) ∧
    (∀ n ∈ [(⟨1.5, [7, 12]⟩ : Nest ℝ), ⟨2, [3]⟩], n.alts.Nodup) ∧
    (∀ n ∈ [(⟨1.5, [7, 12]⟩ : Nest ℝ), ⟨2, [3]⟩], n.mu ≠ 0) := by
  refine ⟨?_, ?_, ?_⟩
  · simp
  · intro n hn
    simp only [List.mem_cons, List.not_mem_nil, or_false] at hn
    rcases hn with rfl | rfl <;> simp
  · intro n hn
    simp only [List.mem_cons, List.not_mem_nil, or_false] at hn
    rcases hn with rfl | rfl <;> norm_num

/-! ## round 3 -/

/-- **Euler form of the published generating function**: `G` is homogeneous of degree one, so
`G(y) = Σ_i y_i · exp(ln G_i)` — the sum running over the AVAILABLE members of the nests and over the
alone alternatives (the alternatives `G` depends on), with the published `ln G_i` of
`get_mev_for_nested`.  An emptied nest (no available member) contributes 0 on both sides. -/
theorem generating_euler (nests : List (Nest ℝ)) (cs : List Int) (V av : Int → ℝ)
    (hpw : nests.Pairwise (fun a b => ∀ j, j ∈ a.alts → j ∉ b.alts))
    (hmu : ∀ n ∈ nests, n.mu ≠ 0) :
    nestedG nests (aloneOf cs (nests.map Nest.alts)) av (fun j => Real.exp (V j)) =
      eulerSum nests (aloneOf cs (nests.map Nest.alts)) V av :=
  nestedG_eq_eulerSum nests _ V av hpw hmu (by
    intro i hi m hm him
    rw [mem_aloneOf, mem_unionAlts_nests] at hi
    exact hi.2 ⟨m, hm, him⟩)

/-- **the three published pieces agree**: `P_i = y_i · exp(ln G_i) / G(y)` for an available
alternative, when the keys of `util` are the members of the nests and the alone alternatives and
no alone alternative is unavailable (the published `G` keeps the `y_i` of an alone alternative) -/
theorem nested_euler_probability (nests : List (Nest ℝ)) (cs alts : List Int) (V av : Int → ℝ)
    (c : Int) (hc : c ∈ alts) (hav : av c ≠ 0)
    (hpw : nests.Pairwise (fun a b => ∀ j, j ∈ a.alts → j ∉ b.alts))
    (hmu : ∀ n ∈ nests, n.mu ≠ 0)
    (hperm : alts.Perm (unionAlts (nests.map Nest.alts) ++ aloneOf cs (nests.map Nest.alts)))
    (hal : ∀ i ∈ aloneOf cs (nests.map Nest.alts), av i ≠ 0) :
    nestedP nests alts V av c =
      Real.exp (V c + nestedLogG nests V av c) /
        nestedG nests (aloneOf cs (nests.map Nest.alts)) av (fun j => Real.exp (V j)) := by
  rw [nestedP_eq_mevP, mevP_eq_logitP, logitP_avail _ _ _ _ hc ((avail_iff av c).2 hav),
    denom_eq_eulerSum nests _ alts V av hperm (fun i hi => (avail_iff av i).2 (hal i hi)),
    generating_euler nests cs V av hpw hmu]

example : [7, 3, 12, 5].Perm
    (unionAlts ([(⟨1.5, [7, 12]⟩ : Nest ℝ), ⟨2, [3]⟩].map Nest.alts) ++
      aloneOf [7, 3, 12, 5] ([(⟨1.5, [7, 12]⟩ : Nest ℝ), ⟨2, [3]⟩].map Nest.alts)) := by
  decide

/-- … and the sum must not run over every key of `util`: as soon as one member of a nest is
unavailable, `Σ_{i ∈ util} y_i · exp(ln G_i)` is strictly larger than the published generating
function (the full statement "G = Σ over all keys" is false of the family) -/
theorem euler_all_keys_wrong (nests : List (Nest ℝ)) (cs : List Int) (V av : Int → ℝ)
    (hpw : nests.Pairwise (fun a b => ∀ j, j ∈ a.alts → j ∉ b.alts))
    (hmu : ∀ n ∈ nests, n.mu ≠ 0)
    (m : Nest ℝ) (hm : m ∈ nests) (j : Int) (hj : j ∈ m.alts) (hav : av j = 0) :
    nestedG nests (aloneOf cs (nests.map Nest.alts)) av (fun j => Real.exp (V j)) <
      eulerSumAllKeys nests (aloneOf cs (nests.map Nest.alts)) V av := by
  rw [generating_euler nests cs V av hpw hmu]
  exact eulerSum_lt_allKeys nests _ V av m hm j hj ((avail_false_iff av j).2 hav)

/-- an unavailable member (12) of the nest `[7, 12]` -/
example : (⟨1.5, [7, 12]⟩ : Nest ℝ) ∈ [(⟨1.5, [7, 12]⟩ : Nest ℝ), ⟨2, [3]⟩] ∧
    (12 : Int) ∈ (⟨1.5, [7, 12]⟩ : Nest ℝ).alts ∧ (fun j : Int => if j = 12 then (0 : ℝ) else 1) 12 = 0 := by
  simp

/-- **availability leaves one member in a nest**: the member behaves as an alone alternative
(`ln G_i = 0`, resp. `log mu + (mu - 1) V_i` with explicit scale), whatever the nest parameter -/
theorem nested_single_available (nests : List (Nest ℝ)) (mu : ℝ) (V av : Int → ℝ) (i : Int)
    (m : Nest ℝ) (hm : m ∈ nests) (hi : i ∈ m.alts)
    (hpw : nests.Pairwise (fun a b => ∀ j, j ∈ a.alts → j ∉ b.alts)) (hmu : m.mu ≠ 0)
    (h1 : m.alts.filter (avail av) = [i]) :
    nestedLogG nests V av i = aloneLogG none V i ∧
      nestedMuLogG nests mu V av i = aloneLogG (some mu) V i := by
  have hf := findNest_of_mem nests m i hpw hm hi
  rw [aloneLogG_none, aloneLogG_some]
  exact ⟨nestedLogG_single nests V av i m hf h1 hmu, nestedMuLogG_single nests mu V av i m hf h1 hmu⟩

/-- hence, when the availabilities leave at most one member in every nest, the nested logit is the
logit model (with explicit scale: the logit model on `mu · V`), for any nest parameters -/
theorem nested_sparse_availability (nests : List (Nest ℝ)) (mu : ℝ) (alts : List Int)
    (V av : Int → ℝ) (c : Int) (hc : c ∈ alts)
    (h : ∀ m ∈ nests, (m.alts.filter (avail av)).length ≤ 1) (hmu : ∀ m ∈ nests, m.mu ≠ 0) :
    nestedP nests alts V av c = logitP alts V av c ∧
      nestedMuP nests mu alts V av c = logitP alts (fun j => mu * V j) av c :=
  ⟨nestedP_sparse nests alts V av c hc h hmu, nestedMuP_sparse nests mu alts V av c hc h hmu⟩

/-- a nest of two members of which one is unavailable -/
example : let av : Int → ℝ := fun j => if j = 12 then 0 else 1
    ([7, 12].filter (avail av)) = [7] := by
  intro av
  have h7 : avail av 7 = true := (avail_iff av 7).2 (by simp [av])
  have h12 : avail av 12 = false := (avail_false_iff av 12).2 (by simp [av])
  simp [List.filter, h7, h12]

/-- **legacy nests written with the constant parameter 1** (the "normalisation from the bottom"
scripts): without explicit scale such a nest may be dropped — its members behave as alone
alternatives, every `ln G_i` and every probability is unchanged … -/
theorem unit_nests_droppable (nests : List (Nest ℝ)) (alts : List Int) (V av : Int → ℝ) (c : Int)
    (hpw : nests.Pairwise (fun a b => ∀ j, j ∈ a.alts → j ∉ b.alts)) :
    nestedP (dropUnitNests nests) alts V av c = nestedP nests alts V av c := by
  have : nestedLogG (dropUnitNests nests) V av = nestedLogG nests V av := by
    funext i; exact nestedLogG_dropUnit nests V av i hpw
  rw [nestedP_eq_mevP, nestedP_eq_mevP, this]

/-- … while with an explicit scale `mu` the log-sum of the nest stays:
`ln G_i = log mu + (mu - 1) log Σ_{j ∈ nest, available} exp V_j` … -/
theorem unit_nest_explicit_scale (nests : List (Nest ℝ)) (mu : ℝ) (V av : Int → ℝ) (i : Int)
    (m : Nest ℝ) (hm : m ∈ nests) (hi : i ∈ m.alts)
    (hpw : nests.Pairwise (fun a b => ∀ j, j ∈ a.alts → j ∉ b.alts)) (h1 : m.mu = 1) :
    nestedMuLogG nests mu V av i =
      Real.log mu + (mu - 1) *
        Real.log (((m.alts.filter (avail av)).map fun j => Real.exp (V j)).sum) :=
  nestedMuLogG_unit_nest nests mu V av i m (findNest_of_mem nests m i hpw hm hi) h1

/-- … so that dropping it is wrong there (the full statement "droppable with any scale" is false
of the family): nest `(1, [1, 2])`, `mu = 2`, `V = 0`, everything available -/
theorem unit_nest_not_alone :
    nestedMuLogG [(⟨1, [1, 2]⟩ : Nest ℝ)] 2 (fun _ => 0) (fun _ => 1) 1 ≠
      nestedMuLogG (dropUnitNests [(⟨1, [1, 2]⟩ : Nest ℝ)]) 2 (fun _ => 0) (fun _ => 1) 1 := by
  have hdrop : dropUnitNests [(⟨1, [1, 2]⟩ : Nest ℝ)] = [] := by
    apply List.eq_nil_iff_forall_not_mem.2
    intro m hm
    have := (mem_dropUnitNests _ m).1 hm
    rw [List.mem_singleton] at this
    exact this.2 (by rw [this.1])
  have hav : ([1, 2] : List Int).filter (avail (fun _ => (1 : ℝ))) = [1, 2] :=
    List.filter_eq_self.2 (fun j _ => (avail_iff _ j).2 one_ne_zero)
  rw [hdrop, unit_nest_explicit_scale [(⟨1, [1, 2]⟩ : Nest ℝ)] 2 (fun _ => 0) (fun _ => 1) 1
      ⟨1, [1, 2]⟩ (by simp) (by simp) (by simp) rfl,
    nestedMuLogG_none _ _ _ _ _ (rfl : findNest ([] : List (Nest ℝ)) 1 = none)]
  simp only [hav, List.map_cons, List.map_nil, Real.exp_zero, List.sum_cons, List.sum_nil, mul_zero]
  have h2 : Real.log (1 + (1 + 0)) ≠ 0 := by
    have : (1 : ℝ) + (1 + 0) = 2 := by norm_num
    rw [this]
    exact (Real.log_pos (by norm_num)).ne'
  intro h
  apply h2
  linarith

/-- **membership tables, table view**: `get_alpha_values` (one entry per nest, 0.0 where the nest does
not list the alternative) is the same for a specification in which each nest lists its own members
only and for the one that lists every alternative in every nest with zeros; for whole memberships
it is the indicator table of the nested specification -/
theorem alpha_table (extra : CNest ℝ → List Int) (nests : List (CNest ℝ)) (ns : List (Nest ℝ)) (i : Int) :
    alphaRow (nests.map (withZeros extra)) i = alphaRow nests i ∧
      alphaRow (ns.map toCNest) i = ns.map fun m => if i ∈ m.alts then (1 : ℝ) else 0 :=
  ⟨alphaRow_withZeros extra nests i, alphaRow_toCNest ns i⟩

/-- **correlation of the error terms**: with all nest parameters one (and scale one) two different
alternatives are uncorrelated, as in the logit model the specification reduces to -/
theorem correlation_mu_one (nests : List (Nest ℝ)) (i j : Int) (hij : i ≠ j)
    (h1 : ∀ m ∈ nests, m.mu = 1) : nestedCorr nests 1 i j = 0 :=
  nestedCorr_mu_one nests i j hij h1

end C06
