/-
C07 — estimation returns a feasible point that is a maximum of the stated likelihood.
Property theorems only (helper lemmas in Proofs/Estimate.lean, Proofs/EstimatePlumbing.lean).

PARTIAL BY DESIGN: the optimisers (biogeme_optimization, scipy) are external.  The optimiser is a
parameter of the model; the only thing assumed about it is the recorded contract `OptContract`
(returns a point of the right dimension; inside the box when the algorithm is bound-aware; does
not increase the minimised function).  Convergence is *not* modelled: a non-converging optimiser
that respects the contract is not a violation.  What is proved is the wrapper logic around it and,
over ℝ, that a KKT point of a concave differentiable problem is a global maximum.
-/
import Model.Estimate
import Proofs.Estimate
import Proofs.EstimatePlumbing

open Estimate

namespace C07

/-! ### sign flip -/

/-- **argmin of −L is argmax of L** on any feasible set, and the function/gradient/Hessian
handed to the optimiser are the negated ones (negating twice gives them back). -/
theorem neg_flip (like : Vec ℝ → ℝ) (ev : Vec ℝ → Eval ℝ) (S : Set (Vec ℝ)) (x : Vec ℝ) :
    ((∀ y ∈ S, negF like x ≤ negF like y) ↔ (∀ y ∈ S, like y ≤ like x)) ∧
    negF like x = - like x ∧
    (negFG ev x).1 = - (ev x).f ∧ vneg (negFG ev x).2 = (ev x).g ∧
    (negFGH ev x).1 = - (ev x).f ∧ vneg (negFGH ev x).2.1 = (ev x).g ∧ mneg (negFGH ev x).2.2 = (ev x).h := by
  refine ⟨?_, negF_real like x, ?_, ?_, ?_, ?_, ?_⟩
  · constructor
    · intro h y hy; exact (negF_le_iff like x y).mp (h y hy)
    · intro h y hy; exact (negF_le_iff like x y).mpr (h y hy)
  · simp [negFG]
  · simp [negFG, vneg_vneg]
  · simp [negFGH]
  · simp [negFGH, vneg_vneg]
  · simp [negFGH, mneg_mneg]

/-- the derivative of the minimised function is minus the derivative of the likelihood -/
theorem neg_flip_gradient {n : ℕ} (L : (Fin n → ℝ) → ℝ) (g x : Fin n → ℝ) (h : HasGrad L g x) :
    HasGrad (fun z => - L z) (fun i => - g i) x :=
  hasGrad_neg L g x h

/-! ### result consistency -/

/-- **`estimate` under the optimiser's contract** (every likelihood, every evaluation oracle
that agrees with it, every optimiser): the reported log likelihood is the likelihood at the
reported point; gradient, Hessian and BHHH are those evaluated at that point; the final log
likelihood is not below the initial one; a bound-aware algorithm returns a point of the box;
the point has the dimension of the starting point. -/
theorem result_consistent (like : Vec ℝ → ℝ) (ev : Vec ℝ → Eval ℝ) (fd : Vec ℝ → Mat ℝ) (opt : Optimizer ℝ)
    (bounds : Bounds ℝ) (x0 : Vec ℝ) (aware : Bool) (hev : ∀ x, (ev x).f = like x)
    (hc : OptContract opt aware like ev bounds x0) :
    let r := estimate like ev fd opt bounds x0
    r.logLike = like r.x ∧ r.g = some (ev r.x).g ∧ r.h = some (ev r.x).h ∧ r.bhhh = some (ev r.x).bhhh ∧
    r.initLogLike = some (like x0) ∧ like x0 ≤ r.logLike ∧
    (aware = true → inBox bounds r.x = true) ∧ r.x.length = x0.length := by
  refine ⟨hev _, rfl, ?_, rfl, rfl, ?_, hc.feasible, hc.length⟩
  · simp [estimate, finalHessian_eq]
  · show like x0 ≤ (ev _).f
    rw [hev]
    exact (negF_le_iff like _ x0).mp hc.descent

/-- the same for `quick_estimate` (only the likelihood is evaluated; the initial likelihood is
not recomputed but the final one is not below the likelihood of the starting point) -/
theorem result_consistent_quick (like : Vec ℝ → ℝ) (ev : Vec ℝ → Eval ℝ) (opt : Optimizer ℝ)
    (bounds : Bounds ℝ) (x0 : Vec ℝ) (aware : Bool) (prev : Option ℝ)
    (hc : OptContract opt aware like ev bounds x0) :
    let r := quickEstimate like ev opt bounds x0 prev
    r.logLike = like r.x ∧ r.g = none ∧ r.h = none ∧ r.bhhh = none ∧ r.initLogLike = prev ∧
    like x0 ≤ r.logLike ∧ (aware = true → inBox bounds r.x = true) ∧ r.x.length = x0.length :=
  ⟨rfl, rfl, rfl, rfl, rfl, (negF_le_iff like _ x0).mp hc.descent, hc.feasible, hc.length⟩

/-- the finite-difference fallback of `estimate` never replaces the Hessian (the inner test of
the code looks at the analytical Hessian again): the reported Hessian is always the analytical
one — stated for every number type, Float included -/
theorem fd_fallback_dead {α : Type} [NumOps α] (h fd : Mat α) : finalHessian h fd = h :=
  finalHessian_eq h fd

/-! ### write-back -/

/-- **After estimation** the i-th free parameter holds the i-th estimate, whatever it held
before; a parameter whose name is not estimated (every fixed parameter) is untouched. -/
theorem writeback {α : Type} [NumOps α] (ps : List (Param α)) (names : List String) (x : Vec α)
    (hn : names.Nodup) (hlen : x.length = names.length) (k : Nat) (hk : k < ps.length) :
    (∀ i (hi : i < names.length), (ps[k]).name = names[i] →
        ((writeBack ps (estimates names x))[k]'(by rw [writeBack_length]; exact hk)).value = x[i]'(by omega) ∧
        ((writeBack ps (estimates names x))[k]'(by rw [writeBack_length]; exact hk)).name = names[i] ∧
        ((writeBack ps (estimates names x))[k]'(by rw [writeBack_length]; exact hk)).fixed = (ps[k]).fixed) ∧
    ((ps[k]).name ∉ names →
        (writeBack ps (estimates names x))[k]'(by rw [writeBack_length]; exact hk) = ps[k]) := by
  constructor
  · intro i hi hname
    rw [writeBack_get ps _ k hk]
    unfold updateParam estimates
    rw [hname, lookup_zip_of_nodup names x hn i hi (by omega)]
    exact ⟨rfl, rfl, rfl⟩
  · intro hnot
    rw [writeBack_get ps _ k hk]
    unfold updateParam estimates
    rw [lookup_zip_none names x _ hnot]

/-! ### option plumbing (decision table per algorithm name) -/

/-- the names of `optimization.algorithms` are distinct keys, `'automatic'` runs
`simple_bounds`, every other accepted name runs its own entry -/
theorem algorithm_resolution :
    (∀ a ∈ Algo.all, Algo.parse a.name = some a) ∧ resolve "automatic" = some Algo.simpleBounds ∧
    (∀ a ∈ Algo.all, resolve a.name = some a) :=
  ⟨parse_name, resolve_automatic, resolve_name⟩

/-- which algorithms use the bounds they receive -/
theorem bound_aware_table :
    Algo.all.map (fun a => (a.name, a.boundAware)) =
      [("scipy", true), ("LS-newton", false), ("TR-newton", false), ("LS-BFGS", false), ("TR-BFGS", false),
       ("simple_bounds", true), ("simple_bounds_newton", true), ("simple_bounds_BFGS", true)] :=
  boundAware_table

/-- **Option plumbing, simple-bounds family** (every configuration): radius, enlarging factor
and maximum number of iterations of the TOML file reach the routine; the proportion of
analytical Hessians is 0/1 by model complexity for 'automatic', `second_derivatives` for
'simple_bounds', 1 for '…_newton', 0 for '…_BFGS'; `infeasible_cg` is passed by `BIOGEME` but
no wrapper forwards it. -/
theorem options_plumbing_simple_bounds {α : Type} [NumOps α] (c : Cfg α) (complex : Bool) :
    (c.algorithm = "automatic" → plumb c complex = some (.simpleBounds,
      { routine := "simple_bounds_newton_algorithm", kwargs := sbKwargs (.nat (if complex then 0 else 1)) c })) ∧
    (c.algorithm = "simple_bounds" → plumb c complex = some (.simpleBounds,
      { routine := "simple_bounds_newton_algorithm", kwargs := sbKwargs (.num c.secondDerivatives) c })) ∧
    (c.algorithm = "simple_bounds_newton" → plumb c complex = some (.simpleBoundsNewton,
      { routine := "simple_bounds_newton_algorithm", kwargs := sbKwargs (.nat 1) c })) ∧
    (c.algorithm = "simple_bounds_BFGS" → plumb c complex = some (.simpleBoundsBfgs,
      { routine := "simple_bounds_newton_algorithm", kwargs := sbKwargs (.nat 0) c })) :=
  ⟨plumb_automatic c complex, plumb_simple_bounds c complex, plumb_simple_bounds_newton c complex,
   plumb_simple_bounds_bfgs c complex⟩

/-- **Option plumbing, trust-region and line-search families, scipy, unknown names.** -/
theorem options_plumbing_other {α : Type} [NumOps α] (c : Cfg α) (complex : Bool) :
    (c.algorithm = "TR-newton" → plumb c complex = some (.trNewton,
      { routine := "newton_trust_region",
        kwargs := [("use_dogleg", .bool c.dogleg), ("maxiter", .nat c.maxIterations),
                   ("initial_radius", .num c.initialRadius)] })) ∧
    (c.algorithm = "TR-BFGS" → plumb c complex = some (.trBfgs,
      { routine := "bfgs_trust_region",
        kwargs := [("init_bfgs", .none), ("use_dogleg", .bool c.dogleg), ("maxiter", .nat c.maxIterations),
                   ("initial_radius", .num c.initialRadius)] })) ∧
    (c.algorithm = "LS-newton" → plumb c complex = some (.lsNewton,
      { routine := "newton_line_search", kwargs := [("maxiter", .nat c.maxIterations)] })) ∧
    (c.algorithm = "LS-BFGS" → plumb c complex = some (.lsBfgs,
      { routine := "bfgs_line_search", kwargs := [("init_bfgs", .none), ("maxiter", .nat c.maxIterations)] })) ∧
    (c.algorithm = "scipy" → plumb c complex = some (.scipy,
      { routine := "scipy.optimize.minimize", kwargs := [("ftol", .num machEps), ("gtol", .num gtolDefault)] })) ∧
    (c.algorithm ≠ "automatic" → (∀ a ∈ Algo.all, a.name ≠ c.algorithm) → plumb c complex = none) :=
  ⟨plumb_tr_newton c complex, plumb_tr_bfgs c complex, plumb_ls_newton c complex, plumb_ls_bfgs c complex,
   plumb_scipy c complex, plumb_unknown c complex⟩

/-! ### KKT points of concave problems -/

/-- **first-order inequality** of a concave differentiable likelihood on the box:
`L y ≤ L x + ∇L(x)·(y − x)` for any two feasible points (restriction to the segment). -/
theorem concave_first_order_box {n : ℕ} (lb ub : Fin n → Option ℝ) (L : (Fin n → ℝ) → ℝ)
    (hc : ConcaveOn ℝ (Box lb ub) L) (g x y : Fin n → ℝ) (hx : x ∈ Box lb ub) (hy : y ∈ Box lb ub)
    (hg : HasGrad L g x) : L y ≤ L x + ∑ i, g i * (y i - x i) := by
  have h := concave_first_order (Box lb ub) L hc x y hx hy (gradMap g) hg
  rw [gradMap_apply] at h
  simpa using h

/-- **A KKT point is a global maximum** of a concave differentiable likelihood on the box
(any dimension, any bound configuration: none, one-sided, two-sided, active or not). -/
theorem kkt_global_max {n : ℕ} (lb ub : Fin n → Option ℝ) (L : (Fin n → ℝ) → ℝ)
    (hc : ConcaveOn ℝ (Box lb ub) L) (g x : Fin n → ℝ) (hx : x ∈ Box lb ub)
    (hg : HasGrad L g x) (hk : IsKKT lb ub g x) : ∀ y ∈ Box lb ub, L y ≤ L x :=
  fun y hy => kkt_is_global_max lb ub L hc g x hx hg hk y hy

/-- **Algorithms agree**: two KKT points (e.g. returned by two algorithms, or from two
starting points) have the same likelihood. -/
theorem algorithms_agree {n : ℕ} (lb ub : Fin n → Option ℝ) (L : (Fin n → ℝ) → ℝ)
    (hc : ConcaveOn ℝ (Box lb ub) L) (g x g' x' : Fin n → ℝ) (hx : x ∈ Box lb ub) (hx' : x' ∈ Box lb ub)
    (hg : HasGrad L g x) (hg' : HasGrad L g' x') (hk : IsKKT lb ub g x) (hk' : IsKKT lb ub g' x') :
    L x = L x' :=
  le_antisymm (kkt_global_max lb ub L hc g' x' hx' hg' hk' x hx) (kkt_global_max lb ub L hc g x hx hg hk x' hx')

/-- at a KKT point the gradient vanishes in every direction not blocked by an active bound -/
theorem kkt_free_gradient_zero {n : ℕ} (lb ub : Fin n → Option ℝ) (g x : Fin n → ℝ) (h : IsKKT lb ub g x)
    (i : Fin n) (hu : ∀ u, ub i = some u → x i < u) (hl : ∀ l, lb i = some l → l < x i) : g i = 0 :=
  kkt_free_coordinate lb ub g x h i hu hl

/-- a-posteriori bound used on real runs: for any feasible y, `L y − L x` is at most the part
of `∇L(x)·(y − x)` with the wrong sign -/
theorem gap_bound {n : ℕ} (lb ub : Fin n → Option ℝ) (L : (Fin n → ℝ) → ℝ)
    (hc : ConcaveOn ℝ (Box lb ub) L) (g x y : Fin n → ℝ) (hx : x ∈ Box lb ub) (hy : y ∈ Box lb ub)
    (hg : HasGrad L g x) : L y - L x ≤ ∑ i, max (g i * (y i - x i)) 0 :=
  gap_le lb ub L hc g x hx hg y hy

/-- the executable predicates of the driver (tolerance 0) are the mathematical ones -/
theorem driver_predicates {n : ℕ} (lb ub : Fin n → Option ℝ) (g x : Fin n → ℝ) :
    (kktB 0 0 (List.ofFn fun i => (lb i, ub i)) (List.ofFn x) (List.ofFn g) = true ↔ IsKKT lb ub g x) ∧
    (inBox (List.ofFn fun i => (lb i, ub i)) (List.ofFn x) = true ↔ x ∈ Box lb ub) :=
  ⟨kktB_ofFn lb ub g x, inBox_ofFn lb ub x⟩

/-! ### non-vacuity -/

/-- a concave likelihood with an active lower bound: L(b) = −b², box [1, ∞): b = 1 is a KKT
point (gradient −2 ≤ 0 blocked by the bound) and hence the constrained maximum -/
example : ∀ y ∈ Box (fun _ : Fin 1 => some (1 : ℝ)) (fun _ => none), (fun z : Fin 1 → ℝ => -(z 0) ^ 2) y ≤ -(1 : ℝ) ^ 2 := by
  have hc : ConcaveOn ℝ (Box (fun _ : Fin 1 => some (1 : ℝ)) (fun _ => none)) (fun z : Fin 1 → ℝ => -(z 0) ^ 2) := by
    apply ConvexOn.neg
    refine ⟨box_convex _ _, ?_⟩
    intro x _ y _ a b ha hb hab
    simp only [Pi.add_apply, Pi.smul_apply, smul_eq_mul]
    have hb' : b = 1 - a := by linarith
    subst hb'
    nlinarith [sq_nonneg (x 0 - y 0), mul_nonneg ha hb]
  have hx : (fun _ : Fin 1 => (1 : ℝ)) ∈ Box (fun _ : Fin 1 => some (1 : ℝ)) (fun _ => none) := by
    intro i; constructor
    · intro l hl; simp at hl; linarith
    · intro u hu; simp at hu
  have hg : HasGrad (fun z : Fin 1 → ℝ => -(z 0) ^ 2) (fun _ => (-2 : ℝ)) (fun _ => (1 : ℝ)) := by
    unfold HasGrad
    have h1 : HasFDerivAt (fun z : Fin 1 → ℝ => z 0) (ContinuousLinearMap.proj 0 : (Fin 1 → ℝ) →L[ℝ] ℝ) (fun _ => (1 : ℝ)) :=
      (ContinuousLinearMap.proj 0 : (Fin 1 → ℝ) →L[ℝ] ℝ).hasFDerivAt
    have h2 : HasFDerivAt (fun z : Fin 1 → ℝ => -(z 0) ^ 2) _ (fun _ => (1 : ℝ)) := (h1.pow 2).neg
    exact h2.congr_fderiv (ContinuousLinearMap.ext fun v => by simp [gradMap_apply])
  have hk : IsKKT (fun _ : Fin 1 => some (1 : ℝ)) (fun _ => none) (fun _ => (-2 : ℝ)) (fun _ => (1 : ℝ)) := by
    intro i; constructor
    · intro _; norm_num
    · intro h; exfalso; have := h 1 rfl; simp at this
  intro y hy
  have := kkt_global_max _ _ _ hc _ _ hx hg hk y hy
  simpa using this

/-- the contract is satisfiable: the optimiser that returns its starting point -/
example (like : Vec ℝ → ℝ) (ev : Vec ℝ → Eval ℝ) (x0 : Vec ℝ) :
    OptContract (fun _ _ _ _ x => ⟨x, false⟩) false like ev [] x0 :=
  ⟨rfl, fun h => Bool.noConfusion h, le_refl _⟩

/-- write-back on a concrete parameter list with a fixed parameter -/
example : (writeBack [⟨"b2", (0 : Int), false⟩, ⟨"fix", 7, true⟩, ⟨"b10", 0, false⟩] (estimates ["b10", "b2"] [5, 3])).map (·.value)
    = [3, 7, 5] := by decide

end C07
