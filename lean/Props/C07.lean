/-
C07 — estimation returns a feasible point that is a maximum of the stated likelihood.
Property theorems only (helper lemmas in Proofs/Estimate.lean, Proofs/EstimatePlumbing.lean).

PARTIAL BY DESIGN: the optimisers (biogeme_optimization, scipy) are external.  The optimiser is a
parameter of the model; the only thing assumed about it is the recorded contract `OptContract`
(returns a point of the right dimension; inside the box when the algorithm is bound-aware; does
not increase the minimised function).  Convergence is *not* modelled: a non-converging optimiser
that respects the contract is not a violation.  What is proved is the wrapper logic around it and,
over ℝ, that a KKT point of a concave differentiable problem is a global maximum.
-/
import Model.Estimate
import Proofs.Estimate
import Proofs.EstimatePlumbing

open Estimate

namespace C07

/-! ### sign flip -/

/-- **argmin of −L is argmax of L** on any feasible set, and the function/gradient/Hessian
handed to the optimiser are the negated ones (negating twice gives them back). -/
theorem neg_flip (like : Vec ℝ → ℝ) (ev : Vec ℝ → Eval ℝ) (S : Set (Vec ℝ)) (x : Vec ℝ) :
    ((∀ y ∈ S, negF like x ≤ negF like y) ↔ (∀ y ∈ S, like y ≤ like x)) ∧
    negF like x = - like x ∧
    (negFG ev x).1 = - (ev x).f ∧ vneg (negFG ev x).2 = (ev x).g ∧
    (negFGH ev x).1 = - (ev x).f ∧ vneg (negFGH ev x).2.1 = (ev x).g ∧ mneg (negFGH ev x).2.2 = (ev x).h := by
  refine ⟨?_, negF_real like x, ?_, ?_, ?_, ?_, ?_⟩
  · constructor
    · intro h y hy; exact (negF_le_iff like x y).mp (h y hy)
    · intro h y hy; exact (negF_le_iff like x y).mpr (h y hy)
  · simp [negFG]
  · simp [negFG, vneg_vneg]
  · simp [negFGH]
  · simp [negFGH, vneg_vneg]
  · simp [negFGH, mneg_mneg]

/-- the derivative of the minimised function is minus the derivative of the likelihood -/
theorem neg_flip_gradient {n : ℕ} (L : (Fin n → ℝ) → ℝ) (g x : Fin n → ℝ) (h : HasGrad L g x) :
    HasGrad (fun z => - L z) (fun i => - g i) x :=
  hasGrad_neg L g x h

/-! ### result consistency -/

/-- **`estimate` under the optimiser's contract** (every likelihood, every evaluation oracle
that agrees with it, every optimiser): the reported log likelihood is the likelihood at the
reported point; gradient, Hessian and BHHH are those evaluated at that point; the final log
likelihood is not below the initial one; a bound-aware algorithm returns a point of the box;
the point has the dimension of the starting point. -/
theorem result_consistent (like : Vec ℝ → ℝ) (ev : Vec ℝ → Eval ℝ) (fd : Vec ℝ → Mat ℝ) (opt : Optimizer ℝ)
    (bounds : Bounds ℝ) (x0 : Vec ℝ) (aware : Bool) (hev : ∀ x, (ev x).f = like x)
    (hc : OptContract opt aware like ev bounds x0) :
    let r := estimate like ev fd opt bounds x0
    r.logLike = like r.x ∧ r.g = some (ev r.x).g ∧ r.h = some (ev r.x).h ∧ r.bhhh = some (ev r.x).bhhh ∧
    r.initLogLike = some (like x0) ∧ like x0 ≤ r.logLike ∧
    (aware = true → inBox bounds r.x = true) ∧ r.x.length = x0.length := by
  refine ⟨hev _, rfl, ?_, rfl, rfl, ?_, hc.feasible, hc.length⟩
  · simp [estimate, finalHessian_eq]
  · show like x0 ≤ (ev _).f
    rw [hev]
    exact (negF_le_iff like _ x0).mp hc.descent

/-- the same for `quick_estimate` (only the likelihood is evaluated; the initial likelihood is
not recomputed but the final one is not below the likelihood of the starting point) -/
theorem result_consistent_quick (like : Vec ℝ → ℝ) (ev : Vec ℝ → Eval ℝ) (opt : Optimizer ℝ)
    (bounds : Bounds ℝ) (x0 : Vec ℝ) (aware : Bool) (prev : Option ℝ)
    (hc : OptContract opt aware like ev bounds x0) :
    let r := quickEstimate like ev opt bounds x0 prev
    r.logLike = like r.x ∧ r.g = none ∧ r.h = none ∧ r.bhhh = none ∧ r.initLogLike = prev ∧
    like x0 ≤ r.logLike ∧ (aware = true → inBox bounds r.x = true) ∧ r.x.length = x0.length :=
  ⟨rfl, rfl, rfl, rfl, rfl, (negF_le_iff like _ x0).mp hc.descent, hc.feasible, hc.length⟩

/-- the finite-difference fallback of `estimate` never replaces the Hessian (the inner test of
the code looks at the analytical Hessian again): the reported Hessian is always the analytical
one — stated for every number type, Float included -/
theorem fd_fallback_dead {α : Type} [NumOps α] (h fd : Mat α) : finalHessian h fd = h :=
  finalHessian_eq h fd

/-! ### write-back -/

/-- **After estimation** (every number type, `Float` included) the i-th free parameter holds
the i-th estimate — or, when the guard `value != self.initValue` of `Beta.change_init_values`
says the estimate equals what the parameter already holds, what it already holds (on doubles
this is the same number up to the sign of zero) —, whatever it held before; name and status
are kept; a parameter whose name is not estimated (every fixed parameter) is untouched. -/
theorem writeback {α : Type} [NumOps α] (ps : List (Param α)) (names : List String) (x : Vec α)
    (hn : names.Nodup) (hlen : x.length = names.length) (k : Nat) (hk : k < ps.length) :
    (∀ i (hi : i < names.length), (ps[k]).name = names[i] →
        (((writeBack ps (estimates names x))[k]'(by rw [writeBack_length]; exact hk)).value = x[i]'(by omega) ∨
         (Num.eq (x[i]'(by omega)) (ps[k]).value = true ∧
          ((writeBack ps (estimates names x))[k]'(by rw [writeBack_length]; exact hk)).value = (ps[k]).value)) ∧
        ((writeBack ps (estimates names x))[k]'(by rw [writeBack_length]; exact hk)).name = names[i] ∧
        ((writeBack ps (estimates names x))[k]'(by rw [writeBack_length]; exact hk)).fixed = (ps[k]).fixed) ∧
    ((ps[k]).name ∉ names →
        (writeBack ps (estimates names x))[k]'(by rw [writeBack_length]; exact hk) = ps[k]) := by
  constructor
  · intro i hi hname
    rw [writeBack_get ps _ k hk]
    unfold updateParam estimates
    rw [hname, lookup_zip_of_nodup names x hn i hi (by omega)]
    simp only []
    split
    · next he => exact ⟨Or.inr ⟨he, rfl⟩, hname, rfl⟩
    · exact ⟨Or.inl rfl, rfl, rfl⟩
  · intro hnot
    rw [writeBack_get ps _ k hk]
    unfold updateParam estimates
    rw [lookup_zip_none names x _ hnot]

/-- **over the reals the guard is invisible**: after estimation the i-th free parameter holds
exactly the i-th estimate (the clause of the property) -/
theorem writeback_real (ps : List (Param ℝ)) (names : List String) (x : Vec ℝ)
    (hn : names.Nodup) (hlen : x.length = names.length) (k : Nat) (hk : k < ps.length)
    (i : Nat) (hi : i < names.length) (hname : (ps[k]).name = names[i]) :
    ((writeBack ps (estimates names x))[k]'(by rw [writeBack_length]; exact hk)).value = x[i]'(by omega) := by
  rcases ((writeback ps names x hn hlen k hk).1 i hi hname).1 with h | ⟨he, h⟩
  · exact h
  · rw [h]; exact ((NumR.eq_real _ _).mp he).symm

/-! ### bootstrap, and sequences of operations on one object -/

/-- **`estimate(run_bootstrap=True)`** (every list of resampled likelihoods, whatever the
optimiser does on them): what the results report about the estimation is exactly what
`estimate` without bootstrapping reports — in particular the log likelihood, gradient, Hessian
and BHHH are those of the likelihood *of the data of the database* at x*, not of the last
sample; there is one bootstrap estimate per sample, of the right dimension and inside the box
for a bound-aware algorithm whenever the optimiser respects its contract on that sample. -/
theorem result_consistent_bootstrap (like : Vec ℝ → ℝ) (ev : Vec ℝ → Eval ℝ) (fd : Vec ℝ → Mat ℝ) (opt : Optimizer ℝ)
    (bounds : Bounds ℝ) (x0 : Vec ℝ) (aware : Bool) (boot : Option (List (Objective ℝ)))
    (hev : ∀ x, (ev x).f = like x) (hc : OptContract opt aware like ev bounds x0) :
    let r := estimateBoot like ev fd opt bounds x0 boot
    r.res = estimate like ev fd opt bounds x0 ∧
    r.res.logLike = like r.res.x ∧ r.res.g = some (ev r.res.x).g ∧ r.res.h = some (ev r.res.x).h ∧
    r.res.bhhh = some (ev r.res.x).bhhh ∧ r.res.initLogLike = some (like x0) ∧ like x0 ≤ r.res.logLike ∧
    (aware = true → inBox bounds r.res.x = true) ∧
    (boot = none → r.bootstrap = none) ∧
    (∀ ss, boot = some ss → ∃ rows, r.bootstrap = some rows ∧ rows.length = ss.length ∧
      ∀ k (hk : k < ss.length) (hk' : k < rows.length),
        OptContract opt aware (ss[k]).like (ss[k]).ev bounds r.res.x →
          (rows[k]).length = x0.length ∧ (aware = true → inBox bounds rows[k] = true)) := by
  have h := result_consistent like ev fd opt bounds x0 aware hev hc
  obtain ⟨h1, h2, h3, h4, h5, h6, h7, h8⟩ := h
  refine ⟨rfl, h1, h2, h3, h4, h5, h6, h7, ?_, ?_⟩
  · intro hb; subst hb; rfl
  · intro ss hb
    subst hb
    refine ⟨_, rfl, by simp, ?_⟩
    intro k hk hk' hck
    simp only [List.getElem_map]
    exact ⟨hck.length.trans h8, hck.feasible⟩

/-- **Every results object returned during any sequence of operations** on one object
(evaluations at other points, `calculate_init_likelihood`, `change_init_values`, further
`estimate` with or without bootstrapping, `quick_estimate`, in any order, from any state)
reports the likelihood at its own point, and either the gradient, Hessian and BHHH of the
likelihood at that point (`estimate`) or no derivatives (`quick_estimate`): nothing that
happened before on the object enters a report. -/
theorem session_reports_consistent (e : Env ℝ) (hev : ∀ x, (e.obj.ev x).f = e.obj.like x)
    (s : Session ℝ) (ops : List (Op ℝ)) :
    ∀ r ∈ (run e s ops).2,
      r.res.logLike = e.obj.like r.res.x ∧
      ((r.res.g = some (e.obj.ev r.res.x).g ∧ r.res.h = some (e.obj.ev r.res.x).h ∧
          r.res.bhhh = some (e.obj.ev r.res.x).bhhh) ∨
       (r.res.g = none ∧ r.res.h = none ∧ r.res.bhhh = none)) := by
  refine run_forall e _ ?_ ops s
  intro s op r h
  cases op with
  | eval x => simp [step] at h
  | initLikelihood => simp [step] at h
  | changeInit v => simp [step] at h
  | estimate boot =>
    simp only [step, Option.some.injEq] at h
    subst h
    refine ⟨hev _, Or.inl ⟨rfl, ?_, rfl⟩⟩
    simp [estimateBoot, estimate, finalHessian_eq]
  | quickEstimate =>
    simp only [step, Option.some.injEq] at h
    subst h
    exact ⟨rfl, Or.inr ⟨rfl, rfl, rfl⟩⟩

/-- the same under the optimiser's contract (from every starting point): every returned point
is in the box for a bound-aware algorithm, and every report of `estimate` carries the likelihood
of the values it started from as initial log likelihood, not above the final one -/
theorem session_reports_contract (e : Env ℝ) (aware : Bool) (hev : ∀ x, (e.obj.ev x).f = e.obj.like x)
    (hc : ∀ x0, OptContract e.opt aware e.obj.like e.obj.ev e.bounds x0) (s : Session ℝ) (ops : List (Op ℝ)) :
    ∀ r ∈ (run e s ops).2,
      (aware = true → inBox e.bounds r.res.x = true) ∧
      (r.full = true → ∃ v, r.res.initLogLike = some v ∧ v ≤ r.res.logLike) := by
  refine run_forall e _ ?_ ops s
  intro s op r h
  cases op with
  | eval x => simp [step] at h
  | initLikelihood => simp [step] at h
  | changeInit v => simp [step] at h
  | estimate boot =>
    simp only [step, Option.some.injEq] at h
    subst h
    have hr := result_consistent e.obj.like e.obj.ev e.fd e.opt e.bounds s.idValues aware hev (hc s.idValues)
    exact ⟨hr.2.2.2.2.2.2.1, fun _ => ⟨_, hr.2.2.2.2.1, hr.2.2.2.2.2.1⟩⟩
  | quickEstimate =>
    simp only [step, Option.some.injEq] at h
    subst h
    exact ⟨(hc s.idValues).feasible, fun hf => by simp [Report.full, quickEstimate] at hf⟩

/-- **Evaluations leave no trace**: removing an evaluation at an explicit point from a sequence
of operations changes neither the results objects returned nor the final state of the object
(every number type, `Float` included). -/
theorem session_eval_transparent {α : Type} [NumOps α] (e : Env α) (s : Session α) (ops₁ ops₂ : List (Op α))
    (x : Vec α) : run e s (ops₁ ++ Op.eval x :: ops₂) = run e s (ops₁ ++ ops₂) :=
  run_append_eval e x ops₂ ops₁ s

/-- **After `estimate` (with or without bootstrapping) and any number of evaluations** the Beta
objects of the formulas hold the write-back of the estimates (`writeback` says what that is),
the values `estimate` starts from are unchanged, and exactly one results object was returned. -/
theorem session_writeback {α : Type} [NumOps α] (e : Env α) (s : Session α) (boot : Option (List (Objective α)))
    (evals : List (Vec α)) :
    let out := run e s (Op.estimate boot :: evals.map Op.eval)
    out.1.params = writeBack s.params (estimates e.names (estimate e.obj.like e.obj.ev e.fd e.opt e.bounds s.idValues).x) ∧
    out.1.idValues = s.idValues ∧
    out.2 = [estimateBoot e.obj.like e.obj.ev e.fd e.opt e.bounds s.idValues boot] := by
  simp [run, step, run_evals, estimateBoot_res]

/-- a second `estimate` on the same object (evaluations in between) starts from the same values
as the first one — the estimates are written into the formulas, not into the values the
estimation starts from — and therefore reports the same estimation -/
theorem reestimate_restarts {α : Type} [NumOps α] (e : Env α) (s : Session α) (b₁ b₂ : Option (List (Objective α)))
    (evals : List (Vec α)) :
    (run e s (Op.estimate b₁ :: (evals.map Op.eval ++ [Op.estimate b₂]))).2.map (·.res) =
      [estimate e.obj.like e.obj.ev e.fd e.opt e.bounds s.idValues,
       estimate e.obj.like e.obj.ev e.fd e.opt e.bounds s.idValues] := by
  simp [run, step, run_append, run_evals, estimateBoot_res]

/-! ### option plumbing (decision table per algorithm name) -/

/-- the names of `optimization.algorithms` are distinct keys, `'automatic'` runs
`simple_bounds`, every other accepted name runs its own entry -/
theorem algorithm_resolution :
    (∀ a ∈ Algo.all, Algo.parse a.name = some a) ∧ resolve "automatic" = some Algo.simpleBounds ∧
    (∀ a ∈ Algo.all, resolve a.name = some a) :=
  ⟨parse_name, resolve_automatic, resolve_name⟩

/-- which algorithms use the bounds they receive -/
theorem bound_aware_table :
    Algo.all.map (fun a => (a.name, a.boundAware)) =
      [("scipy", true), ("LS-newton", false), ("TR-newton", false), ("LS-BFGS", false), ("TR-BFGS", false),
       ("simple_bounds", true), ("simple_bounds_newton", true), ("simple_bounds_BFGS", true)] :=
  boundAware_table

/-- **Option plumbing, simple-bounds family** (every configuration): radius, enlarging factor
and maximum number of iterations of the TOML file reach the routine; the proportion of
analytical Hessians is 0/1 by model complexity for 'automatic', `second_derivatives` for
'simple_bounds', 1 for '…_newton', 0 for '…_BFGS'; `infeasible_cg` is passed by `BIOGEME` but
no wrapper forwards it. -/
theorem options_plumbing_simple_bounds {α : Type} [NumOps α] (c : Cfg α) (complex : Bool) :
    (c.algorithm = "automatic" → plumb c complex = some (.simpleBounds,
      { routine := "simple_bounds_newton_algorithm", kwargs := sbKwargs (.nat (if complex then 0 else 1)) c })) ∧
    (c.algorithm = "simple_bounds" → plumb c complex = some (.simpleBounds,
      { routine := "simple_bounds_newton_algorithm", kwargs := sbKwargs (.num c.secondDerivatives) c })) ∧
    (c.algorithm = "simple_bounds_newton" → plumb c complex = some (.simpleBoundsNewton,
      { routine := "simple_bounds_newton_algorithm", kwargs := sbKwargs (.nat 1) c })) ∧
    (c.algorithm = "simple_bounds_BFGS" → plumb c complex = some (.simpleBoundsBfgs,
      { routine := "simple_bounds_newton_algorithm", kwargs := sbKwargs (.nat 0) c })) :=
  ⟨plumb_automatic c complex, plumb_simple_bounds c complex, plumb_simple_bounds_newton c complex,
   plumb_simple_bounds_bfgs c complex⟩

/-- **Option plumbing, trust-region and line-search families, scipy, unknown names.** -/
theorem options_plumbing_other {α : Type} [NumOps α] (c : Cfg α) (complex : Bool) :
    (c.algorithm = "TR-newton" → plumb c complex = some (.trNewton,
      { routine := "newton_trust_region",
        kwargs := [("use_dogleg", .bool c.dogleg), ("maxiter", .nat c.maxIterations),
                   ("initial_radius", .num c.initialRadius)] })) ∧
    (c.algorithm = "TR-BFGS" → plumb c complex = some (.trBfgs,
      { routine := "bfgs_trust_region",
        kwargs := [("init_bfgs", .none), ("use_dogleg", .bool c.dogleg), ("maxiter", .nat c.maxIterations),
                   ("initial_radius", .num c.initialRadius)] })) ∧
    (c.algorithm = "LS-newton" → plumb c complex = some (.lsNewton,
      { routine := "newton_line_search", kwargs := [("maxiter", .nat c.maxIterations)] })) ∧
    (c.algorithm = "LS-BFGS" → plumb c complex = some (.lsBfgs,
      { routine := "bfgs_line_search", kwargs := [("init_bfgs", .none), ("maxiter", .nat c.maxIterations)] })) ∧
    (c.algorithm = "scipy" → plumb c complex = some (.scipy,
      { routine := "scipy.optimize.minimize", kwargs := [("ftol", .num machEps), ("gtol", .num gtolDefault)] })) ∧
    (c.algorithm ≠ "automatic" → (∀ a ∈ Algo.all, a.name ≠ c.algorithm) → plumb c complex = none) :=
  ⟨plumb_tr_newton c complex, plumb_tr_bfgs c complex, plumb_ls_newton c complex, plumb_ls_bfgs c complex,
   plumb_scipy c complex, plumb_unknown c complex⟩

/-! ### KKT points of concave problems -/

/-- **first-order inequality** of a concave differentiable likelihood on the box:
`L y ≤ L x + ∇L(x)·(y − x)` for any two feasible points (restriction to the segment). -/
theorem concave_first_order_box {n : ℕ} (lb ub : Fin n → Option ℝ) (L : (Fin n → ℝ) → ℝ)
    (hc : ConcaveOn ℝ (Box lb ub) L) (g x y : Fin n → ℝ) (hx : x ∈ Box lb ub) (hy : y ∈ Box lb ub)
    (hg : HasGrad L g x) : L y ≤ L x + ∑ i, g i * (y i - x i) := by
  have h := concave_first_order (Box lb ub) L hc x y hx hy (gradMap g) hg
  rw [gradMap_apply] at h
  simpa using h

/-- **A KKT point is a global maximum** of a concave differentiable likelihood on the box
(any dimension, any bound configuration: none, one-sided, two-sided, active or not). -/
theorem kkt_global_max {n : ℕ} (lb ub : Fin n → Option ℝ) (L : (Fin n → ℝ) → ℝ)
    (hc : ConcaveOn ℝ (Box lb ub) L) (g x : Fin n → ℝ) (hx : x ∈ Box lb ub)
    (hg : HasGrad L g x) (hk : IsKKT lb ub g x) : ∀ y ∈ Box lb ub, L y ≤ L x :=
  fun y hy => kkt_is_global_max lb ub L hc g x hx hg hk y hy

/-- **Algorithms agree**: two KKT points (e.g. returned by two algorithms, or from two
starting points) have the same likelihood. -/
theorem algorithms_agree {n : ℕ} (lb ub : Fin n → Option ℝ) (L : (Fin n → ℝ) → ℝ)
    (hc : ConcaveOn ℝ (Box lb ub) L) (g x g' x' : Fin n → ℝ) (hx : x ∈ Box lb ub) (hx' : x' ∈ Box lb ub)
    (hg : HasGrad L g x) (hg' : HasGrad L g' x') (hk : IsKKT lb ub g x) (hk' : IsKKT lb ub g' x') :
    L x = L x' :=
  le_antisymm (kkt_global_max lb ub L hc g' x' hx' hg' hk' x hx) (kkt_global_max lb ub L hc g x hx hg hk x' hx')

/-- at a KKT point the gradient vanishes in every direction not blocked by an active bound -/
theorem kkt_free_gradient_zero {n : ℕ} (lb ub : Fin n → Option ℝ) (g x : Fin n → ℝ) (h : IsKKT lb ub g x)
    (i : Fin n) (hu : ∀ u, ub i = some u → x i < u) (hl : ∀ l, lb i = some l → l < x i) : g i = 0 :=
  kkt_free_coordinate lb ub g x h i hu hl

/-- a-posteriori bound used on real runs: for any feasible y, `L y − L x` is at most the part
of `∇L(x)·(y − x)` with the wrong sign -/
theorem gap_bound {n : ℕ} (lb ub : Fin n → Option ℝ) (L : (Fin n → ℝ) → ℝ)
    (hc : ConcaveOn ℝ (Box lb ub) L) (g x y : Fin n → ℝ) (hx : x ∈ Box lb ub) (hy : y ∈ Box lb ub)
    (hg : HasGrad L g x) : L y - L x ≤ ∑ i, max (g i * (y i - x i)) 0 :=
  gap_le lb ub L hc g x hx hg y hy

/-- the executable predicates of the driver (tolerance 0) are the mathematical ones -/
theorem driver_predicates {n : ℕ} (lb ub : Fin n → Option ℝ) (g x : Fin n → ℝ) :
    (kktB 0 0 (List.ofFn fun i => (lb i, ub i)) (List.ofFn x) (List.ofFn g) = true ↔ IsKKT lb ub g x) ∧
    (inBox (List.ofFn fun i => (lb i, ub i)) (List.ofFn x) = true ↔ x ∈ Box lb ub) :=
  ⟨kktB_ofFn lb ub g x, inBox_ofFn lb ub x⟩

/-! ### non-vacuity -/

/-- a concave likelihood with an active lower bound: L(b) = −b², box [1, ∞): b = 1 is a KKT
point (gradient −2 ≤ 0 blocked by the bound) and hence the constrained maximum -/
example : ∀ y ∈ Box (fun _ : Fin 1 => some (1 : ℝ)) (fun _ => none), (fun z : Fin 1 → ℝ => -(z 0) ^ 2) y ≤ -(1 : ℝ) ^ 2 := by
  have hc : ConcaveOn ℝ (Box (fun _ : Fin 1 => some (1 : ℝ)) (fun _ => none)) (fun z : Fin 1 → ℝ => -(z 0) ^ 2) := by
    apply ConvexOn.neg
    refine ⟨box_convex _ _, ?_⟩
    intro x _ y _ a b ha hb hab
    simp only [Pi.add_apply, Pi.smul_apply, smul_eq_mul]
    have hb' : b = 1 - a := by linarith
    subst hb'
    nlinarith [sq_nonneg (x 0 - y 0), mul_nonneg ha hb]
  have hx : (fun _ : Fin 1 => (1 : ℝ)) ∈ Box (fun _ : Fin 1 => some (1 : ℝ)) (fun _ => none) := by
    intro i; constructor
    · intro l hl; simp at hl; linarith
    · intro u hu; simp at hu
  have hg : HasGrad (fun z : Fin 1 → ℝ => -(z 0) ^ 2) (fun _ => (-2 : ℝ)) (fun _ => (1 : ℝ)) := by
    unfold HasGrad
    have h1 : HasFDerivAt (fun z : Fin 1 → ℝ => z 0) (ContinuousLinearMap.proj 0 : (Fin 1 → ℝ) →L[ℝ] ℝ) (fun _ => (1 : ℝ)) :=
      (ContinuousLinearMap.proj 0 : (Fin 1 → ℝ) →L[ℝ] ℝ).hasFDerivAt
    have h2 : HasFDerivAt (fun z : Fin 1 → ℝ => -(z 0) ^ 2) _ (fun _ => (1 : ℝ)) := (h1.pow 2).neg
    exact h2.congr_fderiv (ContinuousLinearMap.ext fun v => by simp [gradMap_apply])
  have hk : IsKKT (fun _ : Fin 1 => some (1 : ℝ)) (fun _ => none) (fun _ => (-2 : ℝ)) (fun _ => (1 : ℝ)) := by
    intro i; constructor
    · intro _; norm_num
    · intro h; exfalso; have := h 1 rfl; simp at this
  intro y hy
  have := kkt_global_max _ _ _ hc _ _ hx hg hk y hy
  simpa using this

/-- the contract is satisfiable: the optimiser that returns its starting point -/
example (like : Vec ℝ → ℝ) (ev : Vec ℝ → Eval ℝ) (x0 : Vec ℝ) :
    OptContract (fun _ _ _ _ x => ⟨x, false⟩) false like ev [] x0 :=
  ⟨rfl, fun h => Bool.noConfusion h, le_refl _⟩

/-- write-back on a concrete parameter list with a fixed parameter; `b10` already holds its
estimate (the guarded assignment is skipped, the value is the estimate all the same) -/
example : (writeBack [⟨"b2", (0 : ℝ), false⟩, ⟨"fix", 7, true⟩, ⟨"b10", 5, false⟩] (estimates ["b10", "b2"] [5, 3])).map (·.value)
    = [3, 7, 5] := by
  simp [writeBack, updateParam, estimates, List.lookup, Num.eq, NumOps.eq]

/-- a session: estimate with a two-sample bootstrap, an evaluation, then a second estimate without
bootstrapping — two results objects, one bootstrap row per sample in the first, none in the second -/
example (e : Env ℝ) (s : Session ℝ) (o₁ o₂ : Objective ℝ) (x : Vec ℝ) :
    ((run e s [Op.estimate (some [o₁, o₂]), Op.eval x, Op.estimate none]).2.map fun r => r.bootstrap.map List.length)
      = [some 2, none] := by
  simp [run, step, estimateBoot]

/-- the contract from every starting point is satisfiable (the optimiser that returns its
starting point, an algorithm that ignores bounds) -/
example (like : Vec ℝ → ℝ) (ev : Vec ℝ → Eval ℝ) (b : Bounds ℝ) :
    ∀ x0, OptContract (fun _ _ _ _ x => ⟨x, false⟩) false like ev b x0 :=
  fun _ => ⟨rfl, fun h => Bool.noConfusion h, le_refl _⟩

end C07
