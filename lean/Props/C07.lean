/-
C07 — estimation returns a feasible point that is a maximum of the stated likelihood.
Property theorems only (helper lemmas in Proofs/Estimate.lean, Proofs/EstimatePlumbing.lean,
Proofs/EstimateFlow.lean).  Round 3 (section "round 3" below, model in Model/EstimateFlow.lean): the
`NegativeLikelihood` methods call by call, `estimate` with saved iterations (`_load_saved_iteration`,
`bestIteration`, the life of the file through any sequence of operations), the null / initial log
likelihood carried by a results object, `estimate_catalog`.

PARTIAL BY DESIGN: the optimisers (biogeme_optimization, scipy) are external.  The optimiser is a
parameter of the model; the only thing assumed about it is the recorded contract `OptContract`
(returns a point of the right dimension; inside the box when the algorithm is bound-aware; does
not increase the minimised function).  Convergence is *not* modelled: a non-converging optimiser
that respects the contract is not a violation.  What is proved is the wrapper logic around it and,
over ℝ, that a KKT point of a concave differentiable problem is a global maximum.
-/
import Model.Estimate
import Proofs.Estimate
import Proofs.EstimatePlumbing
import Model.EstimateFlow
import Proofs.EstimateFlow

open Estimate

namespace C07

/-! ### sign flip -/

/-- **argmin of −L is argmax of L** on any feasible set, and the function/gradient/Hessian
handed to the optimiser are the negated ones (negating twice gives them back). -/
theorem neg_flip (like : Vec ℝ → ℝ) (ev : Vec ℝ → Eval ℝ) (S : Set (Vec ℝ)) (x : Vec ℝ) :
    ((∀ y ∈ S, negF like x ≤ negF like y) ↔ (∀ y ∈ S, like y ≤ like x)) ∧
    negF like x = - like x ∧
    (negFG ev x).1 = - (ev x).f ∧ vneg (negFG ev x).2 = (ev x).g ∧
    (negFGH ev x).1 = - (ev x).f ∧ vneg (negFGH ev x).2.1 = (ev x).g ∧ mneg (negFGH ev x).2.2 = (ev x).h := by
  refine ⟨?_, negF_real like x, ?_, ?_, ?_, ?_, ?_⟩
  · constructor
    · intro h y hy; exact (negF_le_iff like x y).mp (h y hy)
    · intro h y hy; exact (negF_le_iff like x y).mpr (h y hy)
  · simp [negFG]
  · simp [negFG, vneg_vneg]
  · simp [negFGH]
  · simp [negFGH, vneg_vneg]
  · simp [negFGH, mneg_mneg]

/-- the derivative of the minimised function is minus the derivative of the likelihood -/
theorem neg_flip_gradient {n : ℕ} (L : (Fin n → ℝ) → ℝ) (g x : Fin n → ℝ) (h : HasGrad L g x) :
    HasGrad (fun z => - L z) (fun i => - g i) x :=
  hasGrad_neg L g x h

/-! ### result consistency -/

/-- **`estimate` under the optimiser's contract** (every likelihood, every evaluation oracle
that agrees with it, every optimiser): the reported log likelihood is the likelihood at the
reported point; gradient, Hessian and BHHH are those evaluated at that point; the final log
likelihood is not below the initial one; a bound-aware algorithm returns a point of the box;
the point has the dimension of the starting point. -/
theorem result_consistent (like : Vec ℝ → ℝ) (ev : Vec ℝ → Eval ℝ) (fd : Vec ℝ → Mat ℝ) (opt : Optimizer ℝ)
    (bounds : Bounds ℝ) (x0 : Vec ℝ) (aware : Bool) (hev : ∀ x, (ev x).f = like x)
    (hc : OptContract opt aware like ev bounds x0) :
    let r := estimate like ev fd opt bounds x0
    r.logLike = like r.x ∧ r.g = some (ev r.x).g ∧ r.h = some (ev r.x).h ∧ r.bhhh = some (ev r.x).bhhh ∧
    r.initLogLike = some (like x0) ∧ like x0 ≤ r.logLike ∧
    (aware = true → inBox bounds r.x = true) ∧ r.x.length = x0.length := by
  refine ⟨hev _, rfl, ?_, rfl, rfl, ?_, hc.feasible, hc.length⟩
  · simp [estimate, finalHessian_eq]
  · show like x0 ≤ (ev _).f
    rw [hev]
    exact (negF_le_iff like _ x0).mp hc.descent

/-- the same for `quick_estimate` (only the likelihood is evaluated; the initial likelihood is
not recomputed but the final one is not below the likelihood of the starting point) -/
theorem result_consistent_quick (like : Vec ℝ → ℝ) (ev : Vec ℝ → Eval ℝ) (opt : Optimizer ℝ)
    (bounds : Bounds ℝ) (x0 : Vec ℝ) (aware : Bool) (prev : Option ℝ)
    (hc : OptContract opt aware like ev bounds x0) :
    let r := quickEstimate like ev opt bounds x0 prev
    r.logLike = like r.x ∧ r.g = none ∧ r.h = none ∧ r.bhhh = none ∧ r.initLogLike = prev ∧
    like x0 ≤ r.logLike ∧ (aware = true → inBox bounds r.x = true) ∧ r.x.length = x0.length :=
  ⟨rfl, rfl, rfl, rfl, rfl, (negF_le_iff like _ x0).mp hc.descent, hc.feasible, hc.length⟩

/-- the finite-difference fallback of `estimate` never replaces the Hessian (the inner test of
the code looks at the analytical Hessian again): the reported Hessian is always the analytical
one — stated for every number type, Float included -/
theorem fd_fallback_dead {α : Type} [NumOps α] (h fd : Mat α) : finalHessian h fd = h :=
  finalHessian_eq h fd

/-! ### write-back -/

/-- **After estimation** (every number type, `Float` included) the i-th free parameter holds
the i-th estimate — or, when the guard `value != self.initValue` of `Beta.change_init_values`
says the estimate equals what the parameter already holds, what it already holds (on doubles
this is the same number up to the sign of zero) —, whatever it held before; name and status
are kept; a parameter whose name is not estimated (every fixed parameter) is untouched. -/
theorem writeback {α : Type} [NumOps α] (ps : List (Param α)) (names : List String) (x : Vec α)
    (hn : names.Nodup) (hlen : x.length = names.length) (k : Nat) (hk : k < ps.length) :
    (∀ i (hi : i < names.length), (ps[k]).name = names[i] →
        (((writeBack ps (estimates names x))[k]'(by rw [writeBack_length]; exact hk)).value = x[i]'(by omega) ∨
         (Num.eq (x[i]'(by omega)) (ps[k]).value = true ∧
          ((writeBack ps (estimates names x))[k]'(by rw [writeBack_length]; exact hk)).value = (ps[k]).value)) ∧
        ((writeBack ps (estimates names x))[k]'(by rw [writeBack_length]; exact hk)).name = names[i] ∧
        ((writeBack ps (estimates names x))[k]'(by rw [writeBack_length]; exact hk)).fixed = (ps[k]).fixed) ∧
    ((ps[k]).name ∉ names →
        (writeBack ps (estimates names x))[k]'(by rw [writeBack_length]; exact hk) = ps[k]) := by
  constructor
  · intro i hi hname
    rw [writeBack_get ps _ k hk]
    unfold updateParam estimates
    rw [hname, lookup_zip_of_nodup names x hn i hi (by omega)]
    simp only []
    split
    · next he => exact ⟨Or.inr ⟨he, rfl⟩, hname, rfl⟩
    · exact ⟨Or.inl rfl, rfl, rfl⟩
  · intro hnot
    rw [writeBack_get ps _ k hk]
    unfold updateParam estimates
    rw [lookup_zip_none names x _ hnot]

/-- **over the reals the guard is invisible**: after estimation the i-th free parameter holds
exactly the i-th estimate (the clause of the property) -/
theorem writeback_real (ps : List (Param ℝ)) (names : List String) (x : Vec ℝ)
    (hn : names.Nodup) (hlen : x.length = names.length) (k : Nat) (hk : k < ps.length)
    (i : Nat) (hi : i < names.length) (hname : (ps[k]).name = names[i]) :
    ((writeBack ps (estimates names x))[k]'(by rw [writeBack_length]; exact hk)).value = x[i]'(by omega) := by
  rcases ((writeback ps names x hn hlen k hk).1 i hi hname).1 with h | ⟨he, h⟩
  · exact h
  · rw [h]; exact ((NumR.eq_real _ _).mp he).symm

/-! ### bootstrap, and sequences of operations on one object -/

/-- **`estimate(run_bootstrap=True)`** (every list of resampled likelihoods, whatever the
optimiser does on them): what the results report about the estimation is exactly what
`estimate` without bootstrapping reports — in particular the log likelihood, gradient, Hessian
and BHHH are those of the likelihood *of the data of the database* at x*, not of the last
sample; there is one bootstrap estimate per sample, of the right dimension and inside the box
for a bound-aware algorithm whenever the optimiser respects its contract on that sample. -/
theorem result_consistent_bootstrap (like : Vec ℝ → ℝ) (ev : Vec ℝ → Eval ℝ) (fd : Vec ℝ → Mat ℝ) (opt : Optimizer ℝ)
    (bounds : Bounds ℝ) (x0 : Vec ℝ) (aware : Bool) (boot : Option (List (Objective ℝ)))
    (hev : ∀ x, (ev x).f = like x) (hc : OptContract opt aware like ev bounds x0) :
    let r := estimateBoot like ev fd opt bounds x0 boot
    r.res = estimate like ev fd opt bounds x0 ∧
    r.res.logLike = like r.res.x ∧ r.res.g = some (ev r.res.x).g ∧ r.res.h = some (ev r.res.x).h ∧
    r.res.bhhh = some (ev r.res.x).bhhh ∧ r.res.initLogLike = some (like x0) ∧ like x0 ≤ r.res.logLike ∧
    (aware = true → inBox bounds r.res.x = true) ∧
    (boot = none → r.bootstrap = none) ∧
    (∀ ss, boot = some ss → ∃ rows, r.bootstrap = some rows ∧ rows.length = ss.length ∧
      ∀ k (hk : k < ss.length) (hk' : k < rows.length),
        OptContract opt aware (ss[k]).like (ss[k]).ev bounds r.res.x →
          (rows[k]).length = x0.length ∧ (aware = true → inBox bounds rows[k] = true)) := by
  have h := result_consistent like ev fd opt bounds x0 aware hev hc
  obtain ⟨h1, h2, h3, h4, h5, h6, h7, h8⟩ := h
  refine ⟨rfl, h1, h2, h3, h4, h5, h6, h7, ?_, ?_⟩
  · intro hb; subst hb; rfl
  · intro ss hb
    subst hb
    refine ⟨_, rfl, by simp, ?_⟩
    intro k hk hk' hck
    simp only [List.getElem_map]
    exact ⟨hck.length.trans h8, hck.feasible⟩

/-- **Every results object returned during any sequence of operations** on one object
(evaluations at other points, `calculate_init_likelihood`, `change_init_values`, further
`estimate` with or without bootstrapping, `quick_estimate`, in any order, from any state)
reports the likelihood at its own point, and either the gradient, Hessian and BHHH of the
likelihood at that point (`estimate`) or no derivatives (`quick_estimate`): nothing that
happened before on the object enters a report. -/
theorem session_reports_consistent (e : Env ℝ) (hev : ∀ x, (e.obj.ev x).f = e.obj.like x)
    (s : Session ℝ) (ops : List (Op ℝ)) :
    ∀ r ∈ (run e s ops).2,
      r.res.logLike = e.obj.like r.res.x ∧
      ((r.res.g = some (e.obj.ev r.res.x).g ∧ r.res.h = some (e.obj.ev r.res.x).h ∧
          r.res.bhhh = some (e.obj.ev r.res.x).bhhh) ∨
       (r.res.g = none ∧ r.res.h = none ∧ r.res.bhhh = none)) := by
  refine run_forall e _ ?_ ops s
  intro s op r h
  cases op with
  | eval x => simp [step] at h
  | initLikelihood => simp [step] at h
  | changeInit v => simp [step] at h
  | estimate boot =>
    simp only [step, Option.some.injEq] at h
    subst h
    refine ⟨hev _, Or.inl ⟨rfl, ?_, rfl⟩⟩
    simp [estimateBoot, estimate, finalHessian_eq]
  | quickEstimate =>
    simp only [step, Option.some.injEq] at h
    subst h
    exact ⟨rfl, Or.inr ⟨rfl, rfl, rfl⟩⟩

/-- the same under the optimiser's contract (from every starting point): every returned point
is in the box for a bound-aware algorithm, and every report of `estimate` carries the likelihood
of the values it started from as initial log likelihood, not above the final one -/
theorem session_reports_contract (e : Env ℝ) (aware : Bool) (hev : ∀ x, (e.obj.ev x).f = e.obj.like x)
    (hc : ∀ x0, OptContract e.opt aware e.obj.like e.obj.ev e.bounds x0) (s : Session ℝ) (ops : List (Op ℝ)) :
    ∀ r ∈ (run e s ops).2,
      (aware = true → inBox e.bounds r.res.x = true) ∧
      (r.full = true → ∃ v, r.res.initLogLike = some v ∧ v ≤ r.res.logLike) := by
  refine run_forall e _ ?_ ops s
  intro s op r h
  cases op with
  | eval x => simp [step] at h
  | initLikelihood => simp [step] at h
  | changeInit v => simp [step] at h
  | estimate boot =>
    simp only [step, Option.some.injEq] at h
    subst h
    have hr := result_consistent e.obj.like e.obj.ev e.fd e.opt e.bounds s.idValues aware hev (hc s.idValues)
    exact ⟨hr.2.2.2.2.2.2.1, fun _ => ⟨_, hr.2.2.2.2.1, hr.2.2.2.2.2.1⟩⟩
  | quickEstimate =>
    simp only [step, Option.some.injEq] at h
    subst h
    exact ⟨(hc s.idValues).feasible, fun hf => by simp [Report.full, quickEstimate] at hf⟩

/-- **Evaluations leave no trace**: removing an evaluation at an explicit point from a sequence
of operations changes neither the results objects returned nor the final state of the object
(every number type, `Float` included). -/
theorem session_eval_transparent {α : Type} [NumOps α] (e : Env α) (s : Session α) (ops₁ ops₂ : List (Op α))
    (x : Vec α) : run e s (ops₁ ++ Op.eval x :: ops₂) = run e s (ops₁ ++ ops₂) :=
  run_append_eval e x ops₂ ops₁ s

/-- **After `estimate` (with or without bootstrapping) and any number of evaluations** the Beta
objects of the formulas hold the write-back of the estimates (`writeback` says what that is),
the values `estimate` starts from are unchanged, and exactly one results object was returned. -/
theorem session_writeback {α : Type} [NumOps α] (e : Env α) (s : Session α) (boot : Option (List (Objective α)))
    (evals : List (Vec α)) :
    let out := run e s (Op.estimate boot :: evals.map Op.eval)
    out.1.params = writeBack s.params (estimates e.names (estimate e.obj.like e.obj.ev e.fd e.opt e.bounds s.idValues).x) ∧
    out.1.idValues = s.idValues ∧
    out.2 = [estimateBoot e.obj.like e.obj.ev e.fd e.opt e.bounds s.idValues boot] := by
  simp [run, step, run_evals, estimateBoot_res]

/-- a second `estimate` on the same object (evaluations in between) starts from the same values
as the first one — the estimates are written into the formulas, not into the values the
estimation starts from — and therefore reports the same estimation -/
theorem reestimate_restarts {α : Type} [NumOps α] (e : Env α) (s : Session α) (b₁ b₂ : Option (List (Objective α)))
    (evals : List (Vec α)) :
    (run e s (Op.estimate b₁ :: (evals.map Op.eval ++ [Op.estimate b₂]))).2.map (·.res) =
      [estimate e.obj.like e.obj.ev e.fd e.opt e.bounds s.idValues,
       estimate e.obj.like e.obj.ev e.fd e.opt e.bounds s.idValues] := by
  simp [run, step, run_append, run_evals, estimateBoot_res]

/-! ### option plumbing (decision table per algorithm name) -/

/-- the names of `optimization.algorithms` are distinct keys, `'automatic'` runs
`simple_bounds`, every other accepted name runs its own entry -/
theorem algorithm_resolution :
    (∀ a ∈ Algo.all, Algo.parse a.name = some a) ∧ resolve "automatic" = some Algo.simpleBounds ∧
    (∀ a ∈ Algo.all, resolve a.name = some a) :=
  ⟨parse_name, resolve_automatic, resolve_name⟩

/-- which algorithms use the bounds they receive -/
theorem bound_aware_table :
    Algo.all.map (fun a => (a.name, a.boundAware)) =
      [("scipy", true), ("LS-newton", false), ("TR-newton", false), ("LS-BFGS", false), ("TR-BFGS", false),
       ("simple_bounds", true), ("simple_bounds_newton", true), ("simple_bounds_BFGS", true)] :=
  boundAware_table

/-- **Option plumbing, simple-bounds family** (every configuration): radius, enlarging factor
and maximum number of iterations of the TOML file reach the routine; the proportion of
analytical Hessians is 0/1 by model complexity for 'automatic', `second_derivatives` for
'simple_bounds', 1 for '…_newton', 0 for '…_BFGS'; `infeasible_cg` is passed by `BIOGEME` but
no wrapper forwards it. -/
theorem options_plumbing_simple_bounds {α : Type} [NumOps α] (c : Cfg α) (complex : Bool) :
    (c.algorithm = "automatic" → plumb c complex = some (.simpleBounds,
      { routine := "simple_bounds_newton_algorithm", kwargs := sbKwargs (.nat (if complex then 0 else 1)) c })) ∧
    (c.algorithm = "simple_bounds" → plumb c complex = some (.simpleBounds,
      { routine := "simple_bounds_newton_algorithm", kwargs := sbKwargs (.num c.secondDerivatives) c })) ∧
    (c.algorithm = "simple_bounds_newton" → plumb c complex = some (.simpleBoundsNewton,
      { routine := "simple_bounds_newton_algorithm", kwargs := sbKwargs (.nat 1) c })) ∧
    (c.algorithm = "simple_bounds_BFGS" → plumb c complex = some (.simpleBoundsBfgs,
      { routine := "simple_bounds_newton_algorithm", kwargs := sbKwargs (.nat 0) c })) :=
  ⟨plumb_automatic c complex, plumb_simple_bounds c complex, plumb_simple_bounds_newton c complex,
   plumb_simple_bounds_bfgs c complex⟩

/-- **Option plumbing, trust-region and line-search families, scipy, unknown names.** -/
theorem options_plumbing_other {α : Type} [NumOps α] (c : Cfg α) (complex : Bool) :
    (c.algorithm = "TR-newton" → plumb c complex = some (.trNewton,
      { routine := "newton_trust_region",
        kwargs := [("use_dogleg", .bool c.dogleg), ("maxiter", .nat c.maxIterations),
                   ("initial_radius", .num c.initialRadius)] })) ∧
    (c.algorithm = "TR-BFGS" → plumb c complex = some (.trBfgs,
      { routine := "bfgs_trust_region",
        kwargs := [("init_bfgs", .none), ("use_dogleg", .bool c.dogleg), ("maxiter", .nat c.maxIterations),
                   ("initial_radius", .num c.initialRadius)] })) ∧
    (c.algorithm = "LS-newton" → plumb c complex = some (.lsNewton,
      { routine := "newton_line_search", kwargs := [("maxiter", .nat c.maxIterations)] })) ∧
    (c.algorithm = "LS-BFGS" → plumb c complex = some (.lsBfgs,
      { routine := "bfgs_line_search", kwargs := [("init_bfgs", .none), ("maxiter", .nat c.maxIterations)] })) ∧
    (c.algorithm = "scipy" → plumb c complex = some (.scipy,
      { routine := "scipy.optimize.minimize", kwargs := [("ftol", .num machEps), ("gtol", .num gtolDefault)] })) ∧
    (c.algorithm ≠ "automatic" → (∀ a ∈ Algo.all, a.name ≠ c.algorithm) → plumb c complex = none) :=
  ⟨plumb_tr_newton c complex, plumb_tr_bfgs c complex, plumb_ls_newton c complex, plumb_ls_bfgs c complex,
   plumb_scipy c complex, plumb_unknown c complex⟩

/-! ### KKT points of concave problems -/

/-- **first-order inequality** of a concave differentiable likelihood on the box:
`L y ≤ L x + ∇L(x)·(y − x)` for any two feasible points (restriction to the segment). -/
theorem concave_first_order_box {n : ℕ} (lb ub : Fin n → Option ℝ) (L : (Fin n → ℝ) → ℝ)
    (hc : ConcaveOn ℝ (Box lb ub) L) (g x y : Fin n → ℝ) (hx : x ∈ Box lb ub) (hy : y ∈ Box lb ub)
    (hg : HasGrad L g x) : L y ≤ L x + ∑ i, g i * (y i - x i) := by
  have h := concave_first_order (Box lb ub) L hc x y hx hy (gradMap g) hg
  rw [gradMap_apply] at h
  simpa using h

/-- **A KKT point is a global maximum** of a concave differentiable likelihood on the box
(any dimension, any bound configuration: none, one-sided, two-sided, active or not). -/
theorem kkt_global_max {n : ℕ} (lb ub : Fin n → Option ℝ) (L : (Fin n → ℝ) → ℝ)
    (hc : ConcaveOn ℝ (Box lb ub) L) (g x : Fin n → ℝ) (hx : x ∈ Box lb ub)
    (hg : HasGrad L g x) (hk : IsKKT lb ub g x) : ∀ y ∈ Box lb ub, L y ≤ L x :=
  fun y hy => kkt_is_global_max lb ub L hc g x hx hg hk y hy

/-- **Algorithms agree**: two KKT points (e.g. returned by two algorithms, or from two
starting points) have the same likelihood. -/
theorem algorithms_agree {n : ℕ} (lb ub : Fin n → Option ℝ) (L : (Fin n → ℝ) → ℝ)
    (hc : ConcaveOn ℝ (Box lb ub) L) (g x g' x' : Fin n → ℝ) (hx : x ∈ Box lb ub) (hx' : x' ∈ Box lb ub)
    (hg : HasGrad L g x) (hg' : HasGrad L g' x') (hk : IsKKT lb ub g x) (hk' : IsKKT lb ub g' x') :
    L x = L x' :=
  le_antisymm (kkt_global_max lb ub L hc g' x' hx' hg' hk' x hx) (kkt_global_max lb ub L hc g x hx hg hk x' hx')

/-- at a KKT point the gradient vanishes in every direction not blocked by an active bound -/
theorem kkt_free_gradient_zero {n : ℕ} (lb ub : Fin n → Option ℝ) (g x : Fin n → ℝ) (h : IsKKT lb ub g x)
    (i : Fin n) (hu : ∀ u, ub i = some u → x i < u) (hl : ∀ l, lb i = some l → l < x i) : g i = 0 :=
  kkt_free_coordinate lb ub g x h i hu hl

/-- a-posteriori bound used on real runs: for any feasible y, `L y − L x` is at most the part
of `∇L(x)·(y − x)` with the wrong sign -/
theorem gap_bound {n : ℕ} (lb ub : Fin n → Option ℝ) (L : (Fin n → ℝ) → ℝ)
    (hc : ConcaveOn ℝ (Box lb ub) L) (g x y : Fin n → ℝ) (hx : x ∈ Box lb ub) (hy : y ∈ Box lb ub)
    (hg : HasGrad L g x) : L y - L x ≤ ∑ i, max (g i * (y i - x i)) 0 :=
  gap_le lb ub L hc g x hx hg y hy

/-- the executable predicates of the driver (tolerance 0) are the mathematical ones -/
theorem driver_predicates {n : ℕ} (lb ub : Fin n → Option ℝ) (g x : Fin n → ℝ) :
    (kktB 0 0 (List.ofFn fun i => (lb i, ub i)) (List.ofFn x) (List.ofFn g) = true ↔ IsKKT lb ub g x) ∧
    (inBox (List.ofFn fun i => (lb i, ub i)) (List.ofFn x) = true ↔ x ∈ Box lb ub) :=
  ⟨kktB_ofFn lb ub g x, inBox_ofFn lb ub x⟩


/-! ### round 3: call by call, saved iterations, null log likelihood, catalogs -/

/-- **`NegativeLikelihood._f/_f_g/_f_g_h`, call by call** (every number type): each method asks the
`BIOGEME` object for the *unscaled* likelihood of the *whole* sample, never for the BHHH matrix, for the
Hessian exactly in `_f_g_h`, through `calculate_likelihood` exactly in `_f`; and hands back the negated
value, the negated gradient (`_f_g`, `_f_g_h`) and the negated Hessian (`_f_g_h` only, `None` otherwise). -/
theorem neg_call_by_call {α : Type} [NumOps α] (like : Vec α → α) (ev : Vec α → Eval α) (x : Vec α) (k : NegKind) :
    (negFlags k).scaled = false ∧ (negFlags k).bhhh = false ∧ (negFlags k).batchNone = true ∧
    ((negFlags k).hessian = true ↔ k = .fgh) ∧ ((negFlags k).derivatives = false ↔ k = .f) ∧
    (k = .f → (negCall like ev k x).f = negF like x ∧ (negCall like ev k x).g = none ∧ (negCall like ev k x).h = none) ∧
    (k = .fg → (negCall like ev k x).f = (negFG ev x).1 ∧ (negCall like ev k x).g = some (vneg (ev x).g) ∧
        (negCall like ev k x).h = none) ∧
    (k = .fgh → (negCall like ev k x).f = (negFGH ev x).1 ∧ (negCall like ev k x).g = some (vneg (ev x).g) ∧
        (negCall like ev k x).h = some (mneg (ev x).h)) := by
  cases k <;> simp [negFlags, negCall, negFG, negFGH]

/-- over the reals, whatever the method, the value handed to the optimiser is minus the likelihood -/
theorem neg_call_value (like : Vec ℝ → ℝ) (ev : Vec ℝ → Eval ℝ) (hev : ∀ x, (ev x).f = like x) (x : Vec ℝ) (k : NegKind) :
    (negCall like ev k x).f = - like x := by
  cases k <;> simp [negCall, negFG, negFGH, negF_real, hev]

/-- **`estimate` with a saved iteration present** (every number type, any bootstrap request): the
content of the file is applied as `change_init_values` would (formulas *and* the values the estimation
starts from), the estimation is the stateless `estimate` from those values — so its initial log
likelihood is the likelihood of the *loaded* values —, the estimates are then written over the loaded
values, and the null log likelihood reported is the one the object holds. -/
theorem saved_estimate_starts_from_file {α : Type} [NumOps α] (e : EnvT α) (st : FState α)
    (boot : Option (List (Objective α))) (vals : List (String × α)) (hs : st.save = true) (hf : st.it.file = some vals) :
    let out := fstep e st (.estimate boot)
    let x0 := setIdValues e.names vals st.s.idValues
    out.2.map (·.rep) = some (estimateBoot e.obj.like e.obj.ev e.fd e.opt.toOpt e.bounds x0 boot) ∧
    out.1.s.params = writeBack (writeBack st.s.params vals)
      (estimates e.names (estimate e.obj.like e.obj.ev e.fd e.opt.toOpt e.bounds x0).x) ∧
    out.1.s.idValues = x0 ∧ out.2.map (·.nullLL) = some st.nullLL := by
  simp [fstep, hs, hf, loadSaved, step, EnvT.toEnv, estimateBoot_res]

/-- without a readable file, or with `save_iterations` off, `estimate` is the base operation -/
theorem unsaved_estimate_is_base {α : Type} [NumOps α] (e : EnvT α) (st : FState α)
    (boot : Option (List (Objective α))) (h : st.save = false ∨ st.it.file = none) :
    ((fstep e st (.estimate boot)).2.map (·.rep)) = (step e.toEnv st.s (.estimate boot)).2 ∧
    (fstep e st (.estimate boot)).1.s = (step e.toEnv st.s (.estimate boot)).1 := by
  rcases h with h | h
  · simp [fstep, h, step]
  · cases hsv : st.save <;> simp [fstep, h, hsv, loadSaved, step]

/-- **Every results object returned during any sequence of operations of the extended object**
(saving switched on or off at any time, files removed, evaluations with derivatives that rewrite the
file, estimations that load it, null log likelihood computed at any time) reports the likelihood at
its own point and the derivatives at that point (or none, for `quick_estimate`). -/
theorem flow_reports_consistent (e : EnvT ℝ) (hev : ∀ x, (e.obj.ev x).f = e.obj.like x)
    (st : FState ℝ) (ops : List (FOp ℝ)) :
    ∀ r ∈ (frun e st ops).2,
      r.rep.res.logLike = e.obj.like r.rep.res.x ∧
      ((r.rep.res.g = some (e.obj.ev r.rep.res.x).g ∧ r.rep.res.h = some (e.obj.ev r.rep.res.x).h ∧
          r.rep.res.bhhh = some (e.obj.ev r.rep.res.x).bhhh) ∨
       (r.rep.res.g = none ∧ r.rep.res.h = none ∧ r.rep.res.bhhh = none)) := by
  refine frun_forall e _ ?_ ops st
  intro st op r h
  obtain ⟨s, op', h'⟩ := fstep_report e st op r h
  exact step_consistent e.toEnv hev s op' r.rep h'

/-- the same under the optimiser's contract from every starting point: feasibility for a bound-aware
algorithm; a report of `estimate` carries an initial log likelihood not above the final one -/
theorem flow_reports_contract (e : EnvT ℝ) (aware : Bool) (hev : ∀ x, (e.obj.ev x).f = e.obj.like x)
    (hc : ∀ x0, OptContract e.opt.toOpt aware e.obj.like e.obj.ev e.bounds x0) (st : FState ℝ) (ops : List (FOp ℝ)) :
    ∀ r ∈ (frun e st ops).2,
      (aware = true → inBox e.bounds r.rep.res.x = true) ∧
      (r.rep.full = true → ∃ v, r.rep.res.initLogLike = some v ∧ v ≤ r.rep.res.logLike) := by
  refine frun_forall e _ ?_ ops st
  intro st op r h
  obtain ⟨s, op', h'⟩ := fstep_report e st op r h
  have hmem : r.rep ∈ (run e.toEnv s [op']).2 := by simp [run, h']
  exact session_reports_contract e.toEnv aware hev hc s [op'] r.rep hmem

/-- **What the file holds after an estimation** (`save_iterations` on, with or without bootstrapping —
saving is suspended during the re-estimations): if the returned
point is at least as good as every point at which the optimiser asked for derivatives (and the gradient
norm there is finite), the final evaluation rewrites the file with the estimates. -/
theorem saved_file_holds_estimates (e : EnvT ℝ) (st : FState ℝ) (hs : st.save = true) :
    let x0 := (if st.save then loadSaved e.names st.s st.it.file else st.s).idValues
    let out := e.opt (negF e.obj.like) (negFG e.obj.ev) (negFGH e.obj.ev) e.bounds x0
    gradNormFinite (e.obj.ev out.x).g = true → (∀ p ∈ out.evals, (e.obj.ev p).f ≤ (e.obj.ev out.x).f) →
    ∀ boot, (fstep e st (.estimate boot)).1.it = { best := some (e.obj.ev out.x).f, file := some (e.names.zip out.x) } := by
  intro x0 out hfin hbest boot
  have h1 : (fstep e st (.estimate boot)).1.it =
      saveEvals e.names e.obj.ev (saveEvals e.names e.obj.ev { best := none, file := st.it.file } out.evals) [out.x] := by
    simp [fstep, hs, saveEvals_append, out, x0]
  rw [h1]
  have hle := saveEvals_best_le e.names e.obj.ev (e.obj.ev out.x).f out.evals { best := none, file := st.it.file }
    (by intro b hb; simp at hb) hbest
  simpa [saveEvals] using saveEval_writes e.names _ out.x (e.obj.ev out.x).f (e.obj.ev out.x).g hfin hle

/-- **A second `estimate` with `save_iterations` on starts from the estimates of the first** (unlike
`reestimate_restarts`, the case without saving): whenever the file holds `names.zip x` for a point of
the right dimension, the estimation that follows is the stateless one from `x`. -/
theorem reestimate_saved_starts_from_file_point {α : Type} [NumOps α] (e : EnvT α) (st : FState α)
    (boot : Option (List (Objective α))) (x : Vec α) (hs : st.save = true) (hf : st.it.file = some (e.names.zip x))
    (hn : e.names.Nodup) (hx : x.length = e.names.length) (hv : st.s.idValues.length = e.names.length) :
    (fstep e st (.estimate boot)).2.map (·.rep) =
      some (estimateBoot e.obj.like e.obj.ev e.fd e.opt.toOpt e.bounds x boot) := by
  have h := (saved_estimate_starts_from_file e st boot (e.names.zip x) hs hf).1
  rw [setIdValues_zip e.names x st.s.idValues hn hx hv] at h
  exact h


/-- **The convergence flag does not enter the estimation flow**: two optimisers that return the same
points (whatever they say about convergence) leave the object in the same state — in particular the
same write-back of the estimates — and produce reports with the same point, likelihoods, derivatives
and bootstrap rows.  A run stopped before convergence is packaged and written back like any other. -/
theorem convergence_flag_irrelevant {α : Type} [NumOps α] (e : Env α) (s : Session α)
    (boot : Option (List (Objective α))) (opt' : Optimizer α)
    (h : ∀ f fg fgh b x0, (opt' f fg fgh b x0).x = (e.opt f fg fgh b x0).x) :
    let e' : Env α := { e with opt := opt' }
    (step e' s (.estimate boot)).1 = (step e s (.estimate boot)).1 ∧
    (step e' s (.estimate boot)).2.map (fun r => (r.res.x, r.res.logLike, r.res.initLogLike, r.res.g, r.res.h, r.res.bhhh, r.bootstrap)) =
      (step e s (.estimate boot)).2.map (fun r => (r.res.x, r.res.logLike, r.res.initLogLike, r.res.g, r.res.h, r.res.bhhh, r.bootstrap)) := by
  simp [step, estimateBoot, estimate, h]

/-- **Equal lower and upper bound**: a point of the box has exactly the pinned value in that coordinate
(so for a bound-aware algorithm under its contract the estimate of a pinned parameter is the pin). -/
theorem pinned_coordinate {n : ℕ} (lb ub : Fin n → Option ℝ) (x : Fin n → ℝ) (hx : x ∈ Box lb ub) (i : Fin n) (c : ℝ)
    (hl : lb i = some c) (hu : ub i = some c) : x i = c :=
  le_antisymm ((hx i).2 c hu) ((hx i).1 c hl)

/-- `calculate_likelihood` leaves no trace in any state; an evaluation *with derivatives* leaves none
when `save_iterations` is off (when it is on it may rewrite the file — see the example below) -/
theorem flow_evaluations_trace {α : Type} [NumOps α] (e : EnvT α) (st : FState α) (ops₁ ops₂ : List (FOp α)) (x : Vec α) :
    frun e st (ops₁ ++ FOp.like x :: ops₂) = frun e st (ops₁ ++ ops₂) ∧
    (st.save = false → fstep e st (.evalD x) = (st, none)) :=
  ⟨frun_append_like e x ops₂ ops₁ st, fstep_evalD_off e st x⟩

/-- **null log likelihood**: the value computed is `Σ_rows log(1 / #available)` — the log likelihood of
the model giving equal probability to the available alternatives — and it is not positive as soon as
every row has at least one available alternative. -/
theorem null_loglike_formula (rows : List (List ℝ)) :
    nullLogLike rows = (rows.map fun r => Real.log (1 / r.sum)).sum ∧
    ((∀ r ∈ rows, 1 ≤ r.sum) → nullLogLike rows ≤ 0) := by
  constructor
  · simp only [nullLogLike, NumR.sum_real]
    congr 1
    apply List.map_congr_left
    intro r _
    simp [NumR.sum_real, Real.log_inv]
  · intro h
    simp only [nullLogLike, NumR.sum_real]
    have hsum : ∀ l : List ℝ, (∀ v ∈ l, v ≤ 0) → l.sum ≤ 0 := by
      intro l
      induction l with
      | nil => intro _; simp
      | cons a t ih =>
        intro hl
        have h1 := hl a List.mem_cons_self
        have h2 := ih (fun v hv => hl v (List.mem_cons_of_mem _ hv))
        simp only [List.sum_cons]
        linarith
    apply hsum
    intro v hv
    obtain ⟨r, hr, rfl⟩ := List.mem_map.mp hv
    have : 0 ≤ Real.log r.sum := Real.log_nonneg (h r hr)
    simpa [NumR.sum_real] using this

/-- **`estimate_catalog`**: one results object per configuration, keyed by the configuration's
identifier in the order of the iterator; each one is consistent *for the likelihood of its own
configuration* at its own point, with derivatives exactly when `quick_estimate` is false. -/
theorem catalog_consistent (quick : Bool) (boot : Config ℝ → Option (List (Objective ℝ))) (cfgs : List (Config ℝ))
    (hev : ∀ c ∈ cfgs, ∀ x, (c.env.obj.ev x).f = c.env.obj.like x) :
    (estimateCatalog quick boot cfgs).map (·.1) = cfgs.map (·.id) ∧
    ∀ p ∈ estimateCatalog quick boot cfgs, ∃ c ∈ cfgs, p.1 = c.id ∧ Consistent c.env.obj p.2 ∧ p.2.full = !quick := by
  constructor
  · induction cfgs with
    | nil => simp [estimateCatalog]
    | cons c cs ih =>
      have ih' := ih (fun c' hc' => hev c' (List.mem_cons_of_mem _ hc'))
      unfold estimateCatalog at ih' ⊢
      cases quick <;> simp_all [step]
  · intro p hp
    unfold estimateCatalog at hp
    obtain ⟨c, hc, hpc⟩ := List.mem_filterMap.mp hp
    obtain ⟨r, hr, rfl⟩ := Option.map_eq_some_iff.mp hpc
    refine ⟨c, hc, rfl, step_consistent c.env (hev c hc) c.s0 _ r hr, ?_⟩
    cases quick <;> simp [step] at hr <;> subst hr <;> simp [Report.full, estimateBoot, estimate, quickEstimate]

/-! ### non-vacuity -/

/-- a concave likelihood with an active lower bound: L(b) = −b², box [1, ∞): b = 1 is a KKT
point (gradient −2 ≤ 0 blocked by the bound) and hence the constrained maximum -/
example : ∀ y ∈ Box (fun _ : Fin 1 => some (1 : ℝ)) (fun _ => none), (fun z : Fin 1 → ℝ => -(z 0) ^ 2) y ≤ -(1 : ℝ) ^ 2 := by
  have hc : ConcaveOn ℝ (Box (fun _ : Fin 1 => some (1 : ℝ)) (fun _ => none)) (fun z : Fin 1 → ℝ => -(z 0) ^ 2) := by
    apply ConvexOn.neg
    refine ⟨box_convex _ _, ?_⟩
    intro x _ y _ a b ha hb hab
    simp only [Pi.add_apply, Pi.smul_apply, smul_eq_mul]
    have hb' : b = 1 - a := by linarith
    subst hb'
    nlinarith [sq_nonneg (x 0 - y 0), mul_nonneg ha hb]
  have hx : (fun _ : Fin 1 => (1 : ℝ)) ∈ Box (fun _ : Fin 1 => some (1 : ℝ)) (fun _ => none) := by
    intro i; constructor
    · intro l hl; simp at hl; linarith
    · intro u hu; simp at hu
  have hg : HasGrad (fun z : Fin 1 → ℝ => -(z 0) ^ 2) (fun _ => (-2 : ℝ)) (fun _ => (1 : ℝ)) := by
    unfold HasGrad
    have h1 : HasFDerivAt (fun z : Fin 1 → ℝ => z 0) (ContinuousLinearMap.proj 0 : (Fin 1 → ℝ) →L[ℝ] ℝ) (fun _ => (1 : ℝ)) :=
      (ContinuousLinearMap.proj 0 : (Fin 1 → ℝ) →L[ℝ] ℝ).hasFDerivAt
    have h2 : HasFDerivAt (fun z : Fin 1 → ℝ => -(z 0) ^ 2) _ (fun _ => (1 : ℝ)) := (h1.pow 2).neg
    exact h2.congr_fderiv (ContinuousLinearMap.ext fun v => by simp [gradMap_apply])
  have hk : IsKKT (fun _ : Fin 1 => some (1 : ℝ)) (fun _ => none) (fun _ => (-2 : ℝ)) (fun _ => (1 : ℝ)) := by
    intro i; constructor
    · intro _; norm_num
    · intro h; exfalso; have := h 1 rfl; simp at this
  intro y hy
  have := kkt_global_max _ _ _ hc _ _ hx hg hk y hy
  simpa using this

/-- the contract is satisfiable: the optimiser that returns its starting point -/
example (like : Vec ℝ → ℝ) (ev : Vec ℝ → Eval ℝ) (x0 : Vec ℝ) :
    OptContract (fun _ _ _ _ x => ⟨x, false⟩) false like ev [] x0 :=
  ⟨rfl, fun h => Bool.noConfusion h, le_refl _⟩

/-- write-back on a concrete parameter list with a fixed parameter; `b10` already holds its
estimate (the guarded assignment is skipped, the value is the estimate all the same) -/
example : (writeBack [⟨"b2", (0 : ℝ), false⟩, ⟨"fix", 7, true⟩, ⟨"b10", 5, false⟩] (estimates ["b10", "b2"] [5, 3])).map (·.value)
    = [3, 7, 5] := by
  simp [writeBack, updateParam, estimates, List.lookup, Num.eq, NumOps.eq]

/-- a session: estimate with a two-sample bootstrap, an evaluation, then a second estimate without
bootstrapping — two results objects, one bootstrap row per sample in the first, none in the second -/
example (e : Env ℝ) (s : Session ℝ) (o₁ o₂ : Objective ℝ) (x : Vec ℝ) :
    ((run e s [Op.estimate (some [o₁, o₂]), Op.eval x, Op.estimate none]).2.map fun r => r.bootstrap.map List.length)
      = [some 2, none] := by
  simp [run, step, estimateBoot]

/-- the contract from every starting point is satisfiable (the optimiser that returns its
starting point, an algorithm that ignores bounds) -/
example (like : Vec ℝ → ℝ) (ev : Vec ℝ → Eval ℝ) (b : Bounds ℝ) :
    ∀ x0, OptContract (fun _ _ _ _ x => ⟨x, false⟩) false like ev b x0 :=
  fun _ => ⟨rfl, fun h => Bool.noConfusion h, le_refl _⟩

/-- with `save_iterations` on, an evaluation with derivatives *does* leave a trace: from a state without
file, evaluating at the point `[1]` (value 0, zero gradient) writes `b = 1` into the file, and the
estimation that follows starts from 1, not from the 5 the object held -/
example (e : EnvT ℝ) (s : Session ℝ) (hn : e.names = ["b"]) (hobj : e.obj.ev = fun _ => ⟨0, [0], [], []⟩)
    (hid : s.idValues = [5]) :
    let st : FState ℝ := { s := s, it := { best := none, file := none }, nullLL := none, save := true }
    (fstep e st (.evalD [1])).1.it.file = some [("b", 1)] ∧
    (fstep e (fstep e st (.evalD [1])).1 (.estimate none)).1.s.idValues = [1] := by
  have hfin : gradNormFinite ([0] : Vec ℝ) = true := by
    have h0 : (0 : ℝ) ≤ NumOps.ofScientific 17976931348623157 false 292 := by
      show (0 : ℝ) ≤ (OfScientific.ofScientific 17976931348623157 false 292 : ℝ)
      norm_num
    simp [gradNormFinite, isFinite, NumR.sum_real, h0]
  have h1 : (fstep e { s := s, it := { best := none, file := none }, nullLL := none, save := true } (.evalD [1])).1.it
      = { best := some 0, file := some [("b", 1)] } := by
    simp only [fstep, if_true, hobj, hn]
    rw [saveEval_writes _ _ _ _ _ hfin (by intro b hb; simp at hb)]
    rfl
  refine ⟨by rw [h1], ?_⟩
  have hs : (fstep e { s := s, it := { best := none, file := none }, nullLL := none, save := true } (.evalD [1])).1.save = true := by
    simp [fstep]
  have hss : (fstep e { s := s, it := { best := none, file := none }, nullLL := none, save := true } (.evalD [1])).1.s = s := by
    simp [fstep]
  have h2 := (saved_estimate_starts_from_file e _ none [("b", 1)] hs (by rw [h1])).2.2.1
  rw [h2, hss, hid, hn]
  simp [setIdValues, List.lookup]

/-- the null log likelihood of three rows with 3, 2 and 3 available alternatives -/
example : nullLogLike ([[1, 1, 1], [1, 0, 1], [1, 1, 1]] : List (List ℝ)) = Real.log (1 / 3) + (Real.log (1 / 2) + Real.log (1 / 3)) := by
  rw [(null_loglike_formula _).1]
  norm_num [List.sum_cons]
  simp only [← Real.log_inv]
  norm_num

/-- a catalog of two configurations estimated with `quick_estimate=False`: two results, in order -/
example (c₁ c₂ : Config ℝ) (boot : Config ℝ → Option (List (Objective ℝ))) :
    (estimateCatalog false boot [c₁, c₂]).map (·.1) = [c₁.id, c₂.id] := by
  simp [estimateCatalog, step]

/-- the three methods of `NegativeLikelihood` at a point of a concrete likelihood -/
example : ((negCall (fun _ => (2 : ℝ)) (fun _ => ⟨2, [3], [[4]], [[9]]⟩) .fgh []).g,
           (negCall (fun _ => (2 : ℝ)) (fun _ => ⟨2, [3], [[4]], [[9]]⟩) .fg []).h) = (some [-3], none) := by
  simp [negCall, negFGH, negFG, vneg]

/-- a pinned parameter: in the box `[2, 2] × (-∞, ∞)` the first coordinate of every point is 2 -/
example (x : Fin 2 → ℝ) (hx : x ∈ Box (fun i : Fin 2 => if i = 0 then some (2 : ℝ) else none) (fun i => if i = 0 then some 2 else none)) :
    x 0 = 2 :=
  pinned_coordinate _ _ x hx 0 2 (by simp) (by simp)

/-- two optimisers returning the start, one claiming convergence, the other not: same state afterwards -/
example (e : Env ℝ) (s : Session ℝ) (he : e.opt = fun _ _ _ _ x => ⟨x, false⟩) :
    (step { e with opt := fun _ _ _ _ x => ⟨x, true⟩ } s (.estimate none)).1 = (step e s (.estimate none)).1 :=
  (convergence_flag_irrelevant e s none (fun _ _ _ _ x => ⟨x, true⟩) (by intro f fg fgh b x0; rw [he])).1

end C07
